(** C21 — Storage read requests return exactly the stored series and points.

    Mirror of the read path
      v1/services/storage/store.go        ReadFilter / ReadGroup / validateArgs / findShardIDs
      v1/services/storage/series_cursor.go indexSeriesCursor (series x field rows, the
                                           two-stage predicate evaluation, [_measurement]/[_field]
                                           pseudo tags added with [models.Tags.Set])
      storage/reads/resultset.go           resultSet
      storage/reads/array_cursor.go(.gen)  multiShardArrayCursors.createCursor,
                                           *MultiShardArrayCursor.Next / nextArrayCursor
      storage/reads/group_resultset.go     groupBySort (sort key, nil sorts high), groupByNextGroup,
                                           groupNoneSort / groupNoneNextGroup, seriesHasPoints
      storage/reads/keymerger.go           KeyMerger (merged tag keys of a group)
    over a dataset = list of shards.  Strings are Coq [string]s compared bytewise
    ([String.compare] = [bytes.Compare]).

    Abstracted (tied by the correspondence run only): the protobuf predicate ->
    [influxql.Expr] conversion ([reads.NodeToExpr]), [influxql.Reduce], the TSI index's
    evaluation of the tag condition (modelled as direct evaluation on the series), the TSM
    engine's per-shard cursors (modelled as the stored, time-sorted points of the series
    field restricted to the request window), batching of array cursors, aggregates, field
    value predicates, regular expressions, field-type conflicts between shards.

    No proofs in this file. *)
From Coq Require Import String Ascii.
From Verif Require Import Base.Prelude.

(** * Data *)
Definition tag := (string * string)%type.
Definition tags := list tag.
Record series := mkS { s_name : string; s_tags : tags }.
Definition point := (Z * Z)%type.                      (* (time, value) *)
Record sdata := mkSD { sd_series : series; sd_fields : list (string * list point) }.
(** A shard: the time range [sh_start, sh_end) of its shard group and what was written. *)
Record shard := mkSh { sh_start : Z; sh_end : Z; sh_data : list sdata }.

Definition scmp := String.compare.
Definition sltb (a b : string) : bool := match scmp a b with Lt => true | _ => false end.

(** [tsdb.CompareSeriesKeys]: tag lists compared pairwise (key, then value), a proper
    prefix sorts first. *)
Fixpoint tags_cmp (a b : tags) : comparison :=
  match a, b with
  | [], [] => Eq
  | [], _ :: _ => Lt
  | _ :: _, [] => Gt
  | (k1, v1) :: a', (k2, v2) :: b' =>
      match scmp k1 k2 with
      | Eq => match scmp v1 v2 with Eq => tags_cmp a' b' | c => c end
      | c => c
      end
  end.
Definition series_cmp (s1 s2 : series) : comparison :=
  match scmp (s_name s1) (s_name s2) with
  | Eq => tags_cmp (s_tags s1) (s_tags s2)
  | c => c
  end.
Definition series_eqb (s1 s2 : series) : bool :=
  match series_cmp s1 s2 with Eq => true | _ => false end.

(** Sorted set insertion (drops duplicates) and stable insertion sort. *)
Section Sorting.
  Context {A : Type}.
  Fixpoint set_insert (cmp : A -> A -> comparison) (x : A) (l : list A) : list A :=
    match l with
    | [] => [x]
    | y :: r => match cmp x y with
                | Lt => x :: l
                | Eq => l
                | Gt => y :: set_insert cmp x r
                end
    end.
  Definition to_set (cmp : A -> A -> comparison) (l : list A) : list A :=
    fold_right (set_insert cmp) [] l.
  (** insert [x] before the first element that is not smaller than it: with [fold_right]
      this is a stable sort. *)
  Fixpoint ins (ltb : A -> A -> bool) (x : A) (l : list A) : list A :=
    match l with
    | [] => [x]
    | y :: r => if ltb y x then y :: ins ltb x r else x :: l
    end.
  Definition isort (ltb : A -> A -> bool) (l : list A) : list A := fold_right (ins ltb) [] l.
End Sorting.

(** * Predicates *)
Inductive pred :=
| PTrue
| PCmp (neq : bool) (k v : string)       (* tag/_measurement/_field  = / !=  literal *)
| PAnd (a b : pred)
| POr (a b : pred).

Definition K_MEAS : string := "_measurement".
Definition K_FIELD : string := "_field".

Fixpoint tags_get (t : tags) (k : string) : option string :=
  match t with
  | [] => None
  | (k', v) :: r => if String.eqb k' k then Some v else tags_get r k
  end.

(** [indexSeriesCursor.Value]: a missing tag evaluates to the empty string. *)
Definition ref_value (s : series) (f : string) (k : string) : string :=
  if String.eqb k K_MEAS then s_name s
  else if String.eqb k K_FIELD then f
  else match tags_get (s_tags s) k with Some v => v | None => EmptyString end.

Fixpoint eval (p : pred) (s : series) (f : string) : bool :=
  match p with
  | PTrue => true
  | PCmp neq k v => let e := String.eqb (ref_value s f k) v in if neq then negb e else e
  | PAnd a b => eval a s f && eval b s f
  | POr a b => eval a s f || eval b s f
  end.

(** [RewriteExprRemoveFieldKeyAndValue]: every comparison on [_field] becomes [true];
    the result is the condition handed to the index. *)
Fixpoint index_cond (p : pred) : pred :=
  match p with
  | PCmp _ k _ => if String.eqb k K_FIELD then PTrue else p
  | PAnd a b => PAnd (index_cond a) (index_cond b)
  | POr a b => POr (index_cond a) (index_cond b)
  | PTrue => PTrue
  end.

Definition opt_eval (p : option pred) s f := match p with None => true | Some p => eval p s f end.
Definition opt_index_eval (p : option pred) s :=
  match p with None => true | Some p => eval (index_cond p) s EmptyString end.

(** * Request window, shard selection *)
Definition MinNanoTime : Z := (-9223372036854775806)%Z.
Definition MaxNanoTime : Z := 9223372036854775806%Z.
(** [validateArgs] *)
Definition clamp_start (s : Z) : Z := if (s <=? MinNanoTime)%Z then MinNanoTime else s.
Definition clamp_end (e : Z) : Z := if (e >=? MaxNanoTime)%Z then MaxNanoTime else e.

(** [ShardGroupInfo.Overlaps(min,max)]: [!Start.After(max) && End.After(min)]. *)
Definition overlaps (lo hi : Z) (sh : shard) : bool :=
  (sh_start sh <=? hi)%Z && (lo <? sh_end sh)%Z.
(** [meta.ShardGroupInfos.Less]: by end time, then start time. *)
Definition sg_ltb (a b : shard) : bool :=
  if (sh_end a =? sh_end b)%Z then (sh_start a <? sh_start b)%Z else (sh_end a <? sh_end b)%Z.
(** [findShardIDs] (ascending). *)
Definition select_shards (shs : list shard) (lo hi : Z) : list shard :=
  isort sg_ltb (filter (overlaps lo hi) shs).

(** * Series rows *)
Definition shard_series (sh : shard) : list series := map sd_series (sh_data sh).
Definition shard_fields (sh : shard) (name : string) : list string :=
  flat_map (fun sd => if String.eqb (s_name (sd_series sd)) name
                      then map fst (sd_fields sd) else []) (sh_data sh).
(** [Shards.FieldKeysByMeasurement]: sorted, de-duplicated union over the shards. *)
Definition fields_of (shs : list shard) (name : string) : list string :=
  to_set scmp (flat_map (fun sh => shard_fields sh name) shs).
(** the series of the merged index set, in [CompareSeriesKeys] order *)
Definition all_series (shs : list shard) : list series :=
  to_set series_cmp (flat_map shard_series shs).

(** [models.Tags.Set] on a key-sorted tag list: replace, or insert in key order. *)
Fixpoint tags_set (t : tags) (k v : string) : tags :=
  match t with
  | [] => [(k, v)]
  | (k', v') :: r => match scmp k k' with
                     | Eq => (k, v) :: r
                     | Lt => (k, v) :: t
                     | Gt => (k', v') :: tags_set r k v
                     end
  end.
Definition row_tags (s : series) (f : string) : tags :=
  tags_set (tags_set (s_tags s) K_MEAS (s_name s)) K_FIELD f.

(** [indexSeriesCursor]: the series accepted by the index condition, each paired with every
    field key of its measurement for which the full condition holds. *)
Definition series_rows (shs : list shard) (p : option pred) : list (series * string) :=
  flat_map (fun s => map (fun f => (s, f))
                       (filter (fun f => opt_eval p s f) (fields_of shs (s_name s))))
           (filter (opt_index_eval p) (all_series shs)).

(** * Points: the multi-shard array cursor *)
Definition shard_points (sh : shard) (s : series) (f : string) : list point :=
  flat_map (fun sd => if series_eqb (sd_series sd) s
                      then flat_map (fun fp => if String.eqb (fst fp) f then snd fp else [])
                                    (sd_fields sd)
                      else []) (sh_data sh).
(** cursor request window is [lo, hi] inclusive, hi = end - 1 *)
Definition in_win (lo hi : Z) (pt : point) : bool := (lo <=? fst pt)%Z && (fst pt <=? hi)%Z.
Definition shard_cursor (lo hi : Z) (s : series) (f : string) (sh : shard) : list point :=
  filter (in_win lo hi) (shard_points sh s f).
(** concatenation of the per-shard cursors in shard order *)
Definition multi_cursor (shs : list shard) (lo hi : Z) (s : series) (f : string) : list point :=
  flat_map (shard_cursor lo hi s f) shs.

(** The cursor as the state machine of [*MultiShardArrayCursor.Next / nextArrayCursor]:
    a per-shard cursor is the list of its remaining non-empty batches; [Next] returns the next
    batch of the current cursor and, when that is empty, moves on to the following shards. *)
Definition batches := list (list point).
Definition cur_next (c : batches) : list point * batches :=
  match c with [] => ([], []) | b :: r => (b, r) end.
Fixpoint ms_next (cur : batches) (rest : list batches) : list point * batches * list batches :=
  match cur_next cur with
  | (b :: bs, cur') => (b :: bs, cur', rest)
  | ([], cur') =>
      match rest with
      | [] => ([], cur', [])
      | c :: rest' => ms_next c rest'
      end
  end.
(** drain: call [Next] until it returns an empty batch *)
Fixpoint ms_drain (fuel : nat) (cur : batches) (rest : list batches) : option (list point) :=
  match fuel with
  | O => None
  | S n => match ms_next cur rest with
           | ([], _, _) => Some []
           | (b, cur', rest') =>
               match ms_drain n cur' rest' with Some r => Some (b ++ r) | None => None end
           end
  end.

(** * ReadFilter *)
Definition row := (tags * list point)%type.
Definition read_filter (shs : list shard) (start end_ : Z) (p : option pred) : list row :=
  let lo := clamp_start start in
  let e := clamp_end end_ in
  let sel := select_shards shs lo e in
  map (fun sf => (row_tags (fst sf) (snd sf), multi_cursor sel lo (e - 1) (fst sf) (snd sf)))
      (series_rows sel p).

(** * ReadGroup *)
Definition NUL : string := String (ascii_of_N 0) EmptyString.
Definition NILHI : string := String (ascii_of_N 255) EmptyString.
Definition nonempty_opt (o : option string) : option string :=
  match o with Some EmptyString => None | o => o end.
(** [groupBySort]: value or the nil marker 0xff, each followed by a NUL separator. *)
Fixpoint sort_key (keys : list string) (t : tags) : string :=
  match keys with
  | [] => EmptyString
  | k :: r =>
      let v := match nonempty_opt (tags_get t k) with Some v => v | None => NILHI end in
      String.append v (String.append NUL (sort_key r t))
  end.
Definition part_vals (keys : list string) (t : tags) : list (option string) :=
  map (tags_get t) keys.

(** [KeyMerger.MergeKeys] on key-sorted inputs: sorted union. *)
Fixpoint merge_keys (a : list string) : list string -> list string :=
  match a with
  | [] => fun b => b
  | x :: a' =>
      fix go (b : list string) : list string :=
        match b with
        | [] => a
        | y :: b' =>
            match scmp x y with
            | Lt => x :: merge_keys a' b
            | Gt => y :: go b'
            | Eq => x :: merge_keys a' b'
            end
        end
  end.
Definition merged_keys (rows : list row) : list string :=
  fold_left (fun acc r => merge_keys acc (map fst (fst r))) rows [].

Record group := mkG { g_vals : list (option string); g_keys : list string; g_rows : list row }.

Definition has_points (r : row) : bool := match snd r with [] => false | _ => true end.

(** consecutive rows with equal sort key form one group *)
Fixpoint take_group (k : string) (l : list (string * row)) : list row * list (string * row) :=
  match l with
  | [] => ([], [])
  | (k', r) :: l' =>
      if String.eqb k k' then let '(g, rest) := take_group k l' in (r :: g, rest)
      else ([], l)
  end.
Fixpoint split_groups (fuel : nat) (keys : list string) (l : list (string * row)) : list group :=
  match fuel, l with
  | O, _ => []
  | _, [] => []
  | S n, (k, r) :: l' =>
      let '(g, rest) := take_group k l' in
      mkG (part_vals keys (fst r)) (merged_keys (r :: g)) (r :: g) :: split_groups n keys rest
  end.

Inductive gmode := GroupBy | GroupNone.

Definition read_group (shs : list shard) (start end_ : Z) (p : option pred)
           (mode : gmode) (keys : list string) (all_time : bool) : list group :=
  let rows := read_filter shs start end_ p in
  let kept := filter (fun r => all_time || has_points r) rows in
  match mode with
  | GroupBy =>
      let keyed := map (fun r => (sort_key keys (fst r), r)) kept in
      let sorted := isort (fun a b => sltb (fst a) (fst b)) keyed in
      split_groups (length sorted) keys sorted
  | GroupNone =>
      match kept with
      | [] => []                                  (* nil result set *)
      | _ => [mkG [] (merged_keys kept) rows]     (* the cursor iterates over ALL rows *)
      end
  end.

(** * Specification (independent of shard selection, clamping, sorting algorithm) *)
Definition all_points (shs : list shard) (s : series) (f : string) : list point :=
  flat_map (fun sh => shard_points sh s f) shs.
Definition spec_points (shs : list shard) (start end_ : Z) (s : series) (f : string) : list point :=
  isort (fun a b => (fst a <? fst b)%Z)
        (filter (fun pt => (start <=? fst pt)%Z && (fst pt <? end_)%Z) (all_points shs s f)).
Definition sf_cmp (a b : series * string) : comparison :=
  match series_cmp (fst a) (fst b) with Eq => scmp (snd a) (snd b) | c => c end.
Definition stored_pairs (shs : list shard) : list (series * string) :=
  to_set sf_cmp (flat_map (fun sh => flat_map (fun sd => map (fun fp => (sd_series sd, fst fp))
                                                           (sd_fields sd)) (sh_data sh)) shs).
(** every stored series x field that satisfies the predicate and has a point in [start,end),
    once, in (series key, field) order, with exactly its points in time order *)
Definition spec_filter (shs : list shard) (start end_ : Z) (p : option pred) : list row :=
  filter has_points
    (map (fun sf => (row_tags (fst sf) (snd sf), spec_points shs start end_ (fst sf) (snd sf)))
         (filter (fun sf => opt_eval p (fst sf) (snd sf)) (stored_pairs shs))).

(** * Equalities for the judge *)
Definition tag_eqb (a b : tag) := String.eqb (fst a) (fst b) && String.eqb (snd a) (snd b).
Definition tags_eqb := list_eqb tag_eqb.
Definition point_eqb (a b : point) := (fst a =? fst b)%Z && (snd a =? snd b)%Z.
Definition row_eqb (a b : row) := tags_eqb (fst a) (fst b) && list_eqb point_eqb (snd a) (snd b).
Definition ostr_eqb := option_eqb String.eqb.

(** multiset equality of row lists (the order of the series inside one group is that of
    Go's unstable [sort.Slice] and is not an observable of the property) *)
Fixpoint remove1 (r : row) (l : list row) : option (list row) :=
  match l with
  | [] => None
  | x :: l' => if row_eqb r x then Some l'
               else match remove1 r l' with Some l'' => Some (x :: l'') | None => None end
  end.
Fixpoint perm_eqb (a b : list row) : bool :=
  match a with
  | [] => match b with [] => true | _ => false end
  | r :: a' => match remove1 r b with Some b' => perm_eqb a' b' | None => false end
  end.
Definition group_eqb (a b : group) :=
  list_eqb ostr_eqb (g_vals a) (g_vals b) && list_eqb String.eqb (g_keys a) (g_keys b)
  && perm_eqb (g_rows a) (g_rows b).

(** * Oracle for groups *)
(** tuple order of partition values: bytewise, a missing tag sorts after every value *)
Definition oval_cmp (a b : option string) : comparison :=
  match a, b with
  | None, None => Eq
  | None, Some _ => Gt
  | Some _, None => Lt
  | Some x, Some y => scmp x y
  end.
Fixpoint tuple_cmp (a b : list (option string)) : comparison :=
  match a, b with
  | [], [] => Eq
  | [], _ => Lt
  | _, [] => Gt
  | x :: a', y :: b' => match oval_cmp x y with Eq => tuple_cmp a' b' | c => c end
  end.
Fixpoint strictly_sorted (l : list (list (option string))) : bool :=
  match l with
  | [] => true
  | x :: r => match r with
              | [] => true
              | y :: _ => match tuple_cmp x y with Lt => strictly_sorted r | _ => false end
              end
  end.

Definition group_oracle (spec : list row) (mode : gmode) (keys : list string) (all_time : bool)
           (gs : list group) : bool :=
  (* the rows with points of all groups are exactly the rows of the filter read *)
  perm_eqb (filter has_points (flat_map g_rows gs)) spec
  && match mode with
     | GroupBy =>
         (* every row carries the partition values of its group, no group is empty *)
         forallb (fun g => negb (match g_rows g with [] => true | _ => false end)
                           && forallb (fun r => list_eqb ostr_eqb (part_vals keys (fst r)) (g_vals g))
                                      (g_rows g)) gs
         (* groups strictly increasing by partition key, hence pairwise distinct *)
         && strictly_sorted (map g_vals gs)
         && (all_time || forallb (fun g => forallb has_points (g_rows g)) gs)
     | GroupNone =>
         match gs with
         | [] => true
         | [g] => match g_vals g with [] => true | _ => false end
         | _ => false
         end
     end.

(** * Correspondence case *)
Inductive request :=
| RFilter
| RGroup (mode : gmode) (keys : list string) (all_time : bool).

Record case := mkCase {
  c_shards : list shard;
  c_start : Z; c_end : Z;
  c_pred : option pred;
  c_req : request;
  c_rows : list row;        (* ReadFilter output (empty for group requests) *)
  c_groups : list group     (* ReadGroup output (empty for filter requests) *)
}.

Definition check (c : case) : verdict :=
  let spec := spec_filter (c_shards c) (c_start c) (c_end c) (c_pred c) in
  match c_req c with
  | RFilter =>
      let m := read_filter (c_shards c) (c_start c) (c_end c) (c_pred c) in
      judge (list_eqb row_eqb (c_rows c) m)
            (list_eqb row_eqb (filter has_points (c_rows c)) spec)
  | RGroup mode keys all_time =>
      let m := read_group (c_shards c) (c_start c) (c_end c) (c_pred c) mode keys all_time in
      judge (list_eqb group_eqb (c_groups c) m)
            (group_oracle spec mode keys all_time (c_groups c))
  end.
