(** C04 — proofs (work in progress). *)
From Verif Require Import Base.Prelude Model.C37 Proofs.C37 Model.C04.
Local Open Scope Z_scope.

Section Proofs.
  Context {V : Type}.

  Lemma chunk_size_bound (size : nat) (dst : list (blk V)) mv :
    (0 < size)%nat ->
    forall b, In b (fst (chunk size dst mv)) -> In b dst \/ (length (b_vals b) <= size)%nat.
  Proof.
    intros Hs b. unfold chunk.
    destruct (size <? length mv)%nat eqn:E1.
    - cbn [fst]. rewrite in_app_iff. intros [H|[<-|[]]]; [auto|right]. cbn. rewrite firstn_length. lia.
    - destruct (0 <? length mv)%nat eqn:E2; cbn [fst].
      + rewrite in_app_iff. intros [H|[<-|[]]]; [auto|right]. cbn.
        apply Nat.ltb_ge in E1. exact E1.
      + auto.
  Qed.
End Proofs.
