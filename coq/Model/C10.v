(** C10 — A field keeps a single type, persistently.

    Mirror of /repo/tsdb/shard.go:
      MeasurementFields.CreateFieldIfNotExists (LoadOrStore; conflict iff stored type <> new),
      MeasurementFieldSet (CreateFieldsIfNotExists / Delete / IsEmpty),
      marshalFieldChanges (8-byte little-endian length prefix + protobuf FieldChangeSet; every
        change is logged, the deletions built by MeasurementsToFieldChangeDeletions without Field),
      appendToChangesFile (O_CREATE|O_APPEND, truncate to last known good size, one write),
      readSizePlusBuffer / loadFieldChangeSet / loadAllFieldChanges (stop at a short record),
      ApplyChanges (changes older than the last deletion of their measurement are skipped; fold;
        error at the first conflicting add; then WriteToFile),
      WriteToFile (tmp + rename, or remove when empty; then remove tmp and the change log),
      MeasurementFieldSet.Close (WriteToFile iff the change log exists),
    of /repo/tsdb/field_validator.go: ValidateAndCreateFields,
    and of the part of tsdb/engine/tsm1/engine.go that decides when a measurement's fields are
    deleted (DeleteMeasurement -> cleanupMeasurement -> fieldset.Save(deletions)).

    Names are byte strings ([list N], every element < 256); field types are the numeric values
    of influxql.DataType (1 float, 2 integer, 3 string, 4 boolean, 9 unsigned). *)
From Verif Require Import Base.Prelude.

Definition name := list N.
Definition name_eqb : name -> name -> bool := list_eqb N.eqb.

(** * Association lists keyed by names *)
Fixpoint alookup {A} (k : name) (l : list (name * A)) : option A :=
  match l with
  | [] => None
  | (k', v) :: r => if name_eqb k' k then Some v else alookup k r
  end.

Fixpoint aset {A} (k : name) (v : A) (l : list (name * A)) : list (name * A) :=
  match l with
  | [] => [(k, v)]
  | (k', v') :: r => if name_eqb k' k then (k, v) :: r else (k', v') :: aset k v r
  end.

Fixpoint aremove {A} (k : name) (l : list (name * A)) : list (name * A) :=
  match l with
  | [] => []
  | (k', v') :: r => if name_eqb k' k then aremove k r else (k', v') :: aremove k r
  end.

(** * The in-memory schema: measurement -> field -> type *)
Definition fields := list (name * N).
Definition schema := list (name * fields).

Inductive cres := Created | Existed | Conflict (stored : N).

(** MeasurementFields.CreateFieldIfNotExists: [LoadOrStore], then compare the types. *)
Definition mf_create (fs : fields) (f : name) (t : N) : fields * cres :=
  match alookup f fs with
  | Some t0 => if N.eqb t0 t then (fs, Existed) else (fs, Conflict t0)
  | None => (aset f t fs, Created)
  end.

Definition meas_fields (s : schema) (m : name) : fields :=
  match alookup m s with Some fs => fs | None => [] end.

(** MeasurementFieldSet.CreateFieldsIfNotExists *)
Definition ensure_meas (s : schema) (m : name) : schema :=
  match alookup m s with Some _ => s | None => aset m [] s end.

Definition create_field (s : schema) (m f : name) (t : N) : schema * cres :=
  let '(fs', r) := mf_create (meas_fields s m) f t in (aset m fs' s, r).

Definition drop_meas (s : schema) (m : name) : schema := aremove m s.

Definition ftype (s : schema) (m f : name) : option N :=
  match alookup m s with Some fs => alookup f fs | None => None end.

(** Schemas are compared as finite maps (measurement, field) -> type; a measurement with no
    field is not observable through types. *)
Definition fields_sub (a b : fields) : bool :=
  forallb (fun '(f, t) => option_eqb N.eqb (alookup f a) (alookup f b)) a.
Definition schema_sub (a b : schema) : bool :=
  forallb (fun '(m, _) =>
     forallb (fun '(f, _) => option_eqb N.eqb (ftype a m f) (ftype b m f)) (meas_fields a m)) a.
Definition schema_eqb (a b : schema) : bool := schema_sub a b && schema_sub b a.

(** * Points as the field validator sees them *)
Record pfield := { f_key : name; f_type : N; f_big : bool; f_val : Z }.
(** [f_big]: a string value longer than MaxFieldValueLength. *)

Definition TIME : name := [116; 105; 109; 101]%N.
Definition T_STRING : N := 3%N.

(** One logged change (internal.MeasurementFieldChange). *)
Record pchange := { pc_meas : name; pc_field : bool; pc_fname : name; pc_ftype : N; pc_ct : N }.
(** [pc_field = false]: the change carries no Field (a measurement deletion). *)
Definition CT_ADD : N := 0%N.
Definition CT_DEL : N := 1%N.

Inductive vres := VOk | VStripped | VDropped.

(** ValidateAndCreateFields, field by field in the point's order.  Fields created before the
    rejecting field stay created (and are returned for saving). *)
Fixpoint vcf (s : schema) (m : name) (fl : list pfield) (created : list pchange) (stripped : bool)
  : schema * list pchange * vres :=
  match fl with
  | [] => (s, created, if stripped then VStripped else VOk)
  | f :: r =>
      if f_big f && N.eqb (f_type f) T_STRING then (s, created, VDropped)
      else if name_eqb (f_key f) TIME then vcf s m r created true
      else
        let '(s', res) := create_field s m (f_key f) (f_type f) in
        match res with
        | Conflict _ => (s, created, VDropped)
        | Created =>
            vcf s' m r (created ++ [{| pc_meas := m; pc_field := true; pc_fname := f_key f; pc_ftype := f_type f; pc_ct := CT_ADD |}]) stripped
        | Existed => vcf s m r created stripped
        end
  end.

Definition validate_point (s : schema) (m : name) (fl : list pfield) : schema * list pchange * vres :=
  vcf (ensure_meas s m) m fl [] false.

(** * The change log, byte level *)
Fixpoint le_enc (n : nat) (v : N) : list N :=
  match n with O => [] | S k => (v mod 256)%N :: le_enc k (v / 256)%N end.
(** Decoding of up to [n] bytes; missing bytes count as zero (the Go code ignores the byte
    count returned by the single [r.Read(numBuf[:])]). *)
Fixpoint le_dec (n : nat) (bs : list N) : N :=
  match n with
  | O => 0%N
  | S k => match bs with [] => 0%N | b :: r => (b + 256 * le_dec k r)%N end
  end.

Definition frame (payload : list N) : list N := le_enc 8 (N.of_nat (length payload)) ++ payload.

Inductive rec_res := RecOK (rs : list (list pchange)) | RecErr.

(** loadAllFieldChanges: read records until EOF / short read; an undecodable record is an error. *)
Fixpoint recover_fuel (dec : list N -> option (list pchange)) (fuel : nat) (bs : list N) : rec_res :=
  match fuel with
  | O => RecErr
  | S k =>
      match bs with
      | [] => RecOK []                                  (* Read -> io.EOF *)
      | _ =>
          let size := N.to_nat (le_dec 8 bs) in
          let rest := skipn 8 bs in
          if (length rest <? size)%nat then RecOK []    (* io.EOF / io.ErrUnexpectedEOF *)
          else match dec (firstn size rest) with
               | None => RecErr
               | Some r =>
                   match recover_fuel dec k (skipn size rest) with
                   | RecOK rs => RecOK (r :: rs)
                   | RecErr => RecErr
                   end
               end
      end
  end.
Definition recover dec (bs : list N) : rec_res := recover_fuel dec (S (length bs)) bs.

(** ApplyChanges' loop.  [inr s] = error at a conflicting add ([s] = what had been applied).
    A change without a Field that is not a deletion is skipped. *)
Definition apply_change (s : schema) (c : pchange) : schema + schema :=
  if N.eqb (pc_ct c) CT_DEL then inl (drop_meas s (pc_meas c))
  else if negb (pc_field c) then inl s
  else
    let s1 := ensure_meas s (pc_meas c) in
    let '(s', r) := create_field s1 (pc_meas c) (pc_fname c) (pc_ftype c) in
    match r with Conflict _ => inr s1 | _ => inl s' end.

Fixpoint apply_changes (s : schema) (cs : list pchange) : schema + schema :=
  match cs with
  | [] => inl s
  | c :: r => match apply_change s c with inl s' => apply_changes s' r | inr e => inr e end
  end.

(** A measurement deletion supersedes every earlier change of that measurement: ApplyChanges
    skips every change whose index is smaller than the index of the last deletion of its
    measurement. *)
Definition has_del (m : name) (cs : list pchange) : bool :=
  existsb (fun c => N.eqb (pc_ct c) CT_DEL && name_eqb (pc_meas c) m) cs.
Fixpoint live (cs : list pchange) : list pchange :=
  match cs with
  | [] => []
  | c :: r => if has_del (pc_meas c) r then live r else c :: live r
  end.
Definition apply_log (s : schema) (cs : list pchange) : schema + schema := apply_changes s (live cs).

(** * The protobuf encoding of FieldChangeSet (proto3, fields in number order) *)
Fixpoint varint_fuel (fuel : nat) (n : N) : list N :=
  match fuel with
  | O => []
  | S k => if (n <? 128)%N then [n] else (n mod 128 + 128)%N :: varint_fuel k (n / 128)%N
  end.
Definition varint (n : N) : list N := varint_fuel 10 n.
Definition pb_bytes (tag : N) (b : list N) : list N :=
  match b with [] => [] | _ => tag :: varint (N.of_nat (length b)) ++ b end.
Definition pb_msg (tag : N) (b : list N) : list N := tag :: varint (N.of_nat (length b)) ++ b.
Definition pb_int (tag : N) (v : N) : list N := if N.eqb v 0 then [] else tag :: varint v.

Definition pb_enc_change (c : pchange) : list N :=
  pb_bytes 10 (pc_meas c) ++
  (if pc_field c then pb_msg 18 (pb_bytes 10 (pc_fname c) ++ pb_int 16 (pc_ftype c)) else []) ++
  pb_int 24 (pc_ct c).
Definition pb_enc (cs : list pchange) : list N := concat (map (fun c => pb_msg 10 (pb_enc_change c)) cs).

(** Decoder for the canonical encoding above (anything else: [None]). *)
Fixpoint dec_varint (fuel : nat) (bs : list N) : option (N * list N) :=
  match fuel with
  | O => None
  | S k => match bs with
           | [] => None
           | b :: r => if (b <? 128)%N then Some (b, r)
                       else match dec_varint k r with
                            | Some (v, r') => Some ((b - 128) + 128 * v, r')%N
                            | None => None
                            end
           end
  end.
Definition take_n (n : N) (bs : list N) : option (list N * list N) :=
  let k := N.to_nat n in
  if (length bs <? k)%nat then None else Some (firstn k bs, skipn k bs).
(** optional length-delimited field with the given tag *)
Definition dec_opt_bytes (tag : N) (bs : list N) : option (list N * list N) :=
  match bs with
  | b :: r => if N.eqb b tag then
                match dec_varint 10 r with
                | Some (n, r') => take_n n r'
                | None => None
                end
              else Some ([], bs)
  | [] => Some ([], [])
  end.
Definition dec_opt_int (tag : N) (bs : list N) : option (N * list N) :=
  match bs with
  | b :: r => if N.eqb b tag then dec_varint 10 r else Some (0%N, bs)
  | [] => Some (0%N, [])
  end.
Definition pb_dec_change (bs : list N) : option pchange :=
  match dec_opt_bytes 10 bs with
  | Some (m, r1) =>
      match r1 with
      | 18%N :: r2 =>
          match dec_varint 10 r2 with
          | Some (n, r3) =>
              match take_n n r3 with
              | Some (fm, r4) =>
                  match dec_opt_bytes 10 fm with
                  | Some (fname, q1) =>
                      match dec_opt_int 16 q1 with
                      | Some (ty, []) =>
                          match dec_opt_int 24 r4 with
                          | Some (ct, []) => Some {| pc_meas := m; pc_field := true; pc_fname := fname; pc_ftype := ty; pc_ct := ct |}
                          | _ => None
                          end
                      | _ => None
                      end
                  | None => None
                  end
              | None => None
              end
          | None => None
          end
      | _ =>
          match dec_opt_int 24 r1 with
          | Some (ct, []) => Some {| pc_meas := m; pc_field := false; pc_fname := []; pc_ftype := 0; pc_ct := ct |}
          | _ => None
          end
      end
  | None => None
  end.
Fixpoint pb_dec_fuel (fuel : nat) (bs : list N) : option (list pchange) :=
  match fuel with
  | O => None
  | S k =>
      match bs with
      | [] => Some []
      | 10%N :: r =>
          match dec_varint 10 r with
          | Some (n, r1) =>
              match take_n n r1 with
              | Some (cm, r2) =>
                  match pb_dec_change cm, pb_dec_fuel k r2 with
                  | Some c, Some cs => Some (c :: cs)
                  | _, _ => None
                  end
              | None => None
              end
          | None => None
          end
      | _ => None
      end
  end.
Definition pb_dec (bs : list N) : option (list pchange) := pb_dec_fuel (S (length bs)) bs.

(** * Files of the field index and the process state *)
Record disk := { d_snap : option schema; d_tmp : bool; d_log : option (list N) }.
Definition disk0 : disk := {| d_snap := None; d_tmp := false; d_log := None |}.

(** atomic file-system steps (each is one system call of the Go code) *)
Inductive dstep :=
| SOpenLog                      (* OpenFile(O_CREATE|O_APPEND) *)
| STruncLog (n : nat)           (* fd.Truncate(changeFileSize) *)
| SAppend (bs : list N)         (* fd.Write(b): may be torn by a crash *)
| SWriteTmp                     (* create + write fields.idx.tmp *)
| SRename (s : schema)          (* rename tmp -> fields.idx, sync dir *)
| SRemoveSnap | SRemoveTmp | SRemoveLog.

Definition log_bytes (d : disk) : list N := match d_log d with Some b => b | None => [] end.

Definition exec_step (st : dstep) (d : disk) : disk :=
  match st with
  | SOpenLog => {| d_snap := d_snap d; d_tmp := d_tmp d; d_log := Some (log_bytes d) |}
  | STruncLog n => {| d_snap := d_snap d; d_tmp := d_tmp d; d_log := Some (firstn n (log_bytes d)) |}
  | SAppend bs => {| d_snap := d_snap d; d_tmp := d_tmp d; d_log := Some (log_bytes d ++ bs) |}
  | SWriteTmp => {| d_snap := d_snap d; d_tmp := true; d_log := d_log d |}
  | SRename s => {| d_snap := Some s; d_tmp := false; d_log := d_log d |}
  | SRemoveSnap => {| d_snap := None; d_tmp := d_tmp d; d_log := d_log d |}
  | SRemoveTmp => {| d_snap := d_snap d; d_tmp := false; d_log := d_log d |}
  | SRemoveLog => {| d_snap := d_snap d; d_tmp := d_tmp d; d_log := None |}
  end.
Definition run (p : list dstep) (d : disk) : disk := fold_left (fun d st => exec_step st d) p d.

(** marshalFieldChanges logs every change; a deletion carries no Field. *)
Inductive change := ChAdd (c : pchange) | ChDel (m : name).
Definition marshal_filter (cs : list change) : list pchange :=
  map (fun c => match c with
                | ChAdd p => p
                | ChDel m => {| pc_meas := m; pc_field := false; pc_fname := []; pc_ftype := 0; pc_ct := CT_DEL |}
                end) cs.

(** appendToChangesFile for one Save request (no concurrent requests batched). *)
Definition prog_append (fsize : nat) (payload : list N) (d : disk) : list dstep :=
  SOpenLog :: (if (fsize <? length (log_bytes d))%nat then [STruncLog fsize] else []) ++ [SAppend (frame payload)].

(** WriteToFile ([len(fs.fields) == 0] removes fields.idx). *)
Definition prog_write_to_file (mem : schema) : list dstep :=
  match mem with
  | [] => [SWriteTmp; SRemoveSnap; SRemoveTmp; SRemoveLog]
  | _ => [SWriteTmp; SRename mem; SRemoveTmp; SRemoveLog]
  end.

(** In-memory result of [load] on a disk image: (schema, load succeeded). *)
Definition load_mem dec (d : disk) : schema * bool :=
  let base := match d_snap d with Some s => s | None => [] end in
  match recover dec (log_bytes d) with
  | RecErr => (base, false)
  | RecOK rs =>
      match apply_log base (concat rs) with
      | inl s => (s, true)
      | inr e => (e, false)
      end
  end.

(** Engine.Open on a disk image: cleanup of [*.tmp], NewMeasurementFieldSet (load + ApplyChanges). *)
Definition prog_open dec (d : disk) : list dstep :=
  SRemoveTmp ::
  match recover dec (log_bytes d) with
  | RecErr => []
  | RecOK [] => [SRemoveLog]
  | RecOK rs => if snd (load_mem dec d) then prog_write_to_file (fst (load_mem dec d)) else []
  end.

(** * Sequential model of a shard's field index (what the driver's histories exercise) *)
Record wpoint := { w_meas : name; w_series : N; w_time : Z; w_fields : list pfield }.

(** Keys of the storage engine that hold data: (measurement, series, field) -> value type, and
    whether the values are in the WAL (a batch that hits a cache type conflict is not logged). *)
Definition dkey := (name * N * name)%type.
Definition dkey_eqb (a b : dkey) : bool :=
  let '(m1, s1, f1) := a in let '(m2, s2, f2) := b in name_eqb m1 m2 && N.eqb s1 s2 && name_eqb f1 f2.
Definition dstore := list (dkey * N * bool).

Record sys := { y_mem : schema; y_fsize : nat; y_idx : list name; y_data : dstore; y_disk : disk }.
(** [y_idx]: measurements that have a series in the shard's index. *)
Definition sys0 : sys := {| y_mem := []; y_fsize := 0; y_idx := []; y_data := []; y_disk := disk0 |}.

(** The second loop of Shard.validateSeriesAndFields restricted to points with valid keys:
    returns (schema, created fields, accepted points, dropped, stripped-without-drop). *)
Definition only_time (fl : list pfield) : bool := forallb (fun f => name_eqb (f_key f) TIME) fl.

Fixpoint validate_points (s : schema) (pts : list wpoint)
  : schema * list pchange * list wpoint * N * bool :=
  match pts with
  | [] => (s, [], [], 0%N, false)
  | p :: r =>
      if only_time (w_fields p) then
        let '(s', cr, acc, dr, st) := validate_points s r in (s', cr, acc, (dr + 1)%N, st)
      else
        let '(s1, cr1, res) := validate_point s (w_meas p) (w_fields p) in
        let '(s', cr, acc, dr, st) := validate_points s1 r in
        (s', cr1 ++ cr,
         match res with VDropped => acc | _ => p :: acc end,
         match res with VDropped => (dr + 1)%N | _ => dr end,
         match res with VStripped => true | _ => st end)
  end.

(** Engine.WritePoints: every field of every accepted point except a field named time becomes
    a value under its key; Cache.WriteMulti rejects a key whose values have mixed types or a
    type other than the stored one, and then the batch is not written to the WAL. *)
Definition batch_entries (acc : list wpoint) : list (dkey * N) :=
  flat_map (fun p => flat_map (fun f => if name_eqb (f_key f) TIME then []
                                        else [((w_meas p, w_series p, f_key f), f_type f)]) (w_fields p)) acc.
Definition key_types (data : dstore) (ents : list (dkey * N)) (k : dkey) : list N :=
  flat_map (fun '(k', t, _) => if dkey_eqb k k' then [t] else []) data ++
  flat_map (fun '(k', t) => if dkey_eqb k k' then [t] else []) ents.
Definition key_conflict (data : dstore) (ents : list (dkey * N)) (k : dkey) : bool :=
  match key_types data ents k with [] => false | t :: r => negb (forallb (N.eqb t) r) end.
Definition dset (k : dkey) (t : N) (dur : bool) (data : dstore) : dstore :=
  if existsb (fun '(k', _, _) => dkey_eqb k k') data
  then map (fun '(k', t', d') => if dkey_eqb k k' then (k', t', d' || dur) else (k', t', d')) data
  else data ++ [(k, t, dur)].
Definition engine_write (data : dstore) (acc : list wpoint) : dstore * bool :=
  let ents := batch_entries acc in
  let conf := existsb (fun '(k, _) => key_conflict data ents k) ents in
  (fold_left (fun d '(k, t) => if key_conflict data ents k then d else dset k t (negb conf) d) ents data, conf).

Definition madd (m : name) (l : list name) : list name := if existsb (name_eqb m) l then l else l ++ [m].
Definition mdel (m : name) (l : list name) : list name := filter (fun x => negb (name_eqb m x)) l.

Definition save (y : sys) (mem : schema) (idx : list name) (data : dstore) (cs : list change) : sys :=
  let d := run (prog_append (y_fsize y) (pb_enc (marshal_filter cs)) (y_disk y)) (y_disk y) in
  {| y_mem := mem; y_fsize := length (log_bytes d); y_idx := idx; y_data := data; y_disk := d |}.

(** Shard.WritePoints: (system, error class 0 none / 1 partial / 2 other, dropped). *)
Definition do_write (y : sys) (pts : list wpoint) : sys * N * N :=
  let '(mem, created, acc, dropped, stripped) := validate_points (y_mem y) pts in
  let idx := fold_left (fun l p => madd (w_meas p) l) pts (y_idx y) in
  let '(data, conf) := engine_write (y_data y) acc in
  let y' := match created with
            | [] => {| y_mem := mem; y_fsize := y_fsize y; y_idx := idx; y_data := data; y_disk := y_disk y |}
            | _ => save y mem idx data (map ChAdd created)
            end in
  if conf then (y', 2%N, 0%N)
  else (y', if (0 <? dropped)%N || stripped then 1%N else 0%N, dropped).

(** Shard.DeleteMeasurement when no data of the measurement remains afterwards. *)
Definition do_drop (y : sys) (m : name) : sys :=
  if existsb (name_eqb m) (y_idx y)
  then save y (drop_meas (y_mem y) m) (mdel m (y_idx y))
            (filter (fun '((m', _, _), _, _) => negb (name_eqb m m')) (y_data y)) [ChDel m]
  else y.

Definition do_open (y : sys) (d : disk) : sys :=
  {| y_mem := fst (load_mem pb_dec d); y_fsize := 0; y_idx := y_idx y;
     y_data := filter (fun '(_, _, dur) => dur) (y_data y);
     y_disk := run (prog_open pb_dec d) d |}.

(** Shard.Close then Open: Close runs WriteToFile iff the change log exists. *)
Definition do_clean (y : sys) : sys :=
  let d := match d_log (y_disk y) with
           | Some _ => run (prog_write_to_file (y_mem y)) (y_disk y)
           | None => y_disk y
           end in
  do_open y d.

(** Crash: the process state is lost, the files stay; reopen. *)
Definition do_crash (y : sys) : sys := do_open y (y_disk y).

(** * Correspondence cases *)
Inductive op := OWrite (pts : list wpoint) | ODrop (m : name) | OClean | OCrash.

Record obs := {
  o_err : N;                       (* 0 none, 1 PartialWriteError, 2 other *)
  o_dropped : N;
  o_schema : schema;               (* dump of the shard's MeasurementFieldSet after the step *)
  o_log : option (list N);         (* bytes of fields.idxl after the step (None: no file) *)
  o_snap : option schema;          (* fields.idx after the step, loaded alone *)
  o_torn : list (nat * nat * schema * bool)  (* (lo, n, s, ok): for every k in [lo, lo+n), fields.idxl cut to k bytes and fields.idx kept,
                                          NewMeasurementFieldSet loads s (ok: without error) *)
}.

Inductive case :=
| CHist (steps : list (op * obs))
| CRace (types : list N) (errs : list bool) (final : option N).

Definition opt_schema_eqb (a b : option schema) : bool :=
  match a, b with
  | None, None => true
  | Some x, Some y => schema_eqb x y
  | None, Some y => schema_eqb [] y
  | Some x, None => schema_eqb x []
  end.

Definition step_model (y : sys) (o : op) : sys * N * N :=
  match o with
  | OWrite pts => do_write y pts
  | ODrop m => (do_drop y m, 0%N, 0%N)
  | OClean => (do_clean y, 0%N, 0%N)
  | OCrash => (do_crash y, 0%N, 0%N)
  end.

Definition with_log (d : disk) (b : list N) : disk :=
  {| d_snap := d_snap d; d_tmp := d_tmp d; d_log := Some b |}.

(** implementation = model on one step *)
Definition step_same (y' : sys) (e dr : N) (ob : obs) : bool :=
  N.eqb (o_err ob) e && N.eqb (o_dropped ob) dr &&
  schema_eqb (o_schema ob) (y_mem y') &&
  option_eqb (list_eqb N.eqb) (o_log ob) (d_log (y_disk y')) &&
  opt_schema_eqb (o_snap ob) (d_snap (y_disk y')) &&
  forallb (fun '(lo, n, s, okb) =>
     forallb (fun k =>
       let r := load_mem pb_dec (with_log (y_disk y') (firstn k (log_bytes (y_disk y')))) in
       schema_eqb s (fst r) && Bool.eqb okb (snd r)) (seq lo n)) (o_torn ob).

(** The property oracle on one step, stated on the implementation's observations only:
    [before] = the schema dump before the step. *)
Definition field_fits (s : schema) (m : name) (f : pfield) : bool :=
  negb (f_big f && N.eqb (f_type f) T_STRING) &&
  (name_eqb (f_key f) TIME || option_eqb N.eqb (ftype s m (f_key f)) (Some (f_type f))).
Definition point_fits (s : schema) (p : wpoint) : bool :=
  negb (only_time (w_fields p)) && forallb (field_fits s (w_meas p)) (w_fields p).

Definition count_rejected (after : schema) (pts : list wpoint) : N :=
  N.of_nat (length (filter (fun p => negb (point_fits after p)) pts)).

Definition declared (pts : list wpoint) (m f : name) (t : N) : bool :=
  existsb (fun p => name_eqb (w_meas p) m &&
                    existsb (fun x => name_eqb (f_key x) f && N.eqb (f_type x) t) (w_fields p)) pts.

Definition step_ok (before : schema) (o : op) (ob : obs) : bool :=
  let after := o_schema ob in
  match o with
  | OWrite pts =>
      (* existing fields keep their type; new fields come from the batch; count is exact *)
      schema_sub before after &&
      forallb (fun '(m, fs) => forallb (fun '(f, t) =>
         match ftype before m f with Some _ => true | None => declared pts m f t end) fs) after &&
      N.eqb (o_dropped ob) (count_rejected after pts) &&
      (if (0 <? o_dropped ob)%N then N.eqb (o_err ob) 1 else (N.eqb (o_err ob) 0 || N.eqb (o_err ob) 1)) &&
      forallb (fun '(_, _, s, okb) => okb && (schema_eqb s before || schema_eqb s after)) (o_torn ob)
  | ODrop m =>
      N.eqb (o_err ob) 0 && schema_eqb after (drop_meas before m) &&
      forallb (fun '(_, _, s, okb) => okb && (schema_eqb s before || schema_eqb s after)) (o_torn ob)
  | OClean | OCrash =>
      N.eqb (o_err ob) 0 && schema_eqb after before
  end.

Fixpoint replay (y : sys) (before : schema) (steps : list (op * obs)) : bool * bool :=
  match steps with
  | [] => (true, true)
  | (o, ob) :: r =>
      let '(y', e, dr) := step_model y o in
      let '(sm, okk) := replay y' (o_schema ob) r in
      (step_same y' e dr ob && sm, step_ok before o ob && okk)
  end.

(** Racing creators: every goroutine writes one point with its own type for one new field.
    Allowed outcomes: one of the types wins, exactly the writers of another type see a conflict. *)
Definition race_ok (types : list N) (errs : list bool) (final : option N) : bool :=
  match final with
  | Some w => existsb (N.eqb w) types && list_eqb Bool.eqb errs (map (fun t => negb (N.eqb t w)) types)
  | None => match types with [] => match errs with [] => true | _ => false end | _ => false end
  end.

Definition check (c : case) : verdict :=
  match c with
  | CHist steps => let '(sm, okk) := replay sys0 [] steps in judge sm okk
  | CRace types errs final => let b := race_ok types errs final in judge b b
  end.
