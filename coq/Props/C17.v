(** C17 — Bucket deletes remove exactly the matching data and reconcile metadata.
    Property theorems only.

    FULL STATEMENT (three clauses):
     (a) after [store_delete defs p lo hi mname st], in every shard, the point (k,t) is readable
         iff it was readable before and not (the series of k satisfies [holds p] and lo <= t <= hi);
     (b) a series (a measurement) is listed in a shard iff it still has a readable point there;
     (c) a write is blocked by a running delete iff it conflicts with it; no deadlock.
    Status:
     (a) proved for the engine-level delete of ANY batch of series ([C17_delete_exact], tombstone
         coalescing included) and for the per-shard loop without the measurement shortcut
         ([C17_delete_bucket_exact_partial]: "selected by the matcher" — equal to [holds] under
         C16's [wf_key], see C16_engine_key_correct) and WITH the shortcut, which the store now
         takes for an equality only ([C17_delete_bucket_exact_shortcut]; repair of finding
         measurement-neq-shortcut, former witness: [C17_measurement_neq_fixed]).
         Like C03, the model has no snapshot in flight (C03's hypothesis "no snapshot pending").
     (b) "has data => listed" proved ([C17_data_stays_listed]); the exact reconciliation rule is
         [C17_reconcile_spec]; "listed => has data" is REFUTED
         ([C17_metadata_reconciled_refuted_tombstones], finding); the second former refutation
         (series keys extending one another) is repaired: [C17_metadata_reconciled_prefix_fixed].
     (c) proved for the epoch-tracker model over all interleavings of its four atomic steps
         ([C17_guard_blocks_only_conflicts], [C17_nonconflicting_write_never_blocked],
         [C17_delete_waits_for_older_writes], [C17_no_deadlock]). *)
From Verif Require Import Base.Prelude Model.C16 Model.C17 Proofs.C17 Proofs.C17_guard.
Local Open Scope Z_scope.

(** ** (a) exact removal *)

(** Engine.deleteSeriesRange on the shard model: for every batch [sel], every range (also
    lo > hi, MinInt64/MaxInt64), every well-formed shard (any number of files with any
    tombstones already coalesced): a point is readable afterwards iff it was readable and is
    not (selected and in range) — early exits, per-file / per-key skips, fully-covered and
    coalescing shortcuts never delete too much or too little. *)
Theorem C17_delete_exact : forall defs sh sel lo hi k t, wf_shard sh ->
  get (eng_delete defs sh sel lo hi) k t =
  if in_sel sel k && in_range lo hi t then None else get sh k t.
Proof. exact eng_delete_exact. Qed.
Print Assumptions C17_delete_exact.

Theorem C17_delete_preserves_wf : forall defs sh sel lo hi,
  wf_shard sh -> wf_shard (eng_delete defs sh sel lo hi).
Proof. exact eng_delete_wf. Qed.
Print Assumptions C17_delete_preserves_wf.

(** The per-shard loop of Store.DeleteSeriesWithPredicate (one engine delete per measurement,
    listing changing underneath), without the measurement shortcut: exactly the points of
    LISTED series selected by the compiled predicate, inside the range, disappear.
    _partial: hypothesis [NoDup] of the measurement list (true of [meas_of], which is strictly
    sorted — not proved here); "selected by the matcher" = [holds] under C16's [wf_key]. *)
Theorem C17_delete_bucket_exact_partial : forall defs p lo hi sh k t,
  NoDup (meas_of defs (sh_listed sh)) -> wf_shard sh ->
  let s := series_of k in
  let sel := In s (sh_listed sh) /\
             matches no_regex p (engine_key (sname defs s) (stags defs s)) = true /\
             in_range lo hi t = true in
  (sel -> get (shard_delete defs p lo hi None sh) k t = None) /\
  (~ sel -> get (shard_delete defs p lo hi None sh) k t = get sh k t).
Proof.
  intros defs p lo hi sh k t Hnd W s sel. unfold shard_delete.
  destruct (del_loop_exact defs p lo hi (meas_of defs (sh_listed sh)) sh k t Hnd W) as [H1 H2].
  split.
  - intros (A & B & C). apply H1. split; auto. split; auto.
    unfold meas_of. apply In_sort_names. apply in_map. exact A.
  - intros Hn. apply H2. intros (A & _ & B & C). apply Hn. split; auto.
Qed.
Print Assumptions C17_delete_bucket_exact_partial.

(** WITH the shortcut (the store takes it when the measurement expression is an equality
    [_measurement = n]; the predicate then selects series of measurement [n] only): stopping
    after [n], or skipping a shard that does not list [n], loses nothing. *)
Theorem C17_delete_bucket_exact_shortcut : forall defs p lo hi n sh k t,
  wf_shard sh ->
  (forall s, In s (sh_listed sh) ->
             matches no_regex p (engine_key (sname defs s) (stags defs s)) = true -> sname defs s = n) ->
  let s := series_of k in
  let sel := In s (sh_listed sh) /\
             matches no_regex p (engine_key (sname defs s) (stags defs s)) = true /\
             in_range lo hi t = true in
  (sel -> get (shard_delete defs p lo hi (Some n) sh) k t = None) /\
  (~ sel -> get (shard_delete defs p lo hi (Some n) sh) k t = get sh k t).
Proof.
  intros defs p lo hi n sh k t W H s sel. unfold shard_delete.
  destruct (existsb (bytes_eqb n) (meas_of defs (sh_listed sh))) eqn:Ex.
  - assert (Hn : In n (meas_of defs (sh_listed sh))).
    { apply existsb_exists in Ex as (x & Hx & E). apply beqb_iff in E. subst. exact Hx. }
    destruct (del_loop_shortcut_exact defs p lo hi n (meas_of defs (sh_listed sh)) sh k t W H Hn) as [H1 H2].
    split.
    + intros (A & B & C). apply H1. split; auto. split; auto.
      unfold meas_of. apply In_sort_names. apply in_map. exact A.
    + intros Hn'. apply H2. intros (A & _ & B & C). apply Hn'. split; auto.
  - split; [|reflexivity]. intros (A & B & C). exfalso.
    assert (Hin : In n (meas_of defs (sh_listed sh))).
    { unfold meas_of. apply In_sort_names. rewrite <- (H s A B). apply in_map. exact A. }
    assert (existsb (bytes_eqb n) (meas_of defs (sh_listed sh)) = true).
    { apply existsb_exists. exists n. split; auto. apply beqb_iff. reflexivity. }
    congruence.
Qed.
Print Assumptions C17_delete_bucket_exact_shortcut.

(** The former witness of finding measurement-neq-shortcut: [_measurement != "m0"] through the
    HTTP handler.  The store no longer takes the shortcut for an inequality (mname = None):
    the point of m1, which the predicate selects, is deleted. *)
Definition w_defs2 : list sdef := [([109; 48]%N, []); ([109; 49]%N, [])].        (* m0 ; m1 *)
Definition w_neq_m0 : pred := PCmp OpNeq (LRef MTAG) (RLit [109; 48]%N).
Definition w_sh_neq : shard := shard_write [(0%N, 1, 10); (2%N, 3, 12)] (SH [] [] []).
Example C17_measurement_neq_fixed :
  let sh' := shard_delete w_defs2 w_neq_m0 MinInt64 MaxInt64 None w_sh_neq in
  holds no_regex w_neq_m0 ((MTAG, sname w_defs2 1) :: stags w_defs2 1) = true /\
  get sh' 2%N 3 = None /\ get sh' 0%N 1 = Some 10 /\ sh_listed sh' = [0%N].
Proof. vm_compute. repeat split; reflexivity. Qed.

(** ** (b) metadata *)
Theorem C17_data_stays_listed : forall defs sh sel lo hi k t v,
  In (series_of k) (sh_listed sh) ->
  get (eng_delete defs sh sel lo hi) k t = Some v ->
  In (series_of k) (sh_listed (eng_delete defs sh sel lo hi)).
Proof. exact data_stays_listed. Qed.
Print Assumptions C17_data_stays_listed.

Theorem C17_reconcile_spec : forall defs sh sel lo hi s,
  sel <> [] ->
  (negb (existsb (fun f => file_overlaps f lo hi) (sh_files sh)) &&
   match sh_cache sh with [] => true | _ => false end) = false ->
  let sh' := eng_delete defs sh sel lo hi in
  (In s (sh_listed sh') <->
   In s (sh_listed sh) /\
   (memN s sel = false \/ on_disk (sh_files sh') s = true \/ in_cache (sh_cache sh') s = true \/
    has_cache_values defs sel (sh_cache sh) (sh_cache sh') s = true)).
Proof. exact reconcile_spec. Qed.
Print Assumptions C17_reconcile_spec.

(** "listed => has data" REFUTED: points at t=1 and t=5 of one key in a TSM file; deletes
    [1,1] then [5,5]: the two tombstones are not contiguous, the key stays in the file index,
    the series stays listed although nothing of it is readable. *)
Definition w_defs1 : list sdef := [([109; 48]%N, [([116; 48]%N, [97]%N)])].       (* m0,t0=a *)
Definition w_eq_m0 : pred := PCmp OpEq (LRef MTAG) (RLit [109; 48]%N).
Definition w_sh_ghost : shard :=
  shard_delete w_defs1 w_eq_m0 5 5 None
    (shard_delete w_defs1 w_eq_m0 1 1 None
       (shard_snapshot (shard_write [(0%N, 1, 10); (0%N, 5, 11)] (SH [] [] [])))).
Theorem C17_metadata_reconciled_refuted_tombstones :
  sh_listed w_sh_ghost = [0%N] /\
  read_key (get w_sh_ghost) (shard_times w_sh_ghost) 0%N = [] /\
  read_key (get w_sh_ghost) (shard_times w_sh_ghost) 1%N = [].
Proof. vm_compute. repeat split; reflexivity. Qed.
Print Assumptions C17_metadata_reconciled_refuted_tombstones.

(** The former witness of finding series-key-prefix-of-another-kept-listed: series m0,t0=b
    loses its only point; series m0,t0=b,t1=a of the same batch — whose key has the first key
    as a byte prefix — keeps a cached value.  The [hasCacheValues] walk now looks at the fields
    of the series itself only: the first series leaves the listing. *)
Definition w_defs3 : list sdef :=
  [([109; 48]%N, [([116; 48]%N, [98]%N)]); ([109; 48]%N, [([116; 48]%N, [98]%N); ([116; 49]%N, [97]%N)])].
Definition w_sh_prefix : shard :=
  shard_delete w_defs3 w_eq_m0 4 6 None (shard_write [(0%N, 4, 10); (2%N, 0, 11)] (SH [] [] [])).
Example C17_metadata_reconciled_prefix_fixed :
  sh_listed w_sh_prefix = [1%N] /\
  read_key (get w_sh_prefix) (shard_times w_sh_prefix) 0%N = [] /\
  read_key (get w_sh_prefix) (shard_times w_sh_prefix) 2%N = [(0, 11)].
Proof. vm_compute. repeat split; reflexivity. Qed.

(** ** (c) the epoch tracker and the guards: all interleavings of the four atomic steps *)
Theorem C17_guard_blocks_only_conflicts : forall es tr w,
  tr_run tr_init es = Some tr -> In w (t_ws tr) ->
  (w_blocked tr w = true <->
   exists d, In d (t_deletes tr) /\ (d_gen d < w_gen w)%N /\
             guard_matches (d_lo d) (d_hi d) (w_times w) = true).
Proof.
  intros es tr w H Hw. apply write_blocked_iff; auto.
  eapply reachable_inv; [apply inv_init | exact H].
Qed.
Print Assumptions C17_guard_blocks_only_conflicts.

Theorem C17_nonconflicting_write_never_blocked : forall es tr w,
  tr_run tr_init es = Some tr -> In w (t_ws tr) ->
  (forall d, In d (t_deletes tr) -> guard_matches (d_lo d) (d_hi d) (w_times w) = false) ->
  w_blocked tr w = false.
Proof.
  intros es tr w H Hw Hn. destruct (w_blocked tr w) eqn:B; auto.
  apply (C17_guard_blocks_only_conflicts es tr w H Hw) in B as (d & Hd & _ & Hm).
  rewrite (Hn d Hd) in Hm. discriminate.
Qed.
Print Assumptions C17_nonconflicting_write_never_blocked.

Theorem C17_delete_waits_for_older_writes : forall es tr d,
  tr_run tr_init es = Some tr -> In d (t_deletes tr) ->
  (d_blocked d = true <-> exists w, In w (t_ws tr) /\ (w_gen w < d_gen d)%N).
Proof.
  intros es tr d H Hd. apply delete_blocked_iff; auto.
  eapply reachable_inv; [apply inv_init | exact H].
Qed.
Print Assumptions C17_delete_waits_for_older_writes.

Theorem C17_no_deadlock : forall es tr,
  tr_run tr_init es = Some tr -> (t_ws tr <> [] \/ t_deletes tr <> []) ->
  exists e tr', tr_step tr e = Some tr' /\ (exists g, e = EEndWrite g \/ e = EDoneDelete g).
Proof.
  intros es tr H Hne. apply no_deadlock; auto.
  eapply reachable_inv; [apply inv_init | exact H].
Qed.
Print Assumptions C17_no_deadlock.

(** Non-vacuity: a shard with a snapshot file and a cache is well-formed; a delete of one
    series' range removes exactly that; a conflicting write is blocked and a non-conflicting
    one is not while a delete [1,3] is registered. *)
Definition nv_sh : shard :=
  shard_write [(0%N, 4, 12)] (shard_snapshot (shard_write [(0%N, 1, 10); (0%N, 5, 11)] (SH [] [] []))).
Example C17_nonvacuous :
  let sh' := eng_delete w_defs1 nv_sh [0%N] 1 4 in
  wf_shard nv_sh /\ get sh' 0%N 1 = None /\ get sh' 0%N 4 = None /\ get sh' 0%N 5 = Some 11 /\
  (exists tr, tr_run tr_init [EStartDelete 1 3; EStartWrite [2]; EStartWrite [5]] = Some tr /\
     map (w_blocked tr) (t_ws tr) = [false; true]).
Proof.
  split; [|split; [|split; [|split]]].
  - assert (E : sh_files nv_sh = [F [KF 0%N [(1, 10); (5, 11)] true []] 1 5]) by (vm_compute; reflexivity).
    unfold wf_shard. rewrite E. intros f [<-|[]]. constructor; simpl.
    + intros kf [<-|[]]. constructor; simpl.
      * intros t v [H|[H|[]]]; inversion H; subst; unfold MinInt64, MaxInt64; simpl; lia.
      * exact I.
    + intros kf t v [<-|[]]. simpl. intros [H|[H|[]]]; inversion H; subst; lia.
  - vm_compute; reflexivity.
  - vm_compute; reflexivity.
  - vm_compute; reflexivity.
  - eexists. split; vm_compute; reflexivity.
Qed.
