// C34 driver: real toml.SizeV1 / SSizeV1 / SizeV2 (= Size) / SSizeV2 (= SSize) / Duration
// through MarshalText / UnmarshalText and through a real BurntSushi/toml encode + decode
// of a struct.  Strings go to the Coq judge as lists of byte codes.
package main

import (
	"bytes"
	"fmt"
	"math/big"
	"regexp"
	"strconv"
	"strings"

	bt "github.com/BurntSushi/toml"
	itoml "github.com/influxdata/influxdb/v2/toml"
	"verifh/vh"
)

const (
	sigFloat = "size-unit-product-above-2p53-inexact" // residual of the repaired size-above-2p53-not-representable
	sigToml  = "sizev2-above-maxint64-unreadable-from-toml"
	sigWrap  = "duration-sum-wraps-at-2p64"
)

var typeNames = []string{"SizeV1", "SSizeV1", "SizeV2", "SSizeV2", "Duration"}
var typeTerms = map[string]string{"SizeV1": "TV1", "SSizeV1": "TSV1", "SizeV2": "TV2", "SSizeV2": "TSV2", "Duration": "TDur"}

type jcase struct {
	Kind   string  `json:"kind"` // rt | parse
	Type   string  `json:"type"`
	Via    bool    `json:"via_toml_document,omitempty"`
	Z      string  `json:"value,omitempty"` // rt: the value (decimal)
	Text   []int   `json:"text_bytes"`
	Quoted string  `json:"text"`
	Back   *string `json:"impl_result"` // nil = error
	Err    string  `json:"impl_error,omitempty"`
}

func intsOf(b []byte) []int {
	s := make([]int, len(b))
	for i, c := range b {
		s[i] = int(c)
	}
	return s
}
func bytesOf(s []int) []byte {
	b := make([]byte, len(s))
	for i, c := range s {
		b[i] = byte(c)
	}
	return b
}
func zterm(z *big.Int) string {
	if z.Sign() < 0 {
		return "(" + z.String() + ")%Z"
	}
	return z.String() + "%Z"
}
func optZ(p *string) string {
	if p == nil {
		return "None"
	}
	z, _ := new(big.Int).SetString(*p, 10)
	return vh.Some(zterm(z))
}

// unmarshal through the type's UnmarshalText on a fresh zero value.
func unmarshalText(ty string, text []byte) (res *string, errs string) {
	var v string
	var err error
	p := vh.Guard(func() {
		switch ty {
		case "SizeV1":
			var x itoml.SizeV1
			err = x.UnmarshalText(text)
			v = strconv.FormatUint(uint64(x), 10)
		case "SSizeV1":
			var x itoml.SSizeV1
			err = x.UnmarshalText(text)
			v = strconv.FormatInt(int64(x), 10)
		case "SizeV2":
			var x itoml.Size // alias of SizeV2 on this branch
			err = x.UnmarshalText(text)
			v = strconv.FormatUint(uint64(x), 10)
		case "SSizeV2":
			var x itoml.SSize
			err = x.UnmarshalText(text)
			v = strconv.FormatInt(int64(x), 10)
		case "Duration":
			var x itoml.Duration
			err = x.UnmarshalText(text)
			v = strconv.FormatInt(int64(x), 10)
		}
	})
	if p != "" {
		return nil, "panic: " + p
	}
	if err != nil {
		return nil, err.Error()
	}
	return &v, ""
}

// the text the configuration layer writes for a value, taken from a real TOML encoding,
// and the value read back from that document.
func tomlRoundTrip(ty string, z *big.Int) (text []byte, back *string, errs string, encErr error) {
	var buf bytes.Buffer
	enc := bt.NewEncoder(&buf)
	var dec func(doc string) (string, error)
	switch ty {
	case "SizeV1":
		type S struct{ V itoml.SizeV1 }
		encErr = enc.Encode(S{itoml.SizeV1(z.Uint64())})
		dec = func(doc string) (string, error) {
			var s S
			_, err := bt.Decode(doc, &s)
			return strconv.FormatUint(uint64(s.V), 10), err
		}
	case "SSizeV1":
		type S struct{ V itoml.SSizeV1 }
		encErr = enc.Encode(S{itoml.SSizeV1(z.Int64())})
		dec = func(doc string) (string, error) {
			var s S
			_, err := bt.Decode(doc, &s)
			return strconv.FormatInt(int64(s.V), 10), err
		}
	case "SizeV2":
		type S struct{ V itoml.Size }
		encErr = enc.Encode(S{itoml.Size(z.Uint64())})
		dec = func(doc string) (string, error) {
			var s S
			_, err := bt.Decode(doc, &s)
			return strconv.FormatUint(uint64(s.V), 10), err
		}
	case "SSizeV2":
		type S struct{ V itoml.SSize }
		encErr = enc.Encode(S{itoml.SSize(z.Int64())})
		dec = func(doc string) (string, error) {
			var s S
			_, err := bt.Decode(doc, &s)
			return strconv.FormatInt(int64(s.V), 10), err
		}
	case "Duration":
		type S struct{ V itoml.Duration }
		encErr = enc.Encode(S{itoml.Duration(z.Int64())})
		dec = func(doc string) (string, error) {
			var s S
			_, err := bt.Decode(doc, &s)
			return strconv.FormatInt(int64(s.V), 10), err
		}
	}
	if encErr != nil {
		return nil, nil, "", encErr
	}
	doc := buf.String()
	line := strings.TrimSuffix(strings.TrimPrefix(doc, "V = "), "\n")
	if strings.HasPrefix(line, `"`) { // a TOML basic string: the text is what MarshalText produced
		var m map[string]string
		if _, err := bt.Decode(doc, &m); err == nil {
			line = m["V"]
		}
	}
	text = []byte(line)
	v, err := dec(doc)
	if err != nil {
		return text, nil, err.Error(), nil
	}
	return text, &v, "", nil
}

func marshalText(ty string, z *big.Int) ([]byte, error) {
	switch ty {
	case "SizeV1":
		return itoml.SizeV1(z.Uint64()).MarshalText()
	case "SSizeV1":
		return itoml.SSizeV1(z.Int64()).MarshalText()
	case "Duration":
		return itoml.Duration(z.Int64()).MarshalText()
	}
	return nil, nil // SizeV2 / SSizeV2 have no MarshalText
}

var two53 = new(big.Int).Lsh(big.NewInt(1), 53)
var two63 = new(big.Int).Lsh(big.NewInt(1), 63)
var two64 = new(big.Int).Lsh(big.NewInt(1), 64)

// more than 53 significant bits: not exactly representable in binary64
func notRepr(z *big.Int) bool {
	a := new(big.Int).Abs(z)
	if a.Sign() == 0 {
		return false
	}
	return a.BitLen()-int(a.TrailingZeroBits()) > 53
}

func runRt(w *vh.W, c *jcase) {
	z, _ := new(big.Int).SetString(c.Z, 10)
	var text []byte
	c.Back, c.Err = nil, ""
	if c.Via {
		t, back, errs, encErr := tomlRoundTrip(c.Type, z)
		if encErr != nil {
			w.Fail(w.Len(), fmt.Sprintf("toml encode of %s(%s) failed: %v", c.Type, c.Z, encErr), "")
			return
		}
		text, c.Back, c.Err = t, back, errs
	} else {
		mt, err := marshalText(c.Type, z)
		if err != nil {
			w.Fail(w.Len(), fmt.Sprintf("%s(%s).MarshalText failed: %v", c.Type, c.Z, err), "")
			return
		}
		if mt == nil { // V2 types: what the encoder writes
			t, _, _, encErr := tomlRoundTrip(c.Type, z)
			if encErr != nil {
				w.Fail(w.Len(), fmt.Sprintf("toml encode of %s(%s) failed: %v", c.Type, c.Z, encErr), "")
				return
			}
			mt = t
		}
		text = mt
		c.Back, c.Err = unmarshalText(c.Type, text)
	}
	c.Text, c.Quoted = intsOf(text), strconv.Quote(string(text))
	sig := ""
	v2 := c.Type == "SizeV2" || c.Type == "SSizeV2"
	switch {
	case c.Via && c.Type == "SizeV2" && z.Cmp(two63) >= 0:
		sig = sigToml
	case v2 && notRepr(z): // former finding size-above-2p53-not-representable (fixed): no longer tolerated
		w.Count("former_finding_shape", "rt value above 2^53 needing more than 53 bits")
	}
	w.Add(fmt.Sprintf("CRt %s %s %s %s %s", typeTerms[c.Type], vh.Bool(c.Via), zterm(z), vh.Bytes(text), optZ(c.Back)), c, z.Sign() != 0, sig)
	w.Count("kind", "rt "+c.Type+map[bool]string{false: " text", true: " toml"}[c.Via])
	if sig != "" {
		w.Count("known_finding_shape", sig)
	}
}

// ---- shapes of the known findings on parse cases (decided from the input text only)

var docRe = regexp.MustCompile(`\A[\t\n\f\r ]*([+-]?)([0-9]+)[\t\n\f\r ]*([A-Za-z]*)[\t\n\f\r ]*\z`)
var docMult = map[string]string{"": "1", "b": "1", "k": "1000", "m": "1000000", "g": "1000000000", "t": "1000000000000", "p": "1000000000000000", "e": "1000000000000000000",
	"kb": "1000", "mb": "1000000", "gb": "1000000000", "tb": "1000000000000", "pb": "1000000000000000", "eb": "1000000000000000000",
	"kib": "1024", "mib": "1048576", "gib": "1073741824", "tib": "1099511627776", "pib": "1125899906842624", "eib": "1152921504606846976",
	"ki": "1024", "mi": "1048576", "gi": "1073741824", "ti": "1099511627776", "pi": "1125899906842624", "ei": "1152921504606846976"}

// integer mantissa with a known unit whose mantissa or exact product needs more than 53 bits
func floatShape(text []byte) bool {
	m := docRe.FindSubmatch(text)
	if m == nil {
		return false
	}
	n, _ := new(big.Int).SetString(string(m[2]), 10)
	mu, ok := docMult[strings.ToLower(string(m[3]))]
	if !ok {
		return false
	}
	mult, _ := new(big.Int).SetString(mu, 10)
	if notRepr(n) || notRepr(new(big.Int).Mul(n, mult)) {
		return true
	}
	// bare k/m/g on the V1 types mean 2^10/20/30 (never adds significant bits)
	return false
}

var durUnits = map[string]int64{"ns": 1, "us": 1e3, "µs": 1e3, "μs": 1e3, "ms": 1e6, "s": 1e9, "m": 60e9, "h": 3600e9}
var durComp = regexp.MustCompile(`\A([0-9]*)(?:\.([0-9]*))?([^0-9.]+)`)

// a prefix of the components sums (each component truncated to whole ns, as ParseDuration
// does) to 2^63 ns and the next component truncates to 2^63 ns: time.ParseDuration's uint64
// accumulator d += v then wraps to 0.  A slack of one ns per component covers the float64
// evaluation of fractions (e.g. "0.999999999999999999ns" counts as 1ns).
func wrapShape(text []byte) bool {
	s := string(text)
	if s != "" && (s[0] == '-' || s[0] == '+') {
		s = s[1:]
	}
	sum := new(big.Int)
	comps := int64(0)
	near := func(x *big.Int, slack int64) bool {
		d := new(big.Int).Sub(x, two63)
		return d.CmpAbs(big.NewInt(slack)) <= 0
	}
	for s != "" {
		m := durComp.FindStringSubmatch(s)
		if m == nil || (m[1] == "" && m[2] == "") {
			return false
		}
		u, ok := durUnits[m[3]]
		if !ok {
			return false
		}
		v := new(big.Rat)
		if _, ok := v.SetString("0" + m[1] + "." + m[2] + "0"); !ok {
			return false
		}
		v.Mul(v, new(big.Rat).SetInt64(u))
		fl := new(big.Int).Quo(v.Num(), v.Denom())
		if comps > 0 && near(sum, comps) && near(fl, 1) {
			return true
		}
		sum.Add(sum, fl)
		comps++
		if new(big.Int).Sub(sum, two63).Cmp(big.NewInt(comps)) > 0 {
			return false
		}
		s = s[len(m[0]):]
	}
	return false
}

var nlRe = regexp.MustCompile(`\A([\t\n\f\r ]*)[+-]?[0-9]+[\t\n\f\r ]*[kKmMgG][\t\n\f\r ]*\z`)

// SSizeV1 only: a bare k/m/g suffix on a text whose leading whitespace contains a newline
func newlineShape(ty string, text []byte) bool {
	if ty != "SSizeV1" {
		return false
	}
	m := nlRe.FindSubmatch(text)
	return m != nil && bytes.IndexByte(m[1], '\n') >= 0
}

var plainUnsignedRe = regexp.MustCompile(`\A[0-9]+\z`)
var plainSignedRe = regexp.MustCompile(`\A-?[0-9]+\z`)

// texts that the repaired parseBytesUnsigned / parseBytesSigned (or the SizeV1 strconv fast
// path) parse exactly with strconv: a plain decimal integer
func exactPath(ty string, text []byte) bool {
	if ty == "SizeV2" || ty == "SizeV1" {
		return plainUnsignedRe.Match(text)
	}
	return plainSignedRe.Match(bytes.TrimSpace(text))
}

func runParse(w *vh.W, c *jcase) {
	text := bytesOf(c.Text)
	c.Quoted = strconv.Quote(string(text))
	c.Back, c.Err = unmarshalText(c.Type, text)
	sig := ""
	if c.Type == "Duration" {
		if wrapShape(text) {
			sig = sigWrap
		}
	} else {
		if newlineShape(c.Type, text) { // former finding ssizev1-bare-suffix-after-newline-is-decimal (fixed)
			w.Count("former_finding_shape", "SSizeV1 bare suffix after leading newline")
		}
		if floatShape(text) {
			if exactPath(c.Type, text) { // plain integers are parsed by strconv since the repair: not tolerated
				w.Count("former_finding_shape", "plain integer above 2^53 needing more than 53 bits")
			} else {
				sig = sigFloat
			}
		}
	}
	w.Add(fmt.Sprintf("CParse %s %s %s", typeTerms[c.Type], vh.Bytes(text), optZ(c.Back)), c, c.Back != nil, sig)
	w.Count("kind", "parse "+c.Type)
	w.Count("parse_accepted "+c.Type, fmt.Sprint(c.Back != nil))
	if sig != "" {
		w.Count("known_finding_shape", sig)
	}
}

func run(w *vh.W, c *jcase) {
	if c.Kind == "rt" {
		runRt(w, c)
	} else {
		runParse(w, c)
	}
}

func main() {
	w := vh.New("C34", "From Verif Require Import Base.Prelude Model.C34.\nLocal Open Scope N_scope.", "case", "check")
	w.Rule = "rt: a value of each type (powers of two +-1, multiples of 2^10/20/30, the 2^53 neighbourhood, type extremes incl. MinInt64, duration unit boundaries, random) written by MarshalText (SizeV1/SSizeV1/Duration) or by the BurntSushi encoder (SizeV2/SSizeV2: bare integer) and read back by UnmarshalText, and the same through encode+Decode of a struct; " +
		"parse: texts from the grammar [ws][sign]mantissa[ws]unit[ws] (mantissa: integers around 2^53, 2^63, 2^64 and 2^64/unit, fractions, commas; units: every humanize unit in mixed case plus junk; ws from {space,\\t,\\n,\\v,\\f,\\r}), each given to all four size types; duration texts from the ParseDuration grammar (1-4 components, boundary integers, 0-22 fraction digits, all units plus junk) and noise strings. " +
		"Strings are compared as byte lists. Non-trivial: rt value <> 0; parse: accepted by the implementation. Distinct: distinct Gallina terms."
	var rc jcase
	if w.ReplayCase(&rc) {
		run(w, &rc)
		w.Finish()
		return
	}
	r := w.Rng

	rtAll := func(ty string, z *big.Int) {
		run(w, &jcase{Kind: "rt", Type: ty, Z: z.String()})
		run(w, &jcase{Kind: "rt", Type: ty, Z: z.String(), Via: true})
	}
	bi := func(s string) *big.Int { z, _ := new(big.Int).SetString(s, 10); return z }
	inRange := func(ty string, z *big.Int) bool {
		if ty == "SizeV1" || ty == "SizeV2" {
			return z.Sign() >= 0 && z.Cmp(two64) < 0
		}
		return z.Cmp(new(big.Int).Neg(two63)) >= 0 && z.Cmp(two63) < 0
	}

	// ---- hand-picked first
	for _, s := range []string{"0", "1", "1023", "1024", "1025", "1048576", "1073741824", "1073741825", "3221225472", "25000000",
		"9007199254740992", "9007199254740993", "9007199254740994", "9223372036854775807", "9223372036854775808", "18446744073709551615",
		"18446744073709550592", "-1", "-1024", "-1073741824", "-9223372036854775808", "-9223372036854775807", "-9007199254740993",
		"999", "1000", "999999", "1000000", "999999999", "1000000000", "60000000000", "3600000000000", "3599999999999", "90000000000", "-1500000000"} {
		z := bi(s)
		for _, ty := range typeNames {
			if inRange(ty, z) {
				rtAll(ty, z)
			}
		}
	}
	sizeTexts := []string{"1k", "1 k", "1kb", "1kib", "1 K ", " 1k", "1\tk", "1\vk", "1.5k", "1,024", "18446744073709551615", "18446744073709551616",
		"17179869184g", "17179869183g", "18014398509481984k", "18014398509481983k", "9007199254740993", "-1k", "+1k", "1e3", "1 e", "1E", ".5k", "1.k", "1.0k", "1..k", "", " ", "k",
		"1 kk", "1ki", "1 KiB", "1MB", "0x10", "1_0", "1\nk", "1 \n k", "1\n2k", "16e", "15.9999999999999999e", "16eib", "15eib", "9223372036854775808",
		"-9223372036854775808", "-9223372036854775809", "8e", "8ei", "-8ei", "- 1", "-1 k", "--1", "1b", "1 B", "1,,0", ",1", "1,", "1 k\n", "\n1k", "1k\v", "1µ", "1 é", "√k", "1√k",
		"8589934592g", "-8589934592g", "8589934591g", "9007199254740993 b", "9007199254740993kb", "18446744073709552kb", "18446744073709551kb", "00000000000000000001k", "1 kB", "1 Gi", "1tib", "1pb", "1 eb", "19eb", "18eb"}
	for _, s := range sizeTexts {
		for _, ty := range typeNames[:4] {
			run(w, &jcase{Kind: "parse", Type: ty, Text: intsOf([]byte(s))})
		}
	}
	durTexts := []string{"9223372036854775808ns9223372036854775808ns", "2562047h47m16.854775808s9223372036854775808.945834055ns", "+9223372036854775807ns1ns9223372036854775808.399ns", "9223372036854775807.999999999999999999ns9223372036854775808ns", "-9223372036854775808ns9223372036854775808ns1ns", "9223372036854775808ns", "-9223372036854775808ns",
		"9223372036854775807ns", "2562047h47m16.854775807s", "2562047h47m16.854775808s", "-2562047h47m16.854775808s", "2562047h47m16.854775808s2562047h47m16.854775808s",
		"0", "+0", "-0", "", "-", "+", ".", ".s", "1", "1.s", ".1s", "1..s", "1s ", " 1s", "1 s", "1e3s", "0x1s", "1d", "1hh", "1µs", "1μs", "1us", "1µ", "1.5h0.000000001s",
		"0.999999999999999999ns", "0.9999999999999999999ns", "1.0000000000000000000000001h", "9223372036854775.808us", "9223372036854.775808ms", "9223372036.854775808s",
		"153722867.2804129168m", "2562047.788015215502h", "00000000009223372036854775808ns", "9223372036854775809ns", "1h1h1h", "1ns1us1ms1s1m1h", "1h-1m", "1h+1m", "１s", "1.5", "s", "ns", "1sx", "3.6e12ns", "-1.5h", "+1.5h", "- 1h"}
	for _, s := range durTexts {
		run(w, &jcase{Kind: "parse", Type: "Duration", Text: intsOf([]byte(s))})
	}

	// ---- random generation
	pow2ish := func() *big.Int {
		k := uint(r.IntN(65))
		z := new(big.Int).Lsh(big.NewInt(1), k)
		return z.Add(z, big.NewInt(int64(r.IntN(5)-2)))
	}
	randVal := func(ty string) *big.Int {
		var z *big.Int
		switch r.IntN(8) {
		case 0:
			z = big.NewInt(int64(r.IntN(3000)))
		case 1:
			z = pow2ish()
		case 2: // multiple of a binary unit
			z = new(big.Int).Lsh(big.NewInt(int64(1+r.IntN(5000))), uint([]int{10, 20, 30, 40}[r.IntN(4)]))
			if r.IntN(4) == 0 {
				z.Add(z, big.NewInt(int64(r.IntN(3)-1)))
			}
		case 3: // 2^53 neighbourhood and multiples
			z = new(big.Int).Add(two53, big.NewInt(int64(r.IntN(9)-4)))
			if r.IntN(3) == 0 {
				z.Lsh(z, uint(r.IntN(11)))
				z.Add(z, big.NewInt(int64(r.IntN(3)-1)))
			}
		case 4: // near the top of the range
			if ty == "SizeV1" || ty == "SizeV2" {
				z = new(big.Int).Sub(two64, big.NewInt(int64(1+r.IntN(3000))))
			} else {
				z = new(big.Int).Sub(two63, big.NewInt(int64(1+r.IntN(3000))))
			}
		case 5: // duration-ish boundaries
			u := []int64{1, 1e3, 1e6, 1e9, 60e9, 3600e9}[r.IntN(6)]
			z = big.NewInt(u*int64(1+r.IntN(100)) + int64(r.IntN(3)-1))
		default:
			z = new(big.Int).SetUint64(r.Uint64() >> uint(r.IntN(64)))
		}
		if ty != "SizeV1" && ty != "SizeV2" && r.IntN(3) == 0 {
			z.Neg(z)
		}
		if !inRange(ty, z) {
			z = big.NewInt(int64(r.IntN(100)))
		}
		return z
	}
	ws := []string{"", "", "", " ", " ", "\t", "\n", "\v", "\f", "\r", "  ", " \n "}
	units := []string{"", "", "b", "k", "m", "g", "t", "p", "e", "kb", "mb", "gb", "tb", "pb", "eb", "kib", "mib", "gib", "tib", "pib", "eib", "ki", "mi", "gi", "ti", "pi", "ei",
		"kk", "x", "kbb", "i", "ib", "bb", "kbit", "µ", "é"}
	caseMix := func(s string) string {
		b := []byte(s)
		for i := range b {
			if b[i] >= 'a' && b[i] <= 'z' && r.IntN(3) == 0 {
				b[i] -= 32
			}
		}
		return string(b)
	}
	mantissa := func(unit string) string {
		var z *big.Int
		switch r.IntN(7) {
		case 0:
			z = big.NewInt(int64(r.IntN(2000)))
		case 1:
			z = pow2ish()
		case 2: // around 2^64/unit, 2^63/unit
			mu, ok := docMult[unit]
			if !ok {
				mu = "1024"
			}
			if r.IntN(3) == 0 {
				mu = []string{"1024", "1048576", "1073741824"}[r.IntN(3)]
			}
			top := []*big.Int{two64, two63, two53}[r.IntN(3)]
			z = new(big.Int).Div(top, bi(mu))
			z.Add(z, big.NewInt(int64(r.IntN(5)-2)))
		case 3:
			z = new(big.Int).Add(two53, big.NewInt(int64(r.IntN(9)-4)))
		case 4:
			z = new(big.Int).SetUint64(r.Uint64() >> uint(r.IntN(64)))
		case 5: // more than 64 bits
			z = new(big.Int).Lsh(new(big.Int).SetUint64(r.Uint64()), uint(r.IntN(40)))
		default:
			z = big.NewInt(int64(r.IntN(20)))
		}
		if z.Sign() < 0 {
			z.Neg(z)
		}
		s := z.String()
		switch r.IntN(12) {
		case 0: // fraction
			s += "." + strconv.Itoa(r.IntN(1000))
		case 1:
			s = "." + strconv.Itoa(r.IntN(100))
		case 2: // commas
			if len(s) > 3 {
				s = s[:len(s)-3] + "," + s[len(s)-3:]
			}
		case 3:
			s = strings.Repeat("0", r.IntN(4)) + s
		case 4:
			s += "."
		}
		return s
	}
	sizeText := func() string {
		u := units[r.IntN(len(units))]
		sign := []string{"", "", "", "", "-", "-", "+"}[r.IntN(7)]
		return ws[r.IntN(len(ws))] + sign + mantissa(u) + ws[r.IntN(len(ws))] + caseMix(u) + ws[r.IntN(len(ws))]
	}
	dunits := []string{"ns", "us", "µs", "μs", "ms", "s", "m", "h", "h", "s", "d", "hh", "", "sec", "µ", "S"}
	durText := func() string {
		var sb strings.Builder
		sb.WriteString([]string{"", "", "", "-", "-", "+"}[r.IntN(6)])
		n := 1 + r.IntN(4)
		if r.IntN(12) == 0 { // a prefix summing to 2^63
			sb.WriteString([]string{"9223372036854775808ns", "2562047h47m16.854775808s", "9223372036854775807ns1ns", "9223372036854775.808us"}[r.IntN(4)])
			if r.IntN(2) == 0 {
				sb.WriteString([]string{"9223372036854775808ns", "9223372036854775.808us", "9223372036854775808.0ns", "9223372036854775807ns", "9223372036854775808.73ns", "9223372036854775807.999999999999999999ns"}[r.IntN(6)])
			}
			n = r.IntN(2)
		}
		for i := 0; i < n; i++ {
			u := dunits[r.IntN(len(dunits))]
			var ip string
			switch r.IntN(6) {
			case 0:
				ip = ""
			case 1:
				um, ok := durUnits[u]
				if !ok {
					um = 1
				}
				z := new(big.Int).Div(two63, big.NewInt(um))
				z.Add(z, big.NewInt(int64(r.IntN(3)-1)))
				ip = z.String()
			case 2:
				ip = pow2ish().String()
				if ip[0] == '-' {
					ip = "0"
				}
			default:
				ip = strconv.Itoa(r.IntN(5000))
			}
			sb.WriteString(ip)
			if r.IntN(2) == 0 {
				sb.WriteByte('.')
				k := []int{0, 1, 3, 6, 9, 10, 18, 19, 20, 22}[r.IntN(10)]
				for j := 0; j < k; j++ {
					d := byte('0' + r.IntN(10))
					if r.IntN(3) == 0 {
						d = '9'
					}
					sb.WriteByte(d)
				}
			}
			sb.WriteString(u)
		}
		return sb.String()
	}
	for w.Len() < w.N {
		switch k := r.IntN(100); {
		case k < 40:
			ty := typeNames[r.IntN(5)]
			rtAll(ty, randVal(ty))
		case k < 75:
			s := sizeText()
			for _, ty := range typeNames[:4] {
				run(w, &jcase{Kind: "parse", Type: ty, Text: intsOf([]byte(s))})
			}
		default:
			run(w, &jcase{Kind: "parse", Type: "Duration", Text: intsOf([]byte(durText()))})
		}
	}
	w.Finish()
}
