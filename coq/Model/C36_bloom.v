(** C36 (part 2) — bloom filter, mirror of /repo/pkg/bloom/bloom.go.

    [Filter{k, b []byte, mask}]: [m = pow2(m)] bits ([pow2] starts at 8), stored little-endian
    in bytes: bit [loc] lives in [b[loc>>3]] at bit [loc&7].  The model keeps the bit array as
    a [list bool] of length [m] indexed by [loc] directly (the byte packing is a bijection on
    indices; the driver reports the set bit positions computed from [Bytes()]).

    [location(h, i) = uint((h[0] + h[1]*i) & mask)] in uint64 arithmetic:
    [((h0 + h1*i) mod 2^64) mod m].

    [hash(data)] = (xxhash(data), xxhash(data with its last byte zeroed) or 0 for empty data):
    external, a Section variable; the driver passes the real pair for every key of a case.

    No proofs in this file. *)
From Verif Require Import Base.Prelude Model.C36_rhh.

Fixpoint bpow2_loop (fuel : nat) (i v : N) : N :=
  match fuel with
  | O => i
  | S f => if N.leb v i then i else bpow2_loop f (2 * i)%N v
  end.
(** bloom's own [pow2]: [for i := 8; i < 1<<62; i *= 2] *)
Definition bpow2 (v : N) : N := bpow2_loop 59 8%N v.

Record filter := { f_k : N; f_m : N; f_bits : list bool }.

Definition f_new (m k : N) : filter :=
  let m := bpow2 m in {| f_k := k; f_m := m; f_bits := repeat false (N.to_nat m) |}.

Definition two64 : N := 18446744073709551616%N.
Definition location (m : N) (h : N * N) (i : N) : N := (((fst h + snd h * i) mod two64) mod m)%N.

Fixpoint set_bit (bits : list bool) (p : nat) : list bool :=
  match bits, p with
  | [], _ => []
  | _ :: r, O => true :: r
  | b :: r, S p' => b :: set_bit r p'
  end.
Definition get_bit (bits : list bool) (p : nat) : bool := nth p bits false.

(** The loops [for i := uint64(0); i < f.k; i++], ascending: [cnt] iterations left, current [i]. *)
Fixpoint insert_locs (m : N) (h : N * N) (cnt : nat) (i : N) (bits : list bool) : list bool :=
  match cnt with
  | O => bits
  | S c => insert_locs m h c (i + 1)%N (set_bit bits (N.to_nat (location m h i)))
  end.
Fixpoint contains_locs (m : N) (h : N * N) (cnt : nat) (i : N) (bits : list bool) : bool :=
  match cnt with
  | O => true
  | S c => if get_bit bits (N.to_nat (location m h i)) then contains_locs m h c (i + 1)%N bits else false
  end.

Fixpoint or_bits (a b : list bool) : list bool :=
  match a, b with
  | x :: a', y :: b' => (x || y) :: or_bits a' b'
  | _, _ => a
  end.

Section Bloom.
  Variable bhash : bytes -> N * N.

  Definition f_insert (f : filter) (v : bytes) : filter :=
    {| f_k := f_k f; f_m := f_m f; f_bits := insert_locs (f_m f) (bhash v) (N.to_nat (f_k f)) 0%N (f_bits f) |}.
  Definition f_contains (f : filter) (v : bytes) : bool :=
    contains_locs (f_m f) (bhash v) (N.to_nat (f_k f)) 0%N (f_bits f).

  (** [Merge]: error ([None]) if the byte lengths or [k] differ. *)
  Definition f_merge (f g : filter) : option filter :=
    if negb (N.eqb (f_m f) (f_m g)) then None
    else if negb (N.eqb (f_k f) (f_k g)) then None
    else Some {| f_k := f_k f; f_m := f_m f; f_bits := or_bits (f_bits f) (f_bits g) |}.

  (** Operations of a correspondence history: insert, membership test, merge with a second
      filter [NewFilter(m2,k2)] into which [keys] were inserted, and replacing the filter by
      its [Clone()] after mutating the original (the clone must be unaffected: the model
      just keeps the filter). *)
  Inductive bop :=
  | BInsert (v : bytes) | BContains (v : bytes)
  | BMerge (m2 k2 : N) (keys : list bytes) | BClone (scribble : list bytes).

  Definition f_of_keys (m k : N) (keys : list bytes) : filter := fold_left f_insert keys (f_new m k).

  (** Observation per op: [Contains] result / merge succeeded / true. *)
  Definition f_step (f : filter) (o : bop) : filter * bool :=
    match o with
    | BInsert v => (f_insert f v, true)
    | BContains v => (f, f_contains f v)
    | BMerge m2 k2 keys =>
        match f_merge f (f_of_keys m2 k2 keys) with
        | Some f' => (f', true)
        | None => (f, false)
        end
    | BClone _ => (f, true)
    end.
  Fixpoint f_run (f : filter) (ops : list bop) : filter * list bool :=
    match ops with
    | [] => (f, [])
    | o :: r => let '(f', b) := f_step f o in let '(f'', bs) := f_run f' r in (f'', b :: bs)
    end.
End Bloom.

Fixpoint set_positions (bits : list bool) (i : N) : list N :=
  match bits with
  | [] => []
  | b :: r => if b then i :: set_positions r (i + 1)%N else set_positions r (i + 1)%N
  end.

(** Oracle (independent of the mirror): every [Contains v] observed after [v] was inserted —
    directly or through a successfully merged filter — must be true; a merge must succeed
    iff the rounded sizes and k agree; with k > 0, an empty filter contains nothing. *)
Definition bmem (v : bytes) (l : list bytes) : bool := existsb (bytes_eqb v) l.
Fixpoint bloom_oracle (m k : N) (present : list bytes) (ops : list bop) (obs : list bool) : bool :=
  match ops, obs with
  | [], [] => true
  | o :: r, b :: obs' =>
      match o with
      | BInsert v => bloom_oracle m k (v :: present) r obs'
      | BContains v =>
          (if bmem v present then b else true)
          && (match present with [] => if N.eqb k 0 then b else negb b | _ => true end)
          && bloom_oracle m k present r obs'
      | BMerge m2 k2 keys =>
          let compatible := N.eqb (bpow2 m2) (bpow2 m) && N.eqb k2 k in
          Bool.eqb b compatible
          && bloom_oracle m k (if compatible then keys ++ present else present) r obs'
      | BClone _ => bloom_oracle m k present r obs'
      end
  | _, _ => false
  end.

Definition bhash_of_table (tab : list (bytes * (N * N))) (v : bytes) : N * N :=
  match find (fun e => bytes_eqb (fst e) v) tab with Some e => snd e | None => (0%N, 0%N) end.

Definition check_bloom (m k : N) (tab : list (bytes * (N * N))) (ops : list bop)
           (obs : list bool) (bits : list N) : verdict :=
  let '(f, mobs) := f_run (bhash_of_table tab) (f_new m k) ops in
  let same := list_eqb Bool.eqb obs mobs && list_eqb N.eqb bits (set_positions (f_bits f) 0%N) in
  let ok := bloom_oracle m k [] ops obs in
  judge same ok.
