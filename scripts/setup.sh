#!/bin/bash
# setup_cmd: build the framework offline from files on disk.
set -e
cd /verif
export GOFLAGS=-mod=mod GOPROXY=off
unset GOTOOLCHAIN GOSUMDB
./scripts/mkfluxstub.sh
# translated definitions (go2v) are regenerated from /repo
mkdir -p build/bin coq/Gen
( cd go2v && go build -o ../build/bin/go2v . )
for spec in go2v/*.json; do ./build/bin/go2v /repo $spec; done
# full clean .vo build of the whole Coq development
( cd coq && rm -f _CoqProject Makefile Makefile.conf && find . -name '*.vo' -o -name '*.vok' -o -name '*.vos' -o -name '*.glob' -o -name '.*.aux' | xargs -r rm -f )
# build the Props target (and thereby model + proofs) of every claimed check; files of
# properties still under construction are not part of the claimed development
TARGETS=$(python3 -c "
import json
for i in open('checks/ENABLED').read().split():
    c=json.load(open('checks/%s.json'%i)); print(c['props'][:-2]+'.vo', c['model'][:-2]+'.vo')
" | tr '\n' ' ')
./scripts/coqbuild.sh $TARGETS > build/coq-setup.log 2>&1 || { tail -40 build/coq-setup.log; echo "coq build failed" >&2; exit 1; }
# warm the go build cache: build every driver once (with hooks on)
mkdir -p build/bin
DRIVERS=$(python3 -c "
import json
print(' '.join(sorted({json.load(open('checks/%s.json'%i))['driver'] for i in open('checks/ENABLED').read().split()})))")
( cd harness && for n in $DRIVERS; do go build -tags verif -o ../build/bin/$n ./cmd/$n || exit 1; done )
echo setup ok
