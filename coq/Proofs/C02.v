From Verif Require Import Base.Prelude Model.C01 Proofs.C01 Model.C02.
From Coq Require Import ZifyN ZifyNat.

(** * (A) WAL framing *)
Lemma be32_length n : length (be32 n) = 4.
Proof. reflexivity. Qed.

Lemma rd32_be32 n : (n < 4294967296)%N ->
  match be32 n with [b3; b2; b1; b0] => rd32 b3 b2 b1 b0 = n | _ => False end.
Proof.
  intros H. unfold be32, rd32.
  pose proof (N.div_mod n 256 ltac:(lia)) as E0.
  pose proof (N.div_mod (n / 256) 256 ltac:(lia)) as E1.
  pose proof (N.div_mod (n / 256 / 256) 256 ltac:(lia)) as E2.
  assert (A1 : (n / 65536 = n / 256 / 256)%N) by (rewrite N.div_div by lia; reflexivity).
  assert (A2 : (n / 16777216 = n / 256 / 256 / 256)%N) by (rewrite !N.div_div by lia; reflexivity).
  rewrite A1, A2.
  assert (S3 : (n / 256 / 256 / 256 < 256)%N).
  { rewrite !N.div_div by lia. apply N.div_lt_upper_bound; lia. }
  rewrite (N.mod_small _ _ S3). lia.
Qed.

Section WalProofs.
  Variable decodable : rec -> bool.

  Lemma frame_length r : length (frame r) = 5 + length (snd r).
  Proof. unfold frame. cbn [length]. rewrite app_length, be32_length. lia. Qed.

  Definition rec_ok (r : rec) : Prop :=
    decodable r = true /\ (N.of_nat (length (snd r)) < 4294967296)%N.

  (** Parsing a complete frame followed by anything. *)
  Lemma wal_parse_frame fuel r rest :
    rec_ok r ->
    wal_parse decodable (S fuel) (frame r ++ rest) =
    let (rs, n) := wal_parse decodable fuel rest in (r :: rs, 5 + length (snd r) + n).
  Proof.
    intros [Hd Hl]. destruct r as [ty pl]. cbn [fst snd] in *.
    unfold frame. cbn [fst snd].
    pose proof (rd32_be32 _ Hl) as Hr. unfold be32 in *. cbn [app].
    cbn [wal_parse]. rewrite Hr, Nat2N.id.
    rewrite app_length. replace (Nat.leb (length pl) (length pl + length rest)) with true
      by (symmetry; apply Nat.leb_le; lia).
    rewrite firstn_app, Nat.sub_diag, firstn_all, firstn_O, app_nil_r.
    rewrite Hd. rewrite skipn_app, Nat.sub_diag, skipn_all. cbn [skipn app].
    reflexivity.
  Qed.

  (** A strict prefix of a frame parses to nothing. *)
  Lemma wal_parse_torn fuel r n :
    (N.of_nat (length (snd r)) < 4294967296)%N -> n < length (frame r) ->
    wal_parse decodable fuel (firstn n (frame r)) = ([], 0).
  Proof.
    intros Hl Hn. destruct fuel; [reflexivity|].
    destruct r as [ty pl]. cbn [fst snd] in *. rewrite frame_length in Hn. cbn [snd] in Hn.
    unfold frame. cbn [fst snd].
    pose proof (rd32_be32 _ Hl) as Hr. unfold be32 in *.
    destruct n as [|[|[|[|[|n]]]]]; try reflexivity.
    cbn [app firstn wal_parse]. rewrite Hr, Nat2N.id.
    replace (Nat.leb (length pl) (length (firstn n pl))) with false; [reflexivity|].
    symmetry. apply Nat.leb_gt. rewrite firstn_length. lia.
  Qed.

  Lemma frames_length_le rs : length rs <= length (frames rs).
  Proof.
    induction rs as [|r rs IH]; [cbn; lia|]. unfold frames in *. cbn [flat_map length].
    rewrite app_length, frame_length. lia.
  Qed.

  Lemma wal_parse_frames rs : forall fuel tail,
    Forall rec_ok rs -> length rs <= fuel ->
    wal_parse decodable fuel (frames rs ++ tail) =
    let (ts, n) := wal_parse decodable (fuel - length rs) tail in (rs ++ ts, length (frames rs) + n).
  Proof.
    induction rs as [|r rs IH]; intros fuel tail HF Hfu.
    - cbn. rewrite Nat.sub_0_r. destruct (wal_parse decodable fuel tail). reflexivity.
    - inversion HF as [|? ? Hr HF']; subst. destruct fuel as [|fuel]; [cbn in Hfu; lia|].
      cbn [frames flat_map]. rewrite <- app_assoc.
      rewrite (wal_parse_frame fuel r _ Hr). fold (frames rs).
      rewrite (IH fuel tail HF') by (cbn in Hfu; lia).
      cbn [length Nat.sub]. destruct (wal_parse decodable (fuel - length rs) tail) as [ts n].
      cbn [app]. f_equal. rewrite app_length, frame_length. lia.
  Qed.

  (** The torn-tail theorem: earlier records are all recovered, nothing is invented, and
      the good prefix ends exactly where the torn record starts. *)
  Theorem wal_torn_tail rs r n :
    Forall rec_ok rs -> (N.of_nat (length (snd r)) < 4294967296)%N -> n < length (frame r) ->
    wal_read decodable (frames rs ++ firstn n (frame r)) = (rs, length (frames rs)).
  Proof.
    intros HF Hl Hn. unfold wal_read.
    rewrite wal_parse_frames; [|exact HF|].
    - rewrite (wal_parse_torn _ r n Hl Hn). f_equal; [apply app_nil_r|lia].
    - rewrite app_length. pose proof (frames_length_le rs). lia.
  Qed.

  Theorem wal_complete rs :
    Forall rec_ok rs -> wal_read decodable (frames rs) = (rs, length (frames rs)).
  Proof.
    intros HF. pose proof (wal_torn_tail rs (0%N, []) 0 HF) as H.
    cbn [firstn] in H. rewrite app_nil_r in H. apply H; cbn; lia.
  Qed.
End WalProofs.

(** * (B) Crash safety of the engine *)
Definition ov (a b : option Z) : option Z := match a with Some v => Some v | None => b end.
Notation lg := log_get.
Definition eqv (A B : log) : Prop := forall k t, lg A k t = lg B k t.

Lemma abs_ov s k t :
  abs s k t = ov (lg (hot s) k t) (ov (lg (snap s) k t) (files_get (files s) k t)).
Proof. reflexivity. Qed.

Lemma replay_from_app B a b : replay_from B (a ++ b) = replay_from (replay_from B a) b.
Proof. revert B. induction a as [|e a IH]; intros B; [reflexivity|]. destruct e; cbn; apply IH. Qed.

Definition nodel (E : list wentry) : Prop :=
  Forall (fun e => match e with WDelete _ _ _ => False | _ => True end) E.

Lemma replay_nodel E : nodel E -> forall B k t,
  lg (replay_from B E) k t = ov (lg (replay_from [] E) k t) (lg B k t).
Proof.
  induction 1 as [|e E He _ IH]; intros B k t; [reflexivity|].
  destruct e as [b|]; [|destruct He]. cbn [replay_from app].
  rewrite (IH (B ++ b)), (IH b). rewrite log_get_app.
  destruct (log_get (replay_from [] E) k t); cbn; [reflexivity|].
  destruct (log_get b k t); reflexivity.
Qed.

Lemma replay_cong E : forall B B', eqv B B' -> eqv (replay_from B E) (replay_from B' E).
Proof.
  induction E as [|e E IH]; intros B B' H; [exact H|]. destruct e as [b|ks lo hi]; cbn [replay_from]; apply IH.
  - intros k t. rewrite !log_get_app. rewrite (H k t). reflexivity.
  - intros k t. rewrite !log_delete_get. rewrite (H k t). reflexivity.
Qed.

Lemma has_key_false l k t : has_key l k = false -> log_get l k t = None.
Proof.
  intros H. apply log_get_none_iff. intros v Hin.
  unfold has_key in H. assert (E : existsb (fun e => N.eqb (fst (fst e)) k) l = true).
  { apply existsb_exists. exists (k, t, v). split; [exact Hin|]. cbn. apply N.eqb_refl. }
  congruence.
Qed.

Lemma in_keys_filter (p : key -> bool) ks k : in_keys (filter p ks) k = (in_keys ks k && p k)%bool.
Proof.
  unfold in_keys. induction ks as [|x ks IH]; cbn; [reflexivity|].
  destruct (p x) eqn:P; cbn; rewrite IH.
  - destruct (N.eqb k x) eqn:E; cbn; [|reflexivity]. apply N.eqb_eq in E; subst. rewrite P. reflexivity.
  - destruct (N.eqb k x) eqn:E; cbn; [|reflexivity]. apply N.eqb_eq in E; subst. rewrite P.
    destruct (existsb (N.eqb x) ks); reflexivity.
Qed.

Lemma delete_dk_eqv H B ks lo hi :
  eqv H B -> eqv (log_delete H ks lo hi) (log_delete B (filter (has_key H) ks) lo hi).
Proof.
  intros E k t. rewrite !log_delete_get. unfold hit. rewrite in_keys_filter.
  destruct (in_keys ks k) eqn:K; cbn; [|apply E].
  destruct (has_key H k) eqn:HK; cbn; [rewrite (E k t); reflexivity|].
  destruct (in_range lo hi t); [|apply E].
  rewrite <- (E k t). symmetry. apply has_key_false. exact HK.
Qed.

(** Coverage: everything the closed segments would replay is already in the TSM files. *)
Definition cov (cl : list wentry) (fs : list file) : Prop :=
  forall k t v, lg (replay_from [] cl) k t = Some v -> files_get fs k t = Some v.

(** ... and everything in the snapshot store is. *)
Definition scov (sn : log) (fs : list file) : Prop :=
  forall k t v, lg sn k t = Some v -> files_get fs k t = Some v.

(** The invariant.  [T] ("tainted") is a ghost flag of the proof, not of the model: it is set
    when a snapshot starts on a holed segment with entries behind the hole (the snapshot store
    then holds acknowledged operations that no reachable WAL entry backs) and cleared when
    that snapshot's commit has removed the closed segments.  While [T] holds the WAL-level
    facts about the snapshot store are not available (and a crash would lose data), only what
    is needed to carry the content through the commit. *)
Definition InvT (d : dstate) (T : bool) : Prop :=
  let s := mem d in
  (phase d = 0%N /\ T = false /\ snapshotting s = false /\ snap s = [] /\
     eqv (hot s) (replay_from [] (closed d ++ opn d ++ gh d))) \/
  (phase d = 1%N /\ hole d = None /\ snapshotting s = true /\ nodel (opn d) /\
     eqv (hot s) (replay_from [] (opn d)) /\
     (T = false -> eqv (snap s) (replay_from [] (closed d)))) \/
  (phase d = 2%N /\ hole d = None /\ snapshotting s = true /\ nodel (opn d) /\
     eqv (hot s) (replay_from [] (opn d)) /\ scov (snap s) (files s) /\
     (T = false -> eqv (snap s) (replay_from [] (closed d)) /\ cov (closed d) (files s))) \/
  (phase d = 3%N /\ hole d = None /\ snapshotting s = false /\ snap s = [] /\ nodel (opn d) /\
     eqv (hot s) (replay_from [] (opn d)) /\
     (T = false -> cov (closed d) (files s))).

Definition Inv (d : dstate) : Prop := InvT d false.

Lemma inv_init : Inv dinit.
Proof. left. repeat split. Qed.

Lemma inv_recover d : Inv (recover d).
Proof.
  left. cbn [recover mem closed opn phase hot snap snapshotting]. repeat split.
  unfold gh. cbn [recover hole]. intros k t.
  destruct (hole d) as [[|e g]|]; rewrite ?app_nil_r; reflexivity.
Qed.

Lemma inv_recover_torn d : Inv (recover_torn d).
Proof.
  left. cbn [recover_torn recover mem closed opn phase hot snap snapshotting]. repeat split.
  unfold gh. cbn [recover_torn hole]. intros k t. rewrite !app_nil_r. reflexivity.
Qed.

(** Durability: recovering from a crash of an untainted invariant state with nothing behind a
    hole shows the same content. *)
Lemma durable d : Inv d -> gh d = [] -> forall k t, abs (mem (recover d)) k t = abs (mem d) k t.
Proof.
  intros HI Hg k t. rewrite !abs_ov. cbn [recover mem hot snap files log_get].
  destruct HI as [[_ [_ [_ [Hs Hh]]]] | [[_ [_ [_ [Hnd [Hh Hsn]]]]] | [[_ [_ [_ [Hnd [Hh [_ Hsn]]]]]] | [_ [_ [_ [Hs [Hnd [Hh Hc]]]]]]]]].
  - rewrite Hs. cbn. rewrite Hg, app_nil_r in Hh. rewrite <- (Hh k t). reflexivity.
  - specialize (Hsn eq_refl).
    rewrite replay_from_app, (replay_nodel _ Hnd), <- (Hh k t), <- (Hsn k t).
    destruct (log_get (hot (mem d)) k t); reflexivity.
  - destruct (Hsn eq_refl) as [Hsn' _].
    rewrite replay_from_app, (replay_nodel _ Hnd), <- (Hh k t), <- (Hsn' k t).
    destruct (log_get (hot (mem d)) k t); reflexivity.
  - specialize (Hc eq_refl).
    rewrite Hs. cbn. rewrite replay_from_app, (replay_nodel _ Hnd), <- (Hh k t).
    destruct (lg (hot (mem d)) k t); cbn; [reflexivity|].
    destruct (lg (replay_from [] (closed d)) k t) eqn:E; cbn; [|reflexivity].
    symmetry. apply Hc. exact E.
Qed.

(** ** Safe histories: deletes and snapshot starts only when no snapshot commit is in flight,
    no failed snapshots, and — torn tails — a crash (plain or torn) only while nothing
    acknowledged sits behind a hole: after a torn-tail crash followed by acknowledged writes or
    deletes, the next crash may come only after a NON-EMPTY snapshot has been started (which
    closes the holed segment) and committed through WAL.Remove.  A torn-tail crash itself, and
    any number of them in a row, is always allowed where a plain crash is. *)
Definition tnext (d : dstate) (T : bool) (o : dop) : bool :=
  match o with
  | DSnapBegin => if N.eqb (phase d) 0 then match gh d with [] => T | _ :: _ => true end else T
  | DCommitWalRemove => if N.eqb (phase d) 3 then false else T
  | DCrash | DCrashTorn => false
  | _ => T
  end.

Definition safe_op (d : dstate) (T : bool) (o : dop) : Prop :=
  match o with
  | DDelete _ _ _ => phase d = 0%N
  | DSnapBegin => phase d = 0%N
  | DSnapFail => False
  | DCrash | DCrashTorn => T = false /\ gh d = []
  | DCommitReplace => T = true -> phase d = 1%N -> snap (mem d) <> []
  | _ => True
  end.

Fixpoint dsafeT (h : list dop) (d : dstate) (T : bool) : Prop :=
  match h with
  | [] => True
  | o :: r => safe_op d T o /\ dsafeT r (fst (dstep d o)) (tnext d T o)
  end.

Definition dsafe (h : list dop) (d : dstate) : Prop := dsafeT h d false.

Fixpoint trun (h : list dop) (d : dstate) (T : bool) : bool :=
  match h with
  | [] => T
  | o :: r => trun r (fst (dstep d o)) (tnext d T o)
  end.

Lemma cov_files_get cl fs fs' :
  (forall k t, files_get fs' k t = files_get fs k t) -> cov cl fs -> cov cl fs'.
Proof. intros H C k t v E. rewrite H. apply C. exact E. Qed.

Lemma scov_files_get sn fs fs' :
  (forall k t, files_get fs' k t = files_get fs k t) -> scov sn fs -> scov sn fs'.
Proof. intros H C k t v E. rewrite H. apply C. exact E. Qed.

Lemma compact_files_get s i n k t :
  files_get (files (fst (step s (Compact i n)))) k t = files_get (files s) k t.
Proof.
  pose proof (step_compact_abs {| hot := []; snap := []; snapshotting := snapshotting s; files := files s |} i n k t) as H.
  unfold abs in H. cbn [hot snap log_get] in H.
  unfold step in *. cbn [files] in H.
  destruct (Nat.leb 1 n && Nat.leb (i + n) (length (files s)))%bool; [|reflexivity].
  cbn [fst files] in *. exact H.
Qed.

Lemma compact_keeps s i n :
  hot (fst (step s (Compact i n))) = hot s /\ snap (fst (step s (Compact i n))) = snap s /\
  snapshotting (fst (step s (Compact i n))) = snapshotting s.
Proof.
  unfold step. destruct (Nat.leb 1 n && Nat.leb (i + n) (length (files s)))%bool; repeat split.
Qed.

Lemma eqv_app A B b : eqv A B -> eqv (A ++ b) (B ++ b).
Proof. intros H k t. rewrite !log_get_app, (H k t). reflexivity. Qed.

Lemma nodel_app a b : nodel a -> nodel b -> nodel (a ++ b).
Proof. apply Forall_app_2 || (intros; apply Forall_app; split; assumption). Qed.

(** An append extends the segment's logical content (reachable part ++ part behind the hole)
    at its end, wherever the bytes land. *)
Lemma wal_append_all d e :
  closed d ++ fst (wal_append d e) ++ match snd (wal_append d e) with Some g => g | None => [] end =
  (closed d ++ opn d ++ gh d) ++ [e].
Proof.
  unfold wal_append, gh. destruct (hole d) as [g|]; cbn [fst snd]; rewrite ?app_nil_r, <- ?app_assoc; reflexivity.
Qed.

Lemma wal_append_nohole d e : hole d = None -> wal_append d e = (opn d ++ [e], None).
Proof. intros H. unfold wal_append. rewrite H. reflexivity. Qed.

Lemma inv_step d T o : InvT d T -> safe_op d T o -> InvT (fst (dstep d o)) (tnext d T o).
Proof.
  intros HI Hs. destruct o as [b|ks lo hi| | | | | |i n| |].
  - (* write *)
    cbn [dstep tnext].
    destruct HI as [[Hp [HT [H1 [H2 H3]]]] | [[Hp [Hh [H1 [H3 [H4 H2]]]]] | [[Hp [Hh [H1 [H3 [H4 [H5 H2]]]]]] | [Hp [Hh [H1 [H2 [H3 [H4 H5]]]]]]]]].
    + pose proof (wal_append_all d (WWrite b)) as WA.
      destruct (wal_append d (WWrite b)) as [o' h'] eqn:EW. cbn [fst snd] in *.
      left. unfold gh. cbn [fst mem closed opn phase hole step hot snap snapshotting files].
      repeat split; try assumption. rewrite WA, replay_from_app. cbn [replay_from]. apply eqv_app. exact H3.
    + rewrite (wal_append_nohole d _ Hh). cbn [fst].
      right; left. cbn [mem closed opn phase hole step fst hot snap snapshotting files].
      repeat split; try assumption.
      * apply nodel_app; [exact H3|repeat constructor].
      * rewrite replay_from_app. cbn [replay_from]. apply eqv_app. exact H4.
    + rewrite (wal_append_nohole d _ Hh). cbn [fst].
      right; right; left. cbn [mem closed opn phase hole step fst hot snap snapshotting files].
      split; [exact Hp|]. split; [reflexivity|]. split; [exact H1|]. split; [|split; [|split; [exact H5|exact H2]]].
      * apply nodel_app; [exact H3|repeat constructor].
      * rewrite replay_from_app. cbn [replay_from]. apply eqv_app. exact H4.
    + rewrite (wal_append_nohole d _ Hh). cbn [fst].
      right; right; right. cbn [mem closed opn phase hole step fst hot snap snapshotting files].
      repeat split; try assumption.
      * apply nodel_app; [exact H3|repeat constructor].
      * rewrite replay_from_app. cbn [replay_from]. apply eqv_app. exact H4.
  - (* delete at phase 0 *)
    cbn [dstep tnext]. cbn [safe_op] in Hs.
    destruct HI as [[Hp [HT [H1 [H2 H3]]]] | [[Hp _] | [[Hp _] | [Hp _]]]]; try (rewrite Hs in Hp; discriminate).
    pose proof (delete_dk_eqv _ _ ks lo hi H3) as DK.
    destruct (filter (has_key (hot (mem d))) ks) as [|k0 dk] eqn:EF.
    + left. cbn [fst mem closed opn phase hole step hot snap snapshotting files].
      repeat split; try assumption.
      intros k t. rewrite (DK k t). rewrite log_delete_get. unfold hit, in_keys. cbn [existsb andb]. reflexivity.
    + set (e := WDelete (k0 :: dk) lo hi) in *.
      pose proof (wal_append_all d e) as WA.
      destruct (wal_append d e) as [o' h'] eqn:EW. cbn [fst snd] in *.
      left. unfold gh. cbn [fst mem closed opn phase hole step hot snap snapshotting files].
      repeat split; try assumption.
      rewrite WA, replay_from_app. unfold e. cbn [replay_from]. exact DK.
  - (* snapbegin at phase 0 *)
    cbn [safe_op] in Hs.
    destruct HI as [[Hp [HT [H1 [H2 H3]]]] | [[Hp _] | [[Hp _] | [Hp _]]]]; try (rewrite Hs in Hp; discriminate).
    unfold dstep, tnext. rewrite Hp. cbn [N.eqb Pos.eqb]. unfold step. rewrite H1, H2.
    cbn [fst]. right; left. cbn [mem closed opn phase hole snapshotting snap hot].
    repeat split; try assumption; try constructor; try (intros ? ?; reflexivity).
    intros HT'. destruct (gh d) as [|e g] eqn:G; [|discriminate].
    rewrite app_nil_r in H3. exact H3.
  - (* commit: replace *)
    cbn [tnext]. unfold dstep. destruct (N.eqb (phase d) 1) eqn:P; [|exact HI]. apply N.eqb_eq in P.
    destruct HI as [[Hp _] | [[Hp [Hh [H1 [H3 [H4 H2]]]]] | [[Hp _] | [Hp _]]]]; try (rewrite P in Hp; discriminate).
    destruct (snap (mem d)) as [|e l] eqn:Sn; cbn [fst].
    + cbn [safe_op] in Hs. destruct T; [exfalso; apply (Hs eq_refl P); exact Sn|].
      specialize (H2 eq_refl).
      left. unfold gh. cbn [mem closed opn phase hole snapshotting snap hot]. rewrite Hh, app_nil_r. repeat split.
      intros k t. rewrite replay_from_app, (replay_nodel _ H3), <- (H4 k t), <- (H2 k t).
      cbn [log_get]. destruct (lg (hot (mem d)) k t); reflexivity.
    + right; right; left. cbn [mem closed opn phase hole snapshotting snap hot files].
      assert (SC : scov (e :: l) (files (mem d) ++ [{| fpts := e :: l; ftomb := [] |}])).
      { intros k t v E. rewrite files_get_app. cbn [files_get]. unfold file_get. cbn [ftomb fpts tombed existsb].
        rewrite E. reflexivity. }
      split; [reflexivity|]. split; [exact Hh|]. split; [reflexivity|]. split; [exact H3|]. split; [exact H4|].
      split; [exact SC|]. intros HT. split; [exact (H2 HT)|].
      intros k t v E. apply SC. rewrite (H2 HT k t). exact E.
  - (* commit: clear *)
    cbn [tnext]. unfold dstep. destruct (N.eqb (phase d) 2) eqn:P; [|exact HI]. apply N.eqb_eq in P.
    destruct HI as [[Hp _] | [[Hp _] | [[Hp [Hh [H1 [H3 [H4 [H5 H2]]]]]] | [Hp _]]]]; try (rewrite P in Hp; discriminate).
    right; right; right. cbn [fst mem closed opn phase hole snapshotting snap hot files]. repeat split; try assumption.
    intros HT. apply (H2 HT).
  - (* commit: wal remove *)
    unfold tnext, dstep. destruct (N.eqb (phase d) 3) eqn:P; [|exact HI]. apply N.eqb_eq in P.
    destruct HI as [[Hp _] | [[Hp _] | [[Hp _] | [Hp [Hh [H1 [H2 [H3 [H4 H5]]]]]]]]]; try (rewrite P in Hp; discriminate).
    left. unfold gh. cbn [fst mem closed opn phase hole app]. rewrite Hh, app_nil_r. repeat split; assumption.
  - destruct Hs.
  - (* compact *)
    cbn [tnext]. unfold dstep. destruct (step (mem d) (Compact i n)) as [s' ok] eqn:E. cbn [fst].
    assert (Es : s' = fst (step (mem d) (Compact i n))) by (rewrite E; reflexivity).
    destruct (compact_keeps (mem d) i n) as [K1 [K2 K3]]. rewrite <- Es in K1, K2, K3.
    assert (KF : forall k t, files_get (files s') k t = files_get (files (mem d)) k t)
      by (intros; rewrite Es; apply compact_files_get).
    unfold InvT in *. unfold with_mem, gh in *. cbn [mem closed opn phase hole]. rewrite K1, K2, K3.
    destruct HI as [H | [H | [[Hp [Hh [H1 [H3 [H4 [H5 H2]]]]]] | [Hp [Hh [H1 [H2 [H3 [H4 H5]]]]]]]]].
    + left; exact H.
    + right; left; exact H.
    + right; right; left. repeat split; try assumption.
      * eapply scov_files_get; [exact KF|exact H5].
      * apply (H2 H).
      * eapply cov_files_get; [exact KF|apply (H2 H)].
    + right; right; right. repeat split; try assumption.
      intros HT. eapply cov_files_get; [exact KF|exact (H5 HT)].
  - apply inv_recover.
  - apply inv_recover_torn.
Qed.

(** Content after one safe step. *)
Lemma dstep_abs d T o k t : InvT d T -> safe_op d T o ->
  abs (mem (fst (dstep d o))) k t =
  match o with
  | DWrite b => overlay b (abs (mem d)) k t
  | DDelete ks lo hi => if hit ks lo hi k t then None else abs (mem d) k t
  | _ => abs (mem d) k t
  end.
Proof.
  intros HI Hs. destruct o as [b|ks lo hi| | | | | |i n| |].
  - cbn [dstep]. destruct (wal_append d (WWrite b)). cbn [fst mem]. apply step_write_abs.
  - cbn [dstep]. destruct (match filter (has_key (hot (mem d))) ks with [] => _ | _ :: _ => _ end). cbn [fst mem]. apply step_delete_abs.
    cbn [safe_op] in Hs.
    destruct HI as [[_ [_ [_ [H _]]]] | [[Hp _] | [[Hp _] | [Hp _]]]]; [exact H| | |]; rewrite Hs in Hp; discriminate.
  - cbn [safe_op] in Hs. unfold dstep. rewrite Hs. cbn [N.eqb]. destruct (step (mem d) SnapBegin) as [s' ok] eqn:E. cbn [fst mem].
    replace s' with (fst (step (mem d) SnapBegin)) by (rewrite E; reflexivity). apply step_snapbegin_abs.
  - unfold dstep. destruct (N.eqb (phase d) 1) eqn:P; [|reflexivity].
    destruct (snap (mem d)) as [|e l] eqn:Sn; cbn [fst mem]; unfold abs; cbn [hot snap files]; rewrite ?Sn.
    + reflexivity.
    + rewrite files_get_app. cbn [files_get]. unfold file_get. cbn [ftomb fpts tombed existsb].
      destruct (log_get (hot (mem d)) k t); [reflexivity|].
      destruct (log_get (e :: l) k t); reflexivity.
  - unfold dstep. destruct (N.eqb (phase d) 2) eqn:P; [|reflexivity]. apply N.eqb_eq in P.
    destruct HI as [[Hp _] | [[Hp _] | [[Hp [Hh [H1 [H3 [H4 [H5 H2]]]]]] | [Hp _]]]]; try (rewrite P in Hp; discriminate).
    cbn [fst mem]. rewrite !abs_ov. cbn [hot snap files]. cbn [log_get].
    destruct (lg (hot (mem d)) k t); cbn; [reflexivity|].
    destruct (lg (snap (mem d)) k t) eqn:E; cbn; [|reflexivity].
    apply H5. exact E.
  - unfold dstep. destruct (N.eqb (phase d) 3); reflexivity.
  - destruct Hs.
  - unfold dstep. destruct (step (mem d) (Compact i n)) as [s' ok] eqn:E. cbn [fst with_mem mem].
    replace s' with (fst (step (mem d) (Compact i n))) by (rewrite E; reflexivity). apply step_compact_abs.
  - cbn [dstep fst]. cbn [safe_op] in Hs. destruct Hs as [HT Hg]. subst T. apply durable; assumption.
  - cbn [dstep fst]. cbn [safe_op] in Hs. destruct Hs as [HT Hg]. subst T.
    change (mem (recover_torn d)) with (mem (recover d)). apply durable; assumption.
Qed.

Theorem drun_refines h : forall d T L,
  InvT d T -> (forall k t, abs (mem d) k t = log_get L k t) -> dsafeT h d T ->
  InvT (drun h d) (trun h d T) /\ forall k t, abs (mem (drun h d)) k t = log_get (dspec_log h L) k t.
Proof.
  induction h as [|o h IH]; intros d T L HI HA HS; [split; assumption|].
  destruct HS as [Ho HS]. unfold drun. cbn [fold_left trun]. fold (drun h (fst (dstep d o))).
  pose proof (inv_step d T o HI Ho) as HI'.
  assert (HA' : forall k t, abs (mem (fst (dstep d o))) k t =
          log_get (match o with DWrite b => L ++ b | DDelete ks lo hi => log_delete L ks lo hi | _ => L end) k t).
  { intros k t. rewrite (dstep_abs d T o k t HI Ho). destruct o; try apply HA.
    - unfold overlay. rewrite log_get_app, HA. reflexivity.
    - rewrite log_delete_get, HA. reflexivity. }
  destruct o; cbn [dspec_log]; apply IH; assumption.
Qed.

Theorem ack_durable h :
  dsafe h dinit -> forall k t, abs (mem (drun h dinit)) k t = log_get (dspec_log h []) k t.
Proof. intros HS. apply (drun_refines h dinit false [] inv_init (fun _ _ => eq_refl) HS). Qed.

Theorem ack_durable_read h k lo hi asc :
  dsafe h dinit -> read (mem (drun h dinit)) k lo hi asc = spec_read (dspec_log h []) k lo hi asc.
Proof. intros HS. apply read_eq_spec. intros t. apply ack_durable. exact HS. Qed.

Lemma dsafeT_app h1 : forall h2 d T,
  dsafeT (h1 ++ h2) d T <-> dsafeT h1 d T /\ dsafeT h2 (drun h1 d) (trun h1 d T).
Proof.
  induction h1 as [|o h1 IH]; intros h2 d T; cbn [app dsafeT trun].
  - unfold drun. cbn. tauto.
  - unfold drun. cbn [fold_left]. fold (drun h1 (fst (dstep d o))). rewrite IH. tauto.
Qed.

(** The crash step: wherever [dsafe] allows a crash, recovery shows the content the running
    engine showed. *)
Theorem crash_preserves h :
  dsafe (h ++ [DCrash]) dinit -> forall k t,
  abs (mem (recover (drun h dinit))) k t = abs (mem (drun h dinit)) k t.
Proof.
  intros HS k t. apply dsafeT_app in HS. destruct HS as [H1 [[HT Hg] _]].
  destruct (drun_refines h dinit false [] inv_init (fun _ _ => eq_refl) H1) as [HI _].
  rewrite HT in HI. apply durable; assumption.
Qed.

(** ** The three ways the full statement fails (all confirmed on the real engine). *)
Definition lost_write_witness : list dop :=
  [DWrite [(1%N, 1%Z, 10%Z)]; DSnapBegin; DSnapFail; DWrite [(1%N, 2%Z, 20%Z)];
   DSnapBegin; DCommitReplace; DCommitClear; DCommitWalRemove; DCrash].

Lemma lost_write :
  abs (mem (drun lost_write_witness dinit)) 1%N 2%Z = None /\
  log_get (dspec_log lost_write_witness []) 1%N 2%Z = Some 20%Z.
Proof. vm_compute. split; reflexivity. Qed.

Definition lost_delete_witness : list dop :=
  [DWrite [(1%N, 5%Z, 7%Z)]; DSnapBegin; DDelete [1%N] 0%Z 10%Z;
   DCommitReplace; DCommitClear; DCommitWalRemove; DCrash].

Lemma lost_delete :
  abs (mem (drun lost_delete_witness dinit)) 1%N 5%Z = Some 7%Z /\
  log_get (dspec_log lost_delete_witness []) 1%N 5%Z = None.
Proof. vm_compute. split; reflexivity. Qed.

(** write A; write B in flight, its WAL record torn, crash + reopen; write C acknowledged by
    the reopened engine; crash + reopen: C is gone (and A is still there). *)
Definition torn_hole_witness : list dop :=
  [DWrite [(1%N, 1%Z, 10%Z)]; DCrashTorn; DWrite [(1%N, 3%Z, 30%Z)]; DCrash].

Lemma torn_hole :
  abs (mem (drun torn_hole_witness dinit)) 1%N 3%Z = None /\
  log_get (dspec_log torn_hole_witness []) 1%N 3%Z = Some 30%Z /\
  abs (mem (drun torn_hole_witness dinit)) 1%N 1%Z = Some 10%Z.
Proof. vm_compute. repeat split; reflexivity. Qed.

(** ... and a deleted point comes back the same way. *)
Definition torn_hole_delete_witness : list dop :=
  [DWrite [(1%N, 1%Z, 10%Z)]; DCrashTorn; DDelete [1%N] 0%Z 5%Z; DCrash].

Lemma torn_hole_delete :
  abs (mem (drun torn_hole_delete_witness dinit)) 1%N 1%Z = Some 10%Z /\
  log_get (dspec_log torn_hole_delete_witness []) 1%N 1%Z = None.
Proof. vm_compute. split; reflexivity. Qed.

(** ** Histories without torn-tail crashes: the hypothesis reduces to the one used before the
    hole was modelled. *)
Fixpoint dsafe_old (h : list dop) (d : dstate) : Prop :=
  match h with
  | [] => True
  | o :: r =>
      match o with
      | DDelete _ _ _ => phase d = 0%N
      | DSnapBegin => phase d = 0%N
      | DSnapFail => False
      | _ => True
      end /\ dsafe_old r (fst (dstep d o))
  end.

Lemma hole_step d o : hole d = None -> o <> DCrashTorn -> hole (fst (dstep d o)) = None.
Proof.
  intros H Ho. destruct o as [b|ks lo hi| | | | | |i n| |]; cbn [dstep].
  - rewrite (wal_append_nohole d _ H). reflexivity.
  - destruct (filter (has_key (hot (mem d))) ks); [exact H|]. rewrite (wal_append_nohole d _ H). reflexivity.
  - destruct (N.eqb (phase d) 0); [destruct (step (mem d) SnapBegin)|]; reflexivity.
  - destruct (N.eqb (phase d) 1); [destruct (snap (mem d))|]; cbn; assumption.
  - destruct (N.eqb (phase d) 2); cbn; assumption.
  - destruct (N.eqb (phase d) 3); cbn; assumption.
  - destruct (N.eqb (phase d) 1); cbn; assumption.
  - destruct (step (mem d) (Compact i n)). cbn. assumption.
  - cbn. rewrite H. reflexivity.
  - congruence.
Qed.

Lemma tnext_nohole d o : hole d = None -> tnext d false o = false.
Proof.
  intros H. destruct o; cbn [tnext]; try reflexivity.
  - unfold gh. rewrite H. destruct (N.eqb (phase d) 0); reflexivity.
  - destruct (N.eqb (phase d) 3); reflexivity.
Qed.

Lemma dsafe_without_torn_gen h : forall d,
  hole d = None -> ~ In DCrashTorn h -> dsafe_old h d -> dsafeT h d false.
Proof.
  induction h as [|o h IH]; intros d Hh Hn HS; [exact I|].
  destruct HS as [Ho HS]. cbn [dsafeT]. split.
  - destruct o; cbn [safe_op]; try exact Ho; try exact I.
    + intros HT. discriminate.
    + split; [reflexivity|]. unfold gh. rewrite Hh. reflexivity.
    + exfalso. apply Hn. left. reflexivity.
  - rewrite (tnext_nohole d o Hh). apply IH; [|intros Hin; apply Hn; right; exact Hin|exact HS].
    apply hole_step; [exact Hh|]. intros E. apply Hn. left. exact E.
Qed.

Lemma dsafe_without_torn h : ~ In DCrashTorn h -> dsafe_old h dinit -> dsafe h dinit.
Proof. intros Hn HS. apply dsafe_without_torn_gen; [reflexivity|exact Hn|exact HS]. Qed.
