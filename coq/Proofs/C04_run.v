(** C04 — part 8: the non-dedup path, [mergeFloat], [Next] and the whole per-key run:
    the blocks handed to the writer for one key are exactly the newest-wins, tombstone-free
    content of the key's input blocks, strictly increasing in time across blocks. *)
From Coq Require Import ZifyBool.
From Verif Require Import Base.Prelude Model.C37 Proofs.C37 Model.C04 Proofs.C04 Proofs.C04_size
     Proofs.C04_blocks Proofs.C04_pend Proofs.C04_window Proofs.C04_dedup Proofs.C04_term.
Local Open Scope Z_scope.

Section Run.
  Context {V : Type}.
  Notation arr := (arr V).
  Notation blk := (blk V).
  Notation st := (st V).
  Variable sp : Z -> option V.
  Variable size : nat.
  Hypothesis size_pos : (0 < size)%nat.
  Variable fast : bool.

  Notation dinv := (dinv sp).
  Definition wfb (b : blk) : Prop := wf_blk b = true.

  (** *** blocks of the non-dedup path: no tombstones, fresh or completely read, strictly
      ordered in time *)
  Definition ndb (b : blk) : Prop := b_tombs b = [] /\ (is_read b = true \/ isfresh b).
  Fixpoint chainP (prev : blk) (l : list blk) : Prop :=
    match l with [] => True | y :: r => b_max prev < b_min y /\ chainP y r end.
  Definition chain (l : list blk) : Prop := match l with [] => True | x :: r => chainP x r end.
  Definition nd_ok (bs : list blk) : Prop := Forall ndb bs /\ chain bs.

  Lemma ndb_of (b : blk) :
    negb (Nat.eqb (length (b_tombs b)) 0) = false -> partially_read b = false -> ndb b.
  Proof.
    intros Ht Hp. split.
    - destruct (b_tombs b); [reflexivity|discriminate].
    - unfold partially_read in Hp. destruct ((b_rmin b =? MaxInt64) && (b_rmax b =? MinInt64)) eqn:E.
      + right. split; lia.
      + left. unfold is_read. lia.
  Qed.

  Lemma need_dedup_from_false : forall (r : list blk) prev,
    adjP prev r -> need_dedup_from prev r = false -> Forall ndb r /\ chainP prev r.
  Proof.
    induction r as [|b r IH]; intros prev Ha H; cbn in *; [auto|].
    destruct Ha as [Ha1 Ha2].
    apply orb_false_iff in H as [H H4]. apply orb_false_iff in H as [H H3]. apply orb_false_iff in H as [H1 H2].
    destruct (IH b Ha2 H4) as [IH1 IH2]. split; [constructor; [apply ndb_of; auto|exact IH1]|].
    split; [|exact IH2]. unfold overlaps in H2. lia.
  Qed.

  Lemma need_dedup_false (bs : list blk) : adj bs -> need_dedup bs = false -> nd_ok bs.
  Proof.
    destruct bs as [|b r]; intros Ha H; [split; [constructor|exact I]|]. cbn in *.
    apply orb_false_iff in H as [H H3]. apply orb_false_iff in H as [H1 H2].
    destruct (need_dedup_from_false r b Ha H3) as [F C]. split; [constructor; [apply ndb_of; auto|exact F]|exact C].
  Qed.

  Lemma chainP_all : forall (l : list blk) x, Forall bwf l -> chainP x l ->
    forall y, In y l -> b_max x < b_min y.
  Proof.
    induction l as [|z r IH]; intros x W C y []; destruct C as [C1 C2]; inversion W as [|? ? Wz Wr]; subst.
    - exact C1.
    - pose proof (IH z Wr C2 y H). pose proof (bwf_minmax z Wz). lia.
  Qed.

  Lemma nd_ok_tail b r : nd_ok (b :: r) -> nd_ok r.
  Proof.
    intros [F C]. inversion F; subst. split; [assumption|]. destruct r as [|y r']; [exact I|]. apply C.
  Qed.

  (** *** consuming the head block *)
  Lemma isfresh_bok L (b : blk) : bwf b -> isfresh b -> (forall p, In p (b_vals b) -> L < tm p) -> bok L b.
  Proof.
    intros W F H. split; [exact W|left; exact F| |].
    - rewrite fresh_unr by auto. exact H.
    - rewrite fresh_unr by auto. tauto.
  Qed.

  Lemma fresh_live (b : blk) : bwf b -> isfresh b -> b_tombs b = [] -> live b = b_vals b.
  Proof.
    intros W F T. unfold live. rewrite fresh_unr, T by auto. apply filter_all_true.
    apply Forall_forall. intros; reflexivity.
  Qed.

  Lemma dinv_skip L D b r : dinv L D (b :: r) -> is_read b = true -> dinv L D r.
  Proof.
    intros [B S Le Sp] R. inversion B as [|? ? Bb Br]; subst. split; auto.
    intro t. rewrite Sp, plast_cons. unfold live.
    rewrite (read_unr b (ok_wf L b Bb) (ok_st L b Bb) R). cbn. rewrite orelse_none_r. reflexivity.
  Qed.

  Lemma dinv_consume L D b r :
    dinv L D (b :: r) -> isfresh b -> b_tombs b = [] -> (forall y, In y r -> b_max b < b_min y) ->
    L <= b_max b /\ dinv (b_max b) (D ++ b_vals b) r.
  Proof.
    intros [B S Le Sp] F T Hafter. inversion B as [|? ? Bb Br]; subst.
    pose proof (ok_wf L b Bb) as W.
    assert (Hgt : forall p, In p (b_vals b) -> L < tm p).
    { intros p Hp. apply (ok_unr L b Bb). rewrite fresh_unr by auto. exact Hp. }
    assert (HL : L <= b_max b).
    { destruct (bwf_last b W) as [p [Hp Ht]]. specialize (Hgt p Hp). lia. }
    split; [exact HL|]. split.
    - apply Forall_forall. intros y Hy. rewrite Forall_forall in Br. specialize (Br y Hy).
      eapply bok_mono; [exact Br|exact HL|]. intros p Hp. apply unr_In in Hp as [Hp _].
      pose proof (bwf_bounds y (ok_wf L y Br) p Hp). specialize (Hafter y Hy). lia.
    - apply ssorted_app; [exact S|apply (wf_sorted b W)|]. intros p q Hp Hq.
      specialize (Le p Hp). specialize (Hgt q Hq). lia.
    - intros p Hp. apply in_app_or in Hp as [Hp|Hp].
      + specialize (Le p Hp). lia.
      + pose proof (bwf_bounds b W p Hp). lia.
    - intro t. rewrite Sp, plast_cons, lookup_app, fresh_live by auto.
      rewrite lookup_last_sorted by apply (wf_sorted b W).
      destruct (lookup t D); [reflexivity|]. cbn [orelse].
      destruct (plast t r) as [v|] eqn:Ep; [|rewrite orelse_none_r; reflexivity]. cbn [orelse].
      destruct (lookup t (b_vals b)) as [w|] eqn:El; [|reflexivity]. exfalso.
      apply lookup_Some_In in El. pose proof (bwf_bounds b W _ El) as H1.
      unfold plast in Ep. apply lookup_last_Some in Ep. unfold pendl in Ep.
      apply in_concat in Ep as [l [Hl1 Hl2]]. apply in_map_iff in Hl1 as [y [<- Hy]].
      rewrite Forall_forall in Br. pose proof (live_bounds y (ok_wf L y (Br y Hy)) _ Hl2) as H2.
      specialize (Hafter y Hy). unfold tm in *; cbn in *. lia.
  Qed.

  (** [eats bs c r]: walking down [bs], the read blocks are skipped and the unread ones are
      taken whole, in order, into [c]; [r] is what is left *)
  Inductive eats : list blk -> list blk -> list blk -> Prop :=
  | eats_nil bs : eats bs [] bs
  | eats_read b r c r' : is_read b = true -> eats r c r' -> eats (b :: r) c r'
  | eats_take b r c r' : is_read b = false -> eats r c r' -> eats (b :: r) (b :: c) r'.

  Lemma eats_trans a c1 b : eats a c1 b -> forall c2 c, eats b c2 c -> eats a (c1 ++ c2) c.
  Proof.
    induction 1 as [bs|x r c1 r' R _ IH|x r c1 r' R _ IH]; intros c2 c H2; cbn [app].
    - exact H2.
    - apply eats_read; auto.
    - apply eats_take; auto.
  Qed.

  Lemma bwf_wfb (b : blk) : bwf b -> wfb b.
  Proof.
    intros [Hne Hs Hmin Hmax _]. unfold wfb, wf_blk, wf_block.
    destruct (b_vals b) as [|p r] eqn:E; [congruence|]. cbn [nonempty].
    rewrite (proj2 (ssorted_b_spec (p :: r)) Hs), Hmin, Hmax, !Z.eqb_refl. reflexivity.
  Qed.

  Lemma eats_spec bs c r : eats bs c r -> forall L D, nd_ok bs -> dinv L D bs ->
    exists L', L <= L' /\ dinv L' (D ++ concat (map b_vals c)) r /\ nd_ok r /\ Forall wfb c.
  Proof.
    induction 1 as [bs|b r c r' R _ IH|b r c r' R _ IH]; intros L D Hnd Hd.
    - exists L. cbn. rewrite app_nil_r. split; [lia|]. split; [exact Hd|]. split; [exact Hnd|constructor].
    - apply (IH L D (nd_ok_tail _ _ Hnd) (dinv_skip L D b r Hd R)).
    - destruct Hnd as [F C]. inversion F as [|? ? [T Hb] Fr]; subst.
      assert (Fb : isfresh b) by (destruct Hb as [Hb|Hb]; [congruence|exact Hb]).
      pose proof (d_blocks sp L D _ Hd) as B. inversion B as [|? ? Bb Br]; subst.
      assert (Wr : Forall bwf r) by (eapply Forall_impl; [|exact Br]; intros y Hy; apply (ok_wf L y Hy)).
      destruct (dinv_consume L D b r Hd Fb T (chainP_all r b Wr C)) as [HL Hd'].
      destruct (IH (b_max b) (D ++ b_vals b) (nd_ok_tail _ _ (conj F C)) Hd') as [L' [HL' [Hd2 [Hnd2 Hw]]]].
      exists L'. split; [lia|]. cbn [map concat]. rewrite app_assoc.
      split; [exact Hd2|]. split; [exact Hnd2|].
      constructor; [apply bwf_wfb, (ok_wf L b Bb)|exact Hw].
  Qed.

  Definition plen (l : list blk) : nat := length (concat (map b_vals l)).

  Lemma plen_app (a b : list blk) : plen (a ++ b) = (plen a + plen b)%nat.
  Proof. unfold plen. rewrite map_app, concat_app, app_length. reflexivity. Qed.

  Lemma eats_len L bs c r : eats bs c r -> nd_ok bs -> Forall (bok L) bs ->
    (usum r + plen c <= usum bs)%nat.
  Proof.
    induction 1 as [bs|b r c r' R _ IH|b r c r' R _ IH]; intros Hnd B.
    - unfold plen. cbn. lia.
    - inversion B; subst. specialize (IH (nd_ok_tail _ _ Hnd) H2). cbn [usum]. lia.
    - inversion B as [|? ? Bb Br]; subst. specialize (IH (nd_ok_tail _ _ Hnd) Br).
      destruct Hnd as [F _]. inversion F as [|? ? [_ Hb] _]; subst.
      assert (Fb : isfresh b) by (destruct Hb as [Hb|Hb]; [congruence|exact Hb]).
      cbn [usum]. rewrite (fresh_unr b (ok_wf L b Bb) Fb).
      unfold plen in *. cbn [map concat]. rewrite app_length. lia.
  Qed.

  Lemma pass_full_eats : forall (bs merged m r : list blk),
    pass_full size bs merged = (m, r) -> exists c, m = merged ++ c /\ eats bs c r.
  Proof.
    induction bs as [|b r0 IH]; intros merged m r; cbn [pass_full].
    - intros [= <- <-]. exists []. rewrite app_nil_r. split; [reflexivity|constructor].
    - destruct (is_read b) eqn:R.
      + intro H. destruct (IH _ _ _ H) as [c [-> He]]. exists c. split; [reflexivity|apply eats_read; auto].
      + destruct (length (b_vals b) <? size)%nat.
        * intros [= <- <-]. exists []. rewrite app_nil_r. split; [reflexivity|constructor].
        * intro H. destruct (IH _ _ _ H) as [c [-> He]]. exists (b :: c).
          rewrite <- app_assoc. split; [reflexivity|apply eats_take; auto].
  Qed.

  Lemma unread_eats : forall r : list blk, eats r (unread r) [].
  Proof.
    induction r as [|b r IH]; [constructor|]. unfold unread. cbn [filter].
    destruct (is_read b) eqn:R; cbn [negb]; [apply eats_read|apply eats_take]; auto.
  Qed.

  Lemma arr_merge_append (a b : arr) : ssorted a -> ssorted b ->
    (forall p q, In p a -> In q b -> tm p < tm q) -> arr_merge a b = a ++ b.
  Proof. intros Ha Hb H. rewrite arr_merge_union by auto. apply union_rw_append; auto. Qed.

  Lemma decode_rest_spec pre : forall (bs : list blk) mv L r mv',
    nd_ok bs -> dinv L (pre ++ mv) bs -> decode_rest size bs mv = (r, mv') ->
    exists L', L <= L' /\ dinv L' (pre ++ mv') r /\ ((size <= length mv')%nat \/ r = []).
  Proof.
    induction bs as [|b r0 IH]; intros mv L r mv' Hnd Hd; cbn [decode_rest].
    - intros [= <- <-]. exists L. split; [lia|]. split; [exact Hd|right; reflexivity].
    - destruct (length mv <? size)%nat eqn:El.
      + destruct (is_read b) eqn:R.
        * apply (IH mv L r mv' (nd_ok_tail _ _ Hnd) (dinv_skip L _ b r0 Hd R)).
        * destruct Hnd as [F C]. inversion F as [|? ? [T Hb] Fr]; subst.
          assert (Fb : isfresh b) by (destruct Hb as [Hb|Hb]; [congruence|exact Hb]).
          pose proof (d_blocks sp L _ _ Hd) as B. inversion B as [|? ? Bb Br]; subst.
          assert (Wr : Forall bwf r0) by (eapply Forall_impl; [|exact Br]; intros y Hy; apply (ok_wf L y Hy)).
          destruct (dinv_consume L _ b r0 Hd Fb T (chainP_all r0 b Wr C)) as [HL Hd'].
          rewrite T. cbn [apply_tombs fold_left].
          assert (Em : arr_merge mv (b_vals b) = mv ++ b_vals b).
          { pose proof (d_sorted sp L _ _ Hd) as S. apply ssorted_app_inv in S as [_ [Smv _]].
            apply arr_merge_append; [exact Smv|apply (wf_sorted b (ok_wf L b Bb))|].
            intros p q Hp Hq. pose proof (d_le sp L _ _ Hd p (in_or_app _ _ _ (or_intror Hp))).
            assert (L < tm q); [|lia]. apply (ok_unr L b Bb). rewrite fresh_unr by (auto; apply (ok_wf L b Bb)). exact Hq. }
          rewrite Em. rewrite <- app_assoc in Hd'. intro H.
          destruct (IH _ _ _ _ (nd_ok_tail _ _ (conj F C)) Hd' H) as [L' [HL' [Hd2 He]]].
          exists L'. split; [lia|]. split; assumption.
      + intros [= <- <-]. exists L. split; [lia|]. split; [exact Hd|left; lia].
  Qed.

  Lemma decode_rest_len pre : forall (bs : list blk) mv L r mv',
    nd_ok bs -> dinv L (pre ++ mv) bs -> decode_rest size bs mv = (r, mv') ->
    (length mv' + usum r <= length mv + usum bs)%nat.
  Proof.
    induction bs as [|b r0 IH]; intros mv L r mv' Hnd Hd; cbn [decode_rest].
    - intro H. inversion H; subst. lia.
    - destruct (length mv <? size)%nat eqn:El.
      + destruct (is_read b) eqn:R.
        * intro H. specialize (IH mv L r mv' (nd_ok_tail _ _ Hnd) (dinv_skip L _ b r0 Hd R) H). cbn [usum]. lia.
        * destruct Hnd as [F C]. inversion F as [|? ? [T Hb] Fr]; subst.
          assert (Fb : isfresh b) by (destruct Hb as [Hb|Hb]; [congruence|exact Hb]).
          pose proof (d_blocks sp L _ _ Hd) as B. inversion B as [|? ? Bb Br]; subst.
          assert (Wr : Forall bwf r0) by (eapply Forall_impl; [|exact Br]; intros y Hy; apply (ok_wf L y Hy)).
          destruct (dinv_consume L _ b r0 Hd Fb T (chainP_all r0 b Wr C)) as [HL Hd'].
          rewrite T. cbn [apply_tombs fold_left].
          assert (Em : arr_merge mv (b_vals b) = mv ++ b_vals b).
          { pose proof (d_sorted sp L _ _ Hd) as S. apply ssorted_app_inv in S as [_ [Smv _]].
            apply arr_merge_append; [exact Smv|apply (wf_sorted b (ok_wf L b Bb))|].
            intros p q Hp Hq. pose proof (d_le sp L _ _ Hd p (in_or_app _ _ _ (or_intror Hp))).
            assert (L < tm q); [|lia]. apply (ok_unr L b Bb). rewrite fresh_unr by (auto; apply (ok_wf L b Bb)). exact Hq. }
          rewrite Em. rewrite <- app_assoc in Hd'. intro H.
          specialize (IH _ _ _ _ (nd_ok_tail _ _ (conj F C)) Hd' H).
          cbn [usum]. rewrite (fresh_unr b (ok_wf L b Bb) Fb). rewrite app_length in IH. lia.
      + intro H. inversion H; subst. lia.
  Qed.

  (** *** [chunk] *)
  Lemma chunk_spec (dst : list blk) (mv : arr) : ssorted mv ->
    exists c mv', chunk size dst mv = (dst ++ c, mv') /\ concat (map b_vals c) ++ mv' = mv /\
                  Forall wfb c /\ (mv' <> [] -> c <> []) /\ (c = [] -> mv = []).
  Proof.
    intro S. unfold chunk. destruct (size <? length mv)%nat eqn:E1.
    - exists [mkout (firstn size mv)], (skipn size mv). cbn. rewrite app_nil_r, firstn_skipn.
      repeat split; auto; try discriminate. constructor; [|constructor].
      apply wf_mkout; [|apply ssorted_firstn; exact S].
      destruct mv; [cbn in E1; lia|]. destruct size; [lia|discriminate].
    - destruct (0 <? length mv)%nat eqn:E2.
      + exists [mkout mv], []. cbn. rewrite !app_nil_r. repeat split; auto; try discriminate.
        constructor; [|constructor]. apply wf_mkout; [|exact S]. destruct mv; [discriminate|congruence].
      + exists [], []. rewrite app_nil_r. destruct mv; [|discriminate]. repeat split; auto.
  Qed.

  (** *** the iterator state *)
  Definition pre_of (E : list blk) (s : st) : arr := concat (map b_vals (E ++ s_merged s)).
  Record ginv (L : Z) (E : list blk) (s : st) : Prop := {
    g_d : dinv L (pre_of E s ++ s_mv s) (s_blocks s);
    g_wf : Forall wfb (E ++ s_merged s) }.

  Definition pot (s : st) : nat := (usum (s_blocks s) + length (s_mv s) + plen (s_merged s))%nat.

  Lemma nonempty_false {A} (l : list A) : nonempty l = false -> l = [].
  Proof. destruct l; [reflexivity|discriminate]. Qed.
  Lemma nonempty_true {A} (l : list A) : nonempty l = true -> l <> [].
  Proof. destruct l; [discriminate|congruence]. Qed.

  Lemma dinv_sort L D bs : dinv L D bs -> dinv L D (isort bs) /\ adj (isort bs).
  Proof.
    intros [B S Le Sp].
    assert (W : Forall bwf bs) by (eapply Forall_impl; [|exact B]; intros y Hy; apply (ok_wf L y Hy)).
    split; [split; auto|apply isort_adj; exact W].
    - apply isort_Forall. exact B.
    - intro t. rewrite plast_isort by exact W. apply Sp.
  Qed.

  Definition small (s : st) : Prop := (length (s_blocks s) <= 20)%nat.

  Lemma merge_spec fuel L E s s' :
    ginv L E s -> small s -> s_merged s = [] -> merge fuel size fast s = Some s' ->
    exists L', ginv L' E s' /\ (s_mv s' <> [] -> s_merged s' <> []) /\
               (s_merged s' = [] -> s_mv s' = [] -> s_blocks s' = []) /\ (pot s' <= pot s)%nat.
  Proof.
    intros [Hd Hw] Hsm Hm. unfold merge. rewrite (sort_blocks_small _ Hsm).
    destruct (negb (nonempty (s_blocks s)) && negb (nonempty (s_merged s)) && negb (nonempty (s_mv s))) eqn:E0.
    - intros [= <-]. exists L. split; [split; assumption|]. split; [|split; [|lia]].
      + intro H. exfalso. apply H. apply nonempty_false. destruct (nonempty (s_mv s)); [|reflexivity].
        rewrite !andb_false_r in E0. discriminate.
      + intros _ _. apply nonempty_false. destruct (nonempty (s_blocks s)); [discriminate|reflexivity].
    - clear E0. unfold pre_of in Hd. rewrite Hm in Hd, Hw. rewrite app_nil_r in Hd, Hw.
      destruct (dinv_sort L _ _ Hd) as [Hds Ha].
      set (bs := isort (s_blocks s)) in *. set (pre := concat (map b_vals E)) in *.
      unfold combine. cbn [s_blocks s_merged s_mv]. rewrite Hm.
      destruct (nonempty (s_mv s) || need_dedup bs) eqn:Ed.
      + (* dedup path *)
        destruct (dedup_loop fuel size bs (s_mv s)) as [[bs' mv1]|] eqn:El; [|discriminate].
        destruct (dedup_loop_spec sp size size_pos pre fuel L bs (s_mv s) bs' mv1 Hds Ha El) as [L' [HL' [Hd' Hend]]].
        pose proof (d_sorted sp L' _ _ Hd') as S. apply ssorted_app_inv in S as [_ [Smv _]].
        destruct (chunk_spec [] mv1 Smv) as [c [mv2 [Ec [Hc [Hwc [Hne Hnil]]]]]].
        pose proof (dedup_loop_len sp size size_pos pre fuel L bs (s_mv s) bs' mv1 Hds Ha El) as Hlen.
        rewrite Ec. cbn [app]. intros [= <-]. exists L'. split; [split|split; [|split]]; cbn [s_blocks s_merged s_mv].
        * unfold pre_of. cbn [s_merged]. rewrite map_app, concat_app, <- app_assoc, Hc. exact Hd'.
        * apply Forall_app. split; assumption.
        * exact Hne.
        * intros -> _. specialize (Hnil eq_refl). rewrite Hnil in Hend. destruct Hend as [He|He]; [cbn in He; lia|exact He].
        * unfold pot. cbn [s_blocks s_merged s_mv]. rewrite Hm. unfold plen at 2. cbn [map concat length].
          assert (Hl : (plen c + length mv2 = length mv1)%nat) by (unfold plen; rewrite <- Hc, app_length; reflexivity).
          pose proof (usum_isort size size_pos (s_blocks s)) as Hus. fold bs in Hus. lia.
      + (* non-dedup path *)
        apply orb_false_iff in Ed as [Emv End]. apply nonempty_false in Emv.
        pose proof (need_dedup_false bs Ha End) as Hnd.
        rewrite Emv in *. rewrite app_nil_r in Hds.
        destruct (pass_full size bs []) as [m1 r1] eqn:E1.
        destruct (pass_full_eats _ _ _ _ E1) as [c1 [Em1 He1]]. cbn [app] in Em1. subst m1.
        set (p2 := if fast then (c1 ++ unread r1, []) else (c1, r1)).
        assert (H2 : exists c2, fst p2 = c1 ++ c2 /\ eats r1 c2 (snd p2)).
        { subst p2. destruct fast; cbn [fst snd].
          - exists (unread r1). split; [reflexivity|apply unread_eats].
          - exists []. rewrite app_nil_r. split; [reflexivity|constructor]. }
        destruct p2 as [m2 r2]. cbn [fst snd] in H2. destruct H2 as [c2 [-> He2]].
        set (p3 := match r2 with [b] => (if is_read b then c1 ++ c2 else (c1 ++ c2) ++ [b], []) | _ => (c1 ++ c2, r2) end).
        assert (H3 : exists c3, fst p3 = (c1 ++ c2) ++ c3 /\ eats r2 c3 (snd p3)).
        { subst p3. destruct r2 as [|b [|b2 r2']]; cbn [fst snd].
          - exists []. rewrite app_nil_r. split; [reflexivity|constructor].
          - destruct (is_read b) eqn:R.
            + exists []. rewrite app_nil_r. split; [reflexivity|]. apply eats_read; [exact R|constructor].
            + exists [b]. split; [reflexivity|]. apply eats_take; [exact R|constructor].
          - exists []. rewrite app_nil_r. split; [reflexivity|constructor]. }
        destruct p3 as [m3 r3]. cbn [fst snd] in H3. destruct H3 as [c3 [-> He3]].
        pose proof (eats_trans _ _ _ (eats_trans _ _ _ He1 _ _ He2) _ _ He3) as He.
        destruct (eats_spec _ _ _ He L pre Hnd Hds) as [L3 [HL3 [Hd3 [Hnd3 Hw3]]]].
        destruct (decode_rest size r3 []) as [r4 mv1] eqn:E4.
        rewrite <- (app_nil_r (pre ++ _)) in Hd3.
        destruct (decode_rest_spec _ r3 [] L3 r4 mv1 Hnd3 Hd3 E4) as [L4 [HL4 [Hd4 Hend]]].
        pose proof (d_sorted sp L4 _ _ Hd4) as S. apply ssorted_app_inv in S as [_ [Smv _]].
        destruct (chunk_spec ((c1 ++ c2) ++ c3) mv1 Smv) as [c [mv2 [Ec [Hc [Hwc [Hne Hnil]]]]]].
        pose proof (eats_len L _ _ _ He Hnd (d_blocks sp L _ _ Hds)) as Hlen1.
        pose proof (decode_rest_len _ r3 [] L3 r4 mv1 Hnd3 Hd3 E4) as Hlen2.
        rewrite Ec. intros [= <-]. exists L4. split; [split|split; [|split]]; cbn [s_blocks s_merged s_mv].
        * unfold pre_of. cbn [s_merged]. rewrite !map_app, !concat_app, <- !app_assoc.
          rewrite <- !app_assoc in Hd4. rewrite !map_app, !concat_app, <- !app_assoc in Hd4.
          rewrite Hc. exact Hd4.
        * apply Forall_app. split; [exact Hw|]. apply Forall_app. split; [exact Hw3|exact Hwc].
        * intros H Hn. apply app_eq_nil in Hn as [_ Hn]. exact (Hne H Hn).
        * intros Hn _. apply app_eq_nil in Hn as [_ Hn]. specialize (Hnil Hn). rewrite Hnil in Hend.
          destruct Hend as [He'|He']; [cbn in He'; lia|exact He'].
        * unfold pot. cbn [s_blocks s_merged s_mv]. rewrite Hm, Emv. unfold plen at 2. cbn [map concat length].
          rewrite plen_app.
          assert (Hl : (plen c + length mv2 = length mv1)%nat) by (unfold plen; rewrite <- Hc, app_length; reflexivity).
          pose proof (usum_isort size size_pos (s_blocks s)) as Hus. fold bs in Hus. cbn [length] in Hlen2. lia.
  Qed.

  (** final condition: everything has been handed on *)
  Definition finished (E : list blk) : Prop :=
    ssorted (concat (map b_vals E)) /\ (forall t, lookup t (concat (map b_vals E)) = sp t) /\ Forall wfb E.

  Lemma ginv_finished L E s : ginv L E s -> s_merged s = [] -> s_mv s = [] -> s_blocks s = [] -> finished E.
  Proof.
    intros [Hd Hw] Hm Hv Hb. unfold pre_of in Hd. rewrite Hm, Hv, Hb in Hd. rewrite Hm in Hw.
    rewrite !app_nil_r in *. destruct Hd as [_ S _ Sp]. repeat split; auto.
    intro t. rewrite Sp. cbn. rewrite orelse_none_r. reflexivity.
  Qed.

  Lemma next_spec fuel L E s r :
    ginv L E s -> small s -> next fuel size fast s = Some r ->
    match r with
    | Some s' => exists L', ginv L' (E ++ firstn 1 (s_merged s)) s' /\ s_merged s' <> []
    | None => finished (E ++ firstn 1 (s_merged s))
    end.
  Proof.
    intros Hg Hsm. unfold next.
    set (s1 := match s_merged s with [] => s | _ :: m => mkst (s_blocks s) m (s_mv s) end).
    set (E1 := E ++ firstn 1 (s_merged s)).
    assert (Hsm1 : small s1) by (subst s1; unfold small in *; destruct (s_merged s); exact Hsm).
    assert (H1 : ginv L E1 s1).
    { subst s1 E1. destruct Hg as [Hd Hw]. unfold pre_of in Hd. destruct (s_merged s) as [|h m] eqn:Em.
      - cbn [firstn]. rewrite app_nil_r. split; [unfold pre_of; rewrite Em; exact Hd|rewrite Em; exact Hw].
      - cbn [firstn]. split; cbn [s_blocks s_merged s_mv]; unfold pre_of; cbn [s_merged];
          rewrite <- app_assoc; cbn [app]; assumption. }
    clearbody s1 E1.
    destruct (nonempty (s_merged s1)) eqn:En.
    - intros [= <-]. exists L. split; [exact H1|apply nonempty_true; exact En].
    - apply nonempty_false in En.
      assert (Hstep2 : forall L2 s2, ginv L2 E1 s2 -> small s2 -> s_merged s2 = [] -> s_mv s2 = [] ->
        (if nonempty (s_blocks s2)
         then match merge fuel size fast s2 with
              | None => None
              | Some s3 => if nonempty (s_merged s3) || nonempty (s_mv s3) then Some (Some s3) else Some None
              end
         else Some None) = Some r ->
        match r with
        | Some s' => exists L', ginv L' E1 s' /\ s_merged s' <> []
        | None => finished E1
        end).
      { intros L2 s2 H2 Hsm2 Hm2 Hv2. destruct (nonempty (s_blocks s2)) eqn:Eb.
        - destruct (merge fuel size fast s2) as [s3|] eqn:Emg; [|discriminate].
          destruct (merge_spec fuel L2 E1 s2 s3 H2 Hsm2 Hm2 Emg) as [L3 [H3 [Hne [Hfin _]]]].
          destruct (nonempty (s_merged s3) || nonempty (s_mv s3)) eqn:E3; intros [= <-].
          + exists L3. split; [exact H3|]. destruct (nonempty (s_merged s3)) eqn:E4; [apply nonempty_true; exact E4|].
            cbn in E3. apply Hne, nonempty_true, E3.
          + apply orb_false_iff in E3 as [E4 E5]. apply nonempty_false in E4, E5.
            apply (ginv_finished L3 E1 s3 H3 E4 E5 (Hfin E4 E5)).
        - intros [= <-]. apply nonempty_false in Eb. apply (ginv_finished L2 E1 s2 H2 Hm2 Hv2 Eb). }
      destruct (nonempty (s_mv s1)) eqn:Ev.
      + destruct (merge fuel size fast s1) as [s3|] eqn:Emg; [|discriminate].
        destruct (merge_spec fuel L E1 s1 s3 H1 Hsm1 En Emg) as [L3 [H3 [Hne [Hfin _]]]].
        assert (Hsm3 : small s3) by (pose proof (merge_length size _ _ _ _ Hsm1 Emg); unfold small in *; lia).
        destruct (nonempty (s_merged s3) || nonempty (s_mv s3)) eqn:E3.
        * intros [= <-]. exists L3. split; [exact H3|].
          destruct (nonempty (s_merged s3)) eqn:E4; [apply nonempty_true; exact E4|].
          cbn in E3. apply Hne, nonempty_true, E3.
        * apply orb_false_iff in E3 as [E4 E5]. apply nonempty_false in E4, E5.
          apply (Hstep2 L3 s3 H3 Hsm3 E4 E5).
      + apply nonempty_false in Ev. apply (Hstep2 L s1 H1 Hsm1 En Ev).
  Qed.

  Lemma run_key_spec : forall fuel L E s out,
    ginv L E s -> small s -> run_key fuel size fast s = Some out ->
    finished (E ++ firstn 1 (s_merged s) ++ out).
  Proof.
    induction fuel as [|f IH]; intros L E s out Hg Hsm; cbn [run_key]; [discriminate|].
    destruct (next (S f) size fast s) as [r|] eqn:En; [|discriminate].
    pose proof (next_spec (S f) L E s r Hg Hsm En) as Hn. destruct r as [s'|].
    - destruct Hn as [L' [Hg' Hne]].
      assert (Hsm' : small s') by (pose proof (next_length size _ _ _ _ Hsm En); unfold small in *; lia).
      destruct (run_key f size fast s') as [o|] eqn:Er; [|discriminate]. intros [= <-].
      pose proof (IH L' _ s' o Hg' Hsm' Er) as Hf.
      unfold read_head. destruct (s_merged s') as [|h m]; [congruence|].
      cbn [firstn app] in Hf. rewrite <- app_assoc in Hf. exact Hf.
    - intros [= <-]. rewrite app_nil_r. exact Hn.
  Qed.
End Run.

(** ** the per-key theorem *)
Section Key.
  Context {V : Type}.
  Notation arr := (arr V).
  Notation blk := (blk V).

  (** live points of an untouched block *)
  Definition live0 (b : blk) : arr := filter (ntomb (b_tombs b)) (b_vals b).

  Lemma ordered_from_sorted : forall (bs : list blk) prev,
    Forall (fun b => wf_blk b = true) bs -> ssorted (concat (map b_vals bs)) ->
    (forall p, In p (concat (map b_vals bs)) -> prev < tm p) -> ordered_from prev bs = true.
  Proof.
    induction bs as [|b r IH]; intros prev W S H; [reflexivity|]. cbn [ordered_from map concat] in *.
    inversion W as [|? ? Wb Wr]; subst. apply ssorted_app_inv in S as [Sb [Sr Hlt]].
    unfold wf_blk, wf_block in Wb. apply andb_true_iff in Wb as [Wb Wmax]. apply andb_true_iff in Wb as [Wb Wmin].
    apply andb_true_iff in Wb as [Wne Ws].
    assert (Hne : b_vals b <> []) by (destruct (b_vals b); [discriminate|congruence]).
    apply andb_true_iff. split.
    - destruct (min_time_in _ Hne) as [p [Hp Ht]]. specialize (H p (in_or_app _ _ _ (or_introl Hp))). lia.
    - apply IH; auto. intros q Hq. destruct (max_time_in _ Hne) as [p [Hp Ht]].
      specialize (Hlt p q Hp Hq). lia.
  Qed.

  Lemma ordered_sorted (bs : list blk) :
    Forall (fun b => wf_blk b = true) bs -> ssorted (concat (map b_vals bs)) -> ordered bs = true.
  Proof.
    destruct bs as [|b r]; intros W S; [reflexivity|]. cbn [ordered map concat] in *.
    inversion W as [|? ? Wb Wr]; subst. apply ssorted_app_inv in S as [Sb [Sr Hlt]].
    unfold wf_blk, wf_block in Wb. apply andb_true_iff in Wb as [Wb Wmax]. apply andb_true_iff in Wb as [Wb Wmin].
    apply andb_true_iff in Wb as [Wne Ws].
    assert (Hne : b_vals b <> []) by (destruct (b_vals b); [discriminate|congruence]).
    apply ordered_from_sorted; auto. intros q Hq. destruct (max_time_in _ Hne) as [p [Hp Ht]].
    specialize (Hlt p q Hp Hq). lia.
  Qed.

  Theorem run_key_content (size : nat) (fast : bool) (bs : list blk) fuel out :
    (0 < size)%nat -> (length bs <= 20)%nat -> Forall bwf bs -> Forall isfresh bs ->
    run_key fuel size fast (mkst bs [] []) = Some out ->
    concat (map b_vals out) = last_wins_sorted (concat (map live0 bs))
    /\ Forall (fun b => wf_blk b = true) out /\ ordered out = true.
  Proof.
    intros Hs Hsm W F Hrun.
    set (sp := fun t => plast t bs).
    assert (Hg : ginv sp (MinInt64 - 1) [] (mkst bs [] [])).
    { split; cbn; [|constructor]. split; cbn; auto.
      - apply Forall_forall. intros b Hb. rewrite Forall_forall in W, F.
        apply isfresh_bok; auto. intros p Hp. pose proof (wf_range b (W b Hb) p Hp). unfold MinInt64, MaxInt64 in *. lia.
      - intros p []. }
    pose proof (run_key_spec sp size Hs fast fuel _ [] _ out Hg Hsm Hrun) as [S [Sp Wf]].
    cbn [s_merged firstn app] in *.
    assert (Epend : pendl bs = concat (map live0 bs)).
    { unfold pendl. f_equal. apply map_ext_in. intros b Hb. rewrite Forall_forall in W, F.
      unfold live, live0. rewrite fresh_unr by auto. reflexivity. }
    split; [|split; [exact Wf|apply ordered_sorted; assumption]].
    apply ssorted_ext; [exact S|rewrite <- dedup_last_wins; apply dedup_sorted|].
    intro t. rewrite Sp. subst sp. cbn. unfold plast. rewrite Epend.
    rewrite <- dedup_last_wins, dedup_lookup. reflexivity.
  Qed.
End Key.
