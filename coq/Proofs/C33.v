(** C33 — proofs: aggregation, ordering of the listed checks, first failing message;
    requests interleaved with signalling. *)
From Verif Require Import Base.Prelude Model.C33.
From Coq Require Import Permutation Sorted ZifyBool ZifyN ZifyNat.
Local Open Scope N_scope.

(** every check answers "pass" or "fail" (true of ReadyGate, the startup and pulse checkers) *)
Definition std (l : list chk) : Prop := forall c, In c l -> k_status c = ST_PASS \/ k_status c = ST_FAIL.

(** * overall *)
Definition ostep (o : N) (c : chk) : N := if k_status c =? ST_PASS then o else ST_FAIL.

Lemma fold_all_pass l : forall o, all_pass l = true -> fold_left ostep l o = o.
Proof.
  induction l as [|c t IH]; intros o H; cbn in *; [reflexivity|].
  apply andb_true_iff in H as [H1 H2]. unfold ostep at 2. rewrite H1. apply IH; exact H2.
Qed.

Lemma fold_fail l : fold_left ostep l ST_FAIL = ST_FAIL.
Proof. induction l as [|c t IH]; cbn; [reflexivity|]. unfold ostep at 2. destruct (_ =? _); exact IH. Qed.

Lemma fold_not_all_pass l : forall o, all_pass l = false -> fold_left ostep l o = ST_FAIL.
Proof.
  induction l as [|c t IH]; intros o H; cbn in *; [discriminate|].
  unfold ostep at 2. destruct (k_status c =? ST_PASS) eqn:E; cbn in H; [apply IH; exact H | apply fold_fail].
Qed.

Lemma overall_pass_iff l : overall l = ST_PASS <-> all_pass l = true.
Proof.
  unfold overall. change (fun o c => if k_status c =? ST_PASS then o else ST_FAIL) with ostep.
  split; intro H.
  - destruct (all_pass l) eqn:E; [reflexivity|]. rewrite (fold_not_all_pass l _ E) in H. discriminate.
  - apply fold_all_pass; exact H.
Qed.

(** the aggregate fails iff some check does not pass — for ALL statuses *)
Lemma overall_fail_iff_all l : overall l = ST_FAIL <-> all_pass l = false.
Proof.
  split; intro H.
  - destruct (all_pass l) eqn:E; [|reflexivity]. apply overall_pass_iff in E. rewrite E in H. discriminate.
  - unfold overall. change (fun o c => if k_status c =? ST_PASS then o else ST_FAIL) with ostep.
    apply fold_not_all_pass; exact H.
Qed.
Lemma overall_fail_iff l : std l -> (overall l = ST_FAIL <-> all_pass l = false).
Proof. intros _. apply overall_fail_iff_all. Qed.

(** * the order of the listed checks *)
Definition kle (a b : chk) : bool := negb (less b a).

Ltac nspec :=
  repeat match goal with
  | |- context [(?a =? ?b)] => destruct (N.eqb_spec a b)
  | |- context [(?a <? ?b)] => destruct (N.ltb_spec a b)
  | H : context [(?a =? ?b)] |- _ => destruct (N.eqb_spec a b)
  | H : context [(?a <? ?b)] |- _ => destruct (N.ltb_spec a b)
  end.

Lemma less_kle a b : less a b = true -> kle a b = true.
Proof. unfold kle, less. intros H. nspec; cbn in *; try discriminate; try reflexivity; lia. Qed.
Lemma kle_total a b : kle a b = false -> kle b a = true.
Proof. unfold kle, less. intros H. nspec; cbn in *; try discriminate; try reflexivity; lia. Qed.
Lemma kle_trans a b c : kle a b = true -> kle b c = true -> kle a c = true.
Proof. unfold kle, less. intros H1 H2. nspec; cbn in *; try discriminate; try reflexivity; lia. Qed.

Definition R (a b : chk) : Prop := kle a b = true.

Lemma ins_perm x l : Permutation (ins x l) (x :: l).
Proof.
  induction l as [|y t IH]; cbn; [reflexivity|].
  destruct (less x y); [reflexivity|]. rewrite IH. apply perm_swap.
Qed.

Lemma ins_in x l c : In c (ins x l) <-> c = x \/ In c l.
Proof.
  split; intro H.
  - apply (Permutation_in _ (ins_perm x l)) in H. destruct H; auto.
  - apply (Permutation_in _ (Permutation_sym (ins_perm x l))). destruct H; [left | right]; auto.
Qed.

Lemma ins_sorted x l : StronglySorted R l -> StronglySorted R (ins x l).
Proof.
  induction l as [|y t IH]; intro Hs; cbn.
  - constructor; constructor.
  - inversion Hs as [|? ? Hst Hall]; subst. destruct (less x y) eqn:E.
    + constructor; [exact Hs|]. constructor; [apply less_kle; exact E|].
      rewrite Forall_forall in *. intros z Hz. eapply kle_trans; [apply less_kle; exact E | apply Hall; exact Hz].
    + constructor; [apply IH; exact Hst|].
      rewrite Forall_forall in *. intros z Hz. apply ins_in in Hz as [-> | Hz]; [|apply Hall; exact Hz].
      unfold R, kle. rewrite E. reflexivity.
Qed.

Lemma fold_ins_perm l : forall acc, Permutation (fold_left (fun a x => ins x a) l acc) (l ++ acc).
Proof.
  induction l as [|x t IH]; intro acc; cbn; [reflexivity|].
  rewrite IH. rewrite (ins_perm x acc). apply Permutation_sym, Permutation_middle.
Qed.
Lemma isort_perm l : Permutation (isort l) l.
Proof. unfold isort. rewrite fold_ins_perm, app_nil_r. reflexivity. Qed.

Lemma fold_ins_sorted l : forall acc, StronglySorted R acc -> StronglySorted R (fold_left (fun a x => ins x a) l acc).
Proof. induction l as [|x t IH]; intros acc H; cbn; [exact H|]. apply IH, ins_sorted, H. Qed.
Lemma isort_sorted l : StronglySorted R (isort l).
Proof. apply fold_ins_sorted. constructor. Qed.

Lemma filter_sorted (f : chk -> bool) l : StronglySorted R l -> StronglySorted R (filter f l).
Proof.
  induction 1 as [|a l Hs IH Hall]; cbn; [constructor|].
  destruct (f a); [|exact IH]. constructor; [exact IH|].
  rewrite Forall_forall in *. intros z Hz. apply filter_In in Hz as [Hz _]. apply Hall; exact Hz.
Qed.

Lemma failing_in l c : In c (failing (isort l)) <-> In c l /\ k_status c <> ST_PASS.
Proof.
  unfold failing. rewrite filter_In, negb_true_iff, N.eqb_neq.
  split; intros [H1 H2]; split; auto.
  - apply (Permutation_in _ (isort_perm l)); exact H1.
  - apply (Permutation_in _ (Permutation_sym (isort_perm l))); exact H1.
Qed.

Lemma failing_perm l : Permutation (failing (isort l)) (failing l).
Proof.
  unfold failing. induction (isort_perm l); cbn; auto.
  - destruct (negb (k_status x =? ST_PASS)); auto.
  - destruct (negb (k_status x =? ST_PASS)), (negb (k_status y =? ST_PASS)); auto. apply perm_swap.
  - etransitivity; eauto.
Qed.

Lemma failing_sorted l : StronglySorted R (failing (isort l)).
Proof. apply filter_sorted, isort_sorted. Qed.

(** among pass/fail checks the failing ones are listed in the order of their names *)
Lemma failing_sorted_by_name l : std l ->
  StronglySorted (fun a b => k_name a <= k_name b) (failing (isort l)).
Proof.
  intro Hstd. pose proof (failing_sorted l) as H.
  assert (Hf : Forall (fun c => k_status c = ST_FAIL) (failing (isort l))).
  { rewrite Forall_forall. intros c Hc. apply failing_in in Hc as [Hc1 Hc2]. destruct (Hstd c Hc1); congruence. }
  induction H as [|a t Hs IH Hall]; [constructor|].
  inversion Hf as [|? ? Ha Ht]; subst. constructor; [apply IH; exact Ht|].
  rewrite Forall_forall in *. intros z Hz. specialize (Hall z Hz). specialize (Ht z Hz).
  unfold R, kle, less in Hall. rewrite Ha, Ht in Hall. cbn in Hall.
  destruct (N.ltb_spec (k_name z) (k_name a)); [discriminate | exact H].
Qed.

(** * /ready answered atomically *)
Lemma ready_code s :
  r_code (atomic_response true s) = if overall (s_ready s) =? ST_FAIL then 503 else 200.
Proof. unfold atomic_response, respond, ready_response, evaluate, checks_of. destruct (_ =? _); reflexivity. Qed.

Lemma ready_200_iff_all s :
  r_code (atomic_response true s) = 200 <-> all_pass (s_ready s) = true.
Proof.
  rewrite ready_code. destruct (overall (s_ready s) =? ST_FAIL) eqn:E.
  - apply N.eqb_eq in E. apply overall_fail_iff_all in E. rewrite E. split; discriminate.
  - split; [intros _ | reflexivity]. destruct (all_pass (s_ready s)) eqn:A; [reflexivity|].
    apply overall_fail_iff_all in A. apply N.eqb_neq in E. contradiction.
Qed.
Lemma ready_200_iff s : std (s_ready s) ->
  (r_code (atomic_response true s) = 200 <-> all_pass (s_ready s) = true).
Proof. intros _. apply ready_200_iff_all. Qed.

Lemma ready_503_lists_all s : all_pass (s_ready s) = false ->
  r_code (atomic_response true s) = 503 /\ r_status (atomic_response true s) = 1 /\
  Permutation (r_checks (atomic_response true s)) (not_passing (s_ready s)) /\
  StronglySorted R (r_checks (atomic_response true s)) /\
  (std (s_ready s) -> StronglySorted (fun a b => k_name a <= k_name b) (r_checks (atomic_response true s))).
Proof.
  intros Ha. apply overall_fail_iff_all in Ha.
  unfold atomic_response, respond, ready_response, evaluate, checks_of. rewrite Ha. cbn.
  repeat split; auto.
  - apply failing_perm.
  - apply failing_sorted.
  - apply failing_sorted_by_name.
Qed.

Lemma ready_503_lists s : std (s_ready s) -> all_pass (s_ready s) = false ->
  r_code (atomic_response true s) = 503 /\ r_status (atomic_response true s) = 1 /\
  Permutation (r_checks (atomic_response true s)) (not_passing (s_ready s)) /\
  StronglySorted (fun a b => k_name a <= k_name b) (r_checks (atomic_response true s)).
Proof.
  intros Hs Ha. destruct (ready_503_lists_all s Ha) as (H1 & H2 & H3 & _ & H5). auto.
Qed.

Lemma ready_200_body s : r_code (atomic_response true s) = 200 ->
  r_checks (atomic_response true s) = [] /\ r_status (atomic_response true s) = 0.
Proof.
  unfold atomic_response, respond, ready_response, evaluate, checks_of.
  destruct (_ =? _); cbn; [discriminate | auto].
Qed.

(** * /health answered atomically *)
Lemma health_code s :
  r_code (atomic_response false s) = if overall (s_health s) =? ST_FAIL then 503 else 200.
Proof. unfold atomic_response, respond, health_response, evaluate, checks_of. destruct (_ =? _); reflexivity. Qed.

Lemma health_200_iff_all s :
  r_code (atomic_response false s) = 200 <-> all_pass (s_health s) = true.
Proof.
  rewrite health_code. destruct (overall (s_health s) =? ST_FAIL) eqn:E.
  - apply N.eqb_eq in E. apply overall_fail_iff_all in E. rewrite E. split; discriminate.
  - split; [intros _ | reflexivity]. destruct (all_pass (s_health s)) eqn:A; [reflexivity|].
    apply overall_fail_iff_all in A. apply N.eqb_neq in E. contradiction.
Qed.

(** the body status of /health is "pass" or "fail", never anything else *)
Lemma health_body_status s :
  r_status (atomic_response false s) = if all_pass (s_health s) then ST_PASS else ST_FAIL.
Proof.
  unfold atomic_response, respond, health_response, evaluate, checks_of.
  destruct (all_pass (s_health s)) eqn:A.
  - apply overall_pass_iff in A. rewrite A. reflexivity.
  - apply overall_fail_iff_all in A. rewrite A. reflexivity.
Qed.

Lemma health_503_message s :
  r_code (atomic_response false s) = 503 ->
  exists c, In c (s_health s) /\ k_status c <> ST_PASS /\
            (forall d, In d (s_health s) -> k_status d <> ST_PASS -> kle c d = true) /\
            (std (s_health s) ->
               k_status c = ST_FAIL /\
               forall d, In d (s_health s) -> k_status d = ST_FAIL -> k_name c <= k_name d) /\
            r_message (atomic_response false s) = msg_or_fail c /\
            (* it is the first not-passing entry of the listed checks *)
            exists pre post, r_checks (atomic_response false s) = pre ++ c :: post /\
                             forall d, In d pre -> k_status d = ST_PASS.
Proof.
  unfold atomic_response, respond, health_response, evaluate, checks_of.
  destruct (overall (s_health s) =? ST_FAIL) eqn:E; cbn; [intros _ | discriminate].
  apply N.eqb_eq in E. apply overall_fail_iff_all in E.
  assert (Hex : exists c, In c (s_health s) /\ k_status c <> ST_PASS).
  { unfold all_pass in E. clear - E. induction (s_health s) as [|x l IH]; cbn in E; [discriminate|].
    destruct (k_status x =? ST_PASS) eqn:Ex; cbn in E.
    - destruct (IH E) as [c [H1 H2]]. exists c; split; [right; exact H1 | exact H2].
    - exists x; split; [left; reflexivity | apply N.eqb_neq; exact Ex]. }
  pose proof (failing_sorted (s_health s)) as Hsorted.
  unfold first_failure.
  destruct (failing (isort (s_health s))) as [|c t] eqn:Hf.
  { destruct Hex as [c [H1 H2]]. assert (In c (failing (isort (s_health s)))) by (apply failing_in; auto).
    rewrite Hf in H. destruct H. }
  assert (Hc : In c (failing (isort (s_health s)))) by (rewrite Hf; left; reflexivity).
  apply failing_in in Hc as [Hc1 Hc2].
  assert (Hmin : forall d, In d (s_health s) -> k_status d <> ST_PASS -> kle c d = true).
  { intros d Hd1 Hd2. assert (Hd : In d (failing (isort (s_health s)))) by (apply failing_in; auto).
    rewrite Hf in Hd. destruct Hd as [<- | Hd].
    - unfold kle, less. rewrite N.eqb_refl, N.ltb_irrefl. reflexivity.
    - inversion Hsorted as [|? ? _ Hall]; subst. rewrite Forall_forall in Hall. apply Hall; exact Hd. }
  exists c. split; [exact Hc1|]. split; [exact Hc2|]. split; [exact Hmin|]. split; [|split; [reflexivity|]].
  - intro Hstd. assert (Hcf : k_status c = ST_FAIL) by (destruct (Hstd c Hc1); congruence).
    split; [exact Hcf|]. intros d Hd1 Hd2.
    assert (Hk : kle c d = true) by (apply Hmin; [exact Hd1 | rewrite Hd2; discriminate]).
    unfold kle, less in Hk. rewrite Hcf, Hd2 in Hk. cbn in Hk.
    destruct (N.ltb_spec (k_name d) (k_name c)); [discriminate | assumption].
  - clear - Hf. unfold failing in Hf. induction (isort (s_health s)) as [|x l IH]; cbn in Hf; [discriminate|].
    destruct (k_status x =? ST_PASS) eqn:Ex; cbn in Hf.
    + destruct (IH Hf) as [pre [post [H1 H2]]]. exists (x :: pre), post. split; [cbn; now rewrite H1|].
      intros d [<- | Hd]; [apply N.eqb_eq; exact Ex | apply H2; exact Hd].
    + inversion Hf; subst. exists [], l. split; [reflexivity | intros d []].
Qed.

(** * Requests interleaved with operations *)
Lemma map_nth_seq {A} (l : list A) d : map (fun i => nth i l d) (seq 0 (length l)) = l.
Proof.
  induction l as [|x t IH]; cbn; [reflexivity|]. f_equal.
  rewrite <- seq_shift, map_map. exact IH.
Qed.

Lemma combine_seq_repeat n (p : nat) :
  combine (seq 0 n) (repeat p n) = map (fun i => (i, p)) (seq 0 n).
Proof.
  generalize 0%nat. induction n as [|n IH]; intro a; cbn; [reflexivity|]. f_equal. apply IH.
Qed.

(** a request during which nothing changes is answered atomically *)
Lemma diag_atomic ops ready p :
  diag_response ops ready p (repeat p (length (checks_of ready (state_at ops p))))
  = atomic_response ready (state_at ops p).
Proof.
  unfold diag_response, atomic_response, diag_results. f_equal.
  rewrite combine_seq_repeat, map_map. cbn [fst snd]. apply map_nth_seq.
Qed.

(** every collected result is a true reading of that checker at its position *)
Lemma diag_results_nth ops ready ps pr i :
  length pr = length (checks_of ready (state_at ops ps)) -> (i < length pr)%nat ->
  nth i (diag_results ops ready ps pr) dummy
  = nth i (checks_of ready (state_at ops (nth i pr 0%nat))) dummy.
Proof.
  intros Hl Hi. unfold diag_results. rewrite <- Hl.
  set (f := fun ip : nat * nat => nth (fst ip) (checks_of ready (state_at ops (snd ip))) dummy).
  rewrite (nth_indep _ dummy (f (0%nat, 0%nat))).
  2:{ rewrite map_length, combine_length, seq_length. lia. }
  rewrite map_nth. rewrite combine_nth by (rewrite seq_length; reflexivity).
  rewrite seq_nth by exact Hi. unfold f. cbn [fst snd]. reflexivity.
Qed.

Lemma diag_results_length ops ready ps pr :
  length pr = length (checks_of ready (state_at ops ps)) -> length (diag_results ops ready ps pr) = length pr.
Proof.
  intro Hl. unfold diag_results. rewrite map_length, combine_length, seq_length, <- Hl. lia.
Qed.

(** ** operations take effect one at a time *)
Lemma firstn_S_nth_error {A} (l : list A) : forall p x,
  nth_error l p = Some x -> firstn (S p) l = firstn p l ++ [x].
Proof.
  induction l as [|a l IH]; intros [|p] x H; cbn in *; try discriminate.
  - inversion H; reflexivity.
  - f_equal. apply IH; exact H.
Qed.

Lemma state_at_S ops p o : nth_error ops p = Some o -> state_at ops (S p) = apply_op (state_at ops p) o.
Proof.
  intro H. unfold state_at, run_ops. rewrite (firstn_S_nth_error _ _ _ H), fold_left_app. reflexivity.
Qed.

(** a gate keeps its name; Ready() only ever turns an entry into a passing one *)
Definition rel (c c' : chk) : Prop := k_name c = k_name c' /\ (c' = c \/ k_status c' = ST_PASS).

Lemma rel_refl c : rel c c. Proof. split; auto. Qed.
Lemma rel_trans a b c : rel a b -> rel b c -> rel a c.
Proof. intros [H1 H2] [H3 H4]. split; [congruence|]. destruct H4 as [-> | H4]; auto. Qed.

Lemma F2_refl l : Forall2 rel l l.
Proof. induction l; constructor; auto using rel_refl. Qed.
Lemma F2_trans a : forall b c, Forall2 rel a b -> Forall2 rel b c -> Forall2 rel a c.
Proof.
  induction a as [|x a IH]; intros b c H1 H2; inversion H1; subst; inversion H2; subst; constructor.
  - eapply rel_trans; eauto.
  - eapply IH; eauto.
Qed.

Lemma upd_rel l : forall i, Forall2 rel l (upd i (set_chk ST_PASS M_EMPTY) l).
Proof.
  induction l as [|x l IH]; intros [|i]; cbn; constructor; auto using rel_refl, F2_refl.
  split; [reflexivity | right; reflexivity].
Qed.

Definition ready_window (ops : list op) (a b : nat) : Prop :=
  forall k, (a <= k < b)%nat -> exists i, nth_error ops k = Some (OReady i).

Lemma ready_window_rel ops a b : ready_window ops a b ->
  forall p p', (a <= p)%nat -> (p <= p')%nat -> (p' <= b)%nat ->
  Forall2 rel (s_ready (state_at ops p)) (s_ready (state_at ops p')).
Proof.
  intros Hw p p' Ha Hpp. induction Hpp as [|m Hpm IH]; intro Hb; [apply F2_refl|].
  eapply F2_trans; [apply IH; lia|].
  destruct (Hw m) as [i Hi]; [lia|]. rewrite (state_at_S _ _ _ Hi). cbn. apply upd_rel.
Qed.

Lemma F2_length {A B} (P : A -> B -> Prop) l l' : Forall2 P l l' -> length l = length l'.
Proof. induction 1; cbn; congruence. Qed.

Lemma F2_nth l : forall l' i, Forall2 rel l l' -> (i < length l)%nat -> rel (nth i l dummy) (nth i l' dummy).
Proof.
  induction l as [|x l IH]; intros l' i H Hi; inversion H; subst; cbn in *; [lia|].
  destruct i; [assumption | apply IH; [assumption | lia]].
Qed.

Lemma last_default (l : list nat) : forall a b, l <> [] -> last l a = last l b.
Proof.
  induction l as [|x t IH]; intros a b H; [congruence|]. destruct t as [|y t]; [reflexivity|].
  cbn [last]. cbn [last] in IH. apply IH. discriminate.
Qed.

Lemma nondecreasing_bounds l : forall lo i, nondecreasing lo l = true -> (i < length l)%nat ->
  (lo <= nth i l 0 <= last l lo)%nat.
Proof.
  induction l as [|x t IH]; intros lo i H Hi; [cbn in Hi; lia|].
  cbn [nondecreasing] in H. apply andb_true_iff in H as [H1 H2]. apply Nat.leb_le in H1.
  destruct t as [|y t'].
  - destruct i; cbn in *; lia.
  - assert (Hl : last (x :: y :: t') lo = last (y :: t') x).
    { change (last (x :: y :: t') lo) with (last (y :: t') lo). apply last_default. discriminate. }
    rewrite Hl. destruct i as [|i'].
    + cbn [nth]. pose proof (IH x 0%nat H2 ltac:(cbn; lia)) as P. cbn [nth] in P.
      destruct P as [P1 P2]. split; [exact H1 | exact (Nat.le_trans _ _ _ P1 P2)].
    + cbn [nth]. cbn [length] in Hi. pose proof (IH x i' H2 ltac:(cbn [length]; lia)) as P.
      destruct P as [P1 P2]. split; [exact (Nat.le_trans _ _ _ H1 P1) | exact P2].
Qed.

Lemma forallb_nth {A} (f : A -> bool) (l : list A) d :
  (forall i, (i < length l)%nat -> f (nth i l d) = true) -> forallb f l = true.
Proof.
  intro H. apply forallb_forall. intros x Hx. destruct (In_nth _ _ d Hx) as [i [Hi <-]]. apply H; exact Hi.
Qed.

Lemma all_pass_nth l i : all_pass l = true -> (i < length l)%nat -> k_status (nth i l dummy) = ST_PASS.
Proof.
  intros H Hi. unfold all_pass in H. rewrite forallb_forall in H. apply N.eqb_eq, H, nth_In, Hi.
Qed.

(** If the only operations overlapping a /ready request are Ready() signals (no Unready, no
    registration) and every ready check answers pass/fail, the STATUS CODE is linearisable:
    a 200 answer is exactly the atomic answer at the response point; a 503 answer means some
    gate was not ready when the request was issued, and every listed gate was then not ready. *)
Lemma ready_only_window ops inv resp ps pr :
  valid_expl ops true inv resp ps pr = true ->
  ready_window ops ps resp ->
  std (s_ready (state_at ops ps)) ->
  let r := diag_response ops true ps pr in
  (r_code r = 200 -> r = atomic_response true (state_at ops resp)) /\
  (r_code r = 503 ->
     r_code (atomic_response true (state_at ops ps)) = 503 /\
     forall c, In c (r_checks r) ->
       exists c0, In c0 (s_ready (state_at ops ps)) /\ k_name c0 = k_name c /\ k_status c0 = ST_FAIL).
Proof.
  intros Hv Hw Hstd r.
  unfold valid_expl in Hv. repeat (apply andb_true_iff in Hv as [Hv ?]).
  apply Nat.leb_le in Hv. apply Nat.leb_le in H0. apply Nat.leb_le in H1. apply Nat.eqb_eq in H.
  rename H into Hlen, H0 into Hresp, H1 into Hlast, H2 into Hnd.
  cbn [checks_of] in Hlen. unfold last_or in Hlast.
  assert (Hpr : (ps <= resp)%nat).
  { destruct pr as [|x t]; [cbn in Hlast; lia|].
    pose proof (nondecreasing_bounds (x :: t) ps 0%nat Hnd ltac:(cbn; lia)) as [P1 P2].
    exact (Nat.le_trans _ _ _ (Nat.le_trans _ _ _ P1 P2) Hlast). }
  set (n := length pr) in *.
  set (res := diag_results ops true ps pr).
  assert (Hrl : length res = n) by (apply diag_results_length; exact Hlen).
  assert (Hpos : forall i, (i < n)%nat -> (ps <= nth i pr 0 <= resp)%nat).
  { intros i Hi. pose proof (nondecreasing_bounds pr ps i Hnd Hi). lia. }
  assert (Hres : forall i, (i < n)%nat ->
            nth i res dummy = nth i (s_ready (state_at ops (nth i pr 0%nat))) dummy).
  { intros i Hi. apply (diag_results_nth ops true ps pr i Hlen Hi). }
  (* each result is related to the entry at ps and the entry at resp is related to it *)
  assert (Hrel1 : forall i, (i < n)%nat -> rel (nth i (s_ready (state_at ops ps)) dummy) (nth i res dummy)).
  { intros i Hi. rewrite (Hres i Hi). apply F2_nth; [|lia].
    apply (ready_window_rel ops ps resp Hw); specialize (Hpos i Hi); lia. }
  assert (Hrel2 : forall i, (i < n)%nat -> rel (nth i res dummy) (nth i (s_ready (state_at ops resp)) dummy)).
  { intros i Hi. rewrite (Hres i Hi).
    assert (HF : Forall2 rel (s_ready (state_at ops (nth i pr 0%nat))) (s_ready (state_at ops resp)))
      by (apply (ready_window_rel ops ps resp Hw); specialize (Hpos i Hi); lia).
    apply F2_nth; [exact HF|].
    rewrite <- (F2_length _ _ _ (ready_window_rel ops ps resp Hw ps (nth i pr 0%nat) ltac:(lia)
                  ltac:(specialize (Hpos i Hi); lia) ltac:(specialize (Hpos i Hi); lia))). lia. }
  assert (Hstdres : std res).
  { intros c Hc. destruct (In_nth _ _ dummy Hc) as [i [Hi <-]]. assert (Hi' : (i < n)%nat) by (rewrite <- Hrl; exact Hi); clear Hi; rename Hi' into Hi.
    destruct (Hrel1 i Hi) as [_ [-> | Hp]]; [|left; exact Hp].
    apply Hstd, nth_In. lia. }
  assert (Hcode : r_code r = if overall res =? ST_FAIL then 503 else 200).
  { unfold r, diag_response, respond, ready_response, evaluate. fold res. destruct (_ =? _); reflexivity. }
  split; intro Hc.
  - (* 200 *)
    rewrite Hcode in Hc. destruct (overall res =? ST_FAIL) eqn:E; [discriminate|].
    assert (Hap : all_pass res = true).
    { destruct (all_pass res) eqn:A; [reflexivity|]. apply (overall_fail_iff _ Hstdres) in A.
      apply N.eqb_neq in E. contradiction. }
    assert (Hlr : length (s_ready (state_at ops resp)) = n).
    { rewrite <- (F2_length _ _ _ (ready_window_rel ops ps resp Hw ps resp ltac:(lia) ltac:(lia) ltac:(lia))). lia. }
    assert (Hall : all_pass (s_ready (state_at ops resp)) = true).
    { apply (forallb_nth _ _ dummy). intros i Hi. rewrite Hlr in Hi. apply N.eqb_eq.
      destruct (Hrel2 i Hi) as [_ [-> | Hp]]; [|exact Hp]. apply all_pass_nth; [exact Hap | lia]. }
    apply overall_pass_iff in Hall.
    unfold r, diag_response, atomic_response, respond, ready_response, evaluate, checks_of. fold res.
    rewrite E, Hall. reflexivity.
  - (* 503 *)
    rewrite Hcode in Hc. destruct (overall res =? ST_FAIL) eqn:E; [|discriminate].
    assert (Hlisted : forall c, In c (r_checks r) ->
              exists c0, In c0 (s_ready (state_at ops ps)) /\ k_name c0 = k_name c /\ k_status c0 = ST_FAIL).
    { intros c Hin. unfold r, diag_response, respond, ready_response, evaluate in Hin. fold res in Hin.
      rewrite E in Hin. cbn in Hin. apply failing_in in Hin as [Hin Hf].
      destruct (In_nth _ _ dummy Hin) as [i [Hi Hc0]]. assert (Hi' : (i < n)%nat) by (rewrite <- Hrl; exact Hi); clear Hi; rename Hi' into Hi.
      destruct (Hrel1 i Hi) as [Hn [Heq | Hp]].
      - exists (nth i (s_ready (state_at ops ps)) dummy).
        assert (Hc1 : nth i (s_ready (state_at ops ps)) dummy = c)
          by (transitivity (nth i res dummy); [symmetry; exact Heq | exact Hc0]).
        rewrite Hc1. split; [rewrite <- Hc1; apply nth_In; lia | split; [reflexivity|]].
        destruct (Hstdres c Hin) as [Hx | Hx]; [contradiction | exact Hx].
      - assert (Hp' : k_status c = ST_PASS) by (rewrite <- Hc0; exact Hp). contradiction. }
    split; [|exact Hlisted].
    rewrite ready_code. destruct (overall (s_ready (state_at ops ps)) =? ST_FAIL) eqn:E2; [reflexivity|].
    exfalso. assert (A : all_pass (s_ready (state_at ops ps)) = true).
    { destruct (all_pass _) eqn:A; [reflexivity|]. apply (overall_fail_iff _ Hstd) in A.
      apply N.eqb_neq in E2. contradiction. }
    apply N.eqb_eq in E. apply (overall_fail_iff _ Hstdres) in E.
    assert (all_pass res = true); [|congruence].
    apply (forallb_nth _ _ dummy). intros i Hi. assert (Hi' : (i < n)%nat) by (rewrite <- Hrl; exact Hi); clear Hi; rename Hi' into Hi. apply N.eqb_eq.
    destruct (Hrel1 i Hi) as [_ [-> | Hp]]; [|exact Hp]. apply all_pass_nth; [exact A | lia].
Qed.

(** gate-only histories: every ready check answers pass/fail, and a gate passes iff its last
    signal was Ready() *)
Definition gate_op (o : op) : bool :=
  match o with ORegGate _ | OReady _ | OUnready _ => true | _ => false end.

Lemma std_app l c : std l -> (k_status c = ST_PASS \/ k_status c = ST_FAIL) -> std (l ++ [c]).
Proof. intros H Hc d Hd. apply in_app_or in Hd as [Hd | [<- | []]]; auto. Qed.
Lemma std_upd l st m : (st = ST_PASS \/ st = ST_FAIL) -> forall i, std l -> std (upd i (set_chk st m) l).
Proof.
  intros Hst. induction l as [|x l IH]; intros [|i] H d Hd; cbn in Hd; try contradiction.
  - destruct Hd as [<- | Hd]; [exact Hst | apply H; right; exact Hd].
  - destruct Hd as [<- | Hd]; [apply H; left; reflexivity|].
    apply (IH i); [intros e He; apply H; right; exact He | exact Hd].
Qed.

Lemma gate_ops_std ops : forallb gate_op ops = true -> std (s_ready (run_ops ops)).
Proof.
  unfold run_ops. assert (G : forall s, std (s_ready s) -> forallb gate_op ops = true ->
                                        std (s_ready (fold_left apply_op ops s))).
  { induction ops as [|o ops IH]; intros s Hs H; cbn in *; [exact Hs|].
    apply andb_true_iff in H as [Ho H]. apply IH; [|exact H].
    destruct o; cbn in *; try discriminate.
    - apply std_app; [exact Hs | right; reflexivity].
    - apply std_upd; [left; reflexivity | exact Hs].
    - apply std_upd; [right; reflexivity | exact Hs]. }
  intro H. apply G; [intros c [] | exact H].
Qed.

(** * SchedulerPulseCheck, StartupProgressLogger *)
Lemma pulse_fail_iff w now thr :
  pulse_status (pulse_check w now thr) = ST_FAIL <-> pulse_should_fail w now thr = true.
Proof.
  unfold pulse_check, pulse_should_fail. destruct w as [w|]; cbn; [|split; discriminate].
  rewrite Z.gtb_ltb. destruct (Z.ltb_spec (w + thr) now); cbn.
  - split; [intros _; apply Z.ltb_lt; lia | reflexivity].
  - destruct (now <? w)%Z; cbn; (split; [discriminate | intro H0; apply Z.ltb_lt in H0; lia]).
Qed.

Definition is_finish (o : sop) : bool := match o with SFinish _ => true | _ => false end.
Definition is_finish_err (o : sop) : bool := match o with SFinish (Some _) => true | _ => false end.
Definition is_failed (o : sop) : bool := match o with SFailed _ _ => true | _ => false end.
Definition has_err (s : slog) : bool := match sl_err s with Some _ => true | None => false end.

Lemma sl_fold ops : forall s,
  let s' := fold_left sl_apply ops s in
  sl_done s' = sl_done s || existsb is_finish ops /\
  has_err s' = has_err s || existsb is_finish_err ops /\
  (match sl_errs s' with [] => true | _ => false end
   = (match sl_errs s with [] => true | _ => false end) && negb (existsb is_failed ops)).
Proof.
  induction ops as [|o ops IH]; intro s; cbn.
  - rewrite !orb_false_r, andb_true_r. auto.
  - destruct (IH (sl_apply s o)) as (H1 & H2 & H3). rewrite H1, H2, H3.
    destruct o as [| |id m|[e|]]; cbn; unfold has_err; cbn;
      rewrite ?orb_false_l, ?orb_true_r, ?orb_true_l, ?andb_true_r; auto.
    all: repeat split; auto; try (destruct (sl_errs s); cbn; auto; fail);
      destruct (sl_done s), (sl_err s); auto.
Qed.

Lemma startup_ready_iff ops :
  fst (sl_ready (fold_left sl_apply ops sl_init)) = ST_PASS <-> sl_ready_should_pass ops = true.
Proof.
  destruct (sl_fold ops sl_init) as (H1 & H2 & _). cbn in H1, H2.
  unfold sl_ready_should_pass. change (fun o => match o with SFinish _ => true | _ => false end) with is_finish.
  change (fun o => match o with SFinish (Some _) => true | _ => false end) with is_finish_err.
  rewrite <- H1, <- H2. unfold sl_ready, has_err.
  destruct (sl_done _); cbn.
  - destruct (sl_err _); cbn; split; auto; discriminate.
  - destruct (sl_total _ =? 0); cbn; split; discriminate.
Qed.

Lemma startup_health_iff ops :
  fst (sl_health (fold_left sl_apply ops sl_init)) = ST_PASS <-> sl_health_should_pass ops = true.
Proof.
  destruct (sl_fold ops sl_init) as (_ & _ & H3). cbn in H3.
  unfold sl_health_should_pass. change (fun o => match o with SFailed _ _ => true | _ => false end) with is_failed.
  rewrite <- H3. unfold sl_health. destruct (sl_errs _); cbn; split; auto; discriminate.
Qed.
