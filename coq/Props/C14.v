(** C14 — Index metadata queries stay correct across compaction and restart.
    Property theorems only (statements over the mirror model of Model/C14.v).

    FULL STATEMENT (index_refines_live_series): for every history [ops] of create-series /
    drop-series (engine style) / drop-measurement / reopen with compaction events at any step,
    [refines_live (run ops) (spec ops) = true]: measurement names, tag keys per measurement, tag
    values per key and the series sets of every measurement / tag key / tag value equal those of
    the live series (series created and not dropped).

    The faithful model REFUTES three clauses of it (a fourth, the stale Partition.seriesIDSet after
    Index.DropMeasurement, was repaired in partition.go; see C14_measurement_names_after_drop_measurement), and so does the real index (known findings,
    replayed by the driver on every run):
      - tag values (and keys) stay listed after all their series were dropped   [..._values_refuted]
      - keys/values of a dropped measurement survive in older index files and are listed again
        when the measurement is re-created; the answer depends on the compaction schedule
                                                                                [..._keys_refuted]
      - a series dropped from the index whose id the series file keeps (another shard has it)
        stays in the measurement / tag-key series sets while an older file holds it [..._kept_id_refuted]
    PROVED (unbounded: all file contents, all states, all schedules):
      - C14_index_refines_live_series_partial: from ANY state in which no tag key carries a
        tombstone and tombstoned ids are deleted in the series file (checked by the judge on every
        replayed real history at every observation), ANY sequence of compaction events (roll,
        log-file compaction at any position, merge of any contiguous run of index files to any
        level) changes NO answer of any of the six queries, and keeps the state condition;
      - C14_tag_value_series_characterisation: what TagValueSeriesIDIterator returns after the
        series-file filter, independently of the tombstone bookkeeping;
      - C14_log_torn_tail / C14_log_roundtrip / C14_reopen_identity (byte level of the L0 log).
    MISSING for the full `_partial` over create/drop histories: the induction over the create and
    drop operations themselves (that the series-set clauses are exact and the listing clauses
    satisfy  live <= listed <= ever created); that part is established only by the
    correspondence run, whose oracle is exactly this weakening (Model/C14.v [oracle]). *)
From Verif Require Import Base.Prelude Model.C14 Proofs.C14_sets Proofs.C14_bytes Proofs.C14_compact
  Proofs.C14_merge Proofs.C14_events Proofs.C14.
Local Open Scope N_scope.

(** What append wrote, recovery reads back: for every checksum function with 32-bit results. *)
Theorem C14_log_roundtrip :
  forall (crc : list N -> N), (forall l, crc l < 2 ^ 32) ->
  forall es, Forall wf_entry es -> recover crc (enc_log crc es) = (es, false).
Proof. exact recover_roundtrip. Qed.
Print Assumptions C14_log_roundtrip.

(** Torn tail: every truncation of the last log entry — all earlier entries recovered, nothing
    invented, open does not fail; no property of the checksum is needed (a strict prefix of an
    entry is always a short buffer). *)
Theorem C14_log_torn_tail :
  forall (crc : list N -> N), (forall l, crc l < 2 ^ 32) ->
  forall es e k, Forall wf_entry es -> wf_entry e -> (k < length (enc_entry crc e))%nat ->
  recover crc (enc_log crc es ++ firstn k (enc_entry crc e)) = (es, false).
Proof. exact recover_torn_tail. Qed.
Print Assumptions C14_log_torn_tail.

(** ... in particular for the CRC-32 the judge computes with. *)
Theorem C14_log_torn_tail_crc32 :
  forall es e k, Forall wf_entry es -> wf_entry e -> (k < length (enc_entry crc32 e))%nat ->
  recover crc32 (enc_log crc32 es ++ firstn k (enc_entry crc32 e)) = (es, false).
Proof. exact (recover_torn_tail crc32 crc32_range). Qed.
Print Assumptions C14_log_torn_tail_crc32.

Theorem C14_reopen_identity :
  forall (crc : list N -> N), (forall l, crc l < 2 ^ 32) -> forall sf maxlog p,
  (forall f, In f (p_files p) -> f_level f = 0 -> Forall wf_entry (f_log f) /\ replay sf (f_log f) = f) ->
  (forall f, In f (p_files p) -> f_level f = 0 ->
     replay sf (fst (recover crc (enc_log crc (f_log f)))) = f) /\
  let p' := p_reopen sf maxlog p in
  (p_files p' = p_files p \/ p_files p' = empty_log :: p_files p) /\
  (forall m, In m (q_meas (p_files p')) <-> In m (q_meas (p_files p))) /\
  (forall m k, In k (q_keys (p_files p') m) <-> In k (q_keys (p_files p) m)) /\
  (forall m k v, In v (q_vals (p_files p') m k) <-> In v (q_vals (p_files p) m k)) /\
  (forall m y, In y (q_mseries (p_files p') m) <-> In y (q_mseries (p_files p) m)) /\
  (forall m k y, In y (q_kseries (p_files p') m k) <-> In y (q_kseries (p_files p) m k)).
Proof. exact reopen_identity. Qed.
Print Assumptions C14_reopen_identity.

(** Compaction at any step, any schedule, changes no answer. *)
Theorem C14_index_refines_live_series_partial :
  forall evs st, Forall is_event evs -> st_ok st -> i_cache st = None ->
  same_answers (fold_left step evs st) st /\ st_ok (fold_left step evs st).
Proof. exact any_schedule. Qed.
Print Assumptions C14_index_refines_live_series_partial.

(** One compaction of any contiguous run of files (positions, length, level and contents
    arbitrary) at file-set level, for each query. *)
Theorem C14_merge_preserves_file_set_queries :
  forall lvl run pre post, no_key_tomb run ->
  let fs' := pre ++ merge_run lvl run :: post in let fs := pre ++ run ++ post in
  (forall m, In m (q_meas fs') <-> In m (q_meas fs)) /\
  (forall m k, In k (q_keys fs' m) <-> In k (q_keys fs m)) /\
  (forall m k v, In v (q_vals fs' m k) <-> In v (q_vals fs m k)) /\
  (forall m y, In y (q_mseries fs' m) <-> In y (q_mseries fs m)) /\
  (forall m k y, In y (q_kseries fs' m k) <-> In y (q_kseries fs m k)).
Proof.
  intros lvl run pre post NT. pose proof (merge_replaces lvl run NT) as R. cbn zeta.
  split; [intro; apply splice_meas; exact R|].
  split; [intros; apply splice_keys; exact R|].
  split; [intros; apply splice_vals; exact R|].
  split; [intros; apply splice_mseries; exact R | intros; apply splice_kseries; exact R].
Qed.
Print Assumptions C14_merge_preserves_file_set_queries.

Theorem C14_tag_value_series_characterisation :
  forall st m k v y, i_cache st = None ->
  (forall p f z, In p (i_parts st) -> In f (p_files p) -> In z (f_ts f) -> In z (i_sdel st)) ->
  (In y (snd (i_vseries st m k v)) <->
   not_deleted st y = true /\ exists p f, In p (i_parts st) /\ In f (p_files p) /\ vids_of f m k v y).
Proof. exact vseries_char. Qed.
Print Assumptions C14_tag_value_series_characterisation.

(** The boolean state check the judge evaluates on every replayed history implies the
    hypothesis of the compaction theorems. *)
Theorem C14_state_check_sound : forall st, st_okb st = true -> st_ok st.
Proof. exact st_okb_ok. Qed.
Print Assumptions C14_state_check_sound.

(** Refutations of the full statement (each witness is replayed on the real index). *)
Theorem C14_index_refines_live_series_values_refuted :
  exists parts maxlog ops,
    let st := run_hist parts maxlog ops in let sp := spec_hist ops in
    refines_live st sp = false /\
    str_mem v0 (i_vals st m0 k0) = true /\ str_mem v0 (spec_vals sp true m0 k0) = false /\
    snd (i_vseries st m0 k0 v0) = [].
Proof. exists 1%nat, 1048576, hist_value. exact tag_values_refuted. Qed.
Print Assumptions C14_index_refines_live_series_values_refuted.

Theorem C14_index_refines_live_series_keys_refuted :
  exists parts maxlog ops,
    let st := run_hist parts maxlog ops in let sp := spec_hist ops in
    refines_live st sp = false /\
    str_mem k0 (i_keys st m0) = true /\ str_mem k0 (spec_keys sp true m0) = false.
Proof. exists 1%nat, 5, hist_keys. exact tag_keys_refuted. Qed.
Print Assumptions C14_index_refines_live_series_keys_refuted.

(** the same history answers differently under two compaction schedules *)
Theorem C14_answers_depend_on_schedule_refuted :
  exists ops, str_mem k0 (i_keys (run_hist 1 5 ops) m0) = true /\
              str_mem k0 (i_keys (run_hist 1 1048576 ops) m0) = false /\
              refines_live (run_hist 1 1048576 ops) (spec_hist ops) = true.
Proof. exists hist_keys. exact schedule_dependence. Qed.
Print Assumptions C14_answers_depend_on_schedule_refuted.

(** Former refutation (Index.DropMeasurement left Partition.seriesIDSet stale), repaired in
    partition.go: on the same history the measurement is now dropped with its last series. *)
Example C14_measurement_names_after_drop_measurement :
  let st := run_hist 1 5 hist_meas in let sp := spec_hist hist_meas in
  i_meas st = [] /\ spec_meas sp true = [] /\ i_mseries st m0 = [] /\ i_set st = [] /\
  i_set (run_hist 1 5 (firstn 3 hist_meas)) = [].
Proof. exact measurement_names_after_drop_measurement. Qed.

Theorem C14_index_refines_live_series_kept_id_refuted :
  exists parts maxlog ops,
    let st := run_hist parts maxlog ops in let sp := spec_hist ops in
    refines_live st sp = false /\
    i_set st = [14] /\ spec_ms sp m0 = [14] /\ i_mseries st m0 = [6; 14] /\ i_kseries st m0 k0 = [6; 14].
Proof. exists 1%nat, 5, hist_keep. exact kept_id_refuted. Qed.
Print Assumptions C14_index_refines_live_series_kept_id_refuted.

(** Non-vacuity: a concrete state after creates, a drop and a re-create with four rolled log
    files meets the state condition; the policy compacts it to one level-3 file; the listed tag
    keys are the same before and after. *)
Example C14_nonvacuous :
  let st := fold_left step hist_nv (new_index 1 5 false) in
  st_okb st = true /\ shape st = [[0; 0; 0; 0; 0]] /\
  shape (settle st) = [[0; 3]] /\
  i_keys st m0 = [k0; k1] /\ i_keys (settle st) m0 = [k0; k1].
Proof. exact nonvacuous. Qed.
