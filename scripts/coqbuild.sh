#!/bin/bash
# (Re)generate _CoqProject from the files present and run a full .vo build (never -vos/-vok).
# usage: coqbuild.sh [make-target...]   (default: all)
set -e
# serialise builds of the shared tree (re-exec under the lock once)
if [ -z "$COQBUILD_LOCKED" ]; then mkdir -p /verif/build; export COQBUILD_LOCKED=1; exec flock /verif/build/coqbuild.lock "$0" "$@"; fi
ulimit -v ${COQ_MEM_KB:-16000000} 2>/dev/null || true   # a runaway proof must not take the machine down
cd /verif/coq
mkdir -p Gen
{ cat _CoqProject.head; find Base Gen Model Proofs Props -name '*.v' 2>/dev/null | sort; } > _CoqProject.new
if ! cmp -s _CoqProject.new _CoqProject 2>/dev/null; then mv _CoqProject.new _CoqProject; coq_makefile -f _CoqProject -o Makefile >/dev/null; else rm _CoqProject.new; fi
[ -f Makefile ] || coq_makefile -f _CoqProject -o Makefile >/dev/null
timeout ${COQ_TIMEOUT:-1800} make -j${COQ_JOBS:-16} "$@" && exit 0
# one retry: a freshly generated directory/file can be missed by the first dependency scan
rm -f .Makefile.d
exec timeout ${COQ_TIMEOUT:-1800} make -j${COQ_JOBS:-16} "$@"
