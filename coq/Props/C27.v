(** C27 — Replication forwards every queued batch, in order, until the remote accepts it.
    Property theorems only (model: Model/C27.v, proofs: Proofs/C27.v).

    The model is [send_write] = replicationQueue.SendWrite over the FIFO list of pending
    batches and a script with one [item] (remote answer + config-store behaviour) per
    call of writer.Write; [write] = writer.Write; [backoff]; [wait_from_header].
    All theorems hold for every queue, every script (any length, any answers) and
    every history; nothing is bounded. *)
From Verif Require Import Base.Prelude Model.C27 Proofs.C27.
Open Scope Z_scope.

(** The requests of one SendWrite are, in order, a prefix of the pending batches:
    no batch is posted before an earlier one, none is skipped. *)
Theorem C27_posted_in_order :
  forall drop q fw script, exists k, s_posted (send_write drop q fw script) = firstn k q.
Proof. exact send_write_posted_prefix. Qed.
Print Assumptions C27_posted_in_order.

(** A SendWrite either leaves the queue exactly as it was, or empties it — and it
    empties it only if every pending batch was posted in this call and each got an
    accepting answer (204, or 400 with DropNonRetryableData, with the config store
    working); [count_accepted] counts the leading accepting answers of the script. *)
Theorem C27_removed_only_if_accepted_or_dropped_400 :
  forall drop q fw script,
    let r := send_write drop q fw script in
    s_q r = q \/
    (s_q r = [] /\ s_posted r = q /\ count_accepted drop script (length q) = length q /\ s_wait r = 0).
Proof. exact send_write_removal. Qed.
Print Assumptions C27_removed_only_if_accepted_or_dropped_400.

(** Conversely (forwarding is complete): if the remote accepts every pending batch, all
    of them are posted and the queue is emptied. *)
Theorem C27_all_accepted_all_removed :
  forall drop q fw script, count_accepted drop script (length q) = length q ->
    s_q (send_write drop q fw script) = [] /\ s_posted (send_write drop q fw script) = q.
Proof. exact send_write_all_accepting. Qed.
Print Assumptions C27_all_accepted_all_removed.

(** Over any history of enqueues, SendWrites (any scripts), age purges and direct
    Writes, the queue is always a suffix of the sequence of enqueued batches: nothing is
    reordered, duplicated or invented; batches leave only from the front (by
    acceptance, C27_removed_only_if_accepted_or_dropped_400, or by the max-age purge). *)
Theorem C27_queue_is_suffix_of_enqueued_or_aged :
  forall drop os, exists k,
    m_q (fst (run drop {| m_q := []; m_fw := 0 |} os)) = skipn k (enqueued os).
Proof.
  intros drop os.
  destruct (run_suffix drop os {| m_q := []; m_fw := 0 |} [] 0%nat) as [k [_ H]]; [cbn; lia|reflexivity|].
  exists k. exact H.
Qed.
Print Assumptions C27_queue_is_suffix_of_enqueued_or_aged.

(** Write reports success exactly on an accepting answer and then asks for no delay. *)
Theorem C27_write_success_iff_accepted :
  forall drop it n, w_ok (write drop it n) = accepts drop it /\
                    (w_ok (write drop it n) = true -> w_wait (write drop it n) = 0).
Proof. intros. split; [apply write_ok_iff | apply write_ok_wait]. Qed.
Print Assumptions C27_write_success_iff_accepted.

(** Retry delay rule: a failed Write asks for [backoff attempts], except for a 429 whose
    Retry-After header yields a non-zero duration, which is then used as is. *)
Theorem C27_retry_delay_rule :
  forall drop it n, w_ok (write drop it n) = false ->
    w_wait (write drop it n) = backoff n \/
    (exists h, it_resp it = RStatus 429 h /\ it_cfg_fail it = false /\ it_upd_fail it = false /\
               wait_from_header h <> 0 /\ w_wait (write drop it n) = wait_from_header h).
Proof. exact write_fail_wait. Qed.
Print Assumptions C27_retry_delay_rule.

Theorem C27_retry_after_header_respected :
  forall drop h n, wait_from_header h <> 0 ->
    w_wait (write drop {| it_resp := RStatus 429 h; it_cfg_fail := false; it_upd_fail := false |} n)
    = wait_from_header h.
Proof. intros drop h n H. rewrite (write_429_header drop h n H). reflexivity. Qed.
Print Assumptions C27_retry_after_header_respected.

(** backoff: positive, doubles per failed attempt up to 10 attempts, monotone, and never
    above the 15-minute cap (reached after more than 10 attempts). *)
Theorem C27_backoff_monotone_capped :
  forall n m, 0 <= n <= m ->
    0 < backoff n /\ backoff n <= backoff m /\ backoff m <= max_backoff /\
    (n < 10 -> backoff (n + 1) = 2 * backoff n) /\ (10 < n -> backoff n = max_backoff) /\
    spec_backoff n = backoff n.
Proof.
  intros n m H. pose proof (backoff_cap n ltac:(lia)). pose proof (backoff_cap m ltac:(lia)).
  split; [lia|]. split; [apply backoff_mono; lia|]. split; [lia|].
  split; [intro; apply backoff_doubles; lia|]. split.
  - intro Hn. unfold backoff, max_attempts. destruct (n >? 10) eqn:E; [reflexivity|lia].
  - apply spec_backoff_eq. lia.
Qed.
Print Assumptions C27_backoff_monotone_capped.

(** Multi-segment backlog with the 10 s in-loop ticker advance ([send_ms], repaired code):
    for EVERY head segment, every backlog behind it and every pattern of ticker firings, one
    SendWrite posts exactly the batches of the head segment, in order, and leaves every other
    segment queued: nothing is lost, nothing is reordered.  (Before the repair of finding
    repl-ticker-advance-at-segment-end-drops-next-segment this was refuted: a ticker advance
    right after the last block of the head dropped the whole next segment unsent.) *)
Theorem C27_multi_segment_no_loss :
  forall head rest ticks, head <> [] ->
    send_ms (head :: rest) ticks = (head, concat rest).
Proof.
  intros head rest ticks Hh. destruct head as [|b t]; [congruence|]. cbn [send_ms].
  rewrite send_ms_loop_spec. reflexivity.
Qed.
Print Assumptions C27_multi_segment_no_loss.

(** The former refutation witness: three one-batch segments, ticker fired after the first
    batch; batch [2] is now still queued. *)
Example C27_ticker_advance_at_segment_end_now_safe :
  send_ms [[[1]]; [[2]]; [[3]]] [true] = ([[1]], [[2]; [3]]).
Proof. reflexivity. Qed.

(** Non-vacuity: three batches; the second answer is a 500 on the first call (nothing
    removed, the first batch is posted again later: at least once), then 429 with
    Retry-After: 5 (delay = 5 s), then all accepted. *)
Example C27_nonvacuous :
  let q := [[1;2]; [3]; [4;5;6]] in
  let ok := item_ok in
  let i500 := {| it_resp := RStatus 500 []; it_cfg_fail := false; it_upd_fail := false |} in
  let i429 := {| it_resp := RStatus 429 [53]; it_cfg_fail := false; it_upd_fail := false |} in
  let r1 := send_write false q 0 [ok; i500] in
  let r2 := send_write false (s_q r1) (s_fw r1) [ok; ok; i429] in
  let r3 := send_write false (s_q r2) (s_fw r2) [ok; ok; ok] in
  s_posted r1 = [[1;2]; [3]] /\ s_q r1 = q /\ s_wait r1 = 250000000 /\ s_fw r1 = 1 /\
  s_posted r2 = q /\ s_q r2 = q /\ s_wait r2 = 5 * second /\
  s_posted r3 = q /\ s_q r3 = [] /\ s_fw r3 = 0 /\ backoff 10 = 256 * second /\ backoff 11 = 900 * second.
Proof. vm_compute. repeat split; reflexivity. Qed.
