(** C07 (part 4) — string codec and block framing of tsm1.

    Mirrors string.go + batch_string.go and packBlock/unpackBlock of encoding.go.
    snappy is external: it enters as the parameters [compress]/[decompress]; the theorems
    assume [decompress (compress b) = Some b], the correspondence judge instantiates them
    with the identity and compares the DECOMPRESSED payload the real encoders produced
    (the driver runs the real snappy.Decode on their output). *)
From Verif Require Import Base.Prelude Model.C07_s8b Model.C07_int.
Local Open Scope N_scope.

Definition stringCompressedSnappy : N := 1.

(** Write(s): uvarint(len(s)) ++ s, concatenated *)
Definition str_payload (ss : list (list N)) : list N :=
  flat_map (fun s => put_uvarint (N.of_nat (length s)) ++ s) ss.

(** StringDecoder.Next/Read* and the loop of StringArrayDecodeAll over the decompressed
    bytes; [None] = invalid length / short buffer *)
Fixpoint str_parse (fuel : nat) (b : list N) : option (list (list N)) :=
  match b with
  | [] => Some []
  | _ =>
      match fuel with
      | O => None
      | S f =>
          match get_uvarint b with
          | None => None
          | Some (len, r) =>
              let n := N.to_nat len in
              if (length r <? n)%nat then None
              else match str_parse f (skipn n r) with
                   | Some ss => Some (firstn n r :: ss)
                   | None => None
                   end
          end
      end
  end.

Section Snappy.
  Variable compress : list N -> list N.
  Variable decompress : list N -> option (list N).

  (** StringEncoder.Bytes() and StringArrayEncodeAll: header byte, snappy(payload) *)
  Definition str_encode (ss : list (list N)) : list N :=
    (stringCompressedSnappy * 16) :: compress (str_payload ss).

  (** StringDecoder.SetBytes + Next/Read*, StringArrayDecodeAll *)
  Definition str_decode (b : list N) : option (list (list N)) :=
    match b with
    | [] => Some []
    | _ :: body =>
        match decompress body with
        | None => None
        | Some p => str_parse (length p) p
        end
    end.
End Snappy.

(** ** Block framing: type byte, uvarint(len(ts block)), ts block, value block *)
Definition BlockFloat64 : N := 0.
Definition BlockInteger : N := 1.
Definition BlockBoolean : N := 2.
Definition BlockString : N := 3.
Definition BlockUnsigned : N := 4.

Definition pack_block (typ : N) (ts vals : list N) : list N :=
  typ :: put_uvarint (N.of_nat (length ts)) ++ ts ++ vals.

(** block[0] and unpackBlock(block[1:]) *)
Definition unpack_block (b : list N) : option (N * list N * list N) :=
  match b with
  | [] => None
  | typ :: r =>
      match get_uvarint r with
      | None => None
      | Some (tslen, r2) =>
          let n := N.to_nat tslen in
          if (length r2 <? n)%nat then None
          else Some (typ, firstn n r2, skipn n r2)
      end
  end.
