// C02 driver: crash safety of a real tsm1.Engine.
//
// A history of writes, deletes, compactions and snapshots whose commit is parked at the
// verif hook points (after Cache.Snapshot, after FileStore.Replace, after ClearSnapshot,
// before/after WAL.Remove) runs on a real engine.  "Crash images" are copies of the shard
// directory (data + wal + index + series file) taken at those points and between
// operations; each image is opened by a second real engine (Engine.Open = recovery:
// cleanup of tmp files, TSM files + tombstones, WAL replay) and read back in full.
// "Torn" images additionally truncate the active WAL segment inside the last record at
// every byte offset (small records) — the torn-tail clause.  "crash" abandons the running
// engine and continues the history on an engine opened over an image.
// Images that LIVE ON: a write with torn_crash is the in-flight write of a crash whose WAL
// record is cut after >= 1 byte; the history continues on the engine reopened over that image
// (model: DCrashTorn).  A "branch" step reopens an image (plain, or with the previous write's
// record torn), lets that second engine perform further acknowledged writes / deletes /
// snapshots, copies ITS directory (second crash), and a third engine reads everything back
// (model: DBranch); the running engine is not affected.
package main

import (
	"context"
	"fmt"
	"io"
	"math"
	"os"
	"path/filepath"
	"sort"
	"sync"
	"time"

	"github.com/influxdata/influxdb/v2/models"
	"github.com/influxdata/influxdb/v2/pkg/verifhook"
	"github.com/influxdata/influxdb/v2/tsdb"
	"github.com/influxdata/influxdb/v2/tsdb/cursors"
	"github.com/influxdata/influxdb/v2/tsdb/engine/tsm1"
	_ "github.com/influxdata/influxdb/v2/tsdb/index"
	"github.com/influxdata/influxql"
	"go.uber.org/zap"
	"verifh/vh"
)

const nSeries, nFields = 2, 2

type jpoint struct {
	Series int   `json:"s"`
	Field  int   `json:"f"`
	T      int64 `json:"t"`
	V      int64 `json:"v"`
}
type jimage struct {
	Torn int          `json:"torn"` // -1: plain image; n>=0: last WAL record cut to n bytes
	Res  [][][2]int64 `json:"res"`  // per key 0..3 the full ascending read
}
type jstep struct {
	Op      string   `json:"op"`
	Points  []jpoint `json:"points,omitempty"`
	I       int      `json:"i,omitempty"`
	N       int      `json:"n,omitempty"`
	Fast    bool     `json:"fast,omitempty"`
	Series  []int    `json:"series,omitempty"`
	Key     int      `json:"key,omitempty"`
	Lo      int64    `json:"lo,omitempty"`
	Hi      int64    `json:"hi,omitempty"`
	Asc     bool     `json:"asc,omitempty"`
	Torn    bool     `json:"torn,omitempty"`     // write: also take torn-tail images of its WAL record; branch: the image is torn
	TornAll bool     `json:"torn_all,omitempty"` // ... at every byte offset (else 5 offsets; Lo/Hi pick two of them)
	// write: this write is in flight (never acknowledged to the history) when the process dies with
	// its WAL record cut after Cut-selected n >= 1 bytes; the history continues on the reopened image
	TornCrash bool    `json:"torn_crash,omitempty"`
	Cut       int     `json:"cut,omitempty"` // selects the cut offset inside the record (see pickCut)
	Sub       []jstep `json:"sub,omitempty"` // branch: what the reopened image engine does before it is crashed again
	// observations
	OK     []bool     `json:"impl_ok"` // one flag per model op this step expands to
	Res    [][2]int64 `json:"impl_res"`
	Images []jimage   `json:"impl_images,omitempty"`
	Err    string     `json:"impl_err,omitempty"`
}
type jcase struct {
	Kind  string  `json:"kind"`
	Steps []jstep `json:"steps"`
}

type seriesIterator struct{ keys [][]byte }
type series struct {
	name []byte
	tags models.Tags
}

func (s series) Name() []byte            { return s.name }
func (s series) Tags() models.Tags       { return s.tags }
func (s series) Deleted() bool           { return false }
func (s series) Expr() influxql.Expr     { return nil }
func (itr *seriesIterator) Close() error { return nil }
func (itr *seriesIterator) Next() (tsdb.SeriesElem, error) {
	if len(itr.keys) == 0 {
		return nil, nil
	}
	name, tags := models.ParseKeyBytes(itr.keys[0])
	itr.keys = itr.keys[1:]
	return series{name: name, tags: tags}, nil
}

type seriesIDSets []*tsdb.SeriesIDSet

func (a seriesIDSets) ForEach(f func(ids *tsdb.SeriesIDSet)) error {
	for _, v := range a {
		f(v)
	}
	return nil
}

type eng struct {
	*tsm1.Engine
	root  string
	sfile *tsdb.SeriesFile
	idx   tsdb.Index
	// snapshot goroutine control
	phase   int // 0 idle, 1 after cache snapshot, 2 after replace, 3 after clear
	done    chan error
	release chan struct{}
	// WAL record of the last write: segment path, offset of the file end before it, bytes added
	lastSeg    string
	lastBefore int64
	lastRec    int
}

// pickCut maps the selector to a cut offset 1 <= n <= rec-1 inside a record of rec >= 6 bytes:
// first byte, inside the header, exactly the header, first payload byte, all but the last byte, anywhere.
func pickCut(sel, rec int) int {
	n := 1
	switch sel % 6 {
	case 1:
		n = 4
	case 2:
		n = 5
	case 3:
		n = 6
	case 4:
		n = rec - 1
	case 5:
		n = 1 + (sel/6)%(rec-1)
	}
	if n > rec-1 {
		n = rec - 1
	}
	return n
}

// ---- hook plumbing: one parked snapshot at a time per process ----
var (
	hmu     sync.Mutex
	target  string        // park at this point next
	reached chan struct{} // closed when parked
	resume  chan struct{} // closed to resume
	seen    map[string]bool
	active  bool // only the main engine's snapshot goroutine parks
)

func hook(name string) {
	hmu.Lock()
	if !active {
		hmu.Unlock()
		return
	}
	seen[name] = true
	if name != target {
		hmu.Unlock()
		return
	}
	r, c := reached, resume
	hmu.Unlock()
	close(r)
	<-c
}

func armPark(name string) (chan struct{}, chan struct{}) {
	hmu.Lock()
	defer hmu.Unlock()
	target = name
	reached = make(chan struct{})
	resume = make(chan struct{})
	return reached, resume
}

// One series file and one tsi1 index per driver process, shared by the main engine and by
// every crash-image engine: neither is consulted by cursor reads nor part of the modelled
// crash state, and opening them dominates the cost of an Engine.Open (8 partitions each).
var (
	gsfile *tsdb.SeriesFile
	gidx   tsdb.Index
	gopt   tsdb.EngineOptions
	groot  string
)

func openShared() {
	var err error
	groot, err = os.MkdirTemp("", "verif-c02-shared-")
	if err != nil {
		panic(err)
	}
	gsfile = tsdb.NewSeriesFile(filepath.Join(groot, tsdb.SeriesFileDirectory))
	gsfile.Logger = zap.NewNop()
	if err := gsfile.Open(); err != nil {
		panic(err)
	}
	gopt = tsdb.NewEngineOptions()
	gopt.IndexVersion = tsdb.TSI1IndexName
	ids := tsdb.NewSeriesIDSet()
	gopt.SeriesIDSets = seriesIDSets([]*tsdb.SeriesIDSet{ids})
	gidx = tsdb.MustOpenIndex(1, "db0", filepath.Join(groot, "index"), ids, gsfile, gopt)
}

func closeShared() {
	gidx.Close()
	gsfile.Close()
	os.RemoveAll(groot)
}

func openEngine(root string) (*eng, error) {
	if err := os.MkdirAll(filepath.Join(root, "data"), 0o777); err != nil {
		return nil, err
	}
	e := tsm1.NewEngine(1, gidx, filepath.Join(root, "data"), filepath.Join(root, "wal"), gsfile, gopt).(*tsm1.Engine)
	e.SetEnabled(false)
	if err := e.Open(context.Background()); err != nil {
		return nil, err
	}
	x := &eng{Engine: e, root: root, sfile: gsfile, idx: gidx}
	x.ensureSchema(nil)
	return x, nil
}

func (e *eng) ensureSchema(ss []int) error {
	mf := e.MeasurementFields([]byte("m"))
	mf.CreateFieldIfNotExists("f0", influxql.Integer)
	mf.CreateFieldIfNotExists("f1", influxql.Float)
	for _, s := range ss {
		if err := e.CreateSeriesIfNotExists(seriesKey(s), []byte("m"), seriesTags(s)); err != nil {
			return err
		}
	}
	return nil
}

func (e *eng) shutdown() {
	if e.phase != 0 && e.release != nil {
		hmu.Lock()
		target = ""
		hmu.Unlock()
		close(e.release)
		<-e.done
		e.phase = 0
	}
	e.Engine.Close(false)
}

func seriesTags(s int) models.Tags { return models.NewTags(map[string]string{"s": fmt.Sprint(s)}) }
func seriesKey(s int) []byte       { return models.MakeKey([]byte("m"), seriesTags(s)) }

func (e *eng) readKey(key int, lo, hi int64, asc bool) ([][2]int64, error) {
	s, f := key/nFields, key%nFields
	itr, err := e.CreateCursorIterator(context.Background())
	if err != nil {
		return nil, err
	}
	cur, err := itr.Next(context.Background(), &cursors.CursorRequest{
		Name: []byte("m"), Tags: seriesTags(s), Field: fmt.Sprintf("f%d", f),
		Ascending: asc, StartTime: lo, EndTime: hi,
	})
	if err != nil {
		return nil, err
	}
	res := [][2]int64{}
	if cur == nil {
		return res, nil
	}
	defer cur.Close()
	switch c := cur.(type) {
	case cursors.IntegerArrayCursor:
		for {
			a := c.Next()
			if a.Len() == 0 {
				break
			}
			for i := range a.Timestamps {
				res = append(res, [2]int64{a.Timestamps[i], a.Values[i]})
			}
		}
	case cursors.FloatArrayCursor:
		for {
			a := c.Next()
			if a.Len() == 0 {
				break
			}
			for i := range a.Timestamps {
				if a.Values[i] != math.Trunc(a.Values[i]) {
					return nil, fmt.Errorf("non-integral float read back")
				}
				res = append(res, [2]int64{a.Timestamps[i], int64(a.Values[i])})
			}
		}
	default:
		return nil, fmt.Errorf("unexpected cursor type %T", cur)
	}
	return res, cur.Err()
}

// copyShard copies what the storage engine itself persists: the files directly inside the
// shard's data directory (TSM files, tombstones, tmp files, fields index) and the WAL
// directory.  The series file and the tsi1 index are not consulted by cursor reads and are
// created fresh in the image (they are C13's / C14's business; copying their pre-allocated
// segments would dominate the run time).
func copyTree(src, dst string) error {
	for _, d := range []string{"data", "wal"} {
		if err := os.MkdirAll(filepath.Join(dst, d), 0o777); err != nil {
			return err
		}
		ents, err := os.ReadDir(filepath.Join(src, d))
		if err != nil {
			return err
		}
		for _, en := range ents {
			if en.IsDir() {
				continue
			}
			if err := copyFile(filepath.Join(src, d, en.Name()), filepath.Join(dst, d, en.Name())); err != nil {
				return err
			}
		}
	}
	return nil
}

func copyFile(p, q string) error {
	in, err := os.Open(p)
	if err != nil {
		if os.IsNotExist(err) {
			return nil
		}
		return err
	}
	defer in.Close()
	out, err := os.Create(q)
	if err != nil {
		return err
	}
	defer out.Close()
	_, err = io.Copy(out, in)
	return err
}

func copyTreeAll(src, dst string) error {
	return filepath.Walk(src, func(p string, info os.FileInfo, err error) error {
		if err != nil {
			if os.IsNotExist(err) {
				return nil // a file removed while walking (snapshot goroutine is parked, so rare)
			}
			return err
		}
		rel, _ := filepath.Rel(src, p)
		q := filepath.Join(dst, rel)
		if info.IsDir() {
			return os.MkdirAll(q, 0o777)
		}
		in, err := os.Open(p)
		if err != nil {
			if os.IsNotExist(err) {
				return nil
			}
			return err
		}
		defer in.Close()
		out, err := os.Create(q)
		if err != nil {
			return err
		}
		defer out.Close()
		_, err = io.Copy(out, in)
		return err
	})
}

func walSegments(root string) []string {
	fs, _ := filepath.Glob(filepath.Join(root, "wal", "_*.wal"))
	sort.Strings(fs)
	return fs
}

// readImage opens a crash image with a fresh engine and reads every key in full.
func readImage(img string) ([][][2]int64, error) {
	x, err := openEngine(img)
	if err != nil {
		return nil, fmt.Errorf("reopen: %w", err)
	}
	defer func() { x.shutdown(); os.RemoveAll(img) }()
	var out [][][2]int64
	for k := 0; k < nSeries*nFields; k++ {
		r, err := x.readKey(k, models.MinNanoTime, models.MaxNanoTime, true)
		if err != nil {
			return nil, err
		}
		out = append(out, r)
	}
	// the recovered engine must accept further writes
	pt, _ := models.NewPoint("m", seriesTags(0), models.Fields{"f0": int64(1)}, time.Unix(0, 1))
	x.ensureSchema([]int{0})
	if err := x.WritePoints(context.Background(), []models.Point{pt}); err != nil {
		return nil, fmt.Errorf("recovered engine rejects a write: %w", err)
	}
	return out, nil
}

func (e *eng) image(torn int, segPath string, base int64) (jimage, error) {
	img, err := os.MkdirTemp("", "verif-c02-img-")
	if err != nil {
		return jimage{}, err
	}
	if err := copyTree(e.root, img); err != nil {
		return jimage{}, err
	}
	if torn >= 0 {
		rel, _ := filepath.Rel(e.root, segPath)
		if err := os.Truncate(filepath.Join(img, rel), base+int64(torn)); err != nil {
			return jimage{}, err
		}
	}
	res, err := readImage(img)
	return jimage{Torn: torn, Res: res}, err
}

// crashTo abandons the running engine and returns an engine reopened over a copy of its
// directory; torn >= 1: the record of the last write is cut to torn bytes in the copy.
func (e *eng) crashTo(st *jstep, torn int) *eng {
	img, err := os.MkdirTemp("", "verif-c02-crash-")
	if err == nil {
		err = copyTree(e.root, img)
	}
	if err == nil && torn >= 0 {
		rel, _ := filepath.Rel(e.root, e.lastSeg)
		err = os.Truncate(filepath.Join(img, rel), e.lastBefore+int64(torn))
	}
	if err != nil {
		st.Err = err.Error()
		return nil
	}
	hmu.Lock()
	active = false
	hmu.Unlock()
	e.shutdown()
	os.RemoveAll(e.root)
	x, err := openEngine(img)
	st.OK = append(st.OK, err == nil)
	if err != nil {
		st.Err = "reopen after crash: " + err.Error()
		return &eng{root: img}
	}
	hmu.Lock()
	active = true
	seen = map[string]bool{}
	hmu.Unlock()
	return x
}

// branch: a crash image that lives on.  The running engine e is only copied.
func (e *eng) branch(st *jstep) {
	for i := range st.Sub {
		st.Sub[i].OK, st.Sub[i].Err = nil, ""
	}
	img, err := os.MkdirTemp("", "verif-c02-br-")
	if err == nil {
		err = copyTree(e.root, img)
	}
	if err == nil && st.Torn {
		if e.lastSeg == "" {
			err = fmt.Errorf("torn branch without a preceding write")
		} else {
			rel, _ := filepath.Rel(e.root, e.lastSeg)
			err = os.Truncate(filepath.Join(img, rel), e.lastBefore+int64(pickCut(st.Cut, e.lastRec)))
		}
	}
	if err != nil {
		st.Err = err.Error()
		os.RemoveAll(img)
		return
	}
	x, err := openEngine(img)
	if err != nil {
		st.Err = "branch reopen: " + err.Error()
		os.RemoveAll(img)
		return
	}
	for i := range st.Sub {
		sub := &st.Sub[i]
		switch sub.Op {
		case "write", "delete", "snap":
			sub.Torn, sub.TornCrash = false, false
			x.exec(sub)
		default:
			sub.Err = "unsupported branch op " + sub.Op
		}
		if sub.Err != "" && st.Err == "" {
			st.Err = fmt.Sprintf("branch op %d (%s): %s", i, sub.Op, sub.Err)
		}
	}
	img2, err := os.MkdirTemp("", "verif-c02-br2-")
	if err == nil {
		err = copyTree(img, img2) // the second crash
	}
	x.shutdown()
	os.RemoveAll(img)
	if err != nil {
		if st.Err == "" {
			st.Err = err.Error()
		}
		os.RemoveAll(img2)
		return
	}
	res, err := readImage(img2)
	if err != nil {
		if st.Err == "" {
			st.Err = "branch second reopen: " + err.Error()
		}
		return
	}
	st.Images = []jimage{{Torn: -1, Res: res}}
}

func (e *eng) advance(next string) (parked bool, err error) {
	// release the parked snapshot goroutine and wait for the next park or completion
	r, c := armPark(next)
	close(e.release)
	e.release = c
	select {
	case <-r:
		return true, nil
	case err := <-e.done:
		return false, err
	case <-time.After(30 * time.Second):
		return false, fmt.Errorf("timeout waiting for snapshot to reach %q", next)
	}
}

func (e *eng) exec(st *jstep) (crashed *eng) {
	st.OK, st.Err, st.Res, st.Images = nil, "", nil, nil
	fail := func(err error) bool {
		if err != nil {
			st.Err = err.Error()
			return true
		}
		return false
	}
	switch st.Op {
	case "write":
		var pts []models.Point
		var ss []int
		for _, p := range st.Points {
			var fields models.Fields
			if p.Field == 0 {
				fields = models.Fields{"f0": p.V}
			} else {
				fields = models.Fields{"f1": float64(p.V)}
			}
			pt, err := models.NewPoint("m", seriesTags(p.Series), fields, time.Unix(0, p.T))
			if fail(err) {
				return
			}
			pts = append(pts, pt)
			ss = append(ss, p.Series)
		}
		if fail(e.ensureSchema(ss)) {
			return
		}
		var seg string
		var before int64
		if segs := walSegments(e.root); len(segs) > 0 {
			seg = segs[len(segs)-1]
			if fi, err := os.Stat(seg); err == nil {
				before = fi.Size()
			}
		}
		err := e.WritePoints(context.Background(), pts)
		st.OK = []bool{err == nil}
		if fail(err) {
			return
		}
		segs := walSegments(e.root)
		if len(segs) == 0 {
			st.Err = "no wal segment after write"
			return
		}
		cur := segs[len(segs)-1]
		if cur != seg {
			before = 0 // the write rolled into a new segment
		}
		fi, err := os.Stat(cur)
		if fail(err) {
			return
		}
		rec := int(fi.Size() - before)
		if rec <= 5 {
			st.Err = fmt.Sprintf("WAL record of an acknowledged write is only %d bytes (before=%d after=%d)", rec, before, fi.Size())
			return
		}
		e.lastSeg, e.lastBefore, e.lastRec = cur, before, rec
		if st.TornCrash {
			return e.crashTo(st, pickCut(st.Cut, rec))
		}
		if st.Torn {
			offs := []int{}
			if st.TornAll && rec <= 64 {
				for n := 0; n < rec; n++ {
					offs = append(offs, n)
				}
			} else {
				offs = []int{0, 1 + int(st.Lo)%4, 5, 6 + int(st.Hi)%(rec-6), rec - 1}
			}
			for _, n := range offs {
				im, err := e.image(n, cur, before)
				if fail(err) {
					return
				}
				st.Images = append(st.Images, im)
			}
		}
	case "delete":
		if e.phase >= 2 {
			st.Err = "delete while the parked snapshot commit holds Engine.mu: would block until the commit ends (not supported)"
			return
		}
		var keys [][]byte
		for _, s := range st.Series {
			keys = append(keys, seriesKey(s))
		}
		err := e.DeleteSeriesRange(context.Background(), &seriesIterator{keys: keys}, st.Lo, st.Hi)
		st.OK = []bool{err == nil}
		fail(err)
	case "compact":
		var paths []string
		for _, f := range e.FileStore.Files() {
			paths = append(paths, f.Path())
		}
		sort.Strings(paths)
		if st.N < 1 || st.I+st.N > len(paths) {
			st.OK = []bool{false}
			return
		}
		group := paths[st.I : st.I+st.N]
		var out []string
		var err error
		if st.Fast {
			out, err = e.Compactor.CompactFast(group, zap.NewNop(), tsdb.DefaultMaxPointsPerBlock)
		} else {
			out, err = e.Compactor.CompactFull(group, zap.NewNop(), 3)
		}
		if err == nil {
			err = e.FileStore.Replace(group, out)
		}
		st.OK = []bool{err == nil}
		fail(err)
	case "read":
		r, err := e.readKey(st.Key, st.Lo, st.Hi, st.Asc)
		st.Res = r
		fail(err)
	case "image":
		im, err := e.image(-1, "", 0)
		if fail(err) {
			return
		}
		st.Images = []jimage{im}
	case "crash":
		return e.crashTo(st, -1)
	case "branch":
		e.branch(st)
	case "snapbegin": // -> DSnapBegin
		if e.phase != 0 {
			st.OK = []bool{false}
			return
		}
		hmu.Lock()
		seen = map[string]bool{}
		hmu.Unlock()
		r, c := armPark("tsm1.snapshot:after-cache-snapshot")
		e.release = c
		e.done = make(chan error, 1)
		go func(d chan error) { d <- e.WriteSnapshot() }(e.done)
		select {
		case <-r:
			e.phase = 1
			st.OK = []bool{true}
		case err := <-e.done:
			st.OK = []bool{false}
			if err == nil {
				st.Err = "snapshot finished without reaching the hook point"
			} else {
				st.Err = err.Error()
			}
		case <-time.After(30 * time.Second):
			st.Err = "timeout waiting for snapshot hook"
		}
	case "commitreplace": // -> DCommitReplace
		if e.phase != 1 {
			st.OK = []bool{false}
			return
		}
		parked, err := e.advance("tsm1.snapshot:after-replace")
		if parked {
			e.phase = 2
			st.OK = []bool{true}
		} else { // empty snapshot: returned before writing anything
			e.phase = 0
			st.OK = []bool{err == nil}
			fail(err)
		}
	case "commitclear": // -> DCommitClear
		if e.phase != 2 {
			st.OK = []bool{false}
			return
		}
		parked, err := e.advance("tsm1.snapshot:after-clear")
		if parked {
			e.phase = 3
			st.OK = []bool{true}
		} else {
			e.phase = 0
			st.OK = []bool{false}
			if err == nil {
				err = fmt.Errorf("snapshot finished before after-clear")
			}
			fail(err)
		}
	case "walremove": // -> DCommitWalRemove
		if e.phase != 3 {
			st.OK = []bool{false}
			return
		}
		_, err := e.advance("")
		e.phase = 0
		st.OK = []bool{err == nil}
		fail(err)
	case "snapfail": // -> DSnapFail
		if e.phase != 1 {
			st.OK = []bool{false}
			return
		}
		e.Compactor.DisableSnapshots()
		_, err := e.advance("")
		e.Compactor.EnableSnapshots()
		e.phase = 0
		if err == nil {
			// empty snapshot: it returned successfully before trying to write; the model's
			// DSnapFail at phase 1 with an empty snapshot store has the same effect
			st.Err = ""
		}
		st.OK = []bool{true}
	case "snap": // atomic: begin, replace, clear, walremove
		if e.phase != 0 {
			st.OK = []bool{false, false, false, false}
			return
		}
		hmu.Lock()
		seen = map[string]bool{}
		target = ""
		hmu.Unlock()
		err := e.WriteSnapshot()
		hmu.Lock()
		nonEmpty := seen["tsm1.snapshot:after-replace"]
		hmu.Unlock()
		st.OK = []bool{err == nil, err == nil, nonEmpty && err == nil, nonEmpty && err == nil}
		fail(err)
	}
	return nil
}

// ---- Gallina ----
func points(ps []jpoint) string {
	xs := make([]string, len(ps))
	for i, p := range ps {
		xs[i] = fmt.Sprintf("(%s, %s, %s)", vh.N(uint64(p.Series*nFields+p.Field)), vh.Z(p.T), vh.Z(p.V))
	}
	return vh.List(xs)
}
func zz(r [][2]int64) string {
	rs := make([]string, len(r))
	for j, x := range r {
		rs[j] = vh.Pair(vh.Z(x[0]), vh.Z(x[1]))
	}
	return vh.List(rs)
}
func zzs(rs [][][2]int64) string {
	xs := make([]string, len(rs))
	for i, r := range rs {
		xs[i] = zz(r)
	}
	return vh.List(xs)
}
func okAt(st *jstep, i int) string {
	if i < len(st.OK) {
		return vh.Bool(st.OK[i])
	}
	return "false"
}

// stepOps: the model operations a step expands to, each with the observed success flag.
func stepOps(st *jstep) [][2]string {
	var xs [][2]string
	op := func(o string, i int) { xs = append(xs, [2]string{o, okAt(st, i)}) }
	switch st.Op {
	case "write":
		if st.TornCrash {
			// the in-flight write is not part of the history; OK = [write returned, reopen succeeded]
			op("DCrashTorn", 1)
		} else {
			op("DWrite "+points(st.Points), 0)
		}
	case "delete":
		var ks []string
		for _, s := range st.Series {
			for f := 0; f < nFields; f++ {
				ks = append(ks, vh.N(uint64(s*nFields+f)))
			}
		}
		op(fmt.Sprintf("DDelete %s %s %s", vh.List(ks), vh.Z(st.Lo), vh.Z(st.Hi)), 0)
	case "compact":
		op(fmt.Sprintf("DCompact %s %s", vh.Nat(st.I), vh.Nat(st.N)), 0)
	case "crash":
		op("DCrash", 0)
	case "snapbegin":
		op("DSnapBegin", 0)
	case "commitreplace":
		op("DCommitReplace", 0)
	case "commitclear":
		op("DCommitClear", 0)
	case "walremove":
		op("DCommitWalRemove", 0)
	case "snapfail":
		op("DSnapFail", 0)
	case "snap":
		op("DSnapBegin", 0)
		op("DCommitReplace", 1)
		// the two halves below are not observable for an atomic WriteSnapshot (see DOpAny in Model/C02.v)
		xs = append(xs, [2]string{"DCommitClear", "any"}, [2]string{"DCommitWalRemove", "any"})
	}
	return xs
}

func caseTerm(c *jcase) string {
	var xs []string
	for i := range c.Steps {
		st := &c.Steps[i]
		for _, o := range stepOps(st) {
			if o[1] == "any" {
				xs = append(xs, fmt.Sprintf("DOpAny (%s)", o[0]))
			} else {
				xs = append(xs, fmt.Sprintf("DOp (%s) %s", o[0], o[1]))
			}
		}
		switch st.Op {
		case "write":
			if len(st.Images) > 0 && !st.TornCrash {
				ims := make([]string, len(st.Images))
				for j, im := range st.Images {
					ims[j] = zzs(im.Res)
				}
				xs = append(xs, "DTorn "+vh.List(ims))
			}
		case "read":
			xs = append(xs, fmt.Sprintf("DRead %s %s %s %s %s", vh.N(uint64(st.Key)), vh.Z(st.Lo), vh.Z(st.Hi), vh.Bool(st.Asc), zz(st.Res)))
		case "image":
			for _, im := range st.Images {
				xs = append(xs, "DImage "+zzs(im.Res))
			}
		case "branch":
			if len(st.Images) == 1 {
				var ops []string
				for j := range st.Sub {
					for _, o := range stepOps(&st.Sub[j]) {
						if o[1] == "any" {
							ops = append(ops, vh.Pair(o[0], "None"))
						} else {
							ops = append(ops, vh.Pair(o[0], "(Some "+o[1]+")"))
						}
					}
				}
				xs = append(xs, fmt.Sprintf("DBranch %s %s %s", vh.Bool(st.Torn), vh.List(ops), zzs(st.Images[0].Res)))
			}
		}
	}
	return vh.List(xs)
}

// holeSt recognises, from the inputs only, the history shape of the REPAIRED finding
// torn-wal-tail-hole-loses-later-writes (before repo commit dc4e263207 WAL.Open kept the
// pre-truncation offset and appends after a torn-tail restart sat behind a hole of zero bytes):
// hole: a torn-tail restart happened and the segment was not closed since; ghost: operations
// were acknowledged since then and are not yet committed through WAL.Remove; sticky: one of them
// was a delete; shape: a crash observation (crash, image, torn images, branch) was taken while
// ghost.  Used to steer generation (kind=torn aims at the shape) and for the distribution
// counts only — nothing is tolerated for this shape any more.
type holeSt struct{ hole, ghost, sticky, shape bool }

func (h *holeSt) apply(st *jstep) {
	crashObs := func() {
		if h.ghost {
			h.shape = true
		}
	}
	switch st.Op {
	case "write":
		if st.TornCrash {
			crashObs()
			h.hole, h.ghost = true, h.sticky
			return
		}
		if st.Torn {
			crashObs() // images of the state before this write
		}
		if h.hole {
			h.ghost = true
		}
	case "delete":
		if h.hole {
			h.ghost, h.sticky = true, true
		}
	case "image":
		crashObs()
	case "crash":
		crashObs()
		h.hole, h.ghost = h.ghost, h.sticky
	case "branch":
		crashObs()
		b := holeSt{hole: st.Torn || h.ghost}
		for i := range st.Sub {
			b.apply(&st.Sub[i])
		}
		b.apply(&jstep{Op: "crash"})
		if b.shape {
			h.shape = true
		}
	case "snapbegin":
		h.hole = false
	case "snap":
		h.hole, h.ghost = false, h.sticky
	case "walremove":
		h.ghost = h.sticky
	}
}


// contentSim: a coarse input-only simulation of where the points of each series-field key live (hot cache
// store / pending snapshot store / TSM files), used ONLY to recognise the shape of the known finding
// delete-during-pending-snapshot-drops-measurement-fields: a delete issued while a snapshot store is pending,
// naming every series written so far, after which none of those series has a point left in the hot store or in
// a TSM file while the pending snapshot store still holds points. (The engine then drops the series from the
// index and the measurement from the field set, because its reconciliation looks at the hot store and the
// files only; every later read of the measurement returns nothing until the fields are written again.)
type contentSim struct {
	hot, pend, tsm map[int]map[int64]bool
	written        map[int]bool
}

func newContentSim() *contentSim {
	return &contentSim{hot: map[int]map[int64]bool{}, pend: map[int]map[int64]bool{}, tsm: map[int]map[int64]bool{}, written: map[int]bool{}}
}
func simCount(m map[int]map[int64]bool) int {
	n := 0
	for _, v := range m {
		n += len(v)
	}
	return n
}
func simMove(dst, src map[int]map[int64]bool) {
	for k, v := range src {
		if dst[k] == nil {
			dst[k] = map[int64]bool{}
		}
		for t := range v {
			dst[k][t] = true
		}
		delete(src, k)
	}
}
func (s *contentSim) write(series, field int, t int64) {
	k := series*nFields + field
	if s.hot[k] == nil {
		s.hot[k] = map[int64]bool{}
	}
	s.hot[k][t] = true
	s.written[series] = true
}
func (s *contentSim) begin() { // Cache.Snapshot: a non-empty pending store is returned as it is
	if simCount(s.pend) == 0 {
		simMove(s.pend, s.hot)
	}
}
func (s *contentSim) commit() { simMove(s.tsm, s.pend) }
func (s *contentSim) restart() { simMove(s.hot, s.pend) }

// del applies a series range delete to the hot store and the files and reports the shape
func (s *contentSim) del(series []int, lo, hi int64) bool {
	named := map[int]bool{}
	for _, x := range series {
		named[x] = true
	}
	for _, m := range []map[int]map[int64]bool{s.hot, s.tsm} {
		for k, v := range m {
			if !named[k/nFields] {
				continue
			}
			for t := range v {
				if lo <= t && t <= hi {
					delete(v, t)
				}
			}
		}
	}
	if simCount(s.pend) == 0 {
		return false
	}
	for x := range s.written {
		if !named[x] {
			return false
		}
	}
	for _, m := range []map[int]map[int64]bool{s.hot, s.tsm} {
		for k, v := range m {
			if named[k/nFields] && len(v) > 0 {
				return false
			}
		}
	}
	return true
}

func overDeleteShape(c *jcase) bool {
	sim := newContentSim()
	var walk func(steps []jstep) bool
	walk = func(steps []jstep) bool {
		for _, st := range steps {
			switch st.Op {
			case "write":
				if st.TornCrash {
					sim.restart()
					continue
				}
				for _, p := range st.Points {
					sim.write(p.Series, p.Field, p.T)
				}
			case "snap":
				sim.begin()
				sim.commit()
			case "snapbegin":
				sim.begin()
			case "commitreplace":
				// the points are in the new TSM file and still in the snapshot store until commitclear
				for k, v := range sim.pend {
					if sim.tsm[k] == nil {
						sim.tsm[k] = map[int64]bool{}
					}
					for t := range v {
						sim.tsm[k][t] = true
					}
				}
			case "commitclear":
				sim.pend = map[int]map[int64]bool{}
			case "crash":
				sim.restart()
			case "delete":
				if sim.del(st.Series, st.Lo, st.Hi) {
					return true
				}
			}
		}
		return false
	}
	return walk(c.Steps)
}

func tornShape(c *jcase) bool {
	var h holeSt
	for i := range c.Steps {
		h.apply(&c.Steps[i])
	}
	return h.shape
}

func runCase(w *vh.W, c *jcase) {
	root, err := os.MkdirTemp("", "verif-c02-")
	if err != nil {
		panic(err)
	}
	hmu.Lock()
	active = true
	seen = map[string]bool{}
	target = ""
	hmu.Unlock()
	e, err := openEngine(root)
	if err != nil {
		fmt.Fprintln(os.Stderr, "open engine:", err)
		os.Exit(3)
	}
	var failure string
	for i := range c.Steps {
		st := &c.Steps[i]
		var next *eng
		if p := vh.Guard(func() { next = e.exec(st) }); p != "" {
			failure = fmt.Sprintf("panic at step %d (%s): %s", i, st.Op, p)
			break
		}
		if next != nil {
			e = next
			if e.Engine == nil {
				failure = fmt.Sprintf("step %d: %s", i, st.Err)
				break
			}
		}
		if st.Err != "" && failure == "" {
			failure = fmt.Sprintf("step %d (%s): %s", i, st.Op, st.Err)
		}
	}
	hmu.Lock()
	active = false
	hmu.Unlock()
	if e.Engine != nil {
		e.shutdown()
	}
	os.RemoveAll(e.root)
	sig := map[string]string{"f1": "delete-during-pending-snapshot", "f15": "snapshot-retry-drops-wal-of-later-writes"}[c.Kind]
	if (c.Kind == "f1" || c.Kind == "f15") && overDeleteShape(c) {
		sig = "delete-during-pending-snapshot-drops-measurement-fields"
	}
	// the torn-tail-hole shape (finding repaired by repo commit dc4e263207) is still generated and
	// counted, but no longer tolerated: such a case must satisfy the oracle like any other
	w.Count("torn_shape", fmt.Sprint(tornShape(c)))
	writes, images := 0, 0
	for _, st := range c.Steps {
		w.Count("op", st.Op)
		if st.Op == "write" {
			writes++
			if st.TornCrash {
				w.Count("op", "torn_crash")
				images++
			}
		}
		if st.Op == "branch" {
			w.Count("branch", fmt.Sprintf("torn=%v,ops=%d", st.Torn, len(st.Sub)))
		}
		images += len(st.Images)
	}
	w.Count("kind", c.Kind)
	w.Count("images", fmt.Sprint(images/4*4))
	idx := w.Add(caseTerm(c), c, writes >= 2 && images >= 1, sig)
	if failure != "" {
		w.Fail(idx, failure, "")
	}
}

func gen(w *vh.W) jcase {
	r := w.Rng
	kind := "safe"
	switch x := r.IntN(10); {
	case x == 0:
		kind = "f1"
	case x == 1:
		kind = "f15"
	case x == 2 || x == 3:
		kind = "torn" // aims at the shape of the repaired torn-tail hole finding; safe avoids it
	}
	c := jcase{Kind: kind}
	var hs holeSt
	n := 8 + r.IntN(14)
	phase := 0
	failedPending := false // a failed snapshot's store is still pending (f15/f1 kinds only)
	rt := func() int64 {
		switch r.IntN(14) {
		case 0:
			return models.MinNanoTime + int64(r.IntN(2))
		case 1:
			return models.MaxNanoTime - int64(r.IntN(2))
		}
		return int64(r.IntN(8))
	}
	// kind=safe stays off the shape of the repaired torn-tail hole finding (kind=torn covers it, with
	// the same oracle); returns false if refused
	add := func(st jstep) bool {
		t := hs
		t.apply(&st)
		if t.shape && kind != "torn" {
			return false
		}
		hs = t
		c.Steps = append(c.Steps, st)
		return true
	}
	holes := kind == "safe" || kind == "torn"
	wpoints := func() []jpoint {
		var ps []jpoint
		for i, k := 0, 1+r.IntN(3); i < k; i++ {
			ps = append(ps, jpoint{Series: r.IntN(nSeries), Field: r.IntN(nFields), T: rt(), V: int64(r.IntN(1000))})
		}
		return ps
	}
	tornBudget, liveBudget := 2, 3
	attempts := 0
	for len(c.Steps) < n && attempts < 400 {
		attempts++
		x := r.IntN(100)
		switch {
		case x < 34:
			st := jstep{Op: "write", Points: wpoints()}
			if holes && liveBudget > 0 && r.IntN(7) == 0 {
				// in-flight write torn by a crash; the history continues on the reopened image
				st.TornCrash, st.Cut = true, r.IntN(600)
				if add(st) {
					liveBudget--
					phase = 0
					failedPending = false
					if kind == "torn" && r.IntN(2) == 0 {
						add(jstep{Op: "write", Points: wpoints()})
					}
				}
				continue
			}
			if tornBudget > 0 && r.IntN(4) == 0 {
				st.Torn = true
				st.TornAll = r.IntN(6) == 0
				st.Lo, st.Hi = int64(r.IntN(1000)), int64(r.IntN(1000))
				tornBudget--
			}
			add(st)
		case x < 44:
			// deletes only while no snapshot commit is in flight (safe); f1: also in flight
			if phase != 0 && kind != "f1" {
				continue
			}
			if phase >= 2 {
				// parked after Replace / ClearSnapshot the commit holds Engine.mu.RLock and a delete
				// (disableLevelCompactions: mu.Lock) simply waits for it: not a state to observe
				continue
			}
			if failedPending && kind != "f1" {
				continue
			}
			lo, hi := rt(), rt()
			if r.IntN(4) != 0 && lo > hi {
				lo, hi = hi, lo
			}
			ss := []int{r.IntN(nSeries)}
			if r.IntN(3) == 0 {
				ss = []int{0, 1}
			}
			add(jstep{Op: "delete", Series: ss, Lo: lo, Hi: hi})
			if r.IntN(3) == 0 {
				// a second delete on (usually) the other series whose range shares exactly one bound with
				// the first: consecutive tombstones of one TSM file (batched on replay when the file is reopened)
				lo2, hi2 := lo, hi
				if r.IntN(2) == 0 {
					hi2 = rt()
				} else {
					lo2 = rt()
				}
				if lo2 > hi2 && r.IntN(4) != 0 {
					lo2, hi2 = hi2, lo2
				}
				s2 := 1 - ss[0]
				if r.IntN(4) == 0 {
					s2 = ss[0]
				}
				add(jstep{Op: "delete", Series: []int{s2}, Lo: lo2, Hi: hi2})
			}
		case x < 58:
			switch phase {
			case 0:
				if r.IntN(2) == 0 {
					add(jstep{Op: "snap"})
					failedPending = false
				} else {
					add(jstep{Op: "snapbegin"})
					phase = 1
				}
			case 1:
				if (kind == "f15" || kind == "f1") && r.IntN(3) == 0 {
					add(jstep{Op: "snapfail"})
					phase = 0
					failedPending = true
				} else {
					add(jstep{Op: "commitreplace"})
					phase = 2
				}
			case 2:
				add(jstep{Op: "commitclear"})
				phase = 3
			case 3:
				add(jstep{Op: "walremove"})
				phase = 0
				failedPending = false
			}
		case x < 64:
			if phase == 0 { // compactions placed between commits only (the driver lists files)
				add(jstep{Op: "compact", I: r.IntN(3), N: 1 + r.IntN(3), Fast: r.IntN(2) == 0})
			}
		case x < 78:
			add(jstep{Op: "image"})
		case x < 80:
			// an image that lives on: plain, or with the previous write's record torn
			if !holes || liveBudget == 0 {
				continue
			}
			st := jstep{Op: "branch", Cut: r.IntN(600)}
			if len(c.Steps) > 0 && c.Steps[len(c.Steps)-1].Op == "write" && !c.Steps[len(c.Steps)-1].TornCrash {
				st.Torn = r.IntN(3) != 0
			}
			for i, k := 0, r.IntN(4); i < k; i++ {
				switch y := r.IntN(10); {
				case y < 6:
					st.Sub = append(st.Sub, jstep{Op: "write", Points: wpoints()})
				case y < 8:
					st.Sub = append(st.Sub, jstep{Op: "snap"})
				default:
					lo, hi := rt(), rt()
					if lo > hi {
						lo, hi = hi, lo
					}
					st.Sub = append(st.Sub, jstep{Op: "delete", Series: []int{r.IntN(nSeries)}, Lo: lo, Hi: hi})
				}
			}
			if add(st) {
				liveBudget--
			}
		case x < 86:
			if add(jstep{Op: "crash"}) {
				phase = 0
				failedPending = false
			}
		default:
			lo, hi := int64(r.IntN(10))-1, int64(r.IntN(10))-1
			if r.IntN(3) == 0 {
				lo, hi = models.MinNanoTime, models.MaxNanoTime
			}
			add(jstep{Op: "read", Key: r.IntN(nSeries * nFields), Lo: lo, Hi: hi, Asc: r.IntN(2) == 0})
		}
	}
	add(jstep{Op: "image"})
	return c
}

func corpus() []jcase {
	wr := func(ps ...jpoint) jstep { return jstep{Op: "write", Points: ps} }
	wt := func(ps ...jpoint) jstep { return jstep{Op: "write", Points: ps, Torn: true, TornAll: true} }
	img := jstep{Op: "image"}
	wc := func(cut int, ps ...jpoint) jstep { return jstep{Op: "write", Points: ps, TornCrash: true, Cut: cut} }
	br := func(torn bool, cut int, sub ...jstep) jstep { return jstep{Op: "branch", Torn: torn, Cut: cut, Sub: sub} }
	return []jcase{
		{Kind: "safe", Steps: []jstep{wt(jpoint{0, 0, 1, 10}), img, {Op: "snapbegin"}, wr(jpoint{0, 0, 1, 11}, jpoint{1, 0, 3, 5}), img, {Op: "commitreplace"}, img, {Op: "commitclear"}, img, {Op: "walremove"}, img,
			{Op: "crash"}, {Op: "delete", Series: []int{1}, Lo: 0, Hi: 9}, wt(jpoint{0, 0, 2, 12}), {Op: "crash"}, img}},
		// F15: failed snapshot, later write, retried snapshot removes the later write's WAL segment
		{Kind: "f15", Steps: []jstep{wr(jpoint{0, 0, 1, 10}), {Op: "snapbegin"}, {Op: "snapfail"}, wr(jpoint{0, 0, 2, 20}), {Op: "snap"}, img}},
		// F1 across restart: delete inside a pending snapshot is lost after a crash
		{Kind: "f1", Steps: []jstep{wr(jpoint{0, 0, 5, 7}), {Op: "snapbegin"}, {Op: "delete", Series: []int{0}, Lo: 0, Hi: 10}, {Op: "commitreplace"}, {Op: "commitclear"}, {Op: "walremove"}, img}},
		// shape of the repaired torn-tail hole (findings.d/demos/C02-baseline): write A; write B in flight, torn,
		// crash; write C acknowledged; crash -> C must be there; D after the next restart as well.
		{Kind: "torn", Steps: []jstep{wr(jpoint{0, 0, 1, 10}), wc(1, jpoint{0, 0, 2, 20}), img, wr(jpoint{0, 0, 3, 30}), img, {Op: "crash"}, img,
			wr(jpoint{1, 1, 4, 40}), {Op: "crash"}, img}},
		// the same as side branches of one running engine, cut at the first byte / inside the header / at the
		// header / in the payload / before the last byte; plain images that live on are fine
		{Kind: "torn", Steps: []jstep{wr(jpoint{0, 0, 1, 10}), wr(jpoint{0, 0, 2, 20}),
			br(true, 0, wr(jpoint{0, 0, 3, 30})), br(true, 1, wr(jpoint{0, 0, 3, 30})), br(true, 2, wr(jpoint{0, 0, 3, 30})),
			br(true, 3, wr(jpoint{0, 0, 3, 30})), br(true, 4, wr(jpoint{0, 0, 3, 30}), wr(jpoint{1, 0, 3, 31})),
			br(false, 0, wr(jpoint{0, 0, 3, 30})), br(true, 0), img}},
		// an acknowledged delete after a torn-tail restart must survive the second restart
		{Kind: "torn", Steps: []jstep{wr(jpoint{0, 0, 1, 10}), wc(4, jpoint{0, 0, 2, 20}), {Op: "delete", Series: []int{0}, Lo: 0, Hi: 5}, img}},
		// torn tail in a fresh segment (nothing before it), segment closed by a snapshot before the crash
		{Kind: "torn", Steps: []jstep{wc(2, jpoint{0, 0, 1, 10}), wr(jpoint{0, 0, 2, 20}), img, {Op: "snap"}, img, wr(jpoint{0, 0, 3, 30}), img, {Op: "crash"}, img}},
		// two acknowledged deletes on different series of ONE TSM file whose ranges share one bound (min), then
		// restart: the tombstones are replayed in batches when the file is reopened
		{Kind: "safe", Steps: []jstep{wr(jpoint{0, 0, 1, 10}, jpoint{0, 0, 2, 11}, jpoint{0, 0, 3, 12}), wr(jpoint{0, 0, 4, 13}, jpoint{1, 0, 1, 20}, jpoint{1, 0, 2, 21}), wr(jpoint{1, 0, 3, 22}, jpoint{1, 0, 4, 23}, jpoint{1, 1, 4, 24}),
			{Op: "snap"}, {Op: "delete", Series: []int{0}, Lo: models.MinNanoTime, Hi: 2}, {Op: "delete", Series: []int{1}, Lo: models.MinNanoTime, Hi: 4}, img, {Op: "crash"}, img,
			wr(jpoint{0, 0, 5, 14}, jpoint{1, 0, 5, 25}), {Op: "snap"}, {Op: "delete", Series: []int{1}, Lo: 5, Hi: 7}, {Op: "delete", Series: []int{0}, Lo: 3, Hi: 7}, img, {Op: "crash"}, img}},
		// torn crashes in a row, a torn crash followed by a plain crash, operations after a torn-tail
		// restart committed by a snapshot, images that live on
		{Kind: "safe", Steps: []jstep{wr(jpoint{0, 0, 1, 10}), wc(1, jpoint{0, 0, 2, 20}), img, wc(3, jpoint{0, 0, 2, 21}), img, {Op: "crash"}, wr(jpoint{0, 0, 3, 30}), img,
			wc(5, jpoint{1, 0, 1, 1}), wr(jpoint{0, 0, 4, 40}), wr(jpoint{1, 1, 4, 41}), {Op: "snapbegin"}, wr(jpoint{0, 1, 5, 50}), {Op: "commitreplace"}, {Op: "commitclear"}, {Op: "walremove"}, img, wr(jpoint{1, 1, 6, 61}),
			br(true, 5, wr(jpoint{0, 0, 6, 60}), jstep{Op: "snap"}, wr(jpoint{0, 0, 7, 70})), br(false, 0, wr(jpoint{0, 0, 6, 60}), jstep{Op: "delete", Series: []int{0}, Lo: 0, Hi: 3}),
			{Op: "crash"}, img}},
	}
}

func main() {
	verifhook.Set(hook)
	openShared()
	defer closeShared()
	w := vh.New("C02", "From Verif Require Import Base.Prelude Model.C01 Model.C02.", "dcase", "Model.C02.check")
	w.Rule = "random histories (8-22 steps) on a real tsm1.Engine over 2 series x 2 fields x timestamps {0..7, MinNanoTime(+1), MaxNanoTime(-1)}: writes, series range deletes, atomic snapshots, snapshots parked at the hook points after Cache.Snapshot / after Replace / after ClearSnapshot / before completion, failed snapshots (f15/f1 kinds only), CompactFull/Fast+Replace, range reads, crash IMAGES (directory copy reopened by a second engine, all keys read, a write accepted) at any point incl. between commit sub-steps, TORN images cutting the last WAL record at every byte offset (1 in 6 torn writes, records <= 64 bytes) or at 5 offsets (0, inside the header, 5, inside the payload, last byte), and real crash+continue. Images that LIVE ON: (i) torn_crash = an in-flight write whose WAL record is cut after n>=1 bytes (first byte / inside the header / exactly the header / first payload byte / all but the last byte / anywhere) and whose image becomes the running engine (DCrashTorn; up to 3 per case together with (ii)); (ii) branch = a plain image, or one with the previous write's record torn, is reopened by a second engine that performs 0-3 further acknowledged writes / deletes / atomic snapshots, is crashed again (second directory copy) and a third engine reads every key (DBranch). kind=safe and kind=torn: deletes/snapshot starts only while no commit is in flight (the proved theorem's hypothesis); torn additionally aims at the shape of the repaired torn-tail-hole defect (a crash observation while operations acknowledged after a torn-tail restart are not yet committed through WAL.Remove; recognised from the steps by holeSt, counted as torn_shape, NOT tolerated); kind=f1 / f15: the two known-finding shapes. Non-trivial: >=2 writes and >=1 crash image."
	var rc jcase
	if w.ReplayCase(&rc) {
		runCase(w, &rc)
		w.Finish()
		closeShared()
		return
	}
	if os.Getenv("VERIF_PROC") == "" || os.Getenv("VERIF_PROC") == "0" {
		for _, c := range corpus() {
			c := c
			runCase(w, &c)
		}
	}
	for w.Len() < w.N {
		c := gen(w)
		runCase(w, &c)
	}
	w.Finish()
}
