(** C36 — Index and ID-set data structures behave like their abstract models.
    Property theorems only.  Models: Model/C36_{rhh,bloom,radix,idset}.v. *)
From Verif Require Import Base.Prelude Model.C36.
From Verif Require Import Proofs.C36_bloom Proofs.C36_idset Proofs.C36_rhh Proofs.C36_radix.

(** ** rhh: the robin-hood hash map refines the abstract association map — for ALL histories of
    Put / Get / Grow(any size) / Reset, ANY keys (the empty key included, since insert() only
    matches occupied slots), any initial capacity, any load factor <= 100, any hash function
    that never returns 0 (rhh.HashKey), including every growth and every displacement chain;
    the history has fewer than 2^63 operations (beyond a capacity of 2^63 the model's pow2
    stops doubling; the real pow2 panics beyond 2^62).
    [amap_oracle [] ops obs = true]: every value a Get returned during the history and Len()
    after every operation are those of the abstract map; at the end every Get is the abstract
    lookup and Len is the abstract size. *)
Theorem C36_rhh_refines_map :
  forall hashf c lf ops m obs,
    hash_ok hashf -> (lf <= 100)%N -> ops_bounded ops ->
    h_run hashf (h_new c lf) ops = Some (m, obs) ->
    amap_oracle [] ops obs = true
    /\ (forall k, h_get hashf m k = match amap_get k (amap_final ops) with Some v => v | None => 0%N end)
    /\ h_n m = Z.of_nat (length (amap_final ops)).
Proof. exact rhh_refines_map. Qed.
Print Assumptions C36_rhh_refines_map.

(** no history (within the hypotheses) makes insert or Grow spin: the fuel of the model's
    unbounded loops always suffices *)
Theorem C36_rhh_operations_terminate :
  forall hashf c lf ops,
    hash_ok hashf -> (lf <= 100)%N -> ops_bounded ops ->
    exists m obs, h_run hashf (h_new c lf) ops = Some (m, obs).
Proof. exact rhh_total. Qed.
Print Assumptions C36_rhh_operations_terminate.

(** Keys() is the sorted domain of the abstract map (values non-nil: Keys skips nil values) *)
Theorem C36_rhh_keys_sorted_domain :
  forall hashf c lf ops m obs,
    hash_ok hashf -> (lf <= 100)%N -> ops_bounded ops ->
    (forall k v, In (HPut k v) ops -> v <> 0%N) ->
    h_run hashf (h_new c lf) ops = Some (m, obs) ->
    h_keys m = bytes_sort (map fst (amap_final ops)).
Proof. exact rhh_keys_sorted_domain. Qed.
Print Assumptions C36_rhh_keys_sorted_domain.

(** the fuel of the lookup loop is irrelevant: [index] always exits within capacity+1 probes *)
Theorem C36_rhh_index_fuel_irrelevant :
  forall cap t pos h k fuel, (0 < cap)%N -> (S (N.to_nat cap) <= fuel)%nat ->
    index_loop fuel cap t pos 0 h k = index_loop (S (N.to_nat cap)) cap t pos 0 h k.
Proof. exact index_fuel_irrelevant. Qed.
Print Assumptions C36_rhh_index_fuel_irrelevant.

(** ** radix: the tree refines the abstract SORTED map — for ALL histories of Insert
    (insert-if-absent) / Get / DeletePrefix / Minimum / Maximum: the pre-order walk IS the
    abstract sorted association list (so iteration is in sorted key order and a prefix delete
    removes exactly the keys with that prefix), Get is its lookup, Len its size. *)
Theorem C36_radix_refines_sorted_map :
  forall ops t obs, r_run r_new ops = (t, obs) ->
    let a := fold_left smap_step ops [] in
    walk (r_root t) = a
    /\ (forall k, r_get t k = smap_get k a)
    /\ r_size t = Z.of_nat (length a)
    /\ keys_sorted a.
Proof. exact radix_refines_sorted_map. Qed.
Print Assumptions C36_radix_refines_sorted_map.

(** every returned value — Insert's (value, inserted), Get's (value, found), DeletePrefix's count
    (= number of keys with the prefix), Len after each op, Minimum/Maximum = first/last binding —
    equals the abstract sorted map's answer, for ALL histories (DeletePrefix unlinks the node it
    empties, so no dead node exists for Minimum/Maximum to walk into). *)
Theorem C36_radix_observations :
  forall ops t obs, r_run r_new ops = (t, obs) -> smap_oracle [] ops obs = true.
Proof. exact radix_obs_oracle. Qed.
Print Assumptions C36_radix_observations.

(** the structural reason: every non-root node is a leaf or has at least two edges, always *)
Theorem C36_radix_no_dead_node :
  forall ops t obs, r_run r_new ops = (t, obs) -> nde (r_edges (r_root t)).
Proof. exact radix_no_dead_node. Qed.
Print Assumptions C36_radix_no_dead_node.

(** ** bloom filter: never reports a present key as absent — for ALL histories of
    Insert / Contains / Merge (compatible or rejected) / Clone, all m, all k, any hash. *)
Theorem C36_bloom_no_false_negative :
  forall (bhash : bytes -> N * N) m k ops v,
    In v (present_after m k [] ops) ->
    f_contains bhash (fst (f_run bhash (f_new m k) ops)) v = true.
Proof. exact bloom_no_false_negative. Qed.
Print Assumptions C36_bloom_no_false_negative.

(** every Contains answered DURING any history passes the oracle the correspondence check
    applies to the real filter (no false negative; Merge accepted iff same rounded m and k;
    an empty filter with k > 0 contains nothing) *)
Theorem C36_bloom_history_oracle :
  forall (bhash : bytes -> N * N) m k ops,
    bloom_oracle m k [] ops (snd (f_run bhash (f_new m k) ops)) = true.
Proof. exact bloom_history_no_false_negative. Qed.
Print Assumptions C36_bloom_history_oracle.

(** ** SeriesIDSet (specification level; roaring is external and only tied by execution).
    The sorted-list interpreter of Add/AddMany/Remove/Contains/Cardinality/Merge/MergeInPlace/
    And/AndNot/Diff/Intersects/Equals/Clone/round-trip/Clear/Slice/ForEach returns, for every
    history, exactly what the bag-based set specification returns (ids not truncated). *)
Theorem C36_idset_ops_are_set_operations :
  forall ops, s_run idf regs0 ops = (map canon (fst (o_run regs0 ops)), snd (o_run regs0 ops)).
Proof. exact idset_model_meets_spec. Qed.
Print Assumptions C36_idset_ops_are_set_operations.

(** Slice/ForEach enumerate ascending without repetition, whatever the truncation. *)
Theorem C36_idset_enumeration_ascending :
  forall tr ops i, inc (rget (fst (s_run tr regs0 ops)) i).
Proof. exact idset_registers_ascending. Qed.
Print Assumptions C36_idset_enumeration_ascending.

(** union / intersection / difference are the set operations (membership), and the laws hold
    as equalities of representations *)
Theorem C36_idset_membership_laws :
  forall a b y, inc a -> inc b ->
    (In y (s_union a b) <-> In y a \/ In y b)
    /\ (In y (s_inter a b) <-> In y a /\ In y b)
    /\ (In y (s_diff a b) <-> In y a /\ ~ In y b).
Proof.
  intros a b y Ia Ib. split; [apply s_union_In; auto|]. split; [apply s_inter_In|apply s_diff_In].
Qed.
Print Assumptions C36_idset_membership_laws.

Theorem C36_idset_union_comm_assoc_idem :
  forall a b c, inc a -> inc b -> inc c ->
    s_union a b = s_union b a
    /\ s_union (s_union a b) c = s_union a (s_union b c)
    /\ s_union a a = a
    /\ s_union (s_diff a b) (s_inter a b) = a.
Proof.
  intros a b c Ia Ib Ic. split; [apply s_union_comm; auto|]. split; [apply s_union_assoc; auto|].
  split; [apply s_union_idem; auto|apply s_diff_union; auto].
Qed.
Print Assumptions C36_idset_union_comm_assoc_idem.

(** FULL statement wanted by the property: ids are uint64 and the set is a set of those ids.
    REFUTED by the wrapper's [uint32(id)] conversion (mirrored by [tr32]): after Add(2^32+5)
    the set reports Contains(5).  Confirmed on the real code (findings.d/C36.json). *)
Theorem C36_idset_uint64_ids_refuted :
  exists ops, snd (s_run tr32 regs0 ops) <> snd (o_run regs0 ops).
Proof. exists [SAdd 0 4294967301%N; SContains 0 5%N]. vm_compute. discriminate. Qed.
Print Assumptions C36_idset_uint64_ids_refuted.

(** Former findings, fixed in influxdb (findings.d/C36.json): the witnesses of the two refuted
    statements are now positive examples.  Put of the empty key is counted; with capacity 2 and
    load factor 100 the third Put grows the table instead of spinning; Minimum after a
    DeletePrefix of the first sibling finds the remaining key. *)
Example C36_rhh_empty_key_counted :
  match h_run (fun _ => 1%N) (h_new 4 90) [HPut [] 5%N] with
  | Some (m, obs) => h_get (fun _ => 1%N) m [] = 5%N /\ h_n m = 1%Z
  | None => False
  end.
Proof. vm_compute. split; reflexivity. Qed.

Example C36_rhh_empty_key_full_table_grows :
  let hf := fun k : bytes => match k with [] => 2%N | [97%N] => 3%N | _ => 4%N end in
  match h_run hf (h_new 2 100) [HPut [] 5%N; HPut [97%N] 6%N; HPut [98%N] 7%N] with
  | Some (m, obs) => h_n m = 3%Z /\ h_cap m = 4%N /\ h_get hf m [98%N] = 7%N /\ h_get hf m [] = 5%N
  | None => False
  end.
Proof. vm_compute. repeat split; reflexivity. Qed.

Example C36_radix_minimum_after_deleteprefix_ok :
  let ops := [RInsert [97%N] 1%Z; RInsert [98%N] 2%Z; RDelPrefix [97%N]; RMin] in
  smap_oracle [] ops (snd (r_run r_new ops)) = true
  /\ last (snd (r_run r_new ops)) (0%Z, false, [], 0%Z) = (2%Z, true, [98%N], 1%Z).
Proof. vm_compute. split; reflexivity. Qed.

(** Non-vacuity: a history with collisions and growth in the rhh model, a radix history with a
    split, a bloom history. *)
Example C36_nonvacuous :
  (match h_run (fun k => match k with [a] => (a mod 2 + 1)%N | _ => 1%N end) (h_new 2 90)
            [HPut [1%N] 1%N; HPut [3%N] 2%N; HPut [5%N] 3%N; HPut [3%N] 4%N; HGet [3%N]] with
   | Some (m, obs) => h_cap m = 8%N /\ last obs (0%N, 0%Z, 0%N) = (4%N, 3%Z, 8%N)
   | None => False
   end)
  /\ walk (r_root (fst (r_run r_new [RInsert [1%N; 2%N; 3%N] 1%Z; RInsert [1%N; 2%N; 4%N] 2%Z; RInsert [1%N] 3%Z])))
     = [([1%N], 3%Z); ([1%N; 2%N; 3%N], 1%Z); ([1%N; 2%N; 4%N], 2%Z)]
  /\ present_after 64 3 [] [BInsert [1%N]; BMerge 64 3 [[2%N]]] = [[2%N]; [1%N]].
Proof.
  split; [|split; vm_compute; reflexivity].
  vm_compute. split; reflexivity.
Qed.
