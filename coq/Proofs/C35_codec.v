(** C35 — codec lemmas: the delta + 7-bit varint byte string of the sparse list decodes back
    to the keys; big-endian 32-bit fields of the marshalled form read back. *)
From Coq Require Import ZifyBool ZifyNat ZifyN Lia.
From Verif Require Import Base.Prelude Model.C35.
Local Open Scope N_scope.

Ltac Zify.zify_post_hook ::= Z.div_mod_to_equations.

Local Opaque N.pow N.div N.modulo N.mul N.add N.sub.

(** strictly increasing, first >= lo, all < 2^32 *)
Fixpoint ascending (lo : N) (l : list N) : Prop :=
  match l with
  | [] => True
  | x :: r => lo <= x /\ x < two32 /\ ascending (x + 1) r
  end.

Lemma ascending_weaken : forall l lo lo', lo <= lo' -> ascending lo' l -> ascending lo l.
Proof.
  intros [|x r] lo lo' Hle H; cbn [ascending] in *; [exact I|].
  destruct H as (H1 & H2 & H3). repeat split; try assumption. lia.
Qed.

Lemma ascending_Forall_lt : forall l lo, ascending lo l -> Forall (fun x => x < two32) l.
Proof.
  induction l as [|x r IH]; intros lo H; [constructor|].
  cbn [ascending] in H. destruct H as (_ & H2 & H3). constructor; [assumption|].
  eapply IH; eassumption.
Qed.

Lemma ascending_Forall_ge : forall l lo, ascending lo l -> Forall (fun x => lo <= x) l.
Proof.
  induction l as [|x r IH]; intros lo H; [constructor|].
  cbn [ascending] in H. destruct H as (H1 & H2 & H3). constructor; [assumption|].
  apply IH. eapply ascending_weaken; [|eassumption]. lia.
Qed.

(** ** varint *)

Lemma varint_length_gen : forall f x, (1 <= length (varint f x) <= S f)%nat.
Proof.
  induction f as [|f IH]; intro x; cbn [varint].
  - cbn [length]. lia.
  - destruct (x / 128 =? 0).
    + cbn [length]. lia.
    + cbn [length]. specialize (IH (x / 128)). lia.
Qed.

Lemma varint_length : forall x, x < two32 -> (1 <= length (varint 4 x) <= 5)%nat.
Proof. intros x _. apply (varint_length_gen 4 x). Qed.

Lemma varint_nonempty : forall f x, varint f x <> [].
Proof.
  intros f x E. pose proof (varint_length_gen f x) as H. rewrite E in H. cbn [length] in H. lia.
Qed.

Lemma varint_bytes : forall f x, Forall (fun b => b < 256) (varint f x).
Proof.
  induction f as [|f IH]; intro x; cbn [varint].
  - constructor; [lia | constructor].
  - destruct (x / 128 =? 0).
    + constructor; [lia | constructor].
    + constructor; [lia | apply IH].
Qed.

Lemma pow_shift7 : forall s, 2 ^ (s + 7) = 2 ^ s * 128.
Proof. intro s. rewrite N.pow_add_r. reflexivity. Qed.

(** one varint group decodes to its value (generalised accumulator) *)
Lemma dec_varint_gen : forall f d rest acc shift last,
  d < 128 ^ N.of_nat (S f) ->
  dec_keys (varint f d ++ rest) acc shift last =
  let x := ((acc + d * 2 ^ shift) mod two32 + last) mod two32 in x :: dec_keys rest 0 0 x.
Proof.
  induction f as [|f IH]; intros d rest acc shift last Hd.
  - change (128 ^ N.of_nat 1) with 128 in Hd.
    cbn [varint app dec_keys].
    assert (E : d mod 128 = d) by (apply N.mod_small; exact Hd). rewrite E.
    destruct (128 <=? d) eqn:Hc; [lia|]. reflexivity.
  - cbn [varint].
    destruct (d / 128 =? 0) eqn:Hq.
    + cbn [app dec_keys].
      assert (Hd' : d < 128) by lia.
      assert (E : d mod 128 = d) by (apply N.mod_small; exact Hd'). rewrite E.
      destruct (128 <=? d) eqn:Hc; [lia|]. reflexivity.
    + cbn [app dec_keys].
      destruct (128 <=? d mod 128 + 128) eqn:Hc; [|lia].
      assert (E : (d mod 128 + 128) mod 128 = d mod 128) by lia. rewrite E.
      rewrite IH.
      * cbv zeta. rewrite pow_shift7.
        assert (E2 : acc + d mod 128 * 2 ^ shift + d / 128 * (2 ^ shift * 128)
                     = acc + d * 2 ^ shift).
        { rewrite (N.div_mod' d 128) at 3. ring. }
        rewrite E2. reflexivity.
      * replace (N.of_nat (S (S f))) with (N.succ (N.of_nat (S f))) in Hd by lia.
        rewrite N.pow_succ_r' in Hd.
        apply N.div_lt_upper_bound; [lia | exact Hd].
Qed.

(** fuel 4 is enough for a uint32: more fuel gives the same bytes (the Go loop is unbounded) *)
Lemma varint_fuel : forall f d g, d < 128 ^ N.of_nat (S f) -> (f <= g)%nat ->
  varint g d = varint f d.
Proof.
  induction f as [|f IH]; intros d g Hd Hg.
  - change (128 ^ N.of_nat 1) with 128 in Hd.
    destruct g as [|g]; [reflexivity|]. cbn [varint].
    destruct (d / 128 =? 0) eqn:Hq; [reflexivity | lia].
  - destruct g as [|g]; [lia|]. cbn [varint].
    destruct (d / 128 =? 0) eqn:Hq; [reflexivity|]. f_equal.
    apply IH; [|lia].
    replace (N.of_nat (S (S f))) with (N.succ (N.of_nat (S f))) in Hd by lia.
    rewrite N.pow_succ_r' in Hd.
    apply N.div_lt_upper_bound; [lia | exact Hd].
Qed.

Lemma varint_fuel32 : forall d g, d < two32 -> (4 <= g)%nat -> varint g d = varint 4 d.
Proof.
  intros d g Hd Hg. apply varint_fuel; [|exact Hg].
  change (128 ^ N.of_nat 5) with 34359738368. unfold two32 in Hd. lia.
Qed.

Lemma dec_varint : forall d rest last, d < two32 ->
  dec_keys (varint 4 d ++ rest) 0 0 last =
  ((d + last) mod two32) :: dec_keys rest 0 0 ((d + last) mod two32).
Proof.
  intros d rest last Hd.
  rewrite dec_varint_gen.
  - cbv zeta. change (2 ^ 0) with 1.
    assert (E : (0 + d * 1) mod two32 = d).
    { replace (0 + d * 1) with d by lia. apply N.mod_small. exact Hd. }
    rewrite E. reflexivity.
  - change (128 ^ N.of_nat 5) with 34359738368. unfold two32 in Hd. lia.
Qed.

(** ** the key list round-trips *)

Lemma dec_enc_keys : forall l last, last < two32 -> ascending last l ->
  dec_keys (enc_keys last l) 0 0 last = l.
Proof.
  induction l as [|x r IH]; intros last Hl Ha; [reflexivity|].
  cbn [ascending] in Ha. destruct Ha as (H1 & H2 & H3).
  cbn [enc_keys].
  assert (Ed : (x + two32 - last) mod two32 = x - last).
  { unfold two32 in *. lia. }
  rewrite Ed.
  rewrite dec_varint by (unfold two32 in *; lia).
  assert (Ex : (x - last + last) mod two32 = x).
  { replace (x - last + last) with x by lia. apply N.mod_small. exact H2. }
  rewrite Ex. f_equal.
  apply IH; [exact H2|].
  eapply ascending_weaken; [|exact H3]. lia.
Qed.

Lemma cl_keys_of_keys : forall l, ascending 0 l -> cl_keys (cl_of_keys l) = l.
Proof.
  intros l Ha. unfold cl_keys, cl_of_keys. cbn [cl_b].
  apply dec_enc_keys; [unfold two32; lia | exact Ha].
Qed.

(** ** the linear-time encoder is the sequence of Go [Append] calls *)

Lemma last_default_irrel : forall (l : list N) x d d', last (x :: l) d = last (x :: l) d'.
Proof.
  induction l as [|y r IH]; intros x d d'; [reflexivity|].
  change (last (x :: y :: r) d) with (last (y :: r) d).
  change (last (x :: y :: r) d') with (last (y :: r) d'). apply IH.
Qed.

Lemma fold_cl_append : forall l c,
  fold_left cl_append l c =
  {| cl_count := cl_count c + N.of_nat (length l);
     cl_last := last l (cl_last c);
     cl_b := cl_b c ++ enc_keys (cl_last c) l |}.
Proof.
  induction l as [|x r IH]; intro c.
  - cbn [fold_left length last enc_keys]. rewrite app_nil_r.
    destruct c as [cc cl cb]. cbn [cl_count cl_last cl_b]. f_equal. lia.
  - cbn [fold_left]. rewrite IH. unfold cl_append at 1 2 3. cbn [cl_count cl_last cl_b].
    cbn [enc_keys]. rewrite <- app_assoc. f_equal.
    + cbn [length]. lia.
    + destruct r as [|y r']; [reflexivity|].
      change (last (x :: y :: r') (cl_last c)) with (last (y :: r') (cl_last c)).
      apply last_default_irrel.
Qed.

(** holds for every key list *)
Lemma enc_keys_append_all : forall l, fold_left cl_append l cl_empty = cl_of_keys l.
Proof.
  intro l. rewrite fold_cl_append. unfold cl_of_keys, cl_empty. cbn [cl_count cl_last cl_b app].
  f_equal.
Qed.

Lemma enc_keys_append_spec : forall l, ascending 0 l ->
  fold_left cl_append l cl_empty = cl_of_keys l.
Proof. intros l _. apply enc_keys_append_all. Qed.

Lemma cl_last_fold : forall l, cl_last (fold_left cl_append l cl_empty) = last l 0.
Proof. intro l. rewrite enc_keys_append_all. reflexivity. Qed.

Lemma cl_count_of_keys : forall l, cl_count (cl_of_keys l) = N.of_nat (length l).
Proof. reflexivity. Qed.

Lemma enc_keys_app : forall a b last,
  enc_keys last (a ++ b) = enc_keys last a ++ enc_keys (List.last a last) b.
Proof.
  induction a as [|x r IH]; intros b last; [reflexivity|].
  cbn [app enc_keys]. rewrite IH. rewrite <- app_assoc. f_equal. f_equal.
  destruct r as [|y r']; [reflexivity|].
  change (List.last (x :: y :: r') last) with (List.last (y :: r') last).
  f_equal. apply last_default_irrel.
Qed.

Lemma enc_keys_bytes : forall l last, Forall (fun b => b < 256) (enc_keys last l).
Proof.
  induction l as [|x r IH]; intro last; cbn [enc_keys]; [constructor|].
  apply Forall_app. split; [apply varint_bytes | apply IH].
Qed.

Lemma enc_keys_length : forall l last,
  (length l <= length (enc_keys last l) <= 5 * length l)%nat.
Proof.
  induction l as [|x r IH]; intro last; cbn [enc_keys length]; [lia|].
  rewrite app_length. specialize (IH x).
  pose proof (varint_length_gen 4 ((x + two32 - last) mod two32)). lia.
Qed.

(** ** big-endian 32-bit fields *)

Lemma be32_length : forall n, length (be32 n) = 4%nat.
Proof. reflexivity. Qed.

Lemma rd32_be32 : forall n rest, n < two32 -> rd32 (be32 n ++ rest) = n.
Proof.
  intros n rest Hn. unfold be32, rd32. cbn [app]. unfold two32 in Hn. lia.
Qed.

Lemma be32_bytes : forall n, Forall (fun b => b < 256) (be32 n).
Proof. intro n. unfold be32. repeat constructor; lia. Qed.

Lemma skipn4_be32 : forall n rest, skipn 4 (be32 n ++ rest) = rest.
Proof. reflexivity. Qed.

Lemma rd32s_be32s : forall l rest, Forall (fun x => x < two32) l ->
  rd32s (length l) (flat_map be32 l ++ rest) = l.
Proof.
  induction l as [|x r IH]; intros rest Hall; [reflexivity|].
  inversion Hall as [|? ? Hx Hr]; subst.
  cbn [length flat_map rd32s]. rewrite <- app_assoc.
  rewrite rd32_be32 by exact Hx. rewrite skipn4_be32. f_equal. apply IH. exact Hr.
Qed.

Lemma flat_map_be32_length : forall l, length (flat_map be32 l) = (4 * length l)%nat.
Proof.
  induction l as [|x r IH]; [reflexivity|].
  cbn [flat_map]. rewrite app_length, be32_length, IH. cbn [length]. lia.
Qed.
