(** C38 — proofs about the backup / restore / export mirror of Model/C38.v. *)
From Verif Require Import Base.Prelude Model.C01 Proofs.C01 Model.C38.

(** * Normalisation drops only empty files: reads are unchanged. *)
Lemma file_get_empty f k t : nonempty_file f = false -> file_get f k t = None.
Proof.
  unfold nonempty_file, file_get. destruct (fpts f); [|discriminate]. intros _.
  destruct (tombed (ftomb f) k t); reflexivity.
Qed.

Lemma files_get_filter_nonempty fs k t : files_get (filter nonempty_file fs) k t = files_get fs k t.
Proof.
  induction fs as [|f fs IH]; [reflexivity|]. cbn [filter files_get].
  destruct (nonempty_file f) eqn:E; cbn [files_get]; rewrite IH; [reflexivity|].
  rewrite (file_get_empty f k t E). destruct (files_get fs k t); reflexivity.
Qed.

Lemma norm_abs s k t : abs (norm s) k t = abs s k t.
Proof. unfold abs, norm; cbn [hot snap files]. rewrite files_get_filter_nonempty. reflexivity. Qed.

Lemma step38_abs s o k t : abs (fst (step38 s o)) k t = abs (fst (step s o)) k t.
Proof. unfold step38. destruct (step s o) as [s' b]. cbn [fst]. apply norm_abs. Qed.

(** * Backup + restore *)
Definition quiescent (s : state) : Prop := snapshotting s = false /\ snap s = [].

(** A tombstone that hides nothing (no physical point of the file under it). *)
Definition tomb_inert (f : file) : Prop :=
  forall k t, tombed (ftomb f) k t = true -> log_get (fpts f) k t = None.

Lemma snapshot_now_abs s k t : abs (snapshot_now s) k t = abs s k t.
Proof. unfold snapshot_now. rewrite step_snapcommit_abs, step_snapbegin_abs. reflexivity. Qed.

Lemma snapshot_now_shape s : quiescent s ->
  hot (snapshot_now s) = [] /\ snap (snapshot_now s) = [] /\ snapshotting (snapshot_now s) = false /\
  files (snapshot_now s) =
    files s ++ match hot s with [] => [] | _ :: _ => [ {| fpts := hot s; ftomb := [] |} ] end.
Proof.
  intros [Q1 Q2]. unfold snapshot_now. cbn [step]. rewrite Q1, Q2. cbn.
  destruct (hot s); cbn; rewrite ?app_nil_r; repeat split; reflexivity.
Qed.

Lemma strip_get f k t : tomb_inert f -> file_get (strip f) k t = file_get f k t.
Proof.
  intros H. unfold file_get, strip; cbn [fpts ftomb tombed existsb].
  destruct (tombed (ftomb f) k t) eqn:E; [|reflexivity]. apply H. exact E.
Qed.

Lemma files_get_strip fs k t :
  Forall tomb_inert fs -> files_get (map strip fs) k t = files_get fs k t.
Proof.
  induction 1 as [|f fs Hf _ IH]; [reflexivity|]. cbn [map files_get].
  rewrite IH, strip_get by exact Hf. reflexivity.
Qed.

Lemma abs_engine_of fs k t : abs (engine_of fs) k t = files_get fs k t.
Proof. reflexivity. Qed.

(** One file of a backup taken with everything newer than [since]: its tombstone file is
    in the archive too, or its tombstones hide nothing. *)
Definition fresh_entry (since : Z) (p : Z * option Z * file) : Prop :=
  (fst (fst p) > since)%Z /\
  match snd (fst p) with Some m => (m > since)%Z | None => tomb_inert (snd p) end.

Lemma restored_full_get since mfs k t :
  Forall (fresh_entry since) mfs ->
  files_get (map restored_file (backup_sel since mfs)) k t = files_get (map snd mfs) k t.
Proof.
  unfold backup_sel. induction 1 as [|[[m tm] f] l [Hm Ht] _ IH]; [reflexivity|].
  cbn [flat_map fst snd] in *.
  replace (Z.gtb m since) with true by (symmetry; apply Z.gtb_lt; lia).
  cbn [app map files_get]. rewrite IH. destruct (files_get (map snd l) k t); [reflexivity|].
  unfold restored_file; cbn [fst snd]. destruct tm as [x|].
  - replace (Z.gtb x since) with true by (symmetry; apply Z.gtb_lt; lia). reflexivity.
  - apply strip_get. exact Ht.
Qed.

Lemma map_snd_combine3 (mts : list (Z * option Z)) (fs : list file) :
  length mts = length fs -> map snd (map (fun p => (fst p, snd p)) (combine mts fs)) = fs.
Proof.
  revert fs. induction mts as [|m mts IH]; intros [|f fs] H; try discriminate; [reflexivity|].
  cbn. f_equal. apply IH. cbn in H. lia.
Qed.

(** [mts]: per file (mtime of the .tsm, mtime of its tombstone file if it has one). *)
Definition with_mtimes (mts : list (Z * option Z)) (fs : list file) : list (Z * option Z * file) :=
  map (fun p => (fst p, snd p)) (combine mts fs).

(** Full backup (every .tsm and every tombstone file newer than [since]) of a quiescent
    engine, restored into the empty engine: same reads.  The side condition — a file
    without a tombstone FILE has no tombstone that hides a point — is the consistency of
    the observed directory with the engine state (checked per case by [layout_ok]). *)
Theorem restore_full_backup s since mts :
  quiescent s -> length mts = length (files (snapshot_now s)) ->
  Forall (fresh_entry since) (with_mtimes mts (files (snapshot_now s))) ->
  forall k t,
    abs (restore_state (backup_sel since (with_mtimes mts (files (snapshot_now s))))) k t = abs s k t.
Proof.
  intros Q Hlen Hf k t. unfold restore_state. rewrite abs_engine_of, (restored_full_get _ _ _ _ Hf).
  unfold with_mtimes. rewrite map_snd_combine3 by exact Hlen.
  destruct (snapshot_now_shape s Q) as (H1 & H2 & H3 & H4).
  rewrite <- (snapshot_now_abs s k t). unfold abs. rewrite H1, H2. reflexivity.
Qed.

(** The repaired witness: write, snapshot, delete (tombstone), full backup, restore —
    the deleted point stays deleted.  (Before the repair of finding
    restore-drops-tombstones the restored shard read [Some 7] here.) *)
Definition c38_witness : list op :=
  [Write [(0%N, 5%Z, 7%Z)]; SnapBegin; SnapCommit; Delete [0%N] 0%Z 9%Z].

Lemma restore_keeps_delete_witness :
  let s := run c38_witness init in
  quiescent s /\
  abs s 0%N 5%Z = None /\
  abs (restore_state (backup_sel 0 (with_mtimes [(1%Z, Some 1%Z)] (files (snapshot_now s))))) 0%N 5%Z = None.
Proof. vm_compute. repeat split; reflexivity. Qed.

(** An incremental backup that holds a .tsm but not its (older) tombstone file restores
    the file without its deletes: the archive is what [since] selects, nothing more. *)
Lemma restore_without_tombstone_member_witness :
  let s := run c38_witness init in
  abs (restore_state (backup_sel 1 (with_mtimes [(2%Z, Some 1%Z)] (files (snapshot_now s))))) 0%N 5%Z = Some 7%Z.
Proof. vm_compute. reflexivity. Qed.

(** ** A backup refused because cache snapshots are disabled, then retried: the failed
    attempt parks the cache contents in the snapshot store, the retry writes them out. *)
Lemma snapshot_refused_abs s k t : abs (fst (snapshot_refused s)) k t = abs s k t.
Proof.
  unfold snapshot_refused. destruct (hot s) eqn:H, (snap s) eqn:S; cbn [fst]; try reflexivity;
    rewrite step_snapfail_abs, step_snapbegin_abs; reflexivity.
Qed.

Lemma snapshot_refused_flushed s : quiescent s ->
  snapshotting (fst (snapshot_refused s)) = false /\ hot (fst (snapshot_refused s)) = [] /\
  (snd (snapshot_refused s) = true <-> hot s <> []).
Proof.
  intros [Q1 Q2]. unfold snapshot_refused. rewrite Q2. destruct (hot s) eqn:H; cbn [fst snd].
  - rewrite Q1, H. repeat split; try discriminate; congruence.
  - cbn [step]. rewrite Q1, Q2. cbn. repeat split; congruence.
Qed.

(** After a failed snapshot (hot store empty, snapshot store pending) the forced snapshot
    of the retry flushes everything to files. *)
Lemma snapshot_now_flushes s : snapshotting s = false -> hot s = [] ->
  hot (snapshot_now s) = [] /\ snap (snapshot_now s) = [].
Proof.
  intros Q H. unfold snapshot_now. cbn [step]. rewrite Q. destruct (snap s) eqn:S; cbn; rewrite ?H, ?S; cbn; auto.
Qed.

Theorem restore_full_backup_after_refusal s since mts :
  quiescent s ->
  let s' := snapshot_now (fst (snapshot_refused s)) in
  length mts = length (files s') ->
  Forall (fresh_entry since) (with_mtimes mts (files s')) ->
  forall k t, abs (restore_state (backup_sel since (with_mtimes mts (files s')))) k t = abs s k t.
Proof.
  intros Q s' Hlen Hf k t. unfold restore_state. rewrite abs_engine_of, (restored_full_get _ _ _ _ Hf).
  unfold with_mtimes. rewrite map_snd_combine3 by exact Hlen.
  destruct (snapshot_refused_flushed s Q) as (R1 & R2 & _).
  destruct (snapshot_now_flushes _ R1 R2) as [H1 H2].
  rewrite <- (snapshot_refused_abs s k t), <- (snapshot_now_abs (fst (snapshot_refused s)) k t).
  fold s'. unfold abs. fold s' in H1, H2. rewrite H1, H2. reflexivity.
Qed.

(** * Incremental backup: the member list *)
Lemma indexed_in {A} (l : list A) : forall i j x,
  In (j, x) (indexed i l) <-> (i <= j)%nat /\ nth_error l (j - i) = Some x.
Proof.
  induction l as [|a l IH]; intros i j x; cbn [indexed].
  - split; [intros []|]. intros [_ H]. destruct (j - i)%nat; discriminate.
  - split.
    + intros [H|H].
      * inversion H; subst. split; [lia|]. rewrite Nat.sub_diag. reflexivity.
      * apply IH in H as [H1 H2]. split; [lia|].
        replace (j - i)%nat with (S (j - S i)) by lia. exact H2.
    + intros [H1 H2]. destruct (Nat.eq_dec i j) as [->|Hne].
      * rewrite Nat.sub_diag in H2. cbn in H2. inversion H2; subst. left. reflexivity.
      * right. apply IH. split; [lia|].
        replace (j - i)%nat with (S (j - S i)) in H2 by lia. exact H2.
Qed.

Theorem backup_members_tsm since fs i :
  In (i, 0%N) (backup_members since fs) <->
  exists o, nth_error fs i = Some o /\ (o_mt o > since)%Z.
Proof.
  unfold backup_members. rewrite in_flat_map. split.
  - intros [[j o] [Hin H]]. cbn [fst snd] in H. apply indexed_in in Hin as [_ Hn].
    rewrite Nat.sub_0_r in Hn. apply in_app_or in H as [H|H].
    + destruct (Z.gtb (o_mt o) since) eqn:G; [|destruct H]. destruct H as [H|[]].
      inversion H; subst. exists o. split; [exact Hn|]. apply Z.gtb_lt in G. lia.
    + destruct (o_tomb o) as [m|]; [|destruct H].
      destruct (Z.gtb m since); [|destruct H]. destruct H as [H|[]]. inversion H.
  - intros [o [Hn G]]. exists (i, o). split.
    + apply indexed_in. split; [lia|]. rewrite Nat.sub_0_r. exact Hn.
    + cbn [fst snd]. apply in_or_app. left.
      replace (Z.gtb (o_mt o) since) with true by (symmetry; apply Z.gtb_lt; lia). left. reflexivity.
Qed.

Theorem backup_members_tombstone since fs i :
  In (i, 1%N) (backup_members since fs) <->
  exists o m, nth_error fs i = Some o /\ o_tomb o = Some m /\ (m > since)%Z.
Proof.
  unfold backup_members. rewrite in_flat_map. split.
  - intros [[j o] [Hin H]]. cbn [fst snd] in H. apply indexed_in in Hin as [_ Hn].
    rewrite Nat.sub_0_r in Hn. apply in_app_or in H as [H|H].
    + destruct (Z.gtb (o_mt o) since); [|destruct H]. destruct H as [H|[]]. inversion H.
    + destruct (o_tomb o) as [m|] eqn:T; [|destruct H].
      destruct (Z.gtb m since) eqn:G; [|destruct H]. destruct H as [H|[]].
      inversion H; subst. exists o, m. repeat split; try assumption. apply Z.gtb_lt in G. lia.
  - intros [o [m [Hn [T G]]]]. exists (i, o). split.
    + apply indexed_in. split; [lia|]. rewrite Nat.sub_0_r. exact Hn.
    + cbn [fst snd]. apply in_or_app. right. rewrite T.
      replace (Z.gtb m since) with true by (symmetry; apply Z.gtb_lt; lia). left. reflexivity.
Qed.

(** * Export *)
Lemma list_min_le l t : In t l -> (list_min l <= t)%Z.
Proof.
  destruct l as [|x r]; [intros []|]. cbn [list_min].
  assert (M : forall r a, (fold_right Z.min a r <= a)%Z).
  { clear. induction r as [|z r IH]; intros a; cbn; [lia|]. specialize (IH a). lia. }
  assert (K : forall r, In t r -> forall a, (fold_right Z.min a r <= t)%Z).
  { clear. induction r as [|z r IH]; intros [] a; cbn.
    - subst. lia.
    - specialize (IH H a). lia. }
  intros [H|H]; [subst; apply M|apply K; exact H].
Qed.

Lemma list_max_ge l t : In t l -> (t <= list_max l)%Z.
Proof.
  destruct l as [|x r]; [intros []|]. cbn [list_max].
  assert (M : forall r a, (a <= fold_right Z.max a r)%Z).
  { clear. induction r as [|z r IH]; intros a; cbn; [lia|]. specialize (IH a). lia. }
  assert (K : forall r, In t r -> forall a, (t <= fold_right Z.max a r)%Z).
  { clear. induction r as [|z r IH]; intros [] a; cbn.
    - subst. lia.
    - specialize (IH H a). lia. }
  intros [H|H]; [subst; apply M|apply K; exact H].
Qed.

Lemma list_min_in l : l <> [] -> In (list_min l) l.
Proof.
  destruct l as [|x r]; [congruence|]. intros _. cbn [list_min].
  induction r as [|y r IH]; cbn [fold_right]; [left; reflexivity|].
  destruct (Z.min_spec y (fold_right Z.min x r)) as [[_ E]|[_ E]]; rewrite E.
  - right. left. reflexivity.
  - destruct IH as [IH|IH]; [left; exact IH|right; right; exact IH].
Qed.

Lemma list_max_in l : l <> [] -> In (list_max l) l.
Proof.
  destruct l as [|x r]; [congruence|]. intros _. cbn [list_max].
  induction r as [|y r IH]; cbn [fold_right]; [left; reflexivity|].
  destruct (Z.max_spec y (fold_right Z.max x r)) as [[_ E]|[_ E]]; rewrite E.
  - destruct IH as [IH|IH]; [left; exact IH|right; right; exact IH].
  - right. left. reflexivity.
Qed.

Lemma in_block_log b k t v : In (k, t, v) (block_log b) <-> k = fst b /\ In (t, v) (snd b).
Proof.
  unfold block_log. rewrite in_map_iff. split.
  - intros [[t' v'] [E H]]. cbn in E. inversion E; subst. split; [reflexivity|exact H].
  - intros [-> H]. exists (t, v). split; [reflexivity|exact H].
Qed.

Lemma in_block_time b k t v : In (k, t, v) (block_log b) -> In t (btimes b).
Proof.
  intros H. apply in_block_log in H as [_ H]. unfold btimes. apply in_map_iff.
  exists (t, v). split; [reflexivity|exact H].
Qed.

Lemma block_bounds b k t v : In (k, t, v) (block_log b) -> (bmin b <= t <= bmax b)%Z.
Proof.
  intros H. apply in_block_time in H. split; [apply list_min_le|apply list_max_ge]; exact H.
Qed.

Lemma in_bfile_log f k t v :
  In (k, t, v) (bfile_log f) <-> exists b, In b f /\ In (k, t, v) (block_log b).
Proof. unfold bfile_log. apply in_flat_map. Qed.

Lemma file_bounds f b t : In b f -> In t (btimes b) -> (fmin f <= t <= fmax f)%Z.
Proof.
  intros Hb Ht. assert (In t (ftimes f)) by (unfold ftimes; apply in_flat_map; eauto).
  split; [apply list_min_le|apply list_max_ge]; assumption.
Qed.

(** A block holding an in-range point passes filterFileToBackup's test. *)
Lemma block_keep_hit lo hi b k t v :
  In (k, t, v) (block_log b) -> (lo <= t <= hi)%Z -> block_keep lo hi b = true.
Proof.
  intros H R. apply block_bounds in H. unfold block_keep.
  destruct (Z.geb_spec (bmin b) lo), (Z.leb_spec (bmin b) hi), (Z.geb_spec (bmax b) lo),
    (Z.leb_spec (bmax b) hi), (Z.leb_spec (bmin b) lo), (Z.geb_spec (bmax b) hi); cbn; try reflexivity; lia.
Qed.

(** The block test is exactly "the block's [min,max] meets [lo,hi]" (for lo <= hi). *)
Lemma block_keep_overlap lo hi b : (bmin b <= bmax b)%Z -> (lo <= hi)%Z ->
  (block_keep lo hi b = true <-> (bmin b <= hi /\ lo <= bmax b)%Z).
Proof.
  intros Hb Hr. unfold block_keep.
  destruct (Z.geb_spec (bmin b) lo), (Z.leb_spec (bmin b) hi), (Z.geb_spec (bmax b) lo),
    (Z.leb_spec (bmax b) hi), (Z.leb_spec (bmin b) lo), (Z.geb_spec (bmax b) hi); cbn;
    split; intros; try discriminate; try reflexivity; lia.
Qed.

(** A file whose [min,max] meets the range is either filtered or streamed whole. *)
Lemma file_tests_cover mn mx lo hi : (mn <= hi)%Z -> (lo <= mx)%Z ->
  overlaps3 mn mx lo hi = true \/ inside mn mx lo hi = true.
Proof.
  intros H1 H2. unfold overlaps3, inside.
  destruct (Z.geb_spec mn lo), (Z.leb_spec mn hi), (Z.gtb_spec mx hi), (Z.geb_spec mx lo),
    (Z.leb_spec mx hi), (Z.ltb_spec mn lo), (Z.leb_spec mn lo), (Z.geb_spec mx hi); cbn; auto; lia.
Qed.

Lemma export_file_members lo hi f m :
  In m (export_file lo hi f) <->
    (overlaps3 (fmin f) (fmax f) lo hi = true /\ m = filter (block_keep lo hi) f /\ m <> [])
    \/ (inside (fmin f) (fmax f) lo hi = true /\ m = f).
Proof.
  unfold export_file, export_file_gen.
  set (W := if inside (fmin f) (fmax f) lo hi then [f] else []).
  assert (HW : In m W <-> inside (fmin f) (fmax f) lo hi = true /\ m = f).
  { unfold W. destruct (inside (fmin f) (fmax f) lo hi); cbn [In].
    - split; [intros [H|[]]; subst; auto|intros [_ H]; subst; auto].
    - split; [intros []|intros [H _]; discriminate]. }
  destruct (overlaps3 (fmin f) (fmax f) lo hi) eqn:O.
  - destruct (filter (block_keep lo hi) f) as [|b g] eqn:F.
    + rewrite HW. split; [auto|]. intros [(_ & H & N)|H]; [congruence|exact H].
    + cbn [In]. rewrite HW. split.
      * intros [H|H]; [left; subst; repeat split; discriminate|right; exact H].
      * intros [(_ & H & _)|H]; [left; symmetry; exact H|right; exact H].
  - rewrite HW. split; [auto|]. intros [(H & _)|H]; [discriminate|exact H].
Qed.

(** Nothing in the range is lost. *)
Theorem export_file_nothing_lost lo hi f k t v :
  In (k, t, v) (bfile_log f) -> (lo <= t <= hi)%Z ->
  exists m, In m (export_file lo hi f) /\ In (k, t, v) (bfile_log m).
Proof.
  intros Hin R. apply in_bfile_log in Hin as [b [Hb Hp]].
  pose proof (file_bounds f b t Hb (in_block_time _ _ _ _ Hp)) as FB.
  assert (Hk : In b (filter (block_keep lo hi) f)).
  { apply filter_In. split; [exact Hb|]. eapply block_keep_hit; eassumption. }
  destruct (file_tests_cover (fmin f) (fmax f) lo hi) as [O|I]; try lia.
  - exists (filter (block_keep lo hi) f). split.
    + apply export_file_members. left. repeat split; [exact O|]. intros E. rewrite E in Hk. destruct Hk.
    + apply in_bfile_log. exists b. split; [exact Hk|exact Hp].
  - exists f. split; [apply export_file_members; right; split; [exact I|reflexivity]|].
    apply in_bfile_log. exists b. split; assumption.
Qed.

(** Every exported block is a source block that passes the block test (it overlaps the range). *)
Theorem export_file_only_overlapping lo hi f m b :
  Forall (fun b => snd b <> []) f ->
  In m (export_file lo hi f) -> In b m ->
  In b f /\ block_keep lo hi b = true.
Proof.
  intros NE Hm Hb. apply export_file_members in Hm as [(_ & -> & _)|[I ->]].
  - apply filter_In in Hb. exact Hb.
  - split; [exact Hb|]. rewrite Forall_forall in NE. specialize (NE b Hb).
    assert (T : btimes b <> []).
    { unfold btimes. destruct (snd b); [congruence|discriminate]. }
    pose proof (file_bounds f b _ Hb (list_min_in _ T)) as B1.
    pose proof (file_bounds f b _ Hb (list_max_in _ T)) as B2.
    fold (bmin b) in B1. fold (bmax b) in B2.
    unfold inside in I. apply andb_true_iff in I as [I1 I2].
    apply Z.geb_le in I1. apply Z.leb_le in I2.
    unfold block_keep.
    destruct (Z.geb_spec (bmin b) lo), (Z.leb_spec (bmin b) hi); cbn; try reflexivity; lia.
Qed.

(** Exactness holds when block boundaries align with the range: every kept block inside it. *)
Theorem export_file_exact_when_aligned lo hi f :
  Forall (fun b => snd b <> []) f ->
  Forall (fun b => block_keep lo hi b = true -> (lo <= bmin b /\ bmax b <= hi)%Z) f ->
  forall m k t v, In m (export_file lo hi f) -> In (k, t, v) (bfile_log m) -> (lo <= t <= hi)%Z.
Proof.
  intros NE AL m k t v Hm Hp. apply in_bfile_log in Hp as [b [Hb Hp]].
  destruct (export_file_only_overlapping lo hi f m b NE Hm Hb) as [Hbf K].
  rewrite Forall_forall in AL. specialize (AL b Hbf K).
  apply block_bounds in Hp. lia.
Qed.

(** ** Read level: importing the export gives the source's reads inside the range. *)
Lemma log_get_block_dropped lo hi b k t :
  block_keep lo hi b = false -> (lo <= t <= hi)%Z -> log_get (block_log b) k t = None.
Proof.
  intros K R. apply log_get_none_iff. intros v H.
  rewrite (block_keep_hit lo hi b k t v H R) in K. discriminate.
Qed.

Lemma log_get_filter_blocks lo hi f k t : (lo <= t <= hi)%Z ->
  log_get (bfile_log (filter (block_keep lo hi) f)) k t = log_get (bfile_log f) k t.
Proof.
  intros R. induction f as [|b f IH]; [reflexivity|]. cbn [filter].
  destruct (block_keep lo hi b) eqn:K; unfold bfile_log in *; cbn [flat_map];
    rewrite ?log_get_app, IH; [reflexivity|].
  rewrite (log_get_block_dropped lo hi b k t K R). destruct (log_get (flat_map block_log f) k t); reflexivity.
Qed.

Lemma file_get_of_bfile f k t : file_get (file_of_bfile f) k t = log_get (bfile_log f) k t.
Proof. reflexivity. Qed.

Lemma export_file_get lo hi f k t : (lo <= t <= hi)%Z ->
  files_get (map file_of_bfile (export_file lo hi f)) k t = log_get (bfile_log f) k t.
Proof.
  intros R.
  assert (NoPt : export_file lo hi f = [] -> log_get (bfile_log f) k t = None).
  { intros E. apply log_get_none_iff. intros v H.
    destruct (export_file_nothing_lost lo hi f k t v H R) as [m [Hm _]]. rewrite E in Hm. destruct Hm. }
  pose proof (log_get_filter_blocks lo hi f k t R) as FB.
  unfold export_file, export_file_gen in *.
  destruct (overlaps3 (fmin f) (fmax f) lo hi) eqn:O;
    destruct (inside (fmin f) (fmax f) lo hi) eqn:I;
    try (destruct (filter (block_keep lo hi) f) as [|b g] eqn:F); cbn [map files_get];
    rewrite ?file_get_of_bfile, ?FB;
    try (destruct (log_get (bfile_log f) k t); reflexivity);
    try (symmetry; apply NoPt; reflexivity).
Qed.

Definition plain (fs : list bfile) : list (bfile * bfile) := map (fun b => (b, b)) fs.

Theorem export_import_in_range lo hi : forall fs i k t, (lo <= t <= hi)%Z ->
  abs (import_state (map snd (export lo hi i (plain fs)))) k t = files_get (map file_of_bfile fs) k t.
Proof.
  unfold import_state. intros fs i k t R. rewrite abs_engine_of. revert i.
  induction fs as [|f fs IH]; intros i; [reflexivity|].
  cbn [plain map export]. fold (plain fs). fold (export_file lo hi f).
  rewrite map_app, map_map. cbn [snd]. rewrite map_id, map_app, files_get_app, IH.
  cbn [files_get]. rewrite (export_file_get lo hi f k t R), file_get_of_bfile. reflexivity.
Qed.

(** (c) the exact-range statement fails: blocks [0,1,2] [3,4,5], range 1..1. *)
Definition c38_export_witness : bfile :=
  [(0%N, [(0, 10); (1, 11); (2, 12)]%Z); (0%N, [(3, 13); (4, 14); (5, 15)]%Z)].

Lemma export_not_exact_witness :
  export 1 1 0 (plain [c38_export_witness]) = [(0%nat, [(0%N, [(0, 10); (1, 11); (2, 12)]%Z)])] /\
  abs (import_state [[(0%N, [(0, 10); (1, 11); (2, 12)]%Z)]]) 0%N 0%Z = Some 10%Z.
Proof. vm_compute. split; reflexivity. Qed.

(** Repaired: a file that overlaps the range with no block in it exports nothing (was: the
    whole Export failed with ErrNoValues). *)
Lemma export_gap_witness :
  export 4 5 0 (plain [[(0%N, [(0, 1); (1, 2)]%Z); (2%N, [(10, 3)]%Z)]]) = [].
Proof. vm_compute. reflexivity. Qed.

(** Repaired: a tombstoned file is exported (was: Export failed).  Key 0 entirely deleted
    (absent from the reader's view), key 2 kept. *)
Lemma export_tombstoned_witness :
  export 0 5 0 [([(0%N, [(0, 1); (1, 2)]%Z); (2%N, [(3, 3); (10, 4)]%Z)], [(2%N, [(3, 3); (10, 4)]%Z)])]
  = [(0%nat, [(2%N, [(3, 3); (10, 4)]%Z)])].
Proof. vm_compute. reflexivity. Qed.

(** * The observed layout ties a model file to its blocks. *)
Definition same_points (f : file) (b : bfile) : Prop :=
  forall k t, log_get (fpts f) k t = log_get (bfile_log b) k t.

Lemma files_get_layout fs bs :
  Forall2 same_points fs bs -> Forall (fun f => ftomb f = []) fs ->
  forall k t, files_get (map file_of_bfile bs) k t = files_get fs k t.
Proof.
  intros H. induction H as [|f b fs bs Hfb _ IH]; intros T k t; [reflexivity|].
  inversion T; subst. cbn [map files_get]. rewrite IH by assumption.
  rewrite file_get_of_bfile. unfold file_get. rewrite H1. cbn [tombed existsb]. rewrite Hfb. reflexivity.
Qed.

(** State level: a quiescent, flushed, tombstone-free engine whose files have layout [bs]:
    importing the export reads like the source inside the range. *)
Theorem export_import_state lo hi s bs :
  hot s = [] -> snap s = [] ->
  Forall2 same_points (files s) bs -> Forall (fun f => ftomb f = []) (files s) ->
  forall k t, (lo <= t <= hi)%Z ->
    abs (import_state (map snd (export lo hi 0 (plain bs)))) k t = abs s k t.
Proof.
  intros H1 H2 L T k t R.
  rewrite (export_import_in_range lo hi _ _ k t R).
  rewrite (files_get_layout _ _ L T). unfold abs. rewrite H1, H2. reflexivity.
Qed.

(** * Histories without deletes never carry tombstones: full backup/restore is exact. *)
Definition no_tombs (s : state) : Prop := Forall (fun f => ftomb f = []) (files s).

Lemma Forall_firstn {A} (P : A -> Prop) n l : Forall P l -> Forall P (firstn n l).
Proof. intros H. revert n. induction H; intros [|n]; cbn; constructor; auto. Qed.
Lemma Forall_skipn {A} (P : A -> Prop) n l : Forall P l -> Forall P (skipn n l).
Proof. intros H. revert n. induction H; intros [|n]; cbn; auto. Qed.

Lemma step_no_tombs s o :
  match o with Delete _ _ _ => False | _ => True end -> no_tombs s -> no_tombs (fst (step s o)).
Proof.
  unfold no_tombs. intros Ho H. destruct o as [b| | | |i n|ks lo hi]; cbn [step]; try exact H.
  - destruct (snapshotting s); [exact H|]. destruct (snap s); exact H.
  - destruct (snapshotting s); [|exact H]. cbn [fst files].
    destruct (snap s); [exact H|]. apply Forall_app. split; [exact H|]. constructor; [reflexivity|constructor].
  - destruct (snapshotting s); exact H.
  - destruct (Nat.leb 1 n && Nat.leb (i + n) (length (files s)))%bool; [|exact H]. cbn [fst files].
    apply Forall_app. split; [apply Forall_firstn; exact H|].
    apply Forall_app. split; [constructor; [reflexivity|constructor]|apply Forall_skipn; exact H].
  - destruct Ho.
Qed.

Lemma run_no_tombs h : no_delete h -> forall s, no_tombs s -> no_tombs (run h s).
Proof.
  induction 1 as [|o h Ho _ IH]; intros s H; [exact H|].
  unfold run; cbn [fold_left]. fold (run h (fst (step s o))). apply IH. apply step_no_tombs; assumption.
Qed.

Theorem restore_full_backup_no_delete h since mts :
  no_delete h -> quiescent (run h init) ->
  length mts = length (files (snapshot_now (run h init))) -> Forall (fun m => (m > since)%Z) mts ->
  forall k t,
    abs (restore_state (backup_sel since
           (with_mtimes (map (fun m => (m, None)) mts) (files (snapshot_now (run h init)))))) k t
    = log_get (spec_log h []) k t.
Proof.
  intros ND Q Hl Hm k t.
  assert (NT : no_tombs (run h init)) by (apply run_no_tombs; [exact ND|constructor]).
  assert (NT' : Forall (fun f => ftomb f = []) (files (snapshot_now (run h init)))).
  { destruct (snapshot_now_shape _ Q) as (_ & _ & _ & H4). rewrite H4. apply Forall_app. split; [exact NT|].
    destruct (hot (run h init)); constructor; [reflexivity|constructor]. }
  rewrite restore_full_backup; try assumption.
  - apply run_refines; [intros; apply abs_init|apply no_delete_safe; exact ND].
  - rewrite map_length. exact Hl.
  - unfold with_mtimes. apply Forall_forall. intros [[m tm] f] Hin.
    apply in_map_iff in Hin as [[[m' tm'] f'] [E Hin]].
    cbn in E. inversion E; subst. pose proof (in_combine_l _ _ _ _ Hin) as Hl1.
    apply in_combine_r in Hin. apply in_map_iff in Hl1 as [m0 [E0 Hm0]]. inversion E0; subst.
    split; cbn [fst snd].
    + rewrite Forall_forall in Hm. apply (Hm _ Hm0).
    + rewrite Forall_forall in NT'. specialize (NT' _ Hin).
      intros k' t' Ht. rewrite NT' in Ht. discriminate.
Qed.
