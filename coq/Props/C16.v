(** C16 — Delete predicates match exactly the series they describe.  Property theorems only.

    Reading of "the predicate is true of that series' measurement and tags" adopted here
    ([holds]): Kleene evaluation in which a comparison involving an absent tag is unknown and
    a final unknown means "no match" — this is what the code comment in
    [predicateMatcher.Matches] states ("consider if the predicate matches tag1=val1 but tag1
    is not present in the key") and it coincides with Flux null semantics.  It is equal to the
    two-valued evaluation in which a comparison on an absent tag is false
    ([C16_final_unknown_is_no_match]).  The OTHER reading (absent tag = empty string, as in
    InfluxQL WHERE clauses, C15) is compared below: refuted in general
    ([C16_absent_as_empty_refuted], with a predicate the public delete API produces), true when
    every referenced tag is present or the predicate is positive.

    FULL STATEMENT of the property (for every series, including any component ending in a
    backslash):
        forall p name env, wf_pred p -> matches p (make_key name env) = holds p env.
    Measurement names containing '=' are covered by [C16_matcher_correct] since the repair of
    finding measurement-name-with-equals-parsed-as-tag (Matches now skips the measurement
    segment; the former witness is [C16_equals_in_measurement_fixed]).
    The full statement is still REFUTED by the faithful model and by the real code:
      - [C16_trailing_backslash_refuted]     (finding: series-component-ending-in-backslash;
                                              consequence of C11's lp-backslash-not-escaped)
      - [C16_field_separator_refuted]        (finding: tag-contains-field-separator)
    The strongest true weakening is [C16_matcher_correct] (hypothesis [wf_key]). *)
From Verif Require Import Base.Prelude Model.C16 Proofs.C16 Proofs.C16_key Proofs.C16_alt.

(** For every regex oracle, every predicate built from tag refs / literals / regexes with
    = != startsWith < <= > >= =~ !~ joined by AND / OR (each comparison mentioning a tag), and
    every series with distinct tag keys, non-empty values (any measurement name, '=' included), no
    component ending in a backslash and no "#!~#" in the key — escaped spaces, commas and
    equals signs in names, keys and values included — the compiled matcher (pop-tag walk over
    the key bytes in either variant, memoised three-valued update, early exit) answers exactly
    [holds]. *)
Theorem C16_matcher_correct : forall rm p name env,
  wf_pred p = true -> wf_key name env = true ->
  matches rm p (make_key name env) = holds rm p env.
Proof. exact matcher_correct. Qed.
Print Assumptions C16_matcher_correct.

(** The same for the key that tsdb.PredicateSeriesIDIterator hands to Matches:
    MakeKey(name, (\x00, name) :: tags); the predicate sees the measurement as tag \x00. *)
Theorem C16_engine_key_correct : forall rm p name tags,
  wf_pred p = true -> wf_key name ((MTAG, name) :: tags) = true ->
  matches rm p (engine_key name tags) = holds rm p ((MTAG, name) :: tags).
Proof. intros. unfold engine_key. apply matcher_correct; auto. Qed.
Print Assumptions C16_engine_key_correct.

(** Everything predicate.Parse -> predicate.New can produce (tag = / != "literal", AND) is
    accepted by buildPredicateNode and covered by the theorem above. *)
Theorem C16_api_predicates_correct : forall rm p name tags,
  api_pred p = true -> wf_key name ((MTAG, name) :: tags) = true ->
  valid p = true /\
  matches rm p (engine_key name tags) = holds rm p ((MTAG, name) :: tags).
Proof.
  intros rm p name tags Ha Hk. destruct (api_pred_wf p Ha) as [Hw Hv]. split; auto.
  apply C16_engine_key_correct; auto.
Qed.
Print Assumptions C16_api_predicates_correct.

(** Memoisation is sound: with valid caches, Update returns the response of the uncached tree,
    leaves valid caches and does not change the tree. *)
Theorem C16_memoisation_sound : forall rm g n, cv rm g n ->
  fst (update rm g n) = mresp rm g (erase n) /\
  cv rm g (snd (update rm g n)) /\
  erase (snd (update rm g n)) = erase n.
Proof. exact update_spec. Qed.
Print Assumptions C16_memoisation_sound.

(** Early exit is sound: a definite response never changes when more tags become known (this
    also keeps the caches valid, [cv_mono]). *)
Theorem C16_early_exit_sound : forall rm g g', gle g g' ->
  forall p b, mresp rm g p = Some b -> mresp rm g' p = Some b.
Proof. exact mresp_mono. Qed.
Print Assumptions C16_early_exit_sound.

(** Kleene + "final unknown = no match" = two-valued with "comparison on an absent tag is false". *)
Theorem C16_final_unknown_is_no_match : forall rm p env,
  holds rm p env = eval2 rm (lookup env) p.
Proof. exact holds_eval2. Qed.
Print Assumptions C16_final_unknown_is_no_match.

(** ** The other reading: absent tag = empty string *)
Theorem C16_absent_as_empty_refuted :
  exists p name tags,
    api_pred p = true /\ wf_key name ((MTAG, name) :: tags) = true /\
    forall rm, matches rm p (engine_key name tags) = false /\
               holds_absent_empty rm p ((MTAG, name) :: tags) = true.
Proof.
  exists w_neq_pred, b_m, [(b_u, b_1)].
  split; [reflexivity|]. split; [vm_compute; reflexivity|].
  intros rm. split; vm_compute; reflexivity.
Qed.
Print Assumptions C16_absent_as_empty_refuted.

Theorem C16_absent_as_empty_partial : forall rm p name env,
  wf_pred p = true -> wf_key name env = true ->
  (forall k, In k (refs p) -> lookup env k <> None) \/ pos_pred p = true ->
  matches rm p (make_key name env) = holds_absent_empty rm p env.
Proof.
  intros rm p name env Hw Hk H. rewrite matcher_correct; auto.
  destruct H as [H|H].
  - apply readings_agree_when_present; auto.
  - apply readings_agree_on_positive; auto.
Qed.
Print Assumptions C16_absent_as_empty_partial.

(** ** Refutations of the full statement (each reproduced on the real code by the driver),
       and the repaired one *)

(** measurement "a=b", predicate a = "b", series without tag a: the former witness of finding
    measurement-name-with-equals-parsed-as-tag (the first key segment [a=b] used to be popped
    as tag a = b).  With the measurement segment skipped it is an ordinary well-formed series:
    no match, as [holds] says. *)
Example C16_equals_in_measurement_fixed :
  api_pred w_eq_pred = true /\ has_eq w_eq_name = true /\
  wf_key w_eq_name ((MTAG, w_eq_name) :: [(b_t, b_1)]) = true /\
  forall rm, matches rm w_eq_pred (engine_key w_eq_name [(b_t, b_1)]) = false /\
             holds rm w_eq_pred ((MTAG, w_eq_name) :: [(b_t, b_1)]) = false.
Proof.
  split; [reflexivity|]. split; [reflexivity|]. split; [vm_compute; reflexivity|].
  intros rm. split; vm_compute; reflexivity.
Qed.

(** tag value "a\" : MakeKey does not escape the backslash, the following comma looks escaped *)
Theorem C16_trailing_backslash_refuted :
  exists p name env,
    api_pred p = true /\ wf_name name = true /\
    forall rm, matches rm p (make_key name env) = false /\ holds rm p env = true.
Proof.
  exists w_bsl_pred, b_m, w_bsl_env.
  split; [reflexivity|]. split; [reflexivity|].
  intros rm. split; vm_compute; reflexivity.
Qed.
Print Assumptions C16_trailing_backslash_refuted.

(** tag value containing "#!~#": SeriesAndFieldFromCompositeKey cuts the key there *)
Theorem C16_field_separator_refuted :
  exists p name env,
    api_pred p = true /\ wf_name name = true /\ wf_env env = true /\
    forall rm, matches rm p (make_key name env) = false /\ holds rm p env = true.
Proof.
  exists w_bsl_pred, b_m, w_sep_env.
  split; [reflexivity|]. split; [reflexivity|]. split; [vm_compute; reflexivity|].
  intros rm. split; vm_compute; reflexivity.
Qed.
Print Assumptions C16_field_separator_refuted.

(** Non-vacuity: an escape-heavy series (measurement "a b", tag "k,1" = "a=b") satisfies the
    hypotheses; the predicate _measurement = "a b" AND "k,1" != "x" matches it and
    _measurement = "a b" AND "k,1" != "a=b" does not. *)
Example C16_nonvacuous :
  let name : bytes := [97; 32; 98]%N in
  let k : bytes := [107; 44; 49]%N in
  let v : bytes := [97; 61; 98]%N in
  let env : tagset := [(MTAG, name); (k, v)] in
  let p (w : bytes) := PAnd (PCmp OpEq (LRef MTAG) (RLit name)) (PCmp OpNeq (LRef k) (RLit w)) in
  wf_key name env = true /\ wf_pred (p [120]%N) = true /\ api_pred (p [120]%N) = true /\
  (forall rm, matches rm (p [120]%N) (make_key name env) = true) /\
  (forall rm, matches rm (p v) (make_key name env) = false).
Proof. repeat split; intros; vm_compute; reflexivity. Qed.
