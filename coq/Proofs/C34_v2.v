(** C34 — the humanize (float64) path: exact on representable values, lossy above 2^53. *)
From Verif Require Import Base.Prelude Model.C34 Proofs.C34_dec Proofs.C34_float.
From Coq Require Import ZifyBool ZifyNat ZifyN.
Local Open Scope N_scope.

Lemma forallb_impl (f g : N -> bool) l :
  (forall c, f c = true -> g c = true) -> forallb f l = true -> forallb g l = true.
Proof.
  intros H. induction l as [|c l IH]; cbn; [reflexivity|].
  intro E. apply andb_true_iff in E as [E1 E2]. rewrite (H c E1), IH by exact E2. reflexivity.
Qed.

Lemma digit_numchar c : is_digit c = true -> is_numchar c = true.
Proof. unfold is_numchar. intros ->. reflexivity. Qed.

Lemma filter_digits l :
  forallb is_digit l = true -> filter (fun c => negb (c =? 44)) l = l.
Proof.
  induction l as [|c l IH]; cbn; [reflexivity|]. intro E.
  apply andb_true_iff in E as [E1 E2]. rewrite IH by exact E2.
  assert ((c =? 44) = false) by (unfold is_digit in E1; lia). rewrite H. reflexivity.
Qed.

Lemma parse_decimal_dec n : parse_decimal (dec n) = Some (n, 1).
Proof.
  unfold parse_decimal.
  rewrite take_while_all, drop_while_all by apply dec_digits.
  destruct (dec n) eqn:E; [exfalso; eapply dec_nonempty; eauto|].
  rewrite <- E, dec_value_dec. reflexivity.
Qed.

Lemma pow2_64_1024 : 2 ^ 64 < 2 ^ 1024.
Proof. apply N.pow_lt_mono_r; lia. Qed.

(** humanize.ParseBytes on "digits unit" is exact when the mantissa, the unit and the
    product all fit 53 bits. *)
Lemma parse_bytes_exact n name m :
  stops is_numchar name ->
  lookup (map to_lower (trim_space name)) size_table = Some m -> 0 < m ->
  repr53 n = true -> repr53 m = true -> repr53 (n * m) = true -> n * m < 2 ^ 64 ->
  parse_bytes (dec n ++ name) = Some (n * m).
Proof.
  intros Hst Hlk Hm Rn Rm Rnm Hlt. unfold parse_bytes.
  assert (Hnum : forallb is_numchar (dec n) = true)
    by (eapply forallb_impl; [exact digit_numchar | apply dec_digits]).
  rewrite take_while_app, drop_while_app by assumption.
  rewrite filter_digits by apply dec_digits. rewrite parse_decimal_dec.
  pose proof (rnd_int n 1 n ltac:(lia) ltac:(lia) Rn) as V1.
  rewrite (ge_veq _ n 1024 V1).
  assert (Hn64 : n < 2 ^ 64) by nia.
  pose proof pow2_64_1024 as H1024.
  destruct (2 ^ 1024 <=? n) eqn:E1; [apply N.leb_le in E1; lia|].
  rewrite Hlk.
  pose proof (fmul_veq _ _ n m V1 (fl_of_N_veq m Rm) Rnm) as V2.
  rewrite (ge_veq _ (n * m) 64 V2).
  destruct (2 ^ 64 <=? n * m) eqn:E2; [apply N.leb_le in E2; lia|].
  rewrite (floor_veq _ _ V2). reflexivity.
Qed.

(** ** SizeV2 / SSizeV2 round trip: every value (plain integers take the strconv path) *)
Lemma sizev2_roundtrip n :
  n < 2 ^ 64 -> unmarshal_v2 false (dec n) = Some (Z.of_N n).
Proof.
  intro Hn. unfold unmarshal_v2, parse_bytes_unsigned. rewrite parse_uint3_dec.
  destruct (n <? 2 ^ 64) eqn:E; [reflexivity|lia].
Qed.

(** The float path alone (the code before the repair) is exact only on representable values. *)
Lemma float_path_repr n :
  n < 2 ^ 64 -> repr53 n = true -> parse_bytes (dec n) = Some n.
Proof.
  intros Hn Hr.
  pose proof (parse_bytes_exact n [] 1 I eq_refl ltac:(lia) Hr eq_refl) as H.
  rewrite N.mul_1_r, app_nil_r in H. apply H; assumption.
Qed.

Lemma space_not_digit' c : is_digit c = true -> is_space c = false.
Proof. unfold is_digit, is_space, is_re_space. lia. Qed.

Lemma rstrip_digits l c :
  is_space c = false -> rstrip is_space (l ++ [c]) = l ++ [c].
Proof.
  intro H. unfold rstrip. rewrite rev_app_distr. cbn [rev app].
  cbn [drop_while]. rewrite H. cbn [rev]. rewrite rev_involutive. reflexivity.
Qed.

Lemma dec_last_digit n : exists l c, dec n = l ++ [c] /\ is_digit c = true.
Proof.
  pose proof (dec_digits n) as H. pose proof (dec_nonempty n) as Hne.
  destruct (exists_last Hne) as [l [c E]]. exists l, c. split; [exact E|].
  rewrite E, forallb_app in H. apply andb_true_iff in H as [_ H]. cbn in H.
  rewrite andb_true_r in H. exact H.
Qed.

Lemma trim_dec n : trim_space (dec n) = dec n.
Proof.
  unfold trim_space.
  destruct (dec_head_digit n) as [c [l [E Hc]]].
  assert (Hd : drop_while is_space (dec n) = dec n).
  { rewrite E. cbn. rewrite (space_not_digit' c Hc). reflexivity. }
  rewrite Hd. destruct (dec_last_digit n) as [l' [c' [E' Hc']]].
  rewrite E'. apply rstrip_digits, space_not_digit', Hc'.
Qed.

Lemma trim_neg_dec n : trim_space (45 :: dec n) = 45 :: dec n.
Proof.
  unfold trim_space. cbn [drop_while]. change (is_space 45) with false. cbv iota.
  destruct (dec_last_digit n) as [l' [c' [E' Hc']]]. rewrite E'.
  change (45 :: l' ++ [c']) with ((45 :: l') ++ [c']).
  apply rstrip_digits, space_not_digit', Hc'.
Qed.

Lemma parse_bytes_unsigned_dec n :
  parse_bytes_unsigned (dec n) = if n <? 2 ^ 64 then Some n else None.
Proof.
  unfold parse_bytes_unsigned. rewrite parse_uint3_dec. destruct (n <? 2 ^ 64); reflexivity.
Qed.

Lemma ssizev2_roundtrip z :
  (- 2 ^ 63 <= z < 2 ^ 63)%Z -> unmarshal_v2 true (dec_z z) = Some z.
Proof.
  intros Hz. unfold unmarshal_v2, parse_bytes_signed, dec_z.
  change (2 ^ 63)%Z with 9223372036854775808%Z in *.
  destruct (z <? 0)%Z eqn:Ez.
  - rewrite trim_neg_dec. change (45 =? 45) with true. cbv iota.
    rewrite parse_bytes_unsigned_dec.
    change (2 ^ 64) with 18446744073709551616.
    change (2 ^ 63) with 9223372036854775808. change (2 ^ 63)%Z with 9223372036854775808%Z.
    split_ifs; try lia; f_equal; lia.
  - rewrite trim_dec.
    destruct (dec_head_digit (Z.to_N z)) as [c [l [E Hc]]]. rewrite E.
    assert (H45 : (c =? 45) = false) by (unfold is_digit in Hc; lia). rewrite H45, <- E.
    rewrite parse_bytes_unsigned_dec.
    change (2 ^ 64) with 18446744073709551616. change (2 ^ 63) with 9223372036854775808.
    split_ifs; try lia; f_equal; lia.
Qed.

(** Signed overflow of a plain integer text is rejected, never wrapped or rounded. *)
Lemma ssizev2_plain_overflow_rejected n :
  2 ^ 63 < n -> unmarshal_v2 true (45 :: dec n) = None /\ unmarshal_v2 true (dec n) = None.
Proof.
  intro Hn. unfold unmarshal_v2, parse_bytes_signed.
  change (2 ^ 63) with 9223372036854775808 in *. split.
  - rewrite trim_neg_dec. change (45 =? 45) with true. cbv iota.
    rewrite parse_bytes_unsigned_dec. change (2 ^ 64) with 18446744073709551616.
    change (2 ^ 63) with 9223372036854775808. split_ifs; try lia; reflexivity.
  - rewrite trim_dec.
    destruct (dec_head_digit n) as [c [l [E Hc]]]. rewrite E.
    assert (H45 : (c =? 45) = false) by (unfold is_digit in Hc; lia). rewrite H45, <- E.
    rewrite parse_bytes_unsigned_dec. change (2 ^ 64) with 18446744073709551616.
    change (2 ^ 63) with 9223372036854775808. split_ifs; try lia; reflexivity.
Qed.

(** ** Units as named (humanize table), exact while the product fits 53 bits *)
Definition unit_entry_ok (e : list N * N) : bool :=
  let '(name, m) := e in
  match name with [] => true | c :: _ => negb (is_numchar c) end
  && option_eqb N.eqb (lookup (map to_lower (trim_space name)) size_table) (Some m)
  && (0 <? m) && repr53 m.

Lemma size_table_ok : forallb unit_entry_ok size_table = true.
Proof. vm_compute. reflexivity. Qed.

Lemma named_units_exact_float n name m :
  In (name, m) size_table -> n * m < 2 ^ 53 ->
  parse_bytes (dec n ++ name) = Some (n * m).
Proof.
  intros Hin Hlt.
  pose proof size_table_ok as Hok. rewrite forallb_forall in Hok.
  specialize (Hok _ Hin). unfold unit_entry_ok in Hok.
  apply andb_true_iff in Hok as [Hok Hr]. apply andb_true_iff in Hok as [Hok Hm].
  apply andb_true_iff in Hok as [Hs Hl].
  apply N.ltb_lt in Hm.
  assert (Hlk : lookup (map to_lower (trim_space name)) size_table = Some m).
  { destruct (lookup (map to_lower (trim_space name)) size_table) as [m'|]; [|discriminate].
    cbn in Hl. apply N.eqb_eq in Hl. congruence. }
  assert (Hn : n < 2 ^ 53) by nia.
  apply parse_bytes_exact; auto.
  - destruct name as [|c r]; [exact I|]. cbn. destruct (is_numchar c); [discriminate|reflexivity].
  - apply repr53_small, Hn.
  - apply repr53_small, Hlt.
  - eapply N.lt_trans; [exact Hlt|]. apply N.pow_lt_mono_r; lia.
Qed.

Lemma named_units_exact n name m :
  In (name, m) size_table -> n * m < 2 ^ 53 ->
  parse_bytes_unsigned (dec n ++ name) = Some (n * m).
Proof.
  intros Hin Hlt.
  pose proof size_table_ok as Hok. rewrite forallb_forall in Hok.
  specialize (Hok _ Hin). unfold unit_entry_ok in Hok.
  apply andb_true_iff in Hok as [Hok Hr]. apply andb_true_iff in Hok as [Hok Hm].
  apply andb_true_iff in Hok as [Hs Hl]. apply N.ltb_lt in Hm.
  assert (H53 : 2 ^ 53 < 2 ^ 64) by (apply N.pow_lt_mono_r; lia).
  assert (Hn : n < 2 ^ 64) by nia.
  destruct name as [|c r].
  - (* no unit: the exact strconv path; the table says 1 *)
    rewrite app_nil_r, parse_bytes_unsigned_dec.
    destruct (n <? 2 ^ 64) eqn:E; [|lia].
    pose proof (named_units_exact_float n [] m Hin Hlt) as Hf.
    rewrite app_nil_r, float_path_repr in Hf by (try apply repr53_small; nia). congruence.
  - unfold parse_bytes_unsigned.
    assert (Hc : is_digit c = false).
    { destruct (is_digit c) eqn:Ed; [|reflexivity].
      rewrite (digit_numchar c Ed) in Hs. discriminate. }
    rewrite (parse_uint3_dec_then n c r Hn Hc).
    apply named_units_exact_float; assumption.
Qed.

(** ** Witnesses *)
(** the float path alone (pre-repair behaviour of SizeV2 on plain integers) *)
Lemma float_path_witness :
  parse_bytes (dec 9007199254740993) = Some 9007199254740992.
Proof. vm_compute. reflexivity. Qed.

(** residual: number + unit still goes through float64 *)
Lemma unit_product_witness :
  unmarshal TV2 (dec 17179869183 ++ [103]) = Some 17179869183000000512%Z
  /\ 17179869183 * 10 ^ 9 < 2 ^ 64.
Proof. split; vm_compute; reflexivity. Qed.

Lemma sizev2_toml_witness :
  unmarshal_toml TV2 9223372036854775808 (marshal TV2 9223372036854775808) = None
  /\ unmarshal TV2 (marshal TV2 9223372036854775808) = Some 9223372036854775808%Z.
Proof. split; vm_compute; reflexivity. Qed.

(** ** A bare number at or above 2^64 is rejected (never wrapped) *)
Lemma sizev2_overflow_rejected n : 2 ^ 64 <= n -> unmarshal_v2 false (dec n) = None.
Proof.
  intro Hn. unfold unmarshal_v2. rewrite parse_bytes_unsigned_dec.
  destruct (n <? 2 ^ 64) eqn:E; [lia|reflexivity].
Qed.

(** ... and so does the float path on its own (rounding is monotone at 2^64). *)
Lemma float_path_overflow_rejected n : 2 ^ 64 <= n -> parse_bytes (dec n) = None.
Proof.
  intro Hn. unfold parse_bytes.
  assert (Hnum : forallb is_numchar (dec n) = true)
    by (eapply forallb_impl; [exact digit_numchar | apply dec_digits]).
  rewrite take_while_all, drop_while_all by exact Hnum.
  rewrite filter_digits by apply dec_digits. rewrite parse_decimal_dec.
  destruct (fl_ge_pow2 (rnd n 1) 1024); [reflexivity|].
  change (lookup (map to_lower (trim_space [])) size_table) with (Some 1).
  destruct (rnd_ge64 n 1 ltac:(lia) ltac:(lia)) as [Hb Hge].
  unfold fl_ge_pow2 in Hge. apply N.leb_le in Hge.
  assert (V1 : veq (fl_of_N 1) 1) by (apply fl_of_N_veq; reflexivity).
  destruct V1 as [V1a V1b].
  destruct (rnd_ge64 (fst (rnd n 1) * fst (fl_of_N 1)) (snd (rnd n 1) * snd (fl_of_N 1))
              ltac:(nia) ltac:(rewrite V1b; nia)) as [_ H2].
  unfold fmul. rewrite H2. reflexivity.
Qed.
