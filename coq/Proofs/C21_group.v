(** C21 — ReadGroup: the groups partition the rows of the filter read; groups are strictly
    ordered by their sort key; the sort key orders partition-value tuples (nil last). *)
From Coq Require Import String Ascii Sorting.Sorted Permutation.
From Verif Require Import Base.Prelude Model.C21 Proofs.C21_order.

Lemma sltb_asym x y : sltb x y = true -> sltb y x = false.
Proof.
  unfold sltb. intro H. destruct (scmp x y) eqn:E; try discriminate.
  rewrite (ok_lt_gt _ scmp_order _ _ E). reflexivity.
Qed.
Lemma sltb_false x y : sltb y x = false <-> scmp x y = Lt \/ x = y.
Proof.
  unfold sltb. split.
  - destruct (scmp y x) eqn:E; try discriminate; intros _.
    + right. symmetry. apply (ok_eq _ scmp_order), E.
    + left. apply (ok_gt_lt _ scmp_order), E.
  - intros [H| ->].
    + rewrite (ok_lt_gt _ scmp_order _ _ H). reflexivity.
    + rewrite (ok_refl _ scmp_order). reflexivity.
Qed.
Lemma sltb_ntrans x y z : sltb y x = false -> sltb z y = false -> sltb z x = false.
Proof.
  rewrite !sltb_false. intros [H1| ->] [H2| ->]; auto.
  left. eapply (ok_trans _ scmp_order); eauto.
Qed.

Lemma sorted_suffix {A} (R : A -> A -> Prop) l1 l2 :
  StronglySorted R (l1 ++ l2) -> StronglySorted R l2.
Proof.
  induction l1 as [|x l1 IH]; cbn; auto. intro S. inversion S; subst. auto.
Qed.

Section Grouping.
  Context {R : Type}.
  Definition keyed := (string * R)%type.
  Definition kltb (a b : keyed) : bool := sltb (fst a) (fst b).

  Lemma kltb_asym x y : kltb x y = true -> kltb y x = false.
  Proof. apply sltb_asym. Qed.
  Lemma kltb_ntrans x y z : kltb y x = false -> kltb z y = false -> kltb z x = false.
  Proof. apply sltb_ntrans. Qed.

  Lemma take_group_split k (l : list keyed) :
    exists pre, l = pre ++ snd (take_group k l) /\ fst (take_group k l) = map snd pre /\
                Forall (fun e : keyed => fst e = k) pre /\
                match snd (take_group k l) with [] => True | e :: _ => fst e <> k end.
  Proof.
    induction l as [|[k' r] l IH]; cbn.
    - exists []. cbn. auto.
    - destruct (String.eqb k k') eqn:E.
      + destruct IH as [pre [E1 [E2 [F N]]]]. destruct (take_group k l) as [g rest]; cbn in *.
        exists ((k', r) :: pre). cbn.
        split; [f_equal; exact E1|]. split; [f_equal; exact E2|]. split; [|exact N].
        constructor; auto. cbn. symmetry. apply String.eqb_eq, E.
      + exists []. cbn. repeat split; auto. intro H. subst.
        rewrite String.eqb_refl in E. discriminate.
  Qed.

  Variable keys : list string.
  Variable tg : R -> tags.

  (** the sort key shared by the rows of a group *)
  Definition gk (g : list R) : string :=
    match g with r :: _ => sort_key keys (tg r) | [] => EmptyString end.
  Definition keyed_ok (l : list keyed) : Prop :=
    forall e, In e l -> fst e = sort_key keys (tg (snd e)).
  Definition group_ok (g : list R) : Prop :=
    g <> [] /\ forall r, In r g -> sort_key keys (tg r) = gk g.

  Lemma split_groups_spec n : forall l : list keyed,
    length l <= n -> keyed_ok l -> StronglySorted (nlt kltb) l ->
    let gs := split_groups n l in
    concat gs = map snd l /\
    Forall group_ok gs /\
    StronglySorted (clt scmp) (map gk gs) /\
    (forall g, In g gs -> exists e, In e l /\ fst e = gk g).
  Proof.
    induction n as [|n IH]; intros l Hn K S.
    { destruct l; cbn in *; [|lia]. repeat split; auto; try constructor. intros g []. }
    destruct l as [|[k r] l'].
    { cbn. repeat split; auto; try constructor. intros g []. }
    cbn [split_groups].
    inversion S as [|? ? S' F']; subst.
    destruct (take_group_split k l') as [pre [E1 [E2 [F N]]]].
    destruct (take_group k l') as [g rest]; cbn [fst snd] in *.
    assert (Hlen : length rest <= n).
    { cbn in Hn. rewrite E1, app_length in Hn. lia. }
    assert (Krest : keyed_ok rest).
    { intros e He. apply K. right. rewrite E1. apply in_or_app. auto. }
    assert (Srest : StronglySorted (nlt kltb) rest).
    { rewrite E1 in S'. eapply sorted_suffix, S'. }
    destruct (IH rest Hlen Krest Srest) as [I1 [I2 [I3 I4]]].
    assert (Kk : k = sort_key keys (tg r)) by (apply (K (k, r)); left; reflexivity).
    (* every entry of the rest has a strictly larger key *)
    assert (Big : forall e, In e rest -> scmp k (fst e) = Lt).
    { rewrite Forall_forall in F'.
      assert (Ge : forall e, In e rest -> scmp k (fst e) = Lt \/ k = fst e).
      { intros e He. apply sltb_false. apply (F' e). rewrite E1. apply in_or_app; auto. }
      destruct rest as [|e1 rest']; [intros e []|].
      assert (L1 : scmp k (fst e1) = Lt).
      { destruct (Ge e1 (or_introl eq_refl)) as [H|H]; auto. exfalso. apply N. auto. }
      intros e [<-|He]; auto.
      inversion Srest as [|? ? _ F1]; subst. rewrite Forall_forall in F1.
      specialize (F1 e He). unfold nlt, kltb in F1. apply sltb_false in F1 as [H| H].
      - eapply (ok_trans _ scmp_order); eauto.
      - rewrite <- H. exact L1. }
    cbn [concat map]. repeat split.
    - cbn. rewrite I1, E2, E1, map_app. reflexivity.
    - constructor; auto. split; [discriminate|].
      unfold gk. intros r' [<-|Hr']; auto.
      rewrite E2 in Hr'. apply in_map_iff in Hr' as [e [<- He]]. rewrite Forall_forall in F.
      rewrite <- (K e), (F e He); auto. right. rewrite E1. apply in_or_app; auto.
    - constructor; auto. rewrite Forall_forall. intros s Hs.
      apply in_map_iff in Hs as [g' [<- Hg']]. destruct (I4 g' Hg') as [e [He Ee]].
      unfold clt. unfold gk at 1. rewrite <- Kk, <- Ee. apply Big, He.
    - intros g' [<-|Hg'].
      + exists (k, r). split; [left; reflexivity|]. unfold gk. exact Kk.
      + destruct (I4 g' Hg') as [e [He Ee]]. exists e. split; auto.
        right. rewrite E1. apply in_or_app; auto.
  Qed.
End Grouping.

(** * The group read *)
Lemma read_rows_tags ty sel lo hi rows : forall st,
  map fst (fst (read_rows ty sel lo hi st rows)) = map srow_tags rows.
Proof.
  induction rows as [|r rows IH]; intro st; cbn; auto. unfold read_one.
  destruct (multi_cursor_v st (ty_of ty (r_f r)) (r_cond r) sel lo hi (r_s r) (r_f r)) as [pts st1].
  specialize (IH st1). destruct (read_rows ty sel lo hi st1 rows) as [xs st2]. cbn in *.
  rewrite IH. reflexivity.
Qed.

(** the series rows (identified by their tag sets) of each returned group *)
Definition group_tags (gs : list group) : list (list tags) :=
  map (fun g => map fst (g_rows g)) gs.

Lemma read_groups_tags ty sel lo hi keys sgs : forall st,
  group_tags (read_groups ty sel lo hi keys st sgs) = map (map srow_tags) sgs.
Proof.
  induction sgs as [|g sgs IH]; intro st; cbn; auto.
  pose proof (read_rows_tags ty sel lo hi g st) as E.
  destruct (read_rows ty sel lo hi st g) as [rows st']. cbn in *. rewrite E, IH. reflexivity.
Qed.

Lemma read_groups_vals ty sel lo hi keys sgs : forall st,
  map g_vals (read_groups ty sel lo hi keys st sgs)
  = map (fun g => part_vals keys (match g with r :: _ => srow_tags r | [] => [] end)) sgs.
Proof.
  induction sgs as [|g sgs IH]; intro st; cbn; auto.
  destruct (read_rows ty sel lo hi st g) as [rows st']. cbn. rewrite IH. reflexivity.
Qed.

(** the rows kept by the sorting pass of a group read *)
Definition kept_srows ty shs start end_ p (all_time : bool) : list srow :=
  let lo := clamp_start start in
  let e := clamp_end end_ in
  let sel := select_shards shs lo e in
  fst (sort_pass ty sel lo (e - 1) all_time [] (srows sel p)).

Lemma sort_pass_incl ty sel lo hi all_time rows : forall st r,
  In r (fst (sort_pass ty sel lo hi all_time st rows)) -> In r rows.
Proof.
  induction rows as [|x rows IH]; intros st r; cbn; auto.
  destruct all_time.
  - specialize (IH st r). destruct (sort_pass ty sel lo hi true st rows). cbn in *. tauto.
  - destruct (read_one ty sel lo hi st x) as [y st1]. specialize (IH st1 r).
    destruct (sort_pass ty sel lo hi false st1 rows). cbn in *.
    destruct (has_points y); cbn; tauto.
Qed.
Lemma sort_pass_all_time ty sel lo hi rows st :
  fst (sort_pass ty sel lo hi true st rows) = rows.
Proof.
  induction rows as [|x rows IH]; cbn; auto.
  destruct (sort_pass ty sel lo hi true st rows). cbn in *. congruence.
Qed.

Lemma gk_map keys (g : list srow) :
  gk keys (fun t : tags => t) (map srow_tags g) = gk keys srow_tags g.
Proof. destruct g; reflexivity. Qed.
Lemma group_ok_map keys (g : list srow) :
  group_ok keys srow_tags g -> group_ok keys (fun t : tags => t) (map srow_tags g).
Proof.
  intros [NE H]. split.
  - destruct g; [congruence|discriminate].
  - intros t Ht. apply in_map_iff in Ht as [r [<- Hr]]. rewrite gk_map. apply H, Hr.
Qed.

Lemma group_by_spec ty shs start end_ p keys all_time :
  let gs := read_group ty shs start end_ p GroupBy keys all_time in
  Permutation (concat (group_tags gs)) (map srow_tags (kept_srows ty shs start end_ p all_time)) /\
  Forall (group_ok keys (fun t => t)) (group_tags gs) /\
  StronglySorted (clt scmp) (map (gk keys (fun t => t)) (group_tags gs)).
Proof.
  unfold read_group, kept_srows. cbn zeta.
  set (lo := clamp_start start). set (e := clamp_end end_). set (sel := select_shards shs lo e).
  destruct (sort_pass ty sel lo (e - 1) all_time [] (srows sel p)) as [kept st1]. cbn [fst].
  set (kd := map (fun r => (sort_key keys (srow_tags r), r)) kept).
  rewrite read_groups_tags.
  match goal with |- context [split_groups ?n ?l] =>
    assert (K : keyed_ok keys srow_tags l);
    [ intros x He; apply isort_in in He; apply in_map_iff in He as [r [<- _]]; reflexivity |];
    destruct (split_groups_spec keys srow_tags n l (le_n _) K
                (isort_sorted kltb kltb_asym kltb_ntrans kd)) as [H1 [H2 [H3 _]]];
    assert (P : Permutation (map snd l) kept);
    [ transitivity (map snd kd);
      [ apply Permutation_map; symmetry; apply isort_perm
      | unfold kd; rewrite map_map; cbn; rewrite map_id; reflexivity ] |];
    rewrite <- H1 in P; clear H1 K;
    generalize dependent (split_groups n l)
  end.
  intros sgs H2 H3 P.
  split; [|split].
  - rewrite <- concat_map. apply Permutation_map, P.
  - rewrite Forall_forall in *. intros g Hg. apply in_map_iff in Hg as [g' [<- Hg']].
    apply group_ok_map, H2, Hg'.
  - rewrite map_map. erewrite map_ext; [exact H3|]. intro g. apply gk_map.
Qed.

Lemma nodup_map_inj {A B} (f : A -> B) l a b :
  NoDup (map f l) -> In a l -> In b l -> f a = f b -> a = b.
Proof.
  induction l as [|x l IH]; cbn; [tauto|]. intros ND Ha Hb E. inversion ND; subst.
  destruct Ha as [->|Ha], Hb as [->|Hb]; auto.
  - exfalso. apply H1. rewrite E. apply in_map, Hb.
  - exfalso. apply H1. rewrite <- E. apply in_map, Ha.
Qed.

(** no series row belongs to two different groups *)
Lemma group_by_exactly_one ty shs start end_ p keys all_time g1 g2 t :
  let gs := group_tags (read_group ty shs start end_ p GroupBy keys all_time) in
  In g1 gs -> In g2 gs -> In t g1 -> In t g2 -> g1 = g2.
Proof.
  intros gs H1 H2 R1 R2.
  destruct (group_by_spec ty shs start end_ p keys all_time) as [_ [F S]]. fold gs in F, S.
  rewrite Forall_forall in F.
  apply (nodup_map_inj (gk keys (fun t => t)) gs); auto.
  - apply (sorted_nodup _ scmp_order), S.
  - rewrite <- (proj2 (F g1 H1) t R1), <- (proj2 (F g2 H2) t R2). reflexivity.
Qed.

(** GroupNone: a single group over ALL series rows of the request, in cursor order *)
Lemma group_none_spec ty shs start end_ p keys all_time :
  let gs := read_group ty shs start end_ p GroupNone keys all_time in
  (kept_srows ty shs start end_ p all_time = [] /\ gs = []) \/
  (exists g, gs = [g] /\ g_vals g = [] /\
     map fst (g_rows g) =
     map srow_tags (srows (select_shards shs (clamp_start start) (clamp_end end_)) p)).
Proof.
  unfold read_group, kept_srows. cbn zeta.
  destruct (sort_pass _ _ _ _ _ _ _) as [kept st1]. cbn [fst].
  destruct kept; [left; auto|right]. eexists; repeat split. cbn. apply read_rows_tags.
Qed.

(** * The sort key orders partition-value tuples *)
Definition clean_char (c : ascii) : Prop := N_of_ascii c <> 0%N /\ N_of_ascii c <> 255%N.
Fixpoint clean (s : string) : Prop :=
  match s with EmptyString => True | String c r => clean_char c /\ clean r end.
Definition clean_tags (t : tags) : Prop := forall k v, In (k, v) t -> clean v.

Definition enc (o : option string) : string := match o with Some v => v | None => NILHI end.

Lemma acmp_N a b : Ascii.compare a b = N.compare (N_of_ascii a) (N_of_ascii b).
Proof. reflexivity. Qed.
Lemma scmp_cons c d x y :
  scmp (String c x) (String d y) = lex (Ascii.compare c d) (scmp x y).
Proof. unfold scmp; cbn [String.compare]. destruct (Ascii.compare c d); reflexivity. Qed.
Lemma append_cons c x y : String.append (String c x) y = String c (String.append x y).
Proof. reflexivity. Qed.
Lemma append_nil y : String.append EmptyString y = y.
Proof. reflexivity. Qed.
Lemma N_nul : N_of_ascii (ascii_of_N 0) = 0%N. Proof. reflexivity. Qed.
Lemma N_hi : N_of_ascii (ascii_of_N 255) = 255%N. Proof. reflexivity. Qed.
Opaque N_of_ascii ascii_of_N.

Lemma clean_sep_cmp v1 v2 s1 s2 :
  clean v1 -> clean v2 ->
  scmp (String.append v1 (String.append NUL s1)) (String.append v2 (String.append NUL s2))
  = lex (scmp v1 v2) (scmp s1 s2).
Proof.
  revert v2. induction v1 as [|c v1 IH]; intros [|d v2]; intros C1 C2;
    rewrite ?append_cons, ?append_nil.
  - unfold NUL. rewrite !append_cons, !append_nil, scmp_cons, (ok_refl _ ascii_order).
    reflexivity.
  - unfold NUL at 1. rewrite append_cons, scmp_cons, acmp_N, N_nul.
    destruct C2 as [[C2 _] _]. cbn [scmp String.compare lex].
    destruct (N.compare_spec 0 (N_of_ascii d)); auto; lia.
  - unfold NUL at 2. rewrite append_cons, scmp_cons, acmp_N, N_nul.
    destruct C1 as [[C1 _] _]. cbn [scmp String.compare lex].
    destruct (N.compare_spec (N_of_ascii c) 0); auto; lia.
  - destruct C1 as [_ C1], C2 as [_ C2]. rewrite !scmp_cons, (IH v2 C1 C2).
    destruct (Ascii.compare c d); reflexivity.
Qed.

Lemma nil_vs_clean v s1 s2 :
  clean v -> v <> EmptyString ->
  scmp (String.append NILHI (String.append NUL s1)) (String.append v (String.append NUL s2)) = Gt.
Proof.
  destruct v as [|c v]; [congruence|]. intros [[_ C] _] _. unfold NILHI.
  rewrite !append_cons, scmp_cons, acmp_N, N_hi. pose proof (N_ascii_bounded c).
  destruct (N.compare_spec 255 (N_of_ascii c)); cbn [lex]; auto; lia.
Qed.

Definition oclean (o : option string) : Prop :=
  match o with Some v => clean v /\ v <> EmptyString | None => True end.

Lemma enc_cmp o1 o2 s1 s2 :
  oclean o1 -> oclean o2 ->
  scmp (String.append (enc o1) (String.append NUL s1))
       (String.append (enc o2) (String.append NUL s2))
  = lex (oval_cmp o1 o2) (scmp s1 s2).
Proof.
  destruct o1 as [v1|], o2 as [v2|]; cbn [enc oval_cmp oclean]; intros C1 C2.
  - apply clean_sep_cmp; tauto.
  - rewrite (ok_anti _ scmp_order). rewrite nil_vs_clean; tauto.
  - rewrite nil_vs_clean; tauto.
  - unfold NILHI, NUL. rewrite !append_cons, !append_nil, !scmp_cons.
    rewrite !(ok_refl _ ascii_order). reflexivity.
Qed.

Lemma tags_get_in t k v : tags_get t k = Some v -> In (k, v) t.
Proof.
  induction t as [|[k' v'] t IH]; cbn; [discriminate|].
  destruct (String.eqb k' k) eqn:E.
  - intro H. inversion H; subst. apply String.eqb_eq in E. subst. auto.
  - auto.
Qed.

Lemma oclean_get t k : clean_tags t -> oclean (nonempty_opt (tags_get t k)).
Proof.
  intro C. destruct (tags_get t k) as [v|] eqn:E; cbn; auto.
  destruct v as [|c v]; cbn; auto. split; [|discriminate].
  exact (C k (String c v) (tags_get_in _ _ _ E)).
Qed.

(** for tag values without NUL and 0xff bytes the byte order of sort keys is the
    lexicographic order of the partition-value tuples, a missing (or empty) value last *)
Lemma sort_key_tuple keys t1 t2 :
  clean_tags t1 -> clean_tags t2 ->
  scmp (sort_key keys t1) (sort_key keys t2)
  = tuple_cmp (map nonempty_opt (part_vals keys t1)) (map nonempty_opt (part_vals keys t2)).
Proof.
  intros C1 C2. induction keys as [|k keys IH]; [reflexivity|].
  cbn [sort_key part_vals map tuple_cmp].
  pose proof (enc_cmp (nonempty_opt (tags_get t1 k)) (nonempty_opt (tags_get t2 k))
                      (sort_key keys t1) (sort_key keys t2)
                      (oclean_get t1 k C1) (oclean_get t2 k C2)) as E.
  unfold enc in E. rewrite E, IH. unfold lex.
  destruct (oval_cmp _ _); reflexivity.
Qed.

Lemma oval_cmp_eq a b : oval_cmp a b = Eq -> a = b.
Proof.
  destruct a, b; cbn; try discriminate; auto. intro H.
  apply (ok_eq _ scmp_order) in H. congruence.
Qed.
Lemma tuple_cmp_eq a : forall b, tuple_cmp a b = Eq -> a = b.
Proof.
  induction a as [|x a IH]; intros [|y b]; cbn; try discriminate; auto.
  destruct (oval_cmp x y) eqn:E; try discriminate. intro H.
  apply oval_cmp_eq in E. apply IH in H. congruence.
Qed.

(** two rows fall into the same group iff they agree on every group key *)
Lemma sort_key_injective keys t1 t2 :
  clean_tags t1 -> clean_tags t2 ->
  (sort_key keys t1 = sort_key keys t2 <->
   map nonempty_opt (part_vals keys t1) = map nonempty_opt (part_vals keys t2)).
Proof.
  intros C1 C2. pose proof (sort_key_tuple keys t1 t2 C1 C2) as E. split; intro H.
  - apply tuple_cmp_eq. rewrite <- E, H. apply (ok_refl _ scmp_order).
  - apply (ok_eq _ scmp_order). rewrite E, H.
    generalize (map nonempty_opt (part_vals keys t2)). intro l.
    induction l as [|x l IH]; cbn; auto.
    assert (oval_cmp x x = Eq) as ->; auto.
    destruct x; cbn; auto. apply (ok_refl _ scmp_order).
Qed.

(** without the cleanliness assumption the sort key is ambiguous: a NUL inside a tag value
    makes two different partition-value tuples collide *)
Definition dirty_t1 : tags :=
  [("t0"%string, String "a" (String (ascii_of_N 0) "b")); ("t1"%string, "c"%string)].
Definition dirty_t2 : tags :=
  [("t0"%string, "a"%string); ("t1"%string, String "b" (String (ascii_of_N 0) "c"))].
Lemma sort_key_collision :
  sort_key ["t0"%string; "t1"%string] dirty_t1 = sort_key ["t0"%string; "t1"%string] dirty_t2 /\
  part_vals ["t0"%string; "t1"%string] dirty_t1 <> part_vals ["t0"%string; "t1"%string] dirty_t2.
Proof. split; [reflexivity | discriminate]. Qed.
Transparent N_of_ascii ascii_of_N.
