(** C09 — proofs about the cache model: limit atomicity, store algebra, the size
    invariant over all histories, exactness of the accounting when reads remove
    nothing, and the refutation witnesses. *)
From Verif Require Import Base.Prelude Model.C09.
Local Open Scope Z_scope.

(** * Keys *)
Lemma key_eqb_eq a b : key_eqb a b = true <-> a = b.
Proof. unfold key_eqb. apply list_eqb_spec. intros x y. apply N.eqb_eq. Qed.
Lemma key_eqb_refl a : key_eqb a a = true.
Proof. apply key_eqb_eq. reflexivity. Qed.
Lemma key_eqb_neq a b : a <> b -> key_eqb a b = false.
Proof. intro H. destruct (key_eqb a b) eqn:E; [|reflexivity]. apply key_eqb_eq in E. contradiction. Qed.
Lemma key_eqb_sym a b : key_eqb a b = key_eqb b a.
Proof.
  destruct (key_eqb a b) eqn:E.
  - apply key_eqb_eq in E. subst. symmetry. apply key_eqb_refl.
  - destruct (key_eqb b a) eqn:E2; [|reflexivity]. apply key_eqb_eq in E2. subst.
    rewrite key_eqb_refl in E. discriminate.
Qed.

(** * Limit: a write over the limit is rejected and leaves the state untouched *)
Lemma write_multi_over s b : over_limit s b = true -> write_multi b s = (s, RLimit).
Proof. intro H. unfold write_multi. rewrite H. reflexivity. Qed.

Lemma write_multi_limit_iff s b : snd (write_multi b s) = RLimit <-> over_limit s b = true.
Proof.
  unfold write_multi. destruct (over_limit s b); cbn; [tauto|].
  destruct (write_loop _ _ _ _) as [[st sz] werr]. cbn. destruct werr; split; intro H; discriminate.
Qed.

Lemma write_multi_limit_unchanged s b : snd (write_multi b s) = RLimit -> fst (write_multi b s) = s.
Proof. intro H. apply write_multi_limit_iff in H. rewrite write_multi_over by assumption. reflexivity. Qed.

(** * Store algebra *)
Definition keys_nodup (st : store) : Prop := NoDup (map fst st).

Lemma find_upd_same k e st : find_e k (upd_e k e st) = Some e.
Proof.
  induction st as [|[k' e'] r IH]; cbn.
  - rewrite key_eqb_refl. reflexivity.
  - destruct (key_eqb k k') eqn:E; cbn.
    + rewrite key_eqb_refl. reflexivity.
    + rewrite E. exact IH.
Qed.

Lemma find_upd_other k k' e st : k' <> k -> find_e k' (upd_e k e st) = find_e k' st.
Proof.
  intro Hne. induction st as [|[k0 e0] r IH]; cbn.
  - rewrite key_eqb_neq by assumption. reflexivity.
  - destruct (key_eqb k k0) eqn:E; cbn.
    + apply key_eqb_eq in E. subst k0. rewrite key_eqb_neq by assumption. reflexivity.
    + destruct (key_eqb k' k0); [reflexivity|exact IH].
Qed.

Lemma find_rem_same k st : find_e k (rem_e k st) = None.
Proof.
  induction st as [|[k0 e0] r IH]; cbn; [reflexivity|].
  destruct (key_eqb k k0) eqn:E; cbn; [exact IH|]. rewrite E. exact IH.
Qed.

Lemma find_rem_other k k' st : k' <> k -> find_e k' (rem_e k st) = find_e k' st.
Proof.
  intro Hne. induction st as [|[k0 e0] r IH]; cbn; [reflexivity|].
  destruct (key_eqb k k0) eqn:E; cbn.
  - apply key_eqb_eq in E. subst k0. rewrite key_eqb_neq by assumption. exact IH.
  - destruct (key_eqb k' k0); [reflexivity|exact IH].
Qed.

Lemma find_none_notin k st : find_e k st = None -> ~ In k (map fst st).
Proof.
  induction st as [|[k0 e0] r IH]; cbn; [tauto|].
  destruct (key_eqb k k0) eqn:E; [discriminate|].
  intros H [H1|H1].
  - subst. rewrite key_eqb_refl in E. discriminate.
  - exact (IH H H1).
Qed.

Lemma notin_find_none k st : ~ In k (map fst st) -> find_e k st = None.
Proof.
  induction st as [|[k0 e0] r IH]; cbn; [reflexivity|].
  intro H. destruct (key_eqb k k0) eqn:E.
  - apply key_eqb_eq in E. subst. tauto.
  - apply IH. tauto.
Qed.

Lemma in_keys_upd k e st x : In x (map fst (upd_e k e st)) <-> x = k \/ In x (map fst st).
Proof.
  induction st as [|[k0 e0] r IH]; cbn.
  - intuition.
  - destruct (key_eqb k k0) eqn:E; cbn.
    + apply key_eqb_eq in E. subst. intuition.
    + rewrite IH. intuition.
Qed.

Lemma in_keys_rem k st x : In x (map fst (rem_e k st)) <-> x <> k /\ In x (map fst st).
Proof.
  induction st as [|[k0 e0] r IH]; cbn.
  - intuition.
  - destruct (key_eqb k k0) eqn:E; cbn.
    + apply key_eqb_eq in E. subst. rewrite IH. intuition. subst. tauto.
    + rewrite IH. assert (k0 <> k) by (intro; subst; rewrite key_eqb_refl in E; discriminate).
      intuition. subst. tauto.
Qed.

Lemma nodup_upd k e st : keys_nodup st -> keys_nodup (upd_e k e st).
Proof.
  unfold keys_nodup. induction st as [|[k0 e0] r IH]; cbn; intro H.
  - constructor; [tauto|constructor].
  - inversion H as [|? ? Hn Hr]; subst. destruct (key_eqb k k0) eqn:E; cbn.
    + apply key_eqb_eq in E. subst. constructor; assumption.
    + constructor; [|apply IH; assumption].
      rewrite in_keys_upd. intros [->|Hin]; [rewrite key_eqb_refl in E; discriminate|tauto].
Qed.

Lemma nodup_rem k st : keys_nodup st -> keys_nodup (rem_e k st).
Proof.
  unfold keys_nodup. induction st as [|[k0 e0] r IH]; cbn; intro H; [constructor|].
  inversion H as [|? ? Hn Hr]; subst. destruct (key_eqb k k0) eqn:E; cbn.
  - apply IH; assumption.
  - constructor; [|apply IH; assumption]. rewrite in_keys_rem. tauto.
Qed.

(** * Sizes *)
Lemma vsize_pos v : 8 <= vsize v.
Proof. destruct v; unfold vsize; lia. Qed.
Lemma vals_size_nonneg l : 0 <= vals_size l.
Proof.
  induction l as [|[t v] r IH]; cbn [vals_size snd]; [lia|].
  pose proof (vsize_pos v). lia.
Qed.
Lemma vals_size_app a b : vals_size (a ++ b) = vals_size a + vals_size b.
Proof. induction a as [|p r IH]; cbn; [reflexivity|]. rewrite IH. lia. Qed.
Lemma klen_nonneg k : 0 <= klen k.
Proof. unfold klen. lia. Qed.
Lemma held_nonneg st : 0 <= held st.
Proof.
  induction st as [|[k e] r IH]; cbn; [lia|].
  pose proof (vals_size_nonneg (evals e)). pose proof (klen_nonneg k). lia.
Qed.

Lemma vals_size_insert x l : vals_size (insert x l) = vsize (snd x) + vals_size l.
Proof.
  induction l as [|y r IH]; cbn; [reflexivity|].
  destruct (tsof x <=? tsof y); cbn; [reflexivity|]. rewrite IH. lia.
Qed.
Lemma vals_size_isort l : vals_size (isort l) = vals_size l.
Proof. induction l as [|x r IH]; cbn; [reflexivity|]. rewrite vals_size_insert, IH. reflexivity. Qed.
Lemma vals_size_keep_last l : vals_size (keep_last l) <= vals_size l.
Proof.
  induction l as [|x r IH]; [cbn; lia|].
  cbn [keep_last]. destruct r as [|y r'].
  - cbn. lia.
  - pose proof (vsize_pos (snd x)).
    destruct (tsof x =? tsof y).
    + change (vals_size (x :: y :: r')) with (vsize (snd x) + vals_size (y :: r')). lia.
    + change (vals_size (x :: keep_last (y :: r'))) with (vsize (snd x) + vals_size (keep_last (y :: r'))).
      change (vals_size (x :: y :: r')) with (vsize (snd x) + vals_size (y :: r')). lia.
Qed.
Lemma vals_size_dedup l : vals_size (dedup l) <= vals_size l.
Proof.
  unfold dedup. destruct (strict_sorted_b l); [lia|].
  pose proof (vals_size_keep_last (isort l)). rewrite vals_size_isort in H. exact H.
Qed.
Lemma vals_size_exclude mn mx l : vals_size (exclude mn mx l) <= vals_size l.
Proof.
  unfold exclude. induction l as [|p r IH]; cbn; [lia|].
  pose proof (vsize_pos (snd p)). destruct (negb (in_range mn mx p)); cbn; lia.
Qed.

Lemma held_upd k e st :
  held (upd_e k e st) =
  held st + vals_size (evals e) +
  match find_e k st with Some e0 => - vals_size (evals e0) | None => klen k end.
Proof.
  induction st as [|[k0 e0] r IH]; cbn.
  - lia.
  - destruct (key_eqb k k0) eqn:E; cbn.
    + apply key_eqb_eq in E. subst. lia.
    + rewrite IH. lia.
Qed.

Lemma held_rem k st :
  keys_nodup st ->
  held (rem_e k st) =
  held st - match find_e k st with Some e0 => klen k + vals_size (evals e0) | None => 0 end.
Proof.
  unfold keys_nodup. induction st as [|[k0 e0] r IH]; cbn; intro H; [lia|].
  inversion H as [|? ? Hn Hr]; subst. destruct (key_eqb k k0) eqn:E; cbn.
  - apply key_eqb_eq in E. subst. rewrite IH by assumption.
    rewrite (notin_find_none _ _ Hn). lia.
  - rewrite IH by assumption. lia.
Qed.

(** * One key of a write *)
Lemma entry_add_size e vs e' :
  entry_add e vs = Some e' -> vals_size (evals e') = vals_size (evals e) + vals_size vs.
Proof.
  unfold entry_add. destruct vs as [|p vs']; intro H.
  - inversion H; subst. cbn. lia.
  - destruct (negb (N.eqb (evtype e) 0) && negb (all_type (evtype e) (p :: vs'))); [discriminate|].
    destruct (evals e) as [|q l] eqn:El.
    + destruct (all_type (ptype p) (p :: vs')); [|discriminate]. inversion H; subst. cbn. lia.
    + inversion H; subst. cbn [evals vals_size app]. rewrite vals_size_app. cbn [vals_size]. lia.
Qed.
Lemma new_entry_size vs e : new_entry vs = Some e -> vals_size (evals e) = vals_size vs.
Proof.
  unfold new_entry. destruct vs as [|p vs']; intro H.
  - inversion H; subst. reflexivity.
  - destruct (all_type (ptype p) (p :: vs')); [|discriminate]. inversion H; subst. reflexivity.
Qed.

Lemma write_key_held st k vs st' nk :
  write_key st k vs = Some (st', nk) ->
  held st' = held st + vals_size vs + (if nk then klen k else 0)
  /\ (keys_nodup st -> keys_nodup st').
Proof.
  unfold write_key, key_write. intro H.
  destruct (find_e k st) as [e|] eqn:F.
  - destruct (entry_add e vs) as [e'|] eqn:A; [|discriminate]. inversion H; subst.
    split; [|apply nodup_upd]. rewrite held_upd, F. apply entry_add_size in A. lia.
  - destruct (new_entry vs) as [e'|] eqn:A; [|discriminate]. inversion H; subst.
    split; [|apply nodup_upd]. rewrite held_upd, F. apply new_entry_size in A. lia.
Qed.

Lemma write_loop_gap b : forall st sz werr st' sz' werr',
  write_loop b st sz werr = (st', sz', werr') ->
  sz' - held st' = sz - batch_size b - held st /\ (keys_nodup st -> keys_nodup st').
Proof.
  induction b as [|[k vs] r IH]; intros st sz werr st' sz' werr' H; cbn in H.
  - inversion H; subst. cbn. split; [lia|tauto].
  - cbn [batch_size]. destruct (write_key st k vs) as [[st1 nk]|] eqn:W.
    + apply write_key_held in W as [Wh Wn]. apply IH in H as [Hg Hn].
      split; [|tauto]. destruct nk; lia.
    + apply IH in H as [Hg Hn]. split; [lia|tauto].
Qed.

(** * DeleteRange *)
Lemma del_loop_gap ks mn mx : forall st sz st' sz',
  keys_nodup st -> del_loop ks mn mx st sz = (st', sz') ->
  sz' - held st' = sz - held st /\ keys_nodup st'.
Proof.
  induction ks as [|k r IH]; intros st sz st' sz' Hn H; cbn in H.
  - inversion H; subst. split; [lia|assumption].
  - destruct (find_e k st) as [e|] eqn:F; [|eapply IH; eassumption].
    destruct ((mn =? MinInt64) && (mx =? MaxInt64)).
    + apply IH in H as [Hg Hn']; [|apply nodup_rem; assumption].
      split; [|assumption]. rewrite held_rem, F in Hg by assumption. lia.
    + destruct (exclude mn mx (dedup (evals e))) as [|q l] eqn:Ev.
      * apply IH in H as [Hg Hn']; [|apply nodup_rem; assumption].
        split; [|assumption]. rewrite held_rem, F in Hg by assumption. lia.
      * apply IH in H as [Hg Hn']; [|apply nodup_upd; assumption].
        split; [|assumption]. rewrite held_upd, F in Hg. cbn [filter_entry evals] in Hg.
        rewrite Ev in Hg. lia.
Qed.

(** * Values only shrinks what is held *)
Lemma held_dedup_in k st : held (dedup_in k st) <= held st /\ (keys_nodup st -> keys_nodup (dedup_in k st)).
Proof.
  unfold dedup_in. destruct (find_e k st) as [e|] eqn:F; [|split; [lia|tauto]].
  split; [|apply nodup_upd]. rewrite held_upd, F. cbn.
  pose proof (vals_size_dedup (evals e)). lia.
Qed.

Lemma held_dedup_in_exact k st :
  vals_size (dedup (raw k st)) = vals_size (raw k st) -> held (dedup_in k st) = held st.
Proof.
  unfold dedup_in, raw. destruct (find_e k st) as [e|] eqn:F; [|reflexivity].
  intro H. rewrite held_upd, F. cbn. lia.
Qed.

(** * The invariant of every reachable state *)
Definition Inv (s : state) : Prop :=
  keys_nodup (hot s) /\ keys_nodup (snap s) /\
  held (hot s) <= size s /\ held (snap s) <= snapsize s.

Lemma Inv_init mx : Inv (init mx).
Proof. unfold Inv, init, keys_nodup; cbn. repeat split; try constructor; lia. Qed.

Lemma Inv_step s o : Inv s -> Inv (fst (step s o)).
Proof.
  intros (Hh & Hs & Gh & Gs). unfold Inv. destruct o as [b| |ok|ks mn mx|ks|k| |]; cbn [step].
  - unfold write_multi. destruct (over_limit s b); [cbn; repeat split; assumption|].
    destruct (write_loop b (hot s) (size s + batch_size b) false) as [[st sz] werr] eqn:W.
    apply write_loop_gap in W as [Wg Wn]. cbn.
    repeat split; [tauto|assumption|lia|assumption].
  - unfold do_snapshot. destruct (snapshotting s); [cbn; repeat split; assumption|].
    destruct (0 <? snapsize s) eqn:E; cbn; repeat split; try assumption.
    + constructor.
    + lia.
    + pose proof (held_nonneg (snap s)). lia.
  - unfold clear_snapshot. destruct ok; cbn; repeat split; try assumption; try constructor. lia.
  - unfold delete_range. destruct (del_loop ks mn mx (hot s) (size s)) as [st sz] eqn:D.
    apply del_loop_gap in D as [Dg Dn]; [|assumption]. cbn. repeat split; try assumption. lia.
  - unfold delete_range. destruct (del_loop ks MinInt64 MaxInt64 (hot s) (size s)) as [st sz] eqn:D.
    apply del_loop_gap in D as [Dg Dn]; [|assumption]. cbn. repeat split; try assumption. lia.
  - unfold values. cbn.
    destruct (held_dedup_in k (hot s)) as [A1 A2]. destruct (held_dedup_in k (snap s)) as [B1 B2].
    repeat split; try tauto; lia.
  - cbn. repeat split; assumption.
  - cbn. repeat split; assumption.
Qed.

Lemma Inv_run h : forall s, Inv s -> Inv (run s h).
Proof.
  unfold run. induction h as [|o r IH]; intros s H; cbn; [assumption|].
  apply IH. apply Inv_step. assumption.
Qed.

Lemma size_never_underreports mx h :
  let s := run (init mx) h in
  0 <= held_all s <= cache_size s /\ 0 <= size s /\ 0 <= snapsize s.
Proof.
  cbn. destruct (Inv_run h _ (Inv_init mx)) as (_ & _ & Gh & Gs).
  pose proof (held_nonneg (hot (run (init mx) h))). pose proof (held_nonneg (snap (run (init mx) h))).
  unfold held_all, cache_size. lia.
Qed.

(** * Exact accounting as long as reads remove nothing *)
Definition Tight (s : state) : Prop :=
  keys_nodup (hot s) /\ keys_nodup (snap s) /\
  size s = held (hot s) /\ snapsize s = held (snap s).

(** [read_removes_nothing s o]: if [o] is a read of [k], the in-place deduplication
    performed by Cache.Values drops no value from either store's entry of [k]. *)
Definition read_removes_nothing (s : state) (o : op) : Prop :=
  match o with
  | OValues k =>
      vals_size (dedup (raw k (hot s))) = vals_size (raw k (hot s)) /\
      vals_size (dedup (raw k (snap s))) = vals_size (raw k (snap s))
  | _ => True
  end.

Fixpoint reads_remove_nothing (s : state) (h : list op) : Prop :=
  match h with
  | [] => True
  | o :: r => read_removes_nothing s o /\ reads_remove_nothing (fst (step s o)) r
  end.

Lemma Tight_step s o : Tight s -> read_removes_nothing s o -> Tight (fst (step s o)).
Proof.
  intros (Hh & Hs & Gh & Gs) R. unfold Tight. destruct o as [b| |ok|ks mn mx|ks|k| |]; cbn [step].
  - unfold write_multi. destruct (over_limit s b); [cbn; repeat split; assumption|].
    destruct (write_loop b (hot s) (size s + batch_size b) false) as [[st sz] werr] eqn:W.
    apply write_loop_gap in W as [Wg Wn]. cbn.
    repeat split; [tauto|assumption|lia|assumption].
  - unfold do_snapshot. destruct (snapshotting s); [cbn; repeat split; assumption|].
    destruct (0 <? snapsize s) eqn:E; cbn; repeat split; try assumption.
    + constructor.
    + pose proof (held_nonneg (snap s)). lia.
  - unfold clear_snapshot. destruct ok; cbn; repeat split; try assumption; try constructor.
  - unfold delete_range. destruct (del_loop ks mn mx (hot s) (size s)) as [st sz] eqn:D.
    apply del_loop_gap in D as [Dg Dn]; [|assumption]. cbn. repeat split; try assumption. lia.
  - unfold delete_range. destruct (del_loop ks MinInt64 MaxInt64 (hot s) (size s)) as [st sz] eqn:D.
    apply del_loop_gap in D as [Dg Dn]; [|assumption]. cbn. repeat split; try assumption. lia.
  - cbn in R. destruct R as [R1 R2]. unfold values. cbn.
    rewrite (held_dedup_in_exact _ _ R1), (held_dedup_in_exact _ _ R2).
    repeat split; try assumption; apply held_dedup_in; assumption.
  - cbn. repeat split; assumption.
  - cbn. repeat split; assumption.
Qed.

Lemma Tight_run h : forall s, Tight s -> reads_remove_nothing s h -> Tight (run s h).
Proof.
  unfold run. induction h as [|o r IH]; intros s H R; cbn; [assumption|].
  destruct R as [R1 R2]. apply IH; [apply Tight_step|]; assumption.
Qed.

Lemma size_exact_when_reads_remove_nothing mx h :
  reads_remove_nothing (init mx) h ->
  cache_size (run (init mx) h) = held_all (run (init mx) h).
Proof.
  intro R. assert (T : Tight (init mx)).
  { unfold Tight, init, keys_nodup; cbn. repeat split; constructor. }
  destruct (Tight_run h _ T R) as (_ & _ & A & B). unfold cache_size, held_all. lia.
Qed.

(** * Refutation witnesses (also replayed on the real code by the driver's hand-picked cases) *)
Definition kA : key := [97%N].
Definition f1 : point := (1, VFloat 4607182418800017408%N).
Definition f2 : point := (1, VFloat 4611686018427387904%N).
Definition i2 : point := (2, VInt 7).

Definition hist_drift : list op := [OWrite [(kA, [f1; f2])]; OValues kA; ODelete [kA]].

Lemma drift_witness :
  let s := run (init 0) hist_drift in
  hot s = [] /\ snap s = [] /\ held_all s = 0 /\ cache_size s = 16.
Proof. vm_compute. repeat split; reflexivity. Qed.

Definition hist_snapconf : list op := [OWrite [(kA, [f1])]; OSnapshot].

Lemma snapconf_witness :
  let s := run (init 0) hist_snapconf in
  clash s kA [i2] = true /\
  snd (step s (OWrite [(kA, [i2])])) = ROk /\
  snd (step (fst (step s (OWrite [(kA, [i2])]))) (OValues kA)) = RVals [f1; i2].
Proof. vm_compute. repeat split; reflexivity. Qed.

(** * WriteMulti handles every key of the batch independently (type conflicts are local) *)
Fixpoint assoc (k : key) (b : batch) : option (list point) :=
  match b with
  | [] => None
  | (k', vs) :: r => if key_eqb k k' then Some vs else assoc k r
  end.

Definition is_none {A} (o : option A) : bool := match o with None => true | Some _ => false end.

(** effect of one batch entry on c.size after the optimistic [+ batch_size]: a rejected
    entry is subtracted again, an accepted one adds [len key] iff it created the key *)
Definition key_delta (st : store) (kv : key * list point) : Z :=
  match key_write (find_e (fst kv) st) (snd kv) with
  | Some _ => if is_none (find_e (fst kv) st) then klen (fst kv) else 0
  | None => - vals_size (snd kv)
  end.
Fixpoint delta (st : store) (b : batch) : Z :=
  match b with [] => 0 | kv :: r => key_delta st kv + delta st r end.
Definition rejected (st : store) (kv : key * list point) : bool :=
  is_none (key_write (find_e (fst kv) st) (snd kv)).

(** bytes charged for the batch: accepted entries only, plus the length of created keys *)
Fixpoint accepted_bytes (st : store) (b : batch) : Z :=
  match b with
  | [] => 0
  | kv :: r =>
      (if rejected st kv then 0
       else vals_size (snd kv) + (if is_none (find_e (fst kv) st) then klen (fst kv) else 0))
      + accepted_bytes st r
  end.

Lemma batch_delta_accepted st b : batch_size b + delta st b = accepted_bytes st b.
Proof.
  induction b as [|[k vs] r IH]; cbn [batch_size delta accepted_bytes]; [reflexivity|].
  unfold key_delta, rejected. cbn [fst snd].
  destruct (key_write (find_e k st) vs); cbn [is_none]; lia.
Qed.

Lemma delta_ext st st' b :
  (forall k, In k (map fst b) -> find_e k st' = find_e k st) -> delta st' b = delta st b.
Proof.
  induction b as [|[k vs] r IH]; intro H; cbn [delta]; [reflexivity|].
  rewrite IH by (intros k' Hk; apply H; right; exact Hk).
  unfold key_delta. cbn [fst snd]. rewrite (H k) by (left; reflexivity). reflexivity.
Qed.

Lemma rejected_ext st st' b :
  (forall k, In k (map fst b) -> find_e k st' = find_e k st) ->
  existsb (rejected st') b = existsb (rejected st) b.
Proof.
  induction b as [|[k vs] r IH]; intro H; cbn [existsb]; [reflexivity|].
  rewrite IH by (intros k' Hk; apply H; right; exact Hk).
  unfold rejected. cbn [fst snd]. rewrite (H k) by (left; reflexivity). reflexivity.
Qed.

Lemma assoc_in k b vs : assoc k b = Some vs -> In k (map fst b).
Proof.
  induction b as [|[k' vs'] r IH]; cbn; [discriminate|].
  destruct (key_eqb k k') eqn:E; intro H.
  - apply key_eqb_eq in E. left. congruence.
  - right. apply IH. exact H.
Qed.

Lemma notin_assoc_none k b : assoc k b = None <-> ~ In k (map fst b).
Proof.
  induction b as [|[k' vs'] r IH]; cbn; [tauto|].
  destruct (key_eqb k k') eqn:E.
  - apply key_eqb_eq in E. subst. split; [discriminate|tauto].
  - rewrite IH. assert (k' <> k) by (intro; subst; rewrite key_eqb_refl in E; discriminate). tauto.
Qed.

Definition key_result (st : store) (k : key) (vs : list point) : option entry :=
  match key_write (find_e k st) vs with Some e' => Some e' | None => find_e k st end.

Lemma write_loop_spec b : forall st sz werr st' sz' werr',
  NoDup (map fst b) ->
  write_loop b st sz werr = (st', sz', werr') ->
  (forall k, find_e k st' =
     match assoc k b with None => find_e k st | Some vs => key_result st k vs end)
  /\ sz' = sz + delta st b
  /\ werr' = werr || existsb (rejected st) b.
Proof.
  induction b as [|[k0 vs0] r IH]; intros st sz werr st' sz' werr' Hnd H.
  - cbn in H. inversion H; subst. cbn. repeat split; [lia|]. rewrite orb_false_r. reflexivity.
  - cbn [map fst] in Hnd. inversion Hnd as [|? ? Hnotin Hnd']; subst.
    cbn [write_loop] in H. unfold write_key in H.
    cbn [delta existsb assoc]. unfold key_delta, rejected at 1. cbn [fst snd].
    destruct (key_write (find_e k0 st) vs0) as [e'|] eqn:KW.
    + (* accepted *)
      apply IH in H as (Hf & Hs & Hw); [|assumption].
      assert (Hext : forall k, In k (map fst r) -> find_e k (upd_e k0 e' st) = find_e k st).
      { intros k Hk. apply find_upd_other. intro; subst. contradiction. }
      rewrite (delta_ext _ _ _ Hext) in Hs. rewrite (rejected_ext _ _ _ Hext) in Hw.
      split; [|split].
      * intro k. rewrite Hf. destruct (key_eqb k k0) eqn:E.
        -- apply key_eqb_eq in E. subst k0.
           rewrite (proj2 (notin_assoc_none k r) Hnotin).
           rewrite find_upd_same. unfold key_result. rewrite KW. reflexivity.
        -- assert (k <> k0) by (intro; subst; rewrite key_eqb_refl in E; discriminate).
           destruct (assoc k r) as [vs|] eqn:A.
           ++ unfold key_result. rewrite find_upd_other by assumption. reflexivity.
           ++ apply find_upd_other. assumption.
      * cbn [is_none]. destruct (find_e k0 st); cbn [is_none] in *; lia.
      * cbn [is_none]. rewrite Hw. reflexivity.
    + (* rejected: store untouched *)
      apply IH in H as (Hf & Hs & Hw); [|assumption].
      split; [|split].
      * intro k. rewrite Hf. destruct (key_eqb k k0) eqn:E.
        -- apply key_eqb_eq in E. subst k0.
           rewrite (proj2 (notin_assoc_none k r) Hnotin).
           unfold key_result. rewrite KW. reflexivity.
        -- reflexivity.
      * lia.
      * cbn [is_none]. rewrite Hw. rewrite orb_true_r. destruct werr; reflexivity.
Qed.

Lemma write_multi_spec s b :
  over_limit s b = false -> NoDup (map fst b) ->
  let s' := fst (write_multi b s) in
  (forall k, find_e k (hot s') =
     match assoc k b with None => find_e k (hot s) | Some vs => key_result (hot s) k vs end)
  /\ size s' = size s + accepted_bytes (hot s) b
  /\ snap s' = snap s /\ snapsize s' = snapsize s /\ maxsize s' = maxsize s
  /\ snapshotting s' = snapshotting s
  /\ snd (write_multi b s) = if existsb (rejected (hot s)) b then RConflict else ROk.
Proof.
  intros Hl Hnd. unfold write_multi. rewrite Hl.
  destruct (write_loop b (hot s) (size s + batch_size b) false) as [[st sz] werr] eqn:W.
  apply write_loop_spec in W as (Hf & Hs & Hw); [|assumption]. cbn.
  repeat split; try assumption.
  - rewrite Hs, <- batch_delta_accepted. lia.
  - rewrite Hw. reflexivity.
Qed.

(** exactly when a batch entry is rejected (mirror of entry.add / newEntryValues) *)
Lemma rejected_iff st k vs :
  rejected st (k, vs) = true <->
  match find_e k st with
  | Some e => exists p r, vs = p :: r /\
                ((evtype e <> 0%N /\ all_type (evtype e) vs = false) \/
                 (evals e = [] /\ all_type (ptype p) vs = false))
  | None => exists p r, vs = p :: r /\ all_type (ptype p) vs = false
  end.
Proof.
  unfold rejected, key_write. cbn [fst snd]. destruct (find_e k st) as [e|].
  - unfold entry_add. destruct vs as [|p r]; cbn [is_none].
    + split; [discriminate|]. intros (p & r & H & _). discriminate.
    + destruct (N.eqb (evtype e) 0) eqn:E0; cbn [negb andb].
      * apply N.eqb_eq in E0. destruct (evals e) as [|q l] eqn:El.
        -- destruct (all_type (ptype p) (p :: r)) eqn:A; cbn [is_none].
           ++ split; [discriminate|]. intros (p' & r' & H & [[H1 _]|[_ H2]]); [congruence|].
              inversion H; subst. congruence.
           ++ split; [|reflexivity]. intros _. exists p, r. split; [reflexivity|]. right. split; [reflexivity|exact A].
        -- cbn [is_none]. split; [discriminate|].
           intros (p' & r' & H & [[H1 _]|[H2 _]]); [congruence|discriminate].
      * apply N.eqb_neq in E0. destruct (all_type (evtype e) (p :: r)) eqn:A; cbn [negb].
        -- destruct (evals e) as [|q l] eqn:El.
           ++ destruct (all_type (ptype p) (p :: r)) eqn:A2; cbn [is_none].
              ** split; [discriminate|]. intros (p' & r' & H & [[_ H1]|[_ H2]]); [discriminate|].
                 inversion H; subst. congruence.
              ** split; [|reflexivity]. intros _. exists p, r. split; [reflexivity|]. right. split; [reflexivity|exact A2].
           ++ cbn [is_none]. split; [discriminate|].
              intros (p' & r' & H & [[_ H1]|[H2 _]]); discriminate.
        -- cbn [is_none]. split; [|reflexivity]. intros _. exists p, r. split; [reflexivity|]. left. split; [exact E0|reflexivity].
  - unfold new_entry. destruct vs as [|p r]; cbn [is_none].
    + split; [discriminate|]. intros (p & r & H & _). discriminate.
    + destruct (all_type (ptype p) (p :: r)) eqn:A; cbn [is_none].
      * split; [discriminate|]. intros (p' & r' & H & H2). inversion H; subst. congruence.
      * split; [|reflexivity]. intros _. exists p, r. split; [reflexivity|assumption].
Qed.

(** * The iteration order over the batch (a Go map: random) is irrelevant *)
From Coq Require Import Permutation.

Lemma batch_size_perm b b' : Permutation b b' -> batch_size b = batch_size b'.
Proof.
  induction 1 as [|[k vs] l l' _ IH|[k1 v1] [k2 v2] l|l1 l2 l3 _ IH1 _ IH2]; cbn [batch_size]; lia.
Qed.
Lemma accepted_bytes_perm st b b' : Permutation b b' -> accepted_bytes st b = accepted_bytes st b'.
Proof.
  induction 1 as [|x l l' _ IH|x y l|l1 l2 l3 _ IH1 _ IH2]; cbn [accepted_bytes]; lia.
Qed.
Lemma existsb_perm {A} (f : A -> bool) b b' : Permutation b b' -> existsb f b = existsb f b'.
Proof.
  induction 1 as [|x l l' _ IH|x y l|l1 l2 l3 _ IH1 _ IH2]; cbn [existsb].
  - reflexivity.
  - rewrite IH. reflexivity.
  - destruct (f x), (f y); reflexivity.
  - congruence.
Qed.
Lemma assoc_perm k b b' : Permutation b b' -> NoDup (map fst b) -> assoc k b = assoc k b'.
Proof.
  induction 1 as [|[k0 v0] l l' _ IH|[k1 v1] [k2 v2] l|l1 l2 l3 H12 IH1 H23 IH2]; intro Hnd.
  - reflexivity.
  - cbn [assoc]. cbn in Hnd. inversion Hnd; subst. rewrite IH by assumption. reflexivity.
  - cbn [assoc]. cbn in Hnd. inversion Hnd as [|? ? Hn _]; subst.
    destruct (key_eqb k k1) eqn:E1; destruct (key_eqb k k2) eqn:E2; try reflexivity.
    apply key_eqb_eq in E1, E2. subst. exfalso. apply Hn. left. reflexivity.
  - rewrite IH1 by assumption. apply IH2.
    apply (Permutation_NoDup (l := map fst l1)); [apply Permutation_map; exact H12|exact Hnd].
Qed.

Lemma write_multi_order_irrelevant s b b' :
  Permutation b b' -> NoDup (map fst b) ->
  let s1 := fst (write_multi b s) in
  let s2 := fst (write_multi b' s) in
  snd (write_multi b s) = snd (write_multi b' s)
  /\ (forall k, find_e k (hot s1) = find_e k (hot s2))
  /\ size s1 = size s2 /\ snap s1 = snap s2 /\ snapsize s1 = snapsize s2
  /\ maxsize s1 = maxsize s2 /\ snapshotting s1 = snapshotting s2.
Proof.
  intros Hp Hnd.
  assert (Hnd' : NoDup (map fst b')).
  { apply (Permutation_NoDup (l := map fst b)); [apply Permutation_map; exact Hp|exact Hnd]. }
  assert (Ho : over_limit s b = over_limit s b').
  { unfold over_limit. rewrite (batch_size_perm _ _ Hp). reflexivity. }
  destruct (over_limit s b) eqn:O.
  - symmetry in Ho. rewrite (write_multi_over _ _ O), (write_multi_over _ _ Ho). cbn. repeat split.
  - symmetry in Ho.
    destruct (write_multi_spec s b O Hnd) as (F1 & S1 & A1 & B1 & C1 & D1 & R1).
    destruct (write_multi_spec s b' Ho Hnd') as (F2 & S2 & A2 & B2 & C2 & D2 & R2).
    cbn zeta. repeat split; try congruence.
    + rewrite R1, R2, (existsb_perm _ _ _ Hp). reflexivity.
    + intro k. rewrite F1, F2, (assoc_perm k _ _ Hp Hnd). reflexivity.
    + rewrite S1, S2, (accepted_bytes_perm _ _ _ Hp). reflexivity.
Qed.
