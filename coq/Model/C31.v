(** C31 — Resource IDs round-trip and generated IDs are unique.

    Part 1: mirror of [ID.Encode] / [ID.Decode] of /repo/kit/platform/id.go.
    Strings are lists of byte codes ([N], 0..255); IDs are [N] below 2^64.
      Encode: zero is invalid; otherwise big-endian 8 bytes -> hex.Encode = the
              16 lower-case hex digits of the value.
      Decode: len(b) = 16, no byte in 'A'..'F' (the repair of finding
              id-decode-uppercase-hex), then strconv.ParseUint(b, 16, 64) (digit switch with
              [lower(c) = c | 0x20]), then non-zero.

    Part 2: mirror of [Generator.Next] of /repo/pkg/snowflake/gen.go as a
    small-step machine: every atomic action of a caller (clock read + atomic
    load, compare-and-swap, fallback fetch-add) is one labelled step, so any
    interleaving of any number of concurrent callers is a list of labels.

    No proofs in this file. *)
From Verif Require Import Base.Prelude.
Local Open Scope N_scope.

(* ------------------------------------------------------------------ *)
(** * Hex codec *)

(** encoding/hex table "0123456789abcdef". *)
Definition hexchar (d : N) : N := if d <? 10 then 48 + d else 87 + d.

Fixpoint hex_digits (k : nat) (n : N) : list N :=
  match k with
  | O => []
  | S k' => hex_digits k' (n / 16) ++ [hexchar (n mod 16)]
  end.

(** [ID.Encode]: [None] = ErrInvalidID. *)
Definition encode (n : N) : option (list N) :=
  if n =? 0 then None else Some (hex_digits 16 n).

(** strconv's [lower(c) = c | ('x' - 'X')]. *)
Definition lower (c : N) : N := N.lor c 32.

(** The digit switch of strconv.ParseUint. *)
Definition digit_val (c : N) : option N :=
  if (48 <=? c) && (c <=? 57) then Some (c - 48)
  else if (97 <=? lower c) && (lower c <=? 122) then Some (lower c - 97 + 10)
  else None.

(** The accumulation loop of ParseUint(s, 16, 64): syntax error on a char that is
    not a digit below the base, range error when [n >= cutoff = 2^60] before the
    multiplication (unreachable for 16 chars, kept for fidelity). *)
Fixpoint parse_hex (acc : N) (s : list N) : option N :=
  match s with
  | [] => Some acc
  | c :: r =>
      match digit_val c with
      | Some d => if 16 <=? d then None
                  else if 2 ^ 60 <=? acc then None
                  else parse_hex (acc * 16 + d) r
      | None => None
      end
  end.

(** The part of [ID.Decode] after the upper-case guard: length, ParseUint, non-zero. *)
Definition decode_pu (s : list N) : option N :=
  if negb (Nat.eqb (length s) 16) then None
  else match parse_hex 0 s with
       | None => None
       | Some v => if v =? 0 then None else Some v
       end.

Definition is_upper_hex (c : N) : bool := (65 <=? c) && (c <=? 70).

(** [ID.Decode]: [None] = any error (ErrInvalidIDLength / ErrInvalidID).  The length
    check comes first in the Go code; both failures are just "rejected" here. *)
Definition decode (s : list N) : option N :=
  if existsb is_upper_hex s then None else decode_pu s.

(** ** The property's own reading (independent oracle): a string is an ID iff it is
    16 characters from "0123456789abcdef" with a non-zero value. *)
Definition hex_alphabet : list N :=
  [48;49;50;51;52;53;54;55;56;57;97;98;99;100;101;102].

Fixpoint index_of (c : N) (l : list N) (i : N) : option N :=
  match l with
  | [] => None
  | x :: r => if x =? c then Some i else index_of c r (i + 1)
  end.

Fixpoint spec_value (acc : N) (s : list N) : option N :=
  match s with
  | [] => Some acc
  | c :: r => match index_of c hex_alphabet 0 with
              | Some d => spec_value (acc * 16 + d) r
              | None => None
              end
  end.

Definition spec_decode (s : list N) : option N :=
  if Nat.eqb (length s) 16 then
    match spec_value 0 s with
    | Some v => if v =? 0 then None else Some v
    | None => None
    end
  else None.

Definition is_lower_hex (c : N) : bool :=
  ((48 <=? c) && (c <=? 57)) || ((97 <=? c) && (c <=? 102)).
Definition is_hex (c : N) : bool :=
  is_lower_hex c || ((65 <=? c) && (c <=? 70)).
Definition to_lower_hex (c : N) : N := if (65 <=? c) && (c <=? 70) then c + 32 else c.

(* ------------------------------------------------------------------ *)
(** * Snowflake generator *)

Definition W64 : N := 2 ^ 64.
Definition epoch : N := 1491696000000.
Definition timeShift : N := 22.
Definition serverShift : N := 12.
Definition sequenceMask : N := 4095.          (* ^(-1 << 12) *)
Definition timeMask : N := 4398046511103.     (* ^(-1 << 42) = 2^42 - 1 *)

(** [t := (now() - epoch) & timeMask] in uint64 arithmetic. *)
Definition clock_t (now : N) : N := N.land ((now mod W64 + W64 - epoch) mod W64) timeMask.

(** The [switch] of [Next]: the state a caller tries to install, from the clock
    value [t] it read and the state [cur] it loaded. *)
Definition next_state (t cur : N) : N :=
  let currentTime := N.land (N.shiftr cur timeShift) timeMask in
  let currentSeq := N.land cur sequenceMask in
  if currentTime <? t then (N.shiftl t timeShift) mod W64
  else if currentSeq =? sequenceMask then (N.shiftl (currentTime + 1) timeShift) mod W64
  else (cur + 1) mod W64.

(** [New(machineID)]: [machine = machineID << serverShift], 0 <= machineID <= 1023. *)
Definition machine_of (mid : N) : N := N.shiftl mid serverShift.

(** The returned id. *)
Definition id_of (machine st : N) : N := N.lor st machine.

(** ** Small-step machine.  A caller is [TIdle] (not in [Next]), [TLoop i] (at the top
    of loop iteration [i]), [TCas i t cur] (has read the clock and loaded [cur],
    about to compare-and-swap) or [TFallback] (left the loop with [state = 0]). *)
Inductive tstate := TIdle | TLoop (i : nat) | TCas (i : nat) (t cur : N) | TFallback.

Record config := { glob : N; thr : nat -> tstate; outs : list N }.
(** [outs]: the [state] values returned so far (newest first); the ids are
    [map (id_of machine) outs]. *)

Inductive label :=
| LCall (k : nat)             (* caller k enters Next *)
| LLoad (k : nat) (now : N)   (* caller k reads the clock (any value) and loads g.state *)
| LCas (k : nat)              (* caller k executes CompareAndSwapUint64 *)
| LAdd (k : nat).             (* caller k executes AddUint64(&g.state, 1) *)

Definition upd (f : nat -> tstate) (k : nat) (v : tstate) : nat -> tstate :=
  fun j => if Nat.eqb j k then v else f j.

Definition step (c : config) (l : label) : option config :=
  match l with
  | LCall k =>
      match thr c k with
      | TIdle => Some {| glob := glob c; thr := upd (thr c) k (TLoop 0); outs := outs c |}
      | _ => None
      end
  | LLoad k now =>
      match thr c k with
      | TLoop i => Some {| glob := glob c; thr := upd (thr c) k (TCas i (clock_t now) (glob c));
                           outs := outs c |}
      | _ => None
      end
  | LCas k =>
      match thr c k with
      | TCas i t cur =>
          let st := next_state t cur in
          if glob c =? cur then
            (* CAS succeeded: break; a zero [state] still falls into the fallback *)
            if st =? 0 then Some {| glob := st; thr := upd (thr c) k TFallback; outs := outs c |}
            else Some {| glob := st; thr := upd (thr c) k TIdle; outs := st :: outs c |}
          else
            Some {| glob := glob c;
                    thr := upd (thr c) k (if Nat.ltb (S i) 100 then TLoop (S i) else TFallback);
                    outs := outs c |}
      | _ => None
      end
  | LAdd k =>
      match thr c k with
      | TFallback =>
          let st := (glob c + 1) mod W64 in
          Some {| glob := st; thr := upd (thr c) k TIdle; outs := st :: outs c |}
      | _ => None
      end
  end.

Fixpoint run (c : config) (ls : list label) : option config :=
  match ls with
  | [] => Some c
  | l :: r => match step c l with Some c' => run c' r | None => None end
  end.

Definition init : config := {| glob := 0; thr := fun _ => TIdle; outs := [] |}.

Definition ids (machine : N) (c : config) : list N := map (id_of machine) (outs c).

(** ** The two excluded situations, named.
    - [time field at its maximum]: the 42-bit millisecond field of the state is
      2^42-1 (year 2156), so "bump to the next millisecond" wraps to 0;
    - [fallback carry]: the fallback [AddUint64] fires while the sequence field is
      4095, so the +1 carries into the machine-id bits (the code comment in gen.go
      describes exactly this). *)
Definition MAXT : N := (2 ^ 42 - 1) * 2 ^ 22.
Definition ok_label (c : config) (l : label) : Prop :=
  glob c < MAXT /\
  match l with
  | LAdd _ => N.land (glob c) sequenceMask <> sequenceMask
  | _ => True
  end.

Fixpoint no_excluded (c : config) (ls : list label) : Prop :=
  match ls with
  | [] => True
  | l :: r => ok_label c l /\
              match step c l with Some c' => no_excluded c' r | None => True end
  end.

(** Sequential use: one caller, every CAS succeeds at the first attempt. *)
Definition next_seq (machine now g : N) : N * N :=      (* (new state, id) *)
  let st := next_state (clock_t now) g in (st, id_of machine st).

(** A schedule builder used for the fallback-carry witness: caller 0 completes
    [n] calls alone at clock [now]. *)
Fixpoint solo (k : nat) (now : N) (n : nat) : list label :=
  match n with
  | O => []
  | S n' => LCall k :: LLoad k now :: LCas k :: solo k now n'
  end.

(** Caller 1 loses the CAS [n] times: each time it loads, caller 0 completes a
    whole call, then caller 1's CAS fails. *)
Fixpoint loser (now : N) (n : nat) : list label :=
  match n with
  | O => []
  | S n' => LLoad 1 now :: solo 0 now 1 ++ LCas 1 :: loser now n'
  end.

(** The witness: caller 1 enters, loses 100 times while caller 0 issues 100 ids,
    caller 0 goes on to sequence 4095 (4096 ids in this millisecond in total, the first
    one having sequence 0), then caller 1's fallback add fires. *)
Definition carry_schedule (now : N) : list label :=
  solo 0 now 1 ++ LCall 1 :: loser now 100 ++ solo 0 now 3995 ++ [LAdd 1].

(* ------------------------------------------------------------------ *)
(** * Correspondence cases *)

Fixpoint nodup_b (l : list N) : bool :=
  match l with
  | [] => true
  | x :: r => negb (existsb (N.eqb x) r) && nodup_b r
  end.

Fixpoint strictly_increasing (l : list N) : bool :=
  match l with
  | x :: ((y :: _) as r) => (x <? y) && strictly_increasing r
  | _ => true
  end.

(** Search a clock value in [lo, lo+fuel) for which the model returns [id]. *)
Fixpoint find_clock (fuel : nat) (machine now g id : N) : option N :=
  match fuel with
  | O => None
  | S f => let '(st, i) := next_seq machine now g in
           if i =? id then Some st else find_clock f machine (now + 1) g id
  end.

(** Replay a sequential trace: every observed id must be what the model returns for
    some clock reading inside the measured window [tlo, thi] (the driver reads the
    same clock before and after each call). *)
Fixpoint replay (machine g : N) (steps : list (N * N * N)) : bool :=
  match steps with
  | [] => true
  | (tlo, thi, id) :: r =>
      match find_clock (S (N.to_nat (thi - tlo))) machine tlo g id with
      | Some st => replay machine st r
      | None => false
      end
  end.

Inductive case :=
| CEnc (n : N) (out : option (list N)) (str : list N)
    (* ID(n).Encode() (None = error) and the bytes of ID(n).String() *)
| CDec (s : list N) (res : list (option N))
    (* every decoding entry point's result on the bytes s (None = error) *)
| CGen (mid init_state : N) (steps : list (N * N * N))
    (* one caller: generator state forced to [init_state], then calls; each step is
       (clock before, clock after, returned id) *)
| CConc (mid : N) (sorted_ids : list N).
    (* concurrent callers on one generator: all returned ids, sorted by the driver *)

Definition optl_eqb := option_eqb (list_eqb N.eqb).
Definition optN_eqb := option_eqb N.eqb.

Definition check (c : case) : verdict :=
  match c with
  | CEnc n out str =>
      let m := encode n in
      let same := optl_eqb out m
                  && list_eqb N.eqb str (match m with Some s => s | None => [] end) in
      let ok := match out with
                | None => (n =? 0) && match str with [] => true | _ => false end
                | Some s => negb (n =? 0) && Nat.eqb (length s) 16 && forallb is_lower_hex s
                            && optN_eqb (spec_decode s) (Some n) && list_eqb N.eqb str s
                end in
      judge same ok
  | CDec s res =>
      let m := decode s in
      let o := spec_decode s in
      judge (forallb (fun r => optN_eqb r m) res) (forallb (fun r => optN_eqb r o) res)
  | CGen mid g steps =>
      let machine := machine_of mid in
      let idl := map (fun x => snd x) steps in
      judge (replay machine g steps) (forallb (fun i => negb (i =? 0)) idl && nodup_b idl)
  | CConc mid l =>
      let ok := forallb (fun i => negb (i =? 0)) l && strictly_increasing l in
      judge ok ok
  end.
