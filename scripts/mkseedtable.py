#!/usr/bin/env python3
"""Rewrite the 'seeded changes' table of DESIGN.md (between the markers) from seeded/*/meta.json."""
import json, glob, os, re
V = os.path.dirname(os.path.dirname(os.path.abspath(__file__)))
rows = []
for f in sorted(glob.glob(os.path.join(V, 'seeded', '*', 'meta.json'))):
    m = json.load(open(f)); d = os.path.basename(os.path.dirname(f))
    det = m['our_check']['detected']
    res = 'caught (VIOLATION)' if det else 'MISSED'
    if m['confirmed']['demo_with_change_exit'] == 0:
        # the agent's own demonstration passes with the change on the current tree (a later fix: commit removed the
        # behaviour the change relied on): the change no longer breaks the property
        res = ('not a violation on the current tree (its demonstration passes with the change since a later repair); check silent'
               if not det else 'ALARM on a change whose demonstration passes')
    if m.get('check_run') and m['check_run'] != m['property']:
        res += ' by `./check %s`' % m['check_run']
    if m.get('note'):
        res += ' — ' + m['note']
    rows.append('| `seeded/%s` | %s | %s | %s | %s |' % (d, m['property'], (m.get('title') or '').replace('|', '/')[:110],
                (m.get('needs_to_manifest') or '').replace('|', '/').replace('\n', ' ')[:160], res))
tbl = ('<!-- SEEDTABLE-BEGIN -->\n| directory | property | change | needs to manifest | `./check` on the changed tree |\n|---|---|---|---|---|\n'
       + '\n'.join(rows) + '\n<!-- SEEDTABLE-END -->')
p = os.path.join(V, 'DESIGN.md'); s = open(p).read()
if '<!-- SEEDTABLE-BEGIN -->' in s:
    s = re.sub(r'<!-- SEEDTABLE-BEGIN -->.*?<!-- SEEDTABLE-END -->', lambda _: tbl, s, flags=re.S)
else:
    s += '\n\n## 9. Independently seeded changes and what catches them\n\nEach change below was produced by a fresh sub-agent that saw only the property text and its own scratch worktree (nothing of /verif), compiles, passes the existing tests of the packages it touches, and comes with a demonstration that fails with it and passes without it; all of that was re-confirmed by `scripts/seedtest.sh` (logs in the directory). The last column is the result of `VERIF_REPO=<worktree with the change> ./check <id>` (quick tier, seed 1).\n\n' + tbl + '\n'
open(p, 'w').write(s)
print(len(rows), 'rows;', sum('MISSED' in r for r in rows), 'missed')
