(** C14 — Index metadata queries stay correct across compaction and restart.

    Mirror model of tsdb/index/tsi1 (index.go, partition.go, log_file.go, file_set.go,
    index_files.go, tsi1.go merge iterators, cache.go):

    - the L0 log file at BYTE level for framing + checksum only ([enc_entry], [parse_entry],
      [parse_log]: mirrors of appendLogEntry / LogEntry.UnmarshalBinary / LogFile.open);
      the checksum is a Section function [crc] (instantiated with CRC-32/IEEE for the judge);
    - everything else by abstract content: a file (log or index file) is
      [{series set; tombstone set; measurement -> {deleted; series; key -> {deleted; value ->
      {deleted; series}}}}]; the in-memory content of a log file is the fold of [exec_entry]
      (mirror of LogFile.execEntry) over its entries; a file set is a newest-first list;
      the queries are the merge rules of file_set.go / tsi1.go; level compaction is
      IndexFiles.CompactTo on a contiguous run, log compaction is LogFile.CompactTo;
    - the byte layout of L1+ index files (hash-indexed blocks, roaring bitmaps, sketches) is NOT
      modelled: the correspondence run is what connects it.
    Strings are byte lists; series ids are N.  No proofs in this file. *)
From Verif Require Import Base.Prelude.
Local Open Scope N_scope.

(* ------------------------------------------------------------------------- *)
(** * Strings, id sets, sorted association lists *)

Definition str := list N.
Definition str_eqb : str -> str -> bool := list_eqb N.eqb.
Fixpoint str_ltb (a b : str) : bool :=
  match a, b with
  | [], [] => false
  | [], _ :: _ => true
  | _ :: _, [] => false
  | x :: a', y :: b' => if N.ltb x y then true else if N.eqb x y then str_ltb a' b' else false
  end.

(** id sets: ascending lists without duplicates (roaring bitmaps iterate ascending) *)
Fixpoint sadd (x : N) (l : list N) : list N :=
  match l with
  | [] => [x]
  | y :: r => if N.eqb x y then l else if N.ltb x y then x :: l else y :: sadd x r
  end.
Definition srem (x : N) (l : list N) : list N := filter (fun y => negb (N.eqb x y)) l.
Definition smem (x : N) (l : list N) : bool := existsb (N.eqb x) l.
Definition sunion (a b : list N) : list N := fold_right sadd a b.
Definition sdiff (a b : list N) : list N := filter (fun x => negb (smem x b)) a.
Definition sunions (ls : list (list N)) : list N := fold_right (fun l acc => sunion acc l) [] ls.

(** string sets: ascending, no duplicates *)
Fixpoint sins (x : str) (l : list str) : list str :=
  match l with
  | [] => [x]
  | y :: r => if str_eqb x y then l else if str_ltb x y then x :: l else y :: sins x r
  end.
Definition str_set (l : list str) : list str := fold_right sins [] l.
Definition str_mem (x : str) (l : list str) : bool := existsb (str_eqb x) l.

Section Assoc.
  Context {V : Type}.
  Fixpoint aget (k : str) (l : list (str * V)) : option V :=
    match l with
    | [] => None
    | (k', v) :: r => if str_eqb k k' then Some v else aget k r
    end.
  (** replace the binding or insert it in key order *)
  Fixpoint aput (k : str) (v : V) (l : list (str * V)) : list (str * V) :=
    match l with
    | [] => [(k, v)]
    | (k', v') :: r =>
        if str_eqb k k' then (k, v) :: r
        else if str_ltb k k' then (k, v) :: l
        else (k', v') :: aput k v r
    end.
  (** the map with domain [ks] and values [g] *)
  Definition abuild (ks : list str) (g : str -> V) : list (str * V) :=
    fold_right (fun k acc => aput k (g k) acc) [] ks.
End Assoc.

(* ------------------------------------------------------------------------- *)
(** * Log entries and their byte encoding (log_file.go) *)

Record entry := { e_flag : N; e_id : N; e_name : str; e_key : str; e_val : str }.

Definition FlagSeriesTomb : N := 1.   (* LogEntrySeriesTombstoneFlag *)
Definition FlagMeasTomb : N := 2.     (* LogEntryMeasurementTombstoneFlag *)
Definition FlagKeyTomb : N := 4.      (* LogEntryTagKeyTombstoneFlag *)
Definition FlagValTomb : N := 8.      (* LogEntryTagValueTombstoneFlag *)

(** binary.PutUvarint: 7 bits per byte, little end first; at most 10 bytes for a uint64 *)
Fixpoint uv_enc (fuel : nat) (n : N) : list N :=
  match fuel with
  | O => [n]
  | S f => if N.ltb n 128 then [n] else (128 + n mod 128)%N :: uv_enc f (n / 128)
  end.
Definition uvarint (n : N) : list N := uv_enc 9%nat n.

Definition be32 (c : N) : list N :=
  [(c / 16777216) mod 256; (c / 65536) mod 256; (c / 256) mod 256; c mod 256]%N.
Definition be32_dec (l : list N) : N :=
  match l with
  | [a; b; c; d] => a * 16777216 + b * 65536 + c * 256 + d
  | _ => 0
  end%N.

Definition lenN {A} (l : list A) : N := N.of_nat (length l).

Definition enc_field (s : str) : list N := uvarint (lenN s) ++ s.
Definition enc_body (e : entry) : list N :=
  e_flag e :: uvarint (e_id e) ++ enc_field (e_name e) ++ enc_field (e_key e) ++ enc_field (e_val e).

(** size of the record (LogEntry.Size), independent of the checksum function *)
Definition entry_size (e : entry) : nat := (length (enc_body e) + 4)%nat.

(** binary.Uvarint + tsi1.uvarint: short buffer / overflow / value and rest *)
Inductive ures := UOk (v : N) (rest : list N) | UShort | UOver.
Fixpoint uv_dec (i : nat) (s x : N) (buf : list N) : ures :=
  match buf with
  | [] => UShort
  | b :: r =>
      if Nat.eqb i 10%nat then UOver
      else if N.ltb b 128 then
        (if Nat.eqb i 9%nat && N.ltb 1 b then UOver else UOk (N.lor x (N.shiftl b s)) r)
      else uv_dec (S i) (s + 7) (N.lor x (N.shiftl (N.land b 127) s)) r
  end.
Definition uvarint_dec (buf : list N) : ures := uv_dec 0%nat 0 0 buf.

Inductive fres := FOk (s : str) (rest : list N) | FShort | FErr.
Definition dec_field (data : list N) : fres :=
  match uvarint_dec data with
  | UShort => FShort
  | UOver => FErr
  | UOk sz r => if Nat.ltb (length r) (N.to_nat sz) then FShort
                else FOk (firstn (N.to_nat sz) r) (skipn (N.to_nat sz) r)
  end.

Inductive pres := POk (e : entry) (rest : list N) | PShort | PBadSum | PErr.

Section Bytes.
  Variable crc : list N -> N.

  Definition enc_entry (e : entry) : list N := enc_body e ++ be32 (crc (enc_body e)).
  Definition enc_log (es : list entry) : list N := flat_map enc_entry es.

  (** LogEntry.UnmarshalBinary *)
  Definition parse_entry (orig : list N) : pres :=
    match orig with
    | [] => PShort
    | flag :: d0 =>
        match uvarint_dec d0 with
        | UShort => PShort
        | UOver => PErr
        | UOk id d1 =>
            match dec_field d1 with
            | FShort => PShort | FErr => PErr
            | FOk name d2 =>
                match dec_field d2 with
                | FShort => PShort | FErr => PErr
                | FOk key d3 =>
                    match dec_field d3 with
                    | FShort => PShort | FErr => PErr
                    | FOk val d4 =>
                        let chk := crc (firstn (Nat.sub (length orig) (length d4)) orig) in
                        if Nat.ltb (length d4) 4%nat then PShort
                        else if N.eqb chk (be32_dec (firstn 4%nat d4))
                             then POk {| e_flag := flag; e_id := id; e_name := name; e_key := key; e_val := val |}
                                      (skipn 4%nat d4)
                             else PBadSum
                    end
                end
            end
        end
    end.

  (** the replay loop of LogFile.open: entries recovered, and whether open fails hard *)
  Fixpoint parse_log (fuel : nat) (data : list N) : list entry * bool :=
    match fuel with
    | O => ([], false)
    | S f =>
        match data with
        | [] => ([], false)
        | _ =>
            match parse_entry data with
            | POk e rest => let (es, er) := parse_log f rest in (e :: es, er)
            | PShort | PBadSum => ([], false)
            | PErr => ([], true)
            end
        end
    end.
  Definition recover (data : list N) : list entry * bool := parse_log (length data) data.
End Bytes.

(** CRC-32/IEEE (hash/crc32.ChecksumIEEE), bitwise, for the judge *)
Definition crc_step (c : N) : N :=
  if N.odd c then N.lxor (N.shiftr c 1) 3988292384 else N.shiftr c 1.
Definition crc_byte (c b : N) : N :=
  let c := N.lxor c b in
  crc_step (crc_step (crc_step (crc_step (crc_step (crc_step (crc_step (crc_step c))))))).
(** the final [mod 2^32] is the uint32 result type (the identity on byte inputs) *)
Definition crc32 (l : list N) : N := (N.lxor (fold_left crc_byte l 4294967295) 4294967295) mod 4294967296.

(* ------------------------------------------------------------------------- *)
(** * Abstract file content *)

Definition tagset := list (str * str).

Record tval := { tv_del : bool; tv_ids : list N }.
Record tkey := { tk_del : bool; tk_vals : list (str * tval) }.
Record meas := { m_del : bool; m_ids : list N; m_keys : list (str * tkey) }.
Record file := {
  f_level : N;                      (* 0 = log file *)
  f_ss : list N;                    (* SeriesIDSet *)
  f_ts : list N;                    (* TombstoneSeriesIDSet *)
  f_meas : list (str * meas);
  f_log : list entry                (* entries of a log file ([] for index files) *)
}.

Definition empty_tval : tval := {| tv_del := false; tv_ids := [] |}.
Definition empty_tkey : tkey := {| tk_del := false; tk_vals := [] |}.
Definition empty_meas : meas := {| m_del := false; m_ids := []; m_keys := [] |}.
Definition empty_log : file := {| f_level := 0; f_ss := []; f_ts := []; f_meas := []; f_log := [] |}.

Definition oget {A} (d : A) (o : option A) : A := match o with Some x => x | None => d end.

Definition set_meas (f : file) (ms : list (str * meas)) : file :=
  {| f_level := f_level f; f_ss := f_ss f; f_ts := f_ts f; f_meas := ms; f_log := f_log f |}.

(** the series file: id -> (name, tags); never forgets a key (no series-file compaction) *)
Definition sfile := list (N * (str * tagset)).
Fixpoint sf_get (id : N) (sf : sfile) : option (str * tagset) :=
  match sf with
  | [] => None
  | (i, x) :: r => if N.eqb id i then Some x else sf_get id r
  end.

(** LogFile.execSeriesEntry *)
Definition upd_ids (del : bool) (id : N) (l : list N) : list N := if del then srem id l else sadd id l.
Definition exec_tag (del : bool) (id : N) (ks : list (str * tkey)) (kv : str * str) : list (str * tkey) :=
  let tk := oget empty_tkey (aget (fst kv) ks) in
  let tv := oget empty_tval (aget (snd kv) (tk_vals tk)) in
  aput (fst kv) {| tk_del := tk_del tk;
                   tk_vals := aput (snd kv) {| tv_del := tv_del tv; tv_ids := upd_ids del id (tv_ids tv) |} (tk_vals tk) |} ks.
Definition exec_series (del : bool) (id : N) (name : str) (tags : tagset) (f : file) : file :=
  let m := oget empty_meas (aget name (f_meas f)) in
  let m' := {| m_del := false; m_ids := upd_ids del id (m_ids m);
               m_keys := fold_left (exec_tag del id) tags (m_keys m) |} in
  {| f_level := f_level f;
     f_ss := upd_ids del id (f_ss f);
     f_ts := upd_ids (negb del) id (f_ts f);
     f_meas := aput name m' (f_meas f);
     f_log := f_log f |}.

(** execDeleteMeasurementEntry / execDeleteTagKeyEntry / execDeleteTagValueEntry *)
Definition exec_del_meas (name : str) (f : file) : file :=
  set_meas f (aput name {| m_del := true; m_ids := []; m_keys := [] |} (f_meas f)).
Definition exec_del_key (name key : str) (f : file) : file :=
  let m := oget empty_meas (aget name (f_meas f)) in
  let tk := oget empty_tkey (aget key (m_keys m)) in
  set_meas f (aput name {| m_del := m_del m; m_ids := m_ids m;
                           m_keys := aput key {| tk_del := true; tk_vals := tk_vals tk |} (m_keys m) |} (f_meas f)).
Definition exec_del_val (name key val : str) (f : file) : file :=
  let m := oget empty_meas (aget name (f_meas f)) in
  let tk := oget empty_tkey (aget key (m_keys m)) in
  let tv := oget empty_tval (aget val (tk_vals tk)) in
  set_meas f (aput name {| m_del := m_del m; m_ids := m_ids m;
                           m_keys := aput key {| tk_del := tk_del tk;
                                                 tk_vals := aput val {| tv_del := true; tv_ids := tv_ids tv |} (tk_vals tk) |}
                                          (m_keys m) |} (f_meas f)).

(** LogFile.execEntry: any flag other than the three tombstone kinds is a series entry
    (deleted iff flag = series tombstone); a series id unknown to the series file is skipped *)
Definition exec_entry (sf : sfile) (e : entry) (f : file) : file :=
  if N.eqb (e_flag e) FlagMeasTomb then exec_del_meas (e_name e) f
  else if N.eqb (e_flag e) FlagKeyTomb then exec_del_key (e_name e) (e_key e) f
  else if N.eqb (e_flag e) FlagValTomb then exec_del_val (e_name e) (e_key e) (e_val e) f
  else match sf_get (e_id e) sf with
       | None => f
       | Some (name, tags) => exec_series (N.eqb (e_flag e) FlagSeriesTomb) (e_id e) name tags f
       end.

(** appendEntry + execEntry *)
Definition log_append (sf : sfile) (e : entry) (f : file) : file :=
  let f' := exec_entry sf e f in
  {| f_level := f_level f'; f_ss := f_ss f'; f_ts := f_ts f'; f_meas := f_meas f'; f_log := f_log f ++ [e] |}.

(** in-memory content of a log file = replay of its entries (LogFile.open) *)
Definition replay (sf : sfile) (es : list entry) : file :=
  let f := fold_left (fun f e => exec_entry sf e f) es empty_log in
  {| f_level := 0; f_ss := f_ss f; f_ts := f_ts f; f_meas := f_meas f; f_log := es |}.

Definition log_size (f : file) : N := N.of_nat (fold_right (fun e n => (entry_size e + n)%nat) 0%nat (f_log f)).

Definition mk_series (del : bool) (id : N) : entry :=
  {| e_flag := if del then FlagSeriesTomb else 0; e_id := id; e_name := []; e_key := []; e_val := [] |}.
Definition mk_del_meas (name : str) : entry :=
  {| e_flag := FlagMeasTomb; e_id := 0; e_name := name; e_key := []; e_val := [] |}.
Definition mk_del_key (name key : str) : entry :=
  {| e_flag := FlagKeyTomb; e_id := 0; e_name := name; e_key := key; e_val := [] |}.
Definition mk_del_val (name key val : str) : entry :=
  {| e_flag := FlagValTomb; e_id := 0; e_name := name; e_key := key; e_val := val |}.

(* ------------------------------------------------------------------------- *)
(** * File-set queries (file_set.go, tsi1.go merge iterators; newest file first) *)

Definition fmeas (f : file) (m : str) : option meas := aget m (f_meas f).
Definition fkey (f : file) (m k : str) : option tkey :=
  match fmeas f m with Some x => aget k (m_keys x) | None => None end.
Definition fval (f : file) (m k v : str) : option tval :=
  match fkey f m k with Some x => aget v (tk_vals x) | None => None end.

(** first element wins (MergeXIterators: the first iterator's element carries the deleted flag) *)
Fixpoint first_some {A B} (g : A -> option B) (l : list A) : option B :=
  match l with
  | [] => None
  | x :: r => match g x with Some y => Some y | None => first_some g r end
  end.

Definition meas_names (fs : list file) : list str := str_set (flat_map (fun f => map fst (f_meas f)) fs).
Definition key_names (fs : list file) (m : str) : list str :=
  str_set (flat_map (fun f => match fmeas f m with Some x => map fst (m_keys x) | None => [] end) fs).
Definition val_names (fs : list file) (m k : str) : list str :=
  str_set (flat_map (fun f => match fkey f m k with Some x => map fst (tk_vals x) | None => [] end) fs).

Definition live_flag {A} (del : A -> bool) (o : option A) : bool :=
  match o with Some x => negb (del x) | None => false end.

(** FileSet.MeasurementIterator through tsdbMeasurementIteratorAdapter *)
Definition q_meas (fs : list file) : list str :=
  filter (fun m => live_flag m_del (first_some (fun f => fmeas f m) fs)) (meas_names fs).
(** FileSet.TagKeyIterator through tsdbTagKeyIteratorAdapter *)
Definition q_keys (fs : list file) (m : str) : list str :=
  filter (fun k => live_flag tk_del (first_some (fun f => fkey f m k) fs)) (key_names fs m).
(** FileSet.TagValueIterator through tsdbTagValueIteratorAdapter (every file that has the key,
    whatever the key's deleted flag) *)
Definition q_vals (fs : list file) (m k : str) : list str :=
  filter (fun v => live_flag tv_del (first_some (fun f => fval f m k v) fs)) (val_names fs m k).

(** FileSet.MeasurementSeriesIDIterator: plain union *)
Definition q_mseries (fs : list file) (m : str) : list N :=
  sunions (map (fun f => match fmeas f m with Some x => m_ids x | None => [] end) fs).
(** FileSet.TagKeySeriesIDIterator: union over the files and over all values of the key *)
Definition key_ids (tk : tkey) : list N :=
  sunions (map (fun v => tv_ids (oget empty_tval (aget v (tk_vals tk)))) (map fst (tk_vals tk))).
Definition q_kseries (fs : list file) (m k : str) : list N :=
  sunions (map (fun f => match fkey f m k with Some x => key_ids x | None => [] end) fs).
(** FileSet.TagValueSeriesIDIterator: from the oldest file; the tombstones of a file are
    removed from the accumulated set just before the NEXT (newer) file is merged; the newest
    file's tombstones are never applied.  [go (rev fs)] with accumulator (ss, pending tombstones). *)
Definition q_vseries (fs : list file) (m k v : str) : list N :=
  fst (fold_left (fun (acc : list N * list N) f =>
                    let ss := sdiff (fst acc) (snd acc) in
                    (sunion ss (match fval f m k v with Some x => tv_ids x | None => [] end), f_ts f))
                 (rev fs) ([], [])).

(** Partition.MeasurementHasSeries *)
Definition has_series (fs : list file) (pset : list N) (m : str) : bool :=
  existsb (fun f => match fmeas f m with Some x => existsb (fun id => smem id pset) (m_ids x) | None => false end) fs.

(* ------------------------------------------------------------------------- *)
(** * Compaction *)

(** IndexFiles.buildSeriesIDSets (from the oldest file of the run) *)
Definition merge_sets (run : list file) : list N * list N :=
  fold_left (fun (acc : list N * list N) f =>
               let ss := sunion (sdiff (fst acc) (f_ts f)) (f_ss f) in
               let ts := sdiff (sunion (snd acc) (f_ts f)) (f_ss f) in
               (ss, ts))
            (rev run) ([], []).

(** the files a merged tag key element draws its values from: up to and including the first
    file in which the key is deleted (tagKeyMergeElem.TagValueIterator) *)
Fixpoint until_deleted (run : list file) (m k : str) : list file :=
  match run with
  | [] => []
  | f :: r => match fkey f m k with
              | Some x => if tk_del x then [f] else f :: until_deleted r m k
              | None => until_deleted r m k
              end
  end.

Definition merge_val (run pre : list file) (m k v : str) : tval :=
  {| tv_del := match first_some (fun f => fval f m k v) pre with Some x => tv_del x | None => false end;
     tv_ids := sunions (map (fun f => match fval f m k v with Some x => tv_ids x | None => [] end) run) |}.
Definition merge_key (run : list file) (m k : str) : tkey :=
  let pre := until_deleted run m k in
  {| tk_del := match first_some (fun f => fkey f m k) run with Some x => tk_del x | None => false end;
     tk_vals := abuild (val_names pre m k) (merge_val run pre m k) |}.
Definition merge_meas (run : list file) (m : str) : meas :=
  {| m_del := match first_some (fun f => fmeas f m) run with Some x => m_del x | None => false end;
     m_ids := q_mseries run m;
     m_keys := abuild (key_names run m) (merge_key run m) |}.
(** IndexFiles.CompactTo *)
Definition merge_run (lvl : N) (run : list file) : file :=
  let st := merge_sets run in
  {| f_level := lvl; f_ss := fst st; f_ts := snd st;
     f_meas := abuild (meas_names run) (merge_meas run); f_log := [] |}.

(** LogFile.CompactTo: the values of a deleted key are not written *)
Definition log_to_index (f : file) : file :=
  {| f_level := 1; f_ss := f_ss f; f_ts := f_ts f;
     f_meas := map (fun nm => (fst nm,
                 {| m_del := m_del (snd nm); m_ids := m_ids (snd nm);
                    m_keys := map (fun kk => (fst kk,
                                {| tk_del := tk_del (snd kk);
                                   tk_vals := if tk_del (snd kk) then [] else tk_vals (snd kk) |}))
                                  (m_keys (snd nm)) |})) (f_meas f);
     f_log := [] |}.

(* ------------------------------------------------------------------------- *)
(** * Partition and index *)

Record part := { p_files : list file; p_set : list N }.
Definition cache_t := list ((str * str * str) * list N).
Record index := {
  i_parts : list part;
  i_sf : sfile;
  i_sdel : list N;                (* ids deleted in the series file *)
  i_cache : option cache_t;       (* TagValueSeriesIDCache; None = disabled *)
  i_maxlog : N                    (* maxLogFileSize *)
}.

Definition new_part : part := {| p_files := [empty_log]; p_set := [] |}.
Definition new_index (parts : nat) (maxlog : N) (cache : bool) : index :=
  {| i_parts := repeat new_part parts; i_sf := []; i_sdel := [];
     i_cache := if cache then Some [] else None; i_maxlog := maxlog |}.

Definition upd_nth {A} (n : nat) (g : A -> A) (l : list A) : list A :=
  let fix go n l := match l with
                    | [] => []
                    | x :: r => match n with O => g x :: r | S n' => x :: go n' r end
                    end in go n l.

(** append to the active log (head of the file list) *)
Definition p_append (sf : sfile) (e : entry) (p : part) : part :=
  match p_files p with
  | [] => p
  | a :: r => {| p_files := log_append sf e a :: r; p_set := p_set p |}
  end.

(** Partition.CheckLogFile / prependActiveLogFile *)
Definition p_roll (p : part) : part := {| p_files := empty_log :: p_files p; p_set := p_set p |}.
Definition p_check (maxlog : N) (p : part) : part :=
  match p_files p with
  | a :: _ => if N.leb maxlog (log_size a) then p_roll p else p
  | [] => p
  end.

(** Partition.compactLogFile on file number [i] (a non-active log file) *)
Definition p_compact_log (i : nat) (p : part) : part :=
  match i with
  | O => p
  | _ => {| p_files := upd_nth i (fun f => if N.eqb (f_level f) 0 then log_to_index f else f) (p_files p);
            p_set := p_set p |}
  end.
(** Partition.compactToLevel on the contiguous run of [n] index files starting at [i] *)
Definition p_compact_run (i n : nat) (lvl : N) (p : part) : part :=
  let fs := p_files p in
  let run := firstn n (skipn i fs) in
  if Nat.leb 1%nat i && Nat.leb 2%nat n && Nat.eqb (length run) n && forallb (fun f => negb (N.eqb (f_level f) 0)) run
  then {| p_files := firstn i fs ++ merge_run lvl run :: skipn (i + n)%nat fs; p_set := p_set p |}
  else p.

(** the compaction policy of Partition.compact, run to quiescence: first any non-active log
    file, then for level 1..6 the last two of the files LastContiguousIndexFilesByLevel finds *)
Fixpoint find_log (i : nat) (fs : list file) : option nat :=
  match fs with
  | [] => None
  | f :: r => if N.eqb (f_level f) 0 then Some i else find_log (S i) r
  end.
(** positions (ascending) of the files at [lvl] collected from the end, skipping higher levels
    and stopping at the first lower level *)
Fixpoint last_contig (lvl : N) (rfs : list (nat * file)) : list nat :=
  match rfs with
  | [] => []
  | (i, f) :: r => if N.ltb lvl (f_level f) then last_contig lvl r
                   else if N.ltb (f_level f) lvl then []
                   else last_contig lvl r ++ [i]
  end.
Definition indexed {A} (l : list A) : list (nat * A) := combine (seq 0%nat (length l)) l.
Definition level_job (fs : list file) (lvl : N) : option (nat * nat) :=
  let pos := last_contig lvl (rev (indexed fs)) in
  match rev pos with
  | b :: a :: _ => if Nat.eqb (S a) b then Some (a, 2%nat) else None
  | _ => None
  end.
Definition policy_step (p : part) : option part :=
  match p_files p with
  | [] => None
  | _ :: r =>
      match find_log 1%nat r with
      | Some i => Some (p_compact_log i p)
      | None =>
          match first_some (fun lvl => match level_job (p_files p) lvl with
                                       | Some j => Some (lvl, j) | None => None end)
                           [1; 2; 3; 4; 5; 6]%N with
          | Some (lvl, (i, n)) => Some (p_compact_run i n (lvl + 1) p)
          | None => None
          end
      end
  end.
Fixpoint policy (fuel : nat) (p : part) : part :=
  match fuel with
  | O => p
  | S f => match policy_step p with Some p' => policy f p' | None => p end
  end.

(** Partition.createSeriesListIfNotExists -> LogFile.AddSeriesList; returns the ids that were new *)
Definition p_create (sf : sfile) (maxlog : N) (ids : list N) (p : part) : part * list N :=
  let r := fold_left (fun (acc : part * list N) id =>
                        if smem id (p_set (fst acc)) then acc
                        else (let p1 := p_append sf (mk_series false id) (fst acc) in
                              {| p_files := p_files p1; p_set := sadd id (p_set p1) |}, snd acc ++ [id]))
                     ids (p, []) in
  (match ids with [] => fst r | _ => p_check maxlog (fst r) end, snd r).

(** Partition.DropSeries *)
Definition p_drop_series (sf : sfile) (maxlog : N) (id : N) (p : part) : part :=
  let p1 := p_append sf (mk_series true id) p in
  p_check maxlog {| p_files := p_files p1; p_set := srem id (p_set p1) |}.

(** Partition.DropMeasurement: tombstone every non-deleted key and (for the files up to the first
    one that deletes the key) value, every series of the measurement, then the measurement;
    every tombstoned series id is also removed from the partition's series id set *)
Definition drop_meas_entries (fs : list file) (m : str) : list entry :=
  flat_map (fun k =>
              (if live_flag tk_del (first_some (fun f => fkey f m k) fs) then [mk_del_key m k] else [])
              ++ (let pre := until_deleted fs m k in
                  flat_map (fun v => if live_flag tv_del (first_some (fun f => fval f m k v) pre)
                                     then [mk_del_val m k v] else [])
                           (val_names pre m k)))
           (key_names fs m)
  ++ map (mk_series true) (q_mseries fs m)
  ++ [mk_del_meas m].
Definition p_drop_meas (sf : sfile) (maxlog : N) (m : str) (p : part) : part :=
  let p1 := fold_left (fun p e => p_append sf e p) (drop_meas_entries (p_files p) m) p in
  p_check maxlog {| p_files := p_files p1; p_set := sdiff (p_set p1) (q_mseries (p_files p) m) |}.

(** Partition.Open of a partition whose log files have the given recovered entries *)
Definition p_build_set (fs : list file) : list N :=
  fold_left (fun acc f => sunion (sdiff acc (f_ts f)) (f_ss f)) (rev fs) [].
Definition p_reopen (sf : sfile) (maxlog : N) (p : part) : part :=
  let fs := map (fun f => if N.eqb (f_level f) 0 then replay sf (f_log f) else f) (p_files p) in
  let fs := match fs with
            | a :: _ => if N.eqb (f_level a) 0 && N.ltb (log_size a) maxlog then fs else empty_log :: fs
            | [] => [empty_log]
            end in
  {| p_files := fs; p_set := p_build_set fs |}.

(* ------------------------------------------------------------------------- *)
(** * Index operations *)

Inductive op :=
| OCreate (l : list (N * (str * tagset) * nat))   (* id given by the series file, key, partition *)
| ODropSeries (id : N) (p : nat)                  (* Index.DropSeries(id, key, cascade=false) *)
| ODropIfNone (m : str)                           (* Index.DropMeasurementIfSeriesNotExist *)
| ODropMeas (m : str)                             (* Index.DropMeasurement *)
| OSfDelete (ids : list N)                        (* SeriesFile.DeleteSeriesID *)
| OReopen                                         (* Close + a new Index opened on the directory *)
| ORoll (p : nat)                                 (* schedule events, any time *)
| OCompactLog (p i : nat)
| OCompactRun (p i n : nat) (lvl : N).

Definition set_parts (st : index) (ps : list part) : index :=
  {| i_parts := ps; i_sf := i_sf st; i_sdel := i_sdel st; i_cache := i_cache st; i_maxlog := i_maxlog st |}.

Definition cache_key_eqb (a b : str * str * str) : bool :=
  str_eqb (fst (fst a)) (fst (fst b)) && str_eqb (snd (fst a)) (snd (fst b)) && str_eqb (snd a) (snd b).
Fixpoint cache_get (k : str * str * str) (c : cache_t) : option (list N) :=
  match c with
  | [] => None
  | (k', s) :: r => if cache_key_eqb k k' then Some s else cache_get k r
  end.
(** TagValueSeriesIDCache.addToSet for every tag of a newly indexed series (only existing sets) *)
Definition cache_add (name : str) (tags : tagset) (id : N) (c : cache_t) : cache_t :=
  map (fun ks => if str_eqb (fst (fst (fst ks))) name
                    && existsb (fun kv => str_eqb (fst kv) (snd (fst (fst ks))) && str_eqb (snd kv) (snd (fst ks))) tags
                 then (fst ks, sadd id (snd ks)) else ks) c.

(** TagValueSeriesIDCache.delete for every tag of a dropped series (only existing sets) *)
Definition cache_del (name : str) (tags : tagset) (id : N) (c : cache_t) : cache_t :=
  map (fun ks => if str_eqb (fst (fst (fst ks))) name
                    && existsb (fun kv => str_eqb (fst kv) (snd (fst (fst ks))) && str_eqb (snd kv) (snd (fst ks))) tags
                 then (fst ks, srem id (snd ks)) else ks) c.

Definition sf_add (id : N) (x : str * tagset) (sf : sfile) : sfile :=
  match sf_get id sf with Some _ => sf | None => sf ++ [(id, x)] end.

Definition do_create (l : list (N * (str * tagset) * nat)) (st : index) : index :=
  let sf := fold_left (fun sf x => sf_add (fst (fst x)) (snd (fst x)) sf) l (i_sf st) in
  let step (acc : list part * list N) (pi : nat) :=
      let ids := map (fun x => fst (fst x)) (filter (fun x => Nat.eqb (snd x) pi) l) in
      match nth_error (fst acc) pi with
      | Some p => let r := p_create sf (i_maxlog st) ids p in
                  (upd_nth pi (fun _ => fst r) (fst acc), snd acc ++ snd r)
      | None => acc
      end in
  let r := fold_left step (seq 0%nat (length (i_parts st))) (i_parts st, []) in
  let cache := match i_cache st with
               | None => None
               | Some c => Some (fold_left (fun c id => match sf_get id sf with
                                                        | Some (name, tags) => cache_add name tags id c
                                                        | None => c end) (snd r) c)
               end in
  {| i_parts := fst r; i_sf := sf; i_sdel := i_sdel st; i_cache := cache; i_maxlog := i_maxlog st |}.

Definition drop_meas_all (m : str) (st : index) : index :=
  set_parts st (map (p_drop_meas (i_sf st) (i_maxlog st) m) (i_parts st)).

Definition step (st : index) (o : op) : index :=
  match o with
  | OCreate l => do_create l st
  | ODropSeries id p =>
      (* Index.DropSeries: the partition's DropSeries, then (also when cascade = false) the id is
         removed from the cached tag-value series sets of the series' tags *)
      {| i_parts := upd_nth p (p_drop_series (i_sf st) (i_maxlog st) id) (i_parts st);
         i_sf := i_sf st; i_sdel := i_sdel st;
         i_cache := match i_cache st, sf_get id (i_sf st) with
                    | Some c, Some (name, tags) => Some (cache_del name tags id c)
                    | c, _ => c
                    end;
         i_maxlog := i_maxlog st |}
  | ODropIfNone m =>
      if existsb (fun p => has_series (p_files p) (p_set p) m) (i_parts st) then st else drop_meas_all m st
  | ODropMeas m => drop_meas_all m st
  | OSfDelete ids =>
      {| i_parts := i_parts st; i_sf := i_sf st; i_sdel := sunion (i_sdel st) ids;
         i_cache := i_cache st; i_maxlog := i_maxlog st |}
  | OReopen =>
      {| i_parts := map (p_reopen (i_sf st) (i_maxlog st)) (i_parts st); i_sf := i_sf st; i_sdel := i_sdel st;
         i_cache := match i_cache st with Some _ => Some [] | None => None end; i_maxlog := i_maxlog st |}
  | ORoll p => set_parts st (upd_nth p p_roll (i_parts st))
  | OCompactLog p i => set_parts st (upd_nth p (p_compact_log i) (i_parts st))
  | OCompactRun p i n lvl => set_parts st (upd_nth p (p_compact_run i n lvl) (i_parts st))
  end.

(** background compaction run to quiescence on every partition *)
Definition settle (st : index) : index := set_parts st (map (policy 64%nat) (i_parts st)).
Definition step_settle (st : index) (o : op) : index := settle (step st o).

(* ------------------------------------------------------------------------- *)
(** * Index-level queries as the query layer sees them (tsdb.IndexSet) *)

Definition not_deleted (st : index) (id : N) : bool :=
  negb (smem id (i_sdel st)) && match sf_get id (i_sf st) with Some _ => true | None => false end.

Definition parts_files (st : index) : list (list file) := map p_files (i_parts st).

Definition i_meas (st : index) : list str := str_set (flat_map q_meas (parts_files st)).
Definition i_keys (st : index) (m : str) : list str := str_set (flat_map (fun fs => q_keys fs m) (parts_files st)).
Definition i_vals (st : index) (m k : str) : list str := str_set (flat_map (fun fs => q_vals fs m k) (parts_files st)).
Definition i_mseries (st : index) (m : str) : list N :=
  filter (not_deleted st) (sunions (map (fun fs => q_mseries fs m) (parts_files st))).
Definition i_kseries (st : index) (m k : str) : list N :=
  filter (not_deleted st) (sunions (map (fun fs => q_kseries fs m k) (parts_files st))).
Definition raw_vseries (st : index) (m k v : str) : list N :=
  sunions (map (fun fs => q_vseries fs m k v) (parts_files st)).
(** Index.TagValueSeriesIDIterator: the cached set if there is one, else computed and cached *)
Definition i_vseries (st : index) (m k v : str) : index * list N :=
  match i_cache st with
  | None => (st, filter (not_deleted st) (raw_vseries st m k v))
  | Some c =>
      match cache_get (m, k, v) c with
      | Some s => (st, filter (not_deleted st) s)
      | None => let s := raw_vseries st m k v in
                ({| i_parts := i_parts st; i_sf := i_sf st; i_sdel := i_sdel st;
                    i_cache := Some (c ++ [((m, k, v), s)]); i_maxlog := i_maxlog st |},
                 filter (not_deleted st) s)
      end
  end.

(** Index.SeriesIDSet / SeriesN *)
Definition i_set (st : index) : list N := sunions (map p_set (i_parts st)).

(** one observation: every query over the string universe (measurement-major order) *)
Record obs := {
  o_meas : list str;
  o_keys : list (list str);     (* per m *)
  o_vals : list (list str);     (* per (m,k) *)
  o_ms : list (list N);         (* per m *)
  o_ks : list (list N);         (* per (m,k) *)
  o_vs : list (list N);         (* per (m,k,v) *)
  o_set : list N                (* Index.SeriesIDSet(): union of the partitions' series id sets *)
}.
Record universe := { u_ms : list str; u_ks : list str; u_vs : list str }.

Definition pairs2 (u : universe) : list (str * str) :=
  flat_map (fun m => map (fun k => (m, k)) (u_ks u)) (u_ms u).
Definition triples (u : universe) : list (str * str * str) :=
  flat_map (fun mk => map (fun v => (mk, v)) (u_vs u)) (pairs2 u).

Definition observe (u : universe) (st : index) : index * obs :=
  let r := fold_left (fun (acc : index * list (list N)) t =>
                        let q := i_vseries (fst acc) (fst (fst t)) (snd (fst t)) (snd t) in
                        (fst q, snd acc ++ [snd q]))
                     (triples u) (st, []) in
  (fst r,
   {| o_meas := i_meas st;
      o_keys := map (i_keys st) (u_ms u);
      o_vals := map (fun mk => i_vals st (fst mk) (snd mk)) (pairs2 u);
      o_ms := map (i_mseries st) (u_ms u);
      o_ks := map (fun mk => i_kseries st (fst mk) (snd mk)) (pairs2 u);
      o_vs := snd r;
      o_set := i_set st |}).

Definition shape (st : index) : list (list N) := map (fun p => map f_level (p_files p)) (i_parts st).

(* ------------------------------------------------------------------------- *)
(** * Specification: the live series list *)

Record sseries := { ss_id : N; ss_name : str; ss_tags : tagset; ss_live : bool }.
Definition spec := list sseries.

Definition spec_step (sp : spec) (o : op) : spec :=
  match o with
  | OCreate l =>
      fold_left (fun sp x => if existsb (fun s => N.eqb (ss_id s) (fst (fst x))) sp
                             then (* the same key created again with the id the series file kept *)
                                  map (fun s => if N.eqb (ss_id s) (fst (fst x))
                                                then {| ss_id := ss_id s; ss_name := ss_name s; ss_tags := ss_tags s; ss_live := true |}
                                                else s) sp
                             else sp ++ [{| ss_id := fst (fst x); ss_name := fst (snd (fst x));
                                            ss_tags := snd (snd (fst x)); ss_live := true |}]) l sp
  | ODropSeries id _ =>
      map (fun s => if N.eqb (ss_id s) id then {| ss_id := ss_id s; ss_name := ss_name s; ss_tags := ss_tags s; ss_live := false |} else s) sp
  | ODropMeas m =>
      map (fun s => if str_eqb (ss_name s) m then {| ss_id := ss_id s; ss_name := ss_name s; ss_tags := ss_tags s; ss_live := false |} else s) sp
  | _ => sp
  end.

Definition has_tag (s : sseries) (k v : str) : bool :=
  existsb (fun kv => str_eqb (fst kv) k && str_eqb (snd kv) v) (ss_tags s).
Definition has_key (s : sseries) (k : str) : bool := existsb (fun kv => str_eqb (fst kv) k) (ss_tags s).

Definition sel (sp : spec) (live_only : bool) (p : sseries -> bool) : list sseries :=
  filter (fun s => (ss_live s || negb live_only) && p s) sp.

Definition spec_meas (sp : spec) (lo : bool) : list str := map ss_name (sel sp lo (fun _ => true)).
Definition spec_keys (sp : spec) (lo : bool) (m : str) : list str :=
  flat_map (fun s => map fst (ss_tags s)) (sel sp lo (fun s => str_eqb (ss_name s) m)).
Definition spec_vals (sp : spec) (lo : bool) (m k : str) : list str :=
  flat_map (fun s => map snd (filter (fun kv => str_eqb (fst kv) k) (ss_tags s)))
           (sel sp lo (fun s => str_eqb (ss_name s) m)).
Definition spec_set (sp : spec) (lo : bool) : list N := map ss_id (sel sp lo (fun _ => true)).
Definition spec_ms (sp : spec) (m : str) : list N := map ss_id (sel sp true (fun s => str_eqb (ss_name s) m)).
Definition spec_ks (sp : spec) (m k : str) : list N :=
  map ss_id (sel sp true (fun s => str_eqb (ss_name s) m && has_key s k)).
Definition spec_vs (sp : spec) (m k v : str) : list N :=
  map ss_id (sel sp true (fun s => str_eqb (ss_name s) m && has_tag s k v)).

(** set comparisons *)
Definition strs_sub (a b : list str) : bool := forallb (fun x => str_mem x b) a.
Definition strs_eq (a b : list str) : bool := strs_sub a b && strs_sub b a.
Definition ids_sub (a b : list N) : bool := forallb (fun x => smem x b) a.
Definition ids_eq (a b : list N) : bool := ids_sub a b && ids_sub b a.

Fixpoint all2 {A B} (p : A -> B -> bool) (a : list A) (b : list B) : bool :=
  match a, b with
  | [], [] => true
  | x :: a', y :: b' => p x y && all2 p a' b'
  | _, _ => false
  end.

Definition obs_eq (a b : obs) : bool :=
  strs_eq (o_meas a) (o_meas b) && all2 strs_eq (o_keys a) (o_keys b) && all2 strs_eq (o_vals a) (o_vals b)
  && all2 ids_eq (o_ms a) (o_ms b) && all2 ids_eq (o_ks a) (o_ks b) && all2 ids_eq (o_vs a) (o_vs b)
  && ids_eq (o_set a) (o_set b).

(** The oracle.  [strict] = the property's full statement: every listing equals that of the live
    series.  Non-strict = the strongest statement the unchanged code satisfies (see Props/C14.v):
    series sets exact; tag keys / values: every live one is listed and every listed one belonged
    to a series that was created at some time; measurement names and Index.SeriesIDSet: exact
    ([raw] = Index.DropMeasurement was applied earlier; it weakened these two clauses until
    Partition.DropMeasurement was repaired to update the partition's series id set, and is unused now). *)
Definition sandwich (lo hi x : list str) : bool := strs_sub lo x && strs_sub x hi.
Definition oracle (u : universe) (strict raw : bool) (sp : spec) (o : obs) : bool :=
  strs_eq (o_meas o) (spec_meas sp true)
  && all2 (fun m x => if strict then strs_eq x (spec_keys sp true m)
                      else sandwich (spec_keys sp true m) (spec_keys sp false m) x) (u_ms u) (o_keys o)
  && all2 (fun mk x => if strict then strs_eq x (spec_vals sp true (fst mk) (snd mk))
                       else sandwich (spec_vals sp true (fst mk) (snd mk)) (spec_vals sp false (fst mk) (snd mk)) x)
          (pairs2 u) (o_vals o)
  && all2 (fun m x => ids_eq x (spec_ms sp m)) (u_ms u) (o_ms o)
  && all2 (fun mk x => ids_eq x (spec_ks sp (fst mk) (snd mk))) (pairs2 u) (o_ks o)
  && all2 (fun t x => ids_eq x (spec_vs sp (fst (fst t)) (snd (fst t)) (snd t))) (triples u) (o_vs o)
  && ids_eq (o_set o) (spec_set sp true).

(* ------------------------------------------------------------------------- *)
(** * Crash images: the active log of one partition cut after [cut] bytes, index reopened *)

Definition crash_reopen (st : index) (p : nat) (cut : nat) : index * bool :=
  match nth_error (i_parts st) p with
  | Some pt =>
      match p_files pt with
      | a :: r =>
          let rc := recover crc32 (firstn cut (enc_log crc32 (f_log a))) in
          let a' := {| f_level := 0; f_ss := f_ss a; f_ts := f_ts a; f_meas := f_meas a; f_log := fst rc |} in
          (step (set_parts st (upd_nth p (fun _ => {| p_files := a' :: r; p_set := p_set pt |}) (i_parts st))) OReopen,
           snd rc)
      | [] => (st, true)
      end
  | None => (st, true)
  end.
(** the entry-level statement of the same image: the last [drop] entries are missing *)
Definition crash_entries (st : index) (p : nat) (drop : nat) : index :=
  step (set_parts st (upd_nth p (fun pt =>
          match p_files pt with
          | a :: r => {| p_files := {| f_level := 0; f_ss := f_ss a; f_ts := f_ts a; f_meas := f_meas a;
                                       f_log := firstn (Nat.sub (length (f_log a)) drop) (f_log a) |} :: r;
                         p_set := p_set pt |}
          | [] => pt
          end) (i_parts st))) OReopen.

(* ------------------------------------------------------------------------- *)
(** * Correspondence case and judge *)

Record cstep := {
  s_op : op;
  s_obs : option obs;            (* observation of the real index after the step, if taken *)
  s_shape : list (list N)        (* levels of the real file set of every partition after the step *)
}.
Record crash := {
  cr_part : nat;
  cr_size : N;                   (* real size of the partition's active log *)
  cr_last : nat;                 (* real size of its last entry *)
  cr_bytes : list N;             (* the real bytes of that log file *)
  cr_cuts : list (nat * obs)     (* bytes kept, observation of the index reopened on the image *)
}.
Record case := {
  c_univ : universe;
  c_parts : nat;
  c_maxlog : N;
  c_cache : bool;
  c_strict : bool;               (* judge with the full statement (known-finding witnesses) *)
  c_keep : bool;                 (* some series is dropped from the index but kept in the series file *)
  c_steps : list cstep;
  c_crash : option crash
}.

(** the hypothesis of the compaction theorems, checked on every replayed history at every
    observation point: no tag key carries a tombstone, and every id tombstoned in some file is
    deleted in the series file *)
Definition file_no_key_tomb (f : file) : bool :=
  forallb (fun nm => forallb (fun kk => negb (tk_del (snd kk))) (m_keys (snd nm))) (f_meas f).
Definition st_okb (st : index) : bool :=
  forallb (fun p => forallb (fun f => file_no_key_tomb f && forallb (fun z => smem z (i_sdel st)) (f_ts f))
                            (p_files p)) (i_parts st).

Definition is_raw (o : op) : bool := match o with ODropMeas _ => true | _ => false end.

(** replay: returns (same, ok, final state) *)
Fixpoint replay_steps (u : universe) (strict keep : bool) (st : index) (sp : spec) (raw : bool)
         (l : list cstep) : bool * bool * index :=
  match l with
  | [] => (true, true, st)
  | s :: r =>
      let st1 := step_settle st (s_op s) in
      let sp1 := spec_step sp (s_op s) in
      let raw1 := raw || is_raw (s_op s) in
      let same_shape := list_eqb (list_eqb N.eqb) (shape st1) (s_shape s) in
      match s_obs s with
      | None => let '(sm, ok, fin) := replay_steps u strict keep st1 sp1 raw1 r in (same_shape && sm, ok, fin)
      | Some o =>
          let q := observe u st1 in
          let '(sm, ok, fin) := replay_steps u strict keep (fst q) sp1 raw1 r in
          (same_shape && (keep || st_okb st1) && obs_eq o (snd q) && sm, oracle u strict raw1 sp1 o && ok, fin)
      end
  end.

Definition last_entry_size (st : index) (p : nat) : nat :=
  match nth_error (i_parts st) p with
  | Some pt => match p_files pt with
               | a :: _ => match rev (f_log a) with e :: _ => entry_size e | [] => 0%nat end
               | [] => 0%nat end
  | None => 0%nat
  end.
Definition active_size (st : index) (p : nat) : N :=
  match nth_error (i_parts st) p with
  | Some pt => match p_files pt with a :: _ => log_size a | [] => 0 end
  | None => 0
  end.

Definition active_bytes (st : index) (p : nat) : list N :=
  match nth_error (i_parts st) p with
  | Some pt => match p_files pt with a :: _ => enc_log crc32 (f_log a) | [] => [] end
  | None => []
  end.

Definition check_crash (u : universe) (st : index) (c : crash) : bool * bool :=
  let sz := N.to_nat (active_size st (cr_part c)) in
  let same0 := N.eqb (active_size st (cr_part c)) (cr_size c) && Nat.eqb (last_entry_size st (cr_part c)) (cr_last c)
               && list_eqb N.eqb (active_bytes st (cr_part c)) (cr_bytes c) in
  fold_left (fun (acc : bool * bool) co =>
               let img := crash_reopen st (cr_part c) (fst co) in
               let om := snd (observe u (settle (fst img))) in
               (* entry-level oracle: a cut inside the last entry loses exactly that entry *)
               let drop := if Nat.ltb (fst co) sz then 1%nat else 0%nat in
               let oe := snd (observe u (settle (crash_entries st (cr_part c) drop))) in
               (fst acc && negb (snd img) && obs_eq (snd co) om,
                snd acc && Nat.leb (Nat.sub sz (cr_last c)) (fst co) && obs_eq (snd co) oe))
            (cr_cuts c) (same0, true).

Definition check (c : case) : verdict :=
  let st0 := new_index (c_parts c) (c_maxlog c) (c_cache c) in
  let '(same, ok, fin) := replay_steps (c_univ c) (c_strict c) (c_keep c) st0 [] false (c_steps c) in
  match c_crash c with
  | None => judge same ok
  | Some cr => let r := check_crash (c_univ c) fin cr in judge (same && fst r) (ok && snd r)
  end.
