(** C06 — Multi-file block reads return the exact newest-wins merge.  Property theorems only.

    FULL STATEMENT (not proved in full; kept here as the goal):

      Theorem C06_keycursor_spec : forall (fs : list (tfile V)) t asc mrg,
        mrg = arr_merge \/ mrg = vals_merge ->
        Forall file_wf fs ->                         (* per file: blocks non-empty, strictly increasing inside,
                                                        ordered and non-overlapping, entry = first/last timestamp;
                                                        arbitrary overlap ACROSS files; any tombstone ranges *)
        MinInt64 < t < MaxInt64 ->                    (* at t = MinInt64 the code's [t-1] wraps *)
        (length (locations fs t asc) <= 12)%nat ->     (* sort.Sort = insertion sort (see Model/C06.v);
                                                        by [C06_sort_overlapping_in_generation_order] the
                                                        bound is not needed for the model's insertion sort *)
        exists bs, run_cursor mrg fs t asc = Some bs /\
                   flatten asc bs = live_points_newest_wins fs t asc.

    What is proved below, for ALL layouts (unbounded), all seeks, both directions, both value families:
      - the SAFETY half ([C06_returned_points_sound_partial]): every returned block is non-empty and
        strictly increasing; every returned point is a point of some file's block, is not covered by any
        tombstone of that file, and is not before (after, if descending) the seek time;
      - TERMINATION ([C06_cursor_loop_terminates]): the ReadBlock/Next loop reaches an empty block within
        (number of points + 1) iterations;
      - the ORDER fact the newest-wins half rests on ([C06_sort_overlapping_in_generation_order]):
        insertion sort with the non-transitive comparator leaves any two time-overlapping locations
        in generation order (the older file first), for any number of locations.
    The COMPLETENESS half (every live point is returned, exactly once, with the newest value, blocks in
    order) is proved only on a finite family ([C06_keycursor_spec_small_partial], by exhaustive
    evaluation, bound in the statement); beyond it, it is only tested: the correspondence check
    compares the real cursor with the mirror AND the oracle on generated layouts, and the thorough
    tier enumerates all small layouts on the real code as a search for a counterexample. *)
From Verif Require Import Base.Prelude Model.C37 Proofs.C37 Model.C06 Proofs.C06 Proofs.C06_sort Proofs.C06_fuel Proofs.C06_small.
Local Open Scope Z_scope.

Theorem C06_returned_points_sound_partial :
  forall (V : Type) (fs : list (tfile V)) (t : Z) (asc : bool) (bs : list (arr V)),
    files_sorted fs ->
    (run_cursor arr_merge fs t asc = Some bs \/ run_cursor vals_merge fs t asc = Some bs) ->
    Forall (fun v => v <> [] /\ ssorted v /\
              Forall (fun p => exists f b, In f fs /\ In b (f_blocks f) /\ In p (b_data b) /\
                                 dead (f_tombs f) p = false /\
                                 (if asc then ~ (MinInt64 <= tm p <= sub1_64 t)
                                  else ~ (add1_64 t <= tm p <= MaxInt64))) v) bs.
Proof.
  intros V fs t asc bs Hs [H|H].
  - exact (run_cursor_sound arr_merge (@merge_sorted V) (@arr_merge_In_weak V) fs t asc bs Hs H).
  - exact (run_cursor_sound vals_merge (@vals_merge_sorted V) (@vals_merge_In_weak V) fs t asc bs Hs H).
Qed.
Print Assumptions C06_returned_points_sound_partial.

(** The consumer loop [ReadBlock; Next] always reaches an empty block: the model's fuel
    (number of points in the files + 1) is never exhausted, for ANY merge function. *)
Theorem C06_cursor_loop_terminates :
  forall (V : Type) (mrg : arr V -> arr V -> arr V) (fs : list (tfile V)) (t : Z) (asc : bool),
    files_sorted fs -> run_cursor mrg fs t asc <> None.
Proof. intros V mrg fs t asc H. exact (run_cursor_total mrg fs t asc H). Qed.
Print Assumptions C06_cursor_loop_terminates.

Theorem C06_sort_overlapping_in_generation_order :
  forall (V : Type) (fs : list (tfile V)) (t : Z) (asc : bool),
    Forall (fun f => blocks_ordered (f_blocks f)) fs ->
    pairwise (fun y x => overlaps y (l_min x) (l_max x) = true -> (l_file y < l_file x)%nat)
             (k_seeks (new_cursor fs t asc)).
Proof. intros V fs t asc H. exact (seeks_newer_after fs t asc H). Qed.
Print Assumptions C06_sort_overlapping_in_generation_order.

Theorem C06_sort_is_permutation :
  forall (V : Type) (asc : bool) (l : list (loc V)), Permutation.Permutation (sort_locs asc l) l.
Proof. intros. apply sort_locs_perm. Qed.
Print Assumptions C06_sort_is_permutation.

Theorem C06_keycursor_spec_small_partial :
  forall (fs : list (tfile Z)) (t : Z) (asc : bool),
    In fs small_two \/ In fs small_three -> -1 <= t <= 4 ->
    exists bs, run_cursor arr_merge fs t asc = Some bs /\ run_cursor vals_merge fs t asc = Some bs /\
               flatten asc bs = live_points_newest_wins fs t asc.
Proof. exact small_layouts_spec. Qed.
Print Assumptions C06_keycursor_spec_small_partial.

(** Without the restriction on the seek time the statement is FALSE for the code as written:
    [locations] computes [readMax = t-1] (ascending) / [readMin = t+1] (descending) in int64, so a
    seek at MinInt64 / MaxInt64 marks EVERYTHING read and the cursor returns nothing.  Replayed on the
    real KeyCursor (replays/C06-seek-int64-extreme.json): it returns no block either. *)
Theorem C06_seek_at_int64_extreme_refuted :
  exists (fs : list (tfile Z)),
    forallb file_wf_b fs = true /\
    run_cursor arr_merge fs MinInt64 true = Some [] /\ live_points_newest_wins fs MinInt64 true <> [] /\
    run_cursor arr_merge fs MaxInt64 false = Some [] /\ live_points_newest_wins fs MaxInt64 false <> [].
Proof.
  exists [ {| f_blocks := [ {| b_min := 0; b_max := 2; b_data := [(0, 10); (1, 10); (2, 10)] |} ];
             f_tombs := []; f_tmin := 0; f_tmax := 2 |} ].
  vm_compute. repeat split; discriminate.
Qed.
Print Assumptions C06_seek_at_int64_extreme_refuted.

(** Non-vacuity: two overlapping files with a tombstone each; the cursor returns the newest-wins merge
    in both directions, and the hypotheses of the theorems hold for this layout. *)
Example C06_nonvacuous :
  let f1 := {| f_blocks := [ {| b_min := 0; b_max := 4; b_data := [(0, 1); (2, 1); (4, 1)] |};
                             {| b_min := 6; b_max := 8; b_data := [(6, 1); (8, 1)] |} ];
               f_tombs := [(2, 2)]; f_tmin := 0; f_tmax := 10 |} in
  let f2 := {| f_blocks := [ {| b_min := 1; b_max := 3; b_data := [(1, 2); (2, 2); (3, 2)] |};
                             {| b_min := 7; b_max := 9; b_data := [(7, 2); (8, 2); (9, 2)] |} ];
               f_tombs := [(8, 9)]; f_tmin := 0; f_tmax := 10 |} in
  forallb file_wf_b [f1; f2] = true /\
  run_cursor arr_merge [f1; f2] 0 true
    = Some [[(0, 1); (1, 2); (2, 2); (3, 2); (4, 1)]; [(6, 1); (7, 2); (8, 1)]] /\
  run_cursor vals_merge [f1; f2] 9 false
    = Some [[(6, 1); (7, 2); (8, 1)]; [(1, 2); (2, 2); (3, 2); (4, 1)]; [(0, 1)]] /\
  live_points_newest_wins [f1; f2] 0 true
    = [(0, 1); (1, 2); (2, 2); (3, 2); (4, 1); (6, 1); (7, 2); (8, 1)] /\
  (N.of_nat (length small_two) = 35301 /\ N.of_nat (length small_three) = 2744)%N.
Proof. vm_compute. repeat split; reflexivity. Qed.
