(** C30 — association-list lemmas ([get]/[put]/[del] of Model/C30.v have map semantics). *)
From Verif Require Import Base.Prelude Model.C30.

Lemma nn_eqb_spec (a b : N * N) : nn_eqb a b = true <-> a = b.
Proof.
  destruct a as [a1 a2], b as [b1 b2]; unfold nn_eqb; cbn.
  rewrite andb_true_iff, !N.eqb_eq. split; [intros [-> ->]; reflexivity | intros E; inversion E; auto].
Qed.

Lemma nn_eqb_refl a : nn_eqb a a = true.
Proof. apply nn_eqb_spec; reflexivity. Qed.

Lemma nn_eqb_reflect a b : reflect (a = b) (nn_eqb a b).
Proof. apply iff_reflect. symmetry. apply nn_eqb_spec. Qed.

Section AL.
  Context {K V : Type}.
  Variable eqb : K -> K -> bool.
  Hypothesis eqb_spec : forall x y, eqb x y = true <-> x = y.

  Lemma eqb_rfl x : eqb x x = true.
  Proof. apply eqb_spec; reflexivity. Qed.

  Lemma eqb_false x y : x <> y -> eqb x y = false.
  Proof. intro H. destruct (eqb x y) eqn:E; [apply eqb_spec in E; contradiction | reflexivity]. Qed.

  Lemma get_del (k k' : K) (l : list (K * V)) :
    get eqb k (del eqb k' l) = if eqb k k' then None else get eqb k l.
  Proof.
    induction l as [|[a v] l IH]; cbn.
    - destruct (eqb k k'); reflexivity.
    - destruct (eqb k' a) eqn:E1.
      + rewrite IH. destruct (eqb k k') eqn:E2; [reflexivity|].
        destruct (eqb k a) eqn:E3; [|reflexivity].
        apply eqb_spec in E1, E3. subst. rewrite eqb_rfl in E2. discriminate.
      + cbn. destruct (eqb k a) eqn:E3.
        * destruct (eqb k k') eqn:E2; [|reflexivity].
          apply eqb_spec in E2, E3. subst. rewrite eqb_rfl in E1. discriminate.
        * exact IH.
  Qed.

  Lemma get_put (k k' : K) (v : V) (l : list (K * V)) :
    get eqb k (put eqb k' v l) = if eqb k k' then Some v else get eqb k l.
  Proof.
    unfold put; cbn. destruct (eqb k k') eqn:E; [reflexivity|].
    rewrite get_del, E. reflexivity.
  Qed.

  Lemma has_del k k' (l : list (K * V)) :
    has eqb k (del eqb k' l) = negb (eqb k k') && has eqb k l.
  Proof. unfold has. rewrite get_del. destruct (eqb k k'); reflexivity. Qed.

  Lemma has_put k k' (v : V) l :
    has eqb k (put eqb k' v l) = eqb k k' || has eqb k l.
  Proof. unfold has. rewrite get_put. destruct (eqb k k'); reflexivity. Qed.

  Lemma has_true k (l : list (K * V)) : has eqb k l = true <-> exists v, get eqb k l = Some v.
  Proof.
    unfold has. destruct (get eqb k l); split; try discriminate; eauto.
    intros [v H]; discriminate.
  Qed.

  Lemma has_false k (l : list (K * V)) : has eqb k l = false <-> get eqb k l = None.
  Proof. unfold has. destruct (get eqb k l); split; try discriminate; auto. Qed.

  Lemma get_some_has k (l : list (K * V)) v : get eqb k l = Some v -> has eqb k l = true.
  Proof. intro H. apply has_true; eauto. Qed.

  (** deleting an absent key changes nothing, syntactically *)
  Lemma del_absent k (l : list (K * V)) : get eqb k l = None -> del eqb k l = l.
  Proof.
    induction l as [|[a v] l IH]; cbn; [reflexivity|].
    destruct (eqb k a); [discriminate|]. intro H. rewrite IH; auto.
  Qed.

  Lemma get_in k v (l : list (K * V)) : get eqb k l = Some v -> In (k, v) l.
  Proof.
    induction l as [|[a w] l IH]; cbn; [discriminate|].
    destruct (eqb k a) eqn:E.
    - intro H; inversion H; subst. apply eqb_spec in E; subst. left; reflexivity.
    - intro H; right; auto.
  Qed.

  Lemma in_has k v (l : list (K * V)) : In (k, v) l -> has eqb k l = true.
  Proof.
    induction l as [|[a w] l IH]; cbn; [contradiction|].
    intros [E | H]; unfold has; cbn.
    - inversion E; subst. rewrite eqb_rfl. reflexivity.
    - destruct (eqb k a); [reflexivity|]. apply IH; exact H.
  Qed.

  Lemma in_keys_has k (l : list (K * V)) : In k (map fst l) <-> has eqb k l = true.
  Proof.
    split.
    - intro H. apply in_map_iff in H as [[a v] [E H]]; cbn in E; subst. eapply in_has; eauto.
    - intro H. apply has_true in H as [v H]. apply get_in in H.
      apply in_map_iff. exists (k, v); auto.
  Qed.
End AL.

Lemma existsb_nn k ks : existsb (nn_eqb k) ks = true <-> In k ks.
Proof.
  rewrite existsb_exists. split.
  - intros [x [H E]]. apply nn_eqb_spec in E; subst; exact H.
  - intro H. exists k; split; [exact H | apply nn_eqb_refl].
Qed.

Lemma existsb_N k ks : existsb (N.eqb k) ks = true <-> In k ks.
Proof.
  rewrite existsb_exists. split.
  - intros [x [H E]]. apply N.eqb_eq in E; subst; exact H.
  - intro H. exists k; split; [exact H | apply N.eqb_refl].
Qed.

(** Specialised rewriting lemmas. *)
Definition getN_del {V} := @get_del N V N.eqb N.eqb_eq.
Definition getN_put {V} := @get_put N V N.eqb N.eqb_eq.
Definition hasN_del {V} := @has_del N V N.eqb N.eqb_eq.
Definition hasN_put {V} := @has_put N V N.eqb N.eqb_eq.
Definition getP_del {V} := @get_del (N * N) V nn_eqb nn_eqb_spec.
Definition getP_put {V} := @get_put (N * N) V nn_eqb nn_eqb_spec.
Definition hasP_del {V} := @has_del (N * N) V nn_eqb nn_eqb_spec.
Definition hasP_put {V} := @has_put (N * N) V nn_eqb nn_eqb_spec.

(** ---- keys are unique: the lists are finite maps ---- *)
Section ND.
  Context {K V : Type}.
  Variable eqb : K -> K -> bool.
  Hypothesis eqb_spec : forall x y, eqb x y = true <-> x = y.

  Lemma NoDup_del k (l : list (K * V)) : NoDup (map fst l) -> NoDup (map fst (del eqb k l)).
  Proof.
    induction l as [|[a v] l IH]; cbn; [auto|]. intro H. inversion H as [|x xs Hn Hd]; subst.
    destruct (eqb k a) eqn:E; [auto|]. cbn. constructor; [|auto].
    intro Hin. apply Hn. apply (in_keys_has eqb eqb_spec) in Hin.
    rewrite (has_del eqb eqb_spec) in Hin. apply andb_true_iff in Hin as [_ Hin].
    apply (in_keys_has eqb eqb_spec). exact Hin.
  Qed.

  Lemma NoDup_put k v (l : list (K * V)) : NoDup (map fst l) -> NoDup (map fst (put eqb k v l)).
  Proof.
    intro H. unfold put; cbn. constructor; [|apply NoDup_del; exact H].
    intro Hin. apply (in_keys_has eqb eqb_spec) in Hin.
    rewrite (has_del eqb eqb_spec), (eqb_rfl eqb eqb_spec) in Hin. discriminate.
  Qed.

  Lemma in_get_nodup k v (l : list (K * V)) : NoDup (map fst l) -> In (k, v) l -> get eqb k l = Some v.
  Proof.
    induction l as [|[a w] l IH]; cbn; [contradiction|]. intro H. inversion H as [|x xs Hn Hd]; subst.
    intros [E | Hin].
    - inversion E; subst. rewrite (eqb_rfl eqb eqb_spec). reflexivity.
    - destruct (eqb k a) eqn:E; [|auto].
      apply eqb_spec in E; subst. exfalso. apply Hn. apply in_map_iff. exists (a, v). auto.
  Qed.
End ND.
