(** C15 — Tag WHERE clauses select exactly the matching series.  Property theorems only. *)
From Coq Require Import String.
From Verif Require Import Base.Prelude Model.C15 Proofs.C15.
Open Scope string_scope.

(** The property: for EVERY regex oracle [rmatch], every series list [l] without empty tag
    values, every measurement name and every expression of the property's grammar
    (=, !=, =~, !~ on tags or _name, AND, OR, parentheses, boolean literals; unbounded depth),
    the mirror of IndexSet.MeasurementSeriesByExprIterator on the index of [l] returns exactly
    the series of the measurement whose tags satisfy the expression, an absent tag comparing
    as the empty string — in id order, each once. *)
Theorem C15_where_selects_exactly :
  forall (R : Type) (rmatch : R -> string -> bool) (l : list series) (n : string) (e : expr R),
    wf l -> tag_only R e = true ->
    select R rmatch l n e = filter (fun s => is_meas n s && eval R rmatch n e s) l.
Proof. exact where_selects_exactly. Qed.
Print Assumptions C15_where_selects_exactly.

(** The same for ANY index whose four lookups are consistent with [l], where the listed tag
    values may be a superset of the live ones (tsi1 keeps listing a value after all its series
    were dropped, cf. the C14 findings): stale listed values never change the selection. *)
Theorem C15_where_selects_exactly_any_consistent_index :
  forall (R : Type) (rmatch : R -> string -> bool) (l : list series) (ix : index) (n : string) (e : expr R),
    index_ok l ix -> wf l -> tag_only R e = true ->
    norm (series_by_expr R rmatch l ix n e) = filter (fun s => is_meas n s && eval R rmatch n e s) l.
Proof. intros R rmatch l ix n e Hok Hwf Ht. exact (series_by_expr_den R rmatch l ix Hok Hwf n e Ht). Qed.
Print Assumptions C15_where_selects_exactly_any_consistent_index.

Theorem C15_selected_iff_matches :
  forall (R : Type) (rmatch : R -> string -> bool) l n e s,
    wf l -> tag_only R e = true ->
    (In s (select R rmatch l n e) <-> In s l /\ s_name s = n /\ eval R rmatch n e s = true).
Proof. exact selected_iff. Qed.
Print Assumptions C15_selected_iff_matches.

(** On the property's grammar the judge's mirror output and oracle output are the same list. *)
Theorem C15_judge_model_is_oracle :
  forall c, wf (c_series c) -> tag_only N (c_expr c) = true -> model_out c = oracle_out c.
Proof. exact check_model_is_oracle. Qed.
Print Assumptions C15_judge_model_is_oracle.

(** OBSERVATION (outside the property's grammar, not claimed): tag-vs-tag comparison
    [k1 = k2] is evaluated by seriesByBinaryExprVarRefIterator as an intersection of the two
    KEY series sets, not as a comparison of values: it selects a series with k1=a,k2=b and
    misses a series carrying neither key (both sides compare as ''). *)
Theorem C15_tag_vs_tag_is_key_set_algebra_observation :
  select unit (fun _ _ => false) obs_l "m" (EqRef "k1" "k2")
    = [ {| s_name := "m"; s_tags := [("k1","a"); ("k2","b")] |};
        {| s_name := "m"; s_tags := [("k1","a"); ("k2","a")] |} ]
  /\ spec unit (fun _ _ => false) obs_l "m" (EqRef "k1" "k2")
    = [ {| s_name := "m"; s_tags := [] |};
        {| s_name := "m"; s_tags := [("k1","a"); ("k2","a")] |} ].
Proof. exact varref_is_key_set_algebra. Qed.
Print Assumptions C15_tag_vs_tag_is_key_set_algebra_observation.

(** Non-vacuity: a well-formed 4-series index and a depth-3 expression with a regex that
    matches the empty string; the selection is a proper non-empty subset. *)
Example C15_nonvacuous :
  let l := [ {| s_name := "m"; s_tags := [] |};
             {| s_name := "m"; s_tags := [("k1","a")] |};
             {| s_name := "m"; s_tags := [("k1","b"); ("k2","a")] |};
             {| s_name := "n"; s_tags := [("k1","a")] |} ] in
  let rm := fun (r : N) (s : string) => String.eqb s "" || String.eqb s "b" in  (* b? anchored *)
  let e := And (Paren (Or (Eq "k1" "") (Re "k1" 0%N))) (Neq "k2" "zz") in
  wf l /\ tag_only N e = true /\
  select N rm l "m" e = [ {| s_name := "m"; s_tags := [] |};
                          {| s_name := "m"; s_tags := [("k1","b"); ("k2","a")] |} ].
Proof.
  cbv zeta. split; [apply wf_b_sound; vm_compute; reflexivity|split; vm_compute; reflexivity].
Qed.
