// C11 mode: models.NewPoint -> String()/PrecisionString -> ParsePointsWithPrecision, and
// MakeKey -> ParseKeyBytes, on generated points; the printed bytes, the reparsed point
// (through its public accessors) and the key round trip go to the Coq judge of Model/C11.v.
package main

import (
	"bytes"
	"fmt"
	"math"
	"sort"
	"strconv"
	"strings"
	"time"

	"github.com/influxdata/influxdb/v2/models"
	"verifh/vh"
)

const (
	sigBackslash = "lp-backslash-not-escaped"
	sigResort    = "lp-tags-resorted-by-escaped-key"
	sigToken     = "newpoint-accepts-unrepresentable-token"
)

type j11 struct {
	Name   []byte      `json:"name"`
	NameQ  string      `json:"name_q"`
	Tags   [][2][]byte `json:"tags"` // as given to NewTags (a map: unique keys)
	TagsQ  []string    `json:"tags_q"`
	Fields []jfield    `json:"fields"` // a map: unique keys
	Time   *int64      `json:"time"`   // nil = zero time.Time
	Prec   string      `json:"precision"`
	Dflt   int64       `json:"default_time"`

	NPErr    string   `json:"impl_newpoint_err,omitempty"`
	Printed  []byte   `json:"impl_printed"`
	PrintedQ string   `json:"impl_printed_q"`
	Points   []jview  `json:"impl_points"`
	Rej      [][]byte `json:"impl_rejected"`
	Reasons  []string `json:"impl_reasons"`
	Key      []byte   `json:"impl_makekey"`
	KeyQ     string   `json:"impl_makekey_q"`
	PKName   []byte   `json:"impl_parsekey_name"`
	PKTags   []jtag   `json:"impl_parsekey_tags"`
}

func goValue(f jfield) interface{} {
	switch f.Type {
	case "int":
		return f.I
	case "uint":
		return f.U
	case "float":
		return math.Float64frombits(f.F)
	case "bool":
		return f.B
	}
	return string(f.S)
}

// ---- the guard, decided from the inputs only ----

func bslUnsafe(b []byte, stops string) bool {
	for i, c := range b {
		if c == '\\' && (i+1 == len(b) || strings.IndexByte(stops, b[i+1]) >= 0) {
			return true
		}
	}
	return false
}

func escTag(b []byte) string {
	r := strings.NewReplacer(",", `\,`, " ", `\ `, "=", `\=`)
	return r.Replace(string(b))
}

func guardSig(c *j11, sortedTags models.Tags, fieldKeys []string) string {
	bs := bslUnsafe(c.Name, `," =`)
	for _, t := range sortedTags {
		bs = bs || bslUnsafe(t.Key, ", =") || bslUnsafe(t.Value, ", =")
	}
	for _, k := range fieldKeys {
		bs = bs || bslUnsafe([]byte(k), `," =`)
	}
	if bs {
		return sigBackslash
	}
	tok := len(c.Name) == 0 || c.Name[0] == '#' || c.Name[0] == '\t' || c.Name[0] == 0 || bytes.IndexByte(c.Name, '\n') >= 0
	for _, t := range sortedTags {
		tok = tok || len(t.Key) == 0 || len(t.Value) == 0 || bytes.IndexByte(t.Key, '\n') >= 0 || bytes.IndexByte(t.Value, '\n') >= 0
		for _, r := range []string{"time", "_field", "_measurement", "\xff", "\x00"} {
			tok = tok || string(t.Key) == r
		}
	}
	for i, k := range fieldKeys {
		tok = tok || strings.IndexByte(k, '\n') >= 0 || (i == 0 && len(k) > 0 && (k[0] == '\t' || k[0] == 0))
	}
	if tok {
		return sigToken
	}
	for i := 1; i < len(sortedTags); i++ {
		if escTag(sortedTags[i-1].Key) >= escTag(sortedTags[i].Key) {
			return sigResort
		}
	}
	return ""
}

func run11(w *vh.W, c *j11) {
	idx := w.Len()
	c.NameQ = q(c.Name)
	c.Points, c.Rej, c.Reasons, c.PKTags, c.TagsQ = nil, nil, nil, nil, nil
	tm := map[string]string{}
	for _, t := range c.Tags {
		tm[string(t[0])] = string(t[1])
		c.TagsQ = append(c.TagsQ, q(t[0])+"="+q(t[1]))
	}
	tags := models.NewTags(tm)
	fields := models.Fields{}
	var fkeys []string
	for i := range c.Fields {
		c.Fields[i].KeyQ = q(c.Fields[i].Key)
		fields[string(c.Fields[i].Key)] = goValue(c.Fields[i])
	}
	for k := range fields {
		fkeys = append(fkeys, k)
	}
	sort.Strings(fkeys)
	byKey := map[string]jfield{}
	for _, f := range c.Fields {
		byKey[string(f.Key)] = f
	}
	var t time.Time
	if c.Time != nil {
		t = time.Unix(0, *c.Time).UTC()
	}

	var p models.Point
	var nperr error
	if fail := guarded(func() { p, nperr = models.NewPoint(string(c.Name), tags, fields, t) }); fail != "" {
		w.Fail(idx, "NewPoint: "+fail, "")
	}
	c.NPErr = ""
	c.Printed = nil
	if nperr != nil {
		c.NPErr = nperr.Error()
	} else if p != nil {
		fail := guarded(func() {
			if c.Prec == "ns" {
				c.Printed = []byte(p.String())
				if a := p.AppendString(nil); !bytes.Equal(a, c.Printed) {
					w.Fail(idx, "AppendString differs from String()", "")
				}
				if c.Time != nil && p.StringSize() != len(c.Printed) {
					w.Fail(idx, "StringSize differs from len(String())", "")
				}
			} else {
				c.Printed = []byte(p.PrecisionString(c.Prec))
			}
			pts, err := models.ParsePointsWithPrecision(clone(c.Printed), time.Unix(0, c.Dflt).UTC(), c.Prec)
			for _, x := range pts {
				c.Points = append(c.Points, render(x))
			}
			if err != nil {
				texts, reasons, ok := splitErr(err.Error())
				if !ok {
					w.Fail(idx, "error format of ParsePointsWithPrecision: "+q([]byte(err.Error())), "")
				}
				c.Rej, c.Reasons = texts, reasons
			}
		})
		if fail != "" {
			w.Fail(idx, "String/ParsePointsWithPrecision: "+fail, "")
		}
	}
	c.PrintedQ = q(c.Printed)
	if fail := guarded(func() {
		c.Key = models.MakeKey(clone(c.Name), tags)
		n, ts := models.ParseKeyBytes(clone(c.Key))
		c.PKName = clone(n)
		for _, t := range ts {
			c.PKTags = append(c.PKTags, jtag{K: clone(t.Key), V: clone(t.Value), KQ: q(t.Key), VQ: q(t.Value)})
		}
		if n2 := models.ParseName(clone(c.Key)); !bytes.Equal(n2, n) {
			w.Fail(idx, "ParseName differs from ParseKeyBytes name", "")
		}
	}); fail != "" {
		w.Fail(idx, "MakeKey/ParseKeyBytes: "+fail, "")
	}
	c.KeyQ = q(c.Key)

	// ---- the Gallina case ----
	tg := make([]string, len(tags))
	for i, t := range tags {
		tg[i] = vh.Pair(vh.Bytes(t.Key), vh.Bytes(t.Value))
	}
	fs := make([]string, len(fkeys))
	var ftab []string
	for i, k := range fkeys {
		f := byKey[k]
		fs[i] = vh.Pair(vh.Bytes([]byte(k)), fvalTerm(f))
		if f.Type == "float" {
			// the external float printer, tabulated on the values of this point
			ftab = append(ftab, vh.Pair(vh.N(f.F), vh.Bytes(strconv.AppendFloat(nil, math.Float64frombits(f.F), 'f', -1, 64))))
		}
	}
	tt := "None"
	if c.Time != nil {
		tt = vh.Some(vh.Z(*c.Time))
	}
	pv := make([]string, len(c.Points))
	for i, v := range c.Points {
		pv[i] = viewTerm(v)
	}
	rj := make([]string, len(c.Rej))
	for i, x := range c.Rej {
		rj[i] = vh.Bytes(x)
	}
	pk := make([]string, len(c.PKTags))
	for i, x := range c.PKTags {
		pk[i] = vh.Pair(vh.Bytes(x.K), vh.Bytes(x.V))
	}
	term := fmt.Sprintf("{| k_pt := {| a_name := %s; a_tags := %s; a_fields := %s; a_time := %s |}; k_prec := %s; k_dflt := %s; k_ftab := %s; k_np_ok := %s; k_printed := %s; k_points := %s; k_rejected := %s; k_key := %s; k_pk_name := %s; k_pk_tags := %s |}",
		vh.Bytes(c.Name), vh.List(tg), vh.List(fs), tt, vh.N(precCode(c.Prec)), vh.Z(c.Dflt), vh.List(ftab), vh.Bool(nperr == nil),
		vh.Bytes(c.Printed), vh.List(pv), vh.List(rj), vh.Bytes(c.Key), vh.Bytes(c.PKName), vh.List(pk))
	sig := guardSig(c, tags, fkeys)
	nontrivial := nperr == nil && (len(tags) > 0 || len(fkeys) > 1) && bytes.ContainsAny(append(append(clone(c.Name), c.Key...), c.Printed...), `\,= "`)
	w.Add(term, c, nontrivial, sig)
	w.Count("precision", c.Prec)
	w.Count("ntags", fmt.Sprint(len(tags)))
	w.Count("nfields", fmt.Sprint(len(fkeys)))
	for _, f := range c.Fields {
		w.Count("ftype", f.Type)
	}
	w.Count("newpoint_ok", fmt.Sprint(nperr == nil))
	w.Count("time", map[bool]string{true: "zero", false: "set"}[c.Time == nil])
	w.Count("reparsed", fmt.Sprintf("%dpts/%drej", len(c.Points), len(c.Rej)))
	if sig == "" {
		w.Count("guard", "valid")
	} else {
		w.Count("guard", sig)
	}
}

// ---- generator ----

var alpha11 = []string{"a", "b", " ", ",", "=", `"`, `\`, "é"}

type gen11 struct{ w *vh.W }

func (g gen11) n(k int) int              { return g.w.Rng.IntN(k) }
func (g gen11) pick(xs ...string) string { return xs[g.n(len(xs))] }

// str: length 0..5 over the alphabet; tame = mostly letters (so that most points are valid)
func (g gen11) str(minLen int, tame bool) []byte {
	var b strings.Builder
	k := minLen + g.n(6-minLen)
	if g.n(3) != 0 && k > 3 {
		k = 1 + g.n(3)
	}
	for i := 0; i < k; i++ {
		if tame && g.n(3) != 0 {
			b.WriteString(g.pick("a", "b", "é"))
		} else {
			b.WriteString(g.pick(alpha11...))
		}
	}
	return []byte(b.String())
}

// safe: repair a string so that it satisfies the guard (no backslash before a stop byte or at the end)
func safe(b []byte, stops string) []byte {
	out := []byte{}
	for i, c := range b {
		if c == '\\' && (i+1 == len(b) || strings.IndexByte(stops, b[i+1]) >= 0) {
			out = append(out, 'a')
		} else {
			out = append(out, c)
		}
	}
	return out
}

var floats = []float64{0, math.Copysign(0, -1), 1, -1, 1.5, 0.1, -0.30000000000000004, 3, 1e6, 123456789, 9007199254740992, 9007199254740993, 1e21, 1e22, 1.7976931348623157e308, -1.7976931348623157e308,
	5e-324, 2.2250738585072014e-308, 2.225073858507201e-308, 1e-7, 1e-320, 6.02214076e23, 1234.5678, math.Pi, 4.35, 0.000001, 1e23, 8.41e21, 2e-323, 9.5367431640625e-07}
var ints = []int64{0, 1, -1, 42, math.MaxInt64, math.MinInt64, math.MaxInt64 - 1, math.MinInt64 + 1, 999999999999999999, 1000000000000000000, -999999999999999999, -1000000000000000000, 1234567890123456789}
var uints = []uint64{0, 1, 42, math.MaxUint64, math.MaxUint64 - 1, 9999999999999999999, 10000000000000000000, 1 << 63, 1<<63 - 1}
var times11 = []int64{0, 1, -1, 1000, 1000000, 1000000000, 1700000000000000000, 1700000000123456789, -1700000000123456789, 999, -999, 1999999999, -1999999999,
	models.MinNanoTime, models.MaxNanoTime, models.MinNanoTime + 1, models.MaxNanoTime - 1, math.MinInt64, math.MinInt64 + 1, math.MaxInt64, 9223372036000000000, -9223372036000000000, 9223372036854775000, -9223372036854775000}

func (g gen11) field(key []byte) jfield {
	f := jfield{Key: key}
	switch g.n(5) {
	case 0:
		f.Type = "int"
		f.I = ints[g.n(len(ints))]
		if g.n(3) == 0 {
			f.I = int64(g.w.Rng.Uint64())
		}
	case 1:
		f.Type = "uint"
		f.U = uints[g.n(len(uints))]
		if g.n(3) == 0 {
			f.U = g.w.Rng.Uint64()
		}
	case 2:
		f.Type = "float"
		x := floats[g.n(len(floats))]
		if g.n(3) == 0 {
			x = math.Float64frombits(g.w.Rng.Uint64())
		}
		if g.n(40) == 0 {
			x = []float64{math.NaN(), math.Inf(1), math.Inf(-1)}[g.n(3)]
		}
		f.F = math.Float64bits(x)
		f.FQ = fmt.Sprint(x)
	case 3:
		f.Type = "bool"
		f.B = g.n(2) == 0
	default:
		f.Type = "string"
		f.S = g.str(0, false)
		if g.n(6) == 0 {
			f.S = append(f.S, g.pick("\n", "\nx", "\\\n", "\"\n", "\t", "#")...)
		}
		f.SQ = q(f.S)
	}
	return f
}

func (g gen11) point() j11 {
	// wild: tokens straight from the alphabet (guard often violated); otherwise repaired to satisfy the guard
	wild := g.n(4) == 0
	tok := func(minLen int, stops string) []byte {
		s := g.str(minLen, !wild)
		if !wild {
			s = safe(s, stops)
		}
		return s
	}
	c := j11{Name: tok(1, `," =`), Prec: g.pick("ns", "ns", "us", "ms", "s"), Dflt: []int64{1700000000123456789, 0, -1234567890123456}[g.n(3)]}
	if wild && g.n(6) == 0 {
		c.Name = g.str(0, false)
	}
	nt := g.n(4)
	seen := map[string]bool{}
	for i := 0; i < nt; i++ {
		k, v := tok(1, ", ="), tok(1, ", =")
		if wild && g.n(8) == 0 {
			k = g.str(0, false)
		}
		if wild && g.n(8) == 0 {
			v = g.str(0, false)
		}
		if g.n(5) == 0 && len(c.Tags) > 0 { // keys sharing a prefix, differing in an escaped / unescaped byte
			base := c.Tags[g.n(len(c.Tags))][0]
			k = append(clone(base[:len(base)-min(1, len(base))]), g.pick(" ", `"`, ",", "=", "a", "!")...)
		}
		if seen[string(k)] {
			continue
		}
		seen[string(k)] = true
		c.Tags = append(c.Tags, [2][]byte{k, v})
	}
	nf := 1 + g.n(3)
	if g.n(30) == 0 {
		nf = 0
	}
	seenf := map[string]bool{}
	for i := 0; i < nf; i++ {
		k := tok(1, `," =`)
		if wild && g.n(10) == 0 {
			k = g.str(0, false)
		}
		if seenf[string(k)] {
			continue
		}
		seenf[string(k)] = true
		c.Fields = append(c.Fields, g.field(k))
	}
	if g.n(5) != 0 {
		t := times11[g.n(len(times11))]
		if g.n(3) == 0 {
			t = int64(g.w.Rng.Uint64() >> uint(1+g.n(40)))
			if g.n(2) == 0 {
				t = -t
			}
		}
		if g.n(2) == 0 { // a multiple of the precision unit
			m := models.GetPrecisionMultiplier(c.Prec)
			t = t / m * m
		}
		c.Time = &t
	}
	return c
}

func corpus11() []j11 {
	i1 := jfield{Key: []byte("f"), Type: "int", I: 1}
	tp := func(v int64) *int64 { return &v }
	mk := func(name string, tags [][2]string, fields []jfield, t *int64, prec string) j11 {
		c := j11{Name: []byte(name), Fields: fields, Time: t, Prec: prec, Dflt: 1700000000123456789}
		for _, kv := range tags {
			c.Tags = append(c.Tags, [2][]byte{[]byte(kv[0]), []byte(kv[1])})
		}
		return c
	}
	return []j11{
		mk("cpu", [][2]string{{"host", "a b"}, {"region", "x,y=z"}}, []jfield{i1, {Key: []byte("g h"), Type: "string", S: []byte("q\"\\\n,= ")}, {Key: []byte("u"), Type: "uint", U: math.MaxUint64}, {Key: []byte("x"), Type: "float", F: math.Float64bits(-0.1)}, {Key: []byte("b"), Type: "bool", B: true}}, tp(1700000000123456789), "ns"),
		mk("m", [][2]string{{"t", `a\`}}, []jfield{i1}, tp(5), "ns"),                // F11: trailing backslash in a tag value
		mk(`m\`, nil, []jfield{i1}, tp(5), "ns"),                                    // ... in the measurement
		mk("m", nil, []jfield{{Key: []byte(`f\`), Type: "int", I: 1}}, tp(5), "ns"), // ... in a field key
		mk(`m\,x`, nil, []jfield{i1}, tp(5), "ns"),                                  // backslash before a delimiter
		mk("m", [][2]string{{"a ", "x"}, {`a"`, "y"}}, []jfield{i1}, tp(5), "ns"),   // order flips under escaping
		mk("#m", nil, []jfield{i1}, tp(5), "ns"), mk("\tm", nil, []jfield{i1}, tp(5), "ns"), mk("", nil, []jfield{i1}, tp(5), "ns"),
		mk("m", [][2]string{{"", "x"}}, []jfield{i1}, tp(5), "ns"), mk("m", [][2]string{{"k", ""}}, []jfield{i1}, tp(5), "ns"),
		mk("m", [][2]string{{"time", "x"}}, []jfield{i1}, tp(5), "ns"), mk("m", [][2]string{{"k", "a\nb"}}, []jfield{i1}, tp(5), "ns"),
		mk("m", nil, []jfield{{Key: []byte("\tf"), Type: "int", I: 1}}, tp(5), "ns"),
		mk("m", nil, nil, tp(5), "ns"), mk("m", nil, []jfield{{Key: []byte(""), Type: "int", I: 1}}, tp(5), "ns"),
		mk("m", nil, []jfield{i1}, nil, "s"), mk("m", nil, []jfield{i1}, tp(1999999999), "s"), mk("m", nil, []jfield{i1}, tp(-1999999999), "ms"),
		mk("m", nil, []jfield{i1}, tp(math.MinInt64), "ns"), mk("m", nil, []jfield{i1}, tp(models.MinNanoTime), "us"), mk("m", nil, []jfield{i1}, tp(models.MaxNanoTime), "s"),
	}
}

func main11(w *vh.W) {
	w.Rule = "points generated for models.NewPoint: measurement, 0-3 tags (through NewTags), 1-3 fields (a map), over the alphabet {a b space , = \" \\ é} with lengths 0-5 (3/4 of the points repaired to satisfy the guard, 1/4 raw: guard-violating shapes carry a known-finding signature decided from the inputs); tag keys sharing a prefix and differing in an escaped vs unescaped byte; all five field types with extremes (MinInt64/MaxInt64, MaxUint64, +-0, max/min/subnormal floats, random bit patterns, NaN/Inf for the NewPoint rejection), strings with quotes/backslashes/newlines; zero time and times at the int64 / MinNanoTime / MaxNanoTime edges, multiples and non-multiples of the precision unit; precisions ns us ms s (String() for ns, PrecisionString otherwise); hand-picked corpus first. Non-trivial: NewPoint accepts, the point has a tag or >=2 fields, and an escapable byte occurs. Distinct: distinct Gallina terms."
	var rc j11
	if w.ReplayCase(&rc) {
		run11(w, &rc)
		w.Finish()
		return
	}
	for _, c := range corpus11() {
		c := c
		run11(w, &c)
	}
	g := gen11{w}
	for w.Len() < w.N {
		c := g.point()
		run11(w, &c)
	}
	w.Finish()
}
