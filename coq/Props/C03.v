(** C03 — Deleted points never reappear.  Property theorems only. *)
From Verif Require Import Base.Prelude Model.C01 Proofs.C01.

(** FULL STATEMENT (what the property says): for all histories h1, h2, after
    [h1 ++ Delete ks lo hi :: h2], a point (k in ks, t in [lo,hi]) that h2 does not write
    again is never visible.  It is FALSE of the faithful model — and of the real engine:
    a delete that falls between Cache.Snapshot() and the snapshot commit does not touch
    the snapshot store, so the point is still read from it and is then written to a new
    TSM file without a tombstone. *)
Theorem C03_no_resurrection_refuted :
  exists h1 ks lo hi h2 k t,
    hit ks lo hi k t = true /\ Forall (fun o => ~ writes_point o k t) h2 /\
    abs (run (h1 ++ Delete ks lo hi :: h2) init) k t <> None.
Proof.
  exists [Write [(1%N, 5%Z, 7%Z)]; SnapBegin], [1%N], 0%Z, 10%Z, [SnapCommit], 1%N, 5%Z.
  split; [reflexivity|]. split; [repeat constructor; intros []|]. vm_compute. discriminate.
Qed.
Print Assumptions C03_no_resurrection_refuted.

(** PARTIAL (the strongest true weakening): the statement holds for every history in
    which the delete does not fall while a cache snapshot is pending (snapshot store
    empty at the delete) — all later snapshots, compactions, further deletes and writes to
    other points included, unboundedly. *)
Theorem C03_no_resurrection_partial :
  forall h1 ks lo hi h2 k t,
    snap (run h1 init) = [] ->
    hit ks lo hi k t = true ->
    Forall (fun o => ~ writes_point o k t) h2 ->
    abs (run (h1 ++ Delete ks lo hi :: h2) init) k t = None.
Proof. exact no_resurrection. Qed.
Print Assumptions C03_no_resurrection_partial.

(** Points outside the range or of other series are unaffected — unconditionally. *)
Theorem C03_other_points_unaffected :
  forall h1 ks lo hi k t,
    hit ks lo hi k t = false ->
    abs (run (h1 ++ [Delete ks lo hi]) init) k t = abs (run h1 init) k t.
Proof. exact delete_leaves_others. Qed.
Print Assumptions C03_other_points_unaffected.

(** Even in the refuted case the only way a deleted point survives is through the
    snapshot store. *)
Theorem C03_survives_only_via_snapshot :
  forall s ks lo hi k t,
    abs (fst (step s (Delete ks lo hi))) k t =
    if hit ks lo hi k t then log_get (snap s) k t else abs s k t.
Proof. exact step_delete_abs_general. Qed.
Print Assumptions C03_survives_only_via_snapshot.

Example C03_nonvacuous :
  let h1 := [Write [(1%N, 5%Z, 7%Z); (2%N, 5%Z, 8%Z)]; SnapBegin; SnapCommit; Write [(1%N, 6%Z, 9%Z)]] in
  snap (run h1 init) = [] /\ hit [1%N] 5%Z 6%Z 1%N 5%Z = true /\
  read (run (h1 ++ [Delete [1%N] 5%Z 6%Z; SnapBegin; SnapCommit; Compact 0 2]) init) 1%N 0%Z 9%Z true = [] /\
  read (run (h1 ++ [Delete [1%N] 5%Z 6%Z; SnapBegin; SnapCommit; Compact 0 2]) init) 2%N 0%Z 9%Z true = [(5, 8)]%Z.
Proof. repeat split. Qed.
