(** C27 — proofs about the SendWrite / Write / backoff model (Model/C27.v). *)
From Verif Require Import Base.Prelude Model.C27.
From Coq Require Import ZifyBool.
Open Scope Z_scope.

(** * Write succeeds exactly on an accepting answer *)
Lemma write_ok_iff drop it n : w_ok (write drop it n) = accepts drop it.
Proof.
  unfold write, accepts. destruct it as [r cf uf]; cbn [it_resp it_cfg_fail it_upd_fail].
  destruct cf; cbn; [reflexivity|]. destruct r as [c h| |]; cbn; try (destruct uf; reflexivity).
  destruct uf; cbn; [reflexivity|].
  destruct (c =? 204) eqn:E1; cbn; [reflexivity|].
  destruct ((c =? 400) && drop) eqn:E2; cbn; [reflexivity|].
  destruct (c =? 429); cbn; [destruct (negb (wait_from_header h =? 0)); reflexivity | reflexivity].
Qed.

Lemma write_ok_wait drop it n : w_ok (write drop it n) = true -> w_wait (write drop it n) = 0.
Proof.
  unfold write. destruct it as [r cf uf]; cbn [it_resp it_cfg_fail it_upd_fail].
  destruct cf; cbn; [discriminate|]. destruct r as [c h| |]; cbn; try discriminate.
  destruct uf; cbn; [discriminate|].
  destruct (c =? 204); cbn; [reflexivity|].
  destruct ((c =? 400) && drop); cbn; [reflexivity|].
  destruct (c =? 429); cbn; [destruct (negb (wait_from_header h =? 0)); cbn; discriminate | discriminate].
Qed.

(** the delay of a failed Write *)
Lemma write_fail_wait drop it n :
  w_ok (write drop it n) = false ->
  w_wait (write drop it n) = backoff n \/
  (exists h, it_resp it = RStatus 429 h /\ it_cfg_fail it = false /\ it_upd_fail it = false /\
             wait_from_header h <> 0 /\ w_wait (write drop it n) = wait_from_header h).
Proof.
  unfold write. destruct it as [r cf uf]; cbn [it_resp it_cfg_fail it_upd_fail].
  destruct cf; cbn; [auto|]. destruct r as [c h| |]; cbn; auto.
  destruct uf; cbn; [auto|].
  destruct (c =? 204) eqn:E1; cbn; [discriminate|].
  destruct ((c =? 400) && drop); cbn; [discriminate|].
  destruct (c =? 429) eqn:E3; cbn; [|auto].
  destruct (wait_from_header h =? 0) eqn:E4; cbn; [auto|].
  intros _. right. exists h. assert (c = 429) by lia. subst c. repeat split; auto. lia.
Qed.

Lemma write_429_header drop h n :
  wait_from_header h <> 0 ->
  write drop {| it_resp := RStatus 429 h; it_cfg_fail := false; it_upd_fail := false |} n
  = {| w_wait := wait_from_header h; w_ok := false; w_posted := true; w_recorded := Some 429 |}.
Proof.
  intro H. unfold write. cbn.
  destruct (wait_from_header h =? 0) eqn:E; [lia|]. reflexivity.
Qed.

Lemma posted_if_ok drop it n : w_ok (write drop it n) = true -> w_posted (write drop it n) = true.
Proof.
  unfold write. destruct it as [r cf uf]; cbn [it_resp it_cfg_fail it_upd_fail].
  destruct cf; [intro H; exact H|]. destruct r as [c h| |]; try (intros _; reflexivity).
  cbv zeta.
  repeat match goal with |- context [if ?b then _ else _] => destruct b end; intros _; reflexivity.
Qed.

(** * SendWrite *)
Lemma send_loop_spec drop q0 : forall todo fw script posted recd,
  let r := send_loop drop q0 todo fw script posted recd in
  (exists k, s_posted r = rev posted ++ firstn k todo) /\
  (s_q r = q0 \/
   (s_q r = [] /\ s_posted r = rev posted ++ todo /\
    count_accepted drop script (length todo) = length todo /\ s_wait r = 0 /\ s_fw r = match todo with [] => fw | _ => 0 end)).
Proof.
  induction todo as [|b t IH]; intros fw script posted recd.
  - cbn. split; [exists 0%nat; cbn; rewrite app_nil_r; reflexivity|]. right. rewrite app_nil_r. auto.
  - cbn [send_loop].
    pose proof (write_ok_iff drop (hd item_ok script) fw) as Hok.
    destruct (w_ok (write drop (hd item_ok script) fw)) eqn:E.
    + assert (Hp : w_posted (write drop (hd item_ok script) fw) = true) by (apply posted_if_ok; exact E).
      rewrite Hp.
      specialize (IH 0 (tl script) (b :: posted)
                    (match w_recorded (write drop (hd item_ok script) fw) with Some c => c :: recd | None => recd end)).
      cbn zeta in IH. destruct IH as [[k Hk] Hq]. split.
      * exists (S k). rewrite Hk. cbn [rev firstn]. rewrite <- app_assoc. reflexivity.
      * destruct Hq as [Hq | [Hq [Hpost [Hc [Hw Hf]]]]]; [left; exact Hq|].
        right. split; [exact Hq|]. split.
        { rewrite Hpost. cbn [rev]. rewrite <- app_assoc. reflexivity. }
        split; [cbn [count_accepted length]; rewrite <- Hok, Hc; reflexivity|].
        split; [exact Hw|]. rewrite Hf. destruct t; reflexivity.
    + cbn [s_posted s_q]. split; [|left; reflexivity].
      destruct (w_posted (write drop (hd item_ok script) fw)).
      * exists 1%nat. cbn [rev firstn]. reflexivity.
      * exists 0%nat. cbn [firstn]. rewrite app_nil_r. reflexivity.
Qed.

Lemma send_write_posted_prefix drop q fw script :
  exists k, s_posted (send_write drop q fw script) = firstn k q.
Proof.
  unfold send_write. destruct q as [|b t]; [exists 0%nat; reflexivity|].
  destruct (send_loop_spec drop (b :: t) (b :: t) fw script [] []) as [[k Hk] _].
  exists k. exact Hk.
Qed.

Lemma send_write_removal drop q fw script :
  let r := send_write drop q fw script in
  s_q r = q \/
  (s_q r = [] /\ s_posted r = q /\ count_accepted drop script (length q) = length q /\ s_wait r = 0).
Proof.
  unfold send_write. destruct q as [|b t]; [left; reflexivity|].
  destruct (send_loop_spec drop (b :: t) (b :: t) fw script [] []) as [_ [H | [H1 [H2 [H3 [H4 _]]]]]];
    [left; exact H | right; auto].
Qed.

(** an all-accepting script empties the queue after posting everything *)
Lemma send_loop_all_accepting drop : forall todo fw script posted recd q0,
  count_accepted drop script (length todo) = length todo ->
  s_q (send_loop drop q0 todo fw script posted recd) = [] /\
  s_posted (send_loop drop q0 todo fw script posted recd) = rev posted ++ todo.
Proof.
  induction todo as [|x r IH]; intros fw script posted recd q0 Hc.
  - cbn. rewrite app_nil_r. auto.
  - cbn [send_loop]. cbn [count_accepted length] in Hc.
    rewrite (write_ok_iff drop (hd item_ok script) fw).
    destruct (accepts drop (hd item_ok script)) eqn:E; [|discriminate].
    assert (Hp : w_posted (write drop (hd item_ok script) fw) = true)
      by (apply posted_if_ok; rewrite write_ok_iff; exact E).
    rewrite Hp. injection Hc as Hc.
    destruct (IH 0 (tl script) (x :: posted)
                (match w_recorded (write drop (hd item_ok script) fw) with Some c => c :: recd | None => recd end)
                q0 Hc) as [H1 H2].
    split; [exact H1|]. rewrite H2. cbn [rev]. rewrite <- app_assoc. reflexivity.
Qed.
Lemma send_write_all_accepting drop q fw script :
  count_accepted drop script (length q) = length q ->
  s_q (send_write drop q fw script) = [] /\ s_posted (send_write drop q fw script) = q.
Proof.
  intro Hc. unfold send_write. destruct q as [|b t]; [auto|].
  exact (send_loop_all_accepting drop (b :: t) fw script [] [] (b :: t) Hc).
Qed.

(** * histories: the queue is always a suffix of what was enqueued *)
Definition enqueued (os : list op) : list (list Z) :=
  flat_map (fun o => match o with OEnq b => [b] | _ => [] end) os.

Lemma run_suffix drop : forall os st pre k,
  (k <= length pre)%nat -> m_q st = skipn k pre ->
  exists k', (k' <= length (pre ++ enqueued os))%nat /\
             m_q (fst (run drop st os)) = skipn k' (pre ++ enqueued os).
Proof.
  induction os as [|o r IH]; intros st pre k Hk Hq.
  - cbn. rewrite app_nil_r. eauto.
  - cbn [run]. destruct (step drop st o) as [st' s] eqn:Es.
    destruct (run drop st' r) as [st'' s'] eqn:Er. cbn [fst].
    assert (Hst : exists k1 pre1, (k1 <= length pre1)%nat /\ m_q st' = skipn k1 pre1 /\
                    pre ++ enqueued (o :: r) = pre1 ++ enqueued r).
    { destruct o as [b|script ob|aged rem|n it w ok]; cbn in Es; inversion Es; subst; clear Es; cbn [m_q].
      - exists k, (pre ++ [b]). rewrite app_length. cbn [length]. split; [lia|]. split.
        + rewrite Hq. rewrite skipn_app. replace (k - length pre)%nat with 0%nat by lia. reflexivity.
        + cbn [enqueued flat_map]. rewrite <- app_assoc. reflexivity.
      - destruct (send_write_removal drop (m_q st) (m_fw st) script) as [H | [H _]]; rewrite H.
        + exists k, pre. auto.
        + exists (length pre), pre. split; [lia|]. split; [rewrite skipn_all; reflexivity|reflexivity].
      - destruct aged.
        + exists (length pre), pre. split; [lia|]. split; [rewrite skipn_all; reflexivity|reflexivity].
        + exists k, pre. auto.
      - exists k, pre. auto. }
    destruct Hst as [k1 [pre1 [Hk1 [Hq1 Heq]]]].
    destruct (IH st' pre1 k1 Hk1 Hq1) as [k' [Hk' H']].
    rewrite Er in H'. cbn [fst] in H'. exists k'. rewrite Heq. auto.
Qed.

(** * backoff *)
Lemma backoff_cap n : 0 <= n -> 0 < backoff n <= max_backoff.
Proof.
  intro H. unfold backoff, max_attempts, max_backoff, second.
  destruct (n >? 10) eqn:E; [lia|].
  assert (1 <= 2 ^ n) by (apply Z.pow_le_mono_r with (b := 0) (c := n) (a := 2); lia).
  assert (2 ^ n <= 2 ^ 10) by (apply Z.pow_le_mono_r; lia).
  change (2 ^ 10) with 1024 in *. lia.
Qed.
Lemma backoff_mono n m : 0 <= n <= m -> backoff n <= backoff m.
Proof.
  intro H. pose proof (backoff_cap n ltac:(lia)) as Hn.
  unfold backoff at 2. unfold max_attempts. destruct (m >? 10) eqn:E; [lia|].
  unfold backoff, max_attempts. destruct (n >? 10) eqn:E2; [lia|].
  assert (2 ^ n <= 2 ^ m) by (apply Z.pow_le_mono_r; lia). lia.
Qed.
Lemma backoff_doubles n : 0 <= n < 10 -> backoff (n + 1) = 2 * backoff n.
Proof.
  intro H. unfold backoff, max_attempts.
  destruct (n + 1 >? 10) eqn:E1; [lia|]. destruct (n >? 10) eqn:E2; [lia|].
  rewrite Z.pow_add_r by lia. lia.
Qed.
Lemma doubling_pow k : doubling k = 2 ^ Z.of_nat k * 250000000.
Proof.
  induction k as [|k IH]; [reflexivity|].
  cbn [doubling]. rewrite IH, Nat2Z.inj_succ, Z.pow_succ_r by lia. lia.
Qed.
Lemma spec_backoff_eq n : 0 <= n -> spec_backoff n = backoff n.
Proof.
  intro H. unfold spec_backoff, backoff, max_attempts, max_backoff.
  destruct (n >? 10); [reflexivity|]. rewrite doubling_pow, Z2Nat.id by lia. reflexivity.
Qed.

(** * multi-segment SendWrite with the ticker advance (repaired code) *)
Lemma send_ms_loop_spec : forall todo ticks rest posted,
  send_ms_loop todo ticks rest posted = (rev posted ++ todo, concat rest).
Proof.
  induction todo as [|b r IH]; intros ticks rest posted.
  - cbn. rewrite app_nil_r. reflexivity.
  - cbn [send_ms_loop].
    assert (E : send_ms_loop r (tl ticks) rest (b :: posted) = (rev posted ++ b :: r, concat rest)).
    { rewrite IH. cbn [rev]. rewrite <- app_assoc. reflexivity. }
    destruct r as [|b' r'].
    + destruct rest as [|s rest']; [exact E|].
      destruct (hd false ticks); [cbn [rev]; reflexivity | exact E].
    + exact E.
Qed.
