(** Strict total order facts about [String.ltb] (byte-wise lexicographic order, the order of
    Go's bytes.Compare / sort.Strings), and the theory of strictly sorted string lists used by
    C42: a strictly sorted list is determined by its set of members. *)
From Coq Require Import String Ascii List Bool NArith Lia.
Import ListNotations.
Open Scope string_scope.

Lemma ascii_compare_refl a : Ascii.compare a a = Eq.
Proof. unfold Ascii.compare. apply N.compare_refl. Qed.

Lemma ascii_compare_lt_trans a b c :
  Ascii.compare a b = Lt -> Ascii.compare b c = Lt -> Ascii.compare a c = Lt.
Proof. unfold Ascii.compare. rewrite !N.compare_lt_iff. lia. Qed.

Lemma str_compare_refl s : String.compare s s = Eq.
Proof. induction s as [|a s IH]; cbn; [reflexivity|]. rewrite ascii_compare_refl. exact IH. Qed.

Lemma str_compare_lt_trans s1 : forall s2 s3,
  String.compare s1 s2 = Lt -> String.compare s2 s3 = Lt -> String.compare s1 s3 = Lt.
Proof.
  induction s1 as [|a s1 IH]; intros [|b s2] [|c s3]; cbn; try discriminate; auto.
  destruct (Ascii.compare a b) eqn:E1; destruct (Ascii.compare b c) eqn:E2; try discriminate.
  - apply Ascii.compare_eq_iff in E1, E2. subst. rewrite ascii_compare_refl. apply IH.
  - apply Ascii.compare_eq_iff in E1. subst. rewrite E2. reflexivity.
  - apply Ascii.compare_eq_iff in E2. subst. rewrite E1. reflexivity.
  - rewrite (ascii_compare_lt_trans a b c E1 E2). reflexivity.
Qed.

Lemma ltb_trans a b c : String.ltb a b = true -> String.ltb b c = true -> String.ltb a c = true.
Proof.
  unfold String.ltb. destruct (String.compare a b) eqn:E1; try discriminate.
  destruct (String.compare b c) eqn:E2; try discriminate. intros _ _.
  rewrite (str_compare_lt_trans a b c E1 E2). reflexivity.
Qed.

Lemma ltb_irrefl a : String.ltb a a = false.
Proof. unfold String.ltb. rewrite str_compare_refl. reflexivity. Qed.

Lemma ltb_asym a b : String.ltb a b = true -> String.ltb b a = false.
Proof.
  intro H. destruct (String.ltb b a) eqn:E; [|reflexivity].
  pose proof (ltb_trans a b a H E) as X. rewrite ltb_irrefl in X. discriminate.
Qed.

Lemma ltb_trichotomy a b : String.ltb a b = false -> String.ltb b a = false -> a = b.
Proof.
  unfold String.ltb. rewrite (String.compare_antisym b a).
  destruct (String.compare a b) eqn:E; cbn; try discriminate.
  intros _ _. apply String.compare_eq_iff. exact E.
Qed.

(** ---- strictly sorted lists (as a proposition) ---- *)
Inductive SSorted : list string -> Prop :=
| SS_nil : SSorted []
| SS_cons x l : SSorted l -> (forall y, In y l -> String.ltb x y = true) -> SSorted (x :: l).

Lemma SSorted_unique l1 : forall l2,
  SSorted l1 -> SSorted l2 -> (forall x, In x l1 <-> In x l2) -> l1 = l2.
Proof.
  induction l1 as [|a l1 IH]; intros [|b l2] H1 H2 Hm.
  - reflexivity.
  - exfalso. apply (proj2 (Hm b)). left; reflexivity.
  - exfalso. apply (proj1 (Hm a)). left; reflexivity.
  - inversion H1 as [|? ? S1 L1]; inversion H2 as [|? ? S2 L2]; subst.
    assert (a = b).
    { destruct (proj1 (Hm a) (or_introl eq_refl)) as [E|Ha]; [auto|].
      destruct (proj2 (Hm b) (or_introl eq_refl)) as [E|Hb]; [auto|].
      pose proof (L2 a Ha) as X. pose proof (L1 b Hb) as Y.
      rewrite (ltb_asym b a X) in Y. discriminate. }
    subst b. f_equal. apply IH; auto.
    intro x. split; intro Hx.
    + destruct (proj1 (Hm x) (or_intror Hx)) as [E|H]; [|exact H].
      subst x. pose proof (L1 a Hx) as X. rewrite ltb_irrefl in X. discriminate.
    + destruct (proj2 (Hm x) (or_intror Hx)) as [E|H]; [|exact H].
      subst x. pose proof (L2 a Hx) as X. rewrite ltb_irrefl in X. discriminate.
Qed.

Lemma SSorted_NoDup l : SSorted l -> NoDup l.
Proof.
  induction 1 as [|x l S IH L]; constructor; auto.
  intro Hx. pose proof (L x Hx) as X. rewrite ltb_irrefl in X. discriminate.
Qed.

Lemma SSorted_filter f l : SSorted l -> SSorted (filter f l).
Proof.
  induction 1 as [|x l S IH L]; cbn; [constructor|].
  destruct (f x); [|exact IH]. constructor; [exact IH|].
  intros y Hy. apply filter_In in Hy. apply L. tauto.
Qed.
