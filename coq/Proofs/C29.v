(** C29 — proofs about the wrapper model ([Model/C29.v]). *)
From Verif Require Import Base.Prelude Model.C28 Proofs.C28 Model.C29.

(** "The caller holds q": its token is active and one of its permissions grants q, in the
    sense of the property C28 characterises ([grants]). *)
Definition holds (c : caller) (q : perm) : Prop :=
  c_active c = true /\ exists p, In p (c_perms c) /\ grants p q.

Lemma held_iff c q : held c q = true <-> holds c q.
Proof. unfold held, holds. rewrite andb_true_iff, allowed_iff. tauto. Qed.

Lemma authorize1_ok c q : authorize1 c q = AzOk -> holds c q.
Proof.
  unfold authorize1. destruct (negb (valid_req q)); [discriminate|].
  destruct (held c q) eqn:E; [|discriminate]. intros _. apply held_iff; exact E.
Qed.

Lemma authorize_all_ok c qs : authorize_all c qs = AzOk -> Forall (holds c) qs.
Proof.
  induction qs as [|q r IH]; cbn; intro H; [constructor|].
  destruct (authorize1 c q) eqn:E; try discriminate.
  constructor; [apply authorize1_ok; exact E | apply IH; exact H].
Qed.

Lemma az_cls_not_ok a : a <> AzOk -> az_cls a = E_UNAUTH \/ az_cls a = E_OTHER.
Proof. destruct a; cbn; intro H; auto. congruence. Qed.

Lemma kind_eqb_eq a b : kind_eqb a b = true <-> a = b.
Proof. destruct a, b; cbn; split; intro H; congruence. Qed.

Lemma is_res_spec k id r : is_res k id r = true <-> r_kind r = k /\ r_id r = id.
Proof. unfold is_res. rewrite andb_true_iff, kind_eqb_eq, N.eqb_eq. tauto. Qed.

Lemma lookup_some s k id r :
  lookup s k id = Some r -> In r (s_res s) /\ r_kind r = k /\ r_id r = id.
Proof.
  unfold lookup. intro H. apply find_some in H as [H1 H2]. apply is_res_spec in H2. tauto.
Qed.

Lemma of_kind_in s k r : In r (of_kind s k) <-> In r (s_res s) /\ r_kind r = k.
Proof. unfold of_kind. rewrite filter_In, kind_eqb_eq. tauto. Qed.

Lemma candidates_in s k f rs :
  candidates s k f = inl rs -> forall r, In r rs -> In r (s_res s) /\ r_kind r = k.
Proof.
  destruct f as [|i|o|u|l0|u o]; cbn.
  - intros [= <-] r. apply of_kind_in.
  - destruct (lookup s k i) as [r0|] eqn:E; [|discriminate]. intros [= <-] r [<-|[]].
    apply lookup_some in E. tauto.
  - intros [= <-] r Hin. apply filter_In in Hin as [Hin _]. apply of_kind_in; exact Hin.
  - destruct k; intros [= <-] r Hin; apply filter_In in Hin as [Hin _]; apply of_kind_in; exact Hin.
  - intros [= <-] r Hin. apply filter_In in Hin as [Hin _]. apply of_kind_in; exact Hin.
  - intros [= <-] r Hin. apply filter_In in Hin as [Hin _]. apply of_kind_in; exact Hin.
Qed.

Lemma authz_filter_sound c rs l :
  authz_filter c rs = inl l ->
  forall id, In id l -> exists r, In r rs /\ r_id r = id /\ authorize_all c (read_reqs r) = AzOk.
Proof.
  revert l. induction rs as [|r t IH]; cbn; intros l H id Hin.
  - inversion H; subst. destruct Hin.
  - destruct (authorize_all c (read_reqs r)) eqn:E; try discriminate.
    + destruct (authz_filter c t) as [l'|e] eqn:E'; [|discriminate].
      inversion H; subst. destruct Hin as [<-|Hin].
      * exists r. auto.
      * destruct (IH l' eq_refl id Hin) as [r' [H1 H2]]. exists r'. split; [right; exact H1 | exact H2].
    + destruct (IH l H id Hin) as [r' [H1 H2]]. exists r'. split; [right; exact H1 | exact H2].
Qed.

(** Completeness of the filter: every candidate the caller may read is returned. *)
Lemma authz_filter_complete c rs l :
  authz_filter c rs = inl l ->
  forall r, In r rs -> authorize_all c (read_reqs r) = AzOk -> In (r_id r) l.
Proof.
  revert l. induction rs as [|r0 t IH]; cbn; intros l H r Hin Hok; [destruct Hin|].
  destruct (authorize_all c (read_reqs r0)) eqn:E; try discriminate.
  - destruct (authz_filter c t) as [l'|e] eqn:E'; [|discriminate]. inversion H; subst.
    destruct Hin as [->|Hin]; [left; reflexivity | right; eapply IH; eauto].
  - destruct Hin as [->|Hin]; [congruence | eapply IH; eauto].
Qed.

Lemma authz_filter_err c rs e : authz_filter c rs = inr e -> e = E_OTHER.
Proof.
  induction rs as [|r t IH]; cbn; [discriminate|].
  destruct (authorize_all c (read_reqs r)); auto; [|intros [= <-]; reflexivity].
  destruct (authz_filter c t); [discriminate|]. intros [= <-]. apply IH; reflexivity.
Qed.

(** The check-first methods of OrgService / UserService authorize on the id alone: the
    permissions they build for the stub are those of the stored resource. *)
Lemma read_reqs_stub k id r :
  lookup_first_find k 0 = false -> r_kind r = k -> r_id r = id -> read_reqs (stub k id) = read_reqs r.
Proof. destruct r as [rk ri ro ru rs rp ra rps]; cbn. intros H <- <-. destruct rk; cbn in *; try discriminate; reflexivity. Qed.

Lemma read_reqs_stub' k v id r :
  lookup_first_find k v = false -> r_kind r = k -> r_id r = id -> read_reqs (stub k id) = read_reqs r.
Proof. destruct r as [rk ri ro ru rs rp ra rps]; cbn. intros H <- <-. destruct rk; cbn in *; try discriminate; reflexivity. Qed.

Lemma write_reqs_stub k id r :
  lookup_first_mut k = false -> r_kind r = k -> r_id r = id -> write_reqs (stub k id) = write_reqs r.
Proof. destruct r as [rk ri ro ru rs rp ra rps]; cbn. intros H <- <-. destruct rk; cbn in *; try discriminate; reflexivity. Qed.

(** * no_leak *)

Definition call_kind (x : call) : kind :=
  match x with
  | CFind1 k _ _ | CFindN k _ | CUpdate k _ _ _ _ | CDelete k _ _ => k
  | CCreate _ new _ => r_kind new
  end.

(** id names a stored resource of kind k every read permission of which the caller holds. *)
Definition readable_in (c : caller) (s : store) (k : kind) (id : N) : Prop :=
  exists r, In r (s_res s) /\ r_kind r = k /\ r_id r = id /\ Forall (holds c) (read_reqs r).

Lemma find1_no_leak c s k v id i :
  In i (ids (find1 c s k v id)) -> readable_in c s k i.
Proof.
  unfold find1. destruct (lookup_first_find k v) eqn:LF.
  - destruct (lookup s k id) as [r|] eqn:L; [|intros []].
    destruct (authorize_all c (read_reqs r)) eqn:A; cbn; [|intros []|intros []].
    intros [<-|[]]. apply lookup_some in L as [L1 [L2 L3]].
    exists r. repeat split; auto. apply authorize_all_ok; exact A.
  - destruct (authorize_all c (read_reqs (stub k id))) eqn:A; cbn; [|intros []|intros []].
    destruct (lookup s k id) as [r|] eqn:L; cbn; [|intros []].
    intros [<-|[]]. apply lookup_some in L as [L1 [L2 L3]].
    exists r. repeat split; auto. apply authorize_all_ok.
    rewrite <- (read_reqs_stub' k v id r LF L2 L3). exact A.
Qed.

Lemma findn_no_leak c s k f i :
  In i (ids (findn c s k f)) -> readable_in c s k i.
Proof.
  unfold findn.
  set (f' := match k, f with
             | KOrg, FNone => match authorize1 c (mk A_READ T_ORG None None) with AzOk => FNone | _ => FUser (c_user c) end
             | _, _ => f end).
  destruct (candidates s k f') as [rs|e] eqn:C; [|intros []].
  destruct (authz_filter c rs) as [l|e] eqn:F; [|intros []].
  cbn. intro Hin. destruct (authz_filter_sound c rs l F i Hin) as [r [H1 [H2 H3]]].
  destruct (candidates_in s k f' rs C r H1) as [H4 H5].
  exists r. repeat split; auto. apply authorize_all_ok; exact H3.
Qed.

Lemma err_ids e s : ids (err e s) = [].
Proof. reflexivity. Qed.

Lemma svc_create_ids c s new sysids : ids (svc_create c s new sysids) = [].
Proof.
  unfold svc_create. destruct (r_kind new); cbn;
    repeat match goal with |- context [if ?b then _ else _] => destruct b; cbn end; reflexivity.
Qed.

Lemma create_ids c s v new sysids : ids (create c s v new sysids) = [].
Proof.
  unfold create. destruct (authorize_all c (create_reqs new)); try reflexivity.
  destruct (r_kind new) eqn:K; try apply svc_create_ids.
  destruct (negb (verify_perms c (r_perms new))); [reflexivity|].
  destruct (_ && _); [reflexivity | apply svc_create_ids].
Qed.

Lemma svc_update_ids s k id pay a : ids (svc_update s k id pay a) = [].
Proof. unfold svc_update. destruct (lookup s k id); reflexivity. Qed.

Lemma svc_delete_ids s k id : ids (svc_delete s k id) = [].
Proof.
  unfold svc_delete. destruct (lookup s k id) as [r|]; [|reflexivity].
  destruct k; try reflexivity. destruct (r_sys r); reflexivity.
Qed.

Lemma guarded_mut_ids c s k id inner : ids inner = [] -> ids (guarded_mut c s k id inner) = [].
Proof.
  intro H. unfold guarded_mut. destruct (lookup_first_mut k).
  - destruct (lookup s k id) as [r|]; [|reflexivity].
    destruct (authorize_all c (write_reqs r)); auto.
  - destruct (authorize_all c (write_reqs (stub k id))); auto.
Qed.

Theorem no_leak c s x i :
  In i (ids (step c s x)) -> readable_in c s (call_kind x) i.
Proof.
  destruct x as [k v id|k f|v new sysids|k v id pay a|k v id]; cbn [step call_kind].
  - apply find1_no_leak.
  - apply findn_no_leak.
  - rewrite create_ids. intros [].
  - unfold update. rewrite guarded_mut_ids by apply svc_update_ids. intros [].
  - unfold delete. rewrite guarded_mut_ids by apply svc_delete_ids. intros [].
Qed.

(** Reads never modify the store. *)
Lemma find1_state c s k v id : st (find1 c s k v id) = s.
Proof.
  unfold find1. destruct (lookup_first_find k v).
  - destruct (lookup s k id) as [r|]; [|reflexivity]. destruct (authorize_all c (read_reqs r)); reflexivity.
  - destruct (authorize_all c (read_reqs (stub k id))); try reflexivity. destruct (lookup s k id); reflexivity.
Qed.

Lemma findn_state c s k f : st (findn c s k f) = s.
Proof.
  unfold findn.
  match goal with |- context [candidates s k ?f'] => destruct (candidates s k f') as [rs|e] end; [|reflexivity].
  destruct (authz_filter c rs); reflexivity.
Qed.

(** Find-many is also complete: nothing readable is withheld (for the plain filters). *)
Theorem findn_complete c s k f l :
  (k = KOrg -> f <> FNone) ->
  findn c s k f = done l s ->
  forall rs r, candidates s k f = inl rs -> In r rs ->
    authorize_all c (read_reqs r) = AzOk -> In (r_id r) l.
Proof.
  intros Hk H rs r C Hin Hok. unfold findn in H.
  assert (E : match k, f with
              | KOrg, FNone => match authorize1 c (mk A_READ T_ORG None None) with AzOk => FNone | _ => FUser (c_user c) end
              | _, _ => f end = f).
  { destruct k; try reflexivity. destruct f; try reflexivity. exfalso. apply Hk; reflexivity. }
  rewrite E, C in H. destruct (authz_filter c rs) as [l'|e] eqn:F.
  - inversion H; subst. eapply authz_filter_complete; eauto.
  - apply authz_filter_err in F. subst e. discriminate.
Qed.

(** * mutation_requires_write and token_no_escalation *)

Definition target (s : store) (k : kind) (id : N) : rsrc :=
  match lookup s k id with Some r => r | None => stub k id end.

(** What the property demands of a mutating call. *)
Definition write_authorized (c : caller) (s : store) (x : call) : Prop :=
  match x with
  | CCreate _ new _ =>
      Forall (holds c) (create_reqs new) /\
      (r_kind new = KAuth -> Forall (holds c) (r_perms new))
  | CUpdate k _ id _ _ | CDelete k _ id => Forall (holds c) (write_reqs (target s k id))
  | _ => True
  end.

Lemma err_not_ok_unchanged e s : e <> E_OK -> ~ (cls (err e s) = E_OK \/ st (err e s) <> s).
Proof. intros He [H|H]; cbn in H; congruence. Qed.

Lemma verify_perms_ok c ps : verify_perms c ps = true -> Forall (holds c) ps.
Proof.
  unfold verify_perms. rewrite forallb_forall, Forall_forall. intros H q Hq. apply held_iff, H, Hq.
Qed.

Lemma create_requires c s v new sysids :
  let r := create c s v new sysids in
  cls r = E_OK \/ st r <> s -> write_authorized c s (CCreate v new sysids).
Proof.
  cbn. unfold create. destruct (authorize_all c (create_reqs new)) eqn:A.
  - destruct (r_kind new) eqn:K; intros H;
      try (split; [apply authorize_all_ok; exact A | intro; discriminate]).
    destruct (negb (verify_perms c (r_perms new))) eqn:V.
    + exfalso. revert H. apply err_not_ok_unchanged. discriminate.
    + split; [apply authorize_all_ok; exact A|]. intros _.
      apply verify_perms_ok. apply negb_false_iff in V. exact V.
  - intro H. exfalso. revert H. apply err_not_ok_unchanged. discriminate.
  - intro H. exfalso. revert H. apply err_not_ok_unchanged. discriminate.
Qed.

Lemma guarded_mut_requires c s k id inner :
  let r := guarded_mut c s k id inner in
  cls r = E_OK \/ st r <> s -> Forall (holds c) (write_reqs (target s k id)).
Proof.
  cbn. unfold guarded_mut, target. destruct (lookup_first_mut k) eqn:LF.
  - destruct (lookup s k id) as [r|] eqn:L.
    + destruct (authorize_all c (write_reqs r)) eqn:A.
      * intros _. apply authorize_all_ok; exact A.
      * intro H. exfalso. revert H. apply err_not_ok_unchanged. discriminate.
      * intro H. exfalso. revert H. apply err_not_ok_unchanged. discriminate.
    + intro H. exfalso. revert H. apply err_not_ok_unchanged. discriminate.
  - destruct (authorize_all c (write_reqs (stub k id))) eqn:A.
    + intros _. apply authorize_all_ok in A.
      destruct (lookup s k id) as [r|] eqn:L; [|exact A].
      apply lookup_some in L as [_ [L2 L3]]. rewrite <- (write_reqs_stub k id r LF L2 L3). exact A.
    + intro H. exfalso. revert H. apply err_not_ok_unchanged. discriminate.
    + intro H. exfalso. revert H. apply err_not_ok_unchanged. discriminate.
Qed.

Theorem mutation_requires_write c s x :
  let r := step c s x in
  cls r = E_OK \/ st r <> s -> write_authorized c s x.
Proof.
  destruct x as [k v id|k f|v new sysids|k v id pay a|k v id]; cbn [step write_authorized]; try (intros; exact I).
  - apply create_requires.
  - apply guarded_mut_requires.
  - apply guarded_mut_requires.
Qed.

(** Token creation: every granted permission is held by the caller. *)
Theorem token_requires_held c s v new sysids q :
  r_kind new = KAuth ->
  (let r := step c s (CCreate v new sysids) in cls r = E_OK \/ st r <> s) ->
  In q (r_perms new) -> holds c q.
Proof.
  intros K H Hq. apply mutation_requires_write in H. destruct H as [_ H].
  specialize (H K). rewrite Forall_forall in H. apply H; exact Hq.
Qed.

(** * denied_leaves_state *)

Lemma svc_create_cls c s new sysids :
  let r := svc_create c s new sysids in cls r = E_OK \/ cls r = E_NOTFOUND \/ cls r = E_OTHER.
Proof.
  cbn. unfold svc_create. destruct (r_kind new); cbn;
    repeat match goal with |- context [if ?b then _ else _] => destruct b; cbn end; auto.
Qed.

Lemma svc_update_cls s k id pay a :
  let r := svc_update s k id pay a in cls r = E_OK \/ cls r = E_NOTFOUND \/ cls r = E_OTHER.
Proof. cbn. unfold svc_update. destruct (lookup s k id); cbn; auto. Qed.

Lemma svc_delete_cls s k id :
  let r := svc_delete s k id in cls r = E_OK \/ cls r = E_NOTFOUND \/ cls r = E_OTHER.
Proof.
  cbn. unfold svc_delete. destruct (lookup s k id) as [r|]; cbn; auto.
  destruct k; cbn; auto. destruct (r_sys r); cbn; auto.
Qed.

Definition denied (r : result) : Prop := cls r = E_UNAUTH \/ cls r = E_FORBID.

Lemma not_denied_of_svc r :
  cls r = E_OK \/ cls r = E_NOTFOUND \/ cls r = E_OTHER -> denied r -> False.
Proof. unfold denied. intros [H|[H|H]] [D|D]; rewrite H in D; discriminate. Qed.

Lemma guarded_mut_denied c s k id inner :
  (cls inner = E_OK \/ cls inner = E_NOTFOUND \/ cls inner = E_OTHER) ->
  denied (guarded_mut c s k id inner) -> st (guarded_mut c s k id inner) = s.
Proof.
  intros Hi. unfold guarded_mut. destruct (lookup_first_mut k).
  - destruct (lookup s k id) as [r|]; [|reflexivity].
    destruct (authorize_all c (write_reqs r)); try reflexivity.
    intro D. exfalso. eapply not_denied_of_svc; eauto.
  - destruct (authorize_all c (write_reqs (stub k id))); try reflexivity.
    intro D. exfalso. eapply not_denied_of_svc; eauto.
Qed.

Theorem denied_leaves_state c s x :
  denied (step c s x) -> st (step c s x) = s.
Proof.
  destruct x as [k v id|k f|v new sysids|k v id pay a|k v id]; cbn [step].
  - intros _. apply find1_state.
  - intros _. apply findn_state.
  - unfold create. destruct (authorize_all c (create_reqs new)); try reflexivity.
    destruct (r_kind new);
      try (intro D; exfalso; eapply not_denied_of_svc; [apply svc_create_cls | exact D]).
    destruct (negb (verify_perms c (r_perms new))); [reflexivity|].
    destruct (_ && _); [reflexivity|].
    intro D; exfalso; eapply not_denied_of_svc; [apply svc_create_cls | exact D].
  - apply guarded_mut_denied, svc_update_cls.
  - apply guarded_mut_denied, svc_delete_cls.
Qed.

(** Conversely, a mutating call the caller is not entitled to is answered with an error
    and leaves the store unchanged (contrapositive of [mutation_requires_write]). *)
Theorem unauthorized_mutation_rejected c s x :
  ~ write_authorized c s x -> cls (step c s x) <> E_OK /\ st (step c s x) = s.
Proof.
  intro Hn. split.
  - intro H. apply Hn. apply mutation_requires_write. left; exact H.
  - destruct x as [k v id|k f|v new sysids|k v id pay a|k v id]; cbn [step].
    + apply find1_state.
    + apply findn_state.
    + unfold create. destruct (authorize_all c (create_reqs new)) eqn:A; try reflexivity.
      destruct (r_kind new) eqn:K;
        try (exfalso; apply Hn; split; [apply authorize_all_ok; exact A | intro; congruence]).
      destruct (negb (verify_perms c (r_perms new))) eqn:V; [reflexivity|].
      exfalso; apply Hn; split; [apply authorize_all_ok; exact A|]. intros _.
      apply verify_perms_ok. apply negb_false_iff in V; exact V.
    + unfold update, guarded_mut. cbn [write_authorized] in Hn. unfold target in Hn.
      destruct (lookup_first_mut k) eqn:LF.
      * destruct (lookup s k id) as [r|] eqn:L; [|reflexivity].
        destruct (authorize_all c (write_reqs r)) eqn:A; try reflexivity.
        exfalso; apply Hn, authorize_all_ok, A.
      * destruct (authorize_all c (write_reqs (stub k id))) eqn:A; try reflexivity.
        exfalso; apply Hn. apply authorize_all_ok in A.
        destruct (lookup s k id) as [r|] eqn:L; [|exact A].
        apply lookup_some in L as [_ [L2 L3]]. rewrite <- (write_reqs_stub k id r LF L2 L3). exact A.
    + unfold delete, guarded_mut. cbn [write_authorized] in Hn. unfold target in Hn.
      destruct (lookup_first_mut k) eqn:LF.
      * destruct (lookup s k id) as [r|] eqn:L; [|reflexivity].
        destruct (authorize_all c (write_reqs r)) eqn:A; try reflexivity.
        exfalso; apply Hn, authorize_all_ok, A.
      * destruct (authorize_all c (write_reqs (stub k id))) eqn:A; try reflexivity.
        exfalso; apply Hn. apply authorize_all_ok in A.
        destruct (lookup s k id) as [r|] eqn:L; [|exact A].
        apply lookup_some in L as [_ [L2 L3]]. rewrite <- (write_reqs_stub k id r LF L2 L3). exact A.
Qed.

(** An inactive token: nothing is returned, nothing changes. *)
Lemma inactive_authorize_all c qs : c_active c = false -> qs <> [] -> authorize_all c qs <> AzOk.
Proof.
  intros Hc. destruct qs as [|q r]; [congruence|]. intros _. cbn. unfold authorize1, held. rewrite Hc. cbn.
  destruct (negb (valid_req q)); discriminate.
Qed.

Theorem inactive_caller_gets_nothing c s x :
  c_active c = false -> ids (step c s x) = [] /\ st (step c s x) = s.
Proof.
  intro Hc. split.
  - destruct (ids (step c s x)) as [|i l] eqn:E; [reflexivity|].
    assert (Hin : In i (ids (step c s x))) by (rewrite E; left; reflexivity).
    apply no_leak in Hin. destruct Hin as [r [_ [_ [_ HF]]]].
    exfalso. destruct r as [rk ri ro ru rs rp ra rps]. destruct rk; cbn in HF;
      try destruct rs; inversion HF as [|q l' [Hact _] _]; congruence.
  - destruct x as [k v id|k f|v new sysids|k v id pay a|k v id].
    + apply find1_state.
    + apply findn_state.
    + apply unauthorized_mutation_rejected. cbn. intros [HF _].
      destruct new as [rk ri ro ru rs rp ra rps]. destruct rk; cbn in HF;
        inversion HF as [|q l' [Hact _] _]; congruence.
    + apply unauthorized_mutation_rejected. cbn. intros HF.
      destruct (target s k id) as [rk ri ro ru rs rp ra rps]. destruct rk; cbn in HF;
        inversion HF as [|q l' [Hact _] _]; congruence.
    + apply unauthorized_mutation_rejected. cbn. intros HF.
      destruct (target s k id) as [rk ri ro ru rs rp ra rps]. destruct rk; cbn in HF;
        inversion HF as [|q l' [Hact _] _]; congruence.
Qed.

(** * Histories *)

Fixpoint trace (c : caller) (s : store) (xs : list call) : list (store * call * result) :=
  match xs with
  | [] => []
  | x :: t => let r := step c s x in (s, x, r) :: trace c (st r) t
  end.

Lemma trace_run c xs : forall s, map snd (trace c s xs) = fst (run c s xs).
Proof.
  induction xs as [|x t IH]; intro s; cbn; [reflexivity|].
  specialize (IH (st (step c s x))). destruct (run c (st (step c s x)) t) as [rs s'].
  cbn in *. rewrite IH. reflexivity.
Qed.

Lemma trace_forall (P : store -> call -> result -> Prop) c :
  (forall s x, P s x (step c s x)) ->
  forall xs s, Forall (fun t => P (fst (fst t)) (snd (fst t)) (snd t)) (trace c s xs).
Proof.
  intros H xs. induction xs as [|x t IH]; intro s; cbn; constructor; cbn; auto.
Qed.

(** * Semantic closure of token creation: transitivity of [grants], and where it fails *)

(** [grants] is transitive through a middle permission that does not name BOTH an id and an org. *)
Lemma grants_trans p g q :
  (rid (res g) = None \/ rorg (res g) = None) ->
  grants p g -> grants g q -> grants p q.
Proof.
  intros Hg [Ha [Hi | [Ht Hp]]] [Ha' Hq]; split; try congruence.
  - left; exact Hi.
  - destruct Hq as [Hgi | [Ht' Hq]].
    + left. congruence.
    + right. split; [congruence|].
      destruct Hp as [[Po Pi] | [[Pi [o [Po Go]]] | [i [Pi Gi]]]].
      * left; auto.
      * destruct Hq as [[Go' Gi'] | [[Gi' [o' [Go' Qo]]] | [i [Gi' Qi]]]].
        -- congruence.
        -- right; left. split; [exact Pi|]. exists o. split; [exact Po|]. congruence.
        -- destruct Hg as [Hg|Hg]; congruence.
      * destruct Hq as [[Go' Gi'] | [[Gi' [o' [Go' Qo]]] | [i' [Gi' Qi]]]].
        -- congruence.
        -- congruence.
        -- right; right. exists i. split; [exact Pi|]. congruence.
Qed.

Definition one_scope (g : perm) : Prop := rid (res g) = None \/ rorg (res g) = None.

(** If the caller holds every granted permission and none of them names both an id and an
    org, the new token can do nothing the caller cannot. *)
Lemma no_escalation_one_scope c granted :
  Forall (holds c) granted -> Forall one_scope granted ->
  forall q, allowed granted q = true -> holds c q.
Proof.
  intros Hh Ho q Hq. apply allowed_iff in Hq as [g [Hin Hg]].
  rewrite Forall_forall in Hh, Ho. destruct (Hh g Hin) as [Hact [p [Hp Hpg]]].
  split; [exact Hact|]. exists p. split; [exact Hp|].
  eapply grants_trans; eauto. apply Ho; exact Hin.
Qed.
