(** C19 — Retention drops only expired data.  Property theorems only
    (definitions: Model/C19.v + Model/C18.v, proofs: Proofs/C19.v). *)
From Verif Require Import Base.Prelude Model.C18 Proofs.C18 Model.C19 Proofs.C19.
Local Open Scope Z_scope.

(** ===== write path ===== *)

(** Full statement (since the repair c26a5a4c30 of MapShards' second loop; before
    it the "<-" direction was refuted: an old point was accepted when a newer point
    of the same batch shared its shard group — former finding
    old-point-accepted-with-newer-point-of-same-shard-group).
    For ALL batches, states, shard-group durations and bounds mb = now - D (or
    MinNanoTime when D = 0): the write never fails, a point is dropped iff it is
    older than the bound, and the reported count is exactly the number of such
    points. *)
Theorem C19_drop_iff_older :
  forall mb st ts, Inv st -> Forall in_range ts ->
    exists st' m, write_points mb st ts = Some (st', m) /\ length m = length ts /\
      (forall t o, In (t, o) (combine ts m) -> (o = None <-> t < mb)) /\
      count_none m = N.of_nat (length (filter (fun t => t <? mb) ts)).
Proof. exact drop_iff_older. Qed.
Print Assumptions C19_drop_iff_older.

(** Infinite retention (D = 0, bound = MinNanoTime) never drops anything. *)
Theorem C19_infinite_retention_never_drops :
  forall st ts, Inv st -> Forall in_range ts ->
    exists st' m, write_points MinNano st ts = Some (st', m) /\ count_none m = 0%N.
Proof.
  intros st ts HI HT. destruct (drop_iff_older MinNano st ts HI HT) as (st' & m & E & _ & _ & C).
  exists st', m. split; [exact E|]. rewrite C.
  assert (F : filter (fun t => t <? MinNano) ts = []).
  { clear -HT. induction ts as [|t r IH]; [reflexivity|]. inversion HT as [|? ? Ht HT']; subst. cbn [filter].
    unfold in_range in Ht. assert (L : (t <? MinNano) = false) by lia. rewrite L. auto. }
  rewrite F. reflexivity.
Qed.
Print Assumptions C19_infinite_retention_never_drops.

(** A batch consisting only of points older than the bound is rejected entirely,
    creates no shard group (the state is unchanged), and the count is the batch size. *)
Theorem C19_all_old_batch_dropped_with_count :
  forall mb st ts, Inv st -> Forall in_range ts -> Forall (fun t => t < mb) ts ->
    write_points mb st ts = Some (st, map (fun _ => None) ts) /\
    count_none (map (fun _ : Z => @None N) ts) = N.of_nat (length ts).
Proof.
  intros mb st ts HI HT Ho. split; [apply all_old_dropped; assumption|apply count_none_all].
Qed.
Print Assumptions C19_all_old_batch_dropped_with_count.

(** The former refutation witness: the 01:00 point (11 h older than the bound) is
    now dropped together with the previous day's point. *)
Example C19_former_witness_fixed :
  option_map snd (write_points 1731412800000000000 (init 86400000000000)
     [1731416400000000000; 1731373200000000000; 1731366000000000000]) = Some [Some 1%N; None; None].
Proof. vm_compute. reflexivity. Qed.

(** ===== retention enforcement ===== *)

(** [ExpiredShardGroups(now)] returns exactly the non-deleted groups whose whole
    range is older than now - D, and nothing when D = 0 (all D, now, groups). *)
Theorem C19_expired_iff :
  forall D now gs g,
    In g (expired_groups D now gs) <->
    In g gs /\ rg_deleted g = false /\ D <> 0 /\ rg_end g < now - D.
Proof. exact expired_groups_iff. Qed.
Print Assumptions C19_expired_iff.

(** Phase 1 of a DeletionCheck pass marks a live group deleted iff it is expired.
    (The same iff for the state at the END of the pass additionally needs shard ids
    to be unique across groups; that part is tied by the correspondence oracle
    [pass_ok] only — hence _partial.) *)
Theorem C19_only_expired_deleted_partial :
  forall now r g, In g (rp_groups r) -> rg_deleted g = false ->
    exists g', In g' (rp_groups (mark_rp now r)) /\ rg_id g' = rg_id g /\ rg_shards g' = rg_shards g /\
               rg_deleted g' = expired_spec (rp_D r) now g.
Proof.
  intros now r g Hg Hl.
  exists (if expired_b (rp_D r) now g then set_del g 1 else g). split.
  - cbn. apply in_map_iff. exists g. auto.
  - rewrite expired_b_spec. destruct (expired_spec (rp_D r) now g); cbn; auto.
Qed.
Print Assumptions C19_only_expired_deleted_partial.

(** Every DeleteShard call of a pass — for any store content, in-use set and
    injected failures — is for a shard that is in the store and belongs to a group
    that was already marked deleted or whose whole range is older than now - D;
    the store loses only shards for which DeleteShard was called. *)
Theorem C19_removed_shards_only_of_expired_groups :
  forall now rps store inuse errs,
    let o := deletion_check now rps store inuse errs in
    (forall id, In id (po_calls o) ->
       In id store /\
       exists r g, In r rps /\ In g (rp_groups r) /\ In id (rg_shards g) /\
                   (rg_deleted g = true \/ expired_spec (rp_D r) now g = true)) /\
    (forall id, In id store -> In id (po_store o) \/ In id (po_calls o)) /\
    (forall id, In id (po_store o) -> In id store).
Proof.
  intros now rps store inuse errs o. unfold o, deletion_check; cbn. split; [|apply store_loop_store].
  intros id H. apply store_loop_calls in H as [Hd Hs]. split; [exact Hs|]. apply doomed_iff; exact Hd.
Qed.
Print Assumptions C19_removed_shards_only_of_expired_groups.

(** A live group that is not expired, none of whose shards is also listed in a
    deleted/expired group, is left exactly as it was (same id, end, shards, still
    live) and DeleteShard is called for none of its shards. *)
Theorem C19_others_untouched :
  forall now rps store inuse errs g r,
    In r rps -> In g (rp_groups r) ->
    rg_deleted g = false -> expired_spec (rp_D r) now g = false ->
    (forall id, In id (rg_shards g) -> ~ In id (flat_map (doomed_rp now) rps)) ->
    InG g (po_rps (deletion_check now rps store inuse errs)) /\
    (forall id, In id (rg_shards g) -> ~ In id (po_calls (deletion_check now rps store inuse errs))).
Proof. exact others_untouched. Qed.
Print Assumptions C19_others_untouched.

(** Non-vacuity: a pass over two policies with an expired, a live, a deleted and a
    prunable group, an in-use shard and a stray store shard. *)
Example C19_nonvacuous :
  let h := 3600000000000 in
  let rps := [ {| rp_D := 24 * h; rp_groups :=
                 [ {| rg_id := 1; rg_end := -30 * h; rg_del := 0; rg_shards := [1%N] |};
                   {| rg_id := 2; rg_end := -23 * h; rg_del := 0; rg_shards := [2%N] |};
                   {| rg_id := 3; rg_end := -90 * h; rg_del := 1; rg_shards := [3%N; 4%N] |};
                   {| rg_id := 4; rg_end := -99 * h; rg_del := 2; rg_shards := [] |} ] |};
               {| rp_D := 0; rp_groups := [ {| rg_id := 5; rg_end := -99999 * h; rg_del := 0; rg_shards := [5%N] |} ] |} ] in
  let o := deletion_check 0 rps [1%N; 2%N; 3%N; 5%N; 77%N] [3%N] [] in
  po_calls o = [1%N] /\ po_store o = [2%N; 3%N; 5%N; 77%N] /\
  map view_rp (po_rps o) =
    [ [(1%N, 1%N, []); (2%N, 0%N, [2%N]); (3%N, 1%N, [3%N])]; [(5%N, 0%N, [5%N])] ].
Proof. vm_compute. repeat split. Qed.
