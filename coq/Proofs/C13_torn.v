(** C13 — torn append: what a scan sees when only a prefix of the last entry reached the
    zero-filled segment. *)
From Verif Require Import Base.Prelude Model.C13 Proofs.C13_bytes Proofs.C13_inv.
From Coq Require Import ZifyBool ZifyNat ZifyN.
Ltac Zify.zify_post_hook ::= Z.div_mod_to_equations.
Open Scope N_scope.

Arguments byte_at : simpl never.

(** An entry as the real code writes it: id fits uint64; an insert carries a well-formed key
    whose body is shorter than 128 bytes (1-byte length varint). *)
Definition small_entry (e : entry) : Prop :=
  match e with
  | Ins id k => id < 2 ^ 64 /\ exists body, k = mk_key body /\ N.of_nat (length body) < 128
  | Tomb id => id < 2 ^ 64
  end.

Lemma read_key_torn body m : N.of_nat (length body) < 128 ->
  (m <= length (mk_key body))%nat -> (m <= length (read_key (firstn m (mk_key body))))%nat.
Proof.
  intros Hb Hm. unfold mk_key in *. rewrite put_uvarint_small in * by assumption.
  cbn [app length] in *. destruct m as [|m].
  - lia.
  - cbn [firstn]. unfold read_key. rewrite uvarint_one by assumption.
    rewrite take0_length. lia.
Qed.

(** At most one entry is decoded from the torn bytes. *)
Lemma scan_go_torn e n f pos : small_entry e -> (n <= length (enc e))%nat ->
  scan_go (S f) (firstn n (enc e)) pos = scan_go 1 (firstn n (enc e)) pos.
Proof.
  intros He Hn. destruct n as [|m]; [reflexivity|].
  destruct e as [id k | id]; cbn [enc firstn scan_go].
  - destruct He as [Hid [body [-> Hb]]].
    change (valid_flag FLAG_INS) with true. cbv iota.
    change (FLAG_INS =? FLAG_INS) with true. cbv iota.
    f_equal.
    set (r := firstn m (be64 id ++ mk_key body)).
    assert (Hr : (length r <= 8 + length (read_key (skipn 8 r)))%nat).
    { unfold r. rewrite skipn_firstn_comm.
      replace (skipn 8 (be64 id ++ mk_key body)) with (mk_key body) by reflexivity.
      rewrite firstn_length. cbn [enc length] in Hn. rewrite app_length, be64_length in *.
      pose proof (read_key_torn body (m - 8) Hb). lia. }
    rewrite (skipn_all2 r) by exact Hr. rewrite scan_go_nil. now destruct f.
  - change (valid_flag FLAG_TOMB) with true. cbv iota.
    change (FLAG_TOMB =? FLAG_INS) with false. cbv iota. f_equal.
    cbn [length Nat.add]. cbn [enc length] in Hn. rewrite be64_length in Hn.
    rewrite skipn_all2 by (rewrite firstn_length, be64_length; lia).
    rewrite scan_go_nil. now destruct f.
Qed.

(** The crash theorem at the byte level: every old entry is decoded unchanged at the same
    offset; the torn bytes contribute what one decoding step makes of them (at most one entry). *)
Theorem torn_scan L e n : Forall wf_entry L -> small_entry e -> (n <= length (enc e))%nat ->
  scan (bytes_of L ++ firstn n (enc e))
  = with_offsets L HDR ++ scan_go 1 (firstn n (enc e)) (HDR + N.of_nat (length (bytes_of L))).
Proof.
  intros HL He Hn. rewrite scan_app by assumption. f_equal.
  destruct n as [|m]; [cbn [firstn]; now rewrite !scan_go_nil|].
  set (F := (length (bytes_of L ++ firstn (S m) (enc e)) - length L)%nat).
  assert (HF : (1 <= F)%nat).
  { unfold F. pose proof (bytes_of_length_ge L). rewrite app_length, firstn_length.
    destruct e; cbn [enc length] in *; lia. }
  destruct F as [|F']; [lia|]. now apply scan_go_torn.
Qed.

(** What the torn entry looks like. *)
Definition torn_id (id : N) (m : nat) : N := be_dec (take0 8 (firstn m (be64 id))).

Lemma scan_go_1_torn_ins id k m pos :
  scan_go 1 (firstn (S m) (enc (Ins id k))) pos =
  [{| se_flag := FLAG_INS; se_id := be_dec (take0 8 (firstn m (be64 id ++ k))); se_off := pos;
      se_key := read_key (firstn (m - 8) k) |}].
Proof.
  cbn [enc firstn scan_go].
  change (valid_flag FLAG_INS) with true. cbv iota.
  change (FLAG_INS =? FLAG_INS) with true. cbv iota.
  rewrite skipn_firstn_comm. reflexivity.
Qed.

Lemma scan_go_1_torn_tomb id m pos :
  scan_go 1 (firstn (S m) (enc (Tomb id))) pos =
  [{| se_flag := FLAG_TOMB; se_id := torn_id id m; se_off := pos; se_key := [] |}].
Proof. reflexivity. Qed.

Lemma torn_id_app id k m : be_dec (take0 8 (firstn m (be64 id ++ k))) = torn_id id m.
Proof.
  unfold torn_id. rewrite firstn_app, be64_length.
  destruct (Nat.le_gt_cases 8 m) as [H|H].
  - rewrite !firstn_all2 by (rewrite be64_length; lia).
    cbn [be64 map app take0]. reflexivity.
  - replace (m - 8)%nat with 0%nat by lia. cbn [firstn]. now rewrite app_nil_r.
Qed.

(** Once the 8 id bytes are on disk the id is exact. *)
Lemma torn_id_full id m : id < 2 ^ 64 -> (8 <= m)%nat -> torn_id id m = id.
Proof.
  intros Hid Hm. unfold torn_id. rewrite firstn_all2 by (rewrite be64_length; lia).
  cbn [be64 map take0]. now apply be_dec_bytes.
Qed.

Lemma byte_at_small id i : id < 256 -> 1 <= i -> byte_at id i = 0.
Proof.
  intros Hid Hi. unfold byte_at.
  assert (256 <= 2 ^ (8 * i)).
  { change 256 with (2 ^ 8). apply N.pow_le_mono_r; lia. }
  rewrite N.div_small by lia. reflexivity.
Qed.

(** With ids below 256 (fewer than 32 series in the partition) a cut inside the id bytes
    leaves id 0 — the value that means "no series". *)
Lemma torn_id_small id m : id < 256 -> (m < 8)%nat -> torn_id id m = 0.
Proof.
  intros Hid Hm. unfold torn_id. cbn [be64 map].
  rewrite !(byte_at_small id) by (assumption || lia).
  do 8 (destruct m as [|m]; [reflexivity|]). lia.
Qed.

(** In general a cut after [m] id bytes keeps the high [m] bytes of the id and zeroes the rest:
    [torn_id id 7 = id - id mod 256], which for ids >= 256 is ANOTHER id. *)
Lemma torn_id_7 id : id < 2 ^ 64 -> torn_id id 7 = id - id mod 256.
Proof.
  intro Hid. unfold torn_id. cbn [be64 map firstn take0].
  pose proof (be_dec_bytes id Hid) as E. unfold be_dec in *. cbn [fold_left] in *.
  unfold byte_at in *. change (2 ^ (8 * 0)) with 1 in *. rewrite N.div_1_r in E. lia.
Qed.

(** ** Index-level consequence of a torn create (partial: ids below 256, 1-byte key length) *)
Lemma replay_snoc W g : replay (W ++ [g]) = exec (replay W) g.
Proof. unfold replay. now rewrite fold_left_app. Qed.

Lemma scan_end_snoc W g : scan_end (W ++ [g]) = se_off g + se_size g.
Proof. unfold scan_end. now rewrite fold_left_app. Qed.

Lemma crash_create_zero p st e : PInv p st -> crash_append p st e 0 = st.
Proof. intro I. unfold crash_append. cbn [firstn]. rewrite app_nil_r. now apply reopen_id. Qed.

Lemma crash_create_old_preserved p st body m :
  PInv p st -> N.of_nat (length body) < 128 -> seq st < 256 ->
  (S m <= length (enc (Ins (seq st) (mk_key body))))%nat ->
  let k := mk_key body in
  let st' := crash_append p st (Ins (seq st) k) (S m) in
  seq st <= seq st' /\
  forall k0 id0, find_id (ix st) k0 = id0 -> id0 <> 0 -> k0 <> read_key (firstn (m - 8) k) ->
                 find_id (ix st') k0 = id0 /\ key_of st' id0 = k0 /\ is_deleted (ix st') id0 = false.
Proof.
  intros I Hb Hq Hn k st'.
  pose proof I as [[L (Hs & Hw & Hi & Hsq)] Hc Hlt Hfun Hoff Hio Htb].
  assert (H64 : seq st < 2 ^ 64) by (change (2 ^ 64) with 18446744073709551616; lia).
  assert (Hse : small_entry (Ins (seq st) k)).
  { split; [assumption|]. exists body. auto. }
  set (gid := torn_id (seq st) m). set (gk := read_key (firstn (m - 8) k)).
  set (pos := HDR + N.of_nat (length (bytes_of L))).
  assert (Hscan : scan (seg st ++ firstn (S m) (enc (Ins (seq st) k)))
                  = with_offsets L HDR ++ [{| se_flag := FLAG_INS; se_id := gid; se_off := pos; se_key := gk |}]).
  { rewrite Hs, torn_scan by assumption. rewrite scan_go_1_torn_ins, torn_id_app. reflexivity. }
  assert (Hgid : gid = 0 \/ gid = seq st).
  { unfold gid. destruct (Nat.le_gt_cases 8 m).
    - right. apply torn_id_full; assumption.
    - left. now apply torn_id_small. }
  assert (Hix : ix st' = ix st \/ (gid <> 0 /\ ix st' = ins_ix (ix st) gk gid pos)).
  { unfold st', crash_append, open_part. cbn [ix]. rewrite Hscan, replay_snoc, <- Hi.
    destruct (N.eq_dec gid 0) as [Z|NZ].
    - left. rewrite Z. apply exec_ins_zero.
    - right. split; [assumption|]. now apply exec_ins. }
  assert (Hsg : exists X, seg st' = seg st ++ X).
  { unfold st', crash_append, open_part. cbn [seg]. rewrite Hscan, scan_end_snoc.
    unfold se_size. cbn [se_off se_key]. unfold pos. rewrite Hs.
    replace (N.to_nat (HDR + N.of_nat (length (bytes_of L)) + (9 + N.of_nat (length gk)) - HDR))
      with (length (bytes_of L) + (9 + length gk))%nat by lia.
    rewrite take0_app_ge. eauto. }
  split.
  - unfold st', crash_append, open_part. cbn [seq]. rewrite Hscan, max_ins_snoc. cbn [se_flag se_id].
    pose proof (next_seq_gt p L) as [Hm Hp1]. rewrite <- Hsq in Hm, Hp1.
    change (FLAG_INS =? FLAG_INS) with true. cbn [andb].
    destruct (max_ins (with_offsets L HDR) <? gid) eqn:E.
    + destruct Hgid as [G|G]; [lia|]. rewrite G. destruct (p + 1 <=? seq st) eqn:E2; lia.
    + fold (next_seq p L). lia.
  - intros k0 id0 H0 Hnz Hk0.
    destruct (find_id_spec _ _ _ H0 Hnz) as [A D]. pose proof (assoc_key_in _ _ _ A) as Ain.
    destruct (Hlt _ _ Ain) as [Hid0 _].
    assert (Hne : id0 <> gid) by (destruct Hgid; lia).
    destruct (Hoff _ _ Ain) as [Hf [off (Ha & Hge & rest & Hr)]].
    assert (Hkey : forall o, o = off -> key_at (seg st') o = k0).
    { intros o ->. destruct Hsg as [X HX]. unfold key_at. rewrite HX, skipn_app_le, Hr, <- app_assoc; [apply Hf|].
      eapply skipn_some_le; [exact Hr | now apply framed_nonnil]. }
    assert (Hoffnz : (off =? 0) = false) by (apply N.eqb_neq; unfold HDR in Hge; lia).
    destruct Hix as [Hix | [Hgnz Hix]]; rewrite Hix.
    + split; [assumption|]. split; [|assumption].
      unfold key_of. destruct (id0 =? 0) eqn:Z; [apply N.eqb_eq in Z; contradiction|].
      rewrite Hix. unfold find_off. rewrite Ha, Hoffnz. now apply Hkey.
    + split; [|split].
      * rewrite find_id_ins_other; [assumption | exact Hk0 |].
        intros id1 A1. destruct (N.eq_dec id1 0); [now left | right].
        apply assoc_key_in in A1. destruct (Hlt _ _ A1). destruct Hgid; lia.
      * unfold key_of. destruct (id0 =? 0) eqn:Z; [apply N.eqb_eq in Z; contradiction|].
        rewrite Hix, find_off_ins.
        destruct (gid =? id0) eqn:G; [apply N.eqb_eq in G; congruence|].
        unfold find_off. rewrite Ha, Hoffnz. now apply Hkey.
      * now rewrite is_deleted_ins_other.
Qed.

(** Repaired behaviour (fix: id-0 insert entries are not indexed): a create torn INSIDE its
    flag+id bytes, with ids below 256, leaves the index exactly as it was — whatever Recover or
    a later index compaction (both are [replay] of scanned entries) make of that entry. *)
Lemma crash_create_in_id_bytes_index_unchanged p st body m :
  PInv p st -> N.of_nat (length body) < 128 -> seq st < 256 -> (m < 8)%nat ->
  let st' := crash_append p st (Ins (seq st) (mk_key body)) (S m) in
  ix st' = ix st /\ seq st' = seq st.
Proof.
  intros I Hb Hq Hm st'.
  pose proof I as [[L (Hs & Hw & Hi & Hsq)] _ _ _ _ _ _].
  assert (H64 : seq st < 2 ^ 64) by (change (2 ^ 64) with 18446744073709551616; lia).
  set (k := mk_key body).
  assert (Hse : small_entry (Ins (seq st) k)) by (split; [assumption | exists body; auto]).
  assert (Hn : (S m <= length (enc (Ins (seq st) k)))%nat).
  { cbn [enc length]. rewrite app_length, be64_length. lia. }
  set (pos := HDR + N.of_nat (length (bytes_of L))). set (gk := read_key (firstn (m - 8) k)).
  assert (Hscan : scan (seg st ++ firstn (S m) (enc (Ins (seq st) k)))
                  = with_offsets L HDR ++ [{| se_flag := FLAG_INS; se_id := 0; se_off := pos; se_key := gk |}]).
  { rewrite Hs, torn_scan by assumption. rewrite scan_go_1_torn_ins, torn_id_app.
    rewrite torn_id_small by assumption. reflexivity. }
  assert (Hix : ix st' = ix st).
  { unfold st', crash_append, open_part. cbn [ix]. fold k. rewrite Hscan, replay_snoc, <- Hi. apply exec_ins_zero. }
  split; [assumption|].
  unfold st', crash_append, open_part. cbn [seq]. fold k. rewrite Hscan, max_ins_snoc. cbn [se_flag se_id].
  change (FLAG_INS =? FLAG_INS) with true. cbn [andb].
  destruct (max_ins (with_offsets L HDR) <? 0) eqn:E; [lia|]. now rewrite Hsq.
Qed.
