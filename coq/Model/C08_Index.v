(** C08 — the parsed index ([indirectIndex]) and the reader-level delete operations
    (reader.go): mirror of searchOffset/search (bytesutil.SearchBytesFixed), ReadEntries, Entry,
    Contains, ContainsValue, KeyAt, Type, TimeRange, KeyRange, Overlaps*, Delete, DeleteRange
    (tombstone coalescing, fully-deleted shortcut), TombstoneRange, readAll, applyTombstones,
    TSMReader.DeleteRange / Delete / reopen.  No proofs here. *)
From Verif Require Import Base.Prelude Base.C08_BE Model.C08_File.

Definition trange := (Z * Z)%type.
Definition tombs := list (key * list trange).

Record index := IX {
  ix_keys : list ikey;           (* the live offsets, in file order *)
  ix_minkey : key; ix_maxkey : key;   (* fixed at UnmarshalBinary *)
  ix_mintime : Z; ix_maxtime : Z;     (* fixed at UnmarshalBinary *)
  ix_tombs : tombs }.

(** UnmarshalBinary: minTime starts at MaxInt64, maxTime at MinInt64 (after the repair of finding
    timerange-max-negative; it used to start at 0); per key only the first entry's min and the
    last entry's max are looked at.  (A file without keys cannot be written: WriteIndex returns
    ErrNoValues, and the reader rejects an empty index section; for [] the fold gives
    (MaxInt64, MinInt64), the same as the specification.) *)
Definition first_min (ik : ikey) : Z := match ik_ents ik with e :: _ => emin e | [] => 0%Z end.
Definition last_max (ik : ikey) : Z := emax (last (ik_ents ik) (E 0 0 0 0)).
Definition index_of (all : list ikey) : index :=
  IX all (match all with ik :: _ => ik_key ik | [] => [] end)
     (ik_key (last all (IK [] 0 [])))
     (fold_left (fun m ik => Z.min m (first_min ik)) all MaxInt64)
     (fold_left (fun m ik => Z.max m (last_max ik)) all MinInt64)
     [].

Definition nth_key (ks : list ikey) (i : nat) : key := ik_key (nth i ks (IK [] 0 [])).

(** bytesutil.SearchBytesFixed over the offsets, in slot units: NOTE j starts at the LAST slot. *)
Fixpoint bsearch (fuel : nat) (ks : list ikey) (k : key) (i j : nat) : nat :=
  match fuel with
  | O => i
  | S f =>
      if (i <? j)%nat then
        let h := ((i + j) / 2)%nat in
        if kleb k (nth_key ks h) then bsearch f ks k i h else bsearch f ks k (h + 1)%nat j
      else i
  end.

(** searchOffset / Seek *)
Definition search_offset (ks : list ikey) (k : key) : nat :=
  match ks with
  | [] => 0%nat
  | _ => bsearch (length ks) ks k 0%nat (length ks - 1)%nat
  end.

Definition contains_key (ix : index) (k : key) : bool := kleb (ix_minkey ix) k && kleb k (ix_maxkey ix).

(** search: byte position of the key, here the key record itself *)
Definition search (ix : index) (k : key) : option ikey :=
  if negb (contains_key ix k) then None else
  match ix_keys ix with
  | [] => None
  | ks => let ik := nth (search_offset ks k) ks (IK [] 0 []) in
          if keqb k (ik_key ik) then Some ik else None
  end.

Definition entries (ix : index) (k : key) : list entry :=
  match search ix k with Some ik => ik_ents ik | None => [] end.
Definition contains (ix : index) (k : key) : bool := match entries ix k with [] => false | _ => true end.
Definition e_contains (e : entry) (t : Z) : bool := (emin e <=? t)%Z && (t <=? emax e)%Z.
Definition entry_at (ix : index) (k : key) (t : Z) : option entry := find (fun e => e_contains e t) (entries ix k).

Fixpoint tomb_get (k : key) (m : tombs) : list trange :=
  match m with [] => [] | (k', v) :: r => if keqb k' k then v else tomb_get k r end.
Fixpoint tomb_set (k : key) (v : list trange) (m : tombs) : tombs :=
  match m with [] => [(k, v)] | (k', v') :: r => if keqb k' k then (k', v) :: r else (k', v') :: tomb_set k v r end.

Definition in_range (t : Z) (r : trange) : bool := (fst r <=? t)%Z && (t <=? snd r)%Z.
Definition contains_value (ix : index) (k : key) (t : Z) : bool :=
  match entry_at ix k t with
  | None => false
  | Some _ => negb (existsb (in_range t) (tomb_get k (ix_tombs ix)))
  end.

Definition key_at (ix : index) (i : Z) : option (key * N) :=
  if (i <? 0)%Z || (Z.of_nat (length (ix_keys ix)) <=? i)%Z then None
  else let ik := nth (Z.to_nat i) (ix_keys ix) (IK [] 0 []) in Some (ik_key ik, ik_typ ik).
Definition type_of (ix : index) (k : key) : option N :=
  match search ix k with Some ik => Some (ik_typ ik) | None => None end.
Definition key_count (ix : index) : N := N.of_nat (length (ix_keys ix)).
Definition overlaps_time (ix : index) (lo hi : Z) : bool := (ix_mintime ix <=? hi)%Z && (lo <=? ix_maxtime ix)%Z.
Definition overlaps_key (ix : index) (a b : key) : bool := kleb (ix_minkey ix) b && kleb a (ix_maxkey ix).

(** bytesutil.Sort on keys (any sort of a total order gives the same list) *)
Fixpoint ins_key (k : key) (l : list key) : list key :=
  match l with [] => [k] | x :: r => if kltb k x then k :: l else x :: ins_key k r end.
Definition sort_keys (l : list key) : list key := fold_right ins_key [] l.

Fixpoint drop_lt (ks : list key) (k : key) : list key :=
  match ks with x :: r => if kltb x k then drop_lt r k else ks | [] => [] end.

(** the walk of indirectIndex.Delete over offsets[start..] *)
Fixpoint del_walk (l : list ikey) (ks : list key) : list ikey :=
  match l with
  | [] => []
  | ik :: l' =>
      match ks with
      | [] => l
      | _ => match drop_lt ks (ik_key ik) with
             | [] => ik :: del_walk l' []
             | k1 :: ks2 => if keqb k1 (ik_key ik) then del_walk l' ks2 else ik :: del_walk l' (k1 :: ks2)
             end
      end
  end.

Definition index_delete (ix : index) (ks : list key) : index :=
  match ks with
  | [] => ix
  | _ =>
      let ks := sort_keys ks in
      let start := search_offset (ix_keys ix) (hd [] ks) in
      IX (firstn start (ix_keys ix) ++ del_walk (skipn start (ix_keys ix)) ks)
         (ix_minkey ix) (ix_maxkey ix) (ix_mintime ix) (ix_maxtime ix) (ix_tombs ix)
  end.

(** sort.Slice of the tombstone ranges with less = (Min, then Max <=) *)
Definition tr_le (a b : trange) : bool :=
  if (fst a =? fst b)%Z then (snd a <=? snd b)%Z else (fst a <? fst b)%Z.
Fixpoint ins_tr (a : trange) (l : list trange) : list trange :=
  match l with [] => [a] | x :: r => if tr_le a x then a :: l else x :: ins_tr a r end.
Definition sort_tr (l : list trange) : list trange := fold_right ins_tr [] l.

(** int64 subtraction [ts.Min - 1] with wrap-around *)
Definition dec64 (z : Z) : Z := if (z =? MinInt64)%Z then MaxInt64 else (z - 1)%Z.
Definition tr_overlaps (a : trange) (lo hi : Z) : bool := (fst a <=? hi)%Z && (lo <=? snd a)%Z.

(** the coalescing window loop of DeleteRange *)
Fixpoint coalesce (prev : trange) (mn mx : Z) (l : list trange) : Z * Z :=
  match l with
  | [] => (mn, mx)
  | ts :: r =>
      if negb (snd prev =? dec64 (fst ts))%Z && negb (tr_overlaps prev (fst ts) (snd ts))
      then (MaxInt64, MinInt64)
      else coalesce ts (Z.min mn (fst ts)) (Z.max mx (snd ts)) r
  end.
Definition window (l : list trange) : Z * Z :=
  match l with [] => (MaxInt64, MinInt64) | r0 :: r => coalesce r0 (fst r0) (snd r0) r end.

(** the body of the per-key loop of indirectIndex.DeleteRange once [keys[0]] equals the index key:
    returns whether the key goes to [fullKeys] (and [keys[0]] is consumed) and the new pending
    tombstone map.  Every [continue] of the Go loop is the [false] result. *)
Definition dr_key (old upd : tombs) (ik : ikey) (lo hi : Z) : bool * tombs :=
  match ik_ents ik with
  | [] => (false, upd)
  | e0 :: _ =>
      let mn := emin e0 in let mx := last_max ik in
      if (lo >? mx)%Z || (hi <? mn)%Z then (false, upd)
      else if (lo <=? mn)%Z && (mx <=? hi)%Z then (true, upd)
      else
        let newTs := sort_tr (tomb_get (ik_key ik) old ++ tomb_get (ik_key ik) upd ++ [(lo, hi)]) in
        let upd' := tomb_set (ik_key ik) newTs upd in
        let '(wmn, wmx) := window newTs in
        ((wmn <=? mn)%Z && (mx <=? wmx)%Z, upd')
  end.

(** the per-key loop of indirectIndex.DeleteRange: returns fullKeys and the new tombstone map entries *)
Fixpoint dr_walk (old : tombs) (l : list ikey) (ks : list key) (lo hi : Z)
         (full : list key) (upd : tombs) : list key * tombs :=
  match l with
  | [] => (full, upd)
  | ik :: l' =>
      match ks with
      | [] => (full, upd)
      | _ =>
          match drop_lt ks (ik_key ik) with
          | [] => (full, upd)
          | k1 :: ks2 =>
              if kltb (ik_key ik) k1 then dr_walk old l' (k1 :: ks2) lo hi full upd
              else
                let '(isfull, upd') := dr_key old upd ik lo hi in
                if isfull then dr_walk old l' ks2 lo hi (full ++ [k1]) upd'
                else dr_walk old l' (k1 :: ks2) lo hi full upd'
          end
      end
  end.

Definition set_tombs (ix : index) (m : tombs) : index :=
  IX (ix_keys ix) (ix_minkey ix) (ix_maxkey ix) (ix_mintime ix) (ix_maxtime ix) m.

Definition index_delete_range (ix : index) (ks : list key) (lo hi : Z) : index :=
  match ks with
  | [] => ix
  | _ =>
      let ks := sort_keys ks in
      if (lo =? MinInt64)%Z && (hi =? MaxInt64)%Z then index_delete ix ks
      else if (lo >? ix_maxtime ix)%Z || (hi <? ix_mintime ix)%Z then ix
      else
        let '(full, upd) := dr_walk (ix_tombs ix) (ix_keys ix) ks lo hi [] [] in
        let ix1 := match full with [] => ix | _ => index_delete ix full end in
        set_tombs ix1 (fold_left (fun m kv => tomb_set (fst kv) (snd kv) m) upd (ix_tombs ix1))
  end.

(** mmapAccessor.readAll on timestamps: [pts] gives the timestamps stored in the block at an offset. *)
Definition pts_of (pts : list (N * list Z)) (off : N) : list Z :=
  match find (fun p => N.eqb (fst p) off) pts with Some p => snd p | None => [] end.
Definition read_all (pts : list (N * list Z)) (ix : index) (k : key) : list Z :=
  let ts := tomb_get k (ix_tombs ix) in
  flat_map (fun e =>
    if existsb (fun t => (fst t <=? emin e)%Z && (emax e <=? snd t)%Z) ts then []
    else filter (fun p => negb (existsb (in_range p) ts)) (pts_of pts (eoff e)))
    (entries ix k).

(** ** Reader state: the index plus the tombstone file (one list of records per committed gzip
    member) and how many members have been applied ([lastAppliedOffset]). *)
Record rstate := R { r_all : list ikey; r_ix : index; r_file : list (list trec); r_applied : nat }.

(** TSMReader.applyTombstones over the records Walk yields *)
Fixpoint apply_loop (ix : index) (recs : list trec) (batch : list key) (pmin pmax : Z) : index :=
  match recs with
  | [] => match batch with [] => ix | _ => index_delete_range ix batch pmin pmax end
  | ts :: r =>
      let '(ix1, batch1) :=
        match batch with
        | [] => (ix, batch)
        | _ => if negb (pmin =? t_min ts)%Z || negb (pmax =? t_max ts)%Z
               then (index_delete_range ix batch pmin pmax, []) else (ix, batch)
        end in
      let batch2 := batch1 ++ [t_key ts] in
      if (4096 <=? N.of_nat (length batch2))%N
      then apply_loop (index_delete_range ix1 batch2 pmin pmax) r [] (t_min ts) (t_max ts)
      else apply_loop ix1 r batch2 (t_min ts) (t_max ts)
  end.
Definition apply_tombstones (ix : index) (recs : list trec) : index := apply_loop ix recs [] 0%Z 0%Z.

Definition apply_pending (s : rstate) : rstate :=
  R (r_all s) (apply_tombstones (r_ix s) (concat (skipn (r_applied s) (r_file s)))) (r_file s) (length (r_file s)).

(** Tombstoner.AddRange + Flush: keys filtered by ContainsKey; a member is written only if some key passes *)
Definition add_member (s : rstate) (ks : list key) (lo hi : Z) : rstate :=
  match filter (contains_key (r_ix s)) ks with
  | [] => s
  | fk => R (r_all s) (r_ix s) (r_file s ++ [map (fun k => T k lo hi) fk]) (r_applied s)
  end.

(** TSMReader.DeleteRange (batchDelete.DeleteRange + Commit) *)
Definition reader_delete_range (s : rstate) (ks : list key) (lo hi : Z) : rstate :=
  match ks with
  | [] => s
  | k0 :: _ =>
      let s1 := if negb (overlaps_key (r_ix s) k0 (last ks [])) then s
                else if negb (overlaps_time (r_ix s) lo hi) then s
                else add_member s ks lo hi in
      apply_pending s1
  end.

(** TSMReader.Delete: tombstoner.Add + Flush, then index.Delete (no applyTombstones) *)
Definition reader_delete (s : rstate) (ks : list key) : rstate :=
  let s1 := add_member s ks MinInt64 MaxInt64 in
  R (r_all s1) (index_delete (r_ix s1) ks) (r_file s1) (r_applied s1).

Definition reader_open (all : list ikey) (file : list (list trec)) : rstate :=
  apply_pending (R all (index_of all) file 0).
Definition reader_reopen (s : rstate) : rstate := reader_open (r_all s) (r_file s).
Definition has_tombstones (s : rstate) : bool := match r_file s with [] => false | _ => true end.
