(** C20 — Windowed aggregate pushdown equals aggregating the raw data.  Property theorems only.

    [run_model stop_of zero B t k chunks] is the mirror of the real window cursors
    (Model/C20.v): the list of arrays returned by successive Next() calls when the
    underlying cursor serves the arrays [chunks]; [B] is MaxPointsPerBlock.
    [oracle stop_of zero t k flat] groups the flat series by window ([filter] per distinct
    window stop, in order of first occurrence) and applies the list-level aggregate
    ([agg_spec]: length, fold_left add in time order, first strictly smaller/greater value,
    float64(sum)/float64(count), head, last). *)
From Coq Require Import Sorting.Sorted.
From Verif Require Import Base.Prelude Model.C20 Proofs.C20 Proofs.C20_ref Proofs.C20_sel Proofs.C20_inst Proofs.C20_last.
Open Scope Z_scope.

(** Generic over the value type and the accumulator: for EVERY chunking of the series into
    non-empty arrays, EVERY block size B, EVERY window function that looks forward and is
    constant on a window, and every kernel whose first step after a window change does not
    depend on the old accumulator, the concatenated output arrays are, window by window, the
    kernel folded over the points of that window (in time order — so a non-associative [+]
    is folded exactly as the reference folds it). *)
Theorem C20_pushdown_eq_reference_generic :
  forall (V R A : Type) (stop_of : Z -> Z) (B : N) (K : kernel V R A),
    (forall t, t < stop_of t) ->
    (forall t u, t <= u < stop_of t -> stop_of u = stop_of t) ->
    (forall a p, k_step K false (k_reset K a) p = k_step K false (k_init K) p) ->
    forall chunks : list (list (Z * V)),
      Forall nonempty chunks -> time_sorted (concat chunks) ->
      exists arrs,
        run_acc stop_of false B K (fuel_for chunks) ([], chunks) = Some arrs
        /\ Forall nonempty arrs
        /\ concat arrs
           = reference stop_of (fun w g => k_emit K w (kfold K g (k_init K) false)) (concat chunks).
Proof.
  intros V R A stop_of B K H1 H2 Hk chunks Hne Hs.
  destruct (run_acc_scan stop_of false B K (fun _ => H1) Hk (fuel_for chunks) ([], chunks) Hne (fuel_ok chunks))
    as (arrs & Er & Ec & Ea).
  exists arrs. split; [exact Er|]. split; [exact Ea|]. rewrite Ec. unfold flat. cbn [fst snd app].
  rewrite (scan_fresh_groups stop_of false K (fun _ => H1) Hk eq_refl).
  rewrite (groups_ref stop_of H1 H2) by exact Hs. reflexivity.
Qed.
Print Assumptions C20_pushdown_eq_reference_generic.

(** The five value types and count / sum / min / max / mean with a window. *)
Theorem C20_pushdown_eq_reference :
  forall (stop_of : Z -> Z) (B : N) (t : ty) (k : aggk) (chunks : list (list (Z * val))),
    (forall t, t < stop_of t) ->
    (forall t u, t <= u < stop_of t -> stop_of u = stop_of t) ->
    is_acc k = true -> Forall nonempty chunks -> time_sorted (concat chunks) ->
    exists arrs, run_model stop_of false B t k chunks = Some arrs
      /\ concat arrs = oracle stop_of false t k (concat chunks)
      /\ Forall nonempty arrs.
Proof. intros. apply pushdown_acc; assumption. Qed.
Print Assumptions C20_pushdown_eq_reference.

(** first with a window (timestamps within int64: the cursor starts with windowEnd = MinInt64). *)
Theorem C20_pushdown_first_eq_reference :
  forall (stop_of : Z -> Z) (B : N) (t : ty) (chunks : list (list (Z * val))),
    (forall t, t < stop_of t) ->
    (forall t u, t <= u < stop_of t -> stop_of u = stop_of t) ->
    Forall nonempty chunks -> time_sorted (concat chunks) ->
    (forall p, In p (concat chunks) -> MinI64 <= fst p) ->
    exists arrs, run_model stop_of false B t First chunks = Some arrs
      /\ concat arrs = oracle stop_of false t First (concat chunks).
Proof. intros. apply pushdown_first; assumption. Qed.
Print Assumptions C20_pushdown_first_eq_reference.

(** The whole-series request (zero window): one point at MaxInt64 = aggregate of everything
    (count/sum/min/max/mean, no order assumption); first = limit cursor = the first point;
    last = limit cursor over the descending cursor = the last point. *)
Theorem C20_whole_series_eq_aggregate :
  forall (stop_of : Z -> Z) (B : N) (t : ty) (k : aggk) (chunks : list (list (Z * val))),
    is_acc k = true -> Forall nonempty chunks ->
    exists arrs, run_model stop_of true B t k chunks = Some arrs
      /\ concat arrs = oracle stop_of true t k (concat chunks).
Proof. intros. apply pushdown_zero_acc; assumption. Qed.
Print Assumptions C20_whole_series_eq_aggregate.

Theorem C20_whole_series_first :
  forall (stop_of : Z -> Z) (B : N) (t : ty) (chunks : list (list (Z * val))),
    Forall nonempty chunks ->
    exists arrs, run_model stop_of true B t First chunks = Some arrs
      /\ concat arrs = oracle stop_of true t First (concat chunks).
Proof. intros. apply pushdown_zero_first; assumption. Qed.
Print Assumptions C20_whole_series_first.

Theorem C20_whole_series_last_descending :
  forall (stop_of : Z -> Z) (B : N) (t : ty) (chunks : list (list (Z * val))),
    Forall nonempty chunks ->
    exists arrs, run_model stop_of true B t Last (rev (map (@rev _) chunks)) = Some arrs
      /\ concat arrs = oracle stop_of true t Last (concat chunks).
Proof. intros. apply pushdown_zero_last; assumption. Qed.
Print Assumptions C20_whole_series_last_descending.

(** Non-vacuity of the window hypotheses: interval.Window with period = every > 0 ns and
    any offset (negative times and offsets included): stop = ((t-off) div every + 1)*every + off. *)
Theorem C20_ns_window_valid :
  forall every off, 0 < every ->
    (forall t, t < ns_stop every off t)
    /\ (forall t u, t <= u < ns_stop every off t -> ns_stop every off u = ns_stop every off t).
Proof. intros every off He. split; [intro t; apply ns_stop_gt; exact He|intros t u; apply ns_stop_same; exact He]. Qed.
Print Assumptions C20_ns_window_valid.

(** Calendar-month windows (every = n months, offset 0): the window function
    [month_start ((month_of t div n + 1) * n)] satisfies the window hypotheses for every
    calendar (month_of, month_start) whose month starts increase strictly and in which every
    instant lies in its month; with that, all theorems above apply to month windows.
    (The concrete Gregorian [month_of]/[month_start] of Model/C20.v are trusted to have these
    two properties: see [C20_month_calendar_samples] and the correspondence check.) *)
Theorem C20_month_window_valid :
  forall (month_of month_start : Z -> Z) (n : Z),
    0 < n ->
    (forall a b, a < b -> month_start a < month_start b) ->
    (forall t, month_start (month_of t) <= t < month_start (month_of t + 1)) ->
    (forall t, t < month_stop_gen month_of month_start n t)
    /\ (forall t u, t <= u < month_stop_gen month_of month_start n t ->
                    month_stop_gen month_of month_start n u = month_stop_gen month_of month_start n t).
Proof.
  intros mo ms n Hn Hs Hb. split.
  - intro t. apply month_stop_gt; assumption.
  - intros t u. apply month_stop_same; assumption.
Qed.
Print Assumptions C20_month_window_valid.

(** 2021-01-31T23:59:59.999999999Z -> 2021-02-01; 2021-02-01 -> 2021-03-01; leap day
    2020-02-29T12:00Z -> 2020-03-01; 1969-12-31 and -1ns -> 1970-01-01; quarter and year. *)
Example C20_month_calendar_samples :
  month_stop 1 1612137599999999999 = 1612137600000000000
  /\ month_stop 1 1612137600000000000 = 1614556800000000000
  /\ month_stop 1 1582977600000000000 = 1583020800000000000
  /\ month_stop 1 (-86400000000000) = 0 /\ month_stop 1 (-1) = 0
  /\ month_stop 3 1612137599999999999 = 1617235200000000000
  /\ month_stop 12 (-1) = 0 /\ month_start (-1) = -2678400000000000.
Proof. repeat split; vm_compute; reflexivity. Qed.

(** The instance the correspondence check evaluates: nanosecond windows, B = 1000. *)
Theorem C20_pushdown_ns :
  forall every off (t : ty) (k : aggk) (chunks : list (list (Z * val))),
    0 < every -> is_acc k = true -> Forall nonempty chunks -> time_sorted (concat chunks) ->
    exists arrs, run_model (ns_stop every off) false Bblock t k chunks = Some arrs
      /\ concat arrs = oracle (ns_stop every off) false t k (concat chunks)
      /\ Forall nonempty arrs.
Proof.
  intros every off t k chunks He. apply pushdown_acc.
  - intro x; apply ns_stop_gt; exact He.
  - intros x y; apply ns_stop_same; exact He.
Qed.
Print Assumptions C20_pushdown_ns.

(** last with a window (block size >= 1): the cursor never indexes res[-1], terminates, and
    yields the last point of every window. *)
Theorem C20_pushdown_last_eq_reference :
  forall (stop_of : Z -> Z) (B : N) (t : ty) (chunks : list (list (Z * val))),
    (forall t, t < stop_of t) ->
    (forall t u, t <= u < stop_of t -> stop_of u = stop_of t) ->
    (1 <= B)%N -> Forall nonempty chunks -> time_sorted (concat chunks) ->
    (forall p, In p (concat chunks) -> MinI64 <= fst p) ->
    exists arrs, run_model stop_of false B t Last chunks = Some arrs
      /\ concat arrs = oracle stop_of false t Last (concat chunks).
Proof. intros. apply pushdown_last; assumption. Qed.
Print Assumptions C20_pushdown_last_eq_reference.

(** Non-vacuity: a series over two arrays, block size 2: the sum cursor fills its block after
    two windows, carries the rest of the FIRST input array over in tmp, and continues; the
    concatenation is the per-window sum. *)
Example C20_nonvacuous :
  let chunks := [[(0, VI 1); (1, VI 2); (10, VI 3); (25, VI 9)]; [(26, VI 4); (30, VI 5); (47, VI 6)]] in
  run_model (ns_stop 10 0) false 2%N TInt Sum chunks
    = Some [[(10, VI 3); (20, VI 3)]; [(30, VI 13); (40, VI 5)]; [(50, VI 6)]]
  /\ oracle (ns_stop 10 0) false TInt Sum (concat chunks)
    = [(10, VI 3); (20, VI 3); (30, VI 13); (40, VI 5); (50, VI 6)].
Proof. split; vm_compute; reflexivity. Qed.
