(** C36 radix tree — order library on [bytes], prefix algebra ([has_prefix], [lcp]) and
    list lemmas about the abstract sorted map ([smap_*]). *)
From Verif Require Import Base.Prelude Model.C36_rhh Model.C36_radix.
From Coq Require Import Sorted.

(** ** equality *)
Lemma bytes_eqb_eq a b : bytes_eqb a b = true <-> a = b.
Proof. apply list_eqb_spec. intros; apply N.eqb_eq. Qed.

Lemma bytes_eqb_refl a : bytes_eqb a a = true.
Proof. apply bytes_eqb_eq; reflexivity. Qed.

Lemma bytes_eqb_neq a b : a <> b -> bytes_eqb a b = false.
Proof.
  intro H. destruct (bytes_eqb a b) eqn:E; [|reflexivity].
  apply bytes_eqb_eq in E. contradiction.
Qed.

(** ** the order [bytes_ltb] is a strict total order *)
Lemma bytes_ltb_irrefl a : bytes_ltb a a = false.
Proof. induction a as [|x a IH]; simpl; [reflexivity|]. rewrite N.ltb_irrefl. exact IH. Qed.

Lemma bytes_ltb_asym a b : bytes_ltb a b = true -> bytes_ltb b a = false.
Proof.
  revert b; induction a as [|x a IH]; intros [|y b]; simpl; try discriminate; auto.
  destruct (N.ltb_spec x y), (N.ltb_spec y x); try lia; try discriminate; auto.
Qed.

Lemma bytes_ltb_trans a b c :
  bytes_ltb a b = true -> bytes_ltb b c = true -> bytes_ltb a c = true.
Proof.
  revert b c; induction a as [|x a IH]; intros [|y b] [|z c]; simpl; try discriminate; auto.
  destruct (N.ltb_spec x y), (N.ltb_spec y x), (N.ltb_spec y z), (N.ltb_spec z y),
    (N.ltb_spec x z), (N.ltb_spec z x); try lia; try discriminate; auto.
  intros; eapply IH; eauto.
Qed.

Lemma bytes_ltb_total a b : bytes_ltb a b = true \/ a = b \/ bytes_ltb b a = true.
Proof.
  revert b; induction a as [|x a IH]; intros [|y b]; simpl; auto.
  destruct (N.ltb_spec x y), (N.ltb_spec y x); try lia; auto.
  assert (x = y) by lia; subst y.
  destruct (IH b) as [H1|[H1|H1]]; auto. subst; auto.
Qed.

Lemma bytes_ltb_neq a b : bytes_ltb a b = true -> a <> b.
Proof. intros H E; subst. rewrite bytes_ltb_irrefl in H; discriminate. Qed.

Lemma bytes_ltb_eqb_false a b : bytes_ltb a b = true -> bytes_eqb a b = false.
Proof. intro H. apply bytes_eqb_neq, bytes_ltb_neq, H. Qed.

Lemma bytes_ltb_eqb_false' a b : bytes_ltb a b = true -> bytes_eqb b a = false.
Proof. intro H. apply bytes_eqb_neq. intro E; symmetry in E; revert E. apply bytes_ltb_neq, H. Qed.

(** ** order and concatenation *)
Lemma bytes_ltb_app_l p a b : bytes_ltb (p ++ a) (p ++ b) = bytes_ltb a b.
Proof. induction p as [|x p IH]; simpl; [reflexivity|]. rewrite N.ltb_irrefl. exact IH. Qed.

(** a proper prefix is smaller *)
Lemma bytes_ltb_prefix p c r : bytes_ltb p (p ++ c :: r) = true.
Proof.
  rewrite <- (app_nil_r p) at 1. rewrite bytes_ltb_app_l. reflexivity.
Qed.

(** diverging after a common prefix *)
Lemma bytes_ltb_diverge p c1 c2 r1 r2 :
  (c1 < c2)%N -> bytes_ltb (p ++ c1 :: r1) (p ++ c2 :: r2) = true.
Proof.
  intro H. rewrite bytes_ltb_app_l. simpl. apply N.ltb_lt in H. rewrite H. reflexivity.
Qed.

(** ** [has_prefix] *)
Lemma has_prefix_spec s p : has_prefix s p = true <-> exists r, s = p ++ r.
Proof.
  revert s; induction p as [|y p IH]; intros s; simpl.
  - split; [intros _; exists s; reflexivity | intros _; destruct s; reflexivity].
  - destruct s as [|x s].
    + split; [discriminate | intros [r H]; discriminate].
    + simpl. rewrite andb_true_iff, N.eqb_eq, IH. split.
      * intros [-> [r ->]]; eauto.
      * intros [r H]; injection H as -> ->; eauto.
Qed.

Lemma has_prefix_app p r : has_prefix (p ++ r) p = true.
Proof. apply has_prefix_spec; eauto. Qed.

Lemma has_prefix_refl p : has_prefix p p = true.
Proof. apply has_prefix_spec; exists []; rewrite app_nil_r; reflexivity. Qed.

Lemma has_prefix_app_l p a b : has_prefix (p ++ a) (p ++ b) = has_prefix a b.
Proof. induction p as [|x p IH]; simpl; [reflexivity|]. rewrite N.eqb_refl. exact IH. Qed.

Lemma has_prefix_nil s : has_prefix s [] = true.
Proof. destruct s; reflexivity. Qed.

(** the key [p] itself does not have the strictly longer prefix [p ++ c :: r] *)
Lemma has_prefix_longer p c r : has_prefix p (p ++ c :: r) = false.
Proof.
  rewrite <- (app_nil_r p) at 1. rewrite has_prefix_app_l. reflexivity.
Qed.

(** keys under different labels *)
Lemma has_prefix_diverge p c1 c2 r1 r2 :
  c1 <> c2 -> has_prefix (p ++ c1 :: r1) (p ++ c2 :: r2) = false.
Proof.
  intro H. rewrite has_prefix_app_l. simpl.
  destruct (N.eqb_spec c1 c2); [contradiction | reflexivity].
Qed.

Lemma has_prefix_trans a b c :
  has_prefix a b = true -> has_prefix b c = true -> has_prefix a c = true.
Proof.
  rewrite !has_prefix_spec. intros [r1 ->] [r2 ->]. rewrite <- app_assoc; eauto.
Qed.

(** two prefixes of the same string are comparable *)
Lemma has_prefix_comparable a r b :
  has_prefix (a ++ r) b = true -> has_prefix a b = true \/ has_prefix b a = true.
Proof.
  revert b; induction a as [|x a IH]; intros b H.
  - right. apply has_prefix_nil.
  - destruct b as [|y b]; [left; reflexivity|].
    simpl in *. apply andb_true_iff in H as [H1 H2].
    apply N.eqb_eq in H1; subst y. rewrite N.eqb_refl. simpl.
    apply IH, H2.
Qed.

Lemma has_prefix_length s p : has_prefix s p = true -> (length p <= length s)%nat.
Proof. intro H; apply has_prefix_spec in H as [r ->]. rewrite app_length; lia. Qed.

Lemma has_prefix_antisym a b : has_prefix a b = true -> (length a <= length b)%nat -> a = b.
Proof.
  intros H L. apply has_prefix_spec in H as [r ->].
  rewrite app_length in L. destruct r; [rewrite app_nil_r; reflexivity | simpl in L; lia].
Qed.

Lemma skipn_app_exact {A} (p r : list A) : skipn (length p) (p ++ r) = r.
Proof. induction p; simpl; auto. Qed.

(** ** [lcp] *)
Lemma lcp_full a b : Nat.eqb (lcp a b) (length b) = has_prefix a b.
Proof.
  revert b; induction a as [|x a IH]; intros [|y b]; simpl; auto.
  destruct (N.eqb x y); simpl; auto.
Qed.

(** the split point when [b] is not a prefix of [a] *)
Lemma lcp_split a b :
  Nat.eqb (lcp a b) (length b) = false ->
  exists q x b',
    firstn (lcp a b) a = q /\ b = q ++ x :: b' /\ skipn (lcp a b) b = x :: b'
    /\ nth (lcp a b) b 0%N = x /\ a = q ++ skipn (lcp a b) a
    /\ (forall c' r, skipn (lcp a b) a = c' :: r -> c' <> x).
Proof.
  revert b; induction a as [|x a IH]; intros [|y b]; simpl; try discriminate.
  - intros _. exists [], y, b. repeat split; auto. discriminate.
  - destruct (N.eqb_spec x y) as [->|NE].
    + simpl. intro H. destruct (IH b H) as (q & z & b' & H1 & H2 & H3 & H4 & H5 & H6).
      exists (y :: q), z, b'. repeat split; simpl; try congruence. exact H6.
    + intros _. exists [], y, b. repeat split; auto.
      intros c' r E. injection E as <- _. exact NE.
Qed.

(** ** lists of bindings: predicates on the keys *)
Definition kall (P : bytes -> Prop) (L : list (bytes * Z)) : Prop :=
  Forall (fun kv => P (fst kv)) L.

Lemma kall_nil (P : bytes -> Prop) : kall P []. Proof. constructor. Qed.
Lemma kall_cons (P : bytes -> Prop) k v L : P k -> kall P L -> kall P ((k, v) :: L).
Proof. intros; constructor; auto. Qed.
Lemma kall_app (P : bytes -> Prop) L1 L2 : kall P L1 -> kall P L2 -> kall P (L1 ++ L2).
Proof. intros; apply Forall_app; auto. Qed.
Lemma kall_impl (P Q : bytes -> Prop) L : (forall k, P k -> Q k) -> kall P L -> kall Q L.
Proof. intros H; apply Forall_impl; intros; auto. Qed.
Lemma kall_in (P : bytes -> Prop) L x : kall P L -> In x L -> P (fst x).
Proof. intros H I. unfold kall in H. rewrite Forall_forall in H. auto. Qed.

(** ** [smap_get] *)
Lemma smap_get_none k L : kall (fun k' => k' <> k) L -> smap_get k L = None.
Proof.
  induction 1 as [|[k' v'] L H _ IH]; simpl; [reflexivity|].
  simpl in H. rewrite bytes_eqb_neq by exact H. exact IH.
Qed.

Lemma smap_get_app k L1 L2 :
  smap_get k (L1 ++ L2) =
  match smap_get k L1 with Some v => Some v | None => smap_get k L2 end.
Proof.
  induction L1 as [|[k' v'] L1 IH]; simpl; [reflexivity|].
  destruct (bytes_eqb k' k); auto.
Qed.

(** ** [smap_insert] *)
Lemma smap_insert_front k v L : kall (fun k' => bytes_ltb k k' = true) L -> smap_insert k v L = (k, v) :: L.
Proof.
  destruct 1 as [|[k' v'] L H _]; simpl; [reflexivity|].
  simpl in H. rewrite (bytes_ltb_eqb_false' _ _ H), (bytes_ltb_asym _ _ H). reflexivity.
Qed.

Lemma smap_insert_skip k v L1 L2 :
  kall (fun k' => bytes_ltb k' k = true) L1 ->
  smap_insert k v (L1 ++ L2) = L1 ++ smap_insert k v L2.
Proof.
  induction 1 as [|[k' v'] L1 H _ IH]; simpl; [reflexivity|].
  simpl in H. rewrite (bytes_ltb_eqb_false _ _ H), H, IH. reflexivity.
Qed.

Lemma smap_insert_app_l k v L1 L2 :
  kall (fun k' => bytes_ltb k k' = true) L2 ->
  smap_insert k v (L1 ++ L2) = smap_insert k v L1 ++ L2.
Proof.
  intro H. induction L1 as [|[k' v'] L1 IH]; simpl.
  - apply smap_insert_front, H.
  - destruct (bytes_eqb k' k); [reflexivity|].
    destruct (bytes_ltb k' k); [|reflexivity].
    rewrite IH. reflexivity.
Qed.

(** ** [smap_delete_prefix] *)
Lemma smap_delete_prefix_app p L1 L2 :
  smap_delete_prefix p (L1 ++ L2) = smap_delete_prefix p L1 ++ smap_delete_prefix p L2.
Proof. apply filter_app. Qed.

Lemma smap_delete_prefix_all p L :
  kall (fun k => has_prefix k p = true) L -> smap_delete_prefix p L = [].
Proof.
  induction 1 as [|[k v] L H _ IH]; simpl; [reflexivity|].
  simpl in H. rewrite H. simpl. exact IH.
Qed.

Lemma smap_delete_prefix_none p L :
  kall (fun k => has_prefix k p = false) L -> smap_delete_prefix p L = L.
Proof.
  induction 1 as [|[k v] L H _ IH]; simpl; [reflexivity|].
  simpl in H. rewrite H. simpl. f_equal. exact IH.
Qed.

(** ** sortedness of the keys *)
Definition keys_sorted (a : list (bytes * Z)) : Prop :=
  StronglySorted (fun x y => bytes_ltb x y = true) (map fst a).

Lemma keys_sorted_nil : keys_sorted []. Proof. constructor. Qed.

Lemma keys_sorted_cons k v L :
  kall (fun k' => bytes_ltb k k' = true) L -> keys_sorted L -> keys_sorted ((k, v) :: L).
Proof.
  intros H S. unfold keys_sorted; simpl. constructor; [exact S|].
  unfold kall in H. rewrite Forall_forall in *. intros x I.
  apply in_map_iff in I as [[k' v'] [<- I]]. apply (H _ I).
Qed.

Lemma keys_sorted_app L1 L2 :
  keys_sorted L1 -> keys_sorted L2 ->
  (forall x y, In x L1 -> In y L2 -> bytes_ltb (fst x) (fst y) = true) ->
  keys_sorted (L1 ++ L2).
Proof.
  unfold keys_sorted. intros S1 S2 H. rewrite map_app.
  induction L1 as [|[k v] L1 IH]; simpl in *; [exact S2|].
  inversion S1 as [|? ? S1' F1]; subst.
  constructor.
  - apply IH; auto.
  - apply Forall_app; split; [exact F1|].
    rewrite Forall_forall. intros x I. apply in_map_iff in I as [y [<- I]].
    apply (H (k, v) y); auto.
Qed.

Lemma smap_insert_length k v L :
  keys_sorted L ->
  length (smap_insert k v L) =
  match smap_get k L with Some _ => length L | None => S (length L) end.
Proof.
  induction L as [|[k' v'] L IH]; intro S; simpl; [reflexivity|].
  unfold keys_sorted in S; simpl in S. inversion S as [|? ? S' F]; subst.
  destruct (bytes_eqb k' k) eqn:E; [reflexivity|].
  destruct (bytes_ltb k' k) eqn:E2; simpl.
  - rewrite (IH S'). destruct (smap_get k L); reflexivity.
  - rewrite smap_get_none; [reflexivity|].
    unfold kall. rewrite Forall_forall in *. intros [k2 v2] I; simpl.
    assert (H2 : bytes_ltb k' k2 = true) by (apply F, in_map_iff; exists (k2, v2); auto).
    destruct (bytes_ltb_total k' k) as [H|[H|H]]; [congruence| |].
    + subst. rewrite bytes_eqb_refl in E; discriminate.
    + apply not_eq_sym, bytes_ltb_neq. eapply bytes_ltb_trans; eauto.
Qed.

