(** C37 — part 1: sortedness basics, the split of a sorted array at a bound, and the
    binary search ([search a v] = number of elements strictly below [v]). *)
From Coq Require Import ZifyBool.
From Verif Require Import Base.Prelude Model.C37.
Local Open Scope Z_scope.

Section Proofs.
  Context {V : Type}.
  Notation arr := (arr V).
  Implicit Types (a b l : arr) (p q : Z * V).

  (** weak sortedness is enough for everything about [search] *)
  Fixpoint wsorted (l : arr) : Prop :=
    match l with
    | [] => True
    | p :: r => Forall (fun q => tm p <= tm q) r /\ wsorted r
    end.

  Lemma ssorted_wsorted l : ssorted l -> wsorted l.
  Proof.
    induction l as [|p r IH]; cbn; auto. intros [H1 H2]. split; auto.
    eapply Forall_impl; [|exact H1]. cbn. intros; lia.
  Qed.

  Lemma ssorted_tail p l : ssorted (p :: l) -> ssorted l.
  Proof. cbn. tauto. Qed.

  Lemma ssorted_from_b_spec l : forall prev,
    ssorted_from_b prev l = true <-> (Forall (fun q => prev < tm q) l /\ ssorted l).
  Proof.
    induction l as [|p r IH]; intros prev; cbn.
    - split; auto.
    - rewrite andb_true_iff, Z.ltb_lt, IH. split.
      + intros [H1 [H2 H3]]. repeat split; auto. constructor; auto.
        eapply Forall_impl; [|exact H2]. cbn; intros; lia.
      + intros [H1 [H2 H3]]. inversion H1; subst. auto.
  Qed.

  Lemma ssorted_b_spec l : ssorted_b l = true <-> ssorted l.
  Proof.
    destruct l as [|p r]; cbn; [tauto|]. apply ssorted_from_b_spec.
  Qed.

  Lemma ssorted_app l1 l2 :
    ssorted l1 -> ssorted l2 ->
    (forall p q, In p l1 -> In q l2 -> tm p < tm q) -> ssorted (l1 ++ l2).
  Proof.
    induction l1 as [|x r IH]; cbn; auto. intros [H1 H2] H3 H4. split.
    - apply Forall_app. split; auto. apply Forall_forall. intros q Hq. apply H4; auto.
    - apply IH; auto.
  Qed.

  (** *** filters of a sorted array at a bound *)
  Definition below (v : Z) p : bool := tm p <? v.
  Definition notbelow (v : Z) p : bool := negb (tm p <? v).

  Lemma filter_all_false (f : Z * V -> bool) l :
    Forall (fun q => f q = false) l -> filter f l = [].
  Proof. induction 1 as [|q r Hq _ IH]; cbn; [|rewrite Hq]; auto. Qed.

  Lemma filter_all_true (f : Z * V -> bool) l :
    Forall (fun q => f q = true) l -> filter f l = l.
  Proof. induction 1 as [|q r Hq _ IH]; cbn; [|rewrite Hq, IH]; auto. Qed.

  Lemma wsorted_split l v : wsorted l -> l = filter (below v) l ++ filter (notbelow v) l.
  Proof.
    induction l as [|p r IH]; cbn; auto. intros [H1 H2].
    unfold below at 1, notbelow at 1. destruct (tm p <? v) eqn:E; cbn.
    - f_equal. apply IH; auto.
    - rewrite filter_all_false, filter_all_true; auto.
      + eapply Forall_impl; [|exact H1]. unfold notbelow; cbn; intros; lia.
      + eapply Forall_impl; [|exact H1]. unfold below; cbn; intros; lia.
  Qed.

  Lemma In_below v l x : In x (filter (below v) l) -> tm x < v.
  Proof. intro H. apply filter_In in H as [_ H]. unfold below in H. lia. Qed.
  Lemma In_notbelow v l x : In x (filter (notbelow v) l) -> v <= tm x.
  Proof. intro H. apply filter_In in H as [_ H]. unfold notbelow in H. lia. Qed.

  Lemma count_lt_len v l : count_lt v l = length (filter (below v) l).
  Proof. reflexivity. Qed.

  Lemma count_lt_le v l : (count_lt v l <= length l)%nat.
  Proof.
    unfold count_lt. induction l as [|p r IH]; cbn; auto. destruct (tm p <? v); cbn; lia.
  Qed.

  Lemma firstn_count_lt l v : wsorted l -> firstn (count_lt v l) l = filter (below v) l.
  Proof.
    intro H. rewrite (wsorted_split l v H) at 2. rewrite count_lt_len.
    rewrite firstn_app, firstn_all, Nat.sub_diag. cbn. apply app_nil_r.
  Qed.

  Lemma skipn_count_lt l v : wsorted l -> skipn (count_lt v l) l = filter (notbelow v) l.
  Proof.
    intro H. rewrite (wsorted_split l v H) at 2. rewrite count_lt_len.
    rewrite skipn_app, skipn_all, Nat.sub_diag. reflexivity.
  Qed.

  Lemma ts_at_nth a i d : (i < length a)%nat -> ts_at a i = tm (nth i a d).
  Proof.
    intro H. unfold ts_at, times. rewrite (nth_indep _ 0 (fst d)) by (rewrite map_length; auto).
    apply map_nth.
  Qed.

  (** position vs. bound in a sorted array *)
  Lemma ts_at_lt_iff l v i : wsorted l -> (i < length l)%nat ->
    (ts_at l i < v <-> (i < count_lt v l)%nat).
  Proof.
    intros Hs Hi. destruct l as [|d r] eqn:El; [cbn in Hi; lia|]. rewrite <- El in *.
    rewrite (ts_at_nth l i d Hi).
    assert (Hsp := wsorted_split l v Hs).
    assert (Hlen : length l = (count_lt v l + length (filter (notbelow v) l))%nat).
    { rewrite Hsp at 1. rewrite app_length. reflexivity. }
    destruct (Nat.lt_ge_cases i (count_lt v l)) as [Hlt | Hge].
    - split; auto. intros _. rewrite Hsp, app_nth1 by (rewrite <- count_lt_len; auto).
      assert (Hin : In (nth i (filter (below v) l) d) (filter (below v) l)).
      { apply nth_In. rewrite <- count_lt_len; auto. }
      apply In_below in Hin. exact Hin.
    - split; [|lia]. intro Hc. exfalso. rewrite Hsp in Hc.
      rewrite app_nth2 in Hc by (rewrite <- count_lt_len; auto).
      rewrite <- count_lt_len in Hc.
      assert (Hin : In (nth (i - count_lt v l) (filter (notbelow v) l) d) (filter (notbelow v) l)).
      { apply nth_In. lia. }
      apply In_notbelow in Hin. lia.
  Qed.

  Lemma div2_mid lo hi : (lo < hi)%nat -> (lo <= Nat.div2 (lo + hi) < hi)%nat.
  Proof.
    intro H. rewrite Nat.div2_div.
    assert (lo + hi = 2 * ((lo + hi) / 2) + (lo + hi) mod 2)%nat by (apply Nat.div_mod; lia).
    assert ((lo + hi) mod 2 < 2)%nat by (apply Nat.mod_upper_bound; lia).
    lia.
  Qed.

  (** the loop invariant [lo <= count_lt v a <= hi]; fuel >= hi - lo is enough *)
  Lemma search_loop_spec a v : wsorted a -> forall fuel lo hi,
    (hi - lo <= fuel)%nat -> (lo <= count_lt v a <= hi)%nat -> (hi <= length a)%nat ->
    search_loop fuel a v lo hi = count_lt v a.
  Proof.
    intros Hs. induction fuel as [|f IH]; intros lo hi Hf Hinv Hhi; cbn [search_loop].
    - lia.
    - destruct (lo <? hi)%nat eqn:E.
      + apply Nat.ltb_lt in E. pose proof (div2_mid lo hi E) as Hm.
        set (mid := Nat.div2 (lo + hi)) in *.
        assert (Hml : (mid < length a)%nat) by lia.
        pose proof (ts_at_lt_iff a v mid Hs Hml) as Hiff.
        destruct (ts_at a mid <? v) eqn:E2.
        * apply Z.ltb_lt in E2. apply Hiff in E2. apply IH; lia.
        * apply Z.ltb_ge in E2.
          assert (~ (mid < count_lt v a)%nat) by (intro Hc; apply Hiff in Hc; lia).
          apply IH; lia.
      + apply Nat.ltb_ge in E. lia.
  Qed.

  Lemma search_is_count a v : wsorted a -> search a v = count_lt v a.
  Proof.
    intro Hs. unfold search. apply search_loop_spec; auto; try lia.
    pose proof (count_lt_le v a). lia.
  Qed.

  (** more fuel never changes the result *)
  Lemma search_fuel_enough a v fuel : wsorted a -> (length a <= fuel)%nat ->
    search_loop fuel a v 0 (length a) = search a v.
  Proof.
    intros Hs Hf. rewrite search_is_count by auto. apply search_loop_spec; auto; try lia.
    pose proof (count_lt_le v a). lia.
  Qed.

  (** first / last element of a sorted array bound all the others *)
  Lemma min_time_le a : wsorted a -> Forall (fun q => min_time a <= tm q) a.
  Proof.
    destruct a as [|p r]; cbn; auto. intros [H1 _]. constructor; [unfold min_time; cbn; unfold tm; lia|].
    exact H1.
  Qed.

  Lemma max_time_ge a : wsorted a -> Forall (fun q => tm q <= max_time a) a.
  Proof.
    unfold max_time, times. induction a as [|p r IH]; auto. intros [H1 H2].
    destruct r as [|p2 r2].
    - constructor; auto. cbn. unfold tm; lia.
    - specialize (IH H2). change (last (map fst (p :: p2 :: r2)) 0) with (last (map fst (p2 :: r2)) 0).
      constructor; auto. inversion IH; subst. inversion H1; subst. lia.
  Qed.

  Lemma min_time_in a : a <> [] -> exists p, In p a /\ tm p = min_time a.
  Proof. destruct a as [|p r]; [congruence|]. intros _. exists p. cbn; auto. Qed.

  Lemma max_time_in a : a <> [] -> exists p, In p a /\ tm p = max_time a.
  Proof.
    unfold max_time, times. induction a as [|p r IH]; [congruence|]. intros _.
    destruct r as [|p2 r2].
    - exists p. cbn; auto.
    - destruct IH as [q [Hq1 Hq2]]; [congruence|]. exists q. split; [right; auto|].
      rewrite Hq2. reflexivity.
  Qed.
End Proofs.
