(** C40 — Partial writes store exactly the accepted points.  Property theorems only. *)
From Verif Require Import Base.Prelude Model.C10 Model.C40 Proofs.C10 Proofs.C40.

(** (1) dropped_count — what the code reports, for EVERY batch, schema and store: unless the
    engine reports a conflict (error class 2), Dropped = |batch| - |accepted| where [accepted]
    is decided from the batch and the schema after the write alone (key has no tag time, key
    is valid unicode if ValidateKeys, the point has a field other than time, no oversize
    string, every field has the schema's type); the error is a PartialWriteError iff
    Dropped > 0 or a field named time was "stripped" from an accepted point. *)
Theorem C40_dropped_count :
  forall vk e batch e' err dr, write_points vk e batch = (e', err, dr) -> err <> 2%N ->
    dr = N.of_nat (length batch - length (accepted vk (e_schema e') batch)) /\
    (err = 1%N <-> (0 < dr)%N \/
       (dr = 0%N /\ snd (validate_points (e_schema e) (map to_w (filter (key_ok vk) batch))) = true)).
Proof. exact dropped_count. Qed.
Print Assumptions C40_dropped_count.

(** The engine is handed exactly the accepted points, in batch order; no stored field type
    changes (schema side effect: fields of a later-rejected point that precede its rejecting
    field ARE created — see C40_schema_side_effect). *)
Theorem C40_engine_gets_exactly_accepted :
  forall vk s batch sch cr acc d2 st,
    validate_points s (map to_w (filter (key_ok vk) batch)) = (sch, cr, acc, d2, st) ->
    ext s sch /\ acc = map to_w (accepted vk sch batch) /\
    (N.of_nat (length batch - length (filter (key_ok vk) batch)) + d2)%N
      = N.of_nat (length batch - length (accepted vk sch batch)).
Proof. exact engine_gets_accepted. Qed.
Print Assumptions C40_engine_gets_exactly_accepted.

(** (2) accepted_stored_rejected_not, FULL statement: for every history of batches from the
    empty shard and every further batch (any mix of rejection reasons, also fields named time):
    the engine reports no conflict; cache and WAL afterwards are exactly the previous content
    plus the non-time fields of exactly the accepted points — nothing of a rejected point and
    nothing of a field named time is stored. *)
Theorem C40_accepted_stored_rejected_not :
  forall vk bs batch e' err dr,
    write_points vk (run_batches vk estate0 bs) batch = (e', err, dr) ->
    let e := run_batches vk estate0 bs in
    let acc := accepted vk (e_schema e') batch in
    err <> 2%N /\ e_cache e' = spec_store (e_cache e) acc /\ e_wal e' = spec_store (e_wal e) acc.
Proof. exact accepted_stored_history. Qed.
Print Assumptions C40_accepted_stored_rejected_not.

(** The one-step form on any store whose cached value types agree with the schema (the
    invariant is re-established). *)
Theorem C40_accepted_stored_step :
  forall vk e batch e' err dr, write_points vk e batch = (e', err, dr) ->
    store_typed (e_schema e) (e_cache e) ->
    let acc := accepted vk (e_schema e') batch in
    err <> 2%N /\
    e_cache e' = spec_store (e_cache e) acc /\ e_wal e' = spec_store (e_wal e) acc /\
    store_typed (e_schema e') (e_cache e').
Proof. exact accepted_stored. Qed.
Print Assumptions C40_accepted_stored_step.

(** Former finding time-field-written (DESIGN candidate F13), repaired in
    Engine.WritePoints (a field named time is skipped): the former counterexamples are now
    positive examples.  [m0,s=0 a=1.5,time=7i] is accepted with PartialWriteError{Dropped:0}
    and nothing is stored under m0,s=0#!~#time; a later batch carrying time with another type
    is an ordinary (partial, Dropped 0) success and its points are durable. *)
Definition nm0 : name := [109; 48]%N.
Definition nfa : name := [97]%N.
Definition mkp (s : N) (t : Z) (fs : list pfield) : bpoint :=
  {| b_meas := nm0; b_series := s; b_timetag := false; b_badkey := false; b_time := t; b_fields := fs |}.
Definition fld (k : name) (ty : N) (v : Z) : pfield := {| f_key := k; f_type := ty; f_big := false; f_val := v |}.
Definition wit1 : list bpoint := [mkp 0 1 [fld nfa 1 1; fld TIME 2 7]].
Definition wit2 : list bpoint := [mkp 0 2 [fld nfa 1 2; fld TIME 1 8]; mkp 1 2 [fld nfa 1 3]].

Example C40_time_field_not_stored :
  let '(e', err, dr) := write_points false estate0 wit1 in
    err = 1%N /\ dr = 0%N /\ accepted false (e_schema e') wit1 = wit1 /\
    slookup (nm0, 0%N, TIME) (e_cache e') = None /\
    slookup (nm0, 0%N, nfa) (e_cache e') = Some (1%N, [(1%Z, 1%Z)]).
Proof. vm_compute. repeat split. Qed.

Example C40_time_field_other_type_is_harmless :
  let e1 := fst (fst (write_points false estate0 wit1)) in
  let '(e', err, dr) := write_points false e1 wit2 in
    err = 1%N /\ dr = 0%N /\
    slookup (nm0, 1%N, nfa) (e_cache e') = Some (1%N, [(2%Z, 3%Z)]) /\
    slookup (nm0, 1%N, nfa) (e_cache (reopen e')) = Some (1%N, [(2%Z, 3%Z)]).
Proof. vm_compute. repeat split. Qed.

(** (3) schema side effect, documented: a point rejected at its second field has created its
    first field; a later point with another type for that field is rejected because of it. *)
Example C40_schema_side_effect :
  let e1 := fst (fst (write_points false estate0 [mkp 0 1 [fld [98]%N 1 1]])) in
  let '(e2, err, dr) := write_points false e1 [mkp 0 2 [fld nfa 2 1; fld [98]%N 2 2]; mkp 1 2 [fld nfa 1 3]] in
  (err, dr) = (1%N, 2%N) /\ ftype (e_schema e2) nm0 nfa = Some 2%N /\ e_cache e2 = e_cache e1.
Proof. vm_compute. repeat split. Qed.

(** Non-vacuity: a genuinely partial batch on a typed store satisfies the hypotheses of (2). *)
Example C40_nonvacuous :
  let e1 := fst (fst (write_points true estate0 [mkp 0 1 [fld nfa 1 1]])) in
  let batch := [mkp 0 2 [fld nfa 1 2]; mkp 1 2 [fld nfa 2 3]; mkp 1 3 [fld nfa 1 4]] in
  let '(e2, err, dr) := write_points true e1 batch in
  (err, dr) = (1%N, 1%N) /\ length (accepted true (e_schema e2) batch) = 2 /\
  slookup (nm0, 1%N, nfa) (e_cache e2) = Some (1%N, [(3%Z, 4%Z)]).
Proof. vm_compute. repeat split. Qed.
