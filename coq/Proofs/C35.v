(** C35 — the sketch-level theorems with the interface discharged by the bit-level and codec
    lemmas of [Proofs/C35_bits.v] and [Proofs/C35_codec.v]: premise-free statements. *)
From Verif Require Import Base.Prelude Model.C35.
From Verif Require Import Proofs.C35_bits Proofs.C35_codec.
From Verif Require Import Proofs.C35_regs.
Local Open Scope N_scope.

Lemma real_asc_nil : forall lo, C35_codec.ascending lo [] <-> True.
Proof. intro lo. reflexivity. Qed.

Lemma real_asc_cons : forall lo x r,
  C35_codec.ascending lo (x :: r) <-> lo <= x /\ x < two32 /\ C35_codec.ascending (x + 1) r.
Proof. intros lo x r. reflexivity. Qed.

Definition real_iface : iface :=
  {| i_ascending := C35_codec.ascending;
     i_asc_nil := real_asc_nil;
     i_asc_cons := real_asc_cons;
     i_decode_encode := C35_bits.decode_encode;
     i_encode_lt := C35_bits.encode_lt;
     i_cl_keys_of_keys := C35_codec.cl_keys_of_keys;
     i_rd32_be32 := C35_codec.rd32_be32;
     i_be32_length := C35_codec.be32_length |}.

(** the invariant is stated with a local copy [asc] of [C35_codec.ascending] *)
Lemma asc_ascending lo l : asc lo l <-> C35_codec.ascending lo l.
Proof. symmetry. exact (i_asc_iff real_iface l lo). Qed.

Definition zeros := C35_regs_base.zeros.

(** * 1. zip_max algebra (no premises; restated for reference) *)
Definition zip_max_comm := C35_regs_base.zip_max_comm.
Definition zip_max_assoc := C35_regs_base.zip_max_assoc.
Definition zip_max_idem := C35_regs_base.zip_max_idem.
Definition zip_max_length := C35_regs_base.zip_max_length.

(** * 2. well-formedness is preserved *)
Lemma wf_new p s : k_new p = Some s -> wf s.
Proof. exact (C35_regs_wf.wf_new p s). Qed.

Lemma wf_add s x : wf s -> x < two64 -> wf (k_add s x).
Proof. exact (C35_regs_wf.wf_add real_iface s x). Qed.

Lemma wf_merge a b c : wf a -> wf b -> k_merge a b = Some c -> wf c.
Proof. exact (C35_regs_merge.wf_merge real_iface a b c). Qed.

Lemma wf_touch s : wf s -> wf (count_touch s).
Proof. exact (C35_regs_wf.wf_touch real_iface s). Qed.

Lemma wf_adds xs s : wf s -> Forall (fun x => x < two64) xs -> wf (fold_left k_add xs s).
Proof. exact (C35_regs_merge.wf_adds real_iface xs s). Qed.

(** [wf] spelled out with the codec's [ascending] *)
Lemma wf_unfold s : wf s <->
  4 <= k_p s /\ k_p s <= 18 /\
  if k_sparse s then
    C35_codec.ascending 0 (k_tmp s) /\
    (exists l, C35_codec.ascending 0 l /\ k_cl s = cl_of_keys l) /\ k_dense s = [] /\
    cl_count (k_cl s) + N.of_nat (length (k_tmp s)) <= 2 * 2 ^ k_p s
  else length (k_dense s) = N.to_nat (2 ^ k_p s) /\ k_tmp s = [] /\ k_cl s = cl_empty.
Proof.
  unfold wf, wfs. destruct (k_sparse s).
  - split.
    + intros ((A & B & C1 & (l & C2 & C3) & C4) & D). split; [exact A|]. split; [exact B|].
      split; [apply asc_ascending; exact C1|].
      split; [exists l; split; [apply asc_ascending; exact C2|exact C3]|].
      split; [exact C4|exact (D eq_refl)].
    + intros (A & B & C1 & (l & C2 & C3) & C4 & D). split; [|intros _; exact D].
      split; [exact A|]. split; [exact B|]. split; [apply asc_ascending; exact C1|].
      split; [exists l; split; [apply asc_ascending; exact C2|exact C3]|exact C4].
  - split.
    + intros (H & _). exact H.
    + intros H. split; [exact H|discriminate].
Qed.

Lemma wf_reachable p s0 xs : k_new p = Some s0 -> Forall (fun x => x < two64) xs ->
  wf (fold_left k_add xs s0).
Proof. intros E F. apply wf_adds; [eapply wf_new; exact E|exact F]. Qed.

(** * 3. merge is the register-wise maximum *)
Lemma regs_merge_max a b : wf a -> wf b -> k_p a = k_p b ->
  exists c, k_merge a b = Some c /\ regs c = zip_max (regs a) (regs b).
Proof. exact (C35_regs_merge.regs_merge_max real_iface a b). Qed.

Lemma merge_precision_mismatch a b : k_p a <> k_p b -> k_merge a b = None.
Proof. exact (C35_regs_merge.k_merge_none a b). Qed.

Lemma merge_comm_regs a b : wf a -> wf b -> k_p a = k_p b ->
  exists c1 c2, k_merge a b = Some c1 /\ k_merge b a = Some c2 /\ regs c1 = regs c2.
Proof. exact (C35_regs_merge.merge_comm_regs real_iface a b). Qed.

Lemma merge_assoc_regs a b c : wf a -> wf b -> wf c -> k_p a = k_p b -> k_p b = k_p c ->
  exists ab abc bc abc',
    k_merge a b = Some ab /\ k_merge ab c = Some abc /\
    k_merge b c = Some bc /\ k_merge a bc = Some abc' /\ regs abc = regs abc'.
Proof. exact (C35_regs_merge.merge_assoc_regs real_iface a b c). Qed.

Lemma merge_idem_regs a : wf a -> exists c, k_merge a a = Some c /\ regs c = regs a.
Proof. exact (C35_regs_merge.merge_idem_regs real_iface a). Qed.

(** * 4./5. the sketch of a list of hashes; merged sketch = sketch of the union *)
Lemma regs_add s x : wf s -> x < two64 ->
  regs (k_add s x) = reg_update (regs s) (N.to_nat (dense_index (k_p s) x)) (dense_rho (k_p s) x).
Proof. intros W. exact (C35_regs_wf.regs_add real_iface s x (wf_wfs s W)). Qed.

Lemma regs_of_list_gen s0 ys xs : wf s0 -> Forall (fun x => x < two64) xs ->
  regs s0 = spec_regs (k_p s0) ys ->
  regs (fold_left k_add xs s0) = spec_regs (k_p s0) (ys ++ xs).
Proof. intros W. exact (C35_regs_merge.regs_of_list_gen real_iface s0 ys xs (wf_wfs s0 W)). Qed.

Lemma regs_of_list p s0 xs : k_new p = Some s0 -> Forall (fun x => x < two64) xs ->
  regs (fold_left k_add xs s0) = spec_regs p xs.
Proof. exact (C35_regs_merge.regs_of_list real_iface p s0 xs). Qed.

Lemma regs_of_union p s0 xs ys : k_new p = Some s0 ->
  Forall (fun x => x < two64) xs -> Forall (fun x => x < two64) ys ->
  exists c, k_merge (fold_left k_add xs s0) (fold_left k_add ys s0) = Some c /\
            regs c = spec_regs p (xs ++ ys) /\
            regs c = regs (fold_left k_add (xs ++ ys) s0).
Proof. exact (C35_regs_merge.regs_of_union real_iface p s0 xs ys). Qed.

(** * 6. marshal / unmarshal *)
Lemma marshal_roundtrip s : wf s -> k_unmarshal (k_marshal s) = Some (count_touch s).
Proof. exact (C35_regs_marshal.marshal_roundtrip real_iface s). Qed.

Lemma marshal_roundtrip_obs s : wf s ->
  exists s', k_unmarshal (k_marshal s) = Some s' /\ wf s' /\
             k_p s' = k_p s /\ k_sparse s' = k_sparse s /\ regs s' = regs s /\
             count_obs s' = count_obs s.
Proof. exact (C35_regs_marshal.marshal_roundtrip_obs real_iface s). Qed.

Lemma regs_touch s : wf s -> regs (count_touch s) = regs s.
Proof. intro W. exact (C35_regs_wf.regs_touch real_iface s (wf_wfs s W)). Qed.

(** * 7. every history passes the oracle *)
Lemma history_oracle ops : Forall hashes_ok ops ->
  o_check (repeat None nvars) ops (k_run sregs0 ops) = true.
Proof. exact (C35_regs_hist.history_oracle real_iface ops). Qed.

Print Assumptions history_oracle.
Print Assumptions marshal_roundtrip.
Print Assumptions regs_of_union.
Print Assumptions merge_assoc_regs.
