(** C09 — Cache behaves as a size-bounded newest-wins map.  Property theorems only.
    All statements are about the sequential model [Model/C09.v] (a mirror of
    cache.go/ring.go tied to the real code by harness/cmd/c09) and quantify over
    ALL operation histories / states, without bounds.  The "under concurrency" part
    of the property is not a theorem: it is covered by the driver's linearisability
    search over executed concurrent histories (see checks/C09.json). *)
From Verif Require Import Base.Prelude Model.C09 Proofs.C09 Proofs.C09_values.
Local Open Scope Z_scope.

(** ** Limit: a write that would exceed the limit is rejected, nothing is stored *)
Theorem C09_limit_rejects_atomically :
  forall s b, over_limit s b = true -> step s (OWrite b) = (s, RLimit).
Proof. intros s b H. cbn. apply write_multi_over. exact H. Qed.
Print Assumptions C09_limit_rejects_atomically.

Theorem C09_limit_error_iff_over_and_state_unchanged :
  forall s b,
    (snd (step s (OWrite b)) = RLimit <-> over_limit s b = true) /\
    (snd (step s (OWrite b)) = RLimit -> fst (step s (OWrite b)) = s).
Proof. intros s b. cbn. split; [apply write_multi_limit_iff | apply write_multi_limit_unchanged]. Qed.
Print Assumptions C09_limit_error_iff_over_and_state_unchanged.

(** ** Size accounting.
    FULL statement demanded by the property (REFUTED below):
      forall mx h, cache_size (run (init mx) h) = held_all (run (init mx) h)
    i.e. the reported Size() equals the bytes of the values and keys actually held. *)
Theorem C09_size_accounting_refuted :
  exists mx h, let s := run (init mx) h in
    hot s = [] /\ snap s = [] /\ held_all s = 0 /\ cache_size s = 16.
Proof. exists 0, hist_drift. exact drift_witness. Qed.
Print Assumptions C09_size_accounting_refuted.

(** strongest true weakening 1: on every history Size() never UNDER-reports (so the
    limit check is conservative) and the uint64 counters never wrap below zero *)
Theorem C09_size_never_underreports_partial :
  forall mx h, let s := run (init mx) h in
    0 <= held_all s <= cache_size s /\ 0 <= size s /\ 0 <= snapsize s.
Proof. exact size_never_underreports. Qed.
Print Assumptions C09_size_never_underreports_partial.

(** strongest true weakening 2: the accounting is EXACT on every history in which no
    [Values] call finds something to remove (its in-place deduplication of the hot and
    snapshot entry drops no value): the drift has no other source — not type
    conflicts, not deletes, not snapshot retries. *)
Theorem C09_size_accounting_partial :
  forall mx h, reads_remove_nothing (init mx) h ->
    cache_size (run (init mx) h) = held_all (run (init mx) h).
Proof. exact size_exact_when_reads_remove_nothing. Qed.
Print Assumptions C09_size_accounting_partial.

(** ** Type conflicts.
    FULL statement read strictly ("conflicts with the key's existing type", wherever the
    existing values live) is REFUTED: a conflict against a key held only by the snapshot
    is accepted and the key then reads back with two types. *)
Theorem C09_type_conflict_vs_snapshot_refuted :
  exists mx h k vs, let s := run (init mx) h in
    clash s k vs = true /\ snd (step s (OWrite [(k, vs)])) = ROk /\
    snd (step (fst (step s (OWrite [(k, vs)]))) (OValues k)) = RVals [f1; i2].
Proof. exists 0, hist_snapconf, kA, [i2]. exact snapconf_witness. Qed.
Print Assumptions C09_type_conflict_vs_snapshot_refuted.

(** the part of the type-conflict clause that holds (conflicts against the HOT entry's
    type, mirror of entry.add/newEntryValues): every key of a batch is handled on its
    own.  For a batch with distinct keys (a Go map) that passes the limit check:
    - a key of the batch ends up with [key_result] = its old entry extended by its values
      if accepted, its OLD entry if rejected; keys outside the batch are untouched;
    - c.size grows by exactly the bytes of the ACCEPTED entries plus the length of every
      key they created; snapshot side untouched;
    - the error is ErrFieldTypeConflict iff some entry was rejected. *)
Theorem C09_type_conflict_local_partial :
  forall s b, over_limit s b = false -> NoDup (map fst b) ->
    let s' := fst (step s (OWrite b)) in
    (forall k, find_e k (hot s') =
       match assoc k b with None => find_e k (hot s) | Some vs => key_result (hot s) k vs end)
    /\ size s' = size s + accepted_bytes (hot s) b
    /\ snap s' = snap s /\ snapsize s' = snapsize s /\ maxsize s' = maxsize s
    /\ snapshotting s' = snapshotting s
    /\ snd (step s (OWrite b)) = if existsb (rejected (hot s)) b then RConflict else ROk.
Proof. exact write_multi_spec. Qed.
Print Assumptions C09_type_conflict_local_partial.

(** exactly which batch entries are rejected *)
Theorem C09_rejected_iff :
  forall st k vs, rejected st (k, vs) = true <->
    match find_e k st with
    | Some e => exists p r, vs = p :: r /\
                  ((evtype e <> 0%N /\ all_type (evtype e) vs = false) \/
                   (evals e = [] /\ all_type (ptype p) vs = false))
    | None => exists p r, vs = p :: r /\ all_type (ptype p) vs = false
    end.
Proof. exact rejected_iff. Qed.
Print Assumptions C09_rejected_iff.

Theorem C09_rejected_key_untouched :
  forall s b k vs, over_limit s b = false -> NoDup (map fst b) -> assoc k b = Some vs ->
    rejected (hot s) (k, vs) = true ->
    find_e k (hot (fst (step s (OWrite b)))) = find_e k (hot s).
Proof. exact rejected_key_untouched. Qed.
Print Assumptions C09_rejected_key_untouched.

(** ** Reads: in EVERY state (hence after every history) [Values k] returns the
    time-sorted, deduplicated union of the snapshot's and the hot store's raw values for
    [k] in which, for each timestamp, the LAST written point wins (hot after snapshot,
    later appends after earlier ones) — whatever in-place deduplication earlier reads or
    deletes performed. *)
Theorem C09_values_spec :
  forall mx h k, let s := run (init mx) h in
    is_lastwins (raw k (snap s) ++ raw k (hot s)) (snd (values k s)).
Proof. intros mx h k. apply values_spec. Qed.
Print Assumptions C09_values_spec.

Theorem C09_values_spec_any_state :
  forall s k, is_lastwins (raw k (snap s) ++ raw k (hot s)) (snd (values k s)).
Proof. exact values_spec. Qed.
Print Assumptions C09_values_spec_any_state.

(** the specification determines the answer uniquely *)
Theorem C09_lastwins_unique :
  forall l r1 r2, is_lastwins l r1 -> is_lastwins l r2 -> r1 = r2.
Proof. exact lastwins_unique. Qed.
Print Assumptions C09_lastwins_unique.

(** Deduplicate itself is the newest-wins view *)
Theorem C09_dedup_is_lastwins : forall l, is_lastwins l (dedup l).
Proof. exact dedup_lastwins. Qed.
Print Assumptions C09_dedup_is_lastwins.

(** a read mutates the stored entries but never changes what any later read returns *)
Theorem C09_read_does_not_change_reads :
  forall s k k', snd (values k' (fst (values k s))) = snd (values k' s).
Proof. exact values_read_stable. Qed.
Print Assumptions C09_read_does_not_change_reads.

(** newest wins across writes: after an accepted batch entry [vs] for [k], a read of [k]
    is the newest-wins view of (what was there before) ++ [vs] *)
Theorem C09_newest_wins_after_write :
  forall s b k vs, over_limit s b = false -> NoDup (map fst b) -> assoc k b = Some vs ->
    rejected (hot s) (k, vs) = false ->
    is_lastwins ((raw k (snap s) ++ raw k (hot s)) ++ vs)
                (snd (values k (fst (step s (OWrite b))))).
Proof. exact write_then_read. Qed.
Print Assumptions C09_newest_wins_after_write.

(** the judge's boolean oracle for reads accepts everything the specification allows *)
Theorem C09_read_oracle_complete : forall l r, is_lastwins l r -> lastwins_b l r = true.
Proof. exact lastwins_b_complete. Qed.
Print Assumptions C09_read_oracle_complete.

(** WriteMulti iterates over a Go map in random order: for a batch with distinct keys the
    order is irrelevant (same response, same entry for every key, same counters) *)
Theorem C09_batch_order_irrelevant :
  forall s b b', Permutation.Permutation b b' -> NoDup (map fst b) ->
    let s1 := fst (step s (OWrite b)) in
    let s2 := fst (step s (OWrite b')) in
    snd (step s (OWrite b)) = snd (step s (OWrite b'))
    /\ (forall k, find_e k (hot s1) = find_e k (hot s2))
    /\ size s1 = size s2 /\ snap s1 = snap s2 /\ snapsize s1 = snapsize s2
    /\ maxsize s1 = maxsize s2 /\ snapshotting s1 = snapshotting s2.
Proof. exact write_multi_order_irrelevant. Qed.
Print Assumptions C09_batch_order_irrelevant.

(** ** Non-vacuity: a limited cache; a two-key batch with a type conflict on one key is
    accepted for the other; the second write would exceed the limit and is rejected
    atomically; a duplicate timestamp reads back newest-wins. *)
Example C09_nonvacuous :
  let kB : key := [98%N; 98%N] in
  let s0 := init 70 in
  let s1 := fst (step s0 (OWrite [(kA, [f1; f2])])) in
  let r2 := step s1 (OWrite [(kA, [i2]); (kB, [i2])]) in
  over_limit s1 [(kA, [i2]); (kB, [i2])] = false /\
  NoDup (map fst [(kA, [i2]); (kB, [i2])]) /\
  snd r2 = RConflict /\ raw kB (hot (fst r2)) = [i2] /\ raw kA (hot (fst r2)) = [f1; f2] /\
  cache_size (fst r2) = 51 /\
  over_limit (fst r2) [(kB, [i2; i2])] = true /\
  snd (values kA (fst r2)) = [f2] /\
  reads_remove_nothing s0 [OWrite [(kA, [f1])]; OValues kA].
Proof.
  cbn zeta. repeat split; try reflexivity.
  constructor; [cbn; intros [H|[]]; discriminate|constructor; [cbn; tauto|constructor]].
Qed.
