package storage

import (
	"context"
	"fmt"
	"path/filepath"
	"testing"
	"time"

	"github.com/influxdata/influxdb/v2/kit/platform"
	"github.com/influxdata/influxdb/v2/models"
	"github.com/influxdata/influxdb/v2/storage/reads/datatypes"
	"github.com/influxdata/influxdb/v2/tsdb"
	"github.com/influxdata/influxdb/v2/v1/services/meta"
	"google.golang.org/protobuf/types/known/anypb"
)

func TestC21Side_StaleFilter(t *testing.T) {
	const shardDur = 100 * time.Second
	db := platform.ID(0x2222).String()
	rp := meta.DefaultRetentionPolicyName
	root := t.TempDir()
	ts := tsdb.NewStore(filepath.Join(root, "data"))
	ts.EngineOptions.Config.WALDir = filepath.Join(root, "wal")
	if err := ts.Open(context.Background()); err != nil {
		t.Fatal(err)
	}
	defer ts.Close()
	mc := &c21MetaClient{db: db}
	for i := 1; i <= 2; i++ {
		if err := ts.CreateShard(context.Background(), db, rp, uint64(i), true); err != nil {
			t.Fatal(err)
		}
		mc.groups = append(mc.groups, meta.ShardGroupInfo{ID: uint64(i),
			StartTime: time.Unix(0, 0).Add(time.Duration(i-1) * shardDur),
			EndTime:   time.Unix(0, 0).Add(time.Duration(i) * shardDur),
			Shards:    []meta.ShardInfo{{ID: uint64(i)}}})
	}
	write := func(shard uint64, lp string) {
		pts, err := models.ParsePointsWithPrecision([]byte(lp), time.Time{}, "s")
		if err != nil {
			t.Fatal(err)
		}
		if err := ts.WriteToShard(context.Background(), shard, pts); err != nil {
			t.Fatal(err)
		}
	}
	write(1, "cpu a=1i,b=1i 10\ncpu a=10i,b=10i 20\n")
	write(2, "cpu a=2i,b=2i 110\ncpu a=20i,b=20i 120\n")

	cmp := func(c datatypes.Node_Comparison, l, r *datatypes.Node) *datatypes.Node {
		return &datatypes.Node{NodeType: datatypes.Node_TypeComparisonExpression, Value: &datatypes.Node_Comparison_{Comparison: c}, Children: []*datatypes.Node{l, r}}
	}
	tag := func(s string) *datatypes.Node {
		return &datatypes.Node{NodeType: datatypes.Node_TypeTagRef, Value: &datatypes.Node_TagRefValue{TagRefValue: s}}
	}
	str := func(s string) *datatypes.Node {
		return &datatypes.Node{NodeType: datatypes.Node_TypeLiteral, Value: &datatypes.Node_StringValue{StringValue: s}}
	}
	logical := func(l datatypes.Node_Logical, a, b *datatypes.Node) *datatypes.Node {
		return &datatypes.Node{NodeType: datatypes.Node_TypeLogicalExpression, Value: &datatypes.Node_Logical_{Logical: l}, Children: []*datatypes.Node{a, b}}
	}
	paren := func(a *datatypes.Node) *datatypes.Node {
		return &datatypes.Node{NodeType: datatypes.Node_TypeParenExpression, Children: []*datatypes.Node{a}}
	}
	pred := &datatypes.Predicate{Root: logical(datatypes.Node_LogicalOr,
		paren(logical(datatypes.Node_LogicalAnd,
			cmp(datatypes.Node_ComparisonEqual, tag("_field"), str("a")),
			cmp(datatypes.Node_ComparisonGreater,
				&datatypes.Node{NodeType: datatypes.Node_TypeFieldRef, Value: &datatypes.Node_FieldRefValue{FieldRefValue: "$"}},
				&datatypes.Node{NodeType: datatypes.Node_TypeLiteral, Value: &datatypes.Node_IntegerValue{IntegerValue: 5}}))),
		cmp(datatypes.Node_ComparisonEqual, tag("_field"), str("b")))}

	store := NewStore(ts, mc)
	src, _ := anypb.New(&ReadSource{OrgID: 0x1111, BucketID: 0x2222})
	rs, err := store.ReadFilter(context.Background(), &datatypes.ReadFilterRequest{ReadSource: src, Range: &datatypes.TimestampRange{Start: 0, End: int64(2 * shardDur)}, Predicate: pred})
	if err != nil {
		t.Fatal(err)
	}
	for rs.Next() {
		cur := rs.Cursor()
		if cur == nil {
			continue
		}
		got := c21DrainCursor(t, cur)
		t.Logf("%s -> %v", rs.Tags(), got)
		switch string(rs.Tags().Get([]byte("_field"))) {
		case "a":
			if fmt.Sprint(got) != "[20=10 120=20]" {
				t.Errorf("field a: got %v", got)
			}
		case "b":
			// no value condition applies to field b: all four points must come back
			if fmt.Sprint(got) != "[10=1 20=10 110=2 120=20]" {
				t.Errorf("field b: got %v, want [10=1 20=10 110=2 120=20]", got)
			}
		}
	}
}
