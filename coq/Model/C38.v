(** C38 — Shard backup and restore preserve data.

    Mirror, on top of Model/C01.v's engine (log, file = points + tombstones, files_get,
    abs), of tsdb/engine/tsm1/engine.go:

      Backup(w, base, since)  = CreateSnapshot (cache -> new TSM file, then hard links of
                                every TSM file AND its tombstone file) ; tar of the entries
                                whose ModTime is AFTER since (pkg/tar SinceFilterTarFile:
                                strict [>])                                [backup_members]
      Restore(r, base)        = overlay(asNew=false): readFileFromBackup installs every
                                .tsm member under its own name and (since the repair of
                                finding restore-drops-tombstones) every .tombstone member
                                next to it, so FileStore.Replace opens the restored file
                                with its deletes applied; index rebuilt from the keys of
                                the installed files                        [restore_state]
      Export(w, base, lo, hi) = CreateSnapshot ; per TSM file timeStampFilterTarFile (the
                                tombstone file is streamed as its own entry):  three-way
                                overlap test on the file's physical [min,max] ->
                                filterFileToBackup keeps every BLOCK the reader iterates
                                (keys entirely deleted by the tombstones are absent from
                                the reader's index: the observed "view") that overlaps
                                [lo,hi], and streams nothing when no block is kept;  file
                                inside the range -> streamed whole (both branches fire
                                when min = lo and max = hi)                [export_file_gen]
      Import(r, base)         = overlay(asNew=true): every .tsm member becomes a new file
                                with the next generation, in archive order; tombstone
                                members are NOT installed (open finding
                                import-drops-tombstones)                   [import_state]

    File modification times are logical ranks supplied with the case (the driver sets
    them with os.Chtimes); the physical block layout of each TSM file (key, points per
    block) is an observed input, checked against the model state ([layout_ok]). *)
From Verif Require Import Base.Prelude Model.C01.

(** ** Histories: C01's step, then drop files a compaction left empty (a compaction whose
    inputs are entirely tombstoned writes no file). *)
Definition nonempty_file (f : file) : bool := match fpts f with [] => false | _ :: _ => true end.
Definition norm (s : state) : state :=
  {| hot := hot s; snap := snap s; snapshotting := snapshotting s;
     files := filter nonempty_file (files s) |}.
Definition step38 (s : state) (o : op) : state * bool :=
  let (s', b) := step s o in (norm s', b).

(** The snapshot Backup/Export force first (writeSnapshotWithRetries). *)
Definition snapshot_now (s : state) : state := fst (step (fst (step s SnapBegin)) SnapCommit).

(** The same forced snapshot while cache snapshots are disabled (Shard.Free,
    SetCompactionsEnabled(false)): Cache.Snapshot() swaps the hot store into the snapshot
    store, Compactor.WriteSnapshot refuses, ClearSnapshot(false) keeps the snapshot store
    for the retry; CreateSnapshot returns the error (only ErrSnapshotInProgress may be
    skipped) so Backup/Export fail — unless the cache was empty, which is a successful
    empty snapshot.  Result: (state, the action failed). *)
Definition snapshot_refused (s : state) : state * bool :=
  match hot s, snap s with
  | [], [] => (s, false)
  | _, _ => (fst (step (fst (step s SnapBegin)) SnapFail), true)
  end.

(** ** Backup / restore on the engine state. *)
Definition strip (f : file) : file := {| fpts := fpts f; ftomb := [] |}.
Definition engine_of (fs : list file) : state :=
  {| hot := []; snap := []; snapshotting := false; files := fs |}.
(** The archive of Backup as model files: (file, its tombstone file is a member too).
    [mfs]: the files with the mtime rank of their .tsm and of their tombstone file. *)
Definition backup_sel (since : Z) (mfs : list (Z * option Z * file)) : list (file * bool) :=
  flat_map (fun p =>
              if Z.gtb (fst (fst p)) since
              then [(snd p, match snd (fst p) with Some m => Z.gtb m since | None => false end)]
              else []) mfs.
Definition restored_file (p : file * bool) : file := if snd p then fst p else strip (fst p).
Definition restore_state (archive : list (file * bool)) : state :=
  engine_of (map restored_file archive).

(** ** Block layout. *)
Definition block := (key * list (Z * Z))%type.
Definition bfile := list block.
Definition block_log (b : block) : log := map (fun p => (fst b, fst p, snd p)) (snd b).
Definition bfile_log (f : bfile) : log := flat_map block_log f.
Definition file_of_bfile (f : bfile) : file := {| fpts := bfile_log f; ftomb := [] |}.

Definition list_min (l : list Z) : Z := match l with [] => 0%Z | x :: r => fold_right Z.min x r end.
Definition list_max (l : list Z) : Z := match l with [] => 0%Z | x :: r => fold_right Z.max x r end.
Definition btimes (b : block) : list Z := map fst (snd b).
Definition bmin (b : block) : Z := list_min (btimes b).
Definition bmax (b : block) : Z := list_max (btimes b).
Definition ftimes (f : bfile) : list Z := flat_map btimes f.
Definition fmin (f : bfile) : Z := list_min (ftimes f).
Definition fmax (f : bfile) : Z := list_max (ftimes f).

(** timeStampFilterTarFile's file-level test, operator for operator. *)
Definition overlaps3 (mn mx lo hi : Z) : bool :=
  ((Z.geb mn lo && Z.leb mn hi && Z.gtb mx hi)
   || (Z.geb mx lo && Z.leb mx hi && Z.ltb mn lo)
   || (Z.leb mn lo && Z.geb mx hi))%bool.
Definition inside (mn mx lo hi : Z) : bool := (Z.geb mn lo && Z.leb mx hi)%bool.
(** filterFileToBackup's block-level test. *)
Definition block_keep (lo hi : Z) (b : block) : bool :=
  ((Z.geb (bmin b) lo && Z.leb (bmin b) hi)
   || (Z.geb (bmax b) lo && Z.leb (bmax b) hi)
   || (Z.leb (bmin b) lo && Z.geb (bmax b) hi))%bool.

(** Members written for one TSM file: [phys] its physical blocks (whole-file branch, file
    range), [view] the blocks its reader iterates (= [phys] without the keys that the
    tombstones delete entirely). *)
Definition export_file_gen (lo hi : Z) (phys view : bfile) : list bfile :=
  let whole := if inside (fmin phys) (fmax phys) lo hi then [phys] else [] in
  if overlaps3 (fmin phys) (fmax phys) lo hi then
    match filter (block_keep lo hi) view with
    | [] => whole
    | g => g :: whole
    end
  else whole.
(** a tombstone-free file *)
Definition export_file (lo hi : Z) (f : bfile) : list bfile := export_file_gen lo hi f f.

(** The whole shard, files in name order; a file is (phys, view).  Result: the .tsm members
    (source file index, blocks). *)
Fixpoint export (lo hi : Z) (i : nat) (fs : list (bfile * bfile)) : list (nat * bfile) :=
  match fs with
  | [] => []
  | (phys, view) :: r => map (fun m => (i, m)) (export_file_gen lo hi phys view) ++ export lo hi (S i) r
  end.

Definition import_state (members : list bfile) : state := engine_of (map file_of_bfile members).

(** ** Correspondence case. *)
Record ofile := { o_mt : Z; o_tomb : option Z; o_blocks : bfile; o_view : bfile }.
Record member := { m_file : option nat; m_kind : N; m_blocks : bfile }.
Inductive action := ABackup (since : Z) | AExport (lo hi : Z).

Record case := {
  c_hist : list (op * bool);     (* history on the source engine with the observed success flags *)
  c_act : action;
  c_snapoff : bool;              (* first attempt with cache snapshots disabled, retried if it failed *)
  c_err1 : N;                    (* error class of that first attempt (3 = snapshots disabled) *)
  c_files : list ofile;          (* source TSM files after the action, in name order *)
  c_err : N;                     (* error class of Backup / Export *)
  c_members : list member;       (* archive members, sorted by (file, kind) *)
  c_rerr : N;                    (* error class of Restore / Import *)
  c_readA : list (list (Z * Z)); (* full read of keys 0..3 on the source *)
  c_readB : list (list (Z * Z)); (* ... on the restored / imported engine *)
  c_seriesB : option N           (* series known to the target's own index *)
}.

Definition run38 (h : list (op * bool)) : state * bool :=
  fold_left (fun (a : state * bool) ob =>
               let (s', b) := step38 (fst a) (fst ob) in
               (s', (snd a && Bool.eqb b (snd ob))%bool)) h (init, true).

Definition MINT : Z := (-9223372036854775808)%Z.
Definition MAXT : Z := 9223372036854775807%Z.
Definition nkeys : list key := [0; 1; 2; 3]%N.
Definition read_all (s : state) : list (list (Z * Z)) := map (fun k => read s k MINT MAXT true) nkeys.
Definition zzs_eqb := list_eqb zz_eqb.

Definition series_of (k : key) : N := N.div k 2.
Fixpoint nodupN (l : list N) : list N :=
  match l with [] => [] | x :: r => if existsb (N.eqb x) r then nodupN r else x :: nodupN r end.
Definition series_count (fs : list file) : N :=
  N.of_nat (length (nodupN (map (fun kt => series_of (fst kt)) (files_cands fs)))).

Definition pts_eqb := list_eqb (pair_eqb Z.eqb Z.eqb).
Definition block_eqb (a b : block) : bool := (N.eqb (fst a) (fst b) && pts_eqb (snd a) (snd b))%bool.
Definition bfile_eqb := list_eqb block_eqb.
Definition block_in (b : block) (f : bfile) : bool := existsb (block_eqb b) f.

(** The observed layout of a model file: same physical points; a tombstone file exists if
    a tombstone of the model hides a point, and only if the model has a tombstone; the
    reader's view is the physical layout for a tombstone-free file, otherwise a sub-list of
    it that still holds every block with a live point. *)
Definition layout_ok (f : file) (o : ofile) : bool :=
  let lg := bfile_log (o_blocks o) in
  let cands := file_cands f ++ map (fun e => (fst (fst e), snd (fst e))) lg in
  forallb (fun kt => option_eqb Z.eqb (log_get (fpts f) (fst kt) (snd kt)) (log_get lg (fst kt) (snd kt))) cands
  && match o_tomb o with
     | None => forallb (fun kt => negb (tombed (ftomb f) (fst kt) (snd kt))) cands
               && bfile_eqb (o_view o) (o_blocks o)
     | Some _ => match ftomb f with [] => false | _ :: _ => true end
                 && forallb (fun b => block_in b (o_blocks o)) (o_view o)
                 && forallb (fun b => if existsb (fun p => negb (tombed (ftomb f) (fst b) (fst p))) (snd b)
                                      then block_in b (o_view o) else true) (o_blocks o)
     end.

Fixpoint forallb2 {A B} (p : A -> B -> bool) (a : list A) (b : list B) : bool :=
  match a, b with
  | [], [] => true
  | x :: a', y :: b' => p x y && forallb2 p a' b'
  | _, _ => false
  end.

Fixpoint indexed {A} (i : nat) (l : list A) : list (nat * A) :=
  match l with [] => [] | x :: r => (i, x) :: indexed (S i) r end.

(** Archive members of Backup: (file index, kind 0 = .tsm / 1 = .tombstone). *)
Definition backup_members (since : Z) (fs : list ofile) : list (nat * N) :=
  flat_map (fun io =>
              (if Z.gtb (o_mt (snd io)) since then [(fst io, 0%N)] else [])
              ++ match o_tomb (snd io) with
                 | Some m => if Z.gtb m since then [(fst io, 1%N)] else []
                 | None => []
                 end) (indexed 0 fs).

Definition member_key (m : member) : option (nat * N) :=
  match m_file m with Some i => Some (i, m_kind m) | None => None end.
Definition nk_eqb (a b : nat * N) : bool := (Nat.eqb (fst a) (fst b) && N.eqb (snd a) (snd b))%bool.

Definition in_range_pts (lo hi : Z) (r : list (Z * Z)) : list (Z * Z) :=
  filter (fun p => in_range lo hi (fst p)) r.

(** series that have a readable point, from the reads of keys 0..3 *)
Definition series_with_data (reads : list (list (Z * Z))) : N :=
  let ne (i : nat) := match nth i reads [] with [] => false | _ :: _ => true end in
  ((if (ne 0%nat || ne 1%nat)%bool then 1 else 0) + (if (ne 2%nat || ne 3%nat)%bool then 1 else 0))%N.

(** series with a live (not tombstoned) physical point in some file *)
Definition live_file (f : file) : file :=
  {| fpts := filter (fun e => negb (tombed (ftomb f) (fst (fst e)) (snd (fst e)))) (fpts f); ftomb := [] |}.
Definition series_count_live (fs : list file) : N := series_count (map live_file fs).

Definition has_tomb (o : ofile) : bool := match o_tomb o with Some _ => true | None => false end.

Definition check (c : case) : verdict :=
  let (s0, flags_ok) := run38 (c_hist c) in
  let (s1, refused) := if c_snapoff c then snapshot_refused s0 else (s0, false) in
  let first_ok := N.eqb (c_err1 c) (if refused then 3 else 0) in
  let s := snapshot_now s1 in
  let lay := forallb2 layout_ok (files s) (c_files c) in
  let srcok := zzs_eqb (c_readA c) (read_all s) in
  match c_act c with
  | ABackup since =>
      let ms := backup_members since (c_files c) in
      let obs := map member_key (c_members c) in
      let mfs := map (fun fo => (o_mt (snd fo), o_tomb (snd fo), fst fo)) (combine (files s) (c_files c)) in
      let archive := backup_sel since mfs in
      let dst := restore_state archive in
      let tombs_in := existsb snd archive in
      let same :=
        (flags_ok && first_ok && lay && srcok && N.eqb (c_err c) 0 && N.eqb (c_rerr c) 0
         && list_eqb (option_eqb nk_eqb) obs (map Some ms)
         && zzs_eqb (c_readB c) (read_all dst)
         && match c_seriesB c with
            | Some n =>
                (* a key whose points are all deleted stays in the restored reader's index
                   unless its tombstones form one contiguous cover: an interval then *)
                if tombs_in then N.leb (series_count_live (files dst)) n && N.leb n (series_count (files dst))
                else N.eqb n (series_count (files dst))
            | None => true end)%bool in
      (* oracle: every file changed after [since] is in the archive; a full backup
         restores the same readable points and the same series *)
      let has x := existsb (fun o => option_eqb nk_eqb o (Some x)) obs in
      let changed_in :=
        forallb (fun io => ((if Z.gtb (o_mt (snd io)) since then has (fst io, 0%N) else true)
                            && match o_tomb (snd io) with
                               | Some m => if Z.gtb m since then has (fst io, 1%N) else true
                               | None => true end)%bool) (indexed 0 (c_files c)) in
      let full := forallb (fun o => Z.gtb (o_mt o) since
                                    && match o_tomb o with Some m => Z.gtb m since | None => true end)%bool
                          (c_files c) in
      let ok :=
        (N.eqb (c_err c) 0 && N.eqb (c_rerr c) 0 && changed_in
         && (if full then zzs_eqb (c_readB c) (c_readA c)
                          && match c_seriesB c with
                             | Some n => if existsb has_tomb (c_files c)
                                         then N.leb (series_with_data (c_readA c)) n
                                         else N.eqb n (series_with_data (c_readA c))
                             | None => true end
             else true))%bool in
      judge same ok
  | AExport lo hi =>
      let ms := export lo hi 0 (map (fun o => (o_blocks o, o_view o)) (c_files c)) in
      let dst := import_state (map snd ms) in
      let tsm_members := filter (fun m => N.eqb (m_kind m) 0) (c_members c) in
      let tomb_members := map m_file (filter (fun m => N.eqb (m_kind m) 1) (c_members c)) in
      let tomb_expected := flat_map (fun io => if has_tomb (snd io) then [Some (fst io)] else []) (indexed 0 (c_files c)) in
      let same :=
        (flags_ok && first_ok && lay && srcok && N.eqb (c_err c) 0 && N.eqb (c_rerr c) 0
         && forallb2 (fun (m : member) (x : nat * bfile) =>
                        option_eqb Nat.eqb (m_file m) (Some (fst x)) && bfile_eqb (m_blocks m) (snd x))%bool
                     tsm_members ms
         && list_eqb (option_eqb Nat.eqb) tomb_members tomb_expected
         && zzs_eqb (c_readB c) (read_all dst)
         && match c_seriesB c with Some n => N.eqb n (series_count (files dst)) | None => true end)%bool in
      (* oracle: the export succeeds and, imported, holds exactly the source's readable
         points of [lo,hi] *)
      let ok :=
        (N.eqb (c_err c) 0 && N.eqb (c_rerr c) 0
         && zzs_eqb (c_readB c) (map (in_range_pts lo hi) (c_readA c)))%bool in
      judge same ok
  end.
