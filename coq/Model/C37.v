(** C37 — Sorted timestamp array algebra is set algebra.

    Mirror of the generated array code of
      /repo/tsdb/cursors/arrayvalues.gen.go   ([FloatArray] … [BooleanArray], [TimestampArray]:
                                               [search], [FindRange], [Exclude], [Include], [Merge], [Contains])
      /repo/tsdb/engine/tsm1/encoding.gen.go  ([Values], [FloatValues] … [BooleanValues]:
                                               [Deduplicate], [search], [FindRange], [Exclude], [Include], [Merge]).
    The typed variants are template instantiations whose text is identical up to the
    element type (checked with diff when this model was written), so ONE model,
    polymorphic in the value type [V], covers them.  An array is a [list (Z * V)]
    (timestamp, value); the Go code only ever *compares* timestamps (no arithmetic on
    them), so [Z] covers int64 including MinInt64/MaxInt64 without any wrap-around
    concern; index arithmetic ([lo+hi], [rmax++], [len-rmax]) is on [nat].

    What is abstracted: slices are values (the in-place reuse of the backing array by
    [a[:rmin+rest]] / [copy] and the aliasing of [*a = *b] are not modelled; only the
    returned / resulting array contents are), and [sort.Stable] is modelled by a stable
    insertion sort (the stable sorted permutation of a list is unique).

    No proofs in this file.  The spec lemmas are in [Proofs/C37.v]. *)
From Verif Require Import Base.Prelude.
Local Open Scope Z_scope.

Section Arrays.
  Context {V : Type}.

  Definition arr := list (Z * V).

  Definition tm (p : Z * V) : Z := fst p.
  Definition times (a : arr) : list Z := map fst a.
  (** [a.Timestamps[i]] / [a[i].UnixNano()] *)
  Definition ts_at (a : arr) (i : nat) : Z := nth i (times a) 0.
  (** [MinTime] = [a[0]], [MaxTime] = [a[len-1]] (only called on non-empty arrays). *)
  Definition min_time (a : arr) : Z := hd 0 (times a).
  Definition max_time (a : arr) : Z := last (times a) 0.

  (** *** [search]: the binary search of the code.
      [for lo < hi { mid := int(uint(lo+hi) >> 1); if a[mid] < v { lo = mid+1 } else { hi = mid } }; return lo].
      Fuel [length a] suffices because [hi - lo] strictly decreases ([search_fuel_enough]). *)
  Fixpoint search_loop (fuel : nat) (a : arr) (v : Z) (lo hi : nat) : nat :=
    match fuel with
    | O => lo
    | S f =>
        if (lo <? hi)%nat then
          let mid := Nat.div2 (lo + hi) in
          if ts_at a mid <? v then search_loop f a v (S mid) hi
          else search_loop f a v lo mid
        else lo
    end.

  Definition search (a : arr) (v : Z) : nat := search_loop (length a) a v 0 (length a).

  (** *** [FindRange] *)
  Definition find_range (a : arr) (mn mx : Z) : Z * Z :=
    if Nat.eqb (length a) 0 || (mn >? mx) then (-1, -1)
    else
      let minVal := min_time a in
      let maxVal := max_time a in
      if (maxVal <? mn) || (minVal >? mx) then (-1, -1)
      else (Z.of_nat (search a mn), Z.of_nat (search a mx)).

  Definition is_none_range (r : Z * Z) : bool := (fst r =? -1) && (snd r =? -1).

  (** *** [Exclude]
      [b := a[:rmin+rest]; copy(b[rmin:], a[rmax:])] yields [a[:rmin] ++ a[rmax:][:rest]]. *)
  Definition arr_exclude (a : arr) (mn mx : Z) : arr :=
    let r := find_range a mn mx in
    if is_none_range r then a
    else
      let rmin := Z.to_nat (fst r) in
      let rmax := Z.to_nat (snd r) in
      if (rmax <? length a)%nat then
        let rmax := if ts_at a rmax =? mx then S rmax else rmax in
        let rest := (length a - rmax)%nat in
        if (0 <? rest)%nat then firstn rmin a ++ firstn rest (skipn rmax a)
        else firstn rmin a
      else firstn rmin a.

  (** *** [Include]
      [b := a[:rmax-rmin]; copy(b, a[rmin:rmax])]; the [else] branch ([rmin <= -1]) is dead
      code but mirrored anyway. *)
  Definition arr_include (a : arr) (mn mx : Z) : arr :=
    let r := find_range a mn mx in
    if is_none_range r then []
    else
      let rmin := fst r in
      let rmax := snd r in
      let rmax := if (Z.to_nat rmax <? length a)%nat && (ts_at a (Z.to_nat rmax) =? mx)
                  then rmax + 1 else rmax in
      if rmin >? -1 then firstn (Z.to_nat (rmax - rmin)) (skipn (Z.to_nat rmin) a)
      else firstn (Z.to_nat rmax) a.

  (** *** [TimestampArray.Contains] *)
  Definition arr_contains (a : arr) (mn mx : Z) : bool :=
    let r := find_range a mn mx in
    if is_none_range r then false
    else
      let rmin := fst r in
      let rmax := snd r in
      if ts_at a (Z.to_nat rmin) =? mn then true
      else if (Z.to_nat rmax <? length a)%nat && (ts_at a (Z.to_nat rmax) =? mx) then true
      else rmax - rmin >? 0.

  (** *** [cursors.*Array.Merge]: three-way loop over the suffixes [a[i:]], [b[j:]];
      after the loop the remaining suffix of [a], else of [b], is copied. *)
  Fixpoint amerge_loop (a b : arr) {struct a} : arr :=
    match a with
    | [] => b
    | x :: a' =>
        (fix inner (b : arr) : arr :=
           match b with
           | [] => x :: a'
           | y :: b' =>
               if tm x <? tm y then x :: amerge_loop a' (y :: b')
               else if tm x =? tm y then y :: amerge_loop a' b'
               else y :: inner b'
           end) b
    end.

  Definition arr_merge (a b : arr) : arr :=
    if Nat.eqb (length a) 0 then b
    else if Nat.eqb (length b) 0 then a
    else if max_time a <? min_time b then a ++ b
    else if max_time b <? min_time a then b ++ a
    else amerge_loop a b.

  (** *** [tsm1 Values.Deduplicate] *)
  Fixpoint need_sort_from (prev : Z) (l : arr) : bool :=
    match l with
    | [] => false
    | p :: r => if prev >=? tm p then true else need_sort_from (tm p) r
    end.
  Definition need_sort (a : arr) : bool :=
    match a with [] => false | p :: r => need_sort_from (tm p) r end.

  (** stable insertion: after every element with a timestamp <= that of [p] *)
  Fixpoint ins_stable (p : Z * V) (l : arr) : arr :=
    match l with
    | [] => [p]
    | q :: r => if tm p <? tm q then p :: q :: r else q :: ins_stable p r
    end.
  Definition stable_sort (a : arr) : arr := fold_left (fun acc p => ins_stable p acc) a [].

  (** [i := 0; for j := 1..: v := a[j]; if v.t != a[i].t { i++ }; a[i] = v]; return [a[:i+1]].
      [cur] is the current [a[i]]; the elements before it are final. *)
  Fixpoint compact (cur : Z * V) (rest : arr) : arr :=
    match rest with
    | [] => [cur]
    | v :: r => if tm v =? tm cur then compact v r else cur :: compact v r
    end.
  Definition compact_list (a : arr) : arr :=
    match a with [] => [] | c :: r => compact c r end.

  Definition vals_dedup (a : arr) : arr :=
    if (length a <=? 1)%nat then a
    else if need_sort a then compact_list (stable_sort a)
    else a.

  (** *** [tsm1 Values.Merge]: dedups both, then a loop that DROPS [a[0]] on equal
      timestamps (and emits [b[0]] on a later iteration). *)
  Fixpoint vmerge_loop (a b : arr) {struct a} : arr :=
    match a with
    | [] => b
    | x :: a' =>
        (fix inner (b : arr) : arr :=
           match b with
           | [] => x :: a'
           | y :: b' =>
               if tm x <? tm y then x :: vmerge_loop a' (y :: b')
               else if tm x =? tm y then vmerge_loop a' (y :: b')
               else y :: inner b'
           end) b
    end.

  Definition vals_merge (a b : arr) : arr :=
    if Nat.eqb (length a) 0 then b
    else if Nat.eqb (length b) 0 then a
    else
      let a := vals_dedup a in
      let b := vals_dedup b in
      if max_time a <? min_time b then a ++ b
      else if max_time b <? min_time a then b ++ a
      else vmerge_loop a b.

  (** ** Specification side (independent of the mirrors above). *)

  (** strictly increasing timestamps = "sorted and deduplicated" *)
  Fixpoint ssorted (l : arr) : Prop :=
    match l with
    | [] => True
    | p :: r => Forall (fun q => tm p < tm q) r /\ ssorted r
    end.
  Fixpoint ssorted_from_b (prev : Z) (l : arr) : bool :=
    match l with [] => true | p :: r => (prev <? tm p) && ssorted_from_b (tm p) r end.
  Definition ssorted_b (l : arr) : bool :=
    match l with [] => true | p :: r => ssorted_from_b (tm p) r end.

  Definition in_range (mn mx : Z) (p : Z * V) : bool := (mn <=? tm p) && (tm p <=? mx).
  Definition count_lt (v : Z) (a : arr) : nat := length (filter (fun p => tm p <? v) a).

  Definition exclude_spec_f (a : arr) (mn mx : Z) : arr := filter (fun p => negb (in_range mn mx p)) a.
  Definition include_spec_f (a : arr) (mn mx : Z) : arr := filter (in_range mn mx) a.
  Definition contains_spec_f (a : arr) (mn mx : Z) : bool := existsb (in_range mn mx) a.

  (** What [FindRange] returns, stated without reference to first/last elements:
      [(-1,-1)] exactly when [min > max], or every element is below [min] (this includes the
      empty array), or every element is above [max]; otherwise the insertion positions
      = numbers of elements strictly below [min] and strictly below [max].  NB: when
      [min..max] falls into a gap strictly inside the array the result is [(k,k)], not [(-1,-1)]. *)
  Definition find_range_spec_f (a : arr) (mn mx : Z) : Z * Z :=
    if (mn >? mx) || forallb (fun p => tm p <? mn) a || forallb (fun p => mx <? tm p) a
    then (-1, -1)
    else (Z.of_nat (count_lt mn a), Z.of_nat (count_lt mx a)).

  (** Finite-map view: insert-or-replace a point in a strictly sorted array, and lookup. *)
  Fixpoint upsert (p : Z * V) (l : arr) : arr :=
    match l with
    | [] => [p]
    | q :: r =>
        if tm p <? tm q then p :: q :: r
        else if tm p =? tm q then p :: r
        else q :: upsert p r
    end.
  (** union of [a] and [b] as sorted arrays, [b] winning on equal timestamps *)
  Definition union_rw (a b : arr) : arr := fold_left (fun acc p => upsert p acc) b a.
  (** sorted by time, last occurrence of every timestamp wins *)
  Definition last_wins_sorted (l : arr) : arr := union_rw [] l.

  Fixpoint lookup (t : Z) (l : arr) : option V :=
    match l with
    | [] => None
    | p :: r => if tm p =? t then Some (snd p) else lookup t r
    end.
  (** value of the LAST point with timestamp [t] *)
  Fixpoint lookup_last (t : Z) (l : arr) : option V :=
    match l with
    | [] => None
    | p :: r => match lookup_last t r with
                | Some v => Some v
                | None => if tm p =? t then Some (snd p) else None
                end
    end.

  (** What [Values.Merge] does on ARBITRARY (possibly unsorted / duplicated) inputs. *)
  Definition vals_merge_spec_f (a b : arr) : arr :=
    match a, b with
    | [], _ => b
    | _, [] => a
    | _, _ => union_rw (last_wins_sorted a) (last_wins_sorted b)
    end.
End Arrays.

Arguments arr : clear implicits.

(** ** Correspondence judge (values are encoded as integers by the driver: [V := Z]). *)

Definition pt_eqb (p q : Z * Z) : bool := (fst p =? fst q) && (snd p =? snd q).
Definition arr_eqb (a b : arr Z) : bool := list_eqb pt_eqb a b.
Definition zz_eqb (p q : Z * Z) : bool := (fst p =? fst q) && (snd p =? snd q).

(** One range query on the array [c_a] with everything the implementation returned. *)
Record rq := {
  q_mn : Z; q_mx : Z;
  q_excl : arr Z;          (* array after Exclude(mn,mx) *)
  q_incl : arr Z;          (* array after Include(mn,mx)     (fam 0,1) *)
  q_fr : Z * Z;            (* FindRange(mn,mx) *)
  q_contains : bool        (* TimestampArray.Contains(mn,mx) (fam 2) *)
}.

(** [c_fam]: 0 = cursors.*Array, 1 = tsm1 *Values, 2 = cursors.TimestampArray (values all 0;
    no Merge/Include, has Contains).
    [c_sorted]: inputs are strictly increasing (all operations observed); otherwise
    (fam 1 only) arbitrary lists: only Deduplicate(a) and Merge(a,b) are observed. *)
Record case := {
  c_fam : N;
  c_sorted : bool;
  c_a : arr Z;
  c_b : arr Z;
  c_merge : arr Z;         (* a.Merge(b)                     (fam 0,1) *)
  c_dedup : arr Z;         (* a.Deduplicate()                (fam 1)   *)
  c_qs : list rq
}.

Definition rq_same (fam : N) (a : arr Z) (q : rq) : bool :=
  arr_eqb (q_excl q) (arr_exclude a (q_mn q) (q_mx q))
  && zz_eqb (q_fr q) (find_range a (q_mn q) (q_mx q))
  && (if (fam =? 2)%N then Bool.eqb (q_contains q) (arr_contains a (q_mn q) (q_mx q))
      else arr_eqb (q_incl q) (arr_include a (q_mn q) (q_mx q))).

Definition rq_ok (fam : N) (a : arr Z) (q : rq) : bool :=
  arr_eqb (q_excl q) (exclude_spec_f a (q_mn q) (q_mx q))
  && zz_eqb (q_fr q) (find_range_spec_f a (q_mn q) (q_mx q))
  && (if (fam =? 2)%N then Bool.eqb (q_contains q) (contains_spec_f a (q_mn q) (q_mx q))
      else arr_eqb (q_incl q) (include_spec_f a (q_mn q) (q_mx q))).

Definition check (c : case) : verdict :=
  let fam := c_fam c in
  let a := c_a c in
  let b := c_b c in
  (* a case whose inputs do not meet its declared shape is a driver error: flag it loudly *)
  let wf := if c_sorted c then ssorted_b a && ssorted_b b else (fam =? 1)%N in
  let same :=
    (if (fam =? 0)%N then arr_eqb (c_merge c) (arr_merge a b)
     else if (fam =? 1)%N then arr_eqb (c_merge c) (vals_merge a b) && arr_eqb (c_dedup c) (vals_dedup a)
     else true)
    && (if c_sorted c then forallb (rq_same fam a) (c_qs c) else true) in
  let ok :=
    (if (fam =? 0)%N then arr_eqb (c_merge c) (union_rw a b)
     else if (fam =? 1)%N then
       arr_eqb (c_merge c) (if c_sorted c then union_rw a b else vals_merge_spec_f a b)
       && arr_eqb (c_dedup c) (last_wins_sorted a)
     else true)
    && (if c_sorted c then forallb (rq_ok fam a) (c_qs c) else true) in
  if wf then judge same ok else V_BAD.
