(** C11 — Line protocol and series keys round-trip.  Property theorems only
    (model: Model/C11.v, proofs: Proofs/C11.v). *)
From Verif Require Import Base.Prelude Model.C11 Proofs.C11.
Local Open Scope N_scope.

(** ** Series keys.
    FULL STATEMENT (refuted): forall n ts, parse_key (make_key n ts) = (n, ts).
    models.MakeKey escapes , space (=) but NOT the backslash, so a name / tag key / tag
    value that ends in a backslash, or has a backslash right before a delimiter, swallows
    the following delimiter.  Replayed on the real code:
    MakeKey("m", {t: a\, u: v}) = m,t=a\,u=v  and ParseKeyBytes returns ONE tag t = [a,u=v]. *)
Theorem C11_key_roundtrip_refuted :
  parse_key (make_key [109] [([116], [97; 92]); ([117], [118])])
  = ([109], [([116], [97; 44; 117; 61; 118])]).
Proof. exact key_witness. Qed.
Print Assumptions C11_key_roundtrip_refuted.

(** Strongest true weakening, for ALL names and tag lists (unbounded): the guard is
    [key_name_ok] (non-empty name, no backslash immediately before , or space, no trailing
    backslash) and [key_tags_ok] (values non-empty — MakeKey drops empty-valued tags —,
    keys and values without a backslash before , space = and without trailing backslash). *)
Theorem C11_key_roundtrip_partial :
  forall n ts, key_name_ok n = true -> key_tags_ok ts = true -> parse_key (make_key n ts) = (n, ts).
Proof. exact key_roundtrip. Qed.
Print Assumptions C11_key_roundtrip_partial.

(** ** Escaping round trips (all strings satisfying the backslash guard; unbounded). *)
Theorem C11_unescape_tag_escape_tag :
  forall s, bsl_safe is_tag_stop s = true -> unescape_tag (escape_tag s) = s.
Proof. exact unescape_tag_escape. Qed.
Print Assumptions C11_unescape_tag_escape_tag.

Theorem C11_unescape_measurement_escape_measurement :
  forall s, bsl_safe is_meas_stop s = true -> unescape_meas (escape_meas s) = s.
Proof. exact unescape_meas_escape. Qed.
Print Assumptions C11_unescape_measurement_escape_measurement.

(** ** Line protocol.
    FULL STATEMENT (refuted): every point accepted by NewPoint is returned unchanged by
    ParsePoints(String()).  Witnesses, all accepted by NewPoint ([new_point_ok]) and replayed
    on the real code:
      - tag value  a\        ->  m,t=a\ f=1i 5   is REJECTED (invalid tag format);
      - measurement  m\      ->  m\ f=1i 5       is REJECTED (invalid field format);
      - measurement  #m      ->  the line is a comment: NO point and NO error;
      - tag keys [a space] < [a dquote]  ->  escaped, [a backslash space] > [a dquote]: the
        parser re-sorts, the point comes back with its tags (and series key) in the other order. *)
Theorem C11_lp_roundtrip_refuted :
  new_point_ok w_bsl_tag = true /\ reparse P_ns 0 no_floats w_bsl_tag = ([], [print_point no_floats P_ns w_bsl_tag]) /\
  new_point_ok w_bsl_name = true /\ reparse P_ns 0 no_floats w_bsl_name = ([], [print_point no_floats P_ns w_bsl_name]) /\
  new_point_ok w_comment = true /\ reparse P_ns 0 no_floats w_comment = ([], []) /\
  new_point_ok w_resort = true /\
  map v_tags (fst (reparse P_ns 0 no_floats w_resort)) = [[([97; 34], [121]); ([97; 32], [120])]].
Proof. exact lp_witnesses. Qed.
Print Assumptions C11_lp_roundtrip_refuted.

(** Non-vacuity: a point with escapes everywhere satisfies the guard and round-trips. *)
Example C11_nonvacuous :
  let p := {| a_name := [109; 32; 120];                                   (* m x *)
              a_tags := [([97; 44], [61; 32]); ([98], [34])];              (* tags [a,]=[= ] and b=[dquote] *)
              a_fields := [([102; 32], VStr [34; 92; 10; 44]); ([103], VInt (-9223372036854775808));
                           ([104], VUint 18446744073709551615); ([105], VBool true)];
              a_time := Some (-1700000000000000000)%Z |} in
  valid no_floats P_s p = true /\
  key_name_ok (a_name p) = true /\ key_tags_ok (a_tags p) = true /\
  fst (reparse P_s 0 no_floats p) =
    [ {| v_key := make_key (a_name p) (a_tags p); v_name := a_name p; v_tags := a_tags p;
         v_fields := a_fields p; v_time := (-1700000000000000000)%Z |} ] /\
  snd (reparse P_s 0 no_floats p) = [].
Proof. vm_compute. repeat split. Qed.
