(** C24 — The task scheduler dispatches each due run once, in order, and stops on release.
    Property theorems only.  [nxt] = Schedule.Next (cron library), [wk] = worker of a
    task id (xxhash mod #workers), [parked] = which tasks' runs stay inside Execute
    until a [Done] event; all three are universally quantified.  [fx = true] is the
    code as it is now (main-loop branch "minimum not due yet" repaired: s.when =
    it.When(); timer.Reset(it.When().Sub(ts))), [fx = false] the code before the repair.

    FULL STATEMENTS and what is proved:
    - no_spin: proved for ALL histories ([C24_no_spin]); the pre-repair counterexample
      is kept as an Example.
    - release_stops, no_self_overlap: proved for ALL histories.
    - runs_in_order_once (forall evs, per task the executed scheduled-times are exactly
      the consecutive Next-iterates that have come due, each once, increasing):
      proved only as its kernel [C24_dispatch_is_pending_next_partial]; the whole-trace
      statement [spec_safe] is evaluated on every trace of the real scheduler by the
      correspondence judge, not proved.
    - when_is_min_due (after every history s.when is the due time of the minimum item):
      still REFUTED ([_refuted]): Release / re-Schedule of the earliest task do not
      recompute s.when, which stays at the removed item's time until the timer armed
      for it fires.  Proved instead ([_partial]): whenever the loop goroutine has run
      (timer fire or busy-wait re-evaluation) s.when is the minimum's due time. *)
From Verif Require Import Base.Prelude Model.C24 Proofs.C24.

Definition wk0 (id : N) : N := id.
Definition nopark (id : N) : bool := false.

(** no_spin: the loop never re-arms its timer with a non-positive delay, whatever the
    history, the schedules and the worker assignment. *)
Theorem C24_no_spin :
  forall nxt wk parked evs st,
    forallb (fun o => negb (b_neg o)) (trace nxt wk parked true st evs) = true.
Proof. exact trace_no_neg. Qed.
Print Assumptions C24_no_spin.

(** Before the repair: Schedule A (every 10), Schedule B (every 100), Release A, clock
    reaches 10: the stale timer fires, the minimum (B, due at 100) is not due and the
    loop re-armed with 10 - 100 = -90 seconds (busy loop on a real clock). *)
Example C24_before_fix_spin_counterexample :
  existsb b_neg (trace every_next wk0 nopark false init
                   [Schedule 1 10 0 0; Schedule 2 100 0 0; Release 1; Advance 10]) = true
  /\ existsb b_neg (trace every_next wk0 nopark true init
                   [Schedule 1 10 0 0; Schedule 2 100 0 0; Release 1; Advance 10]) = false.
Proof. split; vm_compute; reflexivity. Qed.

(** when_is_min_due, full statement: after every history [s.when] is the due time of
    the minimum item.  Refuted: after Release A, When() still is A's time 10 while the
    only pending run is B's at 100 (until the clock reaches 10). *)
Theorem C24_when_is_min_due_refuted :
  exists evs, let st := run every_next wk0 nopark true init evs in
    swhen st <> option_map i_when (hd_error (q st)).
Proof.
  exists [Schedule 1 10 0 0; Schedule 2 100 0 0; Release 1].
  vm_compute. discriminate.
Qed.
Print Assumptions C24_when_is_min_due_refuted.

(** ... and corrected as soon as the loop goroutine runs: after the [case <-s.timer.C]
    arm (from ANY state) s.when is the due time of the tree's minimum, zero if empty. *)
Theorem C24_when_is_min_due_after_loop_partial :
  forall nxt wk parked st,
    let st' := fst (loop nxt wk parked true (fuel_of st) st) in
    swhen st' = option_map i_when (hd_error (q st')).
Proof. intros. apply loop_when_top. Qed.
Print Assumptions C24_when_is_min_due_after_loop_partial.

(** From ANY state, after Release id and through any further events that do not
    Schedule id again, no observation contains an execution of id. *)
Theorem C24_release_stops :
  forall nxt wk parked fx st id evs, no_schedule_of id evs ->
    Forall (fun o => Forall (fun x => fst x <> id) (b_ex o))
           (trace nxt wk parked fx st (Release id :: evs)).
Proof. intros. apply release_stops. assumption. Qed.
Print Assumptions C24_release_stops.

(** While a run of task id occupies its worker (it entered [busy] when it was handed
    over, [C24_parked_dispatch_marks_inflight]) and until [Done id], no further run of
    id is started — whatever else happens. *)
Theorem C24_no_self_overlap :
  forall nxt wk parked fx st id evs, inflight wk id st -> no_done_of id evs ->
    Forall (fun o => Forall (fun x => fst x <> id) (b_ex o)) (trace nxt wk parked fx st evs).
Proof. intros. eapply trace_inflight; eassumption. Qed.
Print Assumptions C24_no_self_overlap.

Theorem C24_parked_dispatch_marks_inflight :
  forall nxt wk parked l nw b k ins ex b',
    pass_go nxt wk parked nw b l = (k, ins, ex, b') ->
    forall x, In x ex -> parked (fst x) = true -> In (wk (fst x), fst x) b'.
Proof. exact pass_go_marks. Qed.
Print Assumptions C24_parked_dispatch_marks_inflight.

Theorem C24_dispatch_is_pending_next_partial :
  forall nxt wk parked, (forall s t, (t < nxt s t)%Z) ->
  forall l nw b k ins ex b', pass_go nxt wk parked nw b l = (k, ins, ex, b') ->
    Forall2 (fun x it' => exists it, In it l /\ x = (i_id it, i_next it) /\
               (i_next it + i_off it <= nw)%Z /\
               i_id it' = i_id it /\ i_next it' = nxt (i_sched it) (i_next it) /\
               (i_next it < i_next it')%Z /\ i_off it' = i_off it /\ i_sched it' = i_sched it)
            ex ins.
Proof. exact pass_go_kernel. Qed.
Print Assumptions C24_dispatch_is_pending_next_partial.

(** Non-vacuity: a catch-up history with a parked task; the model's own trace passes
    the full executable specification (order, once, release, overlap, liveness, When,
    no spin), executes 5 runs, and reaches a busy-wait state. *)
Example C24_nonvacuous :
  let pk := fun id => N.eqb id 2 in
  let evs := [Advance 47; Schedule 1 10 0 30; Schedule 2 7 2 40; Advance 60; Done 2; Advance 61] in
  let tr := trace every_next wk0 pk true init evs in
  spec_full every_next wk0 pk spec0 evs tr = true /\
  length (flat_map b_ex tr) = 5%nat /\ existsb b_spin tr = true /\
  (forall s t, 0 < s -> t < every_next s t)%Z.
Proof.
  cbn zeta. split; [vm_compute; reflexivity|]. split; [vm_compute; reflexivity|].
  split; [vm_compute; reflexivity|]. intros s t H. unfold every_next. lia.
Qed.
