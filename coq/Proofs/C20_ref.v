(** C20 — the one-pass grouping [groups] of a time-sorted series is the reference grouping
    [ref_groups] (filter the series by window, windows in order of first occurrence), for
    every window function with [t < stop_of t] and
    [t <= u < stop_of t -> stop_of u = stop_of t]; the nanosecond window satisfies both. *)
From Coq Require Import ZifyBool Sorting.Sorted.
From Verif Require Import Base.Prelude Model.C20.
Open Scope Z_scope.

Section RefProofs.
Context {V : Type}.
Notation pt := (Z * V)%type.
Variable stop_of : Z -> Z.
Hypothesis H1 : forall t, t < stop_of t.
Hypothesis H2 : forall t u, t <= u < stop_of t -> stop_of u = stop_of t.

Definition time_sorted (l : list pt) : Prop := StronglySorted (fun p q => fst p <= fst q) l.
Notation stp := (fun p : pt => stop_of (fst p)).

Lemma ref_groups_alt (l : list pt) :
  ref_groups stop_of l = map (fun w => (w, filter (in_window stop_of w) l)) (windows_of stop_of l).
Proof.
  unfold ref_groups, windows_of. apply map_ext. intro w. f_equal.
  unfold keyed. induction l as [|p l IH]; [reflexivity|].
  cbn [map filter fst]. unfold in_window at 1. destruct (stop_of (fst p) =? w); cbn [map snd]; rewrite IH; reflexivity.
Qed.

Lemma dedupZ_ext l : forall s1 s2,
  (forall x, In x l -> existsb (Z.eqb x) s1 = existsb (Z.eqb x) s2) ->
  dedupZ s1 l = dedupZ s2 l.
Proof.
  induction l as [|x l IH]; intros s1 s2 H; [reflexivity|]. cbn [dedupZ].
  rewrite (H x (or_introl eq_refl)). destruct (existsb (Z.eqb x) s2).
  - apply IH. intros y Hy. apply H. right; exact Hy.
  - f_equal. apply IH. intros y Hy. cbn [existsb]. rewrite (H y (or_intror Hy)). reflexivity.
Qed.

Lemma dedupZ_In l : forall s x, In x (dedupZ s l) -> In x l.
Proof.
  induction l as [|y l IH]; intros s x H; [exact H|]. cbn [dedupZ] in H.
  destruct (existsb (Z.eqb y) s).
  - right. eapply IH; exact H.
  - destruct H as [H|H]; [left; exact H|right; eapply IH; exact H].
Qed.

Lemma dedupZ_skip (w : Z) g : forall s, existsb (Z.eqb w) s = true ->
  (forall x, In x g -> x = w) -> forall r, dedupZ s (g ++ r) = dedupZ s r.
Proof.
  induction g as [|x g IH]; intros s Hs Hg r; [reflexivity|]. cbn [app dedupZ].
  rewrite (Hg x (or_introl eq_refl)), Hs. apply IH; [exact Hs|]. intros y Hy. apply Hg. right; exact Hy.
Qed.

Lemma ref_groups_app (w : Z) (g r : list pt) :
  g <> [] -> (forall x, In x g -> stop_of (fst x) = w) ->
  (forall y, In y r -> stop_of (fst y) <> w) ->
  ref_groups stop_of (g ++ r) = (w, g) :: ref_groups stop_of r.
Proof.
  intros Hg Hgw Hr. rewrite !ref_groups_alt.
  assert (Ew : windows_of stop_of (g ++ r) = w :: windows_of stop_of r).
  { unfold windows_of, keyed. rewrite !map_map. cbn [fst]. rewrite map_app.
    destruct g as [|x g]; [congruence|]. cbn [map app dedupZ existsb].
    rewrite (Hgw x (or_introl eq_refl)). f_equal.
    assert (Es : dedupZ [w] (map (fun p : pt => stop_of (fst p)) g ++ map (fun p : pt => stop_of (fst p)) r)
                 = dedupZ [w] (map (fun p : pt => stop_of (fst p)) r)).
    { apply (dedupZ_skip w).
      - cbn [existsb]. rewrite Z.eqb_refl. reflexivity.
      - intros y Hy. apply in_map_iff in Hy as [q [<- Hq]]. apply Hgw. right; exact Hq. }
    rewrite Es. apply dedupZ_ext. intros y Hy. cbn [existsb]. apply in_map_iff in Hy as [q [<- Hq]].
    specialize (Hr q Hq). destruct (Z.eqb_spec (stop_of (fst q)) w); [contradiction|reflexivity]. }
  rewrite Ew. cbn [map]. f_equal.
  - f_equal. rewrite filter_app.
    assert (E1 : filter (in_window stop_of w) g = g).
    { clear Hg Ew. induction g as [|x g IH]; [reflexivity|]. cbn [filter]. unfold in_window at 1.
      rewrite (Hgw x (or_introl eq_refl)), Z.eqb_refl. f_equal. apply IH. intros y Hy. apply Hgw. right; exact Hy. }
    assert (E2 : filter (in_window stop_of w) r = []).
    { clear Ew. induction r as [|y r IH]; [reflexivity|]. cbn [filter]. unfold in_window at 1.
      destruct (Z.eqb_spec (stop_of (fst y)) w) as [E|E]; [exfalso; exact (Hr y (or_introl eq_refl) E)|].
      apply IH. intros z Hz. apply Hr. right; exact Hz. }
    rewrite E1, E2, app_nil_r. reflexivity.
  - apply map_ext_in. intros w' Hw'. f_equal. rewrite filter_app.
    assert (Hne : w' <> w).
    { unfold windows_of, keyed in Hw'. apply dedupZ_In in Hw'. rewrite map_map in Hw'.
      apply in_map_iff in Hw' as [q [<- Hq]]. cbn [fst]. apply Hr. exact Hq. }
    assert (E1 : filter (in_window stop_of w') g = []).
    { clear Hg Ew Hw'. induction g as [|x g IH]; [reflexivity|]. cbn [filter]. unfold in_window at 1.
      rewrite (Hgw x (or_introl eq_refl)).
      destruct (Z.eqb_spec w w'); [congruence|]. apply IH. intros y Hy. apply Hgw. right; exact Hy. }
    rewrite E1. reflexivity.
Qed.

Lemma ref_groups_single (w : Z) (g : list pt) :
  g <> [] -> (forall x, In x g -> stop_of (fst x) = w) -> ref_groups stop_of g = [(w, g)].
Proof.
  intros Hg Hgw. rewrite <- (app_nil_r g) at 1. rewrite (ref_groups_app w g []); auto.
Qed.

Lemma groups_aux_ref l : forall w cur t0,
  cur <> [] -> (forall c, In c cur -> stop_of (fst c) = w) -> stop_of t0 = w ->
  (forall q, In q l -> t0 <= fst q) -> time_sorted l ->
  groups_aux stop_of w cur l = ref_groups stop_of (rev cur ++ l).
Proof.
  induction l as [|p l IH]; intros w cur t0 Hc Hcw Ht0 Hlo Hs; cbn [groups_aux].
  - rewrite app_nil_r. symmetry. apply ref_groups_single.
    + intro E. apply Hc. rewrite <- (rev_involutive cur), E. reflexivity.
    + intros x Hx. apply Hcw. apply in_rev. exact Hx.
  - inversion Hs as [|p0 l0 Hs' Hall [Ep El]]. rewrite Forall_forall in Hall.
    destruct (w <=? fst p) eqn:Ew.
    + rewrite (ref_groups_app w (rev cur) (p :: l)).
      * f_equal. rewrite (IH (stop_of (fst p)) [p] (fst p)); auto; try discriminate.
        -- intros c [<-|[]]. reflexivity.
      * intro E. apply Hc. rewrite <- (rev_involutive cur), E. reflexivity.
      * intros x Hx. apply Hcw. apply in_rev. exact Hx.
      * intros y Hy. assert (fst p <= fst y) by (destruct Hy as [<-|Hy]; [lia|apply Hall; exact Hy]).
        specialize (H1 (fst y)). lia.
    + rewrite (IH w (p :: cur) t0); auto; try discriminate.
      * cbn [rev]. rewrite <- app_assoc. reflexivity.
      * intros c [<-|Hc']; [|apply Hcw; exact Hc'].
        rewrite <- Ht0. apply H2. specialize (Hlo p (or_introl eq_refl)). lia.
      * intros q Hq. apply Hlo. right; exact Hq.
Qed.

(** one pass over a time-sorted series = the reference grouping *)
Lemma groups_ref (l : list pt) : time_sorted l -> groups stop_of l = ref_groups stop_of l.
Proof.
  intro Hs. destruct l as [|p l]; [reflexivity|]. unfold groups.
  inversion Hs as [|p0 l0 Hs' Hall [Ep El]]. rewrite Forall_forall in Hall.
  rewrite (groups_aux_ref l (stop_of (fst p)) [p] (fst p)); auto; try discriminate.
  intros c [<-|[]]. reflexivity.
Qed.

(** every group of the reference is non-empty *)
Lemma ref_groups_nonempty (l : list pt) wg : In wg (ref_groups stop_of l) -> snd wg <> [].
Proof.
  rewrite ref_groups_alt. intro H. apply in_map_iff in H as [w [<- Hw]]. cbn [snd].
  unfold windows_of, keyed in Hw. apply dedupZ_In in Hw. rewrite map_map in Hw.
  apply in_map_iff in Hw as [q [Eq Hq]]. cbn [fst] in Eq.
  intro E. assert (Hin : In q (filter (in_window stop_of w) l)).
  { apply filter_In. split; [exact Hq|]. unfold in_window. rewrite Eq. apply Z.eqb_refl. }
  rewrite E in Hin. exact Hin.
Qed.

Lemma sortedb_sorted (l : list pt) : sortedb l = true -> time_sorted l.
Proof.
  intro H. apply Sorted_StronglySorted.
  - intros x y z; lia.
  - induction l as [|p l IH]; [constructor|].
    destruct l as [|q l']; [repeat constructor|].
    cbn [sortedb] in H. apply andb_true_iff in H as [Hpq Hr].
    constructor; [apply IH; exact Hr|]. constructor. lia.
Qed.
End RefProofs.

(** Non-vacuity of the window hypotheses: the nanosecond window of interval.Window
    (period = every > 0, any offset, negative times included). *)
Lemma ns_stop_gt every off t : 0 < every -> t < ns_stop every off t.
Proof. intro He. unfold ns_stop. pose proof (Z.mod_pos_bound (t - off) every He).
  pose proof (Z.div_mod (t - off) every). nia. Qed.

Lemma ns_stop_same every off t u : 0 < every ->
  t <= u < ns_stop every off t -> ns_stop every off u = ns_stop every off t.
Proof.
  intros He [Htu Hu]. unfold ns_stop in *.
  assert (E : (u - off) / every = (t - off) / every).
  { symmetry. apply Z.div_unique with (r := (u - off) - every * ((t - off) / every)); [|lia].
    left. pose proof (Z.mod_pos_bound (t - off) every He).
    pose proof (Z.div_mod (t - off) every). nia. }
  rewrite E. reflexivity.
Qed.

Lemma ns_start_stop every off t : ns_stop every off t = ns_start every off t + every.
Proof. unfold ns_stop, ns_start. lia. Qed.

(** Calendar-month windows: [month_stop_gen] satisfies the window hypotheses for ANY pair
    (month_of, month_start) such that month starts are strictly increasing and every instant
    lies in its month.  (That the concrete Gregorian pair of Model/C20.v has these two
    properties is not proved here; it is tested against flux by the correspondence check.) *)
Section MonthWindow.
Variables month_of month_start : Z -> Z.
Variable n : Z.
Hypothesis Hn : 0 < n.
Hypothesis Hs : forall a b, a < b -> month_start a < month_start b.
Hypothesis Hb : forall t, month_start (month_of t) <= t < month_start (month_of t + 1).

Lemma month_start_le a b : a <= b -> month_start a <= month_start b.
Proof. intro H. destruct (Z.eq_dec a b) as [->|Hne]; [lia|]. specialize (Hs a b). lia. Qed.

Lemma month_of_lt u M : u < month_start M -> month_of u < M.
Proof.
  intro H. destruct (Z_lt_ge_dec (month_of u) M) as [Hl|Hg]; [exact Hl|].
  pose proof (month_start_le M (month_of u) ltac:(lia)). pose proof (Hb u). lia.
Qed.

Lemma month_of_mono t u : t <= u -> month_of t <= month_of u.
Proof.
  intro H. destruct (Z_le_gt_dec (month_of t) (month_of u)) as [Hl|Hg]; [exact Hl|].
  pose proof (month_start_le (month_of u + 1) (month_of t) ltac:(lia)).
  pose proof (Hb t). pose proof (Hb u). lia.
Qed.

Lemma month_stop_gt t : t < month_stop_gen month_of month_start n t.
Proof.
  unfold month_stop_gen. pose proof (Hb t).
  pose proof (Z.mod_pos_bound (month_of t) n Hn). pose proof (Z.div_mod (month_of t) n).
  pose proof (month_start_le (month_of t + 1) ((month_of t / n + 1) * n) ltac:(nia)). lia.
Qed.

Lemma month_stop_same t u :
  t <= u < month_stop_gen month_of month_start n t ->
  month_stop_gen month_of month_start n u = month_stop_gen month_of month_start n t.
Proof.
  unfold month_stop_gen. intros [Htu Hu].
  pose proof (month_of_mono t u Htu). pose proof (month_of_lt u _ Hu).
  pose proof (Z.mod_pos_bound (month_of t) n Hn). pose proof (Z.div_mod (month_of t) n).
  assert (E : month_of u / n = month_of t / n).
  { symmetry. apply Z.div_unique with (r := month_of u - n * (month_of t / n)); [|lia]. left. nia. }
  rewrite E. reflexivity.
Qed.
End MonthWindow.
