(** C36 radix tree — final refinement lemmas: for every history of Insert / Get / DeletePrefix /
    Minimum / Maximum the pre-order walk of the tree IS the abstract sorted map, Get is its
    lookup and Len its size; all returned values agree with the abstract map, with
    Minimum / Maximum only as long as no DeletePrefix has left a dead node behind.

    Split: [C36_radix_ord] (order on byte strings, prefixes, list lemmas),
    [C36_radix_wf] (invariant, keys of the walk, sortedness, Get),
    [C36_radix_ins] (Insert), [C36_radix_del] (DeletePrefix), this file (Min/Max, histories). *)
From Verif Require Import Base.Prelude Model.C36_rhh Model.C36_radix.
From Verif Require Export Proofs.C36_radix_ord Proofs.C36_radix_wf Proofs.C36_radix_ins
  Proofs.C36_radix_del.
From Coq Require Import Sorted.

(** the structural invariant of [C36_radix_wf] under the name used in [Model/C36_radix.v] *)
Notation rwf := wf (only parsing).

(** ** trees without dead nodes: every non-root node has a leaf or an edge *)
Fixpoint nd (n : rnode) : Prop :=
  match n with RNode leaf _ es => (leaf <> None \/ es <> ENil) /\ nde es end
with nde (es : redges) : Prop :=
  match es with ENil => True | ECons _ ch rest => nd ch /\ nde rest end.

Lemma nd_nde n : nd n -> nde (r_edges n).
Proof. destruct n; simpl; tauto. Qed.

Lemma nd_prefix_irrel leaf p p' es : nd (RNode leaf p es) -> nd (RNode leaf p' es).
Proof. exact (fun H => H). Qed.

Lemma nd_walk_nonempty :
  (forall n, nd n -> walk n <> []) /\
  (forall es, nde es -> es <> ENil -> walk_edges es <> []).
Proof.
  apply rnode_redges_ind.
  - intros leaf p es IH [[H|H] He]; rewrite walk_node.
    + destruct leaf; [discriminate | contradiction].
    + intro E. apply app_eq_nil in E as [_ E]. revert E. apply IH; assumption.
  - intros _ H; contradiction.
  - intros l ch IHc rest IHr [Hc Hr] _. rewrite walk_edges_cons.
    intro E. apply app_eq_nil in E as [E _]. revert E. apply IHc, Hc.
Qed.

Lemma hd_error_app_nonempty {A} (L1 L2 : list A) :
  L1 <> [] -> hd_error (L1 ++ L2) = hd_error L1.
Proof. destruct L1; [contradiction | reflexivity]. Qed.

Lemma rev_nonempty {A} (L : list A) : L <> [] -> rev L <> [].
Proof.
  intros H E. apply H. rewrite <- (rev_involutive L), E. reflexivity.
Qed.

(** [Minimum] = first binding of the walk *)
Lemma min_walk_both :
  (forall n, nde (r_edges n) -> min_node n = hd_error (walk n)) /\
  (forall es, nde es ->
     match es with ENil => True | ECons _ ch _ => min_node ch = hd_error (walk ch) end).
Proof.
  apply rnode_redges_ind.
  - intros leaf p es IH He. cbn [r_edges] in He. specialize (IH He).
    destruct leaf as [kv|]; [reflexivity|].
    destruct es as [|l ch rest]; [reflexivity|].
    cbn [min_node]. rewrite IH, walk_node, walk_edges_cons. cbn [leaf_list app].
    symmetry. apply hd_error_app_nonempty. apply nd_walk_nonempty. apply He.
  - intros _. exact I.
  - intros l ch IHc rest _ [Hc _]. apply IHc, nd_nde, Hc.
Qed.

(** [Maximum] = last binding of the walk *)
Lemma max_walk_both :
  (forall n, nde (r_edges n) -> max_node n = hd_error (rev (walk n))) /\
  (forall es, nde es ->
     match es with
     | ENil => max_edges es = None
     | ECons _ _ _ => max_edges es = Some (hd_error (rev (walk_edges es)))
     end).
Proof.
  apply rnode_redges_ind.
  - intros leaf p es IH He. cbn [r_edges] in He. specialize (IH He).
    cbn [max_node]. rewrite walk_node.
    destruct es as [|l ch rest].
    + rewrite IH. cbn [walk_edges]. rewrite app_nil_r. destruct leaf; reflexivity.
    + rewrite IH, rev_app_distr. symmetry. apply hd_error_app_nonempty.
      apply rev_nonempty. apply nd_walk_nonempty; [exact He | discriminate].
  - intros _. reflexivity.
  - intros l ch IHc rest IHr [Hc Hr]. specialize (IHr Hr). specialize (IHc (nd_nde _ Hc)).
    cbn [max_edges]. rewrite walk_edges_cons.
    destruct rest as [|l2 ch2 rest2].
    + rewrite IHr, IHc. cbn [walk_edges]. rewrite app_nil_r. reflexivity.
    + rewrite IHr, rev_app_distr. f_equal. symmetry. apply hd_error_app_nonempty.
      apply rev_nonempty. apply nd_walk_nonempty; [exact Hr | discriminate].
Qed.

(** [Insert] creates no dead node *)
Lemma add_edge_not_nil es c n : add_edge es c n <> ENil.
Proof. destruct es as [|l ch rest]; simpl; [discriminate|]. destruct (N.ltb l c); discriminate. Qed.

Lemma nde_add_edge es c n : nde es -> nd n -> nde (add_edge es c n).
Proof.
  intros He Hn. induction es as [|l ch rest IH]; simpl.
  - split; [exact Hn | exact I].
  - destruct He as [Hc Hr]. destruct (N.ltb l c); simpl; auto.
Qed.

Lemma ins_nd_both :
  (forall n search s v n' ins r, ins_node n search s v = (n', ins, r) ->
     (nde (r_edges n) -> nde (r_edges n')) /\ (nd n -> nd n')) /\
  (forall es c search s v, nde es ->
     match ins_edges es c search s v with
     | Some (es', _, _) => nde es' /\ es' <> ENil
     | None => True
     end).
Proof.
  apply rnode_redges_ind.
  - intros leaf p es IH search s v n' ins r E.
    assert (NL : nd (RNode (Some (s, v)) search ENil)).
    { simpl. split; [left; discriminate | exact I]. }
    destruct search as [|c tl]; cbn [ins_node] in E.
    + destruct leaf as [[k old]|]; injection E as <- <- <-.
      * split; auto.
      * cbn [r_edges]. split; [auto|]. intros [_ He]. split; [left; discriminate | exact He].
    + specialize (IH c (c :: tl) s v).
      destruct (ins_edges es c (c :: tl) s v) as [[[es' ins'] r']|];
        injection E as <- <- <-; cbn [r_edges].
      * split.
        -- intro He. apply IH, He.
        -- intros [_ He]. destruct (IH He) as [H1 H2]. split; [right; exact H2 | exact H1].
      * split.
        -- intro He. apply nde_add_edge; assumption.
        -- intros [_ He]. split; [right; apply add_edge_not_nil | apply nde_add_edge; assumption].
  - intros; exact I.
  - intros l ch IHc rest IHr c search s v [Hc Hr]. cbn [ins_edges].
    destruct (N.eqb l c).
    + destruct ch as [cl cp ces].
      destruct (Nat.eqb (lcp search cp) (length cp)).
      * destruct (ins_node (RNode cl cp ces) (skipn (lcp search cp) search) s v)
          as [[ch' ins] r] eqn:EI.
        apply IHc in EI as [_ EI]. split; [|discriminate]. split; [apply EI, Hc | exact Hr].
      * split; [|discriminate]. split; [|exact Hr].
        assert (NO : nd (RNode cl (skipn (lcp search cp) cp) ces)) by exact Hc.
        assert (NLOW : nde (add_edge ENil (nth (lcp search cp) cp 0%N)
                                     (RNode cl (skipn (lcp search cp) cp) ces))).
        { simpl. split; [exact NO | exact I]. }
        destruct (skipn (lcp search cp) search) as [|c' sr] eqn:ES.
        -- split; [left; discriminate | exact NLOW].
        -- split; [right; apply add_edge_not_nil|].
           apply nde_add_edge; [exact NLOW|].
           simpl. split; [left; discriminate | exact I].
    + specialize (IHr c search s v Hr).
      destruct (ins_edges rest c search s v) as [[[rest' ins] r]|]; [|exact I].
      split; [|discriminate]. split; [exact Hc | apply IHr].
Qed.

(** ** one operation *)
Definition is_minmax (o : rop) : bool := match o with RMin | RMax => true | _ => false end.
Definition is_del (o : rop) : bool := match o with RDelPrefix _ => true | _ => false end.

Lemma robs_eqb_refl x : robs_eqb x x = true.
Proof.
  destruct x as [[[v b] k] n]. unfold robs_eqb.
  rewrite !Z.eqb_refl, bytes_eqb_refl, Bool.eqb_reflx. reflexivity.
Qed.

Lemma r_step_spec t a o t' ob :
  tree_inv t a -> r_step t o = (t', ob) ->
  tree_inv t' (smap_step a o)
  /\ (is_minmax o = false \/ nde (r_edges (r_root t)) -> ob = smap_obs a o)
  /\ (nde (r_edges (r_root t)) -> is_del o = false -> nde (r_edges (r_root t'))).
Proof.
  intros Inv E. destruct o as [k v|k|p| |]; cbn [r_step smap_step is_minmax is_del] in *.
  - (* Insert *)
    destruct (r_insert t k v) as [[t1 ins] r] eqn:EI. injection E as <- <-.
    destruct (r_insert_spec _ _ _ _ _ _ _ Inv EI) as [Inv' R].
    split; [exact Inv'|]. split.
    + intros _. destruct Inv' as (_ & _ & Hs). unfold smap_obs. cbn [smap_step]. rewrite Hs.
      destruct (smap_get k a); injection R as -> ->; reflexivity.
    + intros Hn _. unfold r_insert in EI.
      destruct (ins_node (r_root t) k k v) as [[root' ins0] r0] eqn:EN.
      injection EI as <- _ _. cbn [r_root].
      apply (proj1 ins_nd_both) in EN as [EN _]. apply EN, Hn.
  - (* Get *)
    rewrite (tree_inv_get _ _ k Inv) in E.
    assert (Hs : r_size t = Z.of_nat (length a)) by apply Inv.
    split; [|split].
    + destruct (smap_get k a); injection E as <- _; exact Inv.
    + intros _. unfold smap_obs. cbn [smap_step]. rewrite <- Hs.
      destruct (smap_get k a); injection E as _ <-; reflexivity.
    + intros Hn _. destruct (smap_get k a); injection E as <- _; exact Hn.
  - (* DeletePrefix *)
    destruct (r_delete_prefix t p) as [t1 cnt] eqn:ED. injection E as <- <-.
    destruct (r_delete_prefix_spec _ _ _ _ _ Inv ED) as [Inv' ->].
    split; [exact Inv'|]. split; [|discriminate].
    intros _. destruct Inv' as (_ & _ & Hs). unfold smap_obs. cbn [smap_step]. rewrite Hs.
    reflexivity.
  - (* Minimum *)
    assert (Hs : r_size t = Z.of_nat (length a)) by apply Inv.
    assert (Ht : t' = t) by (destruct (min_node (r_root t)) as [[k v]|]; injection E as <- _; reflexivity).
    subst t'. split; [exact Inv|]. split; [|auto].
    intros [H|Hn]; [discriminate|].
    rewrite (proj1 min_walk_both _ Hn) in E.
    destruct Inv as (_ & Hw & _). rewrite Hw in E.
    unfold smap_obs. cbn [smap_step]. rewrite <- Hs.
    destruct a as [|[k v] a']; cbn [hd_error] in E; injection E as <-; reflexivity.
  - (* Maximum *)
    assert (Hs : r_size t = Z.of_nat (length a)) by apply Inv.
    assert (Ht : t' = t) by (destruct (max_node (r_root t)) as [[k v]|]; injection E as <- _; reflexivity).
    subst t'. split; [exact Inv|]. split; [|auto].
    intros [H|Hn]; [discriminate|].
    rewrite (proj1 max_walk_both _ Hn) in E.
    destruct Inv as (_ & Hw & _). rewrite Hw in E.
    unfold smap_obs. cbn [smap_step]. rewrite <- Hs.
    destruct (rev a) as [|[k v] a']; cbn [hd_error] in E; injection E as <-; reflexivity.
Qed.

(** ** histories *)
Lemma tree_inv_new : tree_inv r_new [].
Proof. unfold tree_inv, r_new; simpl. auto. Qed.

Lemma run_refines ops : forall t a t' obs,
  tree_inv t a -> r_run t ops = (t', obs) -> tree_inv t' (fold_left smap_step ops a).
Proof.
  induction ops as [|o ops IH]; intros t a t' obs Inv E; cbn [r_run fold_left] in *.
  - injection E as <- _. exact Inv.
  - destruct (r_step t o) as [t1 ob] eqn:ES.
    destruct (r_run t1 ops) as [t2 obs'] eqn:ER. injection E as <- _.
    destruct (r_step_spec _ _ _ _ _ Inv ES) as [Inv' _].
    eapply IH; eauto.
Qed.

(** [keys_sorted a := StronglySorted (fun x y => bytes_ltb x y = true) (map fst a)]
    is defined in [C36_radix_ord] (re-exported here). *)
Lemma keys_sorted_def a :
  keys_sorted a = StronglySorted (fun x y => bytes_ltb x y = true) (map fst a).
Proof. reflexivity. Qed.

(** For ALL histories of Insert / Get / DeletePrefix / Minimum / Maximum: the pre-order walk
    IS the abstract sorted map, Get is its lookup, Len its size. *)
Lemma radix_refines_sorted_map : forall ops t obs, r_run r_new ops = (t, obs) ->
  let a := fold_left smap_step ops [] in
  walk (r_root t) = a
  /\ (forall k, r_get t k = smap_get k a)
  /\ r_size t = Z.of_nat (length a)
  /\ keys_sorted a.
Proof.
  intros ops t obs E a.
  pose proof (run_refines ops _ _ _ _ tree_inv_new E) as Inv. fold a in Inv.
  split; [apply Inv|]. split; [|split; [apply Inv|]].
  - intro k. apply tree_inv_get, Inv.
  - apply (tree_inv_sorted _ _ Inv).
Qed.

(** histories free of the Min/Max defect: no Minimum/Maximum after a DeletePrefix *)
Fixpoint minmax_safe (seen_del : bool) (ops : list rop) : bool :=
  match ops with
  | [] => true
  | RDelPrefix _ :: r => minmax_safe true r
  | RMin :: r | RMax :: r => negb seen_del && minmax_safe seen_del r
  | _ :: r => minmax_safe seen_del r
  end.

Lemma run_oracle ops : forall t a sd t' obs,
  tree_inv t a -> (sd = false -> nde (r_edges (r_root t))) ->
  r_run t ops = (t', obs) -> minmax_safe sd ops = true ->
  smap_oracle a ops obs = true.
Proof.
  induction ops as [|o ops IH]; intros t a sd t' obs Inv Hn E S; cbn [r_run] in E.
  - injection E as _ <-. reflexivity.
  - destruct (r_step t o) as [t1 ob] eqn:ES.
    destruct (r_run t1 ops) as [t2 obs'] eqn:ER. injection E as _ <-.
    destruct (r_step_spec _ _ _ _ _ Inv ES) as (Inv' & Hob & Hnd).
    cbn [smap_oracle].
    assert (OB : ob = smap_obs a o).
    { apply Hob. destruct o; cbn [is_minmax]; auto; cbn [minmax_safe] in S;
        apply andb_true_iff in S as [S _]; right; apply Hn;
        (destruct sd; [discriminate | reflexivity]). }
    rewrite OB, robs_eqb_refl. cbn [andb].
    destruct o as [k v|k|p| |]; cbn [minmax_safe] in S.
    + eapply (IH _ _ sd); eauto.
    + eapply (IH _ _ sd); eauto.
    + eapply (IH _ _ true); eauto. discriminate.
    + apply andb_true_iff in S as [_ S]. eapply (IH _ _ sd); eauto.
    + apply andb_true_iff in S as [_ S]. eapply (IH _ _ sd); eauto.
Qed.

(** Every returned value — Insert's (value, inserted), Get's (value, found), DeletePrefix's
    count, Len after each operation, Minimum / Maximum = first / last binding — equals the
    abstract sorted map's answer, on histories without Minimum/Maximum after a DeletePrefix. *)
Lemma radix_obs_oracle : forall ops t obs, r_run r_new ops = (t, obs) ->
  minmax_safe false ops = true -> smap_oracle [] ops obs = true.
Proof.
  intros ops t obs E S.
  eapply (run_oracle ops r_new [] false); eauto using tree_inv_new.
  intros _. simpl. exact I.
Qed.

(** For ARBITRARY histories: all observations other than those of Minimum / Maximum are the
    abstract map's answers ([patch_minmax] replaces the Min/Max observations by the abstract
    answers and keeps every other observation of the tree). *)
Fixpoint patch_minmax (a : list (bytes * Z)) (ops : list rop) (obs : list robs) : list robs :=
  match ops, obs with
  | o :: r, ob :: obs' =>
      (if is_minmax o then smap_obs a o else ob) :: patch_minmax (smap_step a o) r obs'
  | _, _ => []
  end.

Lemma run_oracle_nominmax ops : forall t a t' obs,
  tree_inv t a -> r_run t ops = (t', obs) ->
  smap_oracle a ops (patch_minmax a ops obs) = true.
Proof.
  induction ops as [|o ops IH]; intros t a t' obs Inv E; cbn [r_run] in E.
  - injection E as _ <-. reflexivity.
  - destruct (r_step t o) as [t1 ob] eqn:ES.
    destruct (r_run t1 ops) as [t2 obs'] eqn:ER. injection E as _ <-.
    destruct (r_step_spec _ _ _ _ _ Inv ES) as (Inv' & Hob & _).
    cbn [patch_minmax smap_oracle].
    assert (OB : (if is_minmax o then smap_obs a o else ob) = smap_obs a o).
    { destruct (is_minmax o) eqn:M; [reflexivity | apply Hob; left; reflexivity]. }
    rewrite OB, robs_eqb_refl. cbn [andb]. eapply IH; eauto.
Qed.

Lemma radix_obs_oracle_nominmax : forall ops t obs, r_run r_new ops = (t, obs) ->
  length obs = length ops /\ smap_oracle [] ops (patch_minmax [] ops obs) = true.
Proof.
  intros ops t obs E. split.
  - clear -E. revert t obs E. generalize r_new.
    induction ops as [|o ops IH]; intros t0 t obs E; cbn [r_run] in E.
    + injection E as _ <-. reflexivity.
    + destruct (r_step t0 o) as [t1 ob]. destruct (r_run t1 ops) as [t2 obs'] eqn:ER.
      injection E as _ <-. simpl. f_equal. eapply IH, ER.
  - eapply run_oracle_nominmax; eauto using tree_inv_new.
Qed.

(** The hypothesis [minmax_safe] cannot be dropped: the model (like the Go code) answers
    "not found" for Minimum when the first edge leads to a dead node. *)
Lemma radix_minmax_after_delete_refuted :
  let ops := [RInsert [1%N] 1%Z; RInsert [2%N] 2%Z; RDelPrefix [1%N]; RMin] in
  smap_oracle [] ops (snd (r_run r_new ops)) = false.
Proof. vm_compute. reflexivity. Qed.
