(** C30 — no spurious failures: deleting an existing organization succeeds. *)
From Verif Require Import Base.Prelude Model.C30 Proofs.C30_al Proofs.C30_inv Proofs.C30_step Proofs.C30_wf.

Lemma nodup_values {K V} (p : K * V -> bool) (l : list (K * V)) :
  NoDup (map fst l) ->
  (forall k1 k2 v, In (k1, v) l -> In (k2, v) l -> k1 = k2) ->
  NoDup (map snd (filter p l)).
Proof.
  induction l as [|[k v] l IH]; cbn; intros Hnd Hinj; [constructor|].
  inversion Hnd as [|x xs Hn Hd]; subst.
  assert (IH' : NoDup (map snd (filter p l))).
  { apply IH; [exact Hd|]. intros k1 k2 w H1 H2. apply (Hinj k1 k2 w); right; assumption. }
  destruct (p (k, v)); [|exact IH']. cbn. constructor; [|exact IH'].
  intro Hin. apply in_map_iff in Hin as ([k2 v2] & Ev & Hin). cbn in Ev; subst v2.
  apply filter_In in Hin as [Hin _].
  assert (k2 = k) by (apply (Hinj k2 k v); [right; exact Hin | left; reflexivity]). subst k2.
  apply Hn. apply in_map_iff. exists (k, v). auto.
Qed.

Lemma org_bucket_ids_nodup st id : Inv st -> WF st -> NoDup (org_bucket_ids st id).
Proof.
  intros (_ & (Hs & _) & _) (_ & _ & _ & Hnd & _). unfold org_bucket_ids.
  apply nodup_values; [exact Hnd|].
  intros k1 k2 j H1 H2.
  apply (in_get_nodup nn_eqb nn_eqb_spec _ _ _ Hnd) in H1, H2.
  destruct (Hs _ _ H1) as (b1 & Hb1 & E1). destruct (Hs _ _ H2) as (b2 & Hb2 & E2). congruence.
Qed.

Lemma delete_buckets_ok l : forall st, Inv st -> NoDup l ->
  (forall i, In i l -> hasN i (s_bkts st) = true) -> snd (delete_buckets l st) = E_OK.
Proof.
  induction l as [|i l IH]; intros st HI Hnd Hall; cbn; [reflexivity|].
  inversion Hnd as [|x xs Hn Hd]; subst.
  pose proof (inv_delete_bucket st i true HI) as H1.
  destruct (delete_bucket st i true) as [s1 e1] eqn:E1. cbn [fst] in H1.
  destruct (delete_bucket_rel _ _ _ _ _ E1) as (_ & B & _ & _).
  assert (Ee : e1 = E_OK).
  { revert E1. unfold delete_bucket, delete_bucket_tx.
    pose proof (Hall i (or_introl eq_refl)) as Hi. apply (has_true N.eqb) in Hi as [b Hb]. rewrite Hb.
    rewrite andb_false_r. cbn [N.eqb E_OK]. intro H; injection H as _ <-. reflexivity. }
  subst e1. cbn [N.eqb E_OK]. apply IH; [exact H1 | exact Hd |].
  intros j Hj. unfold has. rewrite B; [apply Hall; right; exact Hj|].
  intro; subst. contradiction.
Qed.

Lemma delete_org_ok fx st id n : Inv st -> WF st ->
  getN id (s_orgs st) = Some n -> snd (delete_org fx st id) = E_OK.
Proof.
  intros HI HW Hn. unfold delete_org. fold (org_bucket_ids st id).
  assert (Hall : forall i, In i (org_bucket_ids st id) -> hasN i (s_bkts st) = true).
  { intros i Hi. destruct (org_bucket_ids_sound st id i HI HW Hi) as (b & Hb & _).
    eapply get_some_has; exact Hb. }
  assert (Hf : forallb (fun i => hasN i (s_bkts st)) (org_bucket_ids st id) = true)
    by (apply forallb_forall; exact Hall).
  rewrite Hf. cbn [negb].
  pose proof (delete_buckets_ok _ st HI (org_bucket_ids_nodup st id HI HW) Hall) as Hok.
  destruct (delete_buckets (org_bucket_ids st id) st) as [s1 e1] eqn:E1. cbn [snd] in Hok. subst e1.
  destruct (delete_buckets_rel _ _ _ _ E1) as (_ & _ & _ & D). inversion D as [[D1 D2 D3 D4 D5 D6]].
  cbn [N.eqb E_OK negb]. unfold delete_org_tx. rewrite D1, Hn. reflexivity.
Qed.
