(** C11 — proofs about the printer / parser mirror of Model/C11.v: escaping round trips,
    series-key round trip, decimal integers. *)
From Verif Require Import Base.Prelude Model.C11.
From Coq Require Import ZifyBool ZifyN DecimalN.
Local Open Scope N_scope.

Lemma list_len_ind {A} (P : list A -> Prop) :
  (forall l, (forall l', (length l' < length l)%nat -> P l') -> P l) -> forall l, P l.
Proof.
  intros H l. assert (G : forall n l, (length l < n)%nat -> P l).
  { induction n; intros l0 Hl; [lia|]. apply H. intros l' Hl'. apply IHn. lia. }
  apply (G (S (length l))). lia.
Qed.

(** * Escaping as one pass over a set of bytes *)
Definition esc_set (S : N -> bool) (l : bytes) : bytes :=
  flat_map (fun c => if S c then [BSL; c] else [c]) l.

Lemma flat_map_flat_map {A B C} (f : A -> list B) (g : B -> list C) l :
  flat_map g (flat_map f l) = flat_map (fun a => flat_map g (f a)) l.
Proof. induction l as [|a l IH]; cbn; [reflexivity|]. rewrite flat_map_app, IH. reflexivity. Qed.

Lemma escape_meas_set l : escape_meas l = esc_set is_meas_stop l.
Proof.
  unfold escape_meas, escape1, esc_set. rewrite flat_map_flat_map. apply flat_map_ext. intro c.
  unfold is_meas_stop. destruct (c =? COMMA) eqn:E1; cbn.
  - apply N.eqb_eq in E1; subst. reflexivity.
  - destruct (c =? SP); cbn; reflexivity.
Qed.

Lemma escape_tag_set l : escape_tag l = esc_set is_tag_stop l.
Proof.
  unfold escape_tag, escape1, esc_set. rewrite !flat_map_flat_map. apply flat_map_ext. intro c.
  unfold is_tag_stop. destruct (c =? COMMA) eqn:E1; cbn.
  - apply N.eqb_eq in E1; subst. reflexivity.
  - destruct (c =? SP) eqn:E2; cbn.
    + apply N.eqb_eq in E2; subst. reflexivity.
    + destruct (c =? EQ); cbn; reflexivity.
Qed.

Lemma escape_string_set l : escape_string l = esc_set is_esc_char l.
Proof. reflexivity. Qed.

Lemma esc_set_none S l : (forall c, S c = false) -> esc_set S l = l.
Proof. intro H. induction l as [|c t IH]; cbn; [reflexivity|]. rewrite H. cbn. f_equal. exact IH. Qed.

Lemma esc_set_ext S S' l : (forall c, S c = S' c) -> esc_set S l = esc_set S' l.
Proof. intro H. unfold esc_set. apply flat_map_ext. intro c. rewrite H. reflexivity. Qed.

Lemma esc_set_cons S c t : esc_set S (c :: t) = (if S c then [BSL; c] else [c]) ++ esc_set S t.
Proof. reflexivity. Qed.

Lemma bsl_safe_mono (S S' : N -> bool) l :
  (forall c, S' c = true -> S c = true) -> bsl_safe S l = true -> bsl_safe S' l = true.
Proof.
  intro H. induction l as [|c t IH]; cbn; [auto|]. intro G. apply andb_true_iff in G as [G1 G2].
  rewrite (IH G2), andb_true_r. destruct (c =? BSL); [|reflexivity].
  destruct t as [|a t']; [discriminate|]. destruct (S' a) eqn:E; [|reflexivity].
  rewrite (H _ E) in G1. discriminate.
Qed.

Lemma bsl_safe_tail S c t : bsl_safe S (c :: t) = true -> bsl_safe S t = true.
Proof. cbn. intro H. apply andb_true_iff in H as [_ H]. exact H. Qed.

(** bytes.Replace with a two-byte pattern, unfolded one step *)
Lemma replace2_cons a b r x l :
  replace2 a b r (x :: l) =
  match l with
  | y :: t => if (x =? a) && (y =? b) then r :: replace2 a b r t else x :: replace2 a b r l
  | [] => [x]
  end.
Proof. destruct l; reflexivity. Qed.

(** un-escaping one byte [k] of an escaped, backslash-safe string *)
Lemma replace2_esc (S : N -> bool) k : S k = true -> S BSL = false ->
  forall n, bsl_safe S n = true ->
  replace2 BSL k k (esc_set S n) = esc_set (fun c => S c && negb (c =? k)) n.
Proof.
  intros Sk Sb. assert (kb : (k =? BSL) = false).
  { destruct (k =? BSL) eqn:E; [|reflexivity]. apply N.eqb_eq in E. subst. congruence. }
  induction n as [|c t IH]; intro H; [reflexivity|].
  pose proof (bsl_safe_tail _ _ _ H) as Ht. specialize (IH Ht).
  rewrite !esc_set_cons. destruct (S c) eqn:Sc; cbn [app andb].
  - (* c is escaped: \ c ... *)
    rewrite replace2_cons. rewrite N.eqb_refl. cbn [andb].
    destruct (c =? k) eqn:Ck; cbn [negb app].
    + apply N.eqb_eq in Ck. subst c. f_equal. exact IH.
    + assert (cb : (c =? BSL) = false).
      { destruct (c =? BSL) eqn:E; [|reflexivity]. apply N.eqb_eq in E. subst. congruence. }
      f_equal. rewrite replace2_cons. destruct (esc_set S t) eqn:Et.
      * rewrite <- IH. reflexivity.
      * rewrite cb. cbn [andb]. f_equal. exact IH.
  - (* c is kept *)
    rewrite replace2_cons. destruct (esc_set S t) as [|y t'] eqn:Et.
    + rewrite <- IH. reflexivity.
    + destruct ((c =? BSL) && (y =? k)) eqn:M.
      * (* impossible: a kept backslash is followed by a non-stop byte *)
        exfalso. apply andb_true_iff in M as [M1 M2]. apply N.eqb_eq in M2. subst y.
        cbn in H. rewrite M1 in H. destruct t as [|a t2]; [discriminate|].
        apply andb_true_iff in H as [H _]. apply negb_true_iff in H.
        rewrite esc_set_cons, H in Et. cbn in Et. inversion Et; subst. congruence.
      * f_equal. exact IH.
Qed.

Lemma unescape_tag_escape n : bsl_safe is_tag_stop n = true -> unescape_tag (escape_tag n) = n.
Proof.
  intro H. unfold unescape_tag. rewrite escape_tag_set.
  rewrite (replace2_esc is_tag_stop COMMA eq_refl eq_refl n H).
  set (S1 := fun c => is_tag_stop c && negb (c =? COMMA)).
  assert (H1 : bsl_safe S1 n = true).
  { eapply bsl_safe_mono; [|exact H]. intros c Hc. apply andb_true_iff in Hc as [Hc _]. exact Hc. }
  rewrite (replace2_esc S1 SP eq_refl eq_refl n H1).
  set (S2 := fun c => S1 c && negb (c =? SP)).
  assert (H2 : bsl_safe S2 n = true).
  { eapply bsl_safe_mono; [|exact H1]. intros c Hc. apply andb_true_iff in Hc as [Hc _]. exact Hc. }
  rewrite (replace2_esc S2 EQ eq_refl eq_refl n H2).
  apply esc_set_none. intro c. unfold S2, S1, is_tag_stop.
  destruct (c =? COMMA), (c =? SP), (c =? EQ); reflexivity.
Qed.

Lemma unescape_meas_escape n : bsl_safe is_meas_stop n = true -> unescape_meas (escape_meas n) = n.
Proof.
  intro H. unfold unescape_meas. rewrite escape_meas_set.
  rewrite (replace2_esc is_meas_stop COMMA eq_refl eq_refl n H).
  set (S1 := fun c => is_meas_stop c && negb (c =? COMMA)).
  assert (H1 : bsl_safe S1 n = true).
  { eapply bsl_safe_mono; [|exact H]. intros c Hc. apply andb_true_iff in Hc as [Hc _]. exact Hc. }
  rewrite (replace2_esc S1 SP eq_refl eq_refl n H1).
  apply esc_set_none. intro c. unfold S1, is_meas_stop.
  destruct (c =? COMMA), (c =? SP); reflexivity.
Qed.

(** a backslash-safe string contains no [\k] pattern: unescaping it is the identity *)
Lemma replace2_safe (S : N -> bool) k : S k = true ->
  forall n, bsl_safe S n = true -> replace2 BSL k k n = n.
Proof.
  intros Sk. induction n as [|c t IH]; intro H; [reflexivity|].
  pose proof (bsl_safe_tail _ _ _ H) as Ht. rewrite replace2_cons. destruct t as [|y t']; [reflexivity|].
  destruct ((c =? BSL) && (y =? k)) eqn:M.
  - exfalso. apply andb_true_iff in M as [M1 M2]. apply N.eqb_eq in M2. subst y.
    cbn in H. rewrite M1, Sk in H. discriminate.
  - f_equal. exact (IH Ht).
Qed.

Lemma unescape_meas_safe n : bsl_safe is_meas_stop n = true -> unescape_meas n = n.
Proof.
  intro H. unfold unescape_meas.
  rewrite (replace2_safe is_meas_stop COMMA eq_refl n H). apply (replace2_safe is_meas_stop SP eq_refl n H).
Qed.

(** * Scanning an escaped token with the "previous byte is a backslash" logic *)
(** every byte of [w] that is in [S] is preceded by a backslash ([prev] precedes [w]) *)
Fixpoint pclean (S : N -> bool) (prev : N) (w : bytes) : bool :=
  match w with
  | [] => true
  | c :: t => (negb (S c) || (prev =? BSL)) && pclean S c t
  end.

Lemma pclean_mono (S S' : N -> bool) : (forall c, S' c = true -> S c = true) ->
  forall w prev, pclean S prev w = true -> pclean S' prev w = true.
Proof.
  intro H. induction w as [|c t IH]; intros prev G; cbn in *; [auto|].
  apply andb_true_iff in G as [G1 G2]. rewrite (IH _ G2), andb_true_r.
  destruct (prev =? BSL); [apply orb_true_r|]. rewrite orb_false_r in *.
  destruct (S' c) eqn:E; [|reflexivity]. rewrite (H _ E) in G1. discriminate.
Qed.

Lemma pclean_esc S : S BSL = false -> forall n prev, pclean S prev (esc_set S n) = true.
Proof.
  intro Sb. induction n as [|c t IH]; intro prev; [reflexivity|].
  rewrite esc_set_cons. destruct (S c) eqn:Sc; cbn [app pclean].
  - rewrite Sb, N.eqb_refl. cbn. rewrite orb_true_r. cbn. apply IH.
  - rewrite Sc. cbn. apply IH.
Qed.

Lemma last_indep {A} (l : list A) d d' : l <> [] -> last l d = last l d'.
Proof.
  induction l as [|x l IH]; [congruence|]. intros _. destruct l as [|y l']; [reflexivity|].
  change (last (x :: y :: l') d) with (last (y :: l') d). change (last (x :: y :: l') d') with (last (y :: l') d').
  apply IH. discriminate.
Qed.

Lemma last_cons {A} (c : A) t d : last (c :: t) d = last t c.
Proof. destruct t as [|x t']; [reflexivity|]. change (last (c :: x :: t') d) with (last (x :: t') d). apply last_indep. discriminate. Qed.

Lemma last_app_ne {A} (a b : list A) d : b <> [] -> last (a ++ b) d = last b d.
Proof.
  intro H. induction a as [|x a IH]; [reflexivity|]. cbn [app]. rewrite last_cons.
  rewrite <- IH. apply last_indep. destruct a; cbn; [exact H|discriminate].
Qed.

Lemma esc_set_nonempty S n : n <> [] -> esc_set S n <> [].
Proof. destruct n as [|c t]; [congruence|]. intros _. rewrite esc_set_cons. destruct (S c); discriminate. Qed.

Lemma last_esc S : S BSL = false -> forall n d, bsl_safe S n = true -> n <> [] ->
  (last (esc_set S n) d =? BSL) = false.
Proof.
  intro Sb. induction n as [|c t IH]; intros d H NE; [congruence|].
  rewrite esc_set_cons. destruct t as [|c' t'].
  - cbn [esc_set flat_map]. rewrite List.app_nil_r. destruct (S c) eqn:Sc.
    + cbn. destruct (c =? BSL) eqn:E; [|reflexivity]. apply N.eqb_eq in E. subst. congruence.
    + cbn. cbn in H. destruct (c =? BSL); [discriminate|reflexivity].
  - rewrite last_app_ne; [|apply esc_set_nonempty; discriminate].
    apply IH; [eapply bsl_safe_tail; eauto|discriminate].
Qed.

(** scanMeasurement *)
Lemma scan_meas_loop_tok : forall w prev rest,
  pclean is_meas_stop prev w = true -> (last w prev =? BSL) = false ->
  scan_meas_loop prev (w ++ COMMA :: rest) = MTag w rest /\
  scan_meas_loop prev (w ++ SP :: rest) = MFld w (SP :: rest) /\
  scan_meas_loop prev w = MNoFields.
Proof.
  induction w as [|c t IH]; intros prev rest P L.
  - cbn [last] in L. cbn. rewrite L. auto.
  - cbn [pclean] in P. apply andb_true_iff in P as [P1 P2]. rewrite last_cons in L.
    destruct (IH c rest P2 L) as [I1 [I2 I3]]. cbn [app scan_meas_loop].
    destruct (prev =? BSL); [rewrite I1, I2, I3; auto|].
    rewrite orb_false_r in P1. apply negb_true_iff in P1. unfold is_meas_stop in P1.
    apply orb_false_iff in P1 as [C1 C2]. rewrite C1, C2, I1, I2, I3. auto.
Qed.

Lemma esc_head_not_comma S n : S COMMA = true -> n <> [] ->
  exists c0 w', esc_set S n = c0 :: w' /\ (c0 =? COMMA) = false.
Proof.
  intros Sc NE. destruct n as [|c t]; [congruence|]. rewrite esc_set_cons.
  destruct (S c) eqn:E; cbn; eexists _, _; (split; [reflexivity|]); [reflexivity|].
  destruct (c =? COMMA) eqn:C; [|reflexivity]. apply N.eqb_eq in C. subst. congruence.
Qed.

Lemma scan_meas_tok n rest : key_name_ok n = true ->
  scan_meas (escape_meas n ++ COMMA :: rest) = MTag (escape_meas n) rest /\
  scan_meas (escape_meas n ++ SP :: rest) = MFld (escape_meas n) (SP :: rest) /\
  scan_meas (escape_meas n) = MNoFields.
Proof.
  unfold key_name_ok. intro H. apply andb_true_iff in H as [NE H].
  assert (NE' : n <> []) by (destruct n; [discriminate|discriminate]).
  rewrite escape_meas_set.
  destruct (esc_head_not_comma is_meas_stop n eq_refl NE') as [c0 [w' [E C0]]].
  pose proof (pclean_esc is_meas_stop eq_refl n 0) as P. rewrite E in P. cbn in P.
  apply andb_true_iff in P as [_ P].
  pose proof (last_esc is_meas_stop eq_refl n 0 H NE') as L. rewrite E, last_cons in L.
  destruct (scan_meas_loop_tok w' c0 rest P L) as [I1 [I2 I3]].
  rewrite E. cbn [app scan_meas]. rewrite C0, I1, I2, I3. auto.
Qed.

(** scanTo *)
Lemma scan_to_loop_tok stop : forall w prev rest,
  pclean (N.eqb stop) prev w = true -> (last w prev =? BSL) = false ->
  scan_to_loop stop false prev (w ++ stop :: rest) = (w, stop :: rest) /\
  scan_to_loop stop false prev w = (w, []).
Proof.
  induction w as [|c t IH]; intros prev rest P L.
  - cbn [last] in L. cbn. rewrite N.eqb_refl, L. auto.
  - cbn [pclean] in P. apply andb_true_iff in P as [P1 P2]. rewrite last_cons in L.
    destruct (IH c rest P2 L) as [I1 I2]. cbn [app scan_to_loop]. cbn [orb].
    assert (X : (c =? stop) && negb (prev =? BSL) = false).
    { destruct (prev =? BSL); [apply andb_false_r|]. rewrite orb_false_r in P1.
      apply negb_true_iff in P1. rewrite N.eqb_sym, P1. reflexivity. }
    rewrite X, I1, I2. auto.
Qed.

Lemma scan_to_first stop c0 w' : (c0 =? stop) = false ->
  scan_to stop (c0 :: w') = pcons c0 (scan_to_loop stop false c0 w').
Proof. intro H. unfold scan_to. cbn [scan_to_loop]. rewrite H. reflexivity. Qed.

(** walkTags over an escaped tag list *)
Lemma frev_rev l : frev l = rev l.
Proof. unfold frev. rewrite rev_append_rev. apply List.app_nil_r. Qed.

Lemma walk_tags_tk : forall wk prev rk l,
  pclean (N.eqb EQ) prev wk = true -> (last wk prev =? BSL) = false ->
  walk_tags_st (TK false prev rk) (wk ++ EQ :: l) = walk_tags_st (TV EQ (rev rk ++ wk) []) l.
Proof.
  induction wk as [|c t IH]; intros prev rk l P L.
  - cbn [last] in L. cbn [app walk_tags_st]. rewrite N.eqb_refl, L. cbn. rewrite frev_rev, List.app_nil_r. reflexivity.
  - cbn [pclean] in P. apply andb_true_iff in P as [P1 P2]. rewrite last_cons in L.
    cbn [app walk_tags_st]. cbn [orb].
    assert (X : (c =? EQ) && negb (prev =? BSL) = false).
    { destruct (prev =? BSL); [apply andb_false_r|]. rewrite orb_false_r in P1.
      apply negb_true_iff in P1. rewrite N.eqb_sym, P1. reflexivity. }
    rewrite X. rewrite (IH c (c :: rk) l P2 L). cbn [rev]. rewrite <- List.app_assoc. reflexivity.
Qed.

Lemma walk_tags_tv : forall wv prev k rv,
  pclean (N.eqb COMMA) prev wv = true -> (last wv prev =? BSL) = false ->
  rev rv ++ wv <> [] ->
  (forall l, walk_tags_st (TV prev k rv) (wv ++ COMMA :: l)
             = (unescape_tag k, unescape_tag (rev rv ++ wv)) :: walk_tags_st (TK false COMMA []) l) /\
  walk_tags_st (TV prev k rv) wv = [(unescape_tag k, unescape_tag (rev rv ++ wv))].
Proof.
  induction wv as [|c t IH]; intros prev k rv P L NE.
  - cbn [last] in L. rewrite List.app_nil_r in *. cbn [app walk_tags_st]. rewrite N.eqb_refl, L. cbn [andb negb].
    destruct rv as [|r0 rv']; [cbn in NE; congruence|]. rewrite frev_rev. split; [intro l|]; reflexivity.
  - cbn [pclean] in P. apply andb_true_iff in P as [P1 P2]. rewrite last_cons in L.
    assert (X : (c =? COMMA) && negb (prev =? BSL) = false).
    { destruct (prev =? BSL); [apply andb_false_r|]. rewrite orb_false_r in P1.
      apply negb_true_iff in P1. rewrite N.eqb_sym, P1. reflexivity. }
    assert (NE' : rev (c :: rv) ++ t <> []) by (cbn [rev]; rewrite <- List.app_assoc; cbn; destruct (rev rv); discriminate).
    destruct (IH c k (c :: rv) P2 L NE') as [I1 I2].
    assert (E : rev (c :: rv) ++ t = rev rv ++ c :: t) by (cbn [rev]; rewrite <- List.app_assoc; reflexivity).
    rewrite E in *. cbn [app walk_tags_st]. rewrite X. split; [intro l; apply I1|apply I2].
Qed.

Definition tag_text (kv : bytes * bytes) : bytes := COMMA :: escape_tag (fst kv) ++ EQ :: escape_tag (snd kv).

Lemma hash_key_text ts : key_tags_ok ts = true -> hash_key ts = flat_map tag_text ts.
Proof.
  unfold hash_key. induction ts as [|[k v] r IH]; [reflexivity|]. cbn [key_tags_ok forallb flat_map].
  intro H. apply andb_true_iff in H as [H1 H2]. rewrite (IH H2). f_equal.
  apply andb_true_iff in H1 as [H1 _]. apply andb_true_iff in H1 as [H1 _]. cbn [fst snd] in *.
  assert (NE : escape_tag v <> []).
  { rewrite escape_tag_set. apply esc_set_nonempty. destruct v; [discriminate|discriminate]. }
  unfold tag_text. cbn [fst snd]. destruct (escape_tag v); [congruence|reflexivity].
Qed.

Lemma walk_tags_st_tags ts : key_tags_ok ts = true ->
  match flat_map tag_text ts with
  | [] => ts = []
  | c :: l => c = COMMA /\ walk_tags_st (TK false COMMA []) l = ts
  end.
Proof.
  induction ts as [|[k v] r IH]; [reflexivity|]. intro H. cbn [key_tags_ok forallb] in H.
  apply andb_true_iff in H as [H1 H2]. specialize (IH H2).
  apply andb_true_iff in H1 as [H1 Sv]. apply andb_true_iff in H1 as [NEv Sk]. cbn [fst snd] in *.
  cbn [flat_map]. unfold tag_text at 1. cbn [fst snd app]. split; [reflexivity|].
  rewrite <- !List.app_assoc. cbn [app].
  rewrite escape_tag_set at 1.
  assert (Pk : pclean (N.eqb EQ) COMMA (esc_set is_tag_stop k) = true).
  { eapply pclean_mono; [|apply (pclean_esc is_tag_stop eq_refl)]. intros c Hc. apply N.eqb_eq in Hc. subst. reflexivity. }
  assert (Lk : (last (esc_set is_tag_stop k) COMMA =? BSL) = false).
  { destruct k as [|k0 k']; [reflexivity|]. apply last_esc; auto. discriminate. }
  rewrite (walk_tags_tk _ COMMA [] _ Pk Lk). cbn [rev app].
  rewrite <- escape_tag_set.
  assert (NEv' : v <> []) by (destruct v; [discriminate|discriminate]).
  assert (Pv : pclean (N.eqb COMMA) EQ (escape_tag v) = true).
  { rewrite escape_tag_set. eapply pclean_mono; [|apply (pclean_esc is_tag_stop eq_refl)].
    intros c Hc. apply N.eqb_eq in Hc. subst. reflexivity. }
  assert (Lv : (last (escape_tag v) EQ =? BSL) = false) by (rewrite escape_tag_set; apply last_esc; auto).
  assert (NEe : rev [] ++ escape_tag v <> []) by (cbn; rewrite escape_tag_set; apply esc_set_nonempty; auto).
  destruct (walk_tags_tv (escape_tag v) EQ (escape_tag k) [] Pv Lv NEe) as [I1 I2]. cbn [rev app] in I1, I2.
  destruct (flat_map tag_text r) as [|c l] eqn:E.
  - subst r. rewrite List.app_nil_r, I2. rewrite !unescape_tag_escape; auto.
  - destruct IH as [-> IH]. rewrite I1, IH. rewrite !unescape_tag_escape; auto.
Qed.

(** * Series key round trip *)
Lemma key_roundtrip n ts :
  key_name_ok n = true -> key_tags_ok ts = true -> parse_key (make_key n ts) = (n, ts).
Proof.
  intros Hn Ht. unfold make_key, parse_key.
  pose proof Hn as Hn'. unfold key_name_ok in Hn'. apply andb_true_iff in Hn' as [NE Sn].
  rewrite (unescape_meas_safe n Sn), (hash_key_text ts Ht).
  pose proof (walk_tags_st_tags ts Ht) as W.
  destruct (scan_meas_tok n [] Hn) as [_ [_ M0]].
  destruct (flat_map tag_text ts) as [|c l] eqn:E.
  - subst ts. rewrite List.app_nil_r, M0, unescape_meas_escape; auto.
  - destruct W as [-> W]. destruct (scan_meas_tok n l Hn) as [M1 _]. rewrite M1.
    rewrite unescape_meas_escape; auto. f_equal.
    (* walkTags: the name ends at the first unescaped comma *)
    unfold walk_tags.
    assert (NE' : n <> []) by (destruct n; [discriminate|discriminate]).
    rewrite escape_meas_set.
    destruct (esc_head_not_comma is_meas_stop n eq_refl NE') as [c0 [w' [Ee C0]]].
    rewrite Ee. cbn [app]. rewrite (scan_to_first COMMA c0 _ C0).
    pose proof (pclean_esc is_meas_stop eq_refl n 0) as P. rewrite Ee in P. cbn in P.
    apply andb_true_iff in P as [_ P].
    assert (P' : pclean (N.eqb COMMA) c0 w' = true).
    { eapply pclean_mono; [|exact P]. intros c Hc. apply N.eqb_eq in Hc. subst. reflexivity. }
    pose proof (last_esc is_meas_stop eq_refl n 0 Sn NE') as L. rewrite Ee, last_cons in L.
    destruct (scan_to_loop_tok COMMA w' c0 l P' L) as [I1 _]. rewrite I1. cbn. exact W.
Qed.

(** * Witnesses against the unguarded statements (closed terms, evaluated) *)
Definition no_floats : N -> bytes := fun _ => [].
Definition pt (name : bytes) (tags : list (bytes * bytes)) : apoint :=
  {| a_name := name; a_tags := tags; a_fields := [([102], VInt 1)]; a_time := Some 5%Z |}.
(** the parser's view of the printed point *)
Definition reparse (prec : precision) (dflt : Z) (pf : N -> bytes) (p : apoint) :=
  let r := parse_points prec dflt (print_point pf prec p) in (map view (fst r), map fst (snd r)).
(** what the property demands it to be *)
Definition same_point (prec : precision) (dflt : Z) (p : apoint) (v : pview) : Prop :=
  v_name v = a_name p /\ v_tags v = a_tags p /\ v_fields v = a_fields p /\
  v_time v = expected_time prec dflt p.

(* tag value  a\  : NewPoint accepts, String() = m,t=a\ f=1i 5 is rejected *)
Definition w_bsl_tag := pt [109] [([116], [97; 92])].
(* measurement  m\  *)
Definition w_bsl_name := pt [109; 92] [].
(* tag keys [a space] and [a dquote] are sorted, their escaped forms are not: the parser re-sorts *)
Definition w_resort := pt [109] [([97; 32], [120]); ([97; 34], [121])].
(* measurement #m : the printed line is a comment *)
Definition w_comment := pt [35; 109] [].

Lemma lp_witnesses :
  new_point_ok w_bsl_tag = true /\ reparse P_ns 0 no_floats w_bsl_tag = ([], [print_point no_floats P_ns w_bsl_tag]) /\
  new_point_ok w_bsl_name = true /\ reparse P_ns 0 no_floats w_bsl_name = ([], [print_point no_floats P_ns w_bsl_name]) /\
  new_point_ok w_comment = true /\ reparse P_ns 0 no_floats w_comment = ([], []) /\
  new_point_ok w_resort = true /\
  map v_tags (fst (reparse P_ns 0 no_floats w_resort)) = [[([97; 34], [121]); ([97; 32], [120])]].
Proof. vm_compute. repeat split. Qed.

Lemma key_witness :
  parse_key (make_key [109] [([116], [97; 92]); ([117], [118])])
  = ([109], [([116], [97; 44; 117; 61; 118])]).     (* one tag  t = a,u=v  *)
Proof. vm_compute. reflexivity. Qed.

(** * Line protocol round trip, section by section *)

(** ** The accessors on the printed key: Name() and Tags() *)
Lemma unescape4_esc (S : N -> bool) : (forall c, S c = true -> is_esc_char c = true) ->
  forall n, bsl_safe is_esc_char n = true -> unescape4 (esc_set S n) = n.
Proof.
  intros SS. induction n as [|c t IH]; intro H; [reflexivity|].
  pose proof (bsl_safe_tail _ _ _ H) as Ht. specialize (IH Ht).
  rewrite esc_set_cons. destruct (S c) eqn:Sc; cbn [app].
  - cbn [unescape4]. rewrite N.eqb_refl, (SS _ Sc). f_equal. exact IH.
  - destruct (c =? BSL) eqn:B; cbn [unescape4]; rewrite B; [|f_equal; exact IH].
    cbn [bsl_safe] in H. rewrite B in H. destruct t as [|a t']; [discriminate|].
    apply andb_true_iff in H as [Ha _]. apply negb_true_iff in Ha.
    assert (Sa : S a = false) by (destruct (S a) eqn:E; [pose proof (SS _ E); congruence|reflexivity]).
    rewrite esc_set_cons, Sa in *. cbn [app] in *. rewrite Ha. f_equal. exact IH.
Qed.

Lemma meas_stop_esc c : is_meas_stop c = true -> is_esc_char c = true.
Proof. unfold is_meas_stop, is_esc_char. destruct (c =? COMMA), (c =? DQ), (c =? SP), (c =? EQ); cbn; auto. Qed.
Lemma tag_stop_not_bsl : is_tag_stop BSL = false. Proof. reflexivity. Qed.

Lemma name_ok_key n : name_ok n = true -> key_name_ok n = true /\ bsl_safe is_esc_char n = true.
Proof.
  unfold name_ok, key_name_ok. intro H. apply andb_true_iff in H as [H S]. apply andb_true_iff in H as [H _].
  split; [|exact S]. apply andb_true_iff. split; [destruct n; [discriminate|reflexivity]|].
  eapply bsl_safe_mono; [|exact S]. apply meas_stop_esc.
Qed.

(** scanTo(key, 0, ',') on a printed key stops exactly after the escaped name *)
Lemma scan_to_comma_make_key n ts : key_name_ok n = true -> key_tags_ok ts = true ->
  scan_to COMMA (make_key n ts) = (escape_meas n, hash_key ts) /\
  (hash_key ts = [] \/ exists l, hash_key ts = COMMA :: l).
Proof.
  intros Hn Ht. unfold make_key.
  pose proof Hn as Hn'. unfold key_name_ok in Hn'. apply andb_true_iff in Hn' as [NE Sn].
  rewrite (unescape_meas_safe n Sn).
  assert (NE' : n <> []) by (destruct n; [discriminate|discriminate]).
  assert (HK : hash_key ts = [] \/ exists l, hash_key ts = COMMA :: l).
  { rewrite (hash_key_text ts Ht). destruct ts as [|[k v] r]; [left; reflexivity|right]. cbn. eauto. }
  split; [|exact HK].
  rewrite escape_meas_set.
  destruct (esc_head_not_comma is_meas_stop n eq_refl NE') as [c0 [w' [Ee C0]]].
  rewrite Ee. cbn [app]. rewrite (scan_to_first COMMA c0 _ C0).
  pose proof (pclean_esc is_meas_stop eq_refl n 0) as P. rewrite Ee in P. cbn [pclean] in P.
  apply andb_true_iff in P as [_ P].
  assert (P' : pclean (N.eqb COMMA) c0 w' = true).
  { eapply pclean_mono; [|exact P]. intros c Hc. apply N.eqb_eq in Hc. subst. reflexivity. }
  pose proof (last_esc is_meas_stop eq_refl n 0 Sn NE') as L. rewrite Ee, last_cons in L.
  destruct HK as [->|[l ->]].
  - rewrite List.app_nil_r. destruct (scan_to_loop_tok COMMA w' c0 [] P' L) as [_ I2]. rewrite I2. reflexivity.
  - destruct (scan_to_loop_tok COMMA w' c0 l P' L) as [I1 _]. rewrite I1. reflexivity.
Qed.

Lemma name_of_make_key n ts : name_ok n = true -> key_tags_ok ts = true -> name_of (make_key n ts) = n.
Proof.
  intros Hn Ht. destruct (name_ok_key n Hn) as [Hk Se].
  unfold name_of. destruct (scan_to_comma_make_key n ts Hk Ht) as [-> _]. cbn [fst].
  rewrite escape_meas_set. apply unescape4_esc; [apply meas_stop_esc|exact Se].
Qed.

Lemma walk_tags_make_key n ts : key_name_ok n = true -> key_tags_ok ts = true -> walk_tags (make_key n ts) = ts.
Proof.
  intros Hn Ht. unfold walk_tags.
  destruct (scan_to_comma_make_key n ts Hn Ht) as [E HK]. rewrite E.
  assert (NEk : make_key n ts <> []).
  { unfold make_key. pose proof Hn as Hn'. unfold key_name_ok in Hn'. apply andb_true_iff in Hn' as [NE Sn].
    rewrite (unescape_meas_safe n Sn), escape_meas_set.
    assert (esc_set is_meas_stop n <> []) by (apply esc_set_nonempty; destruct n; [discriminate|discriminate]).
    destruct (esc_set is_meas_stop n); [congruence|discriminate]. }
  destruct (make_key n ts) as [|k0 kr]; [congruence|].
  assert (NEn : escape_meas n <> []).
  { rewrite escape_meas_set. apply esc_set_nonempty. unfold key_name_ok in Hn. apply andb_true_iff in Hn as [NE _].
    destruct n; [discriminate|discriminate]. }
  destruct (escape_meas n) as [|e0 er]; [congruence|].
  pose proof (walk_tags_st_tags ts Ht) as W. rewrite <- (hash_key_text ts Ht) in W.
  destruct (hash_key ts) as [|c l]; [symmetry; exact W|]. destruct W as [_ W]. exact W.
Qed.

(** ** scanKey on the printed key *)
Fixpoint pushes (w : bytes) (r : tres) : tres :=
  match w with [] => r | c :: t => push c (pushes t r) end.

Lemma pushes_ok w s ss rest : pushes w (Ok (s :: ss, rest)) = Ok ((w ++ s) :: ss, rest).
Proof. induction w as [|c t IH]; [reflexivity|]. cbn [pushes app]. rewrite IH. reflexivity. Qed.

Lemma pushes_app a b r : pushes (a ++ b) r = pushes a (pushes b r).
Proof. induction a as [|x a IH]; [reflexivity|]. cbn [app pushes]. rewrite IH. reflexivity. Qed.

Lemma scan_tags_kloop : forall wk prev l,
  pclean is_tag_stop prev wk = true -> (last wk prev =? BSL) = false ->
  scan_tags KLoop prev (wk ++ EQ :: l) = pushes wk (push EQ (scan_tags VFirst EQ l)).
Proof.
  induction wk as [|c t IH]; intros prev l P L.
  - cbn [last] in L. cbn [app scan_tags pushes]. rewrite L. cbn. reflexivity.
  - cbn [pclean] in P. apply andb_true_iff in P as [P1 P2]. rewrite last_cons in L.
    cbn [app scan_tags pushes]. rewrite <- (IH c l P2 L).
    destruct (prev =? BSL); [cbn [negb andb]; rewrite !andb_false_r; reflexivity|].
    rewrite orb_false_r in P1. apply negb_true_iff in P1. unfold is_tag_stop in P1.
    apply orb_false_iff in P1 as [P1 C3]. apply orb_false_iff in P1 as [C1 C2].
    rewrite C1, C2, C3. reflexivity.
Qed.

Lemma scan_tags_vloop : forall wv prev,
  pclean is_tag_stop prev wv = true -> (last wv prev =? BSL) = false ->
  (forall l, scan_tags VLoop prev (wv ++ COMMA :: l) = pushes wv (newseg (scan_tags KFirst COMMA l))) /\
  (forall l, scan_tags VLoop prev (wv ++ SP :: l) = pushes wv (Ok ([[]], SP :: l))).
Proof.
  induction wv as [|c t IH]; intros prev P L.
  - cbn [last] in L. split; intro l; cbn [app scan_tags pushes]; rewrite L; reflexivity.
  - cbn [pclean] in P. apply andb_true_iff in P as [P1 P2]. rewrite last_cons in L.
    destruct (IH c P2 L) as [I1 I2].
    assert (X : (c =? EQ) && negb (prev =? BSL) = false /\ (c =? COMMA) && negb (prev =? BSL) = false /\
                (c =? SP) && negb (prev =? BSL) = false).
    { destruct (prev =? BSL); [rewrite !andb_false_r; auto|].
      rewrite orb_false_r in P1. apply negb_true_iff in P1. unfold is_tag_stop in P1.
      apply orb_false_iff in P1 as [P1 C3]. apply orb_false_iff in P1 as [C1 C2]. rewrite C1, C2, C3. auto. }
    destruct X as [X1 [X2 X3]].
    split; intro l; cbn [app scan_tags pushes]; rewrite X1, X2, X3; [rewrite I1|rewrite I2]; reflexivity.
Qed.

Definition seg_of (kv : bytes * bytes) : bytes := escape_tag (fst kv) ++ EQ :: escape_tag (snd kv).

Lemma tag_text_seg kv : tag_text kv = COMMA :: seg_of kv.
Proof. reflexivity. Qed.

Lemma esc_tag_head s : s <> [] -> exists c0 w', escape_tag s = c0 :: w' /\ is_tag_stop c0 = false.
Proof.
  intro NE. destruct s as [|c t]; [congruence|]. rewrite escape_tag_set, esc_set_cons.
  destruct (is_tag_stop c) eqn:E; cbn; eexists _, _; (split; [reflexivity|]); [reflexivity|exact E].
Qed.

Definition tagpair_ok (kv : bytes * bytes) : bool :=
  nonempty (fst kv) && nonempty (snd kv) && bsl_safe is_tag_stop (fst kv) && bsl_safe is_tag_stop (snd kv).

(** one tag "k=v" starting in state KFirst, followed by [l] *)
Lemma scan_tags_one kv prev : tagpair_ok kv = true ->
  (forall l, scan_tags KFirst prev (seg_of kv ++ COMMA :: l) = pushes (seg_of kv) (newseg (scan_tags KFirst COMMA l))) /\
  (forall l, scan_tags KFirst prev (seg_of kv ++ SP :: l) = pushes (seg_of kv) (Ok ([[]], SP :: l))).
Proof.
  destruct kv as [k v]. unfold tagpair_ok, seg_of. cbn [fst snd]. intro H.
  apply andb_true_iff in H as [H Sv]. apply andb_true_iff in H as [H Sk]. apply andb_true_iff in H as [NEk NEv].
  assert (NEk' : k <> []) by (destruct k; [discriminate|discriminate]).
  assert (NEv' : v <> []) by (destruct v; [discriminate|discriminate]).
  destruct (esc_tag_head k NEk') as [k0 [kw [Ek Ck]]]. destruct (esc_tag_head v NEv') as [v0 [vw [Ev Cv]]].
  pose proof (pclean_esc is_tag_stop eq_refl k 0) as Pk. rewrite <- escape_tag_set, Ek in Pk.
  cbn [pclean] in Pk. apply andb_true_iff in Pk as [_ Pk].
  pose proof (last_esc is_tag_stop eq_refl k 0 Sk NEk') as Lk. rewrite <- escape_tag_set, Ek, last_cons in Lk.
  pose proof (pclean_esc is_tag_stop eq_refl v 0) as Pv. rewrite <- escape_tag_set, Ev in Pv.
  cbn [pclean] in Pv. apply andb_true_iff in Pv as [_ Pv].
  pose proof (last_esc is_tag_stop eq_refl v 0 Sv NEv') as Lv. rewrite <- escape_tag_set, Ev, last_cons in Lv.
  destruct (scan_tags_vloop vw v0 Pv Lv) as [V1 V2].
  unfold is_tag_stop in Ck, Cv. apply orb_false_iff in Ck as [Ck Ck3]. apply orb_false_iff in Ck as [Ck1 Ck2].
  apply orb_false_iff in Cv as [Cv Cv3]. apply orb_false_iff in Cv as [Cv1 Cv2].
  rewrite Ek, Ev.
  split; intro l; cbn [app scan_tags pushes]; rewrite Ck1, Ck2, Ck3; cbn [orb];
    rewrite <- List.app_assoc; cbn [app]; rewrite (scan_tags_kloop kw k0 _ Pk Lk);
    cbn [scan_tags]; rewrite Cv1, Cv2; cbn [orb]; [rewrite V1|rewrite V2];
    rewrite pushes_app; reflexivity.
Qed.

Fixpoint tags_body (ts : list (bytes * bytes)) : bytes :=   (* k1=v1,k2=v2 *)
  match ts with
  | [] => []
  | [kv] => seg_of kv
  | kv :: r => seg_of kv ++ COMMA :: tags_body r
  end.

Lemma flat_map_tag_text ts : ts <> [] -> flat_map tag_text ts = COMMA :: tags_body ts.
Proof.
  induction ts as [|kv r IH]; [congruence|]. intros _. cbn [flat_map]. rewrite tag_text_seg.
  destruct r as [|kv' r']; [cbn; rewrite List.app_nil_r; reflexivity|].
  rewrite IH; [|discriminate]. reflexivity.
Qed.

Lemma scan_tags_all ts : ts <> [] -> forallb tagpair_ok ts = true ->
  forall prev rest, scan_tags KFirst prev (tags_body ts ++ SP :: rest) = Ok (map seg_of ts, SP :: rest).
Proof.
  induction ts as [|kv r IH]; [congruence|]. intros _ H prev rest. cbn [forallb] in H.
  apply andb_true_iff in H as [H1 H2]. destruct (scan_tags_one kv prev H1) as [S1 S2].
  destruct r as [|kv' r'].
  - cbn [tags_body map]. rewrite S2, pushes_ok, List.app_nil_r. reflexivity.
  - change (tags_body (kv :: kv' :: r')) with (seg_of kv ++ COMMA :: tags_body (kv' :: r')).
    rewrite <- List.app_assoc. cbn [app]. rewrite S1, (IH ltac:(discriminate) H2 COMMA rest).
    cbn [newseg]. rewrite pushes_ok, List.app_nil_r. reflexivity.
Qed.

Lemma esc_plain S k : forallb (fun c => negb (S c)) k = true -> esc_set S k = k.
Proof.
  induction k as [|c t IH]; [reflexivity|]. cbn [forallb]. intro H. apply andb_true_iff in H as [H1 H2].
  rewrite esc_set_cons. apply negb_true_iff in H1. rewrite H1. cbn. f_equal. exact (IH H2).
Qed.

Lemma esc_no_bsl S k : forallb (fun c => negb (c =? BSL)) (esc_set S k) = true ->
  forallb (fun c => negb (S c)) k = true.
Proof.
  induction k as [|c t IH]; [reflexivity|]. rewrite esc_set_cons. destruct (S c) eqn:Sc; cbn [app forallb].
  - rewrite N.eqb_refl. discriminate.
  - intro H. apply andb_true_iff in H as [_ H]. rewrite Sc. cbn. exact (IH H).
Qed.

Lemma reserved_plain r : is_reserved r = true -> forallb (fun c => negb (c =? BSL)) r = true.
Proof.
  unfold is_reserved, reserved_keys. cbn [existsb]. rewrite !orb_true_iff.
  intros [H|[H|[H|[H|[H|H]]]]]; try discriminate;
    apply (list_eqb_spec N.eqb N.eqb_eq) in H; subst r; reflexivity.
Qed.

Lemma is_reserved_escape_tag k : is_reserved (escape_tag k) = is_reserved k.
Proof.
  destruct (is_reserved (escape_tag k)) eqn:E.
  - pose proof (reserved_plain _ E) as P. rewrite escape_tag_set in P. apply esc_no_bsl in P.
    rewrite escape_tag_set, (esc_plain _ _ P) in E. congruence.
  - destruct (is_reserved k) eqn:E2; [|reflexivity].
    pose proof (reserved_plain _ E2) as P.
    assert (Q : forallb (fun c => negb (is_tag_stop c)) k = true).
    { revert E2. unfold is_reserved, reserved_keys. cbn [existsb]. rewrite !orb_true_iff.
      intros [H|[H|[H|[H|[H|H]]]]]; try discriminate;
        apply (list_eqb_spec N.eqb N.eqb_eq) in H; subst k; reflexivity. }
    rewrite escape_tag_set, (esc_plain _ _ Q) in E. congruence.
Qed.

Lemma tag_key_seg kv : tagpair_ok kv = true -> tag_key (seg_of kv) = escape_tag (fst kv).
Proof.
  destruct kv as [k v]. unfold tagpair_ok, seg_of, tag_key. cbn [fst snd]. intro H.
  apply andb_true_iff in H as [H Sv]. apply andb_true_iff in H as [H Sk]. apply andb_true_iff in H as [NEk NEv].
  assert (NEk' : k <> []) by (destruct k; [discriminate|discriminate]).
  destruct (esc_tag_head k NEk') as [k0 [kw [Ek Ck]]].
  pose proof (pclean_esc is_tag_stop eq_refl k 0) as Pk. rewrite <- escape_tag_set, Ek in Pk.
  cbn [pclean] in Pk. apply andb_true_iff in Pk as [_ Pk].
  assert (Pk' : pclean (N.eqb EQ) k0 kw = true).
  { eapply pclean_mono; [|exact Pk]. intros c Hc. apply N.eqb_eq in Hc. subst. reflexivity. }
  pose proof (last_esc is_tag_stop eq_refl k 0 Sk NEk') as Lk. rewrite <- escape_tag_set, Ek, last_cons in Lk.
  assert (C0 : (k0 =? EQ) = false).
  { unfold is_tag_stop in Ck. apply orb_false_iff in Ck as [_ Ck]. exact Ck. }
  rewrite Ek. cbn [app]. rewrite (scan_to_first EQ k0 _ C0).
  destruct (scan_to_loop_tok EQ kw k0 (escape_tag v) Pk' Lk) as [I1 _]. rewrite I1. reflexivity.
Qed.

Lemma first_pass_of_sorted segs : strictly_sorted (map tag_key segs) = true -> first_pass segs = FPSorted.
Proof.
  induction segs as [|a r IH]; [reflexivity|]. cbn [map strictly_sorted first_pass].
  destruct r as [|b r']; [reflexivity|]. cbn [map].
  destruct (bcompare (tag_key a) (tag_key b)); try discriminate. exact IH.
Qed.

Lemma tags_ok_parts ts : tags_ok ts = true ->
  forallb tagpair_ok ts = true /\ key_tags_ok ts = true /\
  forallb (fun kv => negb (is_reserved (fst kv))) ts = true /\
  strictly_sorted (map (fun kv => escape_tag (fst kv)) ts) = true.
Proof.
  unfold tags_ok, key_tags_ok. intro H. apply andb_true_iff in H as [H S2]. apply andb_true_iff in H as [H _].
  assert (G : forall kv, In kv ts ->
     nonempty (fst kv) = true /\ bsl_safe is_tag_stop (fst kv) = true /\
     nonempty (snd kv) = true /\ bsl_safe is_tag_stop (snd kv) = true /\ is_reserved (fst kv) = false).
  { rewrite forallb_forall in H. intros kv Hin. specialize (H _ Hin). unfold tagtok_ok in H.
    rewrite !andb_true_iff in H. destruct H as [[[[A1 A2] A3] [[B1 B2] B3]] R].
    apply negb_true_iff in R. auto. }
  split; [|split; [|split; [|exact S2]]]; apply forallb_forall; intros kv Hin;
    destruct (G kv Hin) as [A1 [A3 [B1 [B3 R]]]].
  - unfold tagpair_ok. rewrite A1, B1, A3, B3. reflexivity.
  - rewrite B1, A3, B3. reflexivity.
  - rewrite R. reflexivity.
Qed.

Lemma skip_ws_name n l : name_ok n = true -> skip_ws (escape_meas n ++ l) = escape_meas n ++ l.
Proof.
  unfold name_ok. intro H. apply andb_true_iff in H as [H _]. apply andb_true_iff in H as [H _].
  destruct n as [|c t]; [discriminate|]. rewrite escape_meas_set, esc_set_cons.
  destruct (is_meas_stop c) eqn:E; cbn [app skip_ws]; [reflexivity|].
  unfold is_ws. unfold is_meas_stop in E. apply orb_false_iff in E as [_ E]. rewrite E.
  apply negb_true_iff in H. apply orb_false_iff in H as [H H0]. apply orb_false_iff in H as [_ H].
  rewrite H, H0. reflexivity.
Qed.

Lemma scan_key_printed n ts rest : name_ok n = true -> tags_ok ts = true ->
  scan_key (make_key n ts ++ SP :: rest) = Ok (make_key n ts, SP :: rest).
Proof.
  intros Hn Ht. destruct (name_ok_key n Hn) as [Hk Se].
  destruct (tags_ok_parts ts Ht) as [TP [KT [RS SS]]].
  pose proof Hk as Hk'. unfold key_name_ok in Hk'. apply andb_true_iff in Hk' as [_ Sn].
  unfold make_key, scan_key. rewrite (unescape_meas_safe n Sn), (hash_key_text ts KT).
  rewrite <- List.app_assoc, (skip_ws_name n _ Hn).
  destruct ts as [|kv r].
  - cbn [flat_map app]. destruct (scan_meas_tok n rest Hk) as [_ [M _]]. rewrite M, List.app_nil_r. reflexivity.
  - rewrite (flat_map_tag_text (kv :: r) ltac:(discriminate)). cbn [app].
    destruct (scan_meas_tok n (tags_body (kv :: r) ++ SP :: rest) Hk) as [M _]. rewrite M.
    rewrite (scan_tags_all (kv :: r) ltac:(discriminate) TP 0 rest).
    assert (TK : map tag_key (map seg_of (kv :: r)) = map (fun kv => escape_tag (fst kv)) (kv :: r)).
    { rewrite map_map. apply map_ext_in. intros x Hx. apply tag_key_seg. rewrite forallb_forall in TP. auto. }
    assert (RES : existsb (fun t => is_reserved (tag_key t)) (map seg_of (kv :: r)) = false).
    { destruct (existsb _ _) eqn:E; [|reflexivity]. apply existsb_exists in E as [x [Hx Rx]].
      apply in_map_iff in Hx as [y [<- Hy]]. rewrite forallb_forall in TP, RS.
      rewrite (tag_key_seg y (TP _ Hy)), is_reserved_escape_tag in Rx.
      specialize (RS _ Hy). rewrite Rx in RS. discriminate. }
    rewrite RES. rewrite (first_pass_of_sorted _ ltac:(rewrite TK; exact SS)).
    unfold build_key. rewrite <- (flat_map_tag_text (kv :: r) ltac:(discriminate)).
    do 3 f_equal. rewrite !flat_map_concat_map, map_map. reflexivity.
Qed.

(** ** Decimal integers: FormatInt / ParseInt *)
Lemma bytes_uint_uint_bytes u : bytes_uint (uint_bytes u) = Some u.
Proof. induction u; cbn [uint_bytes bytes_uint]; try rewrite IHu; reflexivity. Qed.

Lemma uint_bytes_digits u : forallb is_digit (uint_bytes u) = true.
Proof. induction u; cbn [uint_bytes forallb]; try rewrite IHu; reflexivity. Qed.

Lemma print_nat_nonempty n : print_nat n <> [].
Proof.
  unfold print_nat. destruct n as [|p]; [discriminate|]. cbn [N.to_uint].
  pose proof (DecimalPos.Unsigned.to_uint_nonnil p) as H. destruct (Pos.to_uint p); [congruence| | | | | | | | | |]; discriminate.
Qed.

Lemma print_nat_digits n : forallb is_digit (print_nat n) = true.
Proof. apply uint_bytes_digits. Qed.

Lemma parse_digits_print_nat n : parse_digits (print_nat n) = Some n.
Proof.
  unfold parse_digits. pose proof (print_nat_nonempty n) as NE.
  destruct (print_nat n) eqn:E; [congruence|]. rewrite <- E. unfold print_nat.
  rewrite bytes_uint_uint_bytes, DecimalN.Unsigned.of_to. reflexivity.
Qed.

Lemma parse_uint64_print n : n <= MaxUint64 -> parse_uint64 (print_nat n) = Some n.
Proof. intro H. unfold parse_uint64. rewrite parse_digits_print_nat. apply N.leb_le in H. rewrite H. reflexivity. Qed.

Lemma print_nat_head n : exists c t, print_nat n = c :: t /\ is_digit c = true.
Proof.
  pose proof (print_nat_nonempty n) as NE. pose proof (print_nat_digits n) as D.
  destruct (print_nat n) as [|c t]; [congruence|]. cbn in D. apply andb_true_iff in D as [D _]. eauto.
Qed.

Lemma digit_not_sign c : is_digit c = true -> (c =? MINUS) = false /\ (c =? PLUS) = false.
Proof. unfold is_digit, MINUS, PLUS. intro H. lia. Qed.

Lemma parse_int64_print z : (MinInt64 <= z <= MaxInt64)%Z -> parse_int64 (print_int z) = Some z.
Proof.
  intro R. assert (RB : ((MinInt64 <=? z)%Z && (z <=? MaxInt64)%Z) = true) by lia.
  unfold print_int. destruct z as [|p|p].
  - cbn. reflexivity.
  - destruct (print_nat_head (Z.to_N (Z.pos p))) as [c [t [E D]]]. destruct (digit_not_sign c D) as [M P].
    unfold parse_int64. rewrite E, M, P. rewrite <- E, parse_digits_print_nat. cbn [Z.to_N Z.of_N]. rewrite RB. reflexivity.
  - unfold parse_int64. change (MINUS =? MINUS) with true. cbn iota. rewrite parse_digits_print_nat.
    cbn [Z.of_N Z.opp]. rewrite RB. reflexivity.
Qed.

(** ** The timestamp section *)
Lemma scan_time_loop_digits ds : forallb is_digit ds = true -> forall first, scan_time_loop first ds = Ok (ds, []).
Proof.
  induction ds as [|c t IH]; intros D first; [reflexivity|]. cbn [forallb] in D. apply andb_true_iff in D as [D1 D2].
  cbn [scan_time_loop]. assert (X : (c =? NL) = false /\ (c =? SP) = false /\ (c =? MINUS) = false)
    by (unfold is_digit, NL, SP, MINUS in *; lia).
  destruct X as [X1 [X2 X3]]. rewrite X1, X2, X3, D1, andb_false_r. cbn. rewrite (IH D2 false). reflexivity.
Qed.

Lemma scan_time_print z : scan_time (SP :: print_int z) = Ok (print_int z, []).
Proof.
  unfold scan_time. cbn [skip_ws]. unfold is_ws. rewrite N.eqb_refl. cbn [orb].
  assert (NW : forall c t, (is_digit c = true \/ c = MINUS) -> skip_ws (c :: t) = c :: t).
  { intros c t H. cbn [skip_ws]. unfold is_ws, is_digit, MINUS, SP, TAB in *.
    assert (((c =? 32) || (c =? 9) || (c =? 0)) = false) by lia. rewrite H0. reflexivity. }
  unfold print_int. destruct z as [|p|p].
  - reflexivity.
  - destruct (print_nat_head (Z.to_N (Z.pos p))) as [c [t [E D]]]. rewrite E, NW by auto. rewrite <- E.
    apply scan_time_loop_digits, print_nat_digits.
  - rewrite NW by auto. cbn [scan_time_loop]. change (MINUS =? NL) with false. change (MINUS =? SP) with false.
    change (MINUS =? MINUS) with true. cbn [orb andb]. rewrite (scan_time_loop_digits _ (print_nat_digits _) false). reflexivity.
Qed.

Lemma print_int_nonempty z : print_int z <> [].
Proof. unfold print_int. destruct z; try apply print_nat_nonempty. discriminate. Qed.

Lemma wrap64_small t : (MinInt64 <= t <= MaxInt64)%Z -> wrap64 t = t.
Proof. unfold wrap64, MinInt64, MaxInt64. intro H. rewrite Z.mod_small; lia. Qed.

Lemma safe_calc_time_exact t prec :
  time_ok t = true -> (t mod prec_mult prec = 0)%Z ->
  safe_calc_time (Z.quot t (prec_mult prec)) prec = Some t /\
  (MinInt64 <= Z.quot t (prec_mult prec) <= MaxInt64)%Z.
Proof.
  intros TO DIV. unfold time_ok, MinNanoTime, MaxNanoTime, MinInt64, MaxInt64 in TO.
  assert (R : (- 2 ^ 63 + 2 <= t <= 2 ^ 63 - 1 - 1)%Z) by lia.
  set (m := prec_mult prec) in *.
  assert (Hm : (m = 1 \/ m = 1000 \/ m = 1000000 \/ m = 1000000000)%Z) by (unfold m; destruct prec; cbn; auto).
  assert (m0 : (m <> 0)%Z) by lia.
  assert (EX : (t = m * Z.quot t m)%Z) by (apply Z.quot_exact; [exact m0|apply Z.rem_mod_eq_0; assumption]).
  set (q := Z.quot t m) in *.
  assert (QR : (MinInt64 <= q <= MaxInt64)%Z) by (unfold MinInt64, MaxInt64; nia).
  split; [|exact QR].
  unfold safe_calc_time, safe_signed_mult. fold m.
  assert (TOK : time_ok (q * m) = true) by (replace (q * m)%Z with t by lia; unfold time_ok, MinNanoTime, MaxNanoTime, MinInt64, MaxInt64; lia).
  destruct ((q =? 0)%Z || (m =? 0)%Z || (q =? 1)%Z || (m =? 1)%Z) eqn:E1.
  - cbn beta iota. rewrite TOK. f_equal. lia.
  - assert (m1 : (m <> 1)%Z) by lia.
    assert (E2 : ((q =? MinNanoTime)%Z || (m =? MaxNanoTime)%Z) = false).
    { unfold MinNanoTime, MaxNanoTime, MinInt64, MaxInt64. apply orb_false_iff. split; apply Z.eqb_neq; nia. }
    rewrite E2. rewrite wrap64_small by (unfold MinInt64, MaxInt64; nia).
    assert (E3 : (Z.quot (q * m) m =? q)%Z = true) by (apply Z.eqb_eq; replace (q * m)%Z with t by lia; reflexivity).
    rewrite E3.
    cbn beta iota. rewrite TOK. f_equal. lia.
Qed.

Lemma blen_cons' c l : blen (c :: l) = 1 + blen l.
Proof. unfold blen. cbn [length]. lia. Qed.

(** ** Field values: text -> typed value *)
Lemma unescape_sf_escape s : unescape_string_field (escape_string_field s) = s.
Proof.
  induction s as [|c t IH]; [reflexivity|]. unfold escape_string_field in *. cbn [flat_map].
  destruct ((c =? DQ) || (c =? BSL)) eqn:E; cbn [app unescape_string_field].
  - rewrite N.eqb_refl. rewrite orb_comm in E. rewrite E. f_equal. exact IH.
  - apply orb_false_iff in E as [_ E]. rewrite E. f_equal. exact IH.
Qed.

Lemma print_int_head z : exists c t, print_int z = c :: t /\ (is_digit c = true \/ c = MINUS).
Proof.
  unfold print_int. destruct z as [|p|p].
  - destruct (print_nat_head (Z.to_N 0)) as [c [t [E D]]]. eauto.
  - destruct (print_nat_head (Z.to_N (Z.pos p))) as [c [t [E D]]]. eauto.
  - eauto.
Qed.

Lemma last_snoc {A} (l : list A) x d : last (l ++ [x]) d = x.
Proof. apply last_last. Qed.

Lemma field_value_int z : (MinInt64 <= z <= MaxInt64)%Z -> field_value (print_int z ++ [105]) = VInt z.
Proof.
  intro R. destruct (print_int_head z) as [c [t [E H]]]. unfold field_value.
  rewrite last_snoc, removelast_last, parse_int64_print by exact R.
  rewrite E. cbn [app]. assert (X : (c =? DQ) = false /\ num_type_start c = true).
  { unfold num_type_start, is_digit, DQ, MINUS, DOT in *. destruct H as [H| ->]; [lia|split; reflexivity]. }
  destruct X as [X1 X2]. rewrite X1, X2. reflexivity.
Qed.

Lemma field_value_uint n : n <= MaxUint64 -> field_value (print_nat n ++ [117]) = VUint n.
Proof.
  intro R. destruct (print_nat_head n) as [c [t [E H]]]. unfold field_value.
  rewrite last_snoc, removelast_last, parse_uint64_print by exact R.
  rewrite E. cbn [app]. assert (X : (c =? DQ) = false /\ num_type_start c = true).
  { unfold num_type_start, is_digit, DQ, MINUS, DOT in *. lia. }
  destruct X as [X1 X2]. rewrite X1, X2. reflexivity.
Qed.

Lemma field_value_str s : field_value (DQ :: escape_string_field s ++ [DQ]) = VStr s.
Proof.
  unfold field_value. rewrite N.eqb_refl. cbn [tl]. rewrite removelast_last, unescape_sf_escape.
  destruct (escape_string_field s ++ [DQ]) eqn:E; [destruct (escape_string_field s); discriminate|reflexivity].
Qed.

Lemma field_value_print pf v : value_ok pf v = true -> field_value (print_value pf v) = v.
Proof.
  destruct v as [z|n|b|[|]|s| |e]; cbn [value_ok print_value]; intro H; try discriminate.
  - apply field_value_int. unfold MinInt64, MaxInt64 in *. lia.
  - apply field_value_uint. apply N.leb_le. exact H.
  - rewrite !andb_true_iff in H. destruct H as [_ H].
    destruct (field_value (pf b)); try discriminate. apply N.eqb_eq in H. subst. reflexivity.
  - reflexivity.
  - reflexivity.
  - apply field_value_str.
Qed.

(** ** walkFields / the FieldIterator on the printed fields *)
Fixpoint pushks (w : bytes) (r : wres) : wres := match w with [] => r | c :: t => pushk c (pushks t r) end.
Fixpoint pushvs (w : bytes) (r : wres) : wres := match w with [] => r | c :: t => pushv c (pushvs t r) end.

Lemma pushks_ok w k v ps : pushks w (Ok ((k, v) :: ps)) = Ok ((w ++ k, v) :: ps).
Proof. induction w as [|c t IH]; [reflexivity|]. cbn [pushks app]. rewrite IH. reflexivity. Qed.
Lemma pushvs_ok w k v ps : pushvs w (Ok ((k, v) :: ps)) = Ok ((k, w ++ v) :: ps).
Proof. induction w as [|c t IH]; [reflexivity|]. cbn [pushvs app]. rewrite IH. reflexivity. Qed.
Lemma pushvs_app a b r : pushvs (a ++ b) r = pushvs a (pushvs b r).
Proof. induction a as [|x a IH]; [reflexivity|]. cbn [app pushvs]. rewrite IH. reflexivity. Qed.

Definition plain_val (c : N) : bool := negb ((c =? DQ) || (c =? BSL) || (c =? COMMA)).

Lemma split_val_plain klen q : forall w l, forallb plain_val w = true ->
  split_fields_st klen (WVal q) (w ++ l) = pushvs w (split_fields_st klen (WVal q) l).
Proof.
  induction w as [|c t IH]; intros l H; [reflexivity|]. cbn [forallb] in H. apply andb_true_iff in H as [H1 H2].
  unfold plain_val in H1. apply negb_true_iff in H1. apply orb_false_iff in H1 as [H1 C3].
  apply orb_false_iff in H1 as [C1 C2].
  cbn [app split_fields_st pushvs]. rewrite C2, C1, C3. cbn [andb]. rewrite (IH l H2). reflexivity.
Qed.

Lemma split_val_esf klen : forall s l,
  split_fields_st klen (WVal true) (escape_string_field s ++ l)
  = pushvs (escape_string_field s) (split_fields_st klen (WVal true) l).
Proof.
  induction s as [|c t IH]; intro l; [reflexivity|]. unfold escape_string_field in *. cbn [flat_map].
  destruct ((c =? DQ) || (c =? BSL)) eqn:E; rewrite <- List.app_assoc; cbn [app split_fields_st pushvs].
  - rewrite N.eqb_refl, E. rewrite (IH l). reflexivity.
  - apply orb_false_iff in E as [E1 E2]. rewrite E2, E1. cbn [negb andb]. rewrite andb_false_r. rewrite (IH l). reflexivity.
Qed.

(** a value text is passed through by scanFieldValue *)
Definition val_through (vt : bytes) : Prop :=
  forall klen l, split_fields_st klen (WVal false) (vt ++ l) = pushvs vt (split_fields_st klen (WVal false) l).

Lemma val_through_plain w : forallb plain_val w = true -> val_through w.
Proof. intros H klen l. apply split_val_plain. exact H. Qed.

Lemma val_through_str s : val_through (DQ :: escape_string_field s ++ [DQ]).
Proof.
  intros klen l. cbn [app split_fields_st pushvs]. change (DQ =? BSL) with false. rewrite N.eqb_refl. cbn [negb].
  rewrite <- List.app_assoc, split_val_esf, pushvs_app. cbn [app split_fields_st pushvs].
  change (DQ =? BSL) with false. rewrite N.eqb_refl. reflexivity.
Qed.

Lemma digits_plain w : forallb is_digit w = true -> forallb plain_val w = true.
Proof.
  intro H. rewrite forallb_forall in *. intros c Hc. specialize (H _ Hc).
  unfold plain_val, is_digit, DQ, BSL, COMMA in *. lia.
Qed.

Lemma print_int_plain z : forallb plain_val (print_int z) = true.
Proof.
  unfold print_int. destruct z; try (apply digits_plain, print_nat_digits).
  cbn [forallb]. rewrite (digits_plain _ (print_nat_digits _)). reflexivity.
Qed.

Lemma val_through_print pf v : value_ok pf v = true -> val_through (print_value pf v).
Proof.
  destruct v as [z|n|b|[|]|s| |e]; cbn [value_ok print_value]; intro H; try discriminate.
  - apply val_through_plain. rewrite forallb_app, print_int_plain. reflexivity.
  - apply val_through_plain. rewrite forallb_app, (digits_plain _ (print_nat_digits _)). reflexivity.
  - apply val_through_plain. rewrite !andb_true_iff in H. destruct H as [[[_ H] _] _].
    rewrite forallb_forall in *. intros c Hc. specialize (H _ Hc).
    unfold plain_val, is_digit, DOT, MINUS, DQ, BSL, COMMA in *. lia.
  - apply val_through_plain. reflexivity.
  - apply val_through_plain. reflexivity.
  - apply val_through_str.
Qed.

Lemma print_value_nonempty pf v : value_ok pf v = true -> print_value pf v <> [].
Proof.
  destruct v as [z|n|b|[|]|s| |e]; cbn [value_ok print_value]; intro H; try discriminate.
  - destruct (print_int z); discriminate.
  - destruct (print_nat n); discriminate.
  - rewrite !andb_true_iff in H. destruct H as [[[[_ H] _] _] _]. destruct (pf b); [discriminate|discriminate].
Qed.

Lemma split_key klen : forall wk prev n rest,
  pclean (N.eqb EQ) prev wk = true -> (last wk prev =? BSL) = false -> rest <> [] ->
  klen + 4 + n + blen wk <= MaxKeyLength ->
  split_fields_st klen (WKey false prev n) (wk ++ EQ :: rest)
  = pushks wk (split_fields_st klen (WVal false) rest).
Proof.
  induction wk as [|c t IH]; intros prev n rest P L NE B.
  - cbn [last] in L. cbn [app split_fields_st pushks]. rewrite N.eqb_refl, L. cbn [orb negb andb].
    destruct rest; [congruence|]. unfold blen in B. cbn [length] in B.
    assert (X : (MaxKeyLength <? klen + 4 + n) = false) by (apply N.ltb_ge; lia). rewrite X. reflexivity.
  - cbn [pclean] in P. apply andb_true_iff in P as [P1 P2]. rewrite last_cons in L.
    cbn [app split_fields_st pushks]. cbn [orb].
    assert (X : (c =? EQ) && negb (prev =? BSL) = false).
    { destruct (prev =? BSL); [apply andb_false_r|]. rewrite orb_false_r in P1.
      apply negb_true_iff in P1. rewrite N.eqb_sym, P1. reflexivity. }
    rewrite X. rewrite (IH c (n + 1) rest P2 L NE); [reflexivity|].
    rewrite blen_cons' in B. lia.
Qed.

Definition ptext (pf : N -> bytes) (kv : bytes * fval) : bytes * bytes :=
  (escape_string (fst kv), print_value pf (snd kv)).

Definition field_ok (pf : N -> bytes) (klen : N) (kv : bytes * fval) : Prop :=
  fieldkey_ok (fst kv) = true /\ value_ok pf (snd kv) = true /\
  klen + 4 + blen (escape_string (fst kv)) <= MaxKeyLength.

Lemma esc_string_head k : k <> [] ->
  exists c0 w', escape_string k = c0 :: w' /\ is_esc_char c0 = false.
Proof.
  intro NE. destruct k as [|c t]; [congruence|]. rewrite escape_string_set, esc_set_cons.
  destruct (is_esc_char c) eqn:E; cbn; eexists _, _; (split; [reflexivity|]); [reflexivity|exact E].
Qed.

Lemma split_one_field pf klen kv l : field_ok pf klen kv ->
  split_fields_st klen (WKey true 0 0) (escape_string (fst kv) ++ EQ :: print_value pf (snd kv) ++ l)
  = pushks (escape_string (fst kv)) (pushvs (print_value pf (snd kv)) (split_fields_st klen (WVal false) l)).
Proof.
  destruct kv as [k v]. unfold field_ok, fieldkey_ok. cbn [fst snd]. intros [HK [HV B]].
  apply andb_true_iff in HK as [HK Sk]. apply andb_true_iff in HK as [NEk _].
  assert (NEk' : k <> []) by (destruct k; [discriminate|discriminate]).
  destruct (esc_string_head k NEk') as [c0 [w' [E C0]]].
  pose proof (pclean_esc is_esc_char eq_refl k 0) as P. rewrite <- escape_string_set, E in P.
  cbn [pclean] in P. apply andb_true_iff in P as [_ P].
  assert (P' : pclean (N.eqb EQ) c0 w' = true).
  { eapply pclean_mono; [|exact P]. intros c Hc. apply N.eqb_eq in Hc. subst. reflexivity. }
  pose proof (last_esc is_esc_char eq_refl k 0 Sk NEk') as L. rewrite <- escape_string_set, E, last_cons in L.
  assert (C0' : (c0 =? EQ) = false).
  { unfold is_esc_char in C0. apply orb_false_iff in C0 as [_ C0]. exact C0. }
  rewrite E in *. cbn [app split_fields_st pushks]. rewrite C0'. cbn [andb].
  pose proof (print_value_nonempty pf v HV) as NEv.
  rewrite (split_key klen w' c0 (0 + 1) (print_value pf v ++ l) P' L).
  - rewrite (val_through_print pf v HV klen l). reflexivity.
  - destruct (print_value pf v); [congruence|discriminate].
  - rewrite blen_cons' in B. lia.
Qed.

Lemma print_fields_cons pf kv r : r <> [] ->
  print_fields pf (kv :: r) = escape_string (fst kv) ++ EQ :: print_value pf (snd kv) ++ COMMA :: print_fields pf r.
Proof. destruct kv as [k v]. destruct r; [congruence|reflexivity]. Qed.

Lemma print_fields_one pf kv :
  print_fields pf [kv] = escape_string (fst kv) ++ EQ :: print_value pf (snd kv) ++ [].
Proof. destruct kv as [k v]. cbn. rewrite List.app_nil_r. reflexivity. Qed.

Lemma print_fields_nonempty pf fs : fs <> [] -> print_fields pf fs <> [].
Proof.
  destruct fs as [|[k v] r]; [congruence|]. intros _. destruct r.
  - cbn. destruct (escape_string k); discriminate.
  - cbn. destruct (escape_string k); discriminate.
Qed.

Lemma split_fields_st_printed pf klen fs : fs <> [] -> Forall (field_ok pf klen) fs ->
  split_fields_st klen (WKey true 0 0) (print_fields pf fs) = Ok (map (ptext pf) fs).
Proof.
  induction fs as [|kv r IH]; [congruence|]. intros _ H. inversion H as [|? ? H1 H2]; subst.
  destruct r as [|kv' r'].
  - rewrite print_fields_one, (split_one_field pf klen kv [] H1). cbn [split_fields_st].
    rewrite pushvs_ok, pushks_ok, !List.app_nil_r. reflexivity.
  - rewrite print_fields_cons by discriminate. rewrite (split_one_field pf klen kv _ H1).
    pose proof (print_fields_nonempty pf (kv' :: r') ltac:(discriminate)) as NE.
    cbn [split_fields_st]. change (COMMA =? BSL) with false. change (COMMA =? DQ) with false.
    rewrite N.eqb_refl. cbn [negb andb].
    specialize (IH ltac:(discriminate) H2).
    destruct (print_fields pf (kv' :: r')) as [|x xs] eqn:E; [congruence|].
    rewrite IH. cbn [newpair]. rewrite pushvs_ok, pushks_ok, !List.app_nil_r. reflexivity.
Qed.

Lemma split_fields_printed pf klen fs : fs <> [] -> Forall (field_ok pf klen) fs ->
  split_fields klen (print_fields pf fs) = Ok (map (ptext pf) fs).
Proof.
  intros NE H. unfold split_fields. pose proof (print_fields_nonempty pf fs NE) as NE'.
  destruct (print_fields pf fs) eqn:E; [congruence|]. rewrite <- E. apply split_fields_st_printed; auto.
Qed.

Lemma field_ok_klen0 pf klen kv : field_ok pf klen kv -> field_ok pf 0 kv.
Proof. unfold field_ok. intros [A [B C]]. repeat split; auto. lia. Qed.

Lemma fields_of_printed pf klen fs : fs <> [] -> Forall (field_ok pf klen) fs ->
  fields_of (print_fields pf fs) = fs.
Proof.
  intros NE H. unfold fields_of.
  rewrite (split_fields_printed pf 0 fs NE); [|eapply Forall_impl; [|exact H]; intros; eapply field_ok_klen0; eauto].
  rewrite map_map. rewrite <- (map_id fs) at 2. apply map_ext_in. intros [k v] Hin.
  rewrite Forall_forall in H. destruct (H _ Hin) as [HK [HV _]]. cbn [fst snd] in *. unfold ptext. cbn [fst snd].
  unfold fieldkey_ok in HK. apply andb_true_iff in HK as [_ Sk].
  rewrite escape_string_set, (unescape4_esc is_esc_char (fun c H => H) k Sk), (field_value_print pf v HV). reflexivity.
Qed.

(** ** scanFields on the printed fields *)
Fixpoint fconss (w : bytes) (r : fres) : fres := match w with [] => r | c :: t => fcons c (fconss t r) end.
Lemma fconss_ok w a rest : fconss w (Ok (a, rest)) = Ok (w ++ a, rest).
Proof. induction w as [|c t IH]; [reflexivity|]. cbn [fconss app]. rewrite IH. reflexivity. Qed.
Lemma fconss_app a b r : fconss (a ++ b) r = fconss a (fconss b r).
Proof. induction a as [|x a IH]; [reflexivity|]. cbn [app fconss]. rewrite IH. reflexivity. Qed.

Lemma sf_step_bsl q eq cm p1 p2 a t2 :
  scan_fields_st FNorm q eq cm p1 p2 (BSL :: a :: t2) = fcons BSL (fcons a (scan_fields_st FNorm q eq cm a BSL t2)).
Proof. reflexivity. Qed.

Lemma sf_step_other c t q eq cm p1 p2 :
  (c =? BSL) = false -> ((c =? DQ) && (cm <? eq)) = false -> ((c =? EQ) && negb q) = false ->
  ((c =? COMMA) && negb q) = false -> ((c =? SP) && negb q) = false ->
  scan_fields_st FNorm q eq cm p1 p2 (c :: t) = fcons c (scan_fields_st FNorm q eq cm c p1 t).
Proof. intros B D E C S. cbn [scan_fields_st]. rewrite B, D, E, C, S. reflexivity. Qed.

Definition ok_prev (p1 p2 : N) : bool := negb (((p1 =? SP) || (p1 =? COMMA)) && negb (p2 =? BSL)).

Lemma esc_char_cases c : is_esc_char c = false ->
  (c =? COMMA) = false /\ (c =? DQ) = false /\ (c =? SP) = false /\ (c =? EQ) = false.
Proof. unfold is_esc_char. intro H. repeat (apply orb_false_iff in H as [H ?]). auto. Qed.

(** an escaped field key in key position (equals = commas) *)
Lemma sf_key : forall k, bsl_safe is_esc_char k = true -> forall eq p1 p2 l,
  (k = [] -> ok_prev p1 p2 = true) ->
  exists p1' p2', ok_prev p1' p2' = true /\
    scan_fields_st FNorm false eq eq p1 p2 (escape_string k ++ l)
    = fconss (escape_string k) (scan_fields_st FNorm false eq eq p1' p2' l).
Proof.
  induction k as [k IH] using list_len_ind. intros S eq p1 p2 l OK.
  destruct k as [|c t]; [exists p1, p2; split; [auto|reflexivity]|].
  pose proof (bsl_safe_tail _ _ _ S) as St. rewrite escape_string_set in *. rewrite esc_set_cons.
  destruct (is_esc_char c) eqn:Ec; cbn [app].
  - (* \c *)
    destruct (IH t ltac:(cbn; lia) St eq c BSL l) as [p1' [p2' [O E]]].
    { intros _. unfold ok_prev. rewrite N.eqb_refl. cbn. rewrite andb_false_r. reflexivity. }
    exists p1', p2'. split; [exact O|]. rewrite sf_step_bsl. rewrite escape_string_set in E. rewrite E. reflexivity.
  - destruct (esc_char_cases c Ec) as [C1 [C2 [C3 C4]]]. destruct (c =? BSL) eqn:B.
    + (* an original backslash: followed by a non-escapable byte, consumed with it *)
      apply N.eqb_eq in B. subst c. cbn [bsl_safe] in S. change (BSL =? BSL) with true in S. cbn iota in S.
      destruct t as [|a t']; [discriminate|]. apply andb_true_iff in S as [Sa _]. apply negb_true_iff in Sa.
      pose proof (bsl_safe_tail _ _ _ St) as St'.
      rewrite esc_set_cons, Sa. cbn [app].
      destruct (IH t' ltac:(cbn; lia) St' eq a BSL l) as [p1' [p2' [O E]]].
      { intros _. unfold ok_prev. rewrite N.eqb_refl. cbn. rewrite andb_false_r. reflexivity. }
      exists p1', p2'. split; [exact O|]. rewrite sf_step_bsl. rewrite escape_string_set in E. rewrite E. reflexivity.
    + destruct (IH t ltac:(cbn; lia) St eq c p1 l) as [p1' [p2' [O E]]].
      { intros _. unfold ok_prev. rewrite C3, C1. reflexivity. }
      exists p1', p2'. split; [exact O|].
      rewrite sf_step_other; [|exact B|rewrite C2; reflexivity|rewrite C4; reflexivity|rewrite C1; reflexivity|rewrite C3; reflexivity].
      rewrite escape_string_set in E. rewrite E. reflexivity.
Qed.

(** inside scanNumber / scanBoolean the look-back bytes are not used *)
Lemma sf_tok_indep : forall l isnum racc q eq cm p1 p2 p1' p2',
  scan_fields_st (FTok isnum racc) q eq cm p1 p2 l = scan_fields_st (FTok isnum racc) q eq cm p1' p2' l.
Proof.
  induction l as [|c t IH]; intros; [reflexivity|]. cbn [scan_fields_st].
  destruct ((c =? COMMA) || (c =? SP)); [reflexivity|]. f_equal. apply IH.
Qed.

Definition tok_char (c : N) : bool := negb ((c =? COMMA) || (c =? SP)).

Lemma sf_tok : forall w isnum racc eq cm p1 p2 l, forallb tok_char w = true ->
  scan_fields_st (FTok isnum racc) false eq cm p1 p2 (w ++ l)
  = fconss w (scan_fields_st (FTok isnum (rev w ++ racc)) false eq cm p1 p2 l).
Proof.
  induction w as [|c t IH]; intros isnum racc eq cm p1 p2 l H; [reflexivity|].
  cbn [forallb] in H. apply andb_true_iff in H as [H1 H2]. unfold tok_char in H1. apply negb_true_iff in H1.
  cbn [app scan_fields_st fconss]. rewrite H1. rewrite (IH isnum (c :: racc) eq cm c p1 l H2).
  cbn [rev]. rewrite <- List.app_assoc. cbn [app]. f_equal. f_equal. apply sf_tok_indep.
Qed.

(** what follows a value: end of input, a space (end of the fields), or a comma (next field) *)
Inductive after_val (eq : N) : bytes -> fres -> Prop :=
| AV_end : after_val eq [] (fields_fin false (eq + 1) eq [])
| AV_sp l : after_val eq (SP :: l) (fields_fin false (eq + 1) eq (SP :: l))
| AV_comma l pX : after_val eq (COMMA :: l) (fcons COMMA (scan_fields_st FNorm false (eq + 1) (eq + 1) COMMA pX l)).

Definition sf_val (vt : bytes) : Prop :=
  forall eq p1 p2 l, ok_prev p1 p2 = true -> (l = [] \/ (exists l', l = SP :: l') \/ (exists l', l = COMMA :: l')) ->
  exists r, after_val eq l r /\
    scan_fields_st FNorm false eq eq p1 p2 (EQ :: vt ++ l) = fcons EQ (fconss vt r).

Lemma ok_prev_eq p1 p2 : ok_prev p1 p2 = true ->
  ((p1 =? SP) && negb (p2 =? BSL)) = false /\ ((p1 =? COMMA) && negb (p2 =? BSL)) = false.
Proof.
  unfold ok_prev. intro H. apply negb_true_iff in H.
  destruct (p1 =? SP), (p1 =? COMMA), (p2 =? BSL); cbn in *; auto; discriminate.
Qed.

(** tokens (numbers and booleans) *)
Lemma sf_val_token vt isnum :
  vt <> [] -> forallb tok_char vt = true -> check_token isnum vt = Ok tt ->
  (match vt with c :: _ => num_start c = isnum /\ (c =? DQ) = false | [] => False end) ->
  sf_val vt.
Proof.
  intros NE TC CK HD eq p1 p2 l OK TL. destruct (ok_prev_eq p1 p2 OK) as [O1 O2].
  destruct vt as [|n vt']; [congruence|]. destruct HD as [NS ND].
  pose proof TC as TC'. cbn [forallb] in TC'. apply andb_true_iff in TC' as [Tn _].
  unfold tok_char in Tn. apply negb_true_iff in Tn.
  assert (START : scan_fields_st FNorm false eq eq p1 p2 (EQ :: (n :: vt') ++ l)
          = fcons EQ (scan_fields_st (FTok isnum []) false (eq + 1) eq EQ p1 ((n :: vt') ++ l))).
  { cbn [app scan_fields_st]. change (EQ =? BSL) with false. change (EQ =? DQ) with false.
    rewrite N.eqb_refl. cbn [andb negb]. rewrite O1, O2, Tn, NS, ND. destruct isnum; reflexivity. }
  rewrite START, (sf_tok (n :: vt') isnum [] (eq + 1) eq EQ p1 l TC). rewrite List.app_nil_r.
  assert (RV : frev (rev (n :: vt')) = n :: vt') by (rewrite frev_rev; apply rev_involutive).
  destruct TL as [->|[[l' ->]|[l' ->]]].
  - eexists. split; [apply AV_end|]. cbn [scan_fields_st]. rewrite RV, CK. reflexivity.
  - eexists. split; [apply AV_sp|]. cbn [scan_fields_st]. change (SP =? COMMA) with false. rewrite N.eqb_refl.
    cbn [orb]. rewrite RV, CK. reflexivity.
  - eexists. split; [apply (AV_comma eq l' (hd 0 (rev (n :: vt'))))|]. cbn [scan_fields_st]. rewrite N.eqb_refl.
    cbn [orb]. rewrite RV, CK. reflexivity.
Qed.

(** quoted strings *)
Lemma sf_esf : forall s eq cm p1 p2 l, exists p1' p2',
  scan_fields_st FNorm true eq cm p1 p2 (escape_string_field s ++ l)
  = fconss (escape_string_field s) (scan_fields_st FNorm true eq cm p1' p2' l).
Proof.
  induction s as [|c t IH]; intros eq cm p1 p2 l; [exists p1, p2; reflexivity|].
  unfold escape_string_field in *. cbn [flat_map].
  destruct ((c =? DQ) || (c =? BSL)) eqn:E; rewrite <- List.app_assoc; cbn [app].
  - destruct (IH eq cm c BSL l) as [p1' [p2' H]]. exists p1', p2'. rewrite sf_step_bsl, H. reflexivity.
  - apply orb_false_iff in E as [E1 E2]. destruct (IH eq cm c p1 l) as [p1' [p2' H]]. exists p1', p2'.
    rewrite sf_step_other; [rewrite H; reflexivity|exact E2|rewrite E1; reflexivity| | |]; apply andb_false_r.
Qed.

Lemma sf_val_str s : sf_val (DQ :: escape_string_field s ++ [DQ]).
Proof.
  intros eq p1 p2 l OK TL. destruct (ok_prev_eq p1 p2 OK) as [O1 O2].
  assert (LT : (eq <? eq + 1) = true) by (apply N.ltb_lt; lia).
  assert (START : scan_fields_st FNorm false eq eq p1 p2 (EQ :: (DQ :: escape_string_field s ++ [DQ]) ++ l)
          = fcons EQ (fcons DQ (scan_fields_st FNorm true (eq + 1) eq DQ EQ (escape_string_field s ++ DQ :: l)))).
  { cbn [app scan_fields_st]. change (EQ =? BSL) with false. change (EQ =? DQ) with false.
    rewrite N.eqb_refl. cbn [andb negb]. rewrite O1, O2.
    change (DQ =? COMMA) with false. change (DQ =? SP) with false. change (num_start DQ) with false.
    rewrite N.eqb_refl. cbn [orb negb]. change (DQ =? BSL) with false. rewrite LT. cbn [andb].
    rewrite <- List.app_assoc. reflexivity. }
  rewrite START. destruct (sf_esf s (eq + 1) eq DQ EQ (DQ :: l)) as [p1' [p2' E]]. rewrite E.
  assert (CLOSE : scan_fields_st FNorm true (eq + 1) eq p1' p2' (DQ :: l)
          = fcons DQ (scan_fields_st FNorm false (eq + 1) eq DQ p1' l)).
  { cbn [scan_fields_st]. change (DQ =? BSL) with false. rewrite N.eqb_refl, LT. reflexivity. }
  rewrite CLOSE.
  assert (SHAPE : forall r, fcons EQ (fcons DQ (fconss (escape_string_field s) (fcons DQ r)))
                  = fcons EQ (fconss (DQ :: escape_string_field s ++ [DQ]) r)).
  { intro r. cbn [fconss]. rewrite fconss_app. reflexivity. }
  destruct TL as [->|[[l' ->]|[l' ->]]].
  - eexists. split; [apply AV_end|]. rewrite <- SHAPE. reflexivity.
  - eexists. split; [apply AV_sp|]. rewrite <- SHAPE. reflexivity.
  - eexists. split; [apply (AV_comma eq l' DQ)|]. rewrite <- SHAPE. reflexivity.
Qed.

(** scanNumber accepts printed integers *)
Lemma num_loop_digits : forall ds first prev isI isU dc sc rest,
  ds <> [] -> forallb is_digit ds = true ->
  num_loop first prev isI isU dc sc (ds ++ rest) = num_loop false (last ds prev) isI isU dc sc rest.
Proof.
  induction ds as [|c t IH]; intros first prev isI isU dc sc rest NE D; [congruence|].
  cbn [forallb] in D. apply andb_true_iff in D as [D1 D2].
  assert (X : (c =? 105) = false /\ (c =? 117) = false /\ (c =? DOT) = false /\ is_e c = false /\
              (c =? PLUS) = false /\ (c =? MINUS) = false /\ is_numeric c = true).
  { unfold is_e, is_numeric, is_digit, DOT, PLUS, MINUS in *. lia. }
  destruct X as [X1 [X2 [X3 [X4 [X5 [X6 X7]]]]]].
  cbn [app num_loop]. rewrite X1, X2, X3, X4, X5, X6, X7. cbn [andb orb negb]. rewrite andb_false_r, orb_false_r.
  destruct t as [|c' t']; [reflexivity|]. rewrite (IH false c isI isU dc sc rest ltac:(discriminate) D2).
  rewrite !last_cons. reflexivity.
Qed.

Lemma print_nat_len n : (0 < length (print_nat n))%nat.
Proof. pose proof (print_nat_nonempty n). destruct (print_nat n); [congruence|cbn; lia]. Qed.

Ltac nd_nonzero :=
  match goal with |- context [(?e =? 0)%Z] =>
    let HZ := fresh "HZ" in assert (HZ : (e =? 0)%Z = false) by lia; rewrite HZ end.

Lemma check_number_int z : (MinInt64 <= z <= MaxInt64)%Z -> check_number (print_int z ++ [105]) = Ok tt.
Proof.
  intro R. unfold check_number.
  assert (BODY : removelast (print_int z ++ [105]) = print_int z) by apply removelast_last.
  assert (LAST : last (print_int z ++ [105]) 0 = 105) by apply last_snoc.
  rewrite BODY, LAST, (parse_int64_print z R).
  assert (LOOP : forall ds first prev, ds <> [] -> forallb is_digit ds = true ->
            num_loop first prev false false false false (ds ++ [105]) = Some (true, false, false, false)).
  { intros ds first prev NE D. rewrite (num_loop_digits ds first prev false false false false [105] NE D). reflexivity. }
  unfold print_int. destruct z as [|p|p].
  - reflexivity.
  - set (X := Z.to_N (Z.pos p)). destruct (print_nat_head X) as [c [t [E D]]]. destruct (digit_not_sign c D) as [M _].
    pose proof (print_nat_len X) as LP.
    assert (HEAD : match print_nat X ++ [105] with c :: _ => c =? MINUS | [] => false end = false) by (rewrite E; exact M).
    rewrite HEAD.
    assert (R2 : match print_nat X ++ [105] with
                 | c :: t => if c =? MINUS then num_loop false c false false false false t
                             else num_loop true EQ false false false false (print_nat X ++ [105])
                 | [] => Some (false, false, false, false) end = Some (true, false, false, false)).
    { rewrite E at 1. cbn [app]. rewrite M. apply LOOP; [apply print_nat_nonempty|apply print_nat_digits]. }
    rewrite R2. cbn [orb andb]. rewrite app_length. cbn [length]. nd_nonzero.
    change (105 =? 105) with true. cbn [negb]. destruct (19 <=? blen (print_nat X)); reflexivity.
  - set (X := N.pos p). pose proof (print_nat_len X) as LP.
    cbn [app]. change (MINUS =? MINUS) with true. cbn iota.
    rewrite (LOOP _ false MINUS (print_nat_nonempty _) (print_nat_digits _)). cbn [orb andb].
    cbn [length]. rewrite app_length. cbn [length]. nd_nonzero.
    change (105 =? 105) with true. cbn [negb]. destruct (19 <=? blen (MINUS :: print_nat X)); reflexivity.
Qed.

Lemma check_number_uint n : n <= MaxUint64 -> check_number (print_nat n ++ [117]) = Ok tt.
Proof.
  intro R. unfold check_number.
  rewrite removelast_last, last_snoc, (parse_uint64_print n R).
  destruct (print_nat_head n) as [c [t [E D]]]. destruct (digit_not_sign c D) as [M _].
  pose proof (print_nat_len n) as LP.
  assert (HEAD : match print_nat n ++ [117] with c :: _ => c =? MINUS | [] => false end = false) by (rewrite E; exact M).
  rewrite HEAD.
  assert (R2 : match print_nat n ++ [117] with
               | c :: t => if c =? MINUS then num_loop false c false false false false t
                           else num_loop true EQ false false false false (print_nat n ++ [117])
               | [] => Some (false, false, false, false) end = Some (false, true, false, false)).
  { rewrite E at 1. cbn [app]. rewrite M.
    rewrite (num_loop_digits _ true EQ false false false false [117] (print_nat_nonempty _) (print_nat_digits _)).
    reflexivity. }
  rewrite R2. cbn [orb andb]. rewrite app_length. cbn [length]. nd_nonzero.
  change (117 =? 117) with true. cbn [negb]. destruct (20 <=? blen (print_nat n)); reflexivity.
Qed.

Lemma digits_tok w : forallb is_digit w = true -> forallb tok_char w = true.
Proof.
  intro H. rewrite forallb_forall in *. intros c Hc. specialize (H _ Hc).
  unfold tok_char, is_digit, COMMA, SP in *. lia.
Qed.

Lemma print_int_tok z : forallb tok_char (print_int z) = true.
Proof.
  unfold print_int. destruct z; try (apply digits_tok, print_nat_digits).
  cbn [forallb]. rewrite (digits_tok _ (print_nat_digits _)). reflexivity.
Qed.

Lemma sf_val_print pf v : value_ok pf v = true -> sf_val (print_value pf v).
Proof.
  destruct v as [z|n|b|[|]|s| |e]; cbn [value_ok print_value]; intro H; try discriminate.
  - assert (R : (MinInt64 <= z <= MaxInt64)%Z) by (unfold MinInt64, MaxInt64 in *; lia).
    apply (sf_val_token _ true).
    + destruct (print_int z); discriminate.
    + rewrite forallb_app, print_int_tok. reflexivity.
    + apply check_number_int. exact R.
    + destruct (print_int_head z) as [c [t [E HD]]]. rewrite E. cbn [app].
      unfold num_start, is_numeric, is_digit, MINUS, DOT, DQ in *. destruct HD as [HD| ->]; [lia|split; reflexivity].
  - apply N.leb_le in H. apply (sf_val_token _ true).
    + destruct (print_nat n); discriminate.
    + rewrite forallb_app, (digits_tok _ (print_nat_digits _)). reflexivity.
    + apply check_number_uint. exact H.
    + destruct (print_nat_head n) as [c [t [E HD]]]. rewrite E. cbn [app].
      unfold num_start, is_numeric, is_digit, MINUS, DOT, DQ in *. lia.
  - rewrite !andb_true_iff in H. destruct H as [[[[_ HD] CH] CK] _].
    apply (sf_val_token _ true).
    + destruct (pf b); [discriminate|discriminate].
    + rewrite forallb_forall in *. intros c Hc. specialize (CH _ Hc).
      unfold tok_char, is_digit, DOT, MINUS, COMMA, SP in *. lia.
    + cbn [check_token]. destruct (check_number (pf b)) as [[]|]; [reflexivity|discriminate].
    + destruct (pf b) as [|c t]; [discriminate|]. unfold num_start. split.
      * apply orb_true_iff in HD as [HD|HD]; rewrite HD; cbn; rewrite ?orb_true_r; reflexivity.
      * unfold is_numeric, is_digit, DOT, MINUS, DQ in *. lia.
  - apply (sf_val_token _ false); try reflexivity; [discriminate|split; reflexivity].
  - apply (sf_val_token _ false); try reflexivity; [discriminate|split; reflexivity].
  - apply sf_val_str.
Qed.

Definition fkv_ok (pf : N -> bytes) (kv : bytes * fval) : Prop :=
  fieldkey_ok (fst kv) = true /\ value_ok pf (snd kv) = true.

Lemma sf_fields pf : forall fs, fs <> [] -> Forall (fkv_ok pf) fs ->
  forall eq p1 p2 tail, (tail = [] \/ exists l', tail = SP :: l') ->
  scan_fields_st FNorm false eq eq p1 p2 (print_fields pf fs ++ tail)
  = fconss (print_fields pf fs)
      (fields_fin false (eq + N.of_nat (length fs)) (eq + N.of_nat (length fs) - 1) tail).
Proof.
  induction fs as [|kv r IH]; [congruence|]. intros _ H eq p1 p2 tail TL.
  inversion H as [|? ? [HK HV] H2]; subst.
  pose proof HK as HK'. unfold fieldkey_ok in HK'. apply andb_true_iff in HK' as [HK' Sk].
  apply andb_true_iff in HK' as [NEk _].
  assert (NEk' : fst kv <> []) by (destruct (fst kv); [discriminate|discriminate]).
  destruct r as [|kv' r'].
  - rewrite print_fields_one, List.app_nil_r. rewrite <- List.app_assoc. cbn [app].
    destruct (sf_key (fst kv) Sk eq p1 p2 (EQ :: print_value pf (snd kv) ++ tail) ltac:(congruence)) as [p1' [p2' [O E]]].
    rewrite E.
    destruct (sf_val_print pf (snd kv) HV eq p1' p2' tail O) as [r0 [AV EV]].
    { destruct TL as [->|[l' ->]]; eauto. }
    rewrite EV. rewrite fconss_app. cbn [fconss]. do 3 f_equal.
    cbn [length]. replace (eq + N.of_nat 1) with (eq + 1) by lia. replace (eq + 1 - 1) with eq by lia.
    destruct TL as [->|[l' ->]]; inversion AV; subst; reflexivity.
  - rewrite print_fields_cons by discriminate.
    set (R := print_fields pf (kv' :: r')) in *.
    rewrite <- !List.app_assoc. cbn [app]. rewrite <- !List.app_assoc. cbn [app].
    destruct (sf_key (fst kv) Sk eq p1 p2 (EQ :: print_value pf (snd kv) ++ COMMA :: R ++ tail) ltac:(congruence)) as [p1' [p2' [O E]]].
    rewrite E.
    destruct (sf_val_print pf (snd kv) HV eq p1' p2' (COMMA :: R ++ tail) O) as [r0 [AV EV]]; [eauto|].
    rewrite EV. inversion AV; subst.
    rewrite (IH ltac:(discriminate) H2 (eq + 1) COMMA pX tail TL).
    rewrite fconss_app. cbn [fconss]. f_equal. f_equal. rewrite fconss_app. cbn [fconss]. f_equal. f_equal. f_equal.
    cbn [length]. rewrite !Nat2N.inj_succ. f_equal; lia.
Qed.

Lemma first_key_head pf fs l : fs <> [] -> fields_ok pf fs = true ->
  exists c0 w, print_fields pf fs ++ l = c0 :: w /\ is_ws c0 = false /\ (c0 =? EQ) = false.
Proof.
  intros NE H. unfold fields_ok in H. rewrite !andb_true_iff in H. destruct H as [[[_ H] _] FW].
  destruct fs as [|[k v] r]; [congruence|]. cbn [forallb fst snd] in H. apply andb_true_iff in H as [H _].
  apply andb_true_iff in H as [HK _]. unfold fieldkey_ok in HK. apply andb_true_iff in HK as [HK _].
  apply andb_true_iff in HK as [NEk _]. destruct k as [|c t]; [discriminate|].
  assert (E : exists w, print_fields pf ((c :: t, v) :: r) = escape_string (c :: t) ++ w).
  { destruct r; cbn [print_fields]; eauto. }
  destruct E as [w E].
  assert (G : forall x : bytes, x = escape_string (c :: t) ++ w ->
              exists c0 w', x ++ l = c0 :: w' /\ is_ws c0 = false /\ (c0 =? EQ) = false).
  { intros x ->. rewrite escape_string_set, esc_set_cons.
    destruct (is_esc_char c) eqn:Ec; cbn [app]; eexists _, _; (split; [reflexivity|]); [split; reflexivity|].
    destruct (esc_char_cases c Ec) as [_ [_ [C3 C4]]]. split; [|exact C4]. unfold is_ws. rewrite C3.
    apply negb_true_iff in FW. exact FW. }
  apply G. exact E.
Qed.

Lemma first_key_not_ws pf fs l : fs <> [] -> fields_ok pf fs = true ->
  skip_ws (print_fields pf fs ++ l) = print_fields pf fs ++ l.
Proof.
  intros NE H. destruct (first_key_head pf fs l NE H) as [c0 [w [E [W _]]]].
  assert (G : forall x : bytes, x = c0 :: w -> skip_ws x = x).
  { intros x ->. cbn [skip_ws]. rewrite W. reflexivity. }
  apply G. exact E.
Qed.

Lemma fields_ok_fkv pf fs : fields_ok pf fs = true -> fs <> [] /\ Forall (fkv_ok pf) fs.
Proof.
  unfold fields_ok. rewrite !andb_true_iff. intros [[[NE H] _] _].
  split; [destruct fs; [discriminate|discriminate]|].
  apply Forall_forall. rewrite forallb_forall in H. intros kv Hin. specialize (H _ Hin).
  apply andb_true_iff in H. exact H.
Qed.

Lemma scan_fields_printed pf fs tail : fields_ok pf fs = true ->
  (tail = [] \/ exists l', tail = SP :: l') ->
  scan_fields (SP :: print_fields pf fs ++ tail) = Ok (print_fields pf fs, tail).
Proof.
  intros H TL. destruct (fields_ok_fkv pf fs H) as [NE FA].
  unfold scan_fields. cbn [skip_ws skip_ws_last]. unfold is_ws at 1 2 3. rewrite N.eqb_refl. cbn [orb].
  rewrite (first_key_not_ws pf fs tail NE H).
  destruct (first_key_head pf fs tail NE H) as [c0 [w0 [E0 [_ C0]]]].
  assert (NOTEQ : match print_fields pf fs ++ tail with c :: _ => c =? EQ | [] => false end = false).
  { assert (G : forall x : bytes, x = c0 :: w0 -> match x with c :: _ => c =? EQ | [] => false end = false)
      by (intros x ->; exact C0). apply G. exact E0. }
  rewrite NOTEQ.
  rewrite (sf_fields pf fs NE FA 0 _ 0 tail TL).
  assert (LP : (0 < length fs)%nat) by (destruct fs; [congruence|cbn; lia]).
  unfold fields_fin.
  assert (X : ((0 + N.of_nat (length fs) =? 0) || negb (0 + N.of_nat (length fs) - 1 =? 0 + N.of_nat (length fs) - 1)) = false).
  { rewrite N.eqb_refl. cbn [negb]. rewrite orb_false_r. apply N.eqb_neq. lia. }
  rewrite X, fconss_ok, List.app_nil_r. reflexivity.
Qed.

(** ** parsePoint on the printed line *)
Lemma make_key_nonempty n ts : key_name_ok n = true -> make_key n ts <> [].
Proof.
  intro Hn. unfold make_key. pose proof Hn as Hn'. unfold key_name_ok in Hn'. apply andb_true_iff in Hn' as [NE Sn].
  rewrite (unescape_meas_safe n Sn), escape_meas_set.
  assert (esc_set is_meas_stop n <> []) by (apply esc_set_nonempty; destruct n; [discriminate|discriminate]).
  destruct (esc_set is_meas_stop n); [congruence|discriminate].
Qed.

Definition printed_raw (pf : N -> bytes) (prec : precision) (dflt : Z) (p : apoint) : rawpoint :=
  {| rp_key := make_key (a_name p) (a_tags p); rp_fields := print_fields pf (a_fields p);
     rp_time := expected_time prec dflt p |}.

Lemma parse_point_printed pf prec dflt p : valid pf prec p = true ->
  parse_point prec dflt (print_point pf prec p) = Ok (printed_raw pf prec dflt p).
Proof.
  unfold valid. rewrite !andb_true_iff. intros [[[[[NP HN] HT] HF] HS] HM].
  destruct (name_ok_key _ HN) as [Hk _]. destruct (tags_ok_parts _ HT) as [_ [KT _]].
  destruct (fields_ok_fkv pf _ HF) as [NEf FA].
  set (K := make_key (a_name p) (a_tags p)) in *. set (F := print_fields pf (a_fields p)).
  assert (NEK : K <> []) by (apply make_key_nonempty; exact Hk).
  assert (NEF : F <> []) by (apply print_fields_nonempty; exact NEf).
  assert (FO : Forall (field_ok pf (blen K)) (a_fields p)).
  { apply Forall_forall. intros kv Hin. rewrite Forall_forall in FA. destruct (FA _ Hin) as [A B].
    rewrite forallb_forall in HS. specialize (HS _ Hin). apply N.leb_le in HS. repeat split; auto. }
  assert (KL : (MaxKeyLength <? blen K) = false).
  { apply N.ltb_ge. destruct (a_fields p) as [|kv r]; [congruence|]. inversion FO as [|? ? [_ [_ B]] _]; subst. lia. }
  unfold print_point, parse_point. fold K. fold F.
  set (T := match a_time p with None => [] | Some t => SP :: print_int (Z.quot t (prec_mult prec)) end).
  assert (TL : T = [] \/ exists l', T = SP :: l') by (unfold T; destruct (a_time p); eauto).
  pose proof (scan_key_printed _ _ (F ++ T) HN HT) as SK. fold K in SK. rewrite SK.
  destruct K as [|k0 K'] eqn:EK; [congruence|]. rewrite <- EK in *. rewrite KL.
  pose proof (scan_fields_printed pf (a_fields p) T HF TL) as SF. fold F in SF. rewrite SF.
  destruct F as [|f0 F'] eqn:EF; [congruence|]. rewrite <- EF in *.
  pose proof (split_fields_printed pf (blen K) (a_fields p) NEf FO) as SP'. fold F in SP'. rewrite SP'.
  unfold printed_raw, expected_time. fold K. unfold T. destruct (a_time p) as [t|] eqn:ET.
  - (* explicit timestamp *)
    unfold new_point_ok in NP. rewrite ET in NP. rewrite !andb_true_iff in NP.
    destruct NP as [[[_ TO] _] _]. apply Z.eqb_eq in HM.
    destruct (safe_calc_time_exact t prec TO HM) as [SC QR].
    rewrite scan_time_print. pose proof (print_int_nonempty (Z.quot t (prec_mult prec))) as NEI.
    destruct (print_int (Z.quot t (prec_mult prec))) eqn:EI; [congruence|]. rewrite <- EI.
    rewrite (parse_int64_print _ QR), SC. cbn [forallb]. f_equal. f_equal.
    assert (prec_mult prec <> 0)%Z by (destruct prec; cbn; lia).
    pose proof (proj2 (Z.quot_exact t (prec_mult prec) H) (proj2 (Z.rem_mod_eq_0 t (prec_mult prec) H) HM)). lia.
  - reflexivity.
Qed.

(** ** The accessors on the reparsed point *)
Definition expected_pview (prec : precision) (dflt : Z) (p : apoint) : pview :=
  {| v_key := make_key (a_name p) (a_tags p); v_name := a_name p; v_tags := a_tags p;
     v_fields := a_fields p; v_time := expected_time prec dflt p |}.

Lemma view_printed pf prec dflt p : valid pf prec p = true ->
  view (printed_raw pf prec dflt p) = expected_pview prec dflt p.
Proof.
  unfold valid. rewrite !andb_true_iff. intros [[[[[NP HN] HT] HF] HS] HM].
  destruct (name_ok_key _ HN) as [Hk _]. destruct (tags_ok_parts _ HT) as [_ [KT _]].
  destruct (fields_ok_fkv pf _ HF) as [NEf FA].
  unfold view, printed_raw, expected_pview. cbn [rp_key rp_fields rp_time].
  rewrite (name_of_make_key _ _ HN KT), (walk_tags_make_key _ _ Hk KT).
  rewrite (fields_of_printed pf (blen (make_key (a_name p) (a_tags p))) (a_fields p) NEf); [reflexivity|].
  apply Forall_forall. intros kv Hin. rewrite Forall_forall in FA. destruct (FA _ Hin) as [A B].
  rewrite forallb_forall in HS. specialize (HS _ Hin). apply N.leb_le in HS. repeat split; auto.
Qed.

(** ** scanLine: the printed text is ONE block *)
Fixpoint pconss (w : bytes) (r : bytes * bytes) : bytes * bytes :=
  match w with [] => r | c :: t => pcons c (pconss t r) end.
Lemma pconss_ok w a r : pconss w (a, r) = (w ++ a, r).
Proof. induction w as [|c t IH]; [reflexivity|]. cbn [pconss app]. rewrite IH. reflexivity. Qed.
Lemma pconss_app a b r : pconss (a ++ b) r = pconss a (pconss b r).
Proof. induction a as [|x a IH]; [reflexivity|]. cbn [app pconss]. rewrite IH. reflexivity. Qed.

Lemma sl_step_bsl q f e c a b t :
  scan_line q f e c (BSL :: a :: b :: t) = pcons BSL (pcons a (scan_line q f e c (b :: t))).
Proof. reflexivity. Qed.

Lemma sl_step_plain q f e c x t :
  (x =? BSL) = false -> (x =? NL) = false ->
  ((f || (x =? SP)) && negb q && (x =? EQ)) = false ->
  ((f || (x =? SP)) && negb q && (x =? COMMA)) = false ->
  ((f || (x =? SP)) && (x =? DQ) && (c <? e)) = false ->
  scan_line q f e c (x :: t) = pcons x (scan_line q (f || (x =? SP)) e c t).
Proof. intros B NLx E C D. cbn [scan_line]. rewrite B, E, C, D, NLx. reflexivity. Qed.

(** an escaped, backslash-safe token followed by at least one byte *)
Lemma sl_tok S q f e c : S BSL = false -> forall tok, bsl_safe S tok = true ->
  (forall x t', In x tok -> S x = false -> (x =? BSL) = false ->
                scan_line q f e c (x :: t') = pcons x (scan_line q f e c t')) ->
  forall l, l <> [] ->
  scan_line q f e c (esc_set S tok ++ l) = pconss (esc_set S tok) (scan_line q f e c l).
Proof.
  intro Sb. induction tok as [tok IH] using list_len_ind. intros Sf STEP l NE.
  destruct tok as [|x t]; [reflexivity|].
  pose proof (bsl_safe_tail _ _ _ Sf) as St.
  assert (NE' : forall t0, esc_set S t0 ++ l <> []) by (intros t0 H; apply app_eq_nil in H as [_ H]; congruence).
  assert (STEPt : forall t0, (forall y, In y t0 -> In y (x :: t)) ->
            forall y t', In y t0 -> S y = false -> (y =? BSL) = false ->
            scan_line q f e c (y :: t') = pcons y (scan_line q f e c t')) by (intros; apply STEP; auto).
  rewrite esc_set_cons. destruct (S x) eqn:Sx; cbn [app pconss].
  - specialize (NE' t). destruct (esc_set S t ++ l) as [|b r] eqn:E; [congruence|].
    rewrite sl_step_bsl, <- E. rewrite (IH t ltac:(cbn; lia) St (STEPt t ltac:(intros; right; auto)) l NE). reflexivity.
  - destruct (x =? BSL) eqn:B.
    + apply N.eqb_eq in B. subst x. cbn [bsl_safe] in Sf. change (BSL =? BSL) with true in Sf. cbn iota in Sf.
      destruct t as [|a t']; [discriminate|]. apply andb_true_iff in Sf as [Sa _]. apply negb_true_iff in Sa.
      pose proof (bsl_safe_tail _ _ _ St) as St'.
      rewrite esc_set_cons, Sa. cbn [app pconss].
      specialize (NE' t'). destruct (esc_set S t' ++ l) as [|b r] eqn:E; [congruence|].
      rewrite sl_step_bsl, <- E.
      rewrite (IH t' ltac:(cbn; lia) St' (STEPt t' ltac:(intros; right; right; auto)) l NE). reflexivity.
    + rewrite (STEP x _ ltac:(left; reflexivity) Sx B).
      rewrite (IH t ltac:(cbn; lia) St (STEPt t ltac:(intros; right; auto)) l NE). reflexivity.
Qed.

(** key section: fields = false; nothing matters but unescaped spaces and newlines *)
Lemma sl_key_tok S tok e c l : S BSL = false -> S SP = true -> bsl_safe S tok = true -> no_nl tok = true -> l <> [] ->
  scan_line false false e c (esc_set S tok ++ l) = pconss (esc_set S tok) (scan_line false false e c l).
Proof.
  intros Sb Ssp Sf NLt NE. apply sl_tok; auto. intros x t' Hin Sx B.
  assert (X : (x =? SP) = false).
  { destruct (x =? SP) eqn:E; [|reflexivity]. apply N.eqb_eq in E. subst. congruence. }
  unfold no_nl in NLt. rewrite forallb_forall in NLt. specialize (NLt _ Hin). apply negb_true_iff in NLt.
  rewrite sl_step_plain; rewrite ?X; cbn [orb andb]; auto.
Qed.

Lemma sl_key_plain x e c t : (x =? BSL) = false -> (x =? NL) = false -> (x =? SP) = false ->
  scan_line false false e c (x :: t) = pcons x (scan_line false false e c t).
Proof. intros B N0 X. rewrite sl_step_plain; rewrite ?X; cbn [orb andb]; auto. Qed.

Lemma sl_tags e c : forall ts l, l <> [] ->
  forallb (fun kv => tagtok_ok (fst kv) && tagtok_ok (snd kv)) ts = true ->
  scan_line false false e c (flat_map tag_text ts ++ l) = pconss (flat_map tag_text ts) (scan_line false false e c l).
Proof.
  induction ts as [|[k v] r IH]; intros l NE H; [reflexivity|]. cbn [forallb fst snd] in H.
  apply andb_true_iff in H as [H1 H2]. apply andb_true_iff in H1 as [Hk Hv].
  unfold tagtok_ok in Hk, Hv. rewrite !andb_true_iff in Hk, Hv. destruct Hk as [[_ NLk] Sk]. destruct Hv as [[_ NLv] Sv].
  cbn [flat_map]. unfold tag_text at 1 3. cbn [fst snd]. rewrite !escape_tag_set.
  rewrite <- !List.app_assoc. cbn [app]. rewrite <- !List.app_assoc. cbn [app].
  assert (NE2 : flat_map tag_text r ++ l <> []) by (intro X; apply app_eq_nil in X as [_ X]; congruence).
  rewrite sl_key_plain by reflexivity.
  rewrite (sl_key_tok is_tag_stop k e c (EQ :: esc_set is_tag_stop v ++ flat_map tag_text r ++ l) eq_refl eq_refl Sk NLk ltac:(discriminate)).
  rewrite sl_key_plain by reflexivity.
  rewrite (sl_key_tok is_tag_stop v e c _ eq_refl eq_refl Sv NLv NE2).
  rewrite (IH l NE H2).
  cbn [pconss]. rewrite !pconss_app. cbn [pconss]. rewrite !pconss_app. reflexivity.
Qed.

(** fields section: fields = true *)
Lemma sl_fkey k e l : bsl_safe is_esc_char k = true -> no_nl k = true -> l <> [] ->
  scan_line false true e e (escape_string k ++ l) = pconss (escape_string k) (scan_line false true e e l).
Proof.
  intros Sf NLk NE. rewrite escape_string_set. apply sl_tok; auto. intros x t' Hin Sx B.
  destruct (esc_char_cases x Sx) as [C1 [C2 [C3 C4]]].
  unfold no_nl in NLk. rewrite forallb_forall in NLk. specialize (NLk _ Hin). apply negb_true_iff in NLk.
  rewrite sl_step_plain; cbn [orb andb negb]; rewrite ?C1, ?C2, ?C4; auto.
Qed.

Lemma sl_eq e c t : scan_line false true e c (EQ :: t) = pcons EQ (scan_line false true (e + 1) c t).
Proof. reflexivity. Qed.
Lemma sl_comma e c t : scan_line false true e c (COMMA :: t) = pcons COMMA (scan_line false true e (c + 1) t).
Proof. reflexivity. Qed.

Definition sl_char (x : N) : bool :=
  negb ((x =? BSL) || (x =? NL) || (x =? EQ) || (x =? COMMA) || (x =? DQ)).

Lemma sl_plain_tok e c : forall w l, forallb sl_char w = true ->
  scan_line false true e c (w ++ l) = pconss w (scan_line false true e c l).
Proof.
  induction w as [|x t IH]; intros l H; [reflexivity|]. cbn [forallb] in H. apply andb_true_iff in H as [H1 H2].
  unfold sl_char in H1. apply negb_true_iff in H1. repeat (apply orb_false_iff in H1 as [H1 ?]).
  cbn [app pconss]. rewrite sl_step_plain; cbn [orb andb negb]; rewrite ?H, ?H0, ?H3; auto.
  rewrite (IH l H2). reflexivity.
Qed.

Lemma sl_step_quoted e c x t : (x =? BSL) = false -> (x =? DQ) = false ->
  scan_line true true e c (x :: t) = pcons x (scan_line true true e c t).
Proof.
  intros B D. cbn [scan_line]. rewrite B, D. cbn [orb andb negb]. rewrite !andb_false_r. reflexivity.
Qed.

Lemma sl_esf e c : forall s l, l <> [] ->
  scan_line true true e c (escape_string_field s ++ l) = pconss (escape_string_field s) (scan_line true true e c l).
Proof.
  induction s as [|x t IH]; intros l NE; [reflexivity|]. unfold escape_string_field in *. cbn [flat_map].
  destruct ((x =? DQ) || (x =? BSL)) eqn:E; rewrite <- List.app_assoc; cbn [app pconss].
  - assert (NE' : flat_map (fun c0 => if (c0 =? DQ) || (c0 =? BSL) then [BSL; c0] else [c0]) t ++ l <> [])
      by (intro X; apply app_eq_nil in X as [_ X]; congruence).
    destruct (flat_map _ t ++ l) as [|b r] eqn:E2; [congruence|]. rewrite sl_step_bsl, <- E2, (IH l NE). reflexivity.
  - apply orb_false_iff in E as [E1 E2]. rewrite (sl_step_quoted e c x _ E2 E1), (IH l NE). reflexivity.
Qed.

Lemma sl_str e c s l : (c <? e) = true ->
  scan_line false true e c ((DQ :: escape_string_field s ++ [DQ]) ++ l)
  = pconss (DQ :: escape_string_field s ++ [DQ]) (scan_line false true e c l).
Proof.
  intro LT. cbn [app]. rewrite <- List.app_assoc. cbn [app].
  assert (OPEN : forall t, scan_line false true e c (DQ :: t) = pcons DQ (scan_line true true e c t)).
  { intro t. cbn [scan_line]. change (DQ =? BSL) with false. change (DQ =? SP) with false.
    change (DQ =? EQ) with false. change (DQ =? COMMA) with false. rewrite N.eqb_refl, LT. reflexivity. }
  assert (CLOSE : forall t, scan_line true true e c (DQ :: t) = pcons DQ (scan_line false true e c t)).
  { intro t. cbn [scan_line]. change (DQ =? BSL) with false. change (DQ =? SP) with false.
    change (DQ =? EQ) with false. change (DQ =? COMMA) with false. rewrite N.eqb_refl, LT. reflexivity. }
  rewrite OPEN, (sl_esf e c s (DQ :: l) ltac:(discriminate)), CLOSE.
  cbn [pconss]. rewrite pconss_app. reflexivity.
Qed.

Definition sl_val (vt : bytes) : Prop :=
  forall e c l, (c <? e) = true -> scan_line false true e c (vt ++ l) = pconss vt (scan_line false true e c l).

Lemma digits_sl w : forallb is_digit w = true -> forallb sl_char w = true.
Proof.
  intro H. rewrite forallb_forall in *. intros c Hc. specialize (H _ Hc).
  unfold sl_char, is_digit, BSL, NL, EQ, COMMA, DQ in *. lia.
Qed.
Lemma print_int_sl z : forallb sl_char (print_int z) = true.
Proof.
  unfold print_int. destruct z; try (apply digits_sl, print_nat_digits).
  cbn [forallb]. rewrite (digits_sl _ (print_nat_digits _)). reflexivity.
Qed.

Lemma sl_val_print pf v : value_ok pf v = true -> sl_val (print_value pf v).
Proof.
  destruct v as [z|n|b|[|]|s| |e0]; cbn [value_ok print_value]; intro H; try discriminate.
  - intros e1 c1 l1 _; apply sl_plain_tok. rewrite forallb_app, print_int_sl. reflexivity.
  - intros e1 c1 l1 _; apply sl_plain_tok. rewrite forallb_app, (digits_sl _ (print_nat_digits _)). reflexivity.
  - intros e1 c1 l1 _; apply sl_plain_tok. rewrite !andb_true_iff in H. destruct H as [[[_ H] _] _].
    rewrite forallb_forall in *. intros x Hx. specialize (H _ Hx).
    unfold sl_char, is_digit, DOT, MINUS, BSL, NL, EQ, COMMA, DQ in *. lia.
  - intros e1 c1 l1 _; apply sl_plain_tok. reflexivity.
  - intros e1 c1 l1 _; apply sl_plain_tok. reflexivity.
  - intros e1 c1 l1 LT. apply sl_str. exact LT.
Qed.

Lemma sl_fields pf : forall fs, fs <> [] -> Forall (fkv_ok pf) fs -> forall e l,
  (fs = [] \/ True) ->
  scan_line false true e e (print_fields pf fs ++ l)
  = pconss (print_fields pf fs)
      (scan_line false true (e + N.of_nat (length fs)) (e + N.of_nat (length fs) - 1) l).
Proof.
  induction fs as [|kv r IH]; [congruence|]. intros _ H e l _.
  inversion H as [|? ? [HK HV] H2]; subst.
  pose proof HK as HK'. unfold fieldkey_ok in HK'. rewrite !andb_true_iff in HK'. destruct HK' as [[_ NLk] Sk].
  assert (LT : (e <? e + 1) = true) by (apply N.ltb_lt; lia).
  destruct r as [|kv' r'].
  - rewrite print_fields_one, List.app_nil_r. rewrite <- List.app_assoc. cbn [app].
    rewrite sl_fkey; [|exact Sk|exact NLk|discriminate]. rewrite sl_eq, (sl_val_print pf _ HV (e + 1) e l LT).
    rewrite pconss_app. cbn [pconss length]. replace (e + N.of_nat 1) with (e + 1) by lia.
    replace (e + 1 - 1) with e by lia. reflexivity.
  - rewrite print_fields_cons by discriminate. set (R := print_fields pf (kv' :: r')) in *.
    rewrite <- !List.app_assoc. cbn [app]. rewrite <- !List.app_assoc. cbn [app].
    rewrite sl_fkey; [|exact Sk|exact NLk|discriminate]. rewrite sl_eq, (sl_val_print pf _ HV (e + 1) e _ LT), sl_comma.
    rewrite (IH ltac:(discriminate) H2 (e + 1) l (or_intror I)).
    rewrite pconss_app. cbn [pconss]. rewrite pconss_app. cbn [pconss].
    cbn [length]. rewrite !Nat2N.inj_succ.
    replace (e + 1 + N.succ (N.of_nat (length r'))) with (e + N.succ (N.succ (N.of_nat (length r')))) by lia.
    reflexivity.
Qed.

Lemma tags_ok_tok ts : tags_ok ts = true ->
  forallb (fun kv => tagtok_ok (fst kv) && tagtok_ok (snd kv)) ts = true.
Proof.
  unfold tags_ok. rewrite !andb_true_iff. intros [[H _] _]. rewrite forallb_forall in *. intros kv Hin.
  specialize (H _ Hin). rewrite !andb_true_iff in H. destruct H as [[A B] _]. rewrite A, B. reflexivity.
Qed.

Definition time_text (prec : precision) (p : apoint) : bytes :=
  match a_time p with None => [] | Some t => SP :: print_int (Z.quot t (prec_mult prec)) end.

Lemma print_point_shape pf prec p : name_ok (a_name p) = true -> tags_ok (a_tags p) = true ->
  print_point pf prec p
  = escape_meas (a_name p) ++ flat_map tag_text (a_tags p) ++ SP :: print_fields pf (a_fields p) ++ time_text prec p.
Proof.
  intros HN HT. destruct (name_ok_key _ HN) as [Hk _]. destruct (tags_ok_parts _ HT) as [_ [KT _]].
  unfold key_name_ok in Hk. apply andb_true_iff in Hk as [_ Sn].
  unfold print_point, make_key, time_text. rewrite (unescape_meas_safe _ Sn), (hash_key_text _ KT).
  rewrite <- List.app_assoc. reflexivity.
Qed.

Lemma scan_line_printed pf prec p : valid pf prec p = true ->
  scan_line false false 0 0 (print_point pf prec p) = (print_point pf prec p, []).
Proof.
  intro V. pose proof V as V'. unfold valid in V'. rewrite !andb_true_iff in V'.
  destruct V' as [[[[[NP HN] HT] HF] HS] HM].
  destruct (fields_ok_fkv pf _ HF) as [NEf FA].
  rewrite (print_point_shape pf prec p HN HT).
  pose proof HN as HN'. unfold name_ok in HN'. rewrite !andb_true_iff in HN'. destruct HN' as [[_ NLn] Se].
  assert (Sn : bsl_safe is_meas_stop (a_name p) = true) by (eapply bsl_safe_mono; [|exact Se]; apply meas_stop_esc).
  set (F := print_fields pf (a_fields p)). set (T := time_text prec p). set (TG := flat_map tag_text (a_tags p)).
  rewrite escape_meas_set.
  rewrite (sl_key_tok is_meas_stop (a_name p) 0 0 (TG ++ SP :: F ++ T) eq_refl eq_refl Sn NLn);
    [|intro X; apply app_eq_nil in X as [_ X]; discriminate].
  unfold TG. rewrite (sl_tags 0 0 (a_tags p) (SP :: F ++ T) ltac:(discriminate) (tags_ok_tok _ HT)). fold TG.
  assert (SPS : scan_line false false 0 0 (SP :: F ++ T) = pcons SP (scan_line false true 0 0 (F ++ T))) by reflexivity.
  rewrite SPS. unfold F. rewrite (sl_fields pf (a_fields p) NEf FA 0 T (or_intror I)). fold F.
  assert (TT : forall e c, scan_line false true e c T = (T, [])).
  { intros e c. unfold T, time_text. destruct (a_time p) as [t|]; [|reflexivity].
    rewrite <- (List.app_nil_r (SP :: print_int _)).
    rewrite sl_plain_tok; [cbn [scan_line]; rewrite pconss_ok, List.app_nil_r; reflexivity|].
    cbn [forallb]. rewrite print_int_sl. reflexivity. }
  rewrite TT. rewrite pconss_ok. unfold pcons. cbn [fst snd]. rewrite !pconss_ok. cbn [fst snd].
  reflexivity.
Qed.

Lemma rev_head_last {A} (l : list A) c r d : rev l = c :: r -> last l d = c.
Proof.
  intro H. assert (E : l = rev r ++ [c]) by (rewrite <- (rev_involutive l), H; reflexivity).
  rewrite E. apply last_last.
Qed.

Lemma strip_nl_id l : (last l 0 =? NL) = false -> strip_nl l = l.
Proof.
  intro H. unfold strip_nl. rewrite frev_rev. destruct (rev l) as [|c r] eqn:E; [reflexivity|].
  rewrite (rev_head_last l c r 0 E) in H. rewrite H. reflexivity.
Qed.

Lemma last_not_nl w d : w <> [] -> forallb (fun c => negb (c =? NL)) w = true -> (last w d =? NL) = false.
Proof.
  intros NE H. rewrite forallb_forall in H. apply negb_true_iff. apply H.
  destruct w as [|x w']; [congruence|]. rewrite (last_indep (x :: w') d x ltac:(discriminate)).
  clear. revert x. induction w' as [|y w IH]; intro x; [left; reflexivity|]. right.
  change (last (x :: y :: w) x) with (last (y :: w) x). rewrite (last_indep (y :: w) x y ltac:(discriminate)). apply IH.
Qed.

Lemma print_value_last pf v d : value_ok pf v = true -> (last (print_value pf v) d =? NL) = false.
Proof.
  destruct v as [z|n|b|[|]|s| |e0]; cbn [value_ok print_value]; intro H; try discriminate.
  - rewrite last_snoc. reflexivity.
  - rewrite last_snoc. reflexivity.
  - rewrite !andb_true_iff in H. destruct H as [[[[_ HD] CH] _] _].
    apply last_not_nl; [destruct (pf b); [discriminate|discriminate]|].
    rewrite forallb_forall in *. intros x Hx. specialize (CH _ Hx). unfold is_digit, DOT, MINUS, NL in *. lia.
  - reflexivity.
  - reflexivity.
  - change (DQ :: escape_string_field s ++ [DQ]) with ((DQ :: escape_string_field s) ++ [DQ]). rewrite last_snoc. reflexivity.
Qed.

Lemma print_fields_last pf : forall fs d, fs <> [] -> Forall (fkv_ok pf) fs ->
  (last (print_fields pf fs) d =? NL) = false.
Proof.
  induction fs as [|kv r IH]; intros d NE H; [congruence|]. inversion H as [|? ? [HK HV] H2]; subst.
  pose proof (print_value_nonempty pf _ HV) as NEv.
  destruct r as [|kv' r'].
  - rewrite print_fields_one, List.app_nil_r.
    rewrite last_app_ne by discriminate. rewrite last_cons. 
    destruct (print_value pf (snd kv)) eqn:E; [congruence|]. rewrite <- E.
    rewrite (last_indep _ EQ d) by (rewrite E; discriminate). apply print_value_last. exact HV.
  - rewrite print_fields_cons by discriminate.
    rewrite last_app_ne by discriminate. rewrite last_cons, last_app_ne by discriminate. rewrite last_cons.
    pose proof (print_fields_nonempty pf (kv' :: r') ltac:(discriminate)) as NEr.
    rewrite (last_indep _ COMMA d NEr). apply IH; [discriminate|exact H2].
Qed.

Lemma candidate_lines_printed pf prec p : valid pf prec p = true ->
  candidate_lines (print_point pf prec p) = [print_point pf prec p].
Proof.
  intro V. pose proof (scan_line_printed pf prec p V) as SL.
  pose proof V as V'. unfold valid in V'. rewrite !andb_true_iff in V'.
  destruct V' as [[[[[NP HN] HT] HF] HS] HM]. destruct (fields_ok_fkv pf _ HF) as [NEf FA].
  pose proof (print_point_shape pf prec p HN HT) as SH.
  unfold candidate_lines. cbn [split_blocks].
  assert (NE : print_point pf prec p <> []).
  { rewrite SH. intro X. apply app_eq_nil in X as [_ X]. apply app_eq_nil in X as [_ X]. discriminate. }
  destruct (print_point pf prec p) as [|b0 br] eqn:EP; [congruence|]. rewrite <- EP in *.
  rewrite SL. cbn [tl]. assert (SB : forall f, split_blocks f [] = []) by (destruct f; reflexivity).
  rewrite SB. cbn [map filter_some].
  (* the block is a candidate: not blank, not a comment, no trailing newline *)
  assert (CAND : candidate (print_point pf prec p) = Some (print_point pf prec p)).
  { unfold candidate. rewrite SH at 1. rewrite (skip_ws_name _ _ HN). rewrite <- SH.
    assert (HD : exists c0 w, print_point pf prec p = c0 :: w /\ (c0 =? HASH) = false).
    { rewrite SH. pose proof HN as HN'. unfold name_ok in HN'. rewrite !andb_true_iff in HN'. destruct HN' as [[H0 _] _].
      destruct (a_name p) as [|c t]; [discriminate|]. rewrite escape_meas_set, esc_set_cons.
      destruct (is_meas_stop c) eqn:E; cbn [app]; eexists _, _; (split; [reflexivity|]); [reflexivity|].
      apply negb_true_iff in H0. apply orb_false_iff in H0 as [H0 _]. apply orb_false_iff in H0 as [H0 _]. exact H0. }
    destruct HD as [c0 [w [E C0]]]. rewrite E. cbn iota. rewrite C0. rewrite <- E. f_equal. apply strip_nl_id.
    unfold print_point. rewrite last_app_ne by discriminate. rewrite last_cons.
    destruct (a_time p) as [t|].
    - rewrite last_app_ne by discriminate. rewrite last_cons.
      rewrite (last_indep _ SP 0 (print_int_nonempty _)).
      apply last_not_nl; [apply print_int_nonempty|].
      pose proof (print_int_sl (Z.quot t (prec_mult prec))) as PS. rewrite forallb_forall in *. intros x Hx.
      specialize (PS _ Hx). unfold sl_char in PS. apply negb_true_iff in PS. repeat (apply orb_false_iff in PS as [PS ?]).
      rewrite H2. reflexivity.
    - rewrite List.app_nil_r. apply print_fields_last; auto. }
  rewrite CAND. reflexivity.
Qed.

(** * The line-protocol round trip *)
Lemma expected_time_valid pf prec dflt p : valid pf prec p = true ->
  expected_time prec dflt p = match a_time p with Some t => t | None => trunc_time dflt prec end.
Proof.
  unfold valid. rewrite !andb_true_iff. intros [_ HM]. unfold expected_time. destruct (a_time p) as [t|]; [|reflexivity].
  apply Z.eqb_eq in HM. assert (prec_mult prec <> 0)%Z by (destruct prec; cbn; lia).
  pose proof (proj2 (Z.quot_exact t (prec_mult prec) H) (proj2 (Z.rem_mod_eq_0 t (prec_mult prec) H) HM)). lia.
Qed.

Lemma lp_roundtrip pf prec dflt p : valid pf prec p = true ->
  reparse prec dflt pf p =
    ([ {| v_key := make_key (a_name p) (a_tags p); v_name := a_name p; v_tags := a_tags p;
          v_fields := a_fields p;
          v_time := match a_time p with Some t => t | None => trunc_time dflt prec end |} ], []).
Proof.
  intro V. unfold reparse, parse_points. rewrite (candidate_lines_printed pf prec p V).
  cbn [parse_lines]. rewrite (parse_point_printed pf prec dflt p V). cbn [fst snd map].
  rewrite (view_printed pf prec dflt p V). unfold expected_pview. rewrite (expected_time_valid pf prec dflt p V).
  reflexivity.
Qed.
