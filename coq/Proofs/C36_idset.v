(** C36 — SeriesIDSet specification model: the sorted-list algebra is set algebra, the
    registers always hold strictly increasing lists (ForEach/Slice order), and the whole
    operation interpreter agrees with the bag-based oracle when ids are not truncated. *)
From Verif Require Import Base.Prelude Model.C36_idset.
From Coq Require Import Lia.

(** strictly increasing *)
Fixpoint inc (s : idset) : Prop :=
  match s with
  | [] => True
  | x :: r => (forall y, In y r -> (x < y)%N) /\ inc r
  end.

Lemma inc_ext a b : inc a -> inc b -> (forall x, In x a <-> In x b) -> a = b.
Proof.
  revert b; induction a as [|x a IH]; intros [|y b] Ia Ib E; auto.
  - exfalso. apply (proj2 (E y)). left; auto.
  - exfalso. apply (proj1 (E x)). left; auto.
  - destruct Ia as [Ha Ia], Ib as [Hb Ib].
    assert (x = y).
    { destruct (proj1 (E x) (or_introl eq_refl)) as [->|Hx]; auto.
      destruct (proj2 (E y) (or_introl eq_refl)) as [->|Hy]; auto.
      specialize (Ha _ Hy). specialize (Hb _ Hx). lia. }
    subst y. f_equal. apply IH; auto. intro z. split; intro Hz.
    + destruct (proj1 (E z) (or_intror Hz)) as [->|]; auto. specialize (Ha _ Hz). lia.
    + destruct (proj2 (E z) (or_intror Hz)) as [->|]; auto. specialize (Hb _ Hz). lia.
Qed.

Lemma inc_NoDup s : inc s -> NoDup s.
Proof.
  induction s as [|x r IH]; intros H; constructor.
  - destruct H as [H _]. intro Hx. specialize (H _ Hx). lia.
  - apply IH. apply H.
Qed.

Lemma s_mem_In x s : s_mem x s = true <-> In x s.
Proof.
  unfold s_mem. rewrite existsb_exists. split.
  - intros (y & Hy & E). apply N.eqb_eq in E. subst; auto.
  - intro H. exists x. split; auto. apply N.eqb_refl.
Qed.

Lemma s_add_In x s y : In y (s_add x s) <-> y = x \/ In y s.
Proof.
  induction s as [|z r IH]; simpl. intuition.
  destruct (N.ltb x z) eqn:E1; simpl. intuition.
  destruct (N.eqb x z) eqn:E2; simpl.
  - apply N.eqb_eq in E2. subst. intuition.
  - rewrite IH. intuition.
Qed.

Lemma s_add_inc x s : inc s -> inc (s_add x s).
Proof.
  induction s as [|z r IH]; simpl; intros H. split; auto. intros y [].
  destruct (N.ltb x z) eqn:E1.
  - apply N.ltb_lt in E1. destruct H as [H1 H2]. split; [|split; auto].
    intros y [<-|Hy]; auto. specialize (H1 _ Hy). lia.
  - destruct (N.eqb x z) eqn:E2; auto.
    apply N.ltb_ge in E1. apply N.eqb_neq in E2. destruct H as [H1 H2]. split; [|apply IH; auto].
    intros y Hy. apply s_add_In in Hy as [->|Hy]; auto. lia.
Qed.

Lemma filter_inc f s : inc s -> inc (filter f s).
Proof.
  induction s as [|x r IH]; simpl; auto. intros [H1 H2]. destruct (f x); simpl; auto.
  split; auto. intros y Hy. apply filter_In in Hy as [Hy _]. auto.
Qed.

Lemma s_remove_In x s y : In y (s_remove x s) <-> In y s /\ y <> x.
Proof. unfold s_remove. rewrite filter_In. rewrite negb_true_iff, N.eqb_neq. tauto. Qed.
Lemma s_inter_In a b y : In y (s_inter a b) <-> In y a /\ In y b.
Proof. unfold s_inter. rewrite filter_In, s_mem_In. tauto. Qed.
Lemma s_diff_In a b y : In y (s_diff a b) <-> In y a /\ ~ In y b.
Proof.
  unfold s_diff. rewrite filter_In, negb_true_iff. split; intros [H1 H2]; split; auto.
  - intro Hb. apply s_mem_In in Hb. congruence.
  - destruct (s_mem y b) eqn:E; auto. exfalso. apply H2. apply s_mem_In; auto.
Qed.

Lemma s_union_spec a : forall b, inc a -> inc b ->
  inc (s_union a b) /\ (forall y, In y (s_union a b) <-> In y a \/ In y b).
Proof.
  induction a as [|x a IHa]; intros b Ia Ib.
  - simpl. split; auto. intuition.
  - induction b as [|z b IHb].
    + simpl. split; auto. intuition.
    + destruct Ia as [Ha Ia']. destruct Ib as [Hb Ib'].
      change (s_union (x :: a) (z :: b)) with
        (if N.ltb x z then x :: s_union a (z :: b)
         else if N.ltb z x then z :: s_union (x :: a) b else x :: s_union a b).
      destruct (N.ltb x z) eqn:E1.
      * apply N.ltb_lt in E1.
        destruct (IHa (z :: b) Ia' (conj Hb Ib')) as [I1 M1]. split.
        { split; auto. intros y Hy. apply M1 in Hy as [Hy|[<-|Hy]]; auto. specialize (Hb _ Hy). lia. }
        { intro y. simpl. rewrite M1. simpl. tauto. }
      * apply N.ltb_ge in E1. destruct (N.ltb z x) eqn:E2.
        { apply N.ltb_lt in E2. destruct (IHb Ib') as [I1 M1]. split.
          - split; auto. intros y Hy. apply M1 in Hy as [[<-|Hy]|Hy]; auto. specialize (Ha _ Hy). lia.
          - intro y. simpl. rewrite M1. simpl. tauto. }
        { apply N.ltb_ge in E2. assert (x = z) by lia. subst z.
          destruct (IHa b Ia' Ib') as [I1 M1]. split.
          - split; auto. intros y Hy. apply M1 in Hy as [Hy|Hy]; auto.
          - intro y. simpl. rewrite M1. tauto. }
Qed.
Lemma s_union_inc a b : inc a -> inc b -> inc (s_union a b).
Proof. intros. apply s_union_spec; auto. Qed.
Lemma s_union_In a b y : inc a -> inc b -> (In y (s_union a b) <-> In y a \/ In y b).
Proof. intros. apply s_union_spec; auto. Qed.

(** ** The algebraic laws, as equalities of representations *)
Lemma s_union_comm a b : inc a -> inc b -> s_union a b = s_union b a.
Proof. intros. apply inc_ext; try apply s_union_inc; auto. intro. rewrite !s_union_In; tauto. Qed.
Lemma s_union_assoc a b c : inc a -> inc b -> inc c -> s_union (s_union a b) c = s_union a (s_union b c).
Proof.
  intros. apply inc_ext; repeat apply s_union_inc; auto.
  intro. rewrite !s_union_In; auto using s_union_inc. tauto.
Qed.
Lemma s_union_idem a : inc a -> s_union a a = a.
Proof. intros. apply inc_ext; try apply s_union_inc; auto. intro. rewrite s_union_In; tauto. Qed.
Lemma s_inter_comm a b : inc a -> inc b -> s_inter a b = s_inter b a.
Proof. intros. apply inc_ext; try apply filter_inc; auto. intro. rewrite !s_inter_In; tauto. Qed.
Lemma s_diff_union a b : inc a -> inc b -> s_union (s_diff a b) (s_inter a b) = a.
Proof.
  intros. apply inc_ext; auto. apply s_union_inc; apply filter_inc; auto.
  intro y. rewrite s_union_In by (apply filter_inc; auto). rewrite s_diff_In, s_inter_In.
  destruct (in_dec N.eq_dec y b); tauto.
Qed.

(** ** canonicalisation and the oracle *)
Lemma canon_inc l : inc (canon l).
Proof. induction l; simpl; auto. apply s_add_inc; auto. Qed.
Lemma canon_In l y : In y (canon l) <-> In y l.
Proof. induction l as [|x l IH]; simpl. tauto. rewrite s_add_In, IH. intuition. Qed.
Lemma canon_of_inc s : inc s -> canon s = s.
Proof. intro H. apply inc_ext; auto using canon_inc. intro; apply canon_In. Qed.

Lemma o_mem_In x l : o_mem x l = true <-> In x l.
Proof. apply s_mem_In. Qed.

Lemma fold_add_spec ids : forall s, inc s ->
  inc (fold_left (fun s x => s_add x s) ids s)
  /\ forall y, In y (fold_left (fun s x => s_add x s) ids s) <-> In y ids \/ In y s.
Proof.
  induction ids as [|x r IH]; intros s Is; simpl. split; auto. tauto.
  destruct (IH (s_add x s) (s_add_inc x s Is)) as [I M]. split; auto.
  intro y. rewrite M, s_add_In. intuition.
Qed.

Lemma rget_map ro i : rget (map canon ro) i = canon (rget ro i).
Proof. unfold rget. change (@nil N) with (canon []) at 1. apply map_nth. Qed.
Lemma rset_map ro i s : rset (map canon ro) i (canon s) = map canon (rset ro i s).
Proof. revert i; induction ro as [|x ro IH]; intros [|i]; simpl; auto. f_equal. apply IH. Qed.

Definition idf (x : N) : N := x.

Lemma fold_union_spec (ro : regs) others : forall s l, s = canon l ->
  fold_left (fun s j => s_union s (rget (map canon ro) j)) others s
  = canon (l ++ flat_map (fun j => rget ro j) others).
Proof.
  induction others as [|j r IH]; intros s l ->; simpl.
  - rewrite app_nil_r. reflexivity.
  - rewrite (IH _ (l ++ rget ro j)).
    + rewrite <- app_assoc. reflexivity.
    + rewrite rget_map. apply inc_ext; auto using s_union_inc, canon_inc.
      intro y. rewrite s_union_In by apply canon_inc. rewrite !canon_In, in_app_iff. tauto.
Qed.

Ltac incs := unfold s_remove, s_inter, s_diff; repeat first [apply canon_inc | apply filter_inc | apply s_union_inc | apply s_add_inc | assumption].

(** One step of the mirror (without truncation) simulates one step of the oracle. *)
Lemma step_sim ro o :
  s_step idf (map canon ro) o = (map canon (fst (o_step ro o)), snd (o_step ro o)).
Proof.
  destruct o; simpl; rewrite ?rget_map; unfold idf.
  - (* new *) f_equal. rewrite <- rset_map. f_equal. unfold s_of_list.
    destruct (fold_add_spec ids [] I) as [I1 M1].
    apply inc_ext; [incs|incs|]. intro y. rewrite M1, canon_In. simpl; tauto.
  - f_equal. rewrite <- rset_map. reflexivity.
  - f_equal. rewrite <- rset_map. f_equal.
    destruct (fold_add_spec ids (canon (rget ro i)) (canon_inc _)) as [I1 M1].
    apply inc_ext; [incs|incs|]. intro y. rewrite M1, !canon_In, in_app_iff. tauto.
  - f_equal. rewrite <- rset_map. f_equal.
    apply inc_ext; [incs|incs|]. intro y.
    rewrite s_remove_In, !canon_In, filter_In, negb_true_iff, N.eqb_neq. tauto.
  - f_equal. f_equal. apply eq_true_iff_eq. rewrite s_mem_In, o_mem_In, canon_In. tauto.
  - reflexivity.
  - f_equal. rewrite <- rset_map. f_equal. apply fold_union_spec. reflexivity.
  - f_equal. rewrite <- rset_map. f_equal.
    apply inc_ext; [incs|incs|]. intro y.
    rewrite s_union_In by apply canon_inc. rewrite !canon_In, in_app_iff. tauto.
  - f_equal. rewrite <- rset_map. f_equal.
    apply inc_ext; [incs|incs|]. intro y.
    rewrite s_inter_In, !canon_In, filter_In, o_mem_In. tauto.
  - f_equal. rewrite <- rset_map. f_equal.
    apply inc_ext; [incs|incs|]. intro y.
    rewrite s_diff_In, !canon_In, filter_In, negb_true_iff. split; intros [H1 H2]; split; auto.
    + destruct (o_mem y (rget ro j)) eqn:E; auto. exfalso. apply H2. apply o_mem_In; auto.
    + intro Hb. apply o_mem_In in Hb. congruence.
  - f_equal. rewrite <- rset_map. f_equal.
    apply inc_ext; [incs|incs|]. intro y.
    rewrite s_diff_In, !canon_In, filter_In, negb_true_iff. split; intros [H1 H2]; split; auto.
    + destruct (o_mem y (rget ro j)) eqn:E; auto. exfalso. apply H2. apply o_mem_In; auto.
    + intro Hb. apply o_mem_In in Hb. congruence.
  - f_equal. f_equal. apply eq_true_iff_eq. rewrite negb_true_iff, existsb_exists. split.
    + intro H. destruct (s_inter (canon (rget ro i)) (canon (rget ro j))) as [|y l] eqn:E; [discriminate|].
      assert (Hy : In y (s_inter (canon (rget ro i)) (canon (rget ro j)))) by (rewrite E; left; auto).
      apply s_inter_In in Hy as [H1 H2]. rewrite canon_In in H1, H2. exists y. split; auto. apply o_mem_In; auto.
    + intros (y & H1 & H2). apply o_mem_In in H2.
      destruct (s_inter (canon (rget ro i)) (canon (rget ro j))) as [|z l] eqn:E; auto.
      exfalso. assert (Hy : In y []). { rewrite <- E. apply s_inter_In. rewrite !canon_In. auto. } destruct Hy.
  - f_equal. f_equal. apply eq_true_iff_eq.
    rewrite andb_true_iff, !forallb_forall. split.
    + intro H. apply (list_eqb_spec N.eqb N.eqb_eq) in H.
      split; intros x Hx; apply o_mem_In; apply canon_In; [rewrite <- H | rewrite H]; apply canon_In; auto.
    + intros [H1 H2]. apply (list_eqb_spec N.eqb N.eqb_eq).
      apply inc_ext; [incs|incs|]. intro y. rewrite !canon_In. split; intro Hy.
      * apply o_mem_In. apply H1. auto.
      * apply o_mem_In. apply H2. auto.
  - f_equal. rewrite <- rset_map. reflexivity.
  - f_equal. rewrite <- rset_map. reflexivity.
  - f_equal. change (@nil N) with (canon []) at 1. rewrite <- rset_map. reflexivity.
  - reflexivity.
  - reflexivity.
Qed.

Lemma run_sim ops : forall ro,
  s_run idf (map canon ro) ops = (map canon (fst (o_run ro ops)), snd (o_run ro ops)).
Proof.
  induction ops as [|o r IH]; intros ro; simpl; auto.
  rewrite step_sim. destruct (o_step ro o) as [ro' ob]; simpl.
  rewrite IH. destruct (o_run ro' r) as [ro'' obs]; reflexivity.
Qed.

(** For every history (ids untruncated) the sorted-list interpreter returns exactly what the
    bag-based set specification returns, and leaves the canonical form of its registers. *)
Lemma idset_model_meets_spec ops :
  s_run idf regs0 ops = (map canon (fst (o_run regs0 ops)), snd (o_run regs0 ops)).
Proof. apply (run_sim ops regs0). Qed.

(** Registers stay strictly increasing under every operation and every truncation function:
    [ForEach]/[Slice] enumerate in ascending order without repetition. *)
Definition all_inc (r : regs) : Prop := forall i, inc (rget r i).

Lemma all_inc_rset r i s : all_inc r -> inc s -> all_inc (rset r i s).
Proof.
  unfold all_inc, rget. revert i; induction r as [|x r IH]; intros i A Is j.
  - destruct i; simpl; destruct j; exact I.
  - destruct i as [|i]; simpl.
    + destruct j as [|j]; auto. apply (A (S j)).
    + destruct j as [|j]. apply (A O). apply IH; auto. intro k. apply (A (S k)).
Qed.

Lemma fold_union_inc (r : regs) others : all_inc r -> forall s, inc s ->
  inc (fold_left (fun s j => s_union s (rget r j)) others s).
Proof. intros A. induction others as [|j t IH]; intros s Is; simpl; auto. apply IH. apply s_union_inc; auto. Qed.

Lemma step_inc tr r o : all_inc r -> all_inc (fst (s_step tr r o)).
Proof.
  intro A. destruct o; simpl; auto; apply all_inc_rset; auto.
  - unfold s_of_list. generalize (@nil N) (I : inc []). induction ids as [|x t IH]; simpl; auto.
    intros s Is. apply IH. apply s_add_inc; auto.
  - apply s_add_inc; auto.
  - generalize (rget r i) (A i). induction ids as [|x t IH]; simpl; auto.
    intros s Is. apply IH. apply s_add_inc; auto.
  - apply filter_inc; auto.
  - apply fold_union_inc; auto.
  - apply s_union_inc; auto.
  - apply filter_inc; auto.
  - apply filter_inc; auto.
  - apply filter_inc; auto.
  - exact I.
Qed.

Lemma run_inc tr ops : forall r, all_inc r -> all_inc (fst (s_run tr r ops)).
Proof.
  induction ops as [|o t IH]; intros r A; simpl; auto.
  pose proof (step_inc tr r o A) as A'. destruct (s_step tr r o) as [r' ob]; simpl in *.
  specialize (IH r' A'). destruct (s_run tr r' t) as [r'' obs]; simpl in *; auto.
Qed.

Lemma regs0_inc : all_inc regs0.
Proof. intro i. unfold regs0, rget, nregs. do 5 (destruct i as [|i]; simpl; auto). Qed.

Lemma idset_registers_ascending tr ops i : inc (rget (fst (s_run tr regs0 ops)) i).
Proof. apply run_inc. apply regs0_inc. Qed.
