package main

import (
	"fmt"
	"math/rand/v2"

	"github.com/influxdata/influxdb/v2/tsdb/engine/tsm1"
	"verifh/vh"
)

type boolCase struct {
	Vals                       []bool                 `json:"vals"`
	SB                         []byte                 `json:"impl_scalar_bytes"`
	BB                         []byte                 `json:"impl_batch_bytes"`
	SBOK                       bool                   `json:"impl_scalar_ok"`
	BBOK                       bool                   `json:"impl_batch_ok"`
	DSS, DBS, DSB, DBB         []bool                 `json:"-"`
	DSSOK, DBSOK, DSBOK, DBBOK bool                   `json:"-"`
	Decoded                    map[string]interface{} `json:"impl_decoded,omitempty"`
}

func boolScalarDecode(b []byte, limit int) ([]bool, bool) {
	var d tsm1.BooleanDecoder
	d.SetBytes(b)
	out := []bool{}
	for d.Next() {
		out = append(out, d.Read())
		if len(out) > limit {
			break
		}
	}
	return out, d.Error() == nil
}

func runBool(w *vh.W, c *jcase) {
	s := c.Bool
	idx := w.Len()
	limit := len(s.Vals) + 1000
	p := vh.Guard(func() {
		enc := tsm1.NewBooleanEncoder(len(s.Vals))
		for _, v := range s.Vals {
			enc.Write(v)
		}
		b, err := enc.Bytes()
		s.SB, s.SBOK = append([]byte{}, b...), err == nil
		bb, err := tsm1.BooleanArrayEncodeAll(append([]bool{}, s.Vals...), nil)
		s.BB, s.BBOK = append([]byte{}, bb...), err == nil
		batchDec := func(b []byte) ([]bool, bool) {
			o, err := tsm1.BooleanArrayDecodeAll(b, nil)
			return append([]bool{}, o...), err == nil
		}
		if s.SBOK {
			s.DSS, s.DSSOK = boolScalarDecode(s.SB, limit)
			s.DBS, s.DBSOK = batchDec(s.SB)
		}
		if s.BBOK {
			s.DSB, s.DSBOK = boolScalarDecode(s.BB, limit)
			s.DBB, s.DBBOK = batchDec(s.BB)
		}
	})
	if p != "" {
		w.Fail(idx, "panic in boolean codec: "+p, "")
	}
	s.Decoded = map[string]interface{}{}
	put := func(k string, v []bool, ok bool) {
		if !ok {
			s.Decoded[k] = "error"
		} else if fmt.Sprint(v) == fmt.Sprint(s.Vals) {
			s.Decoded[k] = "== vals"
		} else {
			s.Decoded[k] = v
		}
	}
	put("scalar_dec(scalar_enc)", s.DSS, s.DSSOK)
	put("batch_dec(scalar_enc)", s.DBS, s.DBSOK)
	put("scalar_dec(batch_enc)", s.DSB, s.DSBOK)
	put("batch_dec(batch_enc)", s.DBB, s.DBBOK)
	var l lets
	t := l.wrap(fmt.Sprintf("CBool %s %s %s %s %s %s %s", l.bools(s.Vals), l.optBytes(s.SB, s.SBOK), l.optBytes(s.BB, s.BBOK),
		l.optBools(s.DSS, s.DSSOK), l.optBools(s.DBS, s.DBSOK), l.optBools(s.DSB, s.DSBOK), l.optBools(s.DBB, s.DBBOK)))
	w.Add(t, c, len(s.Vals) >= 2, "")
	w.Count("kind", "bool")
	w.Count("bool.len", lenClass(len(s.Vals)))
}

func genBoolVals(r *rand.Rand, n int) []bool {
	v := make([]bool, n)
	mode := r.IntN(4)
	for i := range v {
		switch mode {
		case 0:
			v[i] = true
		case 1:
			v[i] = false
		case 2:
			v[i] = r.IntN(2) == 0
		default:
			v[i] = i%8 == 7 || r.IntN(10) == 0
		}
	}
	return v
}

func fixedBool() []jcase {
	var cs []jcase
	for _, n := range []int{0, 1, 2, 7, 8, 9, 15, 16, 17, 127, 128, 129, 300} {
		for m := 0; m < 3; m++ {
			v := make([]bool, n)
			for i := range v {
				v[i] = m == 0 || (m == 2 && i == n-1)
			}
			cs = append(cs, jcase{Kind: "bool", Bool: &boolCase{Vals: v}})
		}
	}
	return cs
}

func genBool(r *rand.Rand, big bool) jcase {
	n := genLen(r, big)
	if r.IntN(3) == 0 {
		n = 120 + r.IntN(20) // uvarint count of 2 bytes around 128
	}
	return jcase{Kind: "bool", Bool: &boolCase{Vals: genBoolVals(r, n)}}
}
