// Package libflux is a pure-Go stand-in for the cgo/Rust libflux bindings so that
// packages of influxdb that transitively import flux link offline in the verification
// harness. Flux parsing / analysis is unavailable through it: every entry point returns
// an error. No verified property needs Flux compilation.
package libflux

import (
	"context"
	"errors"

	"github.com/influxdata/flux/semantic"
)

var errStub = errors.New("libflux stub: flux parsing is not available in the verification harness")

func SemanticPackages() (map[string]*semantic.Package, error) { return nil, errStub }

type Options struct {
	Features []string `json:"features,omitempty"`
}

func NewOptions(ctx context.Context) Options { return Options{} }

type SemanticPkg struct{}

func (p *SemanticPkg) MarshalFB() ([]byte, error) { return nil, errStub }
func (p *SemanticPkg) Free()                      {}

func Analyze(astPkg *ASTPkg) (*SemanticPkg, error) { return nil, errStub }
func AnalyzeWithOptions(astPkg *ASTPkg, options Options) (*SemanticPkg, error) {
	return nil, errStub
}
func AnalyzeString(script string) (*SemanticPkg, error) { return nil, errStub }
func FindVarType(astPkg *ASTPkg, varName string) (semantic.MonoType, error) {
	return semantic.MonoType{}, errStub
}
func FindVarTypes(script string, varNames []string) ([]semantic.MonoType, error) {
	return nil, errStub
}
func FindVarTypeSemantic(pkg *SemanticPkg, varName string) (semantic.MonoType, error) {
	return semantic.MonoType{}, errStub
}

type Analyzer struct{}

func NewAnalyzerWithOptions(options Options) (*Analyzer, error) { return &Analyzer{}, nil }
func (p *Analyzer) AnalyzeString(src string) (*SemanticPkg, *FluxError) {
	return nil, &FluxError{}
}
func (p *Analyzer) Analyze(src string, astPkg *ASTPkg) (*SemanticPkg, *FluxError) {
	return nil, &FluxError{}
}
func (p *Analyzer) Free() {}

// EnvStdlib returns an empty flatbuffer so flux/runtime's package init succeeds.
func EnvStdlib() []byte { return []byte{8, 0, 0, 0, 4, 0, 4, 0, 4, 0, 0, 0} }

type FluxError struct{}

func (p *FluxError) Free()          {}
func (p *FluxError) Print()         {}
func (p *FluxError) GoError() error { return errStub }

type ASTPkg struct{}

func (p ASTPkg) ASTHandle()                        {}
func (p ASTPkg) Format() (string, error)           { return "", errStub }
func (p ASTPkg) GetError(options Options) error    { return errStub }
func (p *ASTPkg) MarshalJSON() ([]byte, error)     { return nil, errStub }
func (p *ASTPkg) Free()                            {}
func (p *ASTPkg) String() string                   { return "" }
func ParseString(src string) *ASTPkg               { return &ASTPkg{} }
func Parse(fname string, src string) *ASTPkg       { return &ASTPkg{} }
func ParseJSON(bs []byte) (*ASTPkg, error)         { return nil, errStub }
func MergePackages(outPkg *ASTPkg, inPkg *ASTPkg) error { return errStub }
