(** C30 — Tenant metadata stays unique and internally consistent.

    Mirror of the tenant service of influxdb 2.x over its KV layout
    (/repo/tenant/storage_{org,bucket,user,urm}.go, service_{org,bucket,user,urm}.go,
    /repo/kv/index.go):

      organizationsv1        id            -> org record (name)
      organizationindexv1    TrimSpace(name) -> id
      bucketsv1              id            -> bucket record (org, name, type)
      bucketindexv1          org ++ name   -> id
      usersv1                id            -> user record (name)
      userindexv1            name          -> id
      userspasswordv1        id            -> hash
      userresourcemappingsv1 res ++ user   -> URM record (resource type, user type)
      userresourcemappingsbyuserindexv1  user "/" (res ++ user) -> res ++ user   (kv.Index)

    Every KV bucket is an association list with map semantics ([put] replaces, [del]
    removes every occurrence, [get] returns the first hit).  The state mirrors exactly
    which keys each operation writes and removes, in the order of the code, including
    the error exits.  One [kv.Tx] is atomic (a failing transaction leaves the state
    unchanged: in every transaction of the anchored code all checks come before the
    first write, except [UserSvc.DeleteUser], whose early [DeletePassword] is undone
    by the roll-back); a SERVICE call may consist of several transactions and a failure
    between them leaves the effects of the earlier ones (e.g. [CreateOrganization]
    with an unknown owner keeps the organization and its system buckets and returns
    "not found"): this is mirrored.

    Names.  Organization names are pairs [(core, variant)]: variant [0] is the
    whitespace-trimmed string, other variants are the same string padded with
    leading/trailing blanks; core [0] is the empty string.  [trim] is
    [strings.TrimSpace].  Bucket names are numbers: [0] = "_tasks", [1] = "_monitoring",
    [2] = another name starting with an underscore, [3] = a name containing a
    quotation mark, anything else an ordinary name ([4] is the empty string, which the
    service accepts).  User names are numbers compared for equality only.

    Identifiers.  The real generators hand out random/snowflake ids; the model hands
    out [s_next], [s_next+1], ... on SUCCESSFUL creations only (the driver numbers
    the real ids in order of successful creation), so the model does not depend on
    whether an id is drawn before or after the uniqueness check.

    [fx] selects the version of [Store.DeleteOrg]: [fx = true] is the code as it is now
    (since /repo commit 80e129d9b5 the index key removed is [organizationIndexKey(u.Name)]),
    [fx = false] the code before that commit (it removed [[]byte(u.Name)], leaving the
    entry of a blank-padded name behind), kept only to record the counterexample.  The
    correspondence judge and the property theorems use [fx = true]. *)
From Verif Require Import Base.Prelude.

Definition oname := (N * N)%type.
Definition trim (n : oname) : oname := (fst n, 0%N).
Definition nn_eqb (a b : N * N) : bool := N.eqb (fst a) (fst b) && N.eqb (snd a) (snd b).

Section AL.
  Context {K V : Type}.
  Variable eqb : K -> K -> bool.
  Fixpoint get (k : K) (l : list (K * V)) : option V :=
    match l with
    | [] => None
    | (k', v) :: r => if eqb k k' then Some v else get k r
    end.
  Fixpoint del (k : K) (l : list (K * V)) : list (K * V) :=
    match l with
    | [] => []
    | (k', v) :: r => if eqb k k' then del k r else (k', v) :: del k r
    end.
  Definition put (k : K) (v : V) (l : list (K * V)) : list (K * V) := (k, v) :: del k l.
  Definition has (k : K) (l : list (K * V)) : bool :=
    match get k l with Some _ => true | None => false end.
End AL.

Notation getN := (get N.eqb).
Notation delN := (del N.eqb).
Notation putN := (put N.eqb).
Notation hasN := (has N.eqb).
Notation getP := (get nn_eqb).
Notation delP := (del nn_eqb).
Notation putP := (put nn_eqb).
Notation hasP := (has nn_eqb).

Record bucket := { b_org : N; b_name : N; b_sys : bool }.

Record state := {
  s_orgs : list (N * oname);
  s_oidx : list (oname * N);
  s_bkts : list (N * bucket);
  s_bidx : list ((N * N) * N);          (* (org, name) -> id *)
  s_users : list (N * N);
  s_uidx : list (N * N);                (* name -> id *)
  s_pwds : list (N * unit);
  s_urms : list ((N * N) * (N * N));    (* (resource, user) -> (resource type, user type) *)
  s_uix : list ((N * N) * (N * N));     (* (user, resource) -> (resource, user) *)
  s_next : N
}.

Definition init : state :=
  {| s_orgs := []; s_oidx := []; s_bkts := []; s_bidx := []; s_users := []; s_uidx := [];
     s_pwds := []; s_urms := []; s_uix := []; s_next := 1 |}.

Definition E_OK : N := 0.
Definition E_CONFLICT : N := 1.
Definition E_NOTFOUND : N := 2.
Definition E_INVALID : N := 3.
Definition E_INTERNAL : N := 4.
Definition E_OTHER : N := 5.

Inductive op :=
| CreateOrg (name : oname) (owner : option N)   (* owner: user id of the caller's authorizer *)
| UpdateOrg (id : N) (name : option oname)      (* None: description-only update *)
| DeleteOrg (id : N)
| CreateBucket (org : N) (name : N) (sys : bool)
| UpdateBucket (id : N) (name : option N)
| DeleteBucket (id : N)
| CreateUser (name : N)
| UpdateUser (id : N) (name : option N)
| DeleteUser (id : N)
| SetPassword (id : N)
| AddURM (res user : N) (v : N * N)
| DelURM (res user : N).

(** [validBucketName] *)
Definition underscore (n : N) : bool := N.ltb n 3.
Definition quoted (n : N) : bool := N.eqb n 3.
Definition valid_bname (n : N) (sys : bool) : bool :=
  negb ((underscore n && negb sys) || quoted n).

(** ---- user resource mappings ---- *)

(** [Store.CreateURM] (one transaction). *)
Definition create_urm (st : state) (r u : N) (v : N * N) : state * N :=
  match getN u (s_users st) with
  | None => (st, E_NOTFOUND)
  | Some _ =>
      if hasP (r, u) (s_urms st) then (st, E_INTERNAL)
      else ({| s_orgs := s_orgs st; s_oidx := s_oidx st; s_bkts := s_bkts st; s_bidx := s_bidx st;
               s_users := s_users st; s_uidx := s_uidx st; s_pwds := s_pwds st;
               s_urms := putP (r, u) v (s_urms st);
               s_uix := putP (u, r) (r, u) (s_uix st);
               s_next := s_next st |}, E_OK)
  end.

(** [Store.DeleteURM]: by-user index entry first, then the record; no existence check. *)
Definition delete_urm (st : state) (r u : N) : state :=
  {| s_orgs := s_orgs st; s_oidx := s_oidx st; s_bkts := s_bkts st; s_bidx := s_bidx st;
     s_users := s_users st; s_uidx := s_uidx st; s_pwds := s_pwds st;
     s_urms := delP (r, u) (s_urms st);
     s_uix := delP (u, r) (s_uix st);
     s_next := s_next st |}.

(** [URMSvc.DeleteUserResourceMapping]: [GetURM] first. *)
Definition delete_urm_svc (st : state) (r u : N) : state * N :=
  if hasP (r, u) (s_urms st) then (delete_urm st r u, E_OK) else (st, E_NOTFOUND).

(** [removeResourceRelations]: list the mappings whose key has the resource as prefix,
    delete each through the service; "not found" is tolerated, nothing else can fail. *)
Definition remove_relations (st : state) (res : N) : state :=
  fold_left (fun s k => fst (delete_urm_svc s (fst k) (snd k)))
            (filter (fun k => N.eqb (fst k) res) (map fst (s_urms st))) st.

(** ---- buckets ---- *)

(** [BucketSvc.CreateBucket] (organization id assumed valid, i.e. non-zero). *)
Definition create_bucket (st : state) (org name : N) (sys : bool) : state * N :=
  if negb (valid_bname name sys) then (st, E_INVALID)
  else if negb (hasN org (s_orgs st)) then (st, E_NOTFOUND)
  else if hasP (org, name) (s_bidx st) then (st, E_CONFLICT)
  else ({| s_orgs := s_orgs st; s_oidx := s_oidx st;
           s_bkts := putN (s_next st) {| b_org := org; b_name := name; b_sys := sys |} (s_bkts st);
           s_bidx := putP (org, name) (s_next st) (s_bidx st);
           s_users := s_users st; s_uidx := s_uidx st; s_pwds := s_pwds st;
           s_urms := s_urms st; s_uix := s_uix st;
           s_next := N.succ (s_next st) |}, E_OK).

(** [Store.UpdateBucket] *)
Definition update_bucket (st : state) (id : N) (name : option N) : state * N :=
  match getN id (s_bkts st) with
  | None => (st, E_NOTFOUND)
  | Some b =>
      match name with
      | None => (st, E_OK)
      | Some n =>
          if N.eqb (b_name b) n then (st, E_OK)
          else if b_sys b then (st, E_INVALID)                     (* errRenameSystemBucket *)
          else if negb (valid_bname n (b_sys b)) then (st, E_INVALID)
          else if hasP (b_org b, n) (s_bidx st) then (st, E_CONFLICT)
          else ({| s_orgs := s_orgs st; s_oidx := s_oidx st;
                   s_bkts := putN id {| b_org := b_org b; b_name := n; b_sys := b_sys b |} (s_bkts st);
                   s_bidx := putP (b_org b, n) id (delP (b_org b, b_name b) (s_bidx st));
                   s_users := s_users st; s_uidx := s_uidx st; s_pwds := s_pwds st;
                   s_urms := s_urms st; s_uix := s_uix st; s_next := s_next st |}, E_OK)
      end
  end.

(** The transaction of [BucketSvc.DeleteBucket]; [internal] = the context of
    [DeleteOrganization], which may delete system buckets. *)
Definition delete_bucket_tx (st : state) (id : N) (internal : bool) : state * N :=
  match getN id (s_bkts st) with
  | None => (st, E_NOTFOUND)
  | Some b =>
      if b_sys b && negb internal then (st, E_INVALID)             (* errDeleteSystemBucket *)
      else ({| s_orgs := s_orgs st; s_oidx := s_oidx st;
               s_bkts := delN id (s_bkts st);
               s_bidx := delP (b_org b, b_name b) (s_bidx st);
               s_users := s_users st; s_uidx := s_uidx st; s_pwds := s_pwds st;
               s_urms := s_urms st; s_uix := s_uix st; s_next := s_next st |}, E_OK)
  end.

Definition delete_bucket (st : state) (id : N) (internal : bool) : state * N :=
  let (s1, e) := delete_bucket_tx st id internal in
  if N.eqb e E_OK then (remove_relations s1 id, E_OK) else (s1, e).

(** ---- organizations ---- *)

(** [OrgSvc.CreateOrganization]: the org transaction, then the two system buckets, then
    the owner mapping if the context carries a user id; each in its own transaction. *)
Definition create_org (st : state) (name : oname) (owner : option N) : state * N :=
  if N.eqb (fst name) 0 then (st, E_INVALID)                       (* ErrOrgNameisEmpty *)
  else if has nn_eqb (trim name) (s_oidx st) then (st, E_CONFLICT)
  else
    let id := s_next st in
    let s1 := {| s_orgs := putN id name (s_orgs st);
                 s_oidx := putP (trim name) id (s_oidx st);
                 s_bkts := s_bkts st; s_bidx := s_bidx st; s_users := s_users st;
                 s_uidx := s_uidx st; s_pwds := s_pwds st; s_urms := s_urms st;
                 s_uix := s_uix st; s_next := N.succ id |} in
    let (s2, e2) := create_bucket s1 id 0 true in
    if negb (N.eqb e2 E_OK) then (s2, e2) else
    let (s3, e3) := create_bucket s2 id 1 true in
    if negb (N.eqb e3 E_OK) then (s3, e3) else
    match owner with
    | None => (s3, E_OK)
    | Some u => create_urm s3 id u (0%N, 0%N)       (* resource type orgs, user type owner *)
    end.

(** [Store.UpdateOrg] *)
Definition update_org (st : state) (id : N) (name : option oname) : state * N :=
  match getN id (s_orgs st) with
  | None => (st, E_NOTFOUND)
  | Some old =>
      match name with
      | None => (st, E_OK)
      | Some n =>
          if nn_eqb old n then (st, E_OK)
          else if N.eqb (fst n) 0 then (st, E_INVALID)
          else if hasP (trim n) (s_oidx st) then (st, E_CONFLICT)
          else ({| s_orgs := putN id n (s_orgs st);
                   s_oidx := putP (trim n) id (delP (trim old) (s_oidx st));
                   s_bkts := s_bkts st; s_bidx := s_bidx st; s_users := s_users st;
                   s_uidx := s_uidx st; s_pwds := s_pwds st; s_urms := s_urms st;
                   s_uix := s_uix st; s_next := s_next st |}, E_OK)
      end
  end.

(** The bucket loop of [DeleteOrganization]: stops at the first error. *)
Fixpoint delete_buckets (l : list N) (st : state) : state * N :=
  match l with
  | [] => (st, E_OK)
  | i :: r =>
      let (s1, e) := delete_bucket st i true in
      if N.eqb e E_OK then delete_buckets r s1 else (s1, e)
  end.

(** [Store.DeleteOrg] (one transaction). *)
Definition delete_org_tx (fx : bool) (st : state) (id : N) : state * N :=
  match getN id (s_orgs st) with
  | None => (st, E_NOTFOUND)
  | Some n =>
      ({| s_orgs := delN id (s_orgs st);
          s_oidx := delP (if fx then trim n else n) (s_oidx st);
          s_bkts := s_bkts st; s_bidx := s_bidx st; s_users := s_users st;
          s_uidx := s_uidx st; s_pwds := s_pwds st; s_urms := s_urms st;
          s_uix := s_uix st; s_next := s_next st |}, E_OK)
  end.

(** [OrgSvc.DeleteOrganization] with a task service that knows no tasks:
    [FindBuckets(org)] walks the bucket index entries of the org and loads every
    record (a missing record fails the whole call before anything is deleted), then
    deletes each bucket with its mappings, then the org, then the org's mappings. *)
Definition delete_org (fx : bool) (st : state) (id : N) : state * N :=
  let ids := map snd (filter (fun e => N.eqb (fst (fst e)) id) (s_bidx st)) in
  if negb (forallb (fun i => hasN i (s_bkts st)) ids) then (st, E_NOTFOUND)
  else
    let (s1, e1) := delete_buckets ids st in
    if negb (N.eqb e1 E_OK) then (s1, e1) else
    let (s2, e2) := delete_org_tx fx s1 id in
    if negb (N.eqb e2 E_OK) then (s2, e2) else
    (remove_relations s2 id, E_OK).

(** ---- users ---- *)

Definition create_user (st : state) (name : N) : state * N :=
  if hasN name (s_uidx st) then (st, E_CONFLICT)
  else ({| s_orgs := s_orgs st; s_oidx := s_oidx st; s_bkts := s_bkts st; s_bidx := s_bidx st;
           s_users := putN (s_next st) name (s_users st);
           s_uidx := putN name (s_next st) (s_uidx st);
           s_pwds := s_pwds st; s_urms := s_urms st; s_uix := s_uix st;
           s_next := N.succ (s_next st) |}, E_OK).

Definition update_user (st : state) (id : N) (name : option N) : state * N :=
  match getN id (s_users st) with
  | None => (st, E_NOTFOUND)
  | Some old =>
      match name with
      | None => (st, E_OK)
      | Some n =>
          if N.eqb n old then (st, E_OK)
          else if hasN n (s_uidx st) then (st, E_CONFLICT)
          else ({| s_orgs := s_orgs st; s_oidx := s_oidx st; s_bkts := s_bkts st; s_bidx := s_bidx st;
                   s_users := putN id n (s_users st);
                   s_uidx := putN n id (delN old (s_uidx st));
                   s_pwds := s_pwds st; s_urms := s_urms st; s_uix := s_uix st;
                   s_next := s_next st |}, E_OK)
      end
  end.

(** [UserSvc.DeleteUser] (one transaction): password, name index entry, record, then
    the user's mappings found through the by-user index ([kv.Index.Walk]: index
    entries of the user whose primary key still has a record in the source bucket),
    each removed with [Store.DeleteURM]. *)
Definition delete_user (st : state) (id : N) : state * N :=
  match getN id (s_users st) with
  | None => (st, E_NOTFOUND)
  | Some n =>
      let s1 := {| s_orgs := s_orgs st; s_oidx := s_oidx st; s_bkts := s_bkts st; s_bidx := s_bidx st;
                   s_users := delN id (s_users st);
                   s_uidx := delN n (s_uidx st);
                   s_pwds := delN id (s_pwds st);
                   s_urms := s_urms st; s_uix := s_uix st; s_next := s_next st |} in
      let pks := map snd (filter (fun e => N.eqb (fst (fst e)) id && hasP (snd e) (s_urms st))
                                 (s_uix st)) in
      (fold_left (fun s pk => delete_urm s (fst pk) (snd pk)) pks s1, E_OK)
  end.

(** [UserSvc.SetPassword]: [EIncorrectUser] (forbidden) for an unknown user. *)
Definition set_password (st : state) (id : N) : state * N :=
  if hasN id (s_users st)
  then ({| s_orgs := s_orgs st; s_oidx := s_oidx st; s_bkts := s_bkts st; s_bidx := s_bidx st;
           s_users := s_users st; s_uidx := s_uidx st;
           s_pwds := putN id tt (s_pwds st);
           s_urms := s_urms st; s_uix := s_uix st; s_next := s_next st |}, E_OK)
  else (st, E_OTHER).

Definition step_e (fx : bool) (st : state) (o : op) : state * N :=
  match o with
  | CreateOrg n owner => create_org st n owner
  | UpdateOrg id n => update_org st id n
  | DeleteOrg id => delete_org fx st id
  | CreateBucket org n sys => create_bucket st org n sys
  | UpdateBucket id n => update_bucket st id n
  | DeleteBucket id => delete_bucket st id false
  | CreateUser n => create_user st n
  | UpdateUser id n => update_user st id n
  | DeleteUser id => delete_user st id
  | SetPassword id => set_password st id
  | AddURM r u v => create_urm st r u v
  | DelURM r u => delete_urm_svc st r u
  end.

Definition step (fx : bool) (st : state) (o : op) : state := fst (step_e fx st o).
Definition run (fx : bool) (ops : list op) : state := fold_left (step fx) ops init.

(** ---- name lookups of the service API ---- *)

(** [FindOrganization(Name)] = [GetOrgByName]: index, then record. *)
Definition find_org (st : state) (n : oname) : option N :=
  match getP (trim n) (s_oidx st) with
  | Some id => if hasN id (s_orgs st) then Some id else None
  | None => None
  end.
Definition find_bucket (st : state) (org name : N) : option N :=
  match getP (org, name) (s_bidx st) with
  | Some id => if hasN id (s_bkts st) then Some id else None
  | None => None
  end.
Definition find_user (st : state) (n : N) : option N :=
  match getN n (s_uidx st) with
  | Some id => if hasN id (s_users st) then Some id else None
  | None => None
  end.

(** ================= correspondence judge ================= *)

(** What the driver observes after every operation: the error class, a dump of all
    nine KV buckets (sorted by key) and the name lookups for the case's probes. *)
Record obs := {
  o_same : bool;   (* driver-side compression: the dump and lookups equal the previous step's *)
  o_skip : bool;   (* the driver did not look at the store after this step (only the error
                      class is known): bulk phases of the large-organization histories *)
  o_err : N;
  o_orgs : list (N * oname);
  o_oidx : list (oname * N);
  o_bkts : list (N * bucket);
  o_bidx : list ((N * N) * N);
  o_users : list (N * N);
  o_uidx : list (N * N);
  o_pwds : list N;
  o_urms : list ((N * N) * (N * N));
  o_uix : list ((N * N) * (N * N));
  o_lorg : list (oname * option N);      (* FindOrganization by name: probe, id found *)
  o_lbkt : list ((N * N) * option N);    (* FindBucketByName (org, name) *)
  o_lusr : list (N * option N);          (* FindUser by name *)
  o_lst : list (N * option (list N))     (* FindBuckets(OrganizationID) with an explicit large
                                            limit: ids, ascending; None = the call failed *)
}.

Record case := { c_ops : list op; c_obs : list obs }.

(** Monomorphic constructors of the wire format (they elaborate much faster than record
    and pair notations in the large case files the driver writes). *)
Definition mk_org (id c v : N) : N * oname := (id, (c, v)).
Definition mk_oidx (c v id : N) : oname * N := ((c, v), id).
Definition mk_bkt (id org name : N) (sys : bool) : N * bucket :=
  (id, {| b_org := org; b_name := name; b_sys := sys |}).
Definition mk_nn (a b : N) : N * N := (a, b).
Definition mk_nnn (a b c : N) : (N * N) * N := ((a, b), c).
Definition mk_urm (a b c d : N) : (N * N) * (N * N) := ((a, b), (c, d)).
Definition sN (a : N) : option N := Some a.
Definition nN : option N := None.
Definition mk_lk (a b : N) (r : option N) : (N * N) * option N := ((a, b), r).
Definition mk_lu (a : N) (r : option N) : N * option N := (a, r).
Definition sL (l : list N) : option (list N) := Some l.
Definition nL : option (list N) := None.
Definition mk_ls (o : N) (r : option (list N)) : N * option (list N) := (o, r).
Definition oskip (e : N) : obs :=
  {| o_same := false; o_skip := true; o_err := e; o_orgs := []; o_oidx := []; o_bkts := []; o_bidx := []; o_users := [];
     o_uidx := []; o_pwds := []; o_urms := []; o_uix := []; o_lorg := []; o_lbkt := []; o_lusr := []; o_lst := [] |}.
Definition osame (e : N) : obs :=
  {| o_same := true; o_skip := false; o_err := e; o_orgs := []; o_oidx := []; o_bkts := []; o_bidx := []; o_users := [];
     o_uidx := []; o_pwds := []; o_urms := []; o_uix := []; o_lorg := []; o_lbkt := []; o_lusr := []; o_lst := [] |}.
Definition oN (a b : N) : oname := (a, b).

(** insertion sort by key *)
Section Sort.
  Context {K V : Type}.
  Variable leb : K -> K -> bool.
  Fixpoint sins (e : K * V) (l : list (K * V)) : list (K * V) :=
    match l with
    | [] => [e]
    | x :: r => if leb (fst e) (fst x) then e :: l else x :: sins e r
    end.
  Definition ssort (l : list (K * V)) : list (K * V) := fold_right sins [] l.
End Sort.
Definition nn_leb (a b : N * N) : bool :=
  N.ltb (fst a) (fst b) || (N.eqb (fst a) (fst b) && N.leb (snd a) (snd b)).

Definition bucket_eqb (a b : bucket) : bool :=
  N.eqb (b_org a) (b_org b) && N.eqb (b_name a) (b_name b) && Bool.eqb (b_sys a) (b_sys b).
Definition optN_eqb := option_eqb N.eqb.

(** [FindBuckets(OrganizationID)] = [listBucketsByOrg]: the bucket index entries of the
    org, each record loaded (a missing record fails the call); ids in ascending order. *)
Definition list_buckets (st : state) (org : N) : option (list N) :=
  let ids := map snd (filter (fun e => N.eqb (fst (fst e)) org) (s_bidx st)) in
  if forallb (fun i => hasN i (s_bkts st)) ids
  then Some (map fst (ssort N.leb (map (fun i => (i, tt)) ids)))
  else None.

(** The model's observation for the probes the driver chose at this step. *)
Definition model_obs (seen : obs) (se : state * N) : obs :=
  let st := fst se in
  {| o_same := false; o_skip := false; o_err := snd se;
     o_orgs := ssort N.leb (s_orgs st);
     o_oidx := ssort nn_leb (s_oidx st);
     o_bkts := ssort N.leb (s_bkts st);
     o_bidx := ssort nn_leb (s_bidx st);
     o_users := ssort N.leb (s_users st);
     o_uidx := ssort N.leb (s_uidx st);
     o_pwds := map fst (ssort N.leb (s_pwds st));
     o_urms := ssort nn_leb (s_urms st);
     o_uix := ssort nn_leb (s_uix st);
     o_lorg := map (fun p => (fst p, find_org st (fst p))) (o_lorg seen);
     o_lbkt := map (fun p => (fst p, find_bucket st (fst (fst p)) (snd (fst p)))) (o_lbkt seen);
     o_lusr := map (fun p => (fst p, find_user st (fst p))) (o_lusr seen);
     o_lst := map (fun p => (fst p, list_buckets st (fst p))) (o_lst seen) |}.

Definition obs_eqb (a b : obs) : bool :=
  N.eqb (o_err a) (o_err b)
  && list_eqb (pair_eqb N.eqb nn_eqb) (o_orgs a) (o_orgs b)
  && list_eqb (pair_eqb nn_eqb N.eqb) (o_oidx a) (o_oidx b)
  && list_eqb (pair_eqb N.eqb bucket_eqb) (o_bkts a) (o_bkts b)
  && list_eqb (pair_eqb nn_eqb N.eqb) (o_bidx a) (o_bidx b)
  && list_eqb (pair_eqb N.eqb N.eqb) (o_users a) (o_users b)
  && list_eqb (pair_eqb N.eqb N.eqb) (o_uidx a) (o_uidx b)
  && list_eqb N.eqb (o_pwds a) (o_pwds b)
  && list_eqb (pair_eqb nn_eqb nn_eqb) (o_urms a) (o_urms b)
  && list_eqb (pair_eqb nn_eqb nn_eqb) (o_uix a) (o_uix b)
  && list_eqb (pair_eqb nn_eqb optN_eqb) (o_lorg a) (o_lorg b)
  && list_eqb (pair_eqb nn_eqb optN_eqb) (o_lbkt a) (o_lbkt b)
  && list_eqb (pair_eqb N.eqb optN_eqb) (o_lusr a) (o_lusr b)
  && list_eqb (pair_eqb N.eqb (option_eqb (list_eqb N.eqb))) (o_lst a) (o_lst b).

Fixpoint trace (fx : bool) (st : state) (ops : list op) : list (state * N) :=
  match ops with
  | [] => []
  | o :: r => let se := step_e fx st o in se :: trace fx (fst se) r
  end.

(** ---- the oracle: the property stated on the OBSERVED dumps, without [step] ---- *)

Fixpoint nodupb {A} (eqb : A -> A -> bool) (l : list A) : bool :=
  match l with
  | [] => true
  | x :: r => negb (existsb (eqb x) r) && nodupb eqb r
  end.

(** the record (if any) carrying a name, found by scanning the RECORDS *)
Definition rec_org (o : obs) (n : oname) : option N :=
  option_map fst (find (fun e => nn_eqb (trim (snd e)) (trim n)) (o_orgs o)).
Definition rec_bucket (o : obs) (org name : N) : option N :=
  option_map fst (find (fun e => N.eqb (b_org (snd e)) org && N.eqb (b_name (snd e)) name) (o_bkts o)).
Definition rec_user (o : obs) (n : N) : option N :=
  option_map fst (find (fun e => N.eqb (snd e) n) (o_users o)).

Definition ok_state (o : obs) : bool :=
  (* names are unique *)
  nodupb nn_eqb (map (fun e => trim (snd e)) (o_orgs o))
  && nodupb N.eqb (map snd (o_users o))
  && nodupb nn_eqb (map (fun e => (b_org (snd e), b_name (snd e))) (o_bkts o))
  (* every index entry points to a live record with that name; every record has its entry *)
  && forallb (fun e => match getN (snd e) (o_orgs o) with
                       | Some n => nn_eqb (trim n) (fst e) | None => false end) (o_oidx o)
  && forallb (fun e => optN_eqb (getP (trim (snd e)) (o_oidx o)) (Some (fst e))) (o_orgs o)
  && forallb (fun e => match getN (snd e) (o_bkts o) with
                       | Some b => nn_eqb (b_org b, b_name b) (fst e) | None => false end) (o_bidx o)
  && forallb (fun e => optN_eqb (getP (b_org (snd e), b_name (snd e)) (o_bidx o)) (Some (fst e))) (o_bkts o)
  && forallb (fun e => optN_eqb (getN (snd e) (o_users o)) (Some (fst e))) (o_uidx o)
  && forallb (fun e => optN_eqb (getN (snd e) (o_uidx o)) (Some (fst e))) (o_users o)
  && forallb (fun e => nn_eqb (snd e) (snd (fst e), fst (fst e)) && hasP (snd e) (o_urms o)) (o_uix o)
  && forallb (fun e => hasP (snd (fst e), fst (fst e)) (o_uix o)) (o_urms o)
  (* no orphans: a bucket's org, a mapping's user and a password's user exist *)
  && forallb (fun e => hasN (b_org (snd e)) (o_orgs o)) (o_bkts o)
  && forallb (fun e => hasN (snd (fst e)) (o_users o)) (o_urms o)
  && forallb (fun i => hasN i (o_users o)) (o_pwds o)
  (* every name lookup agrees with the records *)
  && forallb (fun p => optN_eqb (snd p) (rec_org o (fst p))) (o_lorg o)
  && forallb (fun p => optN_eqb (snd p) (rec_bucket o (fst (fst p)) (snd (fst p)))) (o_lbkt o)
  && forallb (fun p => optN_eqb (snd p) (rec_user o (fst p))) (o_lusr o)
  (* the bucket listing of an organization is exactly its bucket records *)
  && forallb (fun p => option_eqb (list_eqb N.eqb) (snd p)
                         (Some (map fst (filter (fun e => N.eqb (b_org (snd e)) (fst p)) (o_bkts o)))))
             (o_lst o).

Definition is_delete_org_of (o : op) (org : N) : bool :=
  match o with DeleteOrg id => N.eqb id org | _ => false end.

(** What one operation may and may not do, judged from the dumps before and after. *)
Definition ok_step (prev : obs) (o : op) (cur : obs) : bool :=
  (* system buckets are immutable, except that deleting the organization removes them *)
  forallb (fun e => negb (b_sys (snd e)) || is_delete_org_of o (b_org (snd e))
                    || option_eqb bucket_eqb (getN (fst e) (o_bkts cur)) (Some (snd e)))
          (o_bkts prev)
  && match o with
     | DeleteOrg id =>
         (* a successful organization delete leaves neither the org, nor a bucket of it,
            nor a mapping on the org or on one of its buckets *)
         negb (N.eqb (o_err cur) E_OK)
         || (negb (hasN id (o_orgs cur))
             && forallb (fun e => negb (N.eqb (b_org (snd e)) id)) (o_bkts cur)
             && forallb (fun e => negb (N.eqb (fst (fst e)) id)) (o_bidx cur)
             (* the buckets of the other organizations are untouched *)
             && forallb (fun e => N.eqb (b_org (snd e)) id
                                  || option_eqb bucket_eqb (getN (fst e) (o_bkts cur)) (Some (snd e)))
                        (o_bkts prev)
             && let dead := id :: map fst (filter (fun e => N.eqb (b_org (snd e)) id) (o_bkts prev)) in
                forallb (fun e => negb (existsb (N.eqb (fst (fst e))) dead)) (o_urms cur)
                && forallb (fun e => negb (existsb (N.eqb (snd (fst e))) dead)) (o_uix cur))
     (* a name conflict is reported only if the name is taken by a record *)
     | CreateOrg n _ =>
         negb (N.eqb (o_err cur) E_CONFLICT) || match rec_org prev n with Some _ => true | None => false end
     | UpdateOrg _ (Some n) =>
         negb (N.eqb (o_err cur) E_CONFLICT) || match rec_org prev n with Some _ => true | None => false end
     | CreateBucket org n _ =>
         negb (N.eqb (o_err cur) E_CONFLICT) || match rec_bucket prev org n with Some _ => true | None => false end
     | UpdateBucket id (Some n) =>
         negb (N.eqb (o_err cur) E_CONFLICT)
         || match getN id (o_bkts prev) with
            | Some b => match rec_bucket prev (b_org b) n with Some _ => true | None => false end
            | None => false end
     | CreateUser n =>
         negb (N.eqb (o_err cur) E_CONFLICT) || match rec_user prev n with Some _ => true | None => false end
     | UpdateUser _ (Some n) =>
         negb (N.eqb (o_err cur) E_CONFLICT) || match rec_user prev n with Some _ => true | None => false end
     | DeleteUser id =>
         negb (N.eqb (o_err cur) E_OK)
         || (negb (hasN id (o_users cur))
             && forallb (fun e => negb (N.eqb (snd (fst e)) id)) (o_urms cur)
             && negb (existsb (N.eqb id) (o_pwds cur)))
     | _ => true
     end.

Definition empty_obs : obs :=
  {| o_same := false; o_skip := false; o_err := 0; o_orgs := []; o_oidx := []; o_bkts := []; o_bidx := []; o_users := []; o_uidx := [];
     o_pwds := []; o_urms := []; o_uix := []; o_lorg := []; o_lbkt := []; o_lusr := []; o_lst := [] |}.

(** Only bucket operations through the API may go unobserved (they cannot touch system
    buckets, organizations, users or mappings of other resources). *)
Definition may_skip (o : op) : bool :=
  match o with CreateBucket _ _ _ | UpdateBucket _ _ | DeleteBucket _ => true | _ => false end.

(** [fresh]: [prev] is the observation of the immediately preceding step.  After unobserved
    steps the next observed step is judged by [ok_state] only; the step after it again by
    [ok_step] too. *)
Fixpoint ok_trace (prev : obs) (fresh : bool) (ops : list op) (os : list obs) : bool :=
  match ops, os with
  | [], [] => true
  | o :: ops', cur :: os' =>
      if o_skip cur then may_skip o && ok_trace prev false ops' os'
      else ok_state cur && (negb fresh || ok_step prev o cur) && ok_trace cur true ops' os'
  | _, _ => false
  end.

Fixpoint same_trace (os : list obs) (ms : list (state * N)) : bool :=
  match os, ms with
  | [], [] => true
  | o :: os', m :: ms' =>
      (if o_skip o then N.eqb (o_err o) (snd m) else obs_eqb o (model_obs o m)) && same_trace os' ms'
  | _, _ => false
  end.

(** Undo the driver's compression of unchanged steps. *)
Definition expand1 (prev cur : obs) : obs :=
  if o_same cur then
    {| o_same := false; o_skip := false; o_err := o_err cur; o_orgs := o_orgs prev; o_oidx := o_oidx prev;
       o_bkts := o_bkts prev; o_bidx := o_bidx prev; o_users := o_users prev; o_uidx := o_uidx prev;
       o_pwds := o_pwds prev; o_urms := o_urms prev; o_uix := o_uix prev;
       o_lorg := o_lorg prev; o_lbkt := o_lbkt prev; o_lusr := o_lusr prev; o_lst := o_lst prev |}
  else cur.
Fixpoint expand (prev : obs) (os : list obs) : list obs :=
  match os with
  | [] => []
  | o :: r => let o' := expand1 prev o in o' :: expand (if o_skip o' then prev else o') r
  end.

Definition check (c : case) : verdict :=
  let os := expand empty_obs (c_obs c) in
  let same := same_trace os (trace true init (c_ops c)) in
  let ok := ok_trace empty_obs true (c_ops c) os in
  judge same ok.
