(** C35 — [Merge] is the register-wise maximum (hence commutative, associative, idempotent on
    the registers), and the registers of a sketch are those of the multiset of hashes added:
    a merged sketch is the sketch of the union. *)
From Verif Require Import Base.Prelude Model.C35 Proofs.C35_regs_base Proofs.C35_regs_iface
  Proofs.C35_regs_wf.
Local Open Scope N_scope.

Section WithIface.
Variable I : iface.

Lemma to_dn a : wfs a -> (if k_sparse a then to_normal a else a) = dn (k_p a) (regs a).
Proof.
  intros W. destruct (wfs_cases a W) as (A & B & [(tmp & l & E & Ht & Hl)|(d & E & L)]).
  - set (p := k_p a) in *. clearbody p. subst a. change (k_sparse (sp p tmp l)) with true. cbv iota.
    rewrite (to_normal_sp I), (regs_sp I) by assumption. reflexivity.
  - set (p := k_p a) in *. clearbody p. subst a. reflexivity.
Qed.

(** * 3. merge = register-wise maximum *)
Lemma k_merge_eq a b : wfs a -> wfs b -> k_p a = k_p b ->
  k_merge a b = Some (dn (k_p a) (zip_max (regs a) (regs b))).
Proof.
  intros Wa Wb Ep. unfold k_merge. rewrite Ep, N.eqb_refl. cbn [negb]. rewrite <- Ep.
  rewrite (to_dn a Wa). pose proof (regs_length I a Wa) as La.
  set (p := k_p a) in *. clearbody p. set (ra := regs a) in *. clearbody ra.
  unfold dn. cbn [k_p k_tmp k_cl k_dense]. f_equal. f_equal.
  destruct (wfs_cases b Wb) as (A & B & [(tmp & l & E & Ht & Hl)|(d & E & L)]); rewrite <- Ep in E.
  - subst b. change (k_sparse (sp p tmp l)) with true. cbv iota.
    rewrite (regs_sp I) by assumption.
    change (k_tmp (sp p tmp l)) with tmp. change (k_cl (sp p tmp l)) with (cl_of_keys l).
    rewrite (i_cl_keys I l Hl). rewrite <- fold_left_app.
    rewrite fold_keys_zip_zeros by exact La. f_equal.
    apply kregs_ext. intro k. rewrite merge_keys_In, in_app_iff. tauto.
  - subst b. reflexivity.
Qed.

Lemma k_merge_none a b : k_p a <> k_p b -> k_merge a b = None.
Proof. intro H. unfold k_merge. destruct (N.eqb_spec (k_p a) (k_p b)); [contradiction|reflexivity]. Qed.

Lemma k_merge_some_p a b c : k_merge a b = Some c -> k_p a = k_p b.
Proof. unfold k_merge. destruct (N.eqb_spec (k_p a) (k_p b)); [auto|discriminate]. Qed.

Lemma regs_merge_max_s a b : wfs a -> wfs b -> k_p a = k_p b ->
  exists c, k_merge a b = Some c /\ regs c = zip_max (regs a) (regs b).
Proof.
  intros Wa Wb Ep. eexists. split; [apply k_merge_eq; assumption|]. apply regs_dn.
Qed.

Lemma wf_merge_s a b c : wfs a -> wfs b -> k_merge a b = Some c -> wf c /\ k_p c = k_p a.
Proof.
  intros Wa Wb E. pose proof (k_merge_some_p _ _ _ E) as Ep.
  rewrite (k_merge_eq a b Wa Wb Ep) in E. inversion E; subst; clear E.
  pose proof Wa as (A & B & _). split; [|reflexivity].
  apply wf_dn, wfs_dn; [assumption..|].
  rewrite zip_max_length. apply (regs_length I). exact Wa.
Qed.

Lemma merge_comm_regs_s a b : wfs a -> wfs b -> k_p a = k_p b ->
  exists c1 c2, k_merge a b = Some c1 /\ k_merge b a = Some c2 /\ regs c1 = regs c2.
Proof.
  intros Wa Wb Ep. do 2 eexists.
  split; [apply k_merge_eq; assumption|]. split; [apply k_merge_eq; auto|].
  rewrite !regs_dn. apply zip_max_comm. rewrite !(regs_length I) by assumption. rewrite Ep. reflexivity.
Qed.

Lemma merge_assoc_regs_s a b c : wfs a -> wfs b -> wfs c -> k_p a = k_p b -> k_p b = k_p c ->
  exists ab abc bc abc',
    k_merge a b = Some ab /\ k_merge ab c = Some abc /\
    k_merge b c = Some bc /\ k_merge a bc = Some abc' /\ regs abc = regs abc'.
Proof.
  intros Wa Wb Wc Eab Ebc.
  pose proof (k_merge_eq a b Wa Wb Eab) as Hab.
  pose proof (k_merge_eq b c Wb Wc Ebc) as Hbc.
  destruct (wf_merge_s _ _ _ Wa Wb Hab) as [[Wab _] Pab].
  destruct (wf_merge_s _ _ _ Wb Wc Hbc) as [[Wbc _] Pbc].
  exists (dn (k_p a) (zip_max (regs a) (regs b))). eexists.
  exists (dn (k_p b) (zip_max (regs b) (regs c))). eexists.
  split; [exact Hab|]. split; [apply k_merge_eq; [assumption..|]; rewrite Pab; congruence|].
  split; [exact Hbc|]. split; [apply k_merge_eq; [assumption..|]; rewrite Pbc; congruence|].
  rewrite !regs_dn. apply zip_max_assoc; rewrite !(regs_length I) by assumption; congruence.
Qed.

Lemma merge_idem_regs_s a : wfs a -> exists c, k_merge a a = Some c /\ regs c = regs a.
Proof.
  intro Wa. eexists. split; [apply k_merge_eq; auto|]. rewrite regs_dn. apply zip_max_idem.
Qed.

(** * 4. the registers of a sketch are those of the hashes added *)
Definition reg_step (p : N) (d : list N) (x : N) : list N :=
  reg_update d (N.to_nat (dense_index p x)) (dense_rho p x).

Lemma spec_regs_fold p ys xs : spec_regs p (ys ++ xs) = fold_left (reg_step p) xs (spec_regs p ys).
Proof. unfold spec_regs. apply fold_left_app. Qed.

Lemma adds_inv : forall xs s, wfs s -> Forall (fun x => x < two64) xs ->
  wfs (fold_left k_add xs s) /\ k_p (fold_left k_add xs s) = k_p s /\
  regs (fold_left k_add xs s) = fold_left (reg_step (k_p s)) xs (regs s).
Proof.
  induction xs as [|x xs IH]; intros s W F.
  - cbn [fold_left]. auto.
  - inversion F as [|? ? Hx F']; subst. cbn [fold_left].
    destruct (IH (k_add s x) (wfs_add I s x W Hx) F') as (W' & P' & R').
    split; [exact W'|]. rewrite P', R', (k_add_p I s x W Hx), (regs_add I s x W Hx).
    split; reflexivity.
Qed.

Lemma wf_adds : forall xs s, wf s -> Forall (fun x => x < two64) xs -> wf (fold_left k_add xs s).
Proof.
  induction xs as [|x xs IH]; intros s W F; [exact W|].
  inversion F as [|? ? Hx F']; subst. cbn [fold_left]. apply IH; [apply (wf_add I); assumption|assumption].
Qed.

Lemma regs_of_list_gen s0 ys xs : wfs s0 -> Forall (fun x => x < two64) xs ->
  regs s0 = spec_regs (k_p s0) ys ->
  regs (fold_left k_add xs s0) = spec_regs (k_p s0) (ys ++ xs).
Proof.
  intros W F R. destruct (adds_inv xs s0 W F) as (_ & _ & R').
  rewrite R', R, spec_regs_fold. reflexivity.
Qed.

Lemma regs_new p s0 : k_new p = Some s0 -> regs s0 = spec_regs p [] /\ k_p s0 = p.
Proof.
  intro E. apply k_new_sp in E. subst. split; [|reflexivity].
  rewrite (regs_sp I) by exact Logic.I. reflexivity.
Qed.

Lemma regs_of_list p s0 xs : k_new p = Some s0 -> Forall (fun x => x < two64) xs ->
  regs (fold_left k_add xs s0) = spec_regs p xs.
Proof.
  intros E F. destruct (regs_new p s0 E) as [R P].
  rewrite <- P in R |- *. apply (regs_of_list_gen s0 [] xs); [eapply wfs_new; exact E|exact F|exact R].
Qed.

(** * 5. merging the sketches of two streams gives the sketch of their union *)
Lemma regs_of_union p s0 xs ys : k_new p = Some s0 ->
  Forall (fun x => x < two64) xs -> Forall (fun x => x < two64) ys ->
  exists c, k_merge (fold_left k_add xs s0) (fold_left k_add ys s0) = Some c /\
            regs c = spec_regs p (xs ++ ys) /\
            regs c = regs (fold_left k_add (xs ++ ys) s0).
Proof.
  intros E Fx Fy. pose proof (wfs_new p s0 E) as W0.
  destruct (adds_inv xs s0 W0 Fx) as (Wx & Px & _).
  destruct (adds_inv ys s0 W0 Fy) as (Wy & Py & _).
  eexists. split; [apply k_merge_eq; [assumption..|congruence]|].
  rewrite regs_dn, (regs_of_list p s0 (xs ++ ys) E) by (apply Forall_app; split; assumption).
  rewrite (regs_of_list p s0 xs E Fx), (regs_of_list p s0 ys E Fy), spec_regs_app. split; reflexivity.
Qed.

(** versions with the full invariant [wf] *)
Lemma wf_merge a b c : wf a -> wf b -> k_merge a b = Some c -> wf c.
Proof. intros [Wa _] [Wb _] E. exact (proj1 (wf_merge_s a b c Wa Wb E)). Qed.

Lemma regs_merge_max a b : wf a -> wf b -> k_p a = k_p b ->
  exists c, k_merge a b = Some c /\ regs c = zip_max (regs a) (regs b).
Proof. intros [Wa _] [Wb _]. apply regs_merge_max_s; assumption. Qed.

Lemma merge_comm_regs a b : wf a -> wf b -> k_p a = k_p b ->
  exists c1 c2, k_merge a b = Some c1 /\ k_merge b a = Some c2 /\ regs c1 = regs c2.
Proof. intros [Wa _] [Wb _]. apply merge_comm_regs_s; assumption. Qed.

Lemma merge_assoc_regs a b c : wf a -> wf b -> wf c -> k_p a = k_p b -> k_p b = k_p c ->
  exists ab abc bc abc',
    k_merge a b = Some ab /\ k_merge ab c = Some abc /\
    k_merge b c = Some bc /\ k_merge a bc = Some abc' /\ regs abc = regs abc'.
Proof. intros [Wa _] [Wb _] [Wc _]. apply merge_assoc_regs_s; assumption. Qed.

Lemma merge_idem_regs a : wf a -> exists c, k_merge a a = Some c /\ regs c = regs a.
Proof. intros [Wa _]. apply merge_idem_regs_s; assumption. Qed.

End WithIface.
