(** C31 — Resource IDs round-trip and generated IDs are unique.  Property theorems only.

    Strings are lists of byte codes; IDs are [N] below 2^64 (Go [uint64]).
    [encode]/[decode] mirror ID.Encode/ID.Decode (kit/platform/id.go); [step]/[run]
    mirror Generator.Next (pkg/snowflake/gen.go) as a small-step machine whose labels
    are the atomic actions of concurrently running callers. *)
From Verif Require Import Base.Prelude Model.C31 Proofs.C31_codec Proofs.C31_gen.
Local Open Scope N_scope.

(** Every valid ID encodes to 16 lower-case hex characters that decode back to it. *)
Theorem C31_id_roundtrip :
  forall n, 0 < n -> n < 2 ^ 64 ->
    exists s, encode n = Some s /\ decode s = Some n /\ length s = 16%nat
              /\ forallb is_lower_hex s = true.
Proof. exact id_roundtrip_fixed. Qed.
Print Assumptions C31_id_roundtrip.

(** The zero ID has no encoding. *)
Theorem C31_zero_invalid : encode 0 = None.
Proof. exact encode_zero. Qed.
Print Assumptions C31_zero_invalid.

(** FULL STATEMENT (second half of the first sentence of the property): every string (any
    bytes, any length) that is not the encoding of a valid ID is rejected, and every
    encoding is accepted with its own value.  Holds for the repaired Decode (guard against
    'A'..'F' before strconv.ParseUint; finding id-decode-uppercase-hex, fixed). *)
Theorem C31_decode_rejects_others :
  forall s n, decode s = Some n <-> (n < 2 ^ 64 /\ encode n = Some s).
Proof. exact decode_exact. Qed.
Print Assumptions C31_decode_rejects_others.

(** Consequences of the two theorems above, stated outright: distinct valid IDs never share
    an encoding, and an ID has exactly ONE accepted spelling (so string comparison of
    accepted encodings is ID comparison). *)
Theorem C31_encode_decode_injective :
  (forall a b s, a < 2 ^ 64 -> b < 2 ^ 64 -> encode a = Some s -> encode b = Some s -> a = b) /\
  (forall s1 s2 n, decode s1 = Some n -> decode s2 = Some n -> s1 = s2).
Proof. split; [exact encode_injective | exact decode_injective]. Qed.
Print Assumptions C31_encode_decode_injective.

(** Why the guard is needed: the ParseUint part alone ([decode_pu], the code before the
    repair) accepts exactly the 16 hex digits of either case, e.g. "000000000000000A". *)
Theorem C31_parseuint_part_accepts_either_case :
  (forall s n, decode_pu s = Some n <->
     (n < 2 ^ 64 /\ length s = 16%nat /\ forallb is_hex s = true
      /\ encode n = Some (map to_lower_hex s))) /\
  (exists s n, decode_pu s = Some n /\ encode n <> Some s).
Proof. split; [exact decode_iff | exact decode_uppercase_witness]. Qed.
Print Assumptions C31_parseuint_part_accepts_either_case.

(** A decoded ID is never zero; wrong lengths, non-hex characters and upper-case hex
    digits are rejected. *)
Theorem C31_decode_rejects :
  (forall s n, decode s = Some n -> n <> 0) /\
  (forall s, length s <> 16%nat -> decode s = None) /\
  (forall s c, In c s -> is_hex c = false -> decode s = None) /\
  decode (repeat 48 16) = None /\
  decode [48;48;48;48;48;48;48;48;48;48;48;48;48;48;48;65] = None.
Proof.
  split; [intros s n H; apply decode_sub, decode_sound in H; tauto|].
  split; [intros s H; apply decode_none_of_pu, decode_rejects_length, H|].
  split; [intros s c H1 H2; eapply decode_none_of_pu, decode_rejects_nonhex; eauto|].
  split; reflexivity.
Qed.
Print Assumptions C31_decode_rejects.

(** The correspondence oracle [spec_decode] (16 characters of "0123456789abcdef",
    non-zero) accepts exactly the encodings. *)
Theorem C31_oracle_is_encoding :
  forall s n, spec_decode s = Some n <-> (n < 2 ^ 64 /\ encode n = Some s).
Proof. exact spec_decode_iff. Qed.
Print Assumptions C31_oracle_is_encoding.

(** Generator: for EVERY interleaving [ls] of the atomic steps of any number of
    concurrent callers (each [LLoad] may read any clock value, also a decreasing one),
    started from New(mid), all ids returned so far are pairwise distinct and non-zero —
    provided the two named situations never occur along the run ([no_excluded]): the
    fallback AddUint64 firing while the 12-bit sequence is 4095, and the 42-bit
    millisecond field having reached 2^42-1. *)
Theorem C31_gen_unique :
  forall mid ls c, mid <= 1023 -> run init ls = Some c -> no_excluded init ls ->
    NoDup (ids (machine_of mid) c) /\ Forall (fun i => i <> 0) (ids (machine_of mid) c).
Proof. exact gen_unique. Qed.
Print Assumptions C31_gen_unique.

(** The excluded fallback-carry case is a genuine counterexample of the mirror: caller 1
    loses the CAS 100 times while caller 0 issues 4096 ids in one millisecond, then
    caller 1's fallback add carries into the machine-id bits and, with machine id 1,
    returns the first id again. *)
Theorem C31_gen_unique_fallback_refuted :
  exists c, run init (carry_schedule now0) = Some c /\ ~ NoDup (ids (machine_of 1) c).
Proof. exact carry_duplicate. Qed.
Print Assumptions C31_gen_unique_fallback_refuted.

(** One uncontended call of the machine returns exactly [next_seq], the function the
    correspondence check compares sequential traces of the real generator with. *)
Theorem C31_sequential_call :
  forall now c, thr c 0%nat = TIdle -> next_state (clock_t now) (glob c) <> 0 ->
    exists c', run c (solo 0 now 1) = Some c' /\
               glob c' = fst (next_seq 0 now (glob c)) /\
               outs c' = glob c' :: outs c /\ thr c' 0%nat = TIdle.
Proof. exact seq_call. Qed.
Print Assumptions C31_sequential_call.

(** Non-vacuity: a run with two callers contending (one CAS fails and retries) that
    satisfies [no_excluded] and returns two distinct ids. *)
Example C31_nonvacuous :
  let ls := [LCall 0; LCall 1; LLoad 0 now0; LLoad 1 now0; LCas 0; LCas 1;
             LLoad 1 (now0 - 5); LCas 1]%nat in
  no_excluded init ls /\
  option_map (fun c => ids (machine_of 3) c) (run init ls)
  = Some [1251177660416012289; 1251177660416012288].
Proof.
  split; [|vm_compute; reflexivity].
  cbn. unfold ok_label. cbn.
  repeat split; try reflexivity; try (intro H; discriminate).
Qed.
