(** C32 — The write API stores all of a batch or reports why not.

    Mirror of
      kit/io/limited_read_closer.go   LimitedReadCloser.Read / Close        ([lrc_read], [lrc_close])
      io.ReadAll over ANY behaviour of the reader below it                 ([read_all])
      http/points/batch_reader.go     BatchReadCloser                      ([batch_reader])
      http/points/points_parser.go    readAll / parsePoints error mapping  ([read_body], [handle])
      http/write_handler.go           handleWrite / decodeWriteRequest     ([precheck], [handle])
    The line protocol parser is the mirror of C11/C12 ([parse_points], tied to
    models.ParsePointsWithPrecision by the C12 check).

    The reader below the LimitedReadCloser (the request body, or gzip.Reader over it) is
    external code.  It is modelled by what io.Reader allows: it holds the (decoded) bytes
    [u_rem]; a Read with a buffer of k>0 bytes delivers between 1 and k of them (how many
    is decided by a per-call script entry — ANY chunking); when the bytes are exhausted it
    returns its end-of-stream error [u_end] (io.EOF, gzip.ErrChecksum for a corrupt
    trailer, io.ErrUnexpectedEOF for a truncated stream) — either together with the last
    bytes ([u_eager], as net/http's Content-Length body and compress/flate do) or on the
    next call (bytes.Reader, strings.Reader, bufio).  Both are legal io.Reader behaviour.

    No proofs in this file. *)
From Verif Require Import Base.Prelude Model.C11 Model.C12.

(** * The reader below *)
Inductive endk := EndEOF | EndChecksum | EndUnexpected.
(** [u_stall]: how many times the reader answers (0, nil) once its bytes are exhausted before
    it returns its end-of-stream error (legal but discouraged io.Reader behaviour). *)
Record ustream := { u_rem : bytes; u_end : endk; u_eager : bool; u_stall : nat }.

(** what a Read returns besides the bytes: nil ([None]), the wrapped reader's end-of-stream
    error, or io.ErrNoProgress (only produced by the limiter's probe) *)
Inductive rerr := REnd (k : endk) | RNoProgress.

(** One [Read(p)] with [len(p) = k]; [c] = this call's script entry (delivers at most [S c]
    bytes).  Result: bytes delivered, error ([None] = nil), new state. *)
Definition u_read (u : ustream) (k c : nat) : bytes * option rerr * ustream :=
  match u_rem u with
  | [] =>
    match u_stall u with
    | O => ([], Some (REnd (u_end u)), u)
    | S s => ([], None, {| u_rem := []; u_end := u_end u; u_eager := u_eager u; u_stall := s |})
    end
  | _ =>
    let n := Nat.min (Nat.min k (S c)) (length (u_rem u)) in
    let d := firstn n (u_rem u) in
    let r := skipn n (u_rem u) in
    (d,
     match r, u_stall u with
     | [], O => if u_eager u then Some (REnd (u_end u)) else None
     | _, _ => None
     end,
     {| u_rem := r; u_end := u_end u; u_eager := u_eager u; u_stall := u_stall u |})
  end.

(** * kit/io LimitedReadCloser (as of commit ea653b404e) *)
Record lrc := { l_n : Z; l_exc : bool }.

(** the probe of Read when the budget is used up:
      var b [1]byte
      for i := 0; i < 100; i++ {
        n, err := l.R.Read(b[:])
        if n > 0 { l.limitExceeded = true; return 0, io.EOF }
        if err != nil { return 0, err }
      }
      return 0, io.ErrNoProgress                                               *)
Definition PROBES : nat := 100.
Fixpoint probe (fuel : nat) (l : lrc) (u : ustream) (c : nat) : option rerr * lrc * ustream :=
  match fuel with
  | O => (Some RNoProgress, l, u)
  | S f =>
    let '(d, e, u') := u_read u 1 c in
    match d with
    | _ :: _ => (Some (REnd EndEOF), {| l_n := l_n l; l_exc := true |}, u')
    | [] => match e with Some x => (Some x, l, u') | None => probe f l u' c end
    end
  end.

(** func (l *LimitedReadCloser) Read(p []byte):
      if l.N <= 0 { ... probe ... }
      if int64(len(p)) > l.N { p = p[0:l.N] }
      n, err = l.R.Read(p); l.N -= int64(n)                                  *)
Definition lrc_read (l : lrc) (u : ustream) (room c : nat) : bytes * option rerr * lrc * ustream :=
  if (l_n l <=? 0)%Z then let '(e, l', u') := probe PROBES l u c in ([], e, l', u')
  else
    let k := if (Z.of_nat (S room) >? l_n l)%Z then Z.to_nat (l_n l) else S room in
    let '(d, e, u') := u_read u k c in
    (d, e, {| l_n := (l_n l - Z.of_nat (length d))%Z; l_exc := l_exc l |}, u').

(** Read before the fix: the limit was flagged as soon as Read was CALLED with N <= 0 *)
Definition lrc_read_before_fix (l : lrc) (u : ustream) (room c : nat) : bytes * option rerr * lrc * ustream :=
  if (l_n l <=? 0)%Z then ([], Some (REnd EndEOF), {| l_n := l_n l; l_exc := true |}, u)
  else
    let k := if (Z.of_nat (S room) >? l_n l)%Z then Z.to_nat (l_n l) else S room in
    let '(d, e, u') := u_read u k c in
    (d, e, {| l_n := (l_n l - Z.of_nat (length d))%Z; l_exc := l_exc l |}, u').

(** Close: ErrReadLimitExceeded iff limitExceeded (the wrapped Close returns nil). *)
Definition lrc_close (l : lrc) : bool := l_exc l.

(** BatchReadCloser: the limiter is installed only for maxBatchSizeBytes > 0. *)
Inductive reader := RPlain (u : ustream) | RLim (l : lrc) (u : ustream).
Definition batch_reader (limit : Z) (u : ustream) : reader :=
  if (limit >? 0)%Z then RLim {| l_n := limit; l_exc := false |} u else RPlain u.

Definition r_read (r : reader) (room c : nat) : bytes * option rerr * reader :=
  match r with
  | RPlain u => let '(d, e, u') := u_read u (S room) c in (d, e, RPlain u')
  | RLim l u => let '(d, e, l', u') := lrc_read l u room c in (d, e, RLim l' u')
  end.
Definition r_read_before_fix (r : reader) (room c : nat) : bytes * option rerr * reader :=
  match r with
  | RPlain u => let '(d, e, u') := u_read u (S room) c in (d, e, RPlain u')
  | RLim l u => let '(d, e, l', u') := lrc_read_before_fix l u room c in (d, e, RLim l' u')
  end.
Definition r_close (r : reader) : bool :=
  match r with RPlain _ => false | RLim l _ => lrc_close l end.
Definition r_under (r : reader) : ustream := match r with RPlain u => u | RLim _ u => u end.
Definition r_rem (r : reader) : bytes := u_rem (r_under r).

(** * io.ReadAll
    [for { n, err := r.Read(b[len(b):cap(b)]); b = b[:len(b)+n]; if err != nil { if err == EOF
    { err = nil }; return b, err } ... grow ... }].  The free room of the buffer ([S room]) and
    the chunk the reader delivers are taken from [script], one pair per call; when the script is
    used up the remaining calls use a buffer as large as what is left (at most [2 + u_stall]
    more calls are ever needed, see [Proofs/C32.v]: [FStuck] is never returned).  Result: the
    bytes read, the error ([None] = nil) and the final reader state.  [rd] is the reader's Read
    ([r_read] for the code under test). *)
Inductive rfail := FChecksum | FUnexpected | FNoProgress | FStuck.
Definition fail_of (e : rerr) : option rfail :=
  match e with
  | REnd EndEOF => None | REnd EndChecksum => Some FChecksum | REnd EndUnexpected => Some FUnexpected
  | RNoProgress => Some FNoProgress
  end.

Section ReadAll.
  Variable rd : reader -> nat -> nat -> bytes * option rerr * reader.

  Fixpoint drain_with (fuel : nat) (r : reader) (acc : bytes) : bytes * option rfail * reader :=
    match fuel with
    | O => (acc, Some FStuck, r)
    | S f =>
      let big := length (r_rem r) in
      let '(d, e, r') := rd r big big in
      match e with
      | None => drain_with f r' (acc ++ d)
      | Some k => (acc ++ d, fail_of k, r')
      end
    end.

  Fixpoint read_all_with (script : list (nat * nat)) (r : reader) (acc : bytes)
    : bytes * option rfail * reader :=
    match script with
    | [] => drain_with (3 + u_stall (r_under r)) r acc
    | (room, c) :: s =>
      let '(d, e, r') := rd r room c in
      match e with
      | None => read_all_with s r' (acc ++ d)
      | Some k => (acc ++ d, fail_of k, r')
      end
    end.
End ReadAll.
Definition read_all := read_all_with r_read.
Definition read_all_before_fix := read_all_with r_read_before_fix.

(** * http/points readAll + the error mapping of parsePoints
    Close runs in a defer; its ErrReadLimitExceeded (→ ErrMaxBatchSizeExceeded → ETooLarge) is
    used only if ReadAll itself returned no error. *)
Inductive body_res := BodyOk (data : bytes) | BodyTooLarge | BodyInvalid | BodyInternal.
Definition read_body (script : list (nat * nat)) (r : reader) : body_res :=
  let '(data, e, r') := read_all script r [] in
  match e with
  | Some FChecksum => BodyInvalid       (* gzip.ErrChecksum / ErrHeader -> EInvalid *)
  | Some _ => BodyInternal              (* anything else (unexpected EOF, io.ErrNoProgress) -> EInternal *)
  | None => if r_close r' then BodyTooLarge else BodyOk data
  end.

(** * handleWrite *)
Inductive wres := WOk | WPartial (dropped : N) | WErr.

(** error codes of kit/platform/errors, interned *)
Definition C_NONE : N := 0.      Definition C_INVALID : N := 1.   Definition C_TOO_LARGE : N := 2.
Definition C_UNPROCESSABLE : N := 3.  Definition C_INTERNAL : N := 4.  Definition C_NOT_FOUND : N := 5.
Definition C_FORBIDDEN : N := 6.

(** storage.LoggingPointsWriter (the wrapper the launcher puts between the handler and the
    engine): [LNone] = not installed; [LWrap finder logok]: BucketFinder.FindBuckets for the log
    bucket answers 0 = found, 1 = none, 2 = error; [logok] = the write of the write_errors point
    succeeds. *)
Inductive logw := LNone | LWrap (finder : N) (logok : bool).
(** what the handler gets back from PointsWriter.WritePoints *)
Inductive weff := EOk | EPartial (dropped : N) | EOther.
Definition eff_of (w : wres) : weff := match w with WOk => EOk | WPartial d => EPartial d | WErr => EOther end.

(** func (w *LoggingPointsWriter) WritePoints (as of the fix of finding
    logging-writer-loses-dropped-count):
      if len(p) == 0 { return nil }                          // the engine is NOT called
      err := w.Underlying.WritePoints(...); if err == nil { return nil }
      bkts, n, e := w.BucketFinder.FindBuckets(...)          // e != nil || n == 0 -> return err
      pt, e := models.NewPoint("write_errors", ...)          // e != nil -> return err
      if e := w.Underlying.WritePoints(ctx, orgID, bkts[0].ID, pt); e != nil { return err }
      return err                                             // always the ORIGINAL error
    Result: what the handler sees, and whether the engine was called with the batch. *)
Definition logging_write (lg : logw) (w : wres) (npoints : nat) : weff * bool :=
  match lg with
  | LNone => (eff_of w, true)
  | LWrap finder logok =>
    match npoints with
    | O => (EOk, false)
    | _ => (eff_of w, true)
    end
  end.

(** before that fix a failing logging attempt replaced the original error *)
Definition logging_write_before_fix (lg : logw) (w : wres) (npoints : nat) : weff * bool :=
  match lg with
  | LNone => (eff_of w, true)
  | LWrap finder logok =>
    match npoints with
    | O => (EOk, false)
    | _ =>
      match w with
      | WOk => (EOk, true)
      | _ => if (finder =? 0)%N && logok then (eff_of w, true) else (EOther, true)
      end
    end
  end.

Record request := {
  q_auth : bool;          (* an Authorizer is on the context *)
  q_prec_valid : bool;    (* models.ValidPrecision(precision or "ns") *)
  q_bucket_param : bool;  (* bucket= is non-empty *)
  q_gzip_header : bool;   (* not gzip, or gzip.NewReader accepted the header *)
  q_org_found : bool;     (* OrganizationService.FindOrganization succeeded (else ENotFound) *)
  q_bucket_found : bool;  (* BucketService.FindBucket succeeded (else ENotFound) *)
  q_perm : bool;          (* the authorizer may write the bucket *)
  q_prec : precision;
  q_limit : Z;            (* maxBatchSizeBytes *)
  q_stream : ustream;     (* what the LimitedReadCloser wraps: the DECODED body *)
  q_writer : wres;        (* what the underlying PointsWriter (the engine) will answer for the batch *)
  q_logger : logw         (* is storage.LoggingPointsWriter in front of it, and how its logging goes *)
}.

Record response := {
  r_status : N; r_code : N;
  r_rejected : list bytes;            (* line texts named in a parse error, in order *)
  r_dropped : option N;               (* dropped=<n> stated in the error message *)
  r_calls : list (list (bytes * Z))   (* PointsWriter.WritePoints calls: (series key, time) *)
}.
Definition resp (st code : N) := {| r_status := st; r_code := code; r_rejected := []; r_dropped := None; r_calls := [] |}.

(** the checks before the body is read, in the order of the code *)
Definition precheck (q : request) : option response :=
  if negb (q_auth q) then Some (resp 500 C_INTERNAL)            (* GetAuthorizer *)
  else if negb (q_prec_valid q) then Some (resp 400 C_INVALID)  (* decodeWriteRequest *)
  else if negb (q_bucket_param q) then Some (resp 404 C_NOT_FOUND)
  else if negb (q_gzip_header q) then Some (resp 500 C_INTERNAL) (* raw gzip.ErrHeader: not a platform error *)
  else if negb (q_org_found q) then Some (resp 404 C_NOT_FOUND)  (* queryOrganization *)
  else if negb (q_bucket_found q) then Some (resp 404 C_NOT_FOUND)
  else if negb (q_perm q) then Some (resp 403 C_FORBIDDEN)
  else None.

(** default time handed to the parser: time.Now() in the code; a fixed marker here (the
    judge treats times at or above it as "now") *)
Definition DFLT : Z := (2 ^ 62)%Z.

Definition point_obs (p : rawpoint) : bytes * Z := (rp_key p, rp_time p).

Definition handle (script : list (nat * nat)) (q : request) : response :=
  match precheck q with
  | Some r => r
  | None =>
    match read_body script (batch_reader (q_limit q) (q_stream q)) with
    | BodyTooLarge => resp 413 C_TOO_LARGE
    | BodyInvalid => resp 400 C_INVALID
    | BodyInternal => resp 500 C_INTERNAL
    | BodyOk data =>
      let '(pts, errs) := parse_points (q_prec q) DFLT data in
      match errs with
      | _ :: _ => {| r_status := 400; r_code := C_INVALID; r_rejected := map fst errs;
                     r_dropped := None; r_calls := [] |}
      | [] =>
        let call := map point_obs pts in
        let '(eff, called) := logging_write (q_logger q) (q_writer q) (length pts) in
        let calls := if called then [call] else [] in
        match eff with
        | EOk => {| r_status := 204; r_code := C_NONE; r_rejected := []; r_dropped := None; r_calls := calls |}
        | EPartial d => {| r_status := 422; r_code := C_UNPROCESSABLE; r_rejected := [];
                           r_dropped := Some d; r_calls := calls |}
        | EOther => {| r_status := 500; r_code := C_INTERNAL; r_rejected := []; r_dropped := None; r_calls := calls |}
        end
      end
    end
  end.

(** * The property's oracle (independent of the reader mirror: it looks only at the size of
    the decoded body, at which lines are malformed, and at the writer's answer). *)
Definition too_large (q : request) : bool :=
  (q_limit q >? 0)%Z && (Z.of_nat (length (u_rem (q_stream q))) >? q_limit q)%Z.

Definition calls_eqb (a b : list (list (bytes * Z))) : bool :=
  list_eqb (list_eqb (pair_eqb bytes_eqb Z.eqb)) a b.
Definition optN_eqb := option_eqb N.eqb.
Definition no_calls (r : response) : bool := match r_calls r with [] => true | _ => false end.

(** a reader that answers (0, nil) [PROBES] times in a row is broken (io.ErrNoProgress): the
    request may be refused, but then nothing is stored *)
Definition oracle_main (q : request) (r : response) : bool :=
  match precheck q with
  | Some _ => negb (r_status r =? 204)%N && no_calls r
  | None =>
    match u_end (q_stream q) with
    | EndChecksum | EndUnexpected => negb (r_status r =? 204)%N && no_calls r
    | EndEOF =>
      if too_large q then (r_status r =? 413)%N && no_calls r
      else
        let '(pts, errs) := parse_points (q_prec q) DFLT (u_rem (q_stream q)) in
        match errs with
        | _ :: _ => (r_status r =? 400)%N && no_calls r
                    && list_eqb bytes_eqb (r_rejected r) (map fst errs)
        | [] =>
          (calls_eqb (r_calls r) [map point_obs pts]
           || (match pts with [] => no_calls r | _ => false end))   (* nothing to store *)
          && match q_writer q with
             | WOk => (r_status r =? 204)%N
             | WPartial d => (no_calls r && (r_status r =? 204)%N)   (* the engine was never asked *)
                             || ((400 <=? r_status r)%N && optN_eqb (r_dropped r) (Some d))
             | WErr => (no_calls r && (r_status r =? 204)%N) || (400 <=? r_status r)%N
             end
        end
    end
  end.

Definition oracle (q : request) (r : response) : bool :=
  oracle_main q r
  || (Nat.leb PROBES (u_stall (q_stream q)) && negb (r_status r =? 204)%N && no_calls r).

(** * Correspondence case *)
Record case := {
  c_auth : bool; c_prec_valid : bool; c_bucket_param : bool; c_gzip_header : bool;
  c_org_found : bool; c_bucket_found : bool; c_perm : bool;
  c_prec : N;                     (* precision code of Model/C11.prec_of_code *)
  c_limit : Z;
  c_body : list seg;              (* the DECODED body (run-length compressed) *)
  c_end : N;                      (* 0 EOF, 1 corrupt gzip checksum, 2 truncated gzip *)
  c_eager : option bool;          (* how the reader below signals its end; None = unknown (gzip.Reader) *)
  c_stall : N;                    (* (0, nil) answers of the scripted reader before its EOF *)
  c_script : list N;              (* chunk sizes the scripted body reader used (minus 1) *)
  c_writer : N; c_wdropped : N;   (* 0 ok, 1 partial(dropped), 2 other error *)
  c_logger : option (N * bool);   (* LoggingPointsWriter installed: (finder answer, log write ok) *)
  (* observed on the real handler *)
  o_status : N; o_code : N; o_rejected : list (list seg); o_dropped : option N;
  o_calls : list (list (list seg * Z))
}.

Definition endk_of (n : N) : endk := match n with 0%N => EndEOF | 1%N => EndChecksum | _ => EndUnexpected end.
Definition wres_of (w d : N) : wres := match w with 0%N => WOk | 1%N => WPartial d | _ => WErr end.

Definition request_of (c : case) (eager : bool) : request :=
  {| q_auth := c_auth c; q_prec_valid := c_prec_valid c; q_bucket_param := c_bucket_param c;
     q_gzip_header := c_gzip_header c; q_org_found := c_org_found c; q_bucket_found := c_bucket_found c;
     q_perm := c_perm c; q_prec := prec_of_code (c_prec c); q_limit := c_limit c;
     q_stream := {| u_rem := expand (c_body c); u_end := endk_of (c_end c); u_eager := eager;
                     u_stall := N.to_nat (c_stall c) |};
     q_writer := wres_of (c_writer c) (c_wdropped c);
     q_logger := match c_logger c with None => LNone | Some (f, ok) => LWrap f ok end |}.

(** a point without timestamp gets time.Now() in the code and [DFLT] (truncated to the
    precision) in the model *)
Definition time_eqb (impl model : Z) : bool :=
  (impl =? model)%Z || ((DFLT - 4000000000000 <=? model)%Z && (1000000000000000000 <=? impl)%Z).
Definition obs_calls_eqb (impl model : list (list (bytes * Z))) : bool :=
  list_eqb (list_eqb (fun a b => bytes_eqb (fst a) (fst b) && time_eqb (snd a) (snd b))) impl model.

Definition observed (c : case) : response :=
  {| r_status := o_status c; r_code := o_code c; r_rejected := map expand (o_rejected c);
     r_dropped := o_dropped c;
     r_calls := map (map (fun kt => (expand (fst kt), snd kt))) (o_calls c) |}.

Definition resp_same (impl model : response) : bool :=
  (r_status impl =? r_status model)%N && (r_code impl =? r_code model)%N
  && list_eqb bytes_eqb (r_rejected impl) (r_rejected model)
  && optN_eqb (r_dropped impl) (r_dropped model)
  && obs_calls_eqb (r_calls impl) (r_calls model).

(** the oracle with the tolerant time comparison for the writer's points *)
Definition oracle_obs (q : request) (r : response) : bool :=
  let '(pts, errs) := parse_points (q_prec q) DFLT (u_rem (q_stream q)) in
  let r' := match errs, precheck q, u_end (q_stream q), too_large q with
            | [], None, EndEOF, false =>
              if obs_calls_eqb (r_calls r) [map point_obs pts]
              then {| r_status := r_status r; r_code := r_code r; r_rejected := r_rejected r;
                      r_dropped := r_dropped r; r_calls := [map point_obs pts] |}
              else r
            | _, _, _, _ => r
            end in
  oracle q r'.

(** the script handed to [read_all]: the reader's chunk sizes, with a buffer that always
    has room for the whole body (the theorems of [Proofs/C32.v] hold for every script) *)
Definition script_of (c : case) : list (nat * nat) :=
  let room := length (expand (c_body c)) in
  map (fun k => (room, N.to_nat k)) (c_script c).

Definition check (c : case) : verdict :=
  let o := observed c in
  let same :=
    match c_eager c with
    | Some e => resp_same o (handle (script_of c) (request_of c e))
    | None => resp_same o (handle (script_of c) (request_of c false))
              || resp_same o (handle (script_of c) (request_of c true))
    end in
  judge same (oracle_obs (request_of c false) o).
