(** C10 — A field keeps a single type, persistently.  Property theorems only. *)
From Verif Require Import Base.Prelude Model.C10 Proofs.C10 Proofs.C10_log.
From Coq Require Import Permutation.

(** (1) A field's type never changes while its measurement exists: over every history of
    creates and measurement drops, a stored type survives every step that is not a drop of
    its measurement. *)
Theorem C10_single_type :
  forall ops s m f t, ftype s m f = Some t -> (forall o, In o ops -> o <> SDrop m) ->
    ftype (fold_left sstep ops s) m f = Some t.
Proof. exact single_type_history. Qed.
Print Assumptions C10_single_type.

(** A create with another type reports the conflict (with the stored type) and leaves every
    (measurement, field) -> type binding unchanged. *)
Theorem C10_conflicting_create_rejected :
  forall s m f t t0, ftype s m f = Some t0 -> t0 <> t ->
    snd (create_field s m f t) = Conflict t0 /\
    forall m' f', ftype (fst (create_field s m f t)) m' f' = ftype s m' f'.
Proof. exact create_conflict. Qed.
Print Assumptions C10_conflicting_create_rejected.

(** (2) The write path (second loop of validateSeriesAndFields + ValidateAndCreateFields), any
    batch: no stored type changes; the reported Dropped is exactly the number of points that
    do not fit the resulting schema (a point fits iff it has a field other than time, no
    oversize string, and every field has the schema's type); exactly the fitting points are
    handed to the engine. *)
Theorem C10_write_keeps_types_and_counts :
  forall pts s s' cr acc dr st, validate_points s pts = (s', cr, acc, dr, st) ->
    ext s s' /\ dr = count_rejected s' pts /\ acc = filter (point_fits s') pts.
Proof. exact validate_points_spec. Qed.
Print Assumptions C10_write_keeps_types_and_counts.

(** (3) Change log, byte level, for an arbitrary record codec that round-trips (protobuf is
    not modelled in the theorem): a log of whole frames reads back exactly; with ANY strict
    prefix of one more frame appended (torn write at any byte, also inside the 8-byte length
    prefix) it reads back the same changes. *)
Theorem C10_log_reads_back :
  forall enc dec, (forall r, dec (enc r) = Some r) ->
  forall rs, Forall (small enc) rs -> recover dec (frames enc rs) = RecOK rs.
Proof. intros enc dec H. exact (recover_frames enc dec H). Qed.
Print Assumptions C10_log_reads_back.

Theorem C10_log_torn_tail :
  forall enc dec, (forall r, dec (enc r) = Some r) -> dec [] = Some [] ->
  forall rs r k, Forall (small enc) rs -> small enc r -> k < length (frame (enc r)) ->
    exists x, recover dec (frames enc rs ++ firstn k (frame (enc r))) = RecOK x /\ concat x = concat rs.
Proof. intros enc dec H H0. exact (recover_torn enc dec H H0). Qed.
Print Assumptions C10_log_torn_tail.

(** (4) Crash during appendToChangesFile: whatever prefix of the frame reached the file, the
    image loads to the schema without the record; after the complete write, with it. *)
Theorem C10_append_crash :
  forall enc dec, (forall r, dec (enc r) = Some r) -> dec [] = Some [] ->
  forall d rs r k, log_bytes d = frames enc rs -> Forall (small enc) rs -> small enc r ->
    k <= length (frame (enc r)) ->
    let d' := with_log d (log_bytes d ++ firstn k (frame (enc r))) in
    (k < length (frame (enc r)) -> load_mem dec d' = load_mem dec d) /\
    (k = length (frame (enc r)) ->
       load_mem dec d' = match apply_log (base_of d) (concat rs ++ r) with
                         | inl s => (s, true) | inr e => (e, false) end).
Proof. intros enc dec H H0. exact (append_crash enc dec H H0). Qed.
Print Assumptions C10_append_crash.

(** FULL statement (schema_survives_crash): for every history and every crash point, load =
    the schema after the acknowledged prefix (modulo the in-flight operation).  Proved parts:
    C10_append_crash above (any log, any record — also deletion records — torn anywhere) and,
    here, every crash point of WriteToFile (tmp written / renamed or fields.idx removed / tmp
    removed / log removed) for logs that hold only adds the in-memory schema agrees with
    (apply_self): before the rename the image loads as before, from the rename on it loads to
    the in-memory schema.  For logs WITH deletions the crash points of WriteToFile are covered
    for the dropped measurements by C10_drop_stays_dropped below; that replaying such a log
    over the newer snapshot never hits a conflict (ApplyChanges skips the changes older than
    the last deletion of their measurement) is exercised by the driver, not proved. *)
Theorem C10_schema_survives_crash_partial :
  forall enc dec, (forall r, dec (enc r) = Some r) ->
  forall mem d rs j, log_bytes d = frames enc rs -> Forall (small enc) rs ->
    adds_only (concat rs) -> agrees mem (concat rs) ->
    let d' := run (firstn j (prog_write_to_file mem)) d in
    (j < 2 -> load_mem dec d' = load_mem dec d) /\
    (2 <= j -> exists s, load_mem dec d' = (s, true) /\ same_types s mem).
Proof. intros enc dec H. exact (compact_crash enc dec H). Qed.
Print Assumptions C10_schema_survives_crash_partial.

(** The hypothesis [agrees] holds for the schema obtained by loading an add-only log. *)
Theorem C10_loaded_schema_agrees_with_log :
  forall cs s mem, adds_only cs -> apply_changes s cs = inl mem -> agrees mem cs.
Proof. exact apply_self. Qed.
Print Assumptions C10_loaded_schema_agrees_with_log.

(** (5) drop_stays_dropped, FULL statement at the level of the files: if the change log's last
    word on measurement m is a deletion, then WHATEVER fields.idx holds — the snapshot from
    before the log (crash before WriteToFile's rename) or the snapshot written from memory
    after it (crash between the rename and the removal of the log: the ORDER question) — a
    successful load has no field of m; and once WriteToFile has completed, the files hold
    exactly the in-memory schema, which has no field of m.  Together with C10_append_crash
    (the deletion record is in the log once its append is acknowledged, and a torn later
    record changes nothing) this covers every crash point after an acknowledged drop. *)
Theorem C10_drop_stays_dropped :
  forall enc dec, (forall r, dec (enc r) = Some r) ->
  forall d rs m f s, log_bytes d = frames enc rs -> Forall (small enc) rs ->
    ends_dropped m (concat rs) = true -> load_mem dec d = (s, true) -> ftype s m f = None.
Proof. intros enc dec H. exact (drop_stays_dropped_any_snapshot enc dec H). Qed.
Print Assumptions C10_drop_stays_dropped.

Theorem C10_drop_stays_dropped_after_snapshot :
  forall dec mem d m f,
    exists s, load_mem dec (run (prog_write_to_file (drop_meas mem m)) d) = (s, true) /\
              ftype s m f = None.
Proof.
  intros dec mem d m f. destruct (write_to_file_complete dec (drop_meas mem m) d) as [s [H1 H2]].
  exists s. split; [exact H1|]. rewrite H2. apply ftype_drop_same.
Qed.
Print Assumptions C10_drop_stays_dropped_after_snapshot.

(** Former finding drop-not-logged (marshalFieldChanges never wrote deletion records),
    repaired: the former counterexample is a positive example — write m0 a=float,
    DeleteMeasurement m0, unclean restart: the field stays gone; re-created with another type
    and crashed again: the new type is loaded, without a load error. *)
Definition m0 : name := [109; 48]%N.
Definition fa : name := [97]%N.
Definition wit_write : list wpoint :=
  [{| w_meas := m0; w_series := 0; w_time := 0; w_fields := [{| f_key := fa; f_type := 1; f_big := false; f_val := 0 |}] |}]%N.
Definition wit_write2 : list wpoint :=
  [{| w_meas := m0; w_series := 0; w_time := 0; w_fields := [{| f_key := fa; f_type := 2; f_big := false; f_val := 0 |}] |}]%N.
Example C10_drop_survives_unclean_restart :
  let y1 := fst (fst (do_write sys0 wit_write)) in
  let y2 := do_drop y1 m0 in
  let y3 := do_crash y2 in
  let y4 := fst (fst (do_write y3 wit_write2)) in
  ftype (y_mem y1) m0 fa = Some 1%N /\ ftype (y_mem y2) m0 fa = None /\
  ftype (y_mem y3) m0 fa = None /\
  load_mem pb_dec (y_disk y2) = ([], true) /\
  ftype (y_mem (do_crash y4)) m0 fa = Some 2%N /\
  snd (load_mem pb_dec (y_disk (fst (fst (do_write (do_drop y1 m0) wit_write2))))) = true.
Proof. vm_compute. repeat split. Qed.

(** (6) Racing creators of one new field: LoadOrStore is one atomic step per writer; for EVERY
    schedule (permutation of the writers' steps) one of the written types wins, the writers of
    that type succeed and every other writer sees a conflict naming the winner. *)
Theorem C10_racing_creators :
  forall ts sched s m f, Permutation sched ts -> ts <> [] -> ftype s m f = None ->
  exists w, In w ts /\ ftype (fst (run_creates s m f sched)) m f = Some w /\
    length (snd (run_creates s m f sched)) = length sched /\
    (forall t c, In (t, c) (combine sched (snd (run_creates s m f sched))) ->
       (t = w -> c = Created \/ c = Existed) /\ (t <> w -> c = Conflict w)).
Proof. exact racing_creators. Qed.
Print Assumptions C10_racing_creators.

(** Non-vacuity: a concrete history with a created field, a conflicting write with an exact
    count, a byte-exact log and a torn tail. *)
Example C10_nonvacuous :
  let '(y1, e1, d1) := do_write sys0 wit_write in
  let bad := [{| w_meas := m0; w_series := 0; w_time := 0; w_fields := [{| f_key := fa; f_type := 2; f_big := false; f_val := 0 |}] |}]%N in
  let '(y2, e2, d2) := do_write y1 (bad ++ wit_write) in
  (e1, d1, e2, d2) = (0, 0, 1, 1)%N /\
  ftype (y_mem y2) m0 fa = Some 1%N /\
  d_log (y_disk y2) = Some [13; 0; 0; 0; 0; 0; 0; 0; 10; 11; 10; 2; 109; 48; 18; 5; 10; 1; 97; 16; 1]%N /\
  load_mem pb_dec (with_log (y_disk y2) (firstn 13 (log_bytes (y_disk y2)))) = ([], true).
Proof. vm_compute. repeat split. Qed.
