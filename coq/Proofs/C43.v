(** C43 — property-level consequences of the invariant, and the counterexamples the
    faithful model yields for the unrestricted statements. *)
From Verif Require Import Base.Prelude Model.C43 Proofs.C43_base Proofs.C43_inv.
Local Open Scope N_scope.

(** the physical mappings of a state, as a relation *)
Definition live (st : state) (id : N) (r : rec) : Prop := lookup id (src st) = Some r.

(** at most one physical mapping per (org, db, rp) *)
Lemma pair_unique bk base ops :
  wf_bk bk base ->
  forall id1 id2 r1 r2, live (run bk base ops) id1 r1 -> live (run bk base ops) id2 r2 ->
    r_org r1 = r_org r2 -> r_db r1 = r_db r2 -> r_rp r1 = r_rp r2 -> id1 = id2 /\ r_bkt r1 = r_bkt r2.
Proof.
  intros W id1 id2 r1 r2 H1 H2 E1 E2 E3.
  pose proof (inv_uniq _ _ (run_inv _ _ _ W) id1 id2 r1 r2 H1 H2 E1 E2 E3) as E.
  split; [exact E|]. subst id2. unfold live in *. congruence.
Qed.

(** exactly one default per (org, db) that has a mapping *)
Lemma one_default_inv base st o d :
  Inv base st -> (exists id r, live st id r /\ r_org r = o /\ r_db r = d) ->
  exists id r, live st id r /\ r_org r = o /\ r_db r = d /\ is_default st o d id = true /\
               forall id', is_default st o d id' = true -> id' = id.
Proof.
  intros I [id0 [r0 [L0 [Ho Hd]]]]. pose proof (inv_dfl _ _ I o d) as D. unfold dfl_ok_at in D.
  destruct (dget o d (dfl st)) as [x|] eqn:G.
  - destruct D as [r [L [H1 H2]]]. exists x, r. unfold is_default. rewrite G, N.eqb_refl.
    repeat split; auto. intros id' H. apply N.eqb_eq in H. auto.
  - exfalso. apply (D id0). exists r0. auto.
Qed.

Lemma one_default bk base ops o d :
  wf_bk bk base ->
  (exists id r, live (run bk base ops) id r /\ r_org r = o /\ r_db r = d) ->
  exists id r, live (run bk base ops) id r /\ r_org r = o /\ r_db r = d /\
               is_default (run bk base ops) o d id = true /\
               forall id', is_default (run bk base ops) o d id' = true -> id' = id.
Proof. intros W. apply one_default_inv with (base := base). apply run_inv; assumption. Qed.

(** the default index and the (org, db) index agree with the stored mappings *)
Lemma index_consistent bk base ops :
  wf_bk bk base ->
  let st := run bk base ops in
  (forall o d id, dget o d (dfl st) = Some id ->
     exists r, live st id r /\ r_org r = o /\ r_db r = d /\ find_by_id st o id = Some (rec2m id r true)) /\
  (forall o d, dget o d (dfl st) = None -> forall id r, live st id r -> ~ (r_org r = o /\ r_db r = d)) /\
  (forall o d id, In (o, d, id) (iod st) <-> exists r, live st id r /\ r_org r = o /\ r_db r = d).
Proof.
  intros W st. pose proof (run_inv bk base ops W) as I. fold st in I. repeat split.
  - intros o d id G. pose proof (inv_dfl _ _ I o d) as D. unfold dfl_ok_at in D. rewrite G in D.
    destruct D as [r [Lk [H1 H2]]]. exists r. repeat split; auto.
    unfold find_by_id. unfold live in *. rewrite Lk, H1, N.eqb_refl. unfold is_default. rewrite H2, G, N.eqb_refl.
    reflexivity.
  - intros o d G id r Lk. pose proof (inv_dfl _ _ I o d) as D. unfold dfl_ok_at in D. rewrite G in D.
    intros [H1 H2]. apply (D id). exists r. auto.
  - apply (inv_idx _ _ I).
  - apply (inv_idx _ _ I).
Qed.

(** ---- the former counterexamples (findings.d/C43.json, fixed), now positive ---- *)

(** buckets: 14 = org 1 "db" (plain), 15 = org 1 "zz" *)
Definition bk_shadow : list bucket := [B 14 1 1 0 true 0; B 15 1 3 0 true 1].
Definition ops_shadow : list op := [Create 1 1 2 15 false; Create 1 1 0 15 false].

(** the physical (db, autogen) mapping 101, although listed after the default mapping 100,
    shadows the virtual (db, autogen) mapping of the plain bucket "db" *)
Lemma shadow_fixed :
  find_many (run bk_shadow 100 ops_shadow) (fod 1 1) =
    ROk [M 100 1 1 2 15 true false; M 101 1 1 0 15 false false].
Proof. vm_compute; reflexivity. Qed.

(** two buckets "db/autogen" (14) and "db" (15) of one org next to a default (db, r2): one
    virtual (db, autogen) only in the listing without org filter *)
Lemma shadow_fixed_virtual :
  find_many (run [B 14 1 1 0 false 0; B 15 1 1 0 true 1; B 16 1 3 0 true 2] 100 [Create 1 1 2 16 false]) F0 =
    ROk [M 100 1 1 2 16 true false; M 14 1 1 0 14 false true; M 16 1 3 0 16 true true].
Proof. vm_compute; reflexivity. Qed.

(** buckets: 14 = org 1 "db/r1", 15 = org 1 "zz" *)
Definition bk_ghost : list bucket := [B 14 1 1 1 false 0; B 15 1 3 0 true 1].
Definition ops_ghost : list op :=
  [Create 1 1 2 15 false; Create 1 1 0 15 false; Update 1 14 1 true true].

(** updating the VIRTUAL mapping of bucket 14 is rejected (not found) and changes nothing *)
Lemma ghost_fixed :
  snd (step (run bk_ghost 100 (firstn 2 ops_ghost)) (Update 1 14 1 true true)) = E_NOTFOUND /\
  run bk_ghost 100 ops_ghost = run bk_ghost 100 (firstn 2 ops_ghost) /\
  find_many (run bk_ghost 100 ops_ghost) (fdef 1 1) = ROk [M 100 1 1 2 15 true false].
Proof. vm_compute. repeat split; reflexivity. Qed.

Lemma ghost_panic_fixed :
  find_many (run [B 14 2 1 1 false 0] 100 [Update 2 14 1 false true]) F0 = ROk [M 14 2 1 1 14 false true].
Proof. vm_compute. reflexivity. Qed.
