(** C44 — Only current credentials authenticate.

    Mirror of
      - tenant/service_user.go: [SetPassword], [ComparePassword],
        [comparePasswordNoStrengthCheck], [CompareAndSetPassword], [IsPasswordStrong],
        [DeleteUser]; tenant/storage_user.go password bucket (separate from the user bucket);
      - pkg/crypt/algorithm/influxdb2 + authorization/hasher.go: the stored token formats
        (raw token / "$influxdb2-sha256$<b64>" / "$influxdb2-sha512$<b64>") and their
        dispatch ([crypt.Decoder.Decode] by identifier, only REGISTERED variants decode,
        [Digest.MatchAdvanced]);
      - authorization/storage_authorization.go + storage.go + service.go: the three KV buckets
        (records by id, raw-token index, hashed-token index), [transformToken],
        [commitAuthorization], [uniqueAuthToken], [CreateAuthorization], [UpdateAuthorization]
        (dangling-index removal), [DeleteAuthorization], [GetAuthorizationByToken] with its final
        [validateToken], and [NewStore] (decoder variants = configured variant + the variants
        found in the store, then [MigrateTokens]);
      - session/storage.go + session/service.go over inmem/session_store.go (every store entry
        carries its own expiry; an entry is visible iff [now < expiry]): [CreateSession],
        [FindSessionByKey]/[ByID], [RefreshSession] (never shortens), [DeleteSession];
      - http/tokens.go [GetToken] (byte level) and http/authentication_middleware.go
        [ProbeAuthScheme], [ServeHTTP], [extractAuthorization], [extractSession], [isUserActive];
        auth.go [Authorization.PermissionSet] (error for a token that is not active; the
        middleware now refuses such a token itself).

    Strings are opaque values of an abstract carrier [str C]; the cryptographic primitives
    (SHA-256/512 + PHC encoding, bcrypt) are the fields of a record [C : crypto] whose
    assumed properties are the record [crypto_ok C] (Proofs/C44_base.v): these are the NAMED
    hypotheses "a stored hash verifies exactly its own input" (collision freedom).  The
    correspondence judge runs the model on the symbolic instance [sym] (free term algebra),
    which satisfies [crypto_ok] (proved).  No proofs in this file. *)
From Verif Require Import Base.Prelude.

Inductive variant := V256 | V512.
Definition variant_eqb (a b : variant) : bool :=
  match a, b with V256, V256 | V512, V512 => true | _, _ => false end.

Record crypto := {
  str : Type;
  str_eqb : str -> str -> bool;
  empty : str;                         (* "" : authTokenClearValue *)
  slen : str -> N;                     (* len(password) in bytes *)
  scls : str -> N;                     (* number of character classes present (0..4) *)
  thash : variant -> str -> str;       (* influxdb2.New(WithVariant v).Hash(t).Encode() *)
  tvariant : str -> option variant;    (* variant whose decoder accepts the stored string; None = malformed / unknown identifier / empty key *)
  tmatch : str -> str -> bool;         (* Digest.Match of the decoded stored string *)
  phash : N -> str -> str;             (* bcrypt.GenerateFromPassword; the N stands for salt, cost and minor version *)
  pverify : str -> str -> bool         (* bcrypt.CompareHashAndPassword(stored, pw) == nil *)
}.

(** association lists *)
Section Assoc.
  Context {K V : Type} (eqb : K -> K -> bool).
  Fixpoint aget (k : K) (l : list (K * V)) : option V :=
    match l with
    | [] => None
    | (k', v) :: r => if eqb k k' then Some v else aget k r
    end.
  Fixpoint adel (k : K) (l : list (K * V)) : list (K * V) :=
    match l with
    | [] => []
    | (k', v) :: r => if eqb k k' then adel k r else (k', v) :: adel k r
    end.
  Definition aput (k : K) (v : V) (l : list (K * V)) : list (K * V) := (k, v) :: adel k l.
End Assoc.

(** ------------------------------------------------------------------ *)
(** * http/tokens.go GetToken, on bytes *)
Definition lower (b : N) : N := if (N.leb 65 b && N.leb b 90)%bool then (b + 32)%N else b.
Definition fold_eq (a b : list N) : bool := list_eqb N.eqb (map lower a) (map lower b).
Definition scheme_token : list N := [84;111;107;101;110;32]%N.          (* "Token " *)
Definition scheme_bearer : list N := [66;101;97;114;101;114;32]%N.     (* "Bearer " *)

(** [None] = ErrAuthHeaderMissing / ErrAuthBadScheme *)
Definition get_token (h : list N) : option (list N) :=
  match h with
  | [] => None
  | _ =>
    if (Nat.leb 6 (length h) && fold_eq (firstn 6 h) scheme_token)%bool then Some (skipn 6 h)
    else if (Nat.ltb 7 (length h) && fold_eq (firstn 7 h) scheme_bearer)%bool then Some (skipn 7 h)
    else None
  end.

(** the property's side: a case-insensitive scheme word, one space, the token *)
Definition get_token_spec (h : list N) (t : list N) : Prop :=
  (exists p, length p = 6%nat /\ map lower p = map lower scheme_token /\ h = p ++ t) \/
  (exists p, length p = 7%nat /\ map lower p = map lower scheme_bearer /\ h = p ++ t /\ t <> []).

(** ------------------------------------------------------------------ *)
Section Model.
  Variable C : crypto.
  Notation Str := (str C).
  Notation seqb := (str_eqb C).
  Definition is_set (s : Str) : bool := negb (seqb s (empty C)).

  (** ** users and passwords (tenant) *)
  Record pstate := {
    users : list (N * bool);      (* user bucket: id -> status is "active" *)
    pws : list (N * Str);           (* password bucket: id -> stored hash *)
    nextu : N;
    strong : bool                 (* WithPasswordChecking *)
  }.

  (** result classes: bit mask over the sentinel errors joined in the result
      (errors.Is): 1 EIncorrectUser, 2 EIncorrectPassword, 4 EPasswordLength,
      8 EPasswordChars, 16 EPasswordChangeRequired, 32 other error (user not found on
      update/delete), 64 = the driver observed a Go panic (the model never produces it). 0 = nil. *)
  Definition R_OK : N := 0.
  Definition R_USER : N := 1.
  Definition R_PW : N := 2.
  Definition R_LEN : N := 4.
  Definition R_CHARS : N := 8.
  Definition R_CHANGE : N := 16.
  Definition R_ERR : N := 32.
  Definition R_PANIC : N := 64.

  (** [IsPasswordStrong(p, doCheck)]: the length test, then - only if [doCheck && l > 0]
      (the guard added by /repo commit 3a5dc47ac9; before it the class check divided by
      [len(password)] and panicked on the empty password) - the character-class test.  Total:
      the empty password is just too short. *)
  Definition strength (strong : bool) (p : Str) : N :=
    let l := slen C p in
    let e1 := if (N.ltb l 8 || N.ltb 72 l)%bool then R_LEN else 0%N in
    if (strong && negb (N.eqb l 0))%bool
    then (e1 + (if N.ltb (scls C p) 3 then R_CHARS else 0))%N
    else e1.

  Definition set_password (st : pstate) (u : N) (salt : N) (p : Str) : pstate * N :=
    let e := strength (strong st) p in
    if negb (N.eqb e 0) then (st, e)
    else match aget N.eqb u (users st) with
         | None => (st, R_USER)
         | Some _ =>
           ({| users := users st; pws := aput N.eqb u (phash C salt p) (pws st);
               nextu := nextu st; strong := strong st |}, R_OK)
         end.

  Definition compare_nocheck (st : pstate) (u : N) (p : Str) : N :=
    match aget N.eqb u (users st) with
    | None => R_USER
    | Some _ =>
      match aget N.eqb u (pws st) with
      | None => R_PW
      | Some h => if pverify C h p then R_OK else R_PW
      end
    end.

  Definition compare_password (st : pstate) (u : N) (p : Str) : N :=
    let r := compare_nocheck st u p in
    let e := strength (strong st) p in
    if (N.eqb r 0 && negb (N.eqb e 0))%bool then (R_CHANGE + e)%N else r.

  Definition cas_password (st : pstate) (u : N) (salt : N) (old new : Str) : pstate * N :=
    let r := compare_nocheck st u old in
    if negb (N.eqb r 0) then (st, r) else set_password st u salt new.

  Inductive pop :=
  | CreateUser
  | SetUserActive (u : N) (b : bool)
  | DeleteUser (u : N)
  | SetPw (u : N) (salt : N) (p : Str)
  | CmpPw (u : N) (p : Str)
  | CasPw (u : N) (salt : N) (old new : Str)
  | PutPwRaw (u : N) (h : Str).         (* a stored hash written directly into the password bucket *)

  Definition pstep (st : pstate) (o : pop) : pstate * N :=
    match o with
    | CreateUser =>
        ({| users := aput N.eqb (nextu st) true (users st); pws := pws st;
            nextu := N.succ (nextu st); strong := strong st |}, R_OK)
    | SetUserActive u b =>
        match aget N.eqb u (users st) with
        | None => (st, R_ERR)
        | Some _ => ({| users := aput N.eqb u b (users st); pws := pws st;
                        nextu := nextu st; strong := strong st |}, R_OK)
        end
    | DeleteUser u =>
        match aget N.eqb u (users st) with
        | None => (st, R_ERR)                 (* the transaction is rolled back *)
        | Some _ => ({| users := adel N.eqb u (users st); pws := adel N.eqb u (pws st);
                        nextu := nextu st; strong := strong st |}, R_OK)
        end
    | SetPw u salt p => set_password st u salt p
    | CmpPw u p => (st, compare_password st u p)
    | CasPw u salt old new => cas_password st u salt old new
    | PutPwRaw u h =>
        ({| users := users st; pws := aput N.eqb u h (pws st);
            nextu := nextu st; strong := strong st |}, R_OK)
    end.

  (** ** stored tokens (authorization) *)
  Record auth := { a_user : N; a_active : bool; a_tok : Str; a_htok : Str; a_nperm : N }.
  Definition with_tok (a : auth) (t : Str) : auth :=
    {| a_user := a_user a; a_active := a_active a; a_tok := t; a_htok := a_htok a; a_nperm := a_nperm a |}.
  Definition with_htok (a : auth) (h : Str) : auth :=
    {| a_user := a_user a; a_active := a_active a; a_tok := a_tok a; a_htok := h; a_nperm := a_nperm a |}.
  Definition with_active (a : auth) (b : bool) : auth :=
    {| a_user := a_user a; a_active := b; a_tok := a_tok a; a_htok := a_htok a; a_nperm := a_nperm a |}.

  Record tstate := {
    recs : list (N * auth);       (* authorizationsv1 *)
    ridx : list (Str * N);          (* authorizationindexv1: raw token -> id *)
    hidx : list (Str * N);          (* authorizationhashedindexv1: PHC string -> id *)
    use_hashed : bool;
    hvar : variant;               (* the hasher's variant *)
    decs : list variant;          (* registered decoder variants = variants of AllHashes *)
    nexta : N
  }.
  Definition tset (st : tstate) r i h : tstate :=
    {| recs := r; ridx := i; hidx := h; use_hashed := use_hashed st; hvar := hvar st;
       decs := decs st; nexta := nexta st |}.

  (** [AuthorizationHasher.Match]: [None] = decode error (malformed, or the variant's decoder
      is not registered). *)
  Definition hmatch (ds : list variant) (phc tok : Str) : option bool :=
    match tvariant C phc with
    | Some v => if existsb (variant_eqb v) ds then Some (tmatch C phc tok) else None
    | None => None
    end.

  Definition all_hashes (ds : list variant) (tok : Str) : list Str := map (fun v => thash C v tok) ds.

  (** [uniqueAuthToken] *)
  Definition unique_tok (st : tstate) (a : auth) : bool :=
    (if is_set (a_tok a) then match aget seqb (a_tok a) (ridx st) with Some _ => false | None => true end else true)
    && forallb (fun h => match aget seqb h (hidx st) with Some _ => false | None => true end)
         ((if is_set (a_htok a) then [a_htok a] else []) ++
          (if is_set (a_tok a) then all_hashes (decs st) (a_tok a) else [])).

  (** [transformToken]: [None] = error *)
  Definition transform (st : tstate) (a : auth) : option auth :=
    if (is_set (a_tok a) && is_set (a_htok a))%bool then
      match hmatch (decs st) (a_htok a) (a_tok a) with
      | Some true => Some (if use_hashed st then with_htok a (thash C (hvar st) (a_tok a)) else with_htok a (empty C))
      | _ => None
      end
    else if is_set (a_tok a) then
      Some (if use_hashed st then with_htok a (thash C (hvar st) (a_tok a)) else with_htok a (empty C))
    else Some a.

  (** [commitAuthorization]: returns the caller's (transformed) struct and the new buckets *)
  Definition commit (st : tstate) (id : N) (a : auth) : option (auth * tstate) :=
    match transform st a with
    | None => None
    | Some a' =>
      if (negb (is_set (a_tok a')) && negb (is_set (a_htok a')))%bool then None
      else
        let stored := if use_hashed st then with_tok a' (empty C) else a' in
        let ri := if (negb (use_hashed st) && is_set (a_tok a'))%bool then aput seqb (a_tok a') id (ridx st) else ridx st in
        let hi := if is_set (a_htok a') then aput seqb (a_htok a') id (hidx st) else hidx st in
        Some (a', tset st (aput N.eqb id stored (recs st)) ri hi)
    end.

  (** [Store.UpdateAuthorization] *)
  Definition update_auth (st : tstate) (id : N) (a : auth) : option tstate :=
    match commit st id a with
    | None => None
    | Some (a', st') =>
      let ri := if (is_set (a_tok a) && (negb (seqb (a_tok a') (a_tok a)) || use_hashed st))%bool
                then adel seqb (a_tok a) (ridx st') else ridx st' in
      let hi := if (is_set (a_htok a) && negb (seqb (a_htok a') (a_htok a)))%bool
                then adel seqb (a_htok a) (hidx st') else hidx st' in
      Some (tset st' (recs st') ri hi)
    end.

  (** [validateToken]: [None] = error *)
  Definition validate (st : tstate) (a : auth) (tok : Str) : option bool :=
    if is_set (a_tok a) then Some (seqb (a_tok a) tok)
    else if is_set (a_htok a) then hmatch (decs st) (a_htok a) tok
    else None.

  Fixpoint first_hit (idx : list (Str * N)) (hs : list Str) : option N :=
    match hs with
    | [] => None
    | h :: r => match aget seqb h idx with Some id => Some id | None => first_hit idx r end
    end.

  (** [GetAuthorizationByToken]; every error is [None] (the middleware answers 401 to all) *)
  Definition find_token (st : tstate) (tok : Str) : option (N * auth) :=
    let oid := match aget seqb tok (ridx st) with
               | Some id => Some id
               | None => first_hit (hidx st) (all_hashes (decs st) tok)
               end in
    match oid with
    | None => None
    | Some id =>
      match aget N.eqb id (recs st) with
      | None => None
      | Some a => match validate st a tok with Some true => Some (id, a) | _ => None end
      end
    end.

  (** variants found in the store by [findHashVariants] (canonical order; the real order is a
      map iteration order and only affects the lookup order) *)
  Definition found_variants (st : tstate) : list variant :=
    filter (fun v => existsb (fun r => (is_set (a_htok (snd r)) &&
                        match tvariant C (a_htok (snd r)) with Some v' => variant_eqb v v' | None => false end)%bool)
                     (recs st)) [V256; V512].

  (** [MigrateTokens]: every record with a raw token and no hash is re-committed *)
  Fixpoint migrate (st : tstate) (todo : list (N * auth)) : tstate :=
    match todo with
    | [] => st
    | (id, a) :: r =>
      let st' := if (negb (is_set (a_htok a)) && is_set (a_tok a))%bool
                 then match update_auth st id a with Some s => s | None => st end
                 else st in
      migrate st' r
    end.

  Inductive top :=
  | CreateAuth (u : N) (tok htok : Str) (active : bool) (nperm : N)
  | SetAuthActive (id : N) (b : bool)
  | DeleteAuth (id : N)
  | Reopen (uh : bool) (hv : variant).     (* NewStore on the same KV store with another configuration *)

  (** result classes of token operations: 0 ok, 1 user unknown, 2 token not unique, 3 store
      error, 4 not found *)
  Definition tstep (us : list (N * bool)) (st : tstate) (o : top) : tstate * N :=
    match o with
    | CreateAuth u tok htok active nperm =>
        let a := {| a_user := u; a_active := active; a_tok := tok; a_htok := htok; a_nperm := nperm |} in
        match aget N.eqb u us with
        | None => (st, 1%N)
        | Some _ =>
          if negb (unique_tok st a) then (st, 2%N)
          else if (negb (is_set tok) && negb (is_set htok))%bool then (st, 3%N)   (* the driver never asks for a generated token *)
          else match commit st (nexta st) a with
               | None => (st, 3%N)
               | Some (_, st') =>
                   ({| recs := recs st'; ridx := ridx st'; hidx := hidx st'; use_hashed := use_hashed st;
                       hvar := hvar st; decs := decs st; nexta := N.succ (nexta st) |}, 0%N)
               end
        end
    | SetAuthActive id b =>
        match aget N.eqb id (recs st) with
        | None => (st, 4%N)
        | Some a => match update_auth st id (with_active a b) with
                    | Some st' => (st', 0%N)
                    | None => (st, 3%N)
                    end
        end
    | DeleteAuth id =>
        match aget N.eqb id (recs st) with
        | None => (st, 4%N)
        | Some a =>
            let ri := if is_set (a_tok a) then adel seqb (a_tok a) (ridx st) else ridx st in
            let hi := if is_set (a_htok a) then adel seqb (a_htok a) (hidx st) else hidx st in
            (tset st (adel N.eqb id (recs st)) ri hi, 0%N)
        end
    | Reopen uh hv =>
        let ds := hv :: filter (fun v => negb (variant_eqb v hv)) (found_variants st) in
        let st1 := {| recs := recs st; ridx := ridx st; hidx := hidx st; use_hashed := uh; hvar := hv;
                      decs := ds; nexta := nexta st |} in
        ((if uh then migrate st1 (recs st1) else st1), 0%N)
    end.

  (** ** sessions *)
  Record sess := { s_key : Str; s_user : N; s_exp : Z }.
  Record sstate := {
    sdat : list (N * (sess * Z));     (* "sessionsv2/<id>" -> session, entry expiry *)
    sidx : list (Str * (N * Z));        (* "sessionsindexv2/<key>" -> id, entry expiry *)
    nexts : N;
    now : Z
  }.
  Definition sset (st : sstate) d i : sstate := {| sdat := d; sidx := i; nexts := nexts st; now := now st |}.

  (** inmem.SessionStore.Set followed by ExpireAt: nothing happens if already expired *)
  Definition live (st : sstate) (e : Z) : bool := Z.ltb (now st) e.
  Definition get_dat (st : sstate) (id : N) : option sess :=
    match aget N.eqb id (sdat st) with Some (s, e) => if live st e then Some s else None | None => None end.
  Definition get_idx (st : sstate) (k : Str) : option N :=
    match aget seqb k (sidx st) with Some (id, e) => if live st e then Some id else None | None => None end.
  Definition find_by_key (st : sstate) (k : Str) : option (N * sess) :=
    match get_idx st k with
    | Some id => match get_dat st id with Some s => Some (id, s) | None => None end
    | None => None
    end.
  (** Storage.CreateSession *)
  Definition put_sess (st : sstate) (id : N) (s : sess) : sstate :=
    let e := s_exp s in
    if Z.ltb e (now st) then st
    else if Z.eqb e (now st) then sset st (adel N.eqb id (sdat st)) (adel seqb (s_key s) (sidx st))
    else sset st (aput N.eqb id (s, e) (sdat st)) (aput seqb (s_key s) (id, e) (sidx st)).
  (** Storage.RefreshSession: [None] = session not found *)
  Definition refresh (st : sstate) (id : N) (e : Z) : option sstate :=
    match get_dat st id with
    | None => None
    | Some s => if Z.ltb e (s_exp s) then Some st
                else Some (put_sess st id {| s_key := s_key s; s_user := s_user s; s_exp := e |})
    end.

  Inductive sop :=
  | CreateSess (u : N) (k : Str) (off : Z)       (* Storage.CreateSession with ExpiresAt = now + off *)
  | ExpireSess (k : Str)
  | RenewSess (k : Str) (off : Z)                (* FindSession, then RenewSession(s, now + off) *)
  | FindSess (k : Str)                           (* FindSession; the caller keeps the returned object *)
  | RenewById (id : N) (off : Z)                 (* RenewSession(a session OBJECT obtained earlier for id, now + off):
                                                    Storage.RefreshSession re-reads the session by the object's ID, so only
                                                    the id matters and a session that is gone or expired is "not found" *)
  | Wait (d : Z).

  Definition sstep (st : sstate) (o : sop) : sstate * N :=
    match o with
    | CreateSess u k off =>
        let st' := put_sess st (nexts st) {| s_key := k; s_user := u; s_exp := now st + off |} in
        ({| sdat := sdat st'; sidx := sidx st'; nexts := N.succ (nexts st); now := now st |}, 0%N)
    | ExpireSess k =>
        match find_by_key st k with
        | None => (st, 4%N)
        | Some (id, s) => (sset st (adel N.eqb id (sdat st)) (adel seqb (s_key s) (sidx st)), 0%N)
        end
    | RenewSess k off =>
        match find_by_key st k with
        | None => (st, 4%N)
        | Some (id, _) => match refresh st id (now st + off) with
                          | Some st' => (st', 0%N)
                          | None => (st, 4%N)
                          end
        end
    | FindSess k =>
        match find_by_key st k with
        | None => (st, 4%N)
        | Some (id, _) => (st, (100 + id)%N)
        end
    | RenewById id off =>
        match refresh st id (now st + off) with
        | Some st' => (st', 0%N)
        | None => (st, 4%N)
        end
    | Wait d => ({| sdat := sdat st; sidx := sidx st; nexts := nexts st; now := now st + d |}, 0%N)
    end.

  (** ** the authentication middleware *)
  Inductive header :=
  | HAbsent                              (* no or empty Authorization header *)
  | HBad                                 (* GetToken: bad scheme *)
  | HTok (t : Str) (jwt : bool).           (* GetToken = t; [jwt]: t is a well-formed JWT (no key is configured) *)

  Record state := { ps : pstate; ts : tstate; ss : sstate }.

  (** what the wrapped handler sees *)
  Record principal := {
    p_kind : N;             (* 1 = authorization (token), 2 = session *)
    p_user : N;
    p_ident : N;            (* authorization id / session id *)
    p_perm : option N       (* PermissionSet(): None = error, Some n = n permissions (sessions: not counted, 0) *)
  }.

  Definition RenewSessionTime : Z := 300000.   (* ms *)

  (** Result: HTTP status, the principal handed to the inner handler (status 200 only), new state *)
  Definition authenticate (st : state) (h : header) (ck : option Str) (renew : bool)
    : N * option principal * state :=
    let deny := (401%N, None, st) in
    let user_check (p : principal) (st' : state) :=
      match aget N.eqb (p_user p) (users (ps st')) with
      | Some true => (200%N, Some p, st')
      | _ => (403%N, None, st')
      end in
    match h, ck with
    | HTok t jwt, _ =>
        if jwt then deny
        else match find_token (ts st) t with
             | None => deny
             | Some (id, a) =>
                 (* extractAuthorization refuses a token whose status is "inactive" with 401,
                    like every other lookup failure (/repo fix of the finding
                    inactive-token-passes-authentication-middleware; before it the status was
                    never looked at and only PermissionSet() refused) *)
                 if negb (a_active a) then deny
                 else user_check {| p_kind := 1; p_user := a_user a; p_ident := id;
                                    p_perm := Some (a_nperm a) |} st
             end
    | _, None => deny
    | _, Some k =>
        match find_by_key (ss st) k with
        | None => deny
        | Some (id, s) =>
            let st' := if renew
                       then match refresh (ss st) id (now (ss st) + RenewSessionTime) with
                            | Some x => Some {| ps := ps st; ts := ts st; ss := x |}
                            | None => None
                            end
                       else Some st in
            match st' with
            | None => deny
            | Some st' => user_check {| p_kind := 2; p_user := s_user s; p_ident := id; p_perm := Some 0%N |} st'
            end
        end
    end.

  Inductive op :=
  | OP (o : pop)
  | OT (o : top)
  | OS (o : sop)
  | Probe (h : header) (ck : option Str) (renew : bool)
  | ProbeRace (k : Str).   (* a cookie-only request with renewal enabled, and a sign-out (ExpireSession k) landing
                              between the middleware's FindSession and its RenewSession *)

  (** observation of an operation: result class, or for a probe
      [status; kind; user; ident; perm+1 (0 = PermissionSet error)] *)
  Definition obs_probe (r : N * option principal) : list N :=
    match r with
    | (code, Some p) => [code; p_kind p; p_user p; p_ident p; match p_perm p with Some n => N.succ n | None => 0%N end]
    | (code, None) => [code]
    end.

  Definition step (st : state) (o : op) : state * list N :=
    match o with
    | OP o => let '(p, r) := pstep (ps st) o in ({| ps := p; ts := ts st; ss := ss st |}, [r])
    | OT o => let '(t, r) := tstep (users (ps st)) (ts st) o in ({| ps := ps st; ts := t; ss := ss st |}, [r])
    | OS o => let '(s, r) := sstep (ss st) o in ({| ps := ps st; ts := ts st; ss := s |}, [r])
    | Probe h ck renew => let '(c, p, st') := authenticate st h ck renew in (st', obs_probe (c, p))
    | ProbeRace k =>
        match find_by_key (ss st) k with
        | None => (st, [401%N])
        | Some (id, s) =>
            let ss1 := fst (sstep (ss st) (ExpireSess k)) in
            match refresh ss1 id (now ss1 + RenewSessionTime) with
            | None => ({| ps := ps st; ts := ts st; ss := ss1 |}, [401%N])      (* always: the session is gone *)
            | Some x =>
                let st' := {| ps := ps st; ts := ts st; ss := x |} in
                match aget N.eqb (s_user s) (users (ps st)) with
                | Some true => (st', obs_probe (200%N, Some {| p_kind := 2; p_user := s_user s; p_ident := id; p_perm := Some 0%N |}))
                | _ => (st', [403%N])
                end
            end
        end
    end.

  Definition init (strong_pw uh : bool) (hv : variant) : state :=
    {| ps := {| users := []; pws := []; nextu := 0; strong := strong_pw |};
       ts := {| recs := []; ridx := []; hidx := []; use_hashed := uh; hvar := hv; decs := [hv]; nexta := 0 |};
       ss := {| sdat := []; sidx := []; nexts := 0; now := 0 |} |}.

  Fixpoint trace (st : state) (ops : list op) : list (list N) :=
    match ops with
    | [] => []
    | o :: r => let '(st', ob) := step st o in ob :: trace st' r
    end.

  Definition run (st : state) (ops : list op) : state := fold_left (fun s o => fst (step s o)) ops st.
End Model.


(** ------------------------------------------------------------------ *)
(** * The symbolic instance used by the correspondence judge *)
Inductive sstr :=
| SEmpty
| SPlain (n len cls : N)              (* the driver interns distinct strings to distinct [n] *)
| SPhc (v : variant) (s : sstr)       (* "$influxdb2-shaN$" ++ base64url(shaN(s)) *)
| SBadPhc (n : N)                     (* a "$..." string no decoder accepts (unknown identifier, bad base64, empty key) *)
| SPhcJunk (v : variant) (n : N)      (* "$influxdb2-shaN$<b64 of bytes that are no digest of anything>": decodes, matches nothing *)
| SBcrypt (salt : N) (p : sstr)       (* a bcrypt hash of p (any cost / minor version / salt) *)
| SGarbage (n : N).                   (* a stored password hash bcrypt rejects *)

Fixpoint sstr_eqb (a b : sstr) : bool :=
  match a, b with
  | SEmpty, SEmpty => true
  | SPlain n l c, SPlain n' l' c' => N.eqb n n' && N.eqb l l' && N.eqb c c'
  | SPhc v s, SPhc v' s' => variant_eqb v v' && sstr_eqb s s'
  | SBadPhc n, SBadPhc n' => N.eqb n n'
  | SPhcJunk v n, SPhcJunk v' n' => variant_eqb v v' && N.eqb n n'
  | SBcrypt x p, SBcrypt x' p' => N.eqb x x' && sstr_eqb p p'
  | SGarbage n, SGarbage n' => N.eqb n n'
  | _, _ => false
  end.

Definition sym : crypto := {|
  str := sstr;
  str_eqb := sstr_eqb;
  empty := SEmpty;
  slen := fun s => match s with SPlain _ l _ => l | _ => 0%N end;
  scls := fun s => match s with SPlain _ _ c => c | _ => 0%N end;
  thash := SPhc;
  tvariant := fun s => match s with SPhc v _ | SPhcJunk v _ => Some v | _ => None end;
  tmatch := fun h t => match h with SPhc _ s => sstr_eqb s t | _ => false end;
  phash := SBcrypt;
  pverify := fun h p => match h with SBcrypt _ q => sstr_eqb q p | _ => false end
|}.

(** ------------------------------------------------------------------ *)
(** * The oracle: the property, stated on what was OBSERVED, against a ghost state that
      records credentials in the clear (no hashes, no indices, no decoder configuration) and
      is advanced by the operations the implementation REPORTED as successful. *)
Record ghost := {
  g_users : list (N * bool);
  g_pw : list (N * sstr);                         (* user -> the plaintext last successfully set; SGarbage = nothing verifies *)
  g_toks : list (N * (option sstr * N * bool));   (* authorization id -> (the raw token it stands for, user, active) *)
  g_sess : list (N * (sstr * N * Z));             (* session id -> key, user, expiry *)
  g_nu : N; g_na : N; g_ns : N; g_now : Z
}.

Definition ginit : ghost :=
  {| g_users := []; g_pw := []; g_toks := []; g_sess := []; g_nu := 0; g_na := 0; g_ns := 0; g_now := 0 |}.

Definition raw_of (tok htok : sstr) : option sstr :=
  match tok with
  | SEmpty => match htok with SPhc _ s => Some s | _ => None end
  | t => Some t
  end.

Definition plain_of (h : sstr) : sstr := match h with SBcrypt _ p => p | _ => SGarbage 0 end.

Definition len_ok (p : sstr) : bool := let l := slen sym p in (N.leb 8 l && N.leb l 72)%bool.

(** does the observation satisfy the property, given the ghost state BEFORE the operation? *)
Definition oracle_op (g : ghost) (o : op sym) (ob : list N) : bool :=
  match o, ob with
  | OP _ (CmpPw _ u p), [r] =>
      negb (N.eqb r 64) &&
      (* success, or "matches but must be changed": only for the current password of an existing user *)
      (if (N.eqb r 0 || N.leb 16 r && N.ltb r 32)%bool
       then match aget N.eqb u (g_users g), aget N.eqb u (g_pw g) with
            | Some _, Some q => sstr_eqb q p && (if N.eqb r 0 then len_ok p else true)
            | _, _ => false
            end
       else true)
  | OP _ (CasPw _ u _ old new), [r] =>
      negb (N.eqb r 64) &&
      (if N.eqb r 0
       then match aget N.eqb u (g_users g), aget N.eqb u (g_pw g) with
            | Some _, Some q => sstr_eqb q old && len_ok new
            | _, _ => false
            end
       else true)
  | OP _ (SetPw _ u _ p), [r] =>
      negb (N.eqb r 64) &&
      (if N.eqb r 0 then match aget N.eqb u (g_users g) with Some _ => len_ok p | None => false end else true)
  | OP _ _, [_] => true
  | OT _ _, [_] => true
  | OS _ (FindSess _ k), [r] =>
      (* found only if it is a stored, unexpired, not signed-out session with this key *)
      if N.leb 100 r
      then match aget N.eqb (r - 100)%N (g_sess g) with
           | Some (k', _, e) => sstr_eqb k k' && Z.ltb (g_now g) e
           | None => false
           end
      else true
  | OS _ _, [_] => true
  | ProbeRace _ _, [code] => negb (N.eqb code 200)
  | ProbeRace _ k, [code; kind; u; id; perm] =>
      (* the in-flight request may still be answered from the state at its FindSession *)
      N.eqb code 200 && N.eqb kind 2 &&
      match aget N.eqb u (g_users g) with Some true => true | _ => false end &&
      match aget N.eqb id (g_sess g) with
      | Some (k', u', e) => sstr_eqb k k' && N.eqb u u' && Z.ltb (g_now g) e
      | None => false
      end
  | Probe _ h ck _, [code] => negb (N.eqb code 200)
  | Probe _ h ck _, [code; kind; u; id; perm] =>
      N.eqb code 200 &&
      match aget N.eqb u (g_users g) with Some true => true | _ => false end &&   (* never for an inactive or unknown user *)
      (if N.eqb kind 1 then
         match h, aget N.eqb id (g_toks g) with
         | HTok _ t false, Some (Some t', u', active) =>
             sstr_eqb t t' && N.eqb u u' && active         (* the token exists, is this one, and is active *)
         | _, _ => false
         end
       else if N.eqb kind 2 then
         match h, ck, aget N.eqb id (g_sess g) with
         | HTok _ _ _, _, _ => false
         | _, Some k, Some (k', u', e) => sstr_eqb k k' && N.eqb u u' && Z.ltb (g_now g) e   (* unexpired session *)
         | _, _, _ => false
         end
       else false)
  | _, _ => false
  end.

Definition gset_users g x := {| g_users := x; g_pw := g_pw g; g_toks := g_toks g; g_sess := g_sess g;
  g_nu := g_nu g; g_na := g_na g; g_ns := g_ns g; g_now := g_now g |}.

Definition gstep (g : ghost) (o : op sym) (ob : list N) : ghost :=
  let ok := match ob with [r] => N.eqb r 0 | _ => false end in
  match o with
  | OP _ (CreateUser _) =>
      {| g_users := aput N.eqb (g_nu g) true (g_users g); g_pw := g_pw g; g_toks := g_toks g; g_sess := g_sess g;
         g_nu := N.succ (g_nu g); g_na := g_na g; g_ns := g_ns g; g_now := g_now g |}
  | OP _ (SetUserActive _ u b) => if ok then gset_users g (aput N.eqb u b (g_users g)) else g
  | OP _ (DeleteUser _ u) =>
      if ok then {| g_users := adel N.eqb u (g_users g); g_pw := adel N.eqb u (g_pw g); g_toks := g_toks g;
                    g_sess := g_sess g; g_nu := g_nu g; g_na := g_na g; g_ns := g_ns g; g_now := g_now g |}
      else g
  | OP _ (SetPw _ u _ p) | OP _ (CasPw _ u _ _ p) =>
      if ok then {| g_users := g_users g; g_pw := aput N.eqb u p (g_pw g); g_toks := g_toks g; g_sess := g_sess g;
                    g_nu := g_nu g; g_na := g_na g; g_ns := g_ns g; g_now := g_now g |}
      else g
  | OP _ (PutPwRaw _ u h) =>
      {| g_users := g_users g; g_pw := aput N.eqb u (plain_of h) (g_pw g); g_toks := g_toks g; g_sess := g_sess g;
         g_nu := g_nu g; g_na := g_na g; g_ns := g_ns g; g_now := g_now g |}
  | OP _ (CmpPw _ _ _) => g
  | OT _ (CreateAuth _ u tok htok active _) =>
      if ok then {| g_users := g_users g; g_pw := g_pw g;
                    g_toks := aput N.eqb (g_na g) (raw_of tok htok, u, active) (g_toks g); g_sess := g_sess g;
                    g_nu := g_nu g; g_na := N.succ (g_na g); g_ns := g_ns g; g_now := g_now g |}
      else g
  | OT _ (SetAuthActive _ id b) =>
      if ok then match aget N.eqb id (g_toks g) with
                 | Some (t, u, _) =>
                   {| g_users := g_users g; g_pw := g_pw g; g_toks := aput N.eqb id (t, u, b) (g_toks g);
                      g_sess := g_sess g; g_nu := g_nu g; g_na := g_na g; g_ns := g_ns g; g_now := g_now g |}
                 | None => g
                 end
      else g
  | OT _ (DeleteAuth _ id) =>
      if ok then {| g_users := g_users g; g_pw := g_pw g; g_toks := adel N.eqb id (g_toks g); g_sess := g_sess g;
                    g_nu := g_nu g; g_na := g_na g; g_ns := g_ns g; g_now := g_now g |}
      else g
  | OT _ (Reopen _ _ _) => g
  | OS _ (CreateSess _ u k off) =>
      {| g_users := g_users g; g_pw := g_pw g; g_toks := g_toks g;
         g_sess := aput N.eqb (g_ns g) (k, u, g_now g + off)%Z (g_sess g);
         g_nu := g_nu g; g_na := g_na g; g_ns := N.succ (g_ns g); g_now := g_now g |}
  | OS _ (ExpireSess _ k) =>
      if ok then {| g_users := g_users g; g_pw := g_pw g; g_toks := g_toks g;
                    g_sess := filter (fun e => negb (sstr_eqb (fst (fst (snd e))) k)) (g_sess g);
                    g_nu := g_nu g; g_na := g_na g; g_ns := g_ns g; g_now := g_now g |}
      else g
  | OS _ (RenewSess _ k off) =>
      if ok then {| g_users := g_users g; g_pw := g_pw g; g_toks := g_toks g;
                    g_sess := map (fun e => let '(id, (k', u, x)) := e in
                                            if (sstr_eqb k' k && Z.ltb (g_now g) x)%bool
                                            then (id, (k', u, Z.max x (g_now g + off))) else e) (g_sess g);
                    g_nu := g_nu g; g_na := g_na g; g_ns := g_ns g; g_now := g_now g |}
      else g
  | OS _ (FindSess _ _) => g
  | OS _ (RenewById _ id off) =>
      (* only a session that still exists and has not expired can be extended *)
      if ok then {| g_users := g_users g; g_pw := g_pw g; g_toks := g_toks g;
                    g_sess := map (fun e => let '(id', (k', u, x)) := e in
                                            if (N.eqb id' id && Z.ltb (g_now g) x)%bool
                                            then (id', (k', u, Z.max x (g_now g + off))) else e) (g_sess g);
                    g_nu := g_nu g; g_na := g_na g; g_ns := g_ns g; g_now := g_now g |}
      else g
  | ProbeRace _ k =>
      (* the key is signed out during the request, whatever the request's answer *)
      {| g_users := g_users g; g_pw := g_pw g; g_toks := g_toks g;
         g_sess := filter (fun e => negb (sstr_eqb (fst (fst (snd e))) k)) (g_sess g);
         g_nu := g_nu g; g_na := g_na g; g_ns := g_ns g; g_now := g_now g |}
  | OS _ (Wait _ d) =>
      {| g_users := g_users g; g_pw := g_pw g; g_toks := g_toks g; g_sess := g_sess g;
         g_nu := g_nu g; g_na := g_na g; g_ns := g_ns g; g_now := (g_now g + d)%Z |}
  | Probe _ h ck renew =>
      (* a successful session probe with renewal extends that session *)
      match ob with
      | [code; kind; _; id; _] =>
          if (renew && N.eqb code 200 && N.eqb kind 2)%bool
          then {| g_users := g_users g; g_pw := g_pw g; g_toks := g_toks g;
                  g_sess := map (fun e => let '(id', (k', u, x)) := e in
                                          if N.eqb id' id then (id', (k', u, Z.max x (g_now g + RenewSessionTime))) else e)
                                (g_sess g);
                  g_nu := g_nu g; g_na := g_na g; g_ns := g_ns g; g_now := g_now g |}
          else g
      | _ => g
      end
  end.

Fixpoint oracle (g : ghost) (ops : list (op sym)) (obs : list (list N)) : bool :=
  match ops, obs with
  | [], [] => true
  | o :: r, ob :: r' => oracle_op g o ob && oracle (gstep g o ob) r r'
  | _, _ => false
  end.

(** ------------------------------------------------------------------ *)
(** * Correspondence cases *)
Inductive case :=
| CHist (strong_pw uh : bool) (hv : variant) (ops : list (op sym)) (obs : list (list N))
| CHdr (h : list N) (res : option (list N)).       (* http.GetToken on header bytes *)

Definition obs_eqb := list_eqb (list_eqb N.eqb).

Definition hdr_oracle (h : list N) (res : option (list N)) : bool :=
  match res with
  | Some t =>
      (* accepted only as <scheme word><space><token>, scheme compared case-insensitively *)
      let n := (length h - length t)%nat in
      list_eqb N.eqb (skipn n h) t &&
      ((Nat.eqb n 6 && list_eqb N.eqb (map lower (firstn n h)) (map lower scheme_token)) ||
       (Nat.eqb n 7 && list_eqb N.eqb (map lower (firstn n h)) (map lower scheme_bearer) && negb (Nat.eqb (length t) 0)))
  | None => true
  end.

Definition check (c : case) : verdict :=
  match c with
  | CHist sp uh hv ops obs =>
      let m := trace sym (init sym sp uh hv) ops in
      judge (obs_eqb obs m) (oracle ginit ops obs)
  | CHdr h res =>
      judge (option_eqb (list_eqb N.eqb) res (get_token h)) (hdr_oracle h res)
  end.
