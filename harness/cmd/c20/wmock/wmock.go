// Package wmock: mock series/array cursors that serve a prepared series, split into
// prepared arrays, to the REAL storage/reads window cursors (C20) and, through a mock
// reads.Store, to the real Flux storage reader (C41).  The mocks behave like the tsm1
// array cursors: one reused buffer per cursor, arrays in time order (or reverse order
// when the request is descending), an empty array at the end, time-range filtering by
// the CursorRequest [StartTime, EndTime] (inclusive).
package wmock

import (
	"context"
	"math"

	"github.com/influxdata/influxdb/v2/models"
	"github.com/influxdata/influxdb/v2/storage/reads"
	"github.com/influxdata/influxdb/v2/tsdb/cursors"
)

// StrPool: string field values (index = raw value).
var StrPool = []string{"", "a", "b", "ab", "zz"}

// Series is one field of one series. V holds raw values: int64 bits, uint64, float64 bits,
// 0/1, index into StrPool.
type Series struct {
	Ty string   `json:"ty"` // int uint float bool str
	T  []int64  `json:"t"`
	V  []uint64 `json:"v"`
}

type base struct {
	s      *Series
	ranges [][2]int // index ranges, in serving order
	desc   bool
	pos    int
	Served *[][]int // log of served arrays (indices)
}

func (b *base) next() []int {
	if b.pos >= len(b.ranges) {
		return nil
	}
	r := b.ranges[b.pos]
	b.pos++
	idx := make([]int, 0, r[1]-r[0])
	if b.desc {
		for i := r[1] - 1; i >= r[0]; i-- {
			idx = append(idx, i)
		}
	} else {
		for i := r[0]; i < r[1]; i++ {
			idx = append(idx, i)
		}
	}
	if b.Served != nil {
		*b.Served = append(*b.Served, idx)
	}
	return idx
}
func (b *base) Close()                     {}
func (b *base) Err() error                 { return nil }
func (b *base) Stats() cursors.CursorStats { return cursors.CursorStats{} }

type intCur struct {
	base
	buf cursors.IntegerArray
}

func (c *intCur) Next() *cursors.IntegerArray {
	c.buf.Timestamps, c.buf.Values = c.buf.Timestamps[:0], c.buf.Values[:0]
	for _, i := range c.next() {
		c.buf.Timestamps = append(c.buf.Timestamps, c.s.T[i])
		c.buf.Values = append(c.buf.Values, int64(c.s.V[i]))
	}
	return &c.buf
}

type uintCur struct {
	base
	buf cursors.UnsignedArray
}

func (c *uintCur) Next() *cursors.UnsignedArray {
	c.buf.Timestamps, c.buf.Values = c.buf.Timestamps[:0], c.buf.Values[:0]
	for _, i := range c.next() {
		c.buf.Timestamps = append(c.buf.Timestamps, c.s.T[i])
		c.buf.Values = append(c.buf.Values, c.s.V[i])
	}
	return &c.buf
}

type floatCur struct {
	base
	buf cursors.FloatArray
}

func (c *floatCur) Next() *cursors.FloatArray {
	c.buf.Timestamps, c.buf.Values = c.buf.Timestamps[:0], c.buf.Values[:0]
	for _, i := range c.next() {
		c.buf.Timestamps = append(c.buf.Timestamps, c.s.T[i])
		c.buf.Values = append(c.buf.Values, math.Float64frombits(c.s.V[i]))
	}
	return &c.buf
}

type boolCur struct {
	base
	buf cursors.BooleanArray
}

func (c *boolCur) Next() *cursors.BooleanArray {
	c.buf.Timestamps, c.buf.Values = c.buf.Timestamps[:0], c.buf.Values[:0]
	for _, i := range c.next() {
		c.buf.Timestamps = append(c.buf.Timestamps, c.s.T[i])
		c.buf.Values = append(c.buf.Values, c.s.V[i] != 0)
	}
	return &c.buf
}

type strCur struct {
	base
	buf cursors.StringArray
}

func (c *strCur) Next() *cursors.StringArray {
	c.buf.Timestamps, c.buf.Values = c.buf.Timestamps[:0], c.buf.Values[:0]
	for _, i := range c.next() {
		c.buf.Timestamps = append(c.buf.Timestamps, c.s.T[i])
		c.buf.Values = append(c.buf.Values, StrPool[c.s.V[i]])
	}
	return &c.buf
}

// Iter is one "shard": it owns the consecutive arrays Ranges of the series.
type Iter struct {
	S      *Series
	Ranges [][2]int
	Served *[][]int
}

func (it *Iter) Stats() cursors.CursorStats { return cursors.CursorStats{} }

// Next trims the arrays to the requested time range, drops the empty ones and returns a
// nil cursor when nothing is left (as a shard without data for the series does).
func (it *Iter) Next(ctx context.Context, r *cursors.CursorRequest) (cursors.Cursor, error) {
	var rs [][2]int
	for _, g := range it.Ranges {
		lo, hi := g[0], g[1]
		for lo < hi && it.S.T[lo] < r.StartTime {
			lo++
		}
		for hi > lo && it.S.T[hi-1] > r.EndTime {
			hi--
		}
		if lo < hi {
			rs = append(rs, [2]int{lo, hi})
		}
	}
	if len(rs) == 0 {
		return nil, nil
	}
	if !r.Ascending {
		for i, j := 0, len(rs)-1; i < j; i, j = i+1, j-1 {
			rs[i], rs[j] = rs[j], rs[i]
		}
	}
	b := base{s: it.S, ranges: rs, desc: !r.Ascending, Served: it.Served}
	switch it.S.Ty {
	case "int":
		return &intCur{base: b}, nil
	case "uint":
		return &uintCur{base: b}, nil
	case "float":
		return &floatCur{base: b}, nil
	case "bool":
		return &boolCur{base: b}, nil
	default:
		return &strCur{base: b}, nil
	}
}

// Ranges turns array sizes into consecutive index ranges over n points.
func Ranges(n int, sizes []int) [][2]int {
	var rs [][2]int
	lo := 0
	for _, k := range sizes {
		if lo >= n {
			break
		}
		hi := lo + k
		if hi > n {
			hi = n
		}
		if hi > lo {
			rs = append(rs, [2]int{lo, hi})
		}
		lo = hi
	}
	if lo < n {
		rs = append(rs, [2]int{lo, n})
	}
	return rs
}

// SeriesCursor serves the given rows once.
type SeriesCursor struct {
	Rows []reads.SeriesRow
	i    int
}

func (c *SeriesCursor) Close()     {}
func (c *SeriesCursor) Err() error { return nil }
func (c *SeriesCursor) Next() *reads.SeriesRow {
	if c.i >= len(c.Rows) {
		return nil
	}
	c.i++
	return &c.Rows[c.i-1]
}

// Row builds the series row: the arrays (index ranges) are dealt to shards consecutive
// groups of them (shardCuts = number of arrays per shard); descending requests get the
// shards in reverse order, as the real store orders them.
func Row(s *Series, ranges [][2]int, shardCuts []int, desc bool, tags models.Tags, served *[][]int) reads.SeriesRow {
	var its cursors.CursorIterators
	lo := 0
	for _, k := range shardCuts {
		hi := lo + k
		if hi > len(ranges) {
			hi = len(ranges)
		}
		its = append(its, &Iter{S: s, Ranges: ranges[lo:hi], Served: served})
		lo = hi
	}
	if lo < len(ranges) || len(its) == 0 {
		its = append(its, &Iter{S: s, Ranges: ranges[lo:], Served: served})
	}
	if desc {
		for i, j := 0, len(its)-1; i < j; i, j = i+1, j-1 {
			its[i], its[j] = its[j], its[i]
		}
	}
	return reads.SeriesRow{Name: []byte("m"), SeriesTags: tags, Tags: tags, Field: "f", Query: its}
}
