(** C24 — The task scheduler dispatches each due run once, in order, and stops on release.

    Mirror of [TreeScheduler] (task/backend/scheduler/treescheduler.go) at its
    quiescent points: the state after the scheduler goroutine and the workers have
    run until nothing more can happen without an outside event.

    Time is in whole seconds (Z).  State:
      - [q]      the btree + uniqueness index: items sorted by (when, id), one per id;
                 an item is (id, next, offset, sched) and when = next + offset;
      - [swhen]  [s.when] ([None] = zero time);
      - [timer]  deadline of the armed timer ([None] = stopped / fired);
      - [now]    the clock;
      - [busy]   workers that are inside [Executor.Execute] (a run that the script
                 parks), as (worker, task id);
      - [spin]   the loop goroutine is not parked in its [select]: it is re-running its
                 inner [for] because a due item's worker is busy, or its timer keeps
                 firing at once because it was re-armed with a non-positive delay.

    Events: [Schedule], [Release], [Advance] (clock moves forward continuously to t:
    every timer deadline on the way fires at its own time), [Done id] (the parked run
    of task id returns).

    [loop] is the body of the [case <-s.timer.C:] arm, copied branch by branch.  The
    "minimum is not due yet" branch exists in two versions selected by [fx]:
    [fx = true] is the code as it is now (repair of finding
    C24-stale-when-negative-rearm-spin): [s.when = it.When();
    s.timer.Reset(it.When().Sub(ts))], a positive delay; [fx = false] is the code before
    the repair, [s.timer.Reset(ts.Sub(it.When()))] = now - when, a NEGATIVE delay, with
    [s.when] left alone (kept only to record the counterexample).  The correspondence
    judge and the property theorems use [fx = true].

    [process()] is [pass]: ascend over the snapshot of the tree, stop at the first item
    that is not due, hand a due item to worker [wk id] unless that worker is busy
    ([default:] — the item is skipped and stays), [updateNext], delete + reinsert after
    the ascent.  A run of a task that the script does not park returns at once, so its
    worker is free again for the next item.

    External code enters as parameters: [nxt sched t] = [Schedule.Next] (cron library;
    hypothesis in the proofs: strictly increasing; instance [every_next] for
    "@every d"), [wk] = xxhash(id) mod #workers (a table computed by the driver),
    [parked] = which tasks the script's executor parks. *)
From Verif Require Import Base.Prelude.

Record item := { i_id : N; i_next : Z; i_off : Z; i_sched : Z }.
Definition i_when (it : item) : Z := (i_next it + i_off it)%Z.

Definition exec := (N * Z)%type.   (* Execute(id, scheduledFor) *)

Record state := {
  q : list item; swhen : option Z; timer : option Z; now : Z;
  busy : list (N * N); spin : bool }.

Definition init : state :=
  {| q := []; swhen := None; timer := None; now := 0; busy := []; spin := false |}.

Inductive ev :=
| Schedule (id : N) (sched off last : Z)
| Release (id : N)
| Advance (t : Z)
| Done (id : N).

(** item order of [Item.Less] *)
Definition item_lt (a b : item) : bool :=
  (i_when a <? i_when b)%Z || ((i_when a =? i_when b)%Z && (i_id a <? i_id b)%N).

Fixpoint qins (it : item) (l : list item) : list item :=
  match l with
  | [] => [it]
  | x :: r => if item_lt it x then it :: l else x :: qins it r
  end.

Fixpoint qremove (id : N) (l : list item) : list item :=
  match l with
  | [] => []
  | x :: r => if N.eqb (i_id x) id then qremove id r else x :: qremove id r
  end.

Definition worker_busy (w : N) (b : list (N * N)) : bool := existsb (fun p => N.eqb (fst p) w) b.

Section Sched.
  Variable nxt : Z -> Z -> Z.          (* Schedule.Next *)
  Variable wk : N -> N.                (* worker of a task id *)
  Variable parked : N -> bool.         (* does the executor park runs of this task *)
  Variable fx : bool.                  (* false = code as is; true = sign repaired *)

  Definition upd_next (it : item) : item :=
    {| i_id := i_id it; i_next := nxt (i_sched it) (i_next it); i_off := i_off it; i_sched := i_sched it |}.

  (** the iterator of [process()]: (kept items, items to reinsert, executions, busy) *)
  Fixpoint pass_go (nw : Z) (b : list (N * N)) (l : list item)
    : list item * list item * list exec * list (N * N) :=
    match l with
    | [] => ([], [], [], b)
    | it :: r =>
        if (nw <? i_when it)%Z then (l, [], [], b)
        else if worker_busy (wk (i_id it)) b then
          let '(k, ins, ex, b') := pass_go nw b r in (it :: k, ins, ex, b')
        else
          let b1 := if parked (i_id it) then (wk (i_id it), i_id it) :: b else b in
          let '(k, ins, ex, b') := pass_go nw b1 r in
          (k, upd_next it :: ins, (i_id it, i_next it) :: ex, b')
    end.

  Definition pass (st : state) : state * list exec :=
    let '(k, ins, ex, b') := pass_go (now st) (busy st) (q st) in
    ({| q := fold_left (fun a it => qins it a) ins k; swhen := swhen st; timer := timer st;
        now := now st; busy := b'; spin := spin st |}, ex).

  (** output of the loop: executions and the delays of the timer re-arms it made *)
  Record out := { o_ex : list exec; o_rearm : list Z }.
  Definition out0 : out := {| o_ex := []; o_rearm := [] |}.
  Definition out_app (a b : out) : out :=
    {| o_ex := o_ex a ++ o_ex b; o_rearm := o_rearm a ++ o_rearm b |}.

  Definition set_idle (st : state) (w : option Z) (t : option Z) (sp : bool) : state :=
    {| q := q st; swhen := w; timer := t; now := now st; busy := busy st; spin := sp |}.

  (** the [case <-s.timer.C:] arm; entered with the timer fired *)
  Fixpoint loop (fuel : nat) (st : state) : state * out :=
    match fuel with
    | O => (set_idle st (swhen st) (timer st) true, out0)
    | S f =>
        match q st with
        | [] => (set_idle st None (timer st) false, out0)
        | it :: _ =>
            if (now st <? i_when it)%Z then
              (* s.timer.Reset(ts.Sub(it.When())): now - when, a negative delay *)
              let d := if fx then (i_when it - now st)%Z else (now st - i_when it)%Z in
              (* repaired code also sets s.when = it.When() in this branch *)
              (set_idle st (if fx then Some (i_when it) else swhen st) (Some (now st + d)%Z) (d <=? 0)%Z,
               {| o_ex := []; o_rearm := [d] |})
            else
              let '(st1, ex) := pass st in
              match q st1 with
              | [] => (set_idle st1 None (timer st1) false, {| o_ex := ex; o_rearm := [] |})
              | it2 :: _ =>
                  let until := (i_when it2 - now st1)%Z in
                  if (0 <? until)%Z then
                    (set_idle st1 (Some (now st1 + until)%Z) (Some (now st1 + until)%Z) false,
                     {| o_ex := ex; o_rearm := [until] |})
                  else
                    match ex with
                    | [] => (* nothing could be handed over: the inner for spins *)
                        (set_idle st1 (Some (i_when it2)) (timer st1) true, out0)
                    | _ =>
                        let '(st2, o2) := loop f (set_idle st1 (Some (i_when it2)) (timer st1) false) in
                        (st2, out_app {| o_ex := ex; o_rearm := [] |} o2)
                    end
              end
        end
    end.

  Definition fuel_of (st : state) : nat :=
    S (fold_right (fun it a => (Z.to_nat (now st - i_when it + 1) + a)%nat) 0%nat (q st)).

  (** run the scheduler goroutine until it parks (or spins) *)
  Definition settle (st : state) : state * out :=
    if spin st then loop (fuel_of st) (set_idle st (swhen st) (timer st) false)
    else match timer st with
         | Some d => if (d <=? now st)%Z
                     then loop (fuel_of st) (set_idle st (swhen st) None false)
                     else (st, out0)
         | None => (st, out0)
         end.

  Definition set_now (st : state) (t : Z) : state :=
    {| q := q st; swhen := swhen st; timer := timer st; now := t; busy := busy st; spin := spin st |}.

  (** clock moves continuously from [now] to [t] *)
  Fixpoint advance (fuel : nat) (t : Z) (st : state) : state * out :=
    match fuel with
    | O => settle (set_now st t)
    | S f =>
        if spin st then settle (set_now st t)
        else match timer st with
             | Some d =>
                 if (d <=? t)%Z then
                   let '(st1, o1) := settle (set_now st (Z.max d (now st))) in
                   let '(st2, o2) := advance f t st1 in (st2, out_app o1 o2)
                 else (set_now st t, out0)
             | None => (set_now st t, out0)
             end
    end.

  Definition do_schedule (st : state) (id : N) (sched off last : Z) : state :=
    let nt := nxt sched last in
    let it := {| i_id := id; i_next := nt; i_off := off; i_sched := sched |} in
    let w := (nt + off)%Z in
    let rearm := match swhen st with None => true | Some sw => (w <? sw)%Z end in
    {| q := qins it (qremove id (q st));
       swhen := if rearm then Some w else swhen st;
       timer := if rearm then Some (Z.max w (now st)) else timer st;
       now := now st; busy := busy st; spin := spin st |}.

  Definition step (st : state) (e : ev) : state * out :=
    match e with
    | Schedule id sched off last => settle (do_schedule st id sched off last)
    | Release id =>
        settle {| q := qremove id (q st); swhen := swhen st; timer := timer st; now := now st;
                  busy := busy st; spin := spin st |}
    | Advance t => if (t <? now st)%Z then (st, out0)
                   else advance (S (Z.to_nat (t - now st))) t st
    | Done id =>
        settle {| q := q st; swhen := swhen st; timer := timer st; now := now st;
                  busy := filter (fun p => negb (N.eqb (snd p) id)) (busy st); spin := spin st |}
    end.

  (** observation after an event *)
  Record obs := { b_ex : list exec; b_when : option Z; b_spin : bool; b_neg : bool }.

  Definition neg_rearm (o : out) : bool := existsb (fun d => (d <=? 0)%Z) (o_rearm o).

  Definition obs_of (st : state) (o : out) : obs :=
    {| b_ex := o_ex o; b_when := swhen st; b_spin := spin st; b_neg := neg_rearm o |}.

  Fixpoint trace (st : state) (evs : list ev) : list obs :=
    match evs with
    | [] => []
    | e :: r => let '(st', o) := step st e in obs_of st' o :: trace st' r
    end.

  Fixpoint run (st : state) (evs : list ev) : state :=
    match evs with
    | [] => st
    | e :: r => run (fst (step st e)) r
    end.

  (** * the property as an independent executable specification of a trace

      Book-keeping that knows nothing about the tree, the timer or the loop: for each
      scheduled task the next scheduled time that has not run yet ([p_next]); which
      tasks have a parked run in flight. *)
  Record ptask := { p_id : N; p_next : Z; p_off : Z; p_sched : Z }.
  Record spec := { s_tasks : list ptask; s_now : Z; s_fly : list N }.

  Definition spec0 : spec := {| s_tasks := []; s_now := 0; s_fly := [] |}.

  Fixpoint premove (id : N) (l : list ptask) : list ptask :=
    match l with
    | [] => []
    | x :: r => if N.eqb (p_id x) id then premove id r else x :: premove id r
    end.
  Fixpoint pfind (id : N) (l : list ptask) : option ptask :=
    match l with
    | [] => None
    | x :: r => if N.eqb (p_id x) id then Some x else pfind id r
    end.

  Definition spec_event (s : spec) (e : ev) : spec :=
    match e with
    | Schedule id sched off last =>
        {| s_tasks := {| p_id := id; p_next := nxt sched last; p_off := off; p_sched := sched |}
                      :: premove id (s_tasks s); s_now := s_now s; s_fly := s_fly s |}
    | Release id => {| s_tasks := premove id (s_tasks s); s_now := s_now s; s_fly := s_fly s |}
    | Advance t => {| s_tasks := s_tasks s; s_now := Z.max t (s_now s); s_fly := s_fly s |}
    | Done id => {| s_tasks := s_tasks s; s_now := s_now s;
                    s_fly := filter (fun x => negb (N.eqb x id)) (s_fly s) |}
    end.

  Definition mem (id : N) (l : list N) : bool := existsb (N.eqb id) l.

  (** one observed execution: the task is scheduled (not released), it is exactly the
      next run of its schedule, it has come due, and no run of the same task is still
      in flight (order, once, release_stops, no_self_overlap) *)
  Definition spec_exec (s : spec) (x : exec) : option spec :=
    match pfind (fst x) (s_tasks s) with
    | None => None
    | Some p =>
        if Z.eqb (snd x) (p_next p) && (p_next p + p_off p <=? s_now s)%Z && negb (mem (fst x) (s_fly s))
        then Some {| s_tasks := {| p_id := p_id p; p_next := nxt (p_sched p) (p_next p);
                                   p_off := p_off p; p_sched := p_sched p |} :: premove (fst x) (s_tasks s);
                     s_now := s_now s;
                     s_fly := if parked (fst x) then fst x :: s_fly s else s_fly s |}
        else None
    end.

  Fixpoint spec_execs (s : spec) (xs : list exec) : option spec :=
    match xs with
    | [] => Some s
    | x :: r => match spec_exec s x with Some s' => spec_execs s' r | None => None end
    end.

  (** at a quiescent point every due run has been started, unless its worker is
      occupied by a run in flight *)
  Definition blocked (s : spec) (id : N) : bool :=
    existsb (fun f => N.eqb (wk f) (wk id)) (s_fly s).
  Definition spec_live (s : spec) : bool :=
    forallb (fun p => blocked s (p_id p) || (s_now s <? p_next p + p_off p)%Z) (s_tasks s).

  (** When() = the earliest pending due time, zero time when nothing is scheduled *)
  Definition min_due (l : list ptask) : option Z :=
    fold_right (fun p a => match a with None => Some (p_next p + p_off p)%Z
                                        | Some m => Some (Z.min m (p_next p + p_off p)) end) None l.
  Definition optZ_eqb := option_eqb Z.eqb.
  Definition spec_when (s : spec) (w : option Z) : bool := optZ_eqb w (min_due (s_tasks s)).

  (** safety part (order / once / release / overlap) and full oracle of a trace *)
  Fixpoint spec_safe (s : spec) (evs : list ev) (os : list obs) : bool :=
    match evs, os with
    | [], [] => true
    | e :: er, o :: or =>
        match spec_execs (spec_event s e) (b_ex o) with
        | Some s' => spec_safe s' er or
        | None => false
        end
    | _, _ => false
    end.

  (** order / once / release / overlap + every due run started at quiescence *)
  Fixpoint spec_core (s : spec) (evs : list ev) (os : list obs) : bool :=
    match evs, os with
    | [], [] => true
    | e :: er, o :: or =>
        match spec_execs (spec_event s e) (b_ex o) with
        | Some s' => spec_live s' && spec_core s' er or
        | None => false
        end
    | _, _ => false
    end.

  Fixpoint spec_full (s : spec) (evs : list ev) (os : list obs) : bool :=
    match evs, os with
    | [], [] => true
    | e :: er, o :: or =>
        match spec_execs (spec_event s e) (b_ex o) with
        | Some s' => spec_live s' && spec_when s' (b_when o) && negb (b_neg o) && spec_full s' er or
        | None => false
        end
    | _, _ => false
    end.
End Sched.

(** "@every d" *)
Definition every_next (d t : Z) : Z := (t + d)%Z.

(** * correspondence case *)
Definition exec_eqb (a b : exec) : bool := N.eqb (fst a) (fst b) && Z.eqb (snd a) (snd b).

Fixpoint tbl_get (d : N) (k : N) (l : list (N * N)) : N :=
  match l with
  | [] => d
  | (k', v) :: r => if N.eqb k k' then v else tbl_get d k r
  end.

(** executions are compared per task: the interleaving of different tasks' runs on
    different workers is not determined by the code *)
Definition proj (id : N) (xs : list exec) : list exec := filter (fun x => N.eqb (fst x) id) xs.

Definition obs_same (ids : list N) (a b : obs) : bool :=
  forallb (fun id => list_eqb exec_eqb (proj id (b_ex a)) (proj id (b_ex b))) ids
  && Nat.eqb (length (b_ex a)) (length (b_ex b))
  && optZ_eqb (b_when a) (b_when b) && Bool.eqb (b_spin a) (b_spin b) && Bool.eqb (b_neg a) (b_neg b).

Record case := {
  c_workers : list (N * N);      (* task id -> worker index (xxhash mod #workers) *)
  c_parked : list N;             (* tasks whose runs the executor parks until Done *)
  c_evs : list ev;
  c_obs : list obs }.            (* what the real scheduler showed after each event *)

Definition ev_ids (evs : list ev) : list N :=
  flat_map (fun e => match e with Schedule id _ _ _ => [id] | Release id => [id] | Done id => [id] | _ => [] end) evs.

Definition check (c : case) : verdict :=
  let wk := fun id => tbl_get id id (c_workers c) in
  let pk := fun id => mem id (c_parked c) in
  let m := trace every_next wk pk true init (c_evs c) in
  let ids := ev_ids (c_evs c) in
  let same := list_eqb (obs_same ids) (c_obs c) m in
  let ok := spec_full every_next wk pk spec0 (c_evs c) (c_obs c) in
  (* a failure of the core part (order, once, release, overlap, liveness, NO SPIN) is never
     attributed to a known finding: only When() mismatches that the model reproduces
     (When() stale between a Release/re-Schedule of the earliest task and the next timer
     fire) get verdict 3 *)
  let core := spec_core every_next wk pk spec0 (c_evs c) (c_obs c)
              && forallb (fun o => negb (b_neg o)) (c_obs c) in
  judge (same && core) ok.
