package main

import (
	"encoding/binary"
	"fmt"
	"math/rand/v2"

	"github.com/influxdata/influxdb/v2/pkg/encoding/simple8b"
	jw "github.com/jwilder/encoding/simple8b"
	"verifh/vh"
)

type s8bCase struct {
	Vals    []uint64 `json:"vals"`
	EAll    []uint64 `json:"impl_encode_all,omitempty"`
	EAllOK  bool     `json:"impl_encode_all_ok"`
	EJw     []uint64 `json:"impl_jw_encode_all,omitempty"`
	EJwOK   bool     `json:"impl_jw_encode_all_ok"`
	EStr    []uint64 `json:"impl_encoder_words,omitempty"`
	EStrOK  bool     `json:"impl_encoder_ok"`
	OneW    uint64   `json:"impl_encode_word"`
	OneN    int      `json:"impl_encode_n"`
	OneOK   bool     `json:"impl_encode_ok"`
	DAll    []uint64 `json:"impl_decode_all"`
	DBytes  []uint64 `json:"impl_decode_bytes"`
	DJw     []uint64 `json:"impl_jw_decode_all"`
	DStream []uint64 `json:"impl_decoder_stream"`
	Count   int      `json:"impl_count_bytes"`
}

func cp(v []uint64) []uint64 { return append([]uint64(nil), v...) }

func wordsToBytes(ws []uint64) []byte {
	b := make([]byte, 8*len(ws))
	for i, w := range ws {
		binary.BigEndian.PutUint64(b[8*i:], w)
	}
	return b
}
func bytesToWords(b []byte) []uint64 {
	ws := make([]uint64, len(b)/8)
	for i := range ws {
		ws[i] = binary.BigEndian.Uint64(b[8*i:])
	}
	return ws
}

func runS8b(w *vh.W, c *jcase) {
	s := c.S8b
	idx := w.Len()
	p := vh.Guard(func() {
		// in-repo EncodeAll (destroys its input)
		if ws, err := simple8b.EncodeAll(cp(s.Vals)); err == nil {
			s.EAll, s.EAllOK = cp(ws), true
		} else {
			s.EAll, s.EAllOK = nil, false
		}
		// jwilder EncodeAll (what IntegerEncoder.encodePacked calls)
		if ws, err := jw.EncodeAll(cp(s.Vals)); err == nil {
			s.EJw, s.EJwOK = cp(ws), true
		} else {
			s.EJw, s.EJwOK = nil, false
		}
		// in-repo streaming Encoder
		enc := simple8b.NewEncoder()
		s.EStrOK = true
		for _, v := range s.Vals {
			if err := enc.Write(v); err != nil {
				s.EStrOK = false
				break
			}
		}
		var sb []byte
		if s.EStrOK {
			b, err := enc.Bytes()
			if err != nil {
				s.EStrOK = false
			} else {
				sb = append([]byte(nil), b...)
				s.EStr = bytesToWords(sb)
			}
		}
		if !s.EStrOK {
			s.EStr = nil
		}
		// Encode: one word
		ow, on, err := simple8b.Encode(cp(s.Vals))
		s.OneW, s.OneN, s.OneOK = ow, on, err == nil
		if err != nil {
			s.OneW, s.OneN = 0, 0
		}
		// decoders
		s.DAll, s.DBytes, s.DJw, s.DStream, s.Count = []uint64{}, []uint64{}, []uint64{}, []uint64{}, 0
		if s.EAllOK {
			eb := wordsToBytes(s.EAll)
			n, err := simple8b.CountBytes(eb)
			if err != nil {
				w.Fail(idx, "CountBytes failed on EncodeAll output: "+err.Error(), "")
			}
			s.Count = n
			dst := make([]uint64, n+240)
			k, err := simple8b.DecodeAll(dst, s.EAll)
			if err != nil {
				w.Fail(idx, "DecodeAll failed on EncodeAll output: "+err.Error(), "")
			}
			s.DAll = cp(dst[:k])
			dst2 := make([]uint64, n+240)
			k2, err := simple8b.DecodeBytesBigEndian(dst2, eb)
			if err != nil {
				w.Fail(idx, "DecodeBytesBigEndian failed on EncodeAll output: "+err.Error(), "")
			}
			s.DBytes = cp(dst2[:k2])
		}
		if s.EJwOK {
			n, _ := jw.CountBytes(wordsToBytes(s.EJw))
			dst := make([]uint64, n+480)
			k, err := jw.DecodeAll(dst, s.EJw)
			if err != nil {
				w.Fail(idx, "jwilder DecodeAll failed: "+err.Error(), "")
			}
			s.DJw = cp(dst[:k])
		}
		if s.EStrOK {
			dec := simple8b.NewDecoder(sb)
			for dec.Next() {
				s.DStream = append(s.DStream, dec.Read())
				if len(s.DStream) > len(s.Vals)+1000 {
					w.Fail(idx, "Decoder yields more values than were encoded", "")
					break
				}
			}
		}
	})
	if p != "" {
		w.Fail(idx, "panic in simple8b: "+p, "")
	}
	one := "None"
	if s.OneOK {
		one = vh.Some(vh.Pair(vh.N(s.OneW), vh.N(uint64(s.OneN))))
	}
	var l lets
	t := l.wrap(fmt.Sprintf("CS8b %s %s %s %s %s %s %s %s %s %s", l.u64s(s.Vals),
		l.optU64s(s.EAll, s.EAllOK), l.optU64s(s.EJw, s.EJwOK), l.optU64s(s.EStr, s.EStrOK), one,
		l.u64s(s.DAll), l.u64s(s.DBytes), l.u64s(s.DJw), l.u64s(s.DStream), vh.N(uint64(s.Count))))
	bad := false
	for _, v := range s.Vals {
		if v > simple8b.MaxValue {
			bad = true
		}
	}
	w.Add(t, c, len(s.Vals) >= 2 || bad, "")
	w.Count("kind", "s8b")
	w.Count("s8b.len", lenClass(len(s.Vals)))
	w.Count("s8b.packable", fmt.Sprint(!bad))
}

func fixedS8b() []jcase {
	mk := func(v []uint64) jcase { return jcase{Kind: "s8b", S8b: &s8bCase{Vals: v}} }
	rep := func(x uint64, n int) []uint64 {
		v := make([]uint64, n)
		for i := range v {
			v[i] = x
		}
		return v
	}
	cat := func(a ...[]uint64) []uint64 {
		var v []uint64
		for _, x := range a {
			v = append(v, x...)
		}
		return v
	}
	cs := []jcase{
		mk(nil), mk([]uint64{0}), mk([]uint64{1}), mk([]uint64{1<<60 - 1}), mk([]uint64{1 << 60}),
		mk([]uint64{1<<64 - 1}), mk([]uint64{3, 1 << 60, 4}), mk([]uint64{3, 4, 1 << 63}),
		mk(rep(1, 119)), mk(rep(1, 120)), mk(rep(1, 121)), mk(rep(1, 239)), mk(rep(1, 240)), mk(rep(1, 241)),
		mk(rep(1, 360)), mk(rep(1, 480)),
		mk(cat(rep(1, 240), []uint64{5})), mk(cat(rep(1, 120), []uint64{5})), mk(cat(rep(1, 119), []uint64{5})),
		mk(cat(rep(1, 239), []uint64{0})), mk(cat([]uint64{7}, rep(1, 240))), mk(cat(rep(1, 130), []uint64{2}, rep(1, 130))),
		mk(cat(rep(1, 240), []uint64{1 << 60})), mk(cat(rep(1, 500), []uint64{1 << 61}, rep(1, 10))),
	}
	// every selector: exactly n values of the max width, n-1, n+1, and one value one bit too wide
	for i, k := range selBits {
		n := selN[i+2]
		cs = append(cs, mk(rep(1<<k-1, n)), mk(rep(1<<k-1, n+1)))
		if n > 1 {
			cs = append(cs, mk(rep(1<<k-1, n-1)))
		}
		if k < 60 {
			v := rep(1<<k-1, n)
			v[n-1] = 1 << k
			cs = append(cs, mk(v))
			v2 := rep(0, n)
			v2[0] = 1 << k
			cs = append(cs, mk(v2))
		}
	}
	return cs
}

func genS8b(r *rand.Rand, big bool) jcase {
	n := genLen(r, big)
	v := genPackVals(r, n)
	if n > 0 && r.IntN(8) == 0 { // malformed stream: one value that cannot be packed
		v[r.IntN(n)] = 1<<60 + r.Uint64()>>(4+uint(r.IntN(60)))
	}
	return jcase{Kind: "s8b", S8b: &s8bCase{Vals: v}}
}
