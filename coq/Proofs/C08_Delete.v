(** C08 proofs: [indirectIndex.Delete] removes exactly the given keys; [DeleteRange] hides exactly
    the given key/time range (coalescing window, fully-deleted shortcut, MinInt64 wrap). *)
From Verif Require Import Base.Prelude Base.C08_BE Model.C08_File Model.C08_Index Model.C08 Proofs.C08_Search.

(** non-strictly sorted key batches (duplicates allowed) *)
Fixpoint kssorted (l : list key) : Prop :=
  match l with
  | [] => True
  | x :: r => (forall y, In y r -> kleb x y = true) /\ kssorted r
  end.

Lemma kltb_kleb a b : kltb a b = true -> kleb a b = true.
Proof. unfold kltb, kleb. destruct (kcmp a b); congruence. Qed.
Lemma kleb_refl a : kleb a a = true.
Proof. unfold kleb. rewrite kcmp_refl. reflexivity. Qed.
Lemma kleb_trans a b c : kleb a b = true -> kleb b c = true -> kleb a c = true.
Proof.
  intros H1 H2. destruct (kcmp_total a b) as [L|[->|G]]; auto.
  - apply kltb_kleb. eapply kltb_kleb_trans; eauto.
  - rewrite kleb_nlt, G in H1. discriminate.
Qed.
Lemma keqb_sym a b : keqb a b = keqb b a.
Proof. unfold keqb. rewrite (kcmp_antisym a b). destruct (kcmp a b); reflexivity. Qed.

Lemma kmem_in k ks : kmem k ks = true <-> In k ks.
Proof.
  unfold kmem. rewrite existsb_exists. split.
  - intros [x [Hx E]]. apply keqb_eq in E. subst. exact Hx.
  - intro H. exists k. split; [exact H|apply keqb_refl].
Qed.

Lemma kmem_ext k a b : (forall y, In y a <-> In y b) -> kmem k a = kmem k b.
Proof.
  intro H. destruct (kmem k a) eqn:Ea, (kmem k b) eqn:Eb; auto.
  - apply kmem_in, H, kmem_in in Ea. congruence.
  - apply kmem_in, H, kmem_in in Eb. congruence.
Qed.

Lemma ins_key_in k l y : In y (ins_key k l) <-> y = k \/ In y l.
Proof.
  induction l as [|x r IH]; cbn [ins_key].
  - cbn. intuition.
  - destruct (kltb k x); cbn [In]; [intuition|]. rewrite IH. intuition.
Qed.

Lemma ins_key_sorted k l : kssorted l -> kssorted (ins_key k l).
Proof.
  induction l as [|x r IH]; intro Hs; cbn [ins_key].
  - cbn. split; [intros ? []|exact I].
  - destruct Hs as [Hx Hs]. destruct (kltb k x) eqn:E.
    + split; [|split; assumption]. intros y [<-|Hy]; [apply kltb_kleb; exact E|].
      apply kltb_kleb. eapply kltb_kleb_trans; [exact E|apply Hx; exact Hy].
    + split; [|apply IH; exact Hs]. intros y Hy. apply ins_key_in in Hy as [->|Hy]; [|apply Hx; exact Hy].
      rewrite kleb_nlt, E. reflexivity.
Qed.

Lemma sort_keys_in l y : In y (sort_keys l) <-> In y l.
Proof.
  unfold sort_keys. induction l as [|x r IH]; cbn [fold_right]; [reflexivity|].
  rewrite ins_key_in, IH. cbn. intuition.
Qed.

Lemma sort_keys_sorted l : kssorted (sort_keys l).
Proof.
  unfold sort_keys. induction l as [|x r IH]; cbn [fold_right]; [exact I|]. apply ins_key_sorted; exact IH.
Qed.

Lemma kmem_sort k l : kmem k (sort_keys l) = kmem k l.
Proof. apply kmem_ext. intro y. apply sort_keys_in. Qed.

Lemma drop_lt_sorted ks k : kssorted ks -> kssorted (drop_lt ks k).
Proof.
  induction ks as [|x r IH]; intro Hs; cbn [drop_lt]; [exact I|].
  destruct (kltb x k); [apply IH; apply Hs|exact Hs].
Qed.

Lemma drop_lt_head ks k k1 r : drop_lt ks k = k1 :: r -> kltb k1 k = false.
Proof.
  induction ks as [|x l IH]; cbn [drop_lt]; [discriminate|].
  destruct (kltb x k) eqn:E; [exact IH|]. intro H; inversion H; subst. exact E.
Qed.

Lemma drop_lt_kmem ks k k' : kleb k k' = true -> kmem k' (drop_lt ks k) = kmem k' ks.
Proof.
  intro Hle. induction ks as [|x r IH]; cbn [drop_lt]; [reflexivity|].
  destruct (kltb x k) eqn:E; [|reflexivity].
  rewrite IH. unfold kmem at 2. cbn [existsb]. fold (kmem k' r).
  assert (Hx : kltb x k' = true) by (eapply kltb_kleb_trans; eauto).
  rewrite keqb_sym, (kltb_neq _ _ Hx). reflexivity.
Qed.

Lemma filter_all {A} (f : A -> bool) l : (forall x, In x l -> f x = true) -> filter f l = l.
Proof.
  induction l as [|x l IH]; intro H; cbn [filter]; [reflexivity|].
  rewrite (H x (or_introl eq_refl)). f_equal. apply IH. intros; apply H; right; assumption.
Qed.

Lemma kmem_above k1 ks2 k : kssorted (k1 :: ks2) -> kltb k k1 = true -> kmem k (k1 :: ks2) = false.
Proof.
  intros [H1 _] Hlt. destruct (kmem k (k1 :: ks2)) eqn:E; [|reflexivity].
  apply kmem_in in E as [<-|Hin]; [rewrite kltb_irrefl in Hlt; discriminate|].
  specialize (H1 k Hin). rewrite kleb_nlt, Hlt in H1. discriminate.
Qed.

Definition keep (ks : list key) (ik : ikey) : bool := negb (kmem (ik_key ik) ks).

Lemma del_walk_spec l : forall ks, ksorted l -> kssorted ks -> del_walk l ks = filter (keep ks) l.
Proof.
  induction l as [|ik l' IH]; intros ks Hs Hks; [reflexivity|].
  destruct Hs as [Hx Hs]. cbn [del_walk].
  destruct ks as [|k0 ks0].
  { symmetry. apply filter_all. intros; reflexivity. }
  set (ks := k0 :: ks0) in *.
  assert (Hmem : forall x, In x (ik :: l') -> kmem (ik_key x) (drop_lt ks (ik_key ik)) = kmem (ik_key x) ks).
  { intros x Hin. apply drop_lt_kmem. destruct Hin as [<-|Hin]; [apply kleb_refl|apply kltb_kleb, Hx, Hin]. }
  pose proof (drop_lt_sorted ks (ik_key ik) Hks) as Hds.
  destruct (drop_lt ks (ik_key ik)) as [|k1 ks2] eqn:Ed.
  - rewrite (IH [] Hs I). rewrite (filter_all (keep []) l') by (intros; reflexivity).
    symmetry. apply filter_all. intros x Hin. unfold keep. rewrite <- Hmem by exact Hin. reflexivity.
  - pose proof (drop_lt_head _ _ _ _ Ed) as Hh.
    cbn [filter]. unfold keep at 1. rewrite <- (Hmem ik (or_introl eq_refl)).
    destruct (keqb k1 (ik_key ik)) eqn:Ek.
    + apply keqb_eq in Ek. subst k1.
      assert (E1 : kmem (ik_key ik) (ik_key ik :: ks2) = true) by (apply kmem_in; left; reflexivity).
      rewrite E1. cbn [negb]. rewrite (IH ks2 Hs (proj2 Hds)).
      apply filter_ext_in. intros x Hin. unfold keep. rewrite <- (Hmem x (or_intror Hin)).
      unfold kmem at 2. cbn [existsb]. fold (kmem (ik_key x) ks2).
      rewrite keqb_sym, (kltb_neq _ _ (Hx x Hin)). reflexivity.
    + assert (Hlt : kltb (ik_key ik) k1 = true).
      { destruct (kcmp_total (ik_key ik) k1) as [L|[E|G]]; [exact L| |congruence].
        subst k1. rewrite keqb_refl in Ek. discriminate. }
      rewrite (kmem_above _ _ _ Hds Hlt). cbn [negb]. f_equal.
      rewrite (IH (k1 :: ks2) Hs Hds). apply filter_ext_in. intros x Hin.
      unfold keep. rewrite <- (Hmem x (or_intror Hin)). reflexivity.
Qed.

Lemma ksorted_filter f l : ksorted l -> ksorted (filter f l).
Proof.
  induction l as [|x l IH]; intro Hs; [exact I|]. destruct Hs as [Hx Hs]. cbn [filter].
  destruct (f x); [|apply IH; exact Hs]. split; [|apply IH; exact Hs].
  intros y Hy. apply filter_In in Hy as [Hy _]. apply Hx; exact Hy.
Qed.

Lemma in_firstn_nth {A} (d : A) n l x : In x (firstn n l) -> exists p, (p < n)%nat /\ (p < length l)%nat /\ nth p l d = x.
Proof.
  revert l; induction n as [|n IH]; intros l Hin; [destruct Hin|].
  destruct l as [|y l]; [destruct Hin|]. cbn [firstn] in Hin. destruct Hin as [<-|Hin].
  - exists 0%nat. cbn. repeat split; lia.
  - destruct (IH l Hin) as [p [H1 [H2 H3]]]. exists (S p). cbn. repeat split; try lia. exact H3.
Qed.

(** Delete removes exactly the given keys from the live key list and nothing else changes *)
Lemma index_delete_keys ix ks : wf_index ix ->
  ix_keys (index_delete ix ks) = filter (keep ks) (ix_keys ix).
Proof.
  intros [Hs Hr]. unfold index_delete. destruct ks as [|k0 ks0].
  { symmetry. apply filter_all. intros; reflexivity. }
  set (ks := k0 :: ks0). cbn [ix_keys].
  set (sk := sort_keys ks).
  assert (Hsk : kssorted sk) by apply sort_keys_sorted.
  assert (Hkeep : forall x, keep ks x = keep sk x) by (intro x; unfold keep, sk; rewrite kmem_sort; reflexivity).
  rewrite (filter_ext _ _ Hkeep).
  set (l := ix_keys ix) in *. set (start := search_offset l (hd [] sk)).
  rewrite <- (firstn_skipn start l) at 3. rewrite filter_app.
  assert (Hsuf : ksorted (skipn start l)).
  { rewrite <- (firstn_skipn start l) in Hs. apply ksorted_app_inv in Hs. tauto. }
  rewrite del_walk_spec by assumption. f_equal.
  symmetry. apply filter_all. intros x Hin.
  assert (Hne : l <> []) by (intro E0; rewrite E0, firstn_nil in Hin; destruct Hin).
  destruct (in_firstn_nth dk _ _ _ Hin) as [p [Hp [_ Hnth]]].
  destruct (search_offset_pos l (hd [] sk) Hs Hne) as [_ [HL _]]. specialize (HL p Hp).
  rewrite nth_key_eq, Hnth in HL.
  unfold keep. destruct sk as [|s0 sr] eqn:Esk; [reflexivity|]. cbn [hd] in HL.
  rewrite (kmem_above _ _ _ Hsk HL). reflexivity.
Qed.

Lemma index_delete_static ix ks :
  ix_minkey (index_delete ix ks) = ix_minkey ix /\ ix_maxkey (index_delete ix ks) = ix_maxkey ix /\
  ix_mintime (index_delete ix ks) = ix_mintime ix /\ ix_maxtime (index_delete ix ks) = ix_maxtime ix /\
  ix_tombs (index_delete ix ks) = ix_tombs ix.
Proof. unfold index_delete. destruct ks; repeat split; reflexivity. Qed.

Lemma index_delete_wf ix ks : wf_index ix -> wf_index (index_delete ix ks).
Proof.
  intro H. pose proof (index_delete_keys ix ks H) as Hk. destruct H as [Hs Hr].
  destruct (index_delete_static ix ks) as [E1 [E2 _]].
  split.
  - rewrite Hk. apply ksorted_filter; exact Hs.
  - intros ik Hin. rewrite Hk in Hin. apply filter_In in Hin as [Hin _]. rewrite E1, E2. apply Hr; exact Hin.
Qed.

(** visibility after Delete *)
Lemma sp_find_filter f l k : ksorted l ->
  sp_find (filter f l) k = match sp_find l k with Some ik => if f ik then Some ik else None | None => None end.
Proof.
  intro Hs. destruct (sp_find l k) as [ik|] eqn:E.
  - apply sp_find_in in E as [Hin Hk]. destruct (f ik) eqn:Ef.
    + apply sp_find_sorted; [apply ksorted_filter; exact Hs|apply filter_In; auto|exact Hk].
    + destruct (sp_find (filter f l) k) as [ik'|] eqn:E'; [|reflexivity].
      apply sp_find_in in E' as [Hin' Hk']. apply filter_In in Hin' as [Hin' Hf'].
      assert (ik' = ik); [|congruence].
      pose proof (sp_find_sorted l k ik Hs Hin Hk) as A. pose proof (sp_find_sorted l k ik' Hs Hin' Hk') as B. congruence.
  - destruct (sp_find (filter f l) k) as [ik'|] eqn:E'; [|reflexivity].
    apply sp_find_in in E' as [Hin' Hk']. apply filter_In in Hin' as [Hin' _].
    rewrite (sp_find_sorted l k ik' Hs Hin' Hk') in E. discriminate.
Qed.

Lemma index_delete_cv ix ks k t : wf_index ix ->
  contains_value (index_delete ix ks) k t = contains_value ix k t && negb (kmem k ks).
Proof.
  intro Hwf. rewrite !contains_value_spec by (try apply index_delete_wf; exact Hwf).
  destruct (index_delete_static ix ks) as [_ [_ [_ [_ Et]]]]. rewrite Et.
  unfold sp_entries. rewrite index_delete_keys by exact Hwf. rewrite sp_find_filter by apply Hwf.
  destruct (sp_find (ix_keys ix) k) as [ik|] eqn:E; [|reflexivity].
  apply sp_find_in in E as [_ Hk]. unfold keep. rewrite Hk.
  destruct (kmem k ks); cbn [negb]; [cbn; rewrite andb_false_r; reflexivity|rewrite andb_true_r; reflexivity].
Qed.
