(** C35 — well-formed sketches: canonical forms, [set_add]/[merge_keys] on ascending lists,
    preservation of well-formedness by [k_new]/[k_add]/[k_merge]/[count_touch], and the effect of
    [k_add] on the registers. *)
From Verif Require Import Base.Prelude Model.C35 Proofs.C35_regs_base Proofs.C35_regs_iface.
Local Open Scope N_scope.

(** * ascending lists *)
Lemma asc_weaken : forall l lo lo', lo' <= lo -> asc lo l -> asc lo' l.
Proof.
  destruct l as [|x r]; cbn [asc]; intros lo lo' L H; [exact H|].
  destruct H as (A & B & C). split; [lia|]. split; assumption.
Qed.

Lemma asc_In : forall l lo x, asc lo l -> In x l -> lo <= x /\ x < two32.
Proof.
  induction l as [|y r IH]; intros lo x H Hin; [destruct Hin|].
  cbn [asc] in H. destruct H as (A & B & C). destruct Hin as [E|Hin].
  - subst. split; assumption.
  - destruct (IH _ _ C Hin). split; [lia|assumption].
Qed.

Lemma asc_last : forall l lo, asc lo l -> last l 0 < two32.
Proof.
  induction l as [|y r IH]; intros lo H.
  - reflexivity.
  - cbn [asc] in H. destruct H as (A & B & C). destruct r as [|z r]; [exact B|].
    change (last (y :: z :: r) 0) with (last (z :: r) 0). eapply IH; exact C.
Qed.

(** * [set_add] *)
Lemma set_add_In x : forall s y, In y (set_add x s) <-> y = x \/ In y s.
Proof.
  induction s as [|z r IH]; intro y; cbn [set_add In].
  - intuition congruence.
  - destruct (x <? z); [cbn [In]; intuition congruence|]. destruct (N.eqb_spec x z).
    + subst. cbn [In]. intuition congruence.
    + cbn [In]. rewrite IH. intuition congruence.
Qed.

Lemma set_add_asc x : forall s lo, asc lo s -> lo <= x -> x < two32 -> asc lo (set_add x s).
Proof.
  induction s as [|z r IH]; intros lo H L U; cbn [set_add].
  - cbn [asc]. auto.
  - cbn [asc] in H. destruct H as (A & B & C). destruct (N.ltb_spec x z).
    + cbn [asc]. split; [assumption|]. split; [assumption|]. split; [lia|]. split; assumption.
    + destruct (N.eqb_spec x z).
      * cbn [asc]. auto.
      * cbn [asc]. split; [assumption|]. split; [assumption|]. apply IH; [assumption|lia|assumption].
Qed.

Lemma set_add_length x : forall s, (length (set_add x s) <= S (length s))%nat.
Proof.
  induction s as [|z r IH]; cbn [set_add length]; [lia|].
  destruct (x <? z); [cbn [length]; lia|]. destruct (x =? z); cbn [length]; lia.
Qed.

(** * [merge_keys] *)
Lemma merge_keys_nil_r a : merge_keys a [] = a.
Proof. destruct a; reflexivity. Qed.

Lemma merge_keys_cons x1 a' x2 b' :
  merge_keys (x1 :: a') (x2 :: b') =
  if x1 =? x2 then x1 :: merge_keys a' b'
  else if x2 <? x1 then x2 :: merge_keys (x1 :: a') b'
  else x1 :: merge_keys a' (x2 :: b').
Proof. reflexivity. Qed.

Lemma merge_keys_In : forall a b k, In k (merge_keys a b) <-> In k a \/ In k b.
Proof.
  induction a as [|x1 a' IHa]; intros b k.
  - cbn [merge_keys In]. tauto.
  - induction b as [|x2 b' IHb].
    + rewrite merge_keys_nil_r. cbn [In]. tauto.
    + rewrite merge_keys_cons. destruct (N.eqb_spec x1 x2).
      * subst. cbn [In]. rewrite IHa. tauto.
      * destruct (x2 <? x1).
        -- cbn [In] in *. rewrite IHb. tauto.
        -- cbn [In]. rewrite IHa. cbn [In]. tauto.
Qed.

Lemma merge_keys_asc : forall a b lo, asc lo a -> asc lo b -> asc lo (merge_keys a b).
Proof.
  induction a as [|x1 a' IHa]; intros b lo Ha Hb.
  - exact Hb.
  - revert lo Ha Hb. induction b as [|x2 b' IHb]; intros lo Ha Hb.
    + rewrite merge_keys_nil_r. exact Ha.
    + rewrite merge_keys_cons. cbn [asc] in Ha, Hb.
      destruct Ha as (A1 & A2 & A3), Hb as (B1 & B2 & B3).
      destruct (N.eqb_spec x1 x2).
      * subst. cbn [asc]. split; [assumption|]. split; [assumption|]. apply IHa; assumption.
      * destruct (N.ltb_spec x2 x1).
        -- cbn [asc]. split; [assumption|]. split; [assumption|].
           apply IHb; [|assumption]. cbn [asc]. split; [lia|]. split; assumption.
        -- cbn [asc]. split; [assumption|]. split; [assumption|].
           apply IHa; [assumption|]. cbn [asc]. split; [lia|]. split; assumption.
Qed.

Lemma merge_keys_length : forall a b, (length (merge_keys a b) <= length a + length b)%nat.
Proof.
  induction a as [|x1 a' IHa]; intro b.
  - cbn [merge_keys length]. lia.
  - induction b as [|x2 b' IHb].
    + rewrite merge_keys_nil_r. lia.
    + rewrite merge_keys_cons. destruct (x1 =? x2).
      * cbn [length]. specialize (IHa b'). lia.
      * destruct (x2 <? x1); cbn [length] in *; [lia|]. specialize (IHa (x2 :: b')). cbn [length] in IHa. lia.
Qed.

(** * byte length of the compressed list (crude bounds: 1..5 bytes per key) *)
Lemma varint_len_bounds : forall f x, (1 <= length (varint f x) /\ length (varint f x) <= S f)%nat.
Proof.
  induction f as [|f IH]; intro x; cbn [varint].
  - cbn [length]. lia.
  - destruct (x / 128 =? 0); cbn [length]; [lia|]. specialize (IH (x / 128)). lia.
Qed.

Lemma enc_keys_len_bounds : forall l last,
  (length l <= length (enc_keys last l) /\ length (enc_keys last l) <= 5 * length l)%nat.
Proof.
  induction l as [|x r IH]; intro lst; cbn [enc_keys length]; [lia|].
  rewrite app_length. specialize (IH x).
  pose proof (varint_len_bounds 4 ((x + two32 - lst) mod two32)). lia.
Qed.

(** * canonical forms *)
Definition sp (p : N) (tmp l : list N) : sketch :=
  {| k_p := p; k_sparse := true; k_tmp := tmp; k_cl := cl_of_keys l; k_dense := [] |}.
Definition dn (p : N) (d : list N) : sketch :=
  {| k_p := p; k_sparse := false; k_tmp := []; k_cl := cl_empty; k_dense := d |}.

(** structural well-formedness (what the algorithms need) *)
Definition wfs (s : sketch) : Prop :=
  4 <= k_p s /\ k_p s <= 18 /\
  if k_sparse s then
    asc 0 (k_tmp s) /\ (exists l, asc 0 l /\ k_cl s = cl_of_keys l) /\ k_dense s = []
  else length (k_dense s) = N.to_nat (2 ^ k_p s) /\ k_tmp s = [] /\ k_cl s = cl_empty.

(** reachable sketches are also small: at most [2 * 2^p] sparse keys (so the 4-byte length
    fields of [MarshalBinary] cannot overflow) *)
Definition wf (s : sketch) : Prop :=
  wfs s /\
  (k_sparse s = true -> cl_count (k_cl s) + N.of_nat (length (k_tmp s)) <= 2 * 2 ^ k_p s).

Lemma wf_wfs s : wf s -> wfs s.
Proof. intros [H _]; exact H. Qed.

Lemma wfs_sp p tmp l : 4 <= p -> p <= 18 -> asc 0 tmp -> asc 0 l -> wfs (sp p tmp l).
Proof.
  intros. unfold wfs, sp; cbn [k_p k_sparse k_tmp k_cl k_dense].
  split; [assumption|]. split; [assumption|]. split; [assumption|]. split; [|reflexivity].
  exists l. split; [assumption|reflexivity].
Qed.

Lemma wfs_dn p d : 4 <= p -> p <= 18 -> length d = N.to_nat (2 ^ p) -> wfs (dn p d).
Proof.
  intros. unfold wfs, dn; cbn [k_p k_sparse k_tmp k_cl k_dense]. auto.
Qed.

Lemma wfs_cases s : wfs s ->
  4 <= k_p s /\ k_p s <= 18 /\
  ((exists tmp l, s = sp (k_p s) tmp l /\ asc 0 tmp /\ asc 0 l) \/
   (exists d, s = dn (k_p s) d /\ length d = N.to_nat (2 ^ k_p s))).
Proof.
  destruct s as [p b tmp cl d]. unfold wfs; cbn [k_p k_sparse k_tmp k_cl k_dense].
  intros (A & B & C). split; [assumption|]. split; [assumption|]. destruct b.
  - left. destruct C as (C1 & (l & C2 & C3) & C4). subst. exists tmp, l. auto.
  - right. destruct C as (C1 & C2 & C3). subst. exists d. auto.
Qed.

Lemma wf_dn p d : wfs (dn p d) -> wf (dn p d).
Proof. intro H. split; [exact H|]. cbn [dn k_sparse]. discriminate. Qed.

Lemma sp_tmp p t l : k_tmp (sp p t l) = t. Proof. reflexivity. Qed.
Lemma sp_cl_b p t l : cl_b (k_cl (sp p t l)) = enc_keys 0 l. Proof. reflexivity. Qed.
Lemma sp_p p t l : k_p (sp p t l) = p. Proof. reflexivity. Qed.
Lemma dn_p p d : k_p (dn p d) = p. Proof. reflexivity. Qed.

Lemma to_normal_eq s :
  to_normal s =
  dn (k_p s) (fold_left (reg_update_key (k_p s)) (cl_keys (k_cl (merge_sparse s)))
                        (repeat 0 (N.to_nat (2 ^ k_p s)))).
Proof. unfold to_normal, merge_sparse, dn, k_m. destruct (k_tmp s); reflexivity. Qed.

Lemma k_add_sp_eq p tmp l x :
  k_add (sp p tmp l) x =
  let s0 := sp p (set_add (encode_hash p x) tmp) l in
  let s1 := if 2 ^ p <? N.of_nat (length (k_tmp s0)) * 100 then merge_sparse s0 else s0 in
  if 2 ^ p <? N.of_nat (length (cl_b (k_cl s1))) then to_normal (merge_sparse s1) else s1.
Proof. reflexivity. Qed.

Lemma k_add_dn p d x :
  k_add (dn p d) x = dn p (reg_update d (N.to_nat (dense_index p x)) (dense_rho p x)).
Proof. reflexivity. Qed.

Lemma regs_dn p d : regs (dn p d) = d.
Proof. reflexivity. Qed.

Section WithIface.
Variable I : iface.

Lemma merge_sparse_sp p tmp l : asc 0 l ->
  merge_sparse (sp p tmp l) = sp p [] (merge_keys l tmp).
Proof.
  intro Hl. unfold merge_sparse, sp; cbn [k_tmp k_p k_sparse k_cl k_dense].
  destruct tmp as [|t tmp].
  - rewrite merge_keys_nil_r. reflexivity.
  - rewrite (i_cl_keys I l Hl). reflexivity.
Qed.

Lemma to_normal_sp p tmp l : asc 0 l -> asc 0 tmp ->
  to_normal (sp p tmp l) = dn p (kregs p (merge_keys l tmp)).
Proof.
  intros Hl Ht. rewrite to_normal_eq, merge_sparse_sp by assumption.
  unfold kregs, zeros. rewrite sp_p. f_equal. f_equal.
  apply (i_cl_keys I). apply merge_keys_asc; assumption.
Qed.

Lemma regs_sp p tmp l : asc 0 l -> asc 0 tmp -> regs (sp p tmp l) = kregs p (merge_keys l tmp).
Proof.
  intros Hl Ht. unfold regs. change (k_sparse (sp p tmp l)) with true. cbv iota.
  rewrite to_normal_sp by assumption. reflexivity.
Qed.

(** the shapes [k_add] can produce from a sparse sketch *)
Lemma k_add_sp p tmp l x : asc 0 tmp -> asc 0 l -> encode_hash p x < two32 ->
  exists t1 l1, asc 0 t1 /\ asc 0 l1 /\
    (forall k, In k (merge_keys l1 t1) <-> k = encode_hash p x \/ In k (merge_keys l tmp)) /\
    (k_add (sp p tmp l) x = dn p (kregs p (merge_keys l1 t1)) \/
     (k_add (sp p tmp l) x = sp p t1 l1 /\
      N.of_nat (length (enc_keys 0 l1)) <= 2 ^ p /\ N.of_nat (length t1) * 100 <= 2 ^ p)).
Proof.
  intros Ht Hl He. rewrite k_add_sp_eq. cbv zeta.
  set (e := encode_hash p x) in *.
  assert (Ht' : asc 0 (set_add e tmp)) by (apply set_add_asc; [assumption|lia|assumption]).
  assert (Hm : forall k, In k (merge_keys l (set_add e tmp)) <-> k = e \/ In k (merge_keys l tmp)).
  { intro k. rewrite !merge_keys_In, set_add_In. tauto. }
  set (tmp' := set_add e tmp) in *. clearbody tmp'.
  assert (Hl' : asc 0 (merge_keys l tmp')) by (apply merge_keys_asc; assumption).
  rewrite sp_tmp.
  destruct (N.ltb_spec (2 ^ p) (N.of_nat (length tmp') * 100)) as [E1|E1].
  - rewrite merge_sparse_sp by assumption. rewrite sp_cl_b.
    exists [], (merge_keys l tmp'). split; [exact Logic.I|]. split; [assumption|].
    rewrite merge_keys_nil_r. split; [exact Hm|].
    destruct (N.ltb_spec (2 ^ p) (N.of_nat (length (enc_keys 0 (merge_keys l tmp'))))) as [E2|E2].
    + left. rewrite merge_sparse_sp by assumption. rewrite merge_keys_nil_r.
      rewrite to_normal_sp by (assumption || exact Logic.I). rewrite merge_keys_nil_r. reflexivity.
    + right. split; [reflexivity|]. split; [assumption|]. cbn [length]. lia.
  - rewrite sp_cl_b. exists tmp', l. split; [assumption|]. split; [assumption|]. split; [exact Hm|].
    destruct (N.ltb_spec (2 ^ p) (N.of_nat (length (enc_keys 0 l)))) as [E2|E2].
    + left. rewrite merge_sparse_sp by assumption.
      rewrite to_normal_sp by (assumption || exact Logic.I). rewrite merge_keys_nil_r. reflexivity.
    + right. split; [reflexivity|]. split; assumption.
Qed.

(** * preservation *)
Lemma wfs_new p s : k_new p = Some s -> wfs s.
Proof.
  unfold k_new. destruct (N.ltb_spec 18 p); [discriminate|]. destruct (N.ltb_spec p 4); [discriminate|].
  cbn [orb]. intro E. inversion E; subst; clear E.
  apply (wfs_sp p [] []); (assumption || exact Logic.I).
Qed.

Lemma k_new_sp p s : k_new p = Some s -> s = sp p [] [].
Proof.
  unfold k_new. destruct ((18 <? p) || (p <? 4))%bool; [discriminate|].
  intro E. inversion E. reflexivity.
Qed.

Lemma k_new_some p : 4 <= p -> p <= 18 -> k_new p = Some (sp p [] []).
Proof.
  intros A B. unfold k_new. destruct (N.ltb_spec 18 p); [lia|]. destruct (N.ltb_spec p 4); [lia|].
  reflexivity.
Qed.

Lemma k_new_none p : ~ (4 <= p /\ p <= 18) -> k_new p = None.
Proof.
  intros A. unfold k_new. destruct (N.ltb_spec 18 p); [reflexivity|]. destruct (N.ltb_spec p 4); [reflexivity|].
  lia.
Qed.

Lemma wf_new p s : k_new p = Some s -> wf s.
Proof.
  intro E. split; [eapply wfs_new; exact E|]. apply k_new_sp in E. subst.
  intros _. cbn [sp k_cl k_tmp k_p cl_of_keys cl_count length]. change (N.of_nat 0) with 0. lia.
Qed.

Lemma k_add_p s x : wfs s -> x < two64 -> k_p (k_add s x) = k_p s.
Proof.
  intros W Hx. destruct (wfs_cases s W) as (A & B & [(tmp & l & E & Ht & Hl)|(d & E & L)]).
  - set (p := k_p s) in *. clearbody p. subst s.
    destruct (k_add_sp p tmp l x Ht Hl (i_encode_lt I p x A B Hx))
      as (t1 & l1 & _ & _ & _ & [E|(E & _)]); rewrite E; reflexivity.
  - set (p := k_p s) in *. clearbody p. subst s. rewrite k_add_dn. reflexivity.
Qed.

Lemma wf_add s x : wf s -> x < two64 -> wf (k_add s x).
Proof.
  intros [W _] Hx. destruct (wfs_cases s W) as (A & B & [(tmp & l & E & Ht & Hl)|(d & E & L)]).
  - set (p := k_p s) in *. clearbody p. subst s.
    destruct (k_add_sp p tmp l x Ht Hl (i_encode_lt I p x A B Hx))
      as (t1 & l1 & Ht1 & Hl1 & _ & [E|(E & B1 & B2)]); rewrite E.
    + apply wf_dn, wfs_dn; [assumption..|]. apply kregs_length.
    + split; [apply wfs_sp; assumption|]. intros _.
      cbn [sp k_cl k_tmp k_p cl_of_keys cl_count].
      pose proof (enc_keys_len_bounds l1 0). set (m := 2 ^ p) in *. lia.
  - set (p := k_p s) in *. clearbody p. subst s. rewrite k_add_dn.
    apply wf_dn, wfs_dn; [assumption..|]. rewrite reg_update_length. exact L.
Qed.

Lemma wfs_add s x : wfs s -> x < two64 -> wfs (k_add s x).
Proof.
  intros W Hx. destruct (wfs_cases s W) as (A & B & [(tmp & l & E & Ht & Hl)|(d & E & L)]).
  - set (p := k_p s) in *. clearbody p. subst s.
    destruct (k_add_sp p tmp l x Ht Hl (i_encode_lt I p x A B Hx))
      as (t1 & l1 & Ht1 & Hl1 & _ & [E|(E & B1 & B2)]); rewrite E.
    + apply wfs_dn; [assumption..|]. apply kregs_length.
    + apply wfs_sp; assumption.
  - set (p := k_p s) in *. clearbody p. subst s. rewrite k_add_dn.
    apply wfs_dn; [assumption..|]. rewrite reg_update_length. exact L.
Qed.

(** [Add] on the registers: one dense update, whatever the representation *)
Lemma regs_add s x : wfs s -> x < two64 ->
  regs (k_add s x) =
  reg_update (regs s) (N.to_nat (dense_index (k_p s) x)) (dense_rho (k_p s) x).
Proof.
  intros W Hx. destruct (wfs_cases s W) as (A & B & [(tmp & l & E & Ht & Hl)|(d & E & L)]).
  - set (p := k_p s) in *. clearbody p. subst s.
    assert (R : regs (k_add (sp p tmp l) x) = kregs p (merge_keys l tmp ++ [encode_hash p x])).
    { destruct (k_add_sp p tmp l x Ht Hl (i_encode_lt I p x A B Hx))
        as (t1 & l1 & Ht1 & Hl1 & Hm & [E|(E & _)]); rewrite E.
      - rewrite regs_dn. apply kregs_ext. intro k. rewrite Hm, in_app_iff. cbn [In]. intuition congruence.
      - rewrite regs_sp by assumption. apply kregs_ext. intro k. rewrite Hm, in_app_iff. cbn [In].
        intuition congruence. }
    rewrite R, regs_sp by assumption. unfold kregs. rewrite fold_left_app. cbn [fold_left].
    unfold reg_update_key at 1. rewrite (i_decode_encode I p x A B Hx). reflexivity.
  - set (p := k_p s) in *. clearbody p. subst s. rewrite k_add_dn, !regs_dn. reflexivity.
Qed.

(** [mergeSparse] / [Count] / [toNormal] do not change the registers *)
Lemma count_touch_sp p tmp l : asc 0 l -> count_touch (sp p tmp l) = sp p [] (merge_keys l tmp).
Proof. intro Hl. unfold count_touch. change (k_sparse (sp p tmp l)) with true. cbv iota. apply merge_sparse_sp, Hl. Qed.

Lemma count_touch_dn p d : count_touch (dn p d) = dn p d.
Proof. reflexivity. Qed.

Lemma wf_touch s : wf s -> wf (count_touch s).
Proof.
  intros [W Bd]. destruct (wfs_cases s W) as (A & B & [(tmp & l & E & Ht & Hl)|(d & E & L)]).
  - set (p := k_p s) in *. clearbody p. subst s. rewrite count_touch_sp by assumption.
    split.
    + apply wfs_sp; [assumption..|exact Logic.I|]. apply merge_keys_asc; assumption.
    + intros _. specialize (Bd eq_refl). revert Bd.
      cbn [sp k_cl k_tmp k_p cl_of_keys cl_count length].
      pose proof (merge_keys_length l tmp). set (m := 2 ^ p) in *. lia.
  - set (p := k_p s) in *. clearbody p. subst s. rewrite count_touch_dn. split; assumption.
Qed.

Lemma wfs_touch s : wfs s -> wfs (count_touch s).
Proof.
  intros W. destruct (wfs_cases s W) as (A & B & [(tmp & l & E & Ht & Hl)|(d & E & L)]).
  - set (p := k_p s) in *. clearbody p. subst s. rewrite count_touch_sp by assumption.
    apply wfs_sp; [assumption..|exact Logic.I|]. apply merge_keys_asc; assumption.
  - set (p := k_p s) in *. clearbody p. subst s. rewrite count_touch_dn. assumption.
Qed.

Lemma regs_touch s : wfs s -> regs (count_touch s) = regs s.
Proof.
  intros W. destruct (wfs_cases s W) as (A & B & [(tmp & l & E & Ht & Hl)|(d & E & L)]).
  - set (p := k_p s) in *. clearbody p. subst s. rewrite count_touch_sp by assumption.
    rewrite !regs_sp; try assumption; try exact Logic.I; [|apply merge_keys_asc; assumption].
    rewrite merge_keys_nil_r. reflexivity.
  - set (p := k_p s) in *. clearbody p. subst s. reflexivity.
Qed.

Lemma count_touch_p s : k_p (count_touch s) = k_p s.
Proof. unfold count_touch, merge_sparse. destruct (k_sparse s); [|reflexivity]. destruct (k_tmp s); reflexivity. Qed.

Lemma count_touch_sparse s : k_sparse (count_touch s) = k_sparse s.
Proof. unfold count_touch, merge_sparse. destruct (k_sparse s) eqn:E; [|exact E]. destruct (k_tmp s); [exact E|reflexivity]. Qed.

Lemma count_touch_idem s : wfs s -> count_touch (count_touch s) = count_touch s.
Proof.
  intros W. destruct (wfs_cases s W) as (A & B & [(tmp & l & E & Ht & Hl)|(d & E & L)]).
  - set (p := k_p s) in *. clearbody p. subst s. rewrite count_touch_sp by assumption.
    rewrite count_touch_sp by (apply merge_keys_asc; assumption). rewrite merge_keys_nil_r. reflexivity.
  - set (p := k_p s) in *. clearbody p. subst s. reflexivity.
Qed.

Lemma regs_length s : wfs s -> length (regs s) = N.to_nat (2 ^ k_p s).
Proof.
  intros W. destruct (wfs_cases s W) as (A & B & [(tmp & l & E & Ht & Hl)|(d & E & L)]).
  - set (p := k_p s) in *. clearbody p. subst s. rewrite regs_sp by assumption. apply kregs_length.
  - set (p := k_p s) in *. clearbody p. subst s. rewrite regs_dn. exact L.
Qed.

End WithIface.
