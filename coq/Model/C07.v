(** C07 — Value encodings round-trip bit-exactly: correspondence cases and judge.
    The codec models live in Model/C07_s8b.v (simple8b), … ; this file only defines
    the [case] type (inputs + what the real implementation produced) and [check]. *)
From Verif Require Import Base.Prelude Model.C07_s8b Model.C07_int Model.C07_float Model.C07_str.
Local Open Scope N_scope.

Definition lN_eqb := list_eqb N.eqb.

(** run-length expansion used by the driver to write long byte strings compactly:
    [rle [(3, 97); (2, 0)]] = [97; 97; 97; 0; 0] *)
Definition rle (segs : list (N * N)) : list N :=
  flat_map (fun p => repeat (snd p) (N.to_nat (fst p))) segs.
Definition olN_eqb := option_eqb lN_eqb.

Inductive case :=
(** simple8b.  [e_all]/[e_jw]/[e_stream]: words produced by the in-repo EncodeAll, the
    jwilder EncodeAll (used by the scalar integer encoder) and Encoder.Write*/Bytes
    (None = error).  [e_one] = Encode(src) as (word, n).  [d_*]: what the real decoders
    (DecodeAll, DecodeBytesBigEndian, jwilder DecodeAll, Decoder.Next/Read) returned on the
    respective encoder's output ([] when the encoder failed); [cnt] = CountBytes. *)
| CS8b (vals : list N)
       (e_all e_jw e_stream : option (list N)) (e_one : option (N * N))
       (d_all d_bytes d_jw d_stream : list N) (cnt : N)
(** integer / unsigned (64-bit patterns).  [sb]/[bb]: bytes of the scalar IntegerEncoder and
    of Integer/UnsignedArrayEncodeAll (None = error); [d_xy]: what decoder x (s = scalar
    IntegerDecoder, b = batch *ArrayDecodeAll) returned on encoder y's bytes (None = error). *)
| CInt (vals : list N) (sb bb : option (list N)) (d_ss d_bs d_sb d_bb : option (list N))
(** timestamps: TimeEncoder / TimeArrayEncodeAll, TimeDecoder / TimeArrayDecodeAll *)
| CTime (vals : list N) (sb bb : option (list N)) (d_ss d_bs d_sb d_bb : option (list N))
(** booleans *)
| CBool (vals : list bool) (sb bb : option (list N)) (d_ss d_bs d_sb d_bb : option (list bool))
(** floats as IEEE-754 bit patterns: FloatEncoder / FloatArrayEncodeAll, FloatDecoder /
    FloatArrayDecodeAll *)
| CFloat (vals : list N) (sb bb : option (list N)) (d_ss d_bs d_sb d_bb : option (list N))
(** strings (byte lists).  [sp]/[bp]: header byte followed by the snappy-DECOMPRESSED payload
    of StringEncoder.Bytes() / StringArrayEncodeAll (the driver runs the real snappy.Decode);
    [d_xy]: strings returned by StringDecoder / StringArrayDecodeAll on the real bytes. *)
| CStr (vals : list (list N)) (sp bp : option (list N))
       (d_ss d_bs d_sb d_bb : option (list (list N)))
(** blocks.  [typ]: block type byte; [ts]: timestamps; [vals]: values (float bits / int64 /
    uint64 patterns / 0,1 for booleans); [s_tb s_vb b_tb b_vb]: outputs of the scalar and
    batch timestamp and value encoders run standalone; [sblk]/[bblk]: Values.Encode and
    Encode*ArrayBlock; [d_xy]: (timestamps, values) from DecodeBlock (s) / Decode*ArrayBlock
    (b) on the scalar (s) / batch (b) block. *)
| CBlock (typ : N) (ts vals : list N) (s_tb s_vb b_tb b_vb : list N) (sblk bblk : option (list N))
         (d_ss d_bs d_sb d_bb : option (list N * list N))
| CBlockS (ts : list N) (vals : list (list N)) (s_tb s_vb b_tb b_vb : list N)
          (sblk bblk : option (list N)) (d_ss d_bs d_sb d_bb : option (list N * list (list N))).

Definition words_or_nil (o : option (list N)) : list N :=
  match o with Some ws => ws | None => [] end.

Definition check_s8b vals e_all e_jw e_stream (e_one : option (N * N))
           d_all d_bytes d_jw d_stream cnt : verdict :=
  let m_all := encode_all vals in
  let m_jw := jw_encode_all vals in
  let m_stream := stream_encode vals in
  let m_one := option_map (fun p => (fst p, N.of_nat (snd p))) (encode1 vals) in
  let same :=
    olN_eqb e_all m_all && olN_eqb e_jw m_jw && olN_eqb e_stream m_stream
    && option_eqb (pair_eqb N.eqb N.eqb) e_one m_one
    && lN_eqb d_all (decode_all (words_or_nil m_all))
    && lN_eqb d_bytes (decode_all (words_or_nil m_all))
    && lN_eqb d_jw (decode_all (words_or_nil m_jw))
    && lN_eqb d_stream (decode_all (words_or_nil m_stream))
    && (cnt =? N.of_nat (count_words (words_or_nil m_all))) in
  let ok :=
    if packable vals then
      match e_all, e_jw, e_stream with
      | Some _, Some _, Some _ =>
          lN_eqb d_all vals && lN_eqb d_bytes vals && lN_eqb d_jw vals && lN_eqb d_stream vals
          && (cnt =? N.of_nat (length vals))
      | _, _, _ => false
      end
    else
      match e_all, e_jw, e_stream with
      | None, None, None => true
      | _, _, _ => false
      end in
  judge same ok.

Definition obind {A B} (o : option A) (f : A -> option B) : option B :=
  match o with Some x => f x | None => None end.

(** generic judge of a two-encoder / two-decoder codec over values of type [A] *)
Definition check_codec {A} (eqb : A -> A -> bool)
           (enc_s enc_b : list A -> option (list N))
           (dec_s dec_b : list N -> option (list A))
           (vals : list A) (sb bb : option (list N)) (d_ss d_bs d_sb d_bb : option (list A))
  : verdict :=
  let oeq := option_eqb (list_eqb eqb) in
  let m_sb := enc_s vals in
  let m_bb := enc_b vals in
  let same :=
    olN_eqb sb m_sb && olN_eqb bb m_bb
    && oeq d_ss (obind m_sb dec_s) && oeq d_bs (obind m_sb dec_b)
    && oeq d_sb (obind m_bb dec_s) && oeq d_bb (obind m_bb dec_b) in
  let ok :=
    match sb, bb with
    | Some _, Some _ =>
        oeq d_ss (Some vals) && oeq d_bs (Some vals) && oeq d_sb (Some vals) && oeq d_bb (Some vals)
    | _, _ => false
    end in
  judge same ok.

(** floats: a list containing a NaN must be rejected by both encoders, any other list
    must round-trip through all four encoder/decoder combinations *)
Definition check_float (vals : list N) (sb bb : option (list N))
           (d_ss d_bs d_sb d_bb : option (list N)) : verdict :=
  if existsb is_nan vals then
    let same := olN_eqb sb (float_encode_scalar vals) && olN_eqb bb (float_encode_batch vals) in
    let ok := match sb, bb with None, None => true | _, _ => false end in
    judge same ok
  else
    check_codec N.eqb float_encode_scalar float_encode_batch float_decode_scalar float_decode_batch
                vals sb bb d_ss d_bs d_sb d_bb.

(** blocks: the real block must be the framing of the standalone encoders' outputs, the
    model's [unpack_block] must split it back, and every decoder must return the input *)
Definition check_block {A} (eqb : A -> A -> bool) (typ : N) (ts : list N) (vals : list A)
           (s_tb s_vb b_tb b_vb : list N) (sblk bblk : option (list N))
           (d_ss d_bs d_sb d_bb : option (list N * list A)) : verdict :=
  let deq := option_eqb (pair_eqb lN_eqb (list_eqb eqb)) in
  let m_s := pack_block typ s_tb s_vb in
  let m_b := pack_block typ b_tb b_vb in
  let split_ok (blk tb vb : list N) :=
    match unpack_block blk with
    | Some (t, tb', vb') => (t =? typ) && lN_eqb tb' tb && lN_eqb vb' vb
    | None => false
    end in
  let same := olN_eqb sblk (Some m_s) && olN_eqb bblk (Some m_b)
              && split_ok m_s s_tb s_vb && split_ok m_b b_tb b_vb in
  let want := Some (ts, vals) in
  let ok := match sblk, bblk with
            | Some _, Some _ => deq d_ss want && deq d_bs want && deq d_sb want && deq d_bb want
            | _, _ => false
            end in
  judge same ok.

Definition str_id_encode (l : list (list N)) : option (list N) := Some (str_encode (fun b => b) l).
Definition str_id_decode (b : list N) : option (list (list N)) := str_decode (fun b => Some b) b.

Definition check (c : case) : verdict :=
  match c with
  | CStr vals sp bp d_ss d_bs d_sb d_bb =>
      check_codec lN_eqb str_id_encode str_id_encode str_id_decode str_id_decode
                  vals sp bp d_ss d_bs d_sb d_bb
  | CBlock typ ts vals s_tb s_vb b_tb b_vb sblk bblk d_ss d_bs d_sb d_bb =>
      check_block N.eqb typ ts vals s_tb s_vb b_tb b_vb sblk bblk d_ss d_bs d_sb d_bb
  | CBlockS ts vals s_tb s_vb b_tb b_vb sblk bblk d_ss d_bs d_sb d_bb =>
      check_block lN_eqb BlockString ts vals s_tb s_vb b_tb b_vb sblk bblk d_ss d_bs d_sb d_bb
  | CFloat vals sb bb d_ss d_bs d_sb d_bb => check_float vals sb bb d_ss d_bs d_sb d_bb
  | CInt vals sb bb d_ss d_bs d_sb d_bb =>
      check_codec N.eqb int_encode_scalar int_encode_batch int_decode_scalar int_decode_batch
                  vals sb bb d_ss d_bs d_sb d_bb
  | CTime vals sb bb d_ss d_bs d_sb d_bb =>
      check_codec N.eqb time_encode_scalar time_encode_batch time_decode_scalar time_decode_batch
                  vals sb bb d_ss d_bs d_sb d_bb
  | CBool vals sb bb d_ss d_bs d_sb d_bb =>
      check_codec Bool.eqb (fun l => Some (bool_encode_scalar l)) (fun l => Some (bool_encode l))
                  bool_decode bool_decode vals sb bb d_ss d_bs d_sb d_bb
  | CS8b vals e_all e_jw e_stream e_one d_all d_bytes d_jw d_stream cnt =>
      check_s8b vals e_all e_jw e_stream e_one d_all d_bytes d_jw d_stream cnt
  end.
