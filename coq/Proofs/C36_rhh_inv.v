(** C36 (rhh) — the robin-hood table invariant [TInv], its preservation by [tset] at the
    right place, and the correctness of the two probe loops ([index_loop], [insert_loop])
    on a table that satisfies it. *)
From Verif Require Import Base.Prelude Model.C36_rhh Proofs.C36_rhh_tbl.
From Coq Require Import ZifyBool ZifyNat ZifyN Permutation.
Local Open Scope N_scope.

Definition mk (h : N) (k : bytes) (v : N) : slot := {| s_hash := h; s_key := k; s_val := v |}.

Lemma mk_eta e : mk (s_hash e) (s_key e) (s_val e) = e.
Proof. destruct e; reflexivity. Qed.

Section Inv.
  Variable hashf : bytes -> N.
  Hypothesis hash_nz : forall k, hashf k <> 0.
  Variable cap : N.
  Hypothesis Hcap : 0 < cap.

  (** the first [d] slots of the probe path of hash [h] are occupied by elements that are
      at least as far from their home as the path index *)
  Definition path (t : list slot) (h d : N) : Prop :=
    forall j, j < d ->
      s_hash (tget t ((h mod cap + j) mod cap)) <> 0 /\
      j <= dist (s_hash (tget t ((h mod cap + j) mod cap))) ((h mod cap + j) mod cap) cap.

  Record TInv (t : list slot) : Prop := {
    ti_len : length t = N.to_nat cap;
    ti_canon : forall p, p < cap -> s_hash (tget t p) = 0 -> tget t p = empty_slot;
    ti_valid : forall p, p < cap -> s_hash (tget t p) <> 0 ->
               s_hash (tget t p) = hashf (s_key (tget t p));
    ti_distinct : forall p q, p < cap -> q < cap ->
               s_hash (tget t p) <> 0 -> s_hash (tget t q) <> 0 ->
               s_key (tget t p) = s_key (tget t q) -> p = q;
    ti_rh : forall p, p < cap -> s_hash (tget t p) <> 0 ->
            path t (s_hash (tget t p)) (dist (s_hash (tget t p)) p cap)
  }.

  Lemma TInv_alloc : TInv (h_alloc cap).
  Proof.
    constructor.
    - apply alloc_length.
    - intros; apply tget_alloc.
    - intros p _ H. rewrite tget_alloc in H. simpl in H. congruence.
    - intros p q _ _ H. rewrite tget_alloc in H. simpl in H. congruence.
    - intros p _ H. rewrite tget_alloc in H. simpl in H. congruence.
  Qed.

  Lemma TInv_tset t pos k v :
    TInv t -> pos < cap ->
    (forall p, p < cap -> p <> pos -> s_hash (tget t p) <> 0 -> s_key (tget t p) <> k) ->
    path t (hashf k) (dist (hashf k) pos cap) ->
    (s_hash (tget t pos) <> 0 -> dist (s_hash (tget t pos)) pos cap <= dist (hashf k) pos cap) ->
    TInv (tset t pos (mk (hashf k) k v)).
  Proof.
    intros HI Hpos Hfresh Hpath Hed.
    assert (Hlen : pos < N.of_nat (length t)) by (rewrite (ti_len _ HI); lia).
    assert (G : forall q, tget (tset t pos (mk (hashf k) k v)) q
                          = if N.eqb q pos then mk (hashf k) k v else tget t q)
      by (intros; apply tget_tset; auto).
    constructor.
    - rewrite tset_length. apply HI.
    - intros p Hp. rewrite G. destruct (N.eqb_spec p pos) as [E|E].
      + simpl. intros H. exfalso. eapply hash_nz; eauto.
      + apply HI; auto.
    - intros p Hp. rewrite G. destruct (N.eqb_spec p pos) as [E|E].
      + simpl. auto.
      + apply HI; auto.
    - intros p q Hp Hq. rewrite !G.
      destruct (N.eqb_spec p pos) as [E1|E1], (N.eqb_spec q pos) as [E2|E2]; simpl; intros H1 H2 H3.
      + congruence.
      + exfalso. apply (Hfresh q); auto.
      + exfalso. apply (Hfresh p); auto.
      + eapply ti_distinct; eauto.
    - intros p Hp. rewrite G. destruct (N.eqb_spec p pos) as [E|E].
      + cbn [mk s_hash]. intros _ j Hj. subst p.
        pose proof (dist_lt cap Hcap (hashf k) pos) as Hdl.
        assert (Hq : (hashf k mod cap + j) mod cap <> pos).
        { intros Eq. pose proof (cadd_dist cap Hcap (hashf k) pos Hpos) as E2.
          assert (j = dist (hashf k) pos cap); [|lia].
          apply (cadd_inj cap Hcap (hashf k)); [lia|lia|congruence]. }
        rewrite G. destruct (N.eqb_spec ((hashf k mod cap + j) mod cap) pos) as [E|_]; [tauto|].
        apply Hpath; auto.
      + intros Hocc j Hj. destruct (ti_rh _ HI p Hp Hocc j Hj) as [A B].
        rewrite G.
        destruct (N.eqb_spec ((s_hash (tget t p) mod cap + j) mod cap) pos) as [Eq|Eq].
        * cbn [mk s_hash]. split; [apply hash_nz|]. rewrite Eq in *. specialize (Hed A). lia.
        * split; auto.
  Qed.

  (** ** [index_loop] *)

  Lemma index_sound fuel t : forall pos d h k p,
    index_loop fuel cap t pos d h k = Some p ->
    s_hash (tget t p) <> 0 /\ s_key (tget t p) = k /\ (p = pos \/ p < cap).
  Proof.
    induction fuel as [|f IH]; intros pos d h k p; cbn [index_loop]; [discriminate|].
    destruct (N.eqb_spec (s_hash (tget t pos)) 0) as [E0|E0]; [discriminate|].
    destruct (N.ltb (dist (s_hash (tget t pos)) pos cap) d); [discriminate|].
    destruct (N.eqb (s_hash (tget t pos)) h && bytes_eqb (s_key (tget t pos)) k) eqn:Em.
    - intros E; inversion E; subst p. apply andb_true_iff in Em as [_ Em].
      apply bytes_eqb_eq in Em. auto.
    - intros E. apply IH in E as (A & B & C). repeat split; auto. right.
      destruct C as [->|C]; auto. apply succ_lt; auto.
  Qed.

  Lemma index_hit_gen t p0 k :
    TInv t -> p0 < cap -> s_hash (tget t p0) <> 0 -> s_key (tget t p0) = k ->
    forall n j fuel, N.of_nat n + j = dist (hashf k) p0 cap -> (n < fuel)%nat ->
    index_loop fuel cap t ((hashf k mod cap + j) mod cap) j (hashf k) k = Some p0.
  Proof.
    intros HI Hp0 Hocc Hkey.
    pose proof (ti_valid _ HI p0 Hp0 Hocc) as Hh. rewrite Hkey in Hh.
    pose proof (dist_lt cap Hcap (hashf k) p0) as Hdl.
    pose proof (cadd_dist cap Hcap (hashf k) p0 Hp0) as Hcd.
    induction n as [|n IH]; intros j fuel Hj Hf; (destruct fuel as [|f]; [lia|]); cbn [index_loop].
    - assert (j = dist (hashf k) p0 cap) by lia. subst j. rewrite Hcd.
      destruct (N.eqb_spec (s_hash (tget t p0)) 0) as [E0|E0]; [tauto|].
      rewrite Hh. rewrite N.ltb_irrefl, N.eqb_refl, Hkey, bytes_eqb_refl. reflexivity.
    - assert (Hjd : j < dist (hashf k) p0 cap) by lia.
      pose proof (ti_rh _ HI p0 Hp0 Hocc) as Hrh. rewrite Hh in Hrh.
      destruct (Hrh j Hjd) as [A B].
      set (q := (hashf k mod cap + j) mod cap) in *.
      assert (Hq : q < cap) by (apply cadd_lt; auto).
      destruct (N.eqb_spec (s_hash (tget t q)) 0) as [E0|E0]; [tauto|].
      destruct (N.ltb_spec (dist (s_hash (tget t q)) q cap) j) as [Hl|Hl]; [lia|].
      assert (Hqp : q <> p0).
      { intros Eq. assert (j = dist (hashf k) p0 cap); [|lia].
        apply (cadd_inj cap Hcap (hashf k)); [lia|lia|fold q; congruence]. }
      assert (Em : N.eqb (s_hash (tget t q)) (hashf k) && bytes_eqb (s_key (tget t q)) k = false).
      { apply andb_false_iff. right. apply bytes_eqb_neq. intros Ek. apply Hqp.
        apply (ti_distinct _ HI); auto. congruence. }
      rewrite Em. unfold q. rewrite cadd_succ by (auto; lia).
      apply IH; lia.
  Qed.

  (** ** [insert_loop], the key is present: walk to it and overwrite *)

  Lemma insert_hit_gen t p0 k v :
    TInv t -> p0 < cap -> s_hash (tget t p0) <> 0 -> s_key (tget t p0) = k ->
    forall n j fuel, N.of_nat n + j = dist (hashf k) p0 cap -> (n < fuel)%nat ->
    insert_loop fuel cap t ((hashf k mod cap + j) mod cap) j (hashf k) k v
    = Some (tset t p0 (mk (hashf k) k v), true).
  Proof.
    intros HI Hp0 Hocc Hkey.
    pose proof (ti_valid _ HI p0 Hp0 Hocc) as Hh. rewrite Hkey in Hh.
    pose proof (dist_lt cap Hcap (hashf k) p0) as Hdl.
    pose proof (cadd_dist cap Hcap (hashf k) p0 Hp0) as Hcd.
    induction n as [|n IH]; intros j fuel Hj Hf; (destruct fuel as [|f]; [lia|]); cbn [insert_loop].
    - assert (j = dist (hashf k) p0 cap) by lia. subst j. rewrite Hcd.
      destruct (N.eqb_spec (s_hash (tget t p0)) 0) as [E0|E0]; [tauto|].
      cbn [negb andb orb]. rewrite Hkey, bytes_eqb_refl. reflexivity.
    - assert (Hjd : j < dist (hashf k) p0 cap) by lia.
      pose proof (ti_rh _ HI p0 Hp0 Hocc) as Hrh. rewrite Hh in Hrh.
      destruct (Hrh j Hjd) as [A B].
      set (q := (hashf k mod cap + j) mod cap) in *.
      assert (Hq : q < cap) by (apply cadd_lt; auto).
      destruct (N.eqb_spec (s_hash (tget t q)) 0) as [E0|E0]; [tauto|].
      assert (Hqp : q <> p0).
      { intros Eq. assert (j = dist (hashf k) p0 cap); [|lia].
        apply (cadd_inj cap Hcap (hashf k)); [lia|lia|fold q; congruence]. }
      assert (Em : bytes_eqb (s_key (tget t q)) k = false).
      { apply bytes_eqb_neq. intros Ek. apply Hqp. apply (ti_distinct _ HI); auto. congruence. }
      rewrite Em. cbn [negb andb orb].
      destruct (N.ltb_spec (dist (s_hash (tget t q)) q cap) j) as [Hl|Hl]; [lia|].
      unfold q. rewrite cadd_succ by (auto; lia).
      apply IH; lia.
  Qed.

  (** ** [insert_loop], the key in hand is not in the table; [em] is an empty position *)

  Lemma insert_miss_gen em : forall fuel t pos d k v,
    TInv t -> em < cap -> s_hash (tget t em) = 0 -> pos < cap ->
    d = dist (hashf k) pos cap ->
    d + cgap cap pos em < cap ->
    path t (hashf k) d ->
    (forall p, p < cap -> s_hash (tget t p) <> 0 -> s_key (tget t p) <> k) ->
    (N.to_nat (cgap cap pos em) < fuel)%nat ->
    exists t', insert_loop fuel cap t pos d (hashf k) k v = Some (t', false) /\ TInv t' /\
               Permutation (elems t') (mk (hashf k) k v :: elems t).
  Proof.
    induction fuel as [|f IH];
      intros t pos d k v HI Hem Hemp Hpos Hd Hgap Hpath Hfresh Hfuel; [lia|].
    cbn [insert_loop].
    assert (Hlen : pos < N.of_nat (length t)) by (rewrite (ti_len _ HI); lia).
    pose proof (cadd_dist cap Hcap (hashf k) pos Hpos) as Hcd. rewrite <- Hd in Hcd.
    remember (tget t pos) as e eqn:Ee.
    destruct (N.eqb_spec (s_hash e) 0) as [He0|He0].
    - (* empty slot: place *)
      cbn [negb andb orb].
      eexists; split; [reflexivity|]. split.
      + apply TInv_tset; auto.
        * rewrite <- Hd; auto.
        * rewrite <- Ee. tauto.
      + apply elems_tset_empty; auto.
        * rewrite <- Ee; auto.
        * simpl. apply hash_nz.
    - cbn [negb andb orb]. destruct (bytes_eqb (s_key e) k) eqn:Hm.
      + exfalso. apply bytes_eqb_eq in Hm. apply (Hfresh pos); subst e; auto.
      + apply bytes_eqb_neq in Hm.
        assert (Hne : pos <> em) by (intros ->; subst e; tauto).
        pose proof (cgap_pos cap Hcap pos em Hpos Hem Hne) as Hg1.
        pose proof (cgap_succ cap Hcap pos em Hpos Hem Hne) as Hg2.
        pose proof (succ_lt cap Hcap pos) as Hsl.
        destruct (N.ltb_spec (dist (s_hash e) pos cap) d) as [Hlt|Hge].
        * (* swap *)
          assert (Hv1 : s_hash e = hashf (s_key e))
            by (subst e; apply (ti_valid _ HI); auto).
          assert (HI1 : TInv (tset t pos (mk (hashf k) k v))).
          { apply TInv_tset; auto.
            - rewrite <- Hd; auto.
            - rewrite <- Ee, <- Hd. lia. }
          pose proof (ti_rh _ HI pos Hpos) as Hrh. rewrite <- Ee in Hrh. specialize (Hrh He0).
          pose proof (cadd_dist cap Hcap (s_hash e) pos Hpos) as Hcde.
          pose proof (dist_lt cap Hcap (s_hash e) pos) as Hdle.
          rewrite Hv1 in *.
          set (ed := dist (hashf (s_key e)) pos cap) in *.
          destruct (IH (tset t pos (mk (hashf k) k v)) ((pos + 1) mod cap) (ed + 1) (s_key e) (s_val e))
            as (t' & E' & HI' & HP'); auto.
          -- rewrite tget_tset_other; auto.
          -- unfold ed. symmetry. apply dist_succ; auto. fold ed. lia.
          -- rewrite Hg2. lia.
          -- intros j Hj. rewrite !tget_tset by auto.
             destruct (N.eq_dec j ed) as [->|Hjne].
             ++ rewrite Hcde. rewrite N.eqb_refl. cbn [mk s_hash]. split; [apply hash_nz|lia].
             ++ assert (Hj' : j < ed) by lia. destruct (Hrh j Hj') as [A B].
                destruct (N.eqb_spec ((hashf (s_key e) mod cap + j) mod cap) pos) as [Eq|Eq]; [|split; auto].
                exfalso. assert (j = ed); [|lia].
                apply (cadd_inj cap Hcap (hashf (s_key e))); [lia|lia|congruence].
          -- intros p Hp. rewrite tget_tset by auto.
             destruct (N.eqb_spec p pos) as [Eq|Eq].
             ++ cbn [mk s_hash s_key]. intros _ Ek. congruence.
             ++ intros Ho Ek. apply Eq. apply (ti_distinct _ HI); auto.
                ** rewrite <- Ee, Hv1; auto.
                ** rewrite <- Ee; auto.
          -- rewrite Hg2. lia.
          -- exists t'. split; [exact E'|]. split; auto.
             destruct (elems_tset_occ t pos (mk (hashf k) k v)) as (rest & P1 & P2); auto.
             { rewrite <- Ee, Hv1; auto. }
             { simpl. apply hash_nz. }
             rewrite <- Ee in P1.
             rewrite <- Hv1 in HP'. rewrite mk_eta in HP'.
             eapply perm_trans; [exact HP'|].
             eapply perm_trans; [apply perm_skip; exact P2|].
             eapply perm_trans; [apply perm_swap|]. apply perm_skip. symmetry; auto.
        * (* keep going *)
          apply IH; auto.
          -- subst d. symmetry. apply dist_succ; auto. lia.
          -- rewrite Hg2. lia.
          -- intros j Hj. destruct (N.eq_dec j d) as [->|Hjne].
             ++ rewrite Hcd. rewrite <- Ee. split; auto.
             ++ apply Hpath. lia.
          -- rewrite Hg2. lia.
  Qed.

  (** ** [insert] *)

  Definition bytes_dec : forall a b : bytes, {a = b} + {a <> b} := list_eq_dec N.eq_dec.

  Lemma insert_spec t k v :
    TInv t -> (length (elems t) < length t)%nat ->
    exists t' ow, insert cap t (hashf k) k v = Some (t', ow) /\ TInv t' /\
      ((ow = false /\ (forall e, In e (elems t) -> s_key e <> k)
        /\ Permutation (elems t') (mk (hashf k) k v :: elems t))
       \/ (ow = true /\ exists e0 rest, s_key e0 = k /\ Permutation (elems t) (e0 :: rest)
                                    /\ Permutation (elems t') (mk (hashf k) k v :: rest))).
  Proof.
    intros HI Hocc. unfold insert.
    pose proof (ti_len _ HI) as Hlen.
    destruct (in_dec bytes_dec k (map s_key (elems t))) as [Hin|Hni].
    - apply in_map_iff in Hin as (e0 & Ek & Hin).
      apply In_elems in Hin as (p0 & Hp0 & Ep0 & Hh0).
      assert (Hp0' : p0 < cap) by lia.
      pose proof (dist_lt cap Hcap (hashf k) p0) as Hdl.
      pose proof (insert_hit_gen t p0 k v HI Hp0') as Hhit.
      rewrite Ep0 in Hhit. specialize (Hhit Hh0 Ek (N.to_nat (dist (hashf k) p0 cap)) 0 (S (N.to_nat cap))).
      rewrite (N.add_0_r (hashf k mod cap)), N.mod_mod in Hhit by lia.
      exists (tset t p0 (mk (hashf k) k v)), true. split; [apply Hhit; lia|].
      pose proof (ti_valid _ HI p0 Hp0') as Hv1. rewrite Ep0 in Hv1. specialize (Hv1 Hh0).
      rewrite Ek in Hv1.
      split.
      + apply TInv_tset; auto.
        * intros p Hp Hne Ho Ekk. apply Hne. apply (ti_distinct _ HI); auto.
          -- rewrite Ep0; auto.
          -- rewrite Ep0; congruence.
        * pose proof (ti_rh _ HI p0 Hp0') as Hrh. rewrite Ep0, Hv1 in Hrh. auto.
        * rewrite Ep0, Hv1. lia.
      + right. split; auto.
        destruct (elems_tset_occ t p0 (mk (hashf k) k v)) as (rest & P1 & P2); auto.
        { rewrite Ep0; auto. }
        { simpl; apply hash_nz. }
        rewrite Ep0 in P1. exists e0, rest. auto.
    - destruct (exists_empty t Hocc) as (em & Hem & Hemp).
      assert (Hem' : em < cap) by lia.
      pose proof (cgap_lt cap Hcap (hashf k mod cap) em) as Hgl.
      destruct (insert_miss_gen em (S (N.to_nat cap)) t (hashf k mod cap) 0 k v)
        as (t' & E' & HI' & HP'); auto.
      + apply N.mod_lt; lia.
      + symmetry. apply dist_home; auto.
      + intros j Hj. lia.
      + intros p Hp Ho Ek. apply Hni. apply in_map_iff. exists (tget t p). split; auto.
        apply In_elems. exists p. repeat split; auto. lia.
      + lia.
      + exists t', false. split; auto. split; auto. left. split; auto. split; auto.
        intros e Hin Ek. apply Hni. apply in_map_iff. exists e; auto.
  Qed.

  (** distinct keys, list form *)
  Lemma TInv_NoDup t : TInv t -> NoDup (map s_key (elems t)).
  Proof.
    intros HI. apply NoDup_keys_nat. intros i j Hi Hj Hhi Hhj E.
    pose proof (ti_len _ HI) as Hlen.
    assert (N.of_nat i = N.of_nat j); [|lia].
    apply (ti_distinct _ HI); unfold tget; rewrite ?Nat2N.id; auto; lia.
  Qed.

  Lemma TInv_elems_valid t e : TInv t -> In e (elems t) ->
    s_hash e = hashf (s_key e).
  Proof.
    intros HI Hin. apply In_elems in Hin as (p & Hp & Ep & Hh).
    pose proof (ti_len _ HI) as Hlen. rewrite <- Ep in *. apply (ti_valid _ HI); auto. lia.
  Qed.

  (** ** [h_index] on a [TInv] table *)

  Lemma index_hit t p0 k :
    TInv t -> p0 < cap -> s_hash (tget t p0) <> 0 -> s_key (tget t p0) = k ->
    index_loop (S (N.to_nat cap)) cap t (hashf k mod cap) 0 (hashf k) k = Some p0.
  Proof.
    intros HI Hp0 Ho Ek.
    pose proof (dist_lt cap Hcap (hashf k) p0) as Hdl.
    pose proof (index_hit_gen t p0 k HI Hp0 Ho Ek (N.to_nat (dist (hashf k) p0 cap)) 0 (S (N.to_nat cap))) as H.
    rewrite (N.add_0_r (hashf k mod cap)), N.mod_mod in H by lia. apply H; lia.
  Qed.

  Lemma index_miss t k fuel :
    (forall e, In e (elems t) -> s_key e <> k) -> length t = N.to_nat cap ->
    index_loop fuel cap t (hashf k mod cap) 0 (hashf k) k = None.
  Proof.
    intros Hni Hlen.
    destruct (index_loop fuel cap t (hashf k mod cap) 0 (hashf k) k) as [p|] eqn:E; auto.
    exfalso. apply index_sound in E as (A & B & C).
    assert (Hp : p < cap). { destruct C as [->|C]; auto. apply N.mod_lt; lia. }
    apply (Hni (tget t p)); auto. apply In_elems. exists p. repeat split; auto. lia.
  Qed.
End Inv.

(** * Fuel irrelevance of [index_loop] (no invariant needed) *)

Lemma index_fuel_gen cap t h k : 0 < cap ->
  forall n d pos f1 f2, N.of_nat n + d = cap -> (n < f1)%nat -> (n < f2)%nat ->
  index_loop f1 cap t pos d h k = index_loop f2 cap t pos d h k.
Proof.
  intros Hc. induction n as [|n IH]; intros d pos f1 f2 Hd H1 H2;
    (destruct f1 as [|f1]; [lia|]); (destruct f2 as [|f2]; [lia|]); cbn [index_loop].
  - destruct (N.eqb (s_hash (tget t pos)) 0); auto.
    pose proof (dist_lt cap Hc (s_hash (tget t pos)) pos).
    destruct (N.ltb_spec (dist (s_hash (tget t pos)) pos cap) d); auto. lia.
  - destruct (N.eqb (s_hash (tget t pos)) 0); auto.
    destruct (N.ltb (dist (s_hash (tget t pos)) pos cap) d); auto.
    destruct (N.eqb (s_hash (tget t pos)) h && bytes_eqb (s_key (tget t pos)) k); auto.
    apply IH; lia.
Qed.
