// Driver of C11 (line protocol / series key round trip; -mode c11, the default) and of
// C12 (parser totality and exact acceptance; -mode c12) on the REAL models package.
package main

import (
	"os"

	"verifh/vh"
)

func main() {
	mode := os.Getenv("VERIF_C11_MODE")
	for i, a := range os.Args {
		if a == "-mode" && i+1 < len(os.Args) {
			mode = os.Args[i+1]
			os.Args = append(os.Args[:i], os.Args[i+2:]...)
			break
		}
	}
	if mode == "c12" {
		w := vh.New("C12", "From Verif Require Import Base.Prelude Model.C11 Model.C12.", "case", "check")
		main12(w)
		return
	}
	w := vh.New("C11", "From Verif Require Import Base.Prelude Model.C11.", "case", "check")
	main11(w)
}
