(** C43 — the state invariant of the DBRP mapping service and its preservation by every operation (Create, Update, Delete of a physical or virtual mapping, DeleteBucket). *)
From Verif Require Import Base.Prelude Model.C43 Proofs.C43_base.
Local Open Scope N_scope.

(** ---- the invariant ---- *)
Definition has (s : list (N * rec)) (o d id : N) : Prop :=
  exists r, lookup id s = Some r /\ r_org r = o /\ r_db r = d.

Definition dfl_ok_at (s : list (N * rec)) (dl : list (N * N * N)) (o d : N) : Prop :=
  match dget o d dl with
  | Some id => has s o d id
  | None => forall id, ~ has s o d id
  end.

Definition uniq (s : list (N * rec)) : Prop :=
  forall id1 id2 r1 r2, lookup id1 s = Some r1 -> lookup id2 s = Some r2 ->
    r_org r1 = r_org r2 -> r_db r1 = r_db r2 -> r_rp r1 = r_rp r2 -> id1 = id2.

Record Inv (base : N) (st : state) : Prop := {
  inv_idx : forall o d id, In (o, d, id) (iod st) <-> has (src st) o d id;
  inv_uniq : uniq (src st);
  inv_dfl : forall o d, dfl_ok_at (src st) (dfl st) o d;
  inv_fresh : forall id r, lookup id (src st) = Some r -> base <= id < next st;
  inv_next : base <= next st;
  inv_bk : forall b, In b (bks st) -> b_id b < base }.

Lemma pair_eqb o d o' d' : (o' =? o) && (d' =? d) = true <-> o' = o /\ d' = d.
Proof. rewrite andb_true_iff, !N.eqb_eq. tauto. Qed.

Lemma dfl_ok_dput s dl o d f :
  (forall o' d', ~ (o' = o /\ d' = d) -> dfl_ok_at s dl o' d') -> has s o d f ->
  forall o' d', dfl_ok_at s (dput o d f dl) o' d'.
Proof.
  intros H Hf o' d'. unfold dfl_ok_at. rewrite dget_dput.
  destruct ((o' =? o) && (d' =? d)) eqn:E.
  - apply pair_eqb in E as [? ?]; subst. exact Hf.
  - apply H. intro C. apply pair_eqb in C. congruence.
Qed.

Lemma dfl_ok_dremove s dl o d :
  (forall o' d', ~ (o' = o /\ d' = d) -> dfl_ok_at s dl o' d') -> (forall id, ~ has s o d id) ->
  forall o' d', dfl_ok_at s (dremove o d dl) o' d'.
Proof.
  intros H Hf o' d'. unfold dfl_ok_at. rewrite dget_dremove.
  destruct ((o' =? o) && (d' =? d)) eqn:E.
  - apply pair_eqb in E as [? ?]; subst. exact Hf.
  - apply H. intro C. apply pair_eqb in C. congruence.
Qed.

Lemma find_bucket_some id l b : find_bucket id l = Some b -> In b l /\ b_id b = id.
Proof.
  induction l as [|x l IH]; cbn; [discriminate|].
  destruct (b_id x =? id) eqn:E.
  - intro H; inversion H; subst. apply N.eqb_eq in E. auto.
  - intro H. apply IH in H. tauto.
Qed.

Lemma find_bucket_none_ge base st id :
  Inv base st -> base <= id -> find_bucket id (bks st) = None.
Proof.
  intros I Hid. destruct (find_bucket id (bks st)) eqn:E; [|reflexivity].
  apply find_bucket_some in E as [Hin Hb]. apply (inv_bk _ _ I) in Hin. lia.
Qed.

(** [first_but] *)
Lemma first_but_some st o d skip f :
  first_but st o d skip = Some f -> f <> skip /\ exists r, In (f, r) (walk_od st o d).
Proof.
  unfold first_but. destruct (filter _ _) as [|[k v] t] eqn:E; [discriminate|].
  cbn. intro H; injection H as <-.
  assert (Hin : In (k, v) (filter (fun kv : N * rec => negb (fst kv =? skip)) (walk_od st o d))).
  { rewrite E. left; reflexivity. }
  apply filter_In in Hin as [H1 H2]. cbn in H2. split.
  - intro; subst. rewrite N.eqb_refl in H2. discriminate.
  - eauto.
Qed.

Lemma first_but_none st o d skip :
  first_but st o d skip = None -> forall id r, In (id, r) (walk_od st o d) -> id = skip.
Proof.
  unfold first_but. destruct (filter _ _) as [|[k v] t] eqn:E; [|discriminate].
  intros _ id r Hin. destruct (id =? skip) eqn:E2; [apply N.eqb_eq; exact E2|].
  assert (Hf : In (id, r) (filter (fun kv : N * rec => negb (fst kv =? skip)) (walk_od st o d))).
  { apply filter_In. split; [exact Hin|]. cbn. rewrite E2. reflexivity. }
  rewrite E in Hf. destruct Hf.
Qed.

(** [unique_ok] *)
Lemma unique_ok_true st o d rp id :
  unique_ok st o d rp id = true ->
  forall id' r', In (id', r') (walk_od st o d) -> id' <> id -> r_rp r' <> rp.
Proof.
  unfold unique_ok. intros H id' r' Hin Hne Hrp.
  apply negb_true_iff in H.
  assert (E : existsb (fun kv : N * rec => negb (fst kv =? id) && (r_rp (snd kv) =? rp)) (walk_od st o d) = true).
  { apply existsb_exists. exists (id', r'). split; [exact Hin|]. cbn.
    apply andb_true_iff. split.
    - apply negb_true_iff. apply N.eqb_neq. exact Hne.
    - apply N.eqb_eq. exact Hrp. }
  congruence.
Qed.

(** ---- Delete ---- *)
Definition delete_core (st : state) (o id oo od : N) (isdef : bool) : state :=
  let st1 := {| src := remove id (src st);
                iod := del3 (oo, od, id) (iod st);
                io := del2 (o, id) (io st);
                dfl := dfl st; bks := bks st; next := next st |} in
  let dfl' :=
    if isdef then
      match first_but st1 oo od id with
      | Some f => dput oo od f (dfl st)
      | None => dremove oo od (dfl st)
      end
    else dfl st in
  {| src := src st1; iod := iod st1; io := io st1; dfl := dfl'; bks := bks st; next := next st |}.

Lemma delete_unfold st o id :
  delete st o id =
  match find_by_id st o id with
  | None => (st, E_OK)
  | Some old => (delete_core st o id (m_org old) (m_db old) (m_def old), E_OK)
  end.
Proof. reflexivity. Qed.

Lemma delete_core_inv base st o id oo od isdef :
  Inv base st ->
  (forall r, lookup id (src st) = Some r -> r_org r = oo /\ r_db r = od) ->
  (isdef = false -> forall o' d', dget o' d' (dfl st) <> Some id) ->
  Inv base (delete_core st o id oo od isdef).
Proof.
  intros I P Q.
  assert (Hhas : forall o' d' id', has (remove id (src st)) o' d' id' <-> has (src st) o' d' id' /\ id' <> id).
  { intros o' d' id'. unfold has. rewrite lookup_remove. destruct (id' =? id) eqn:E.
    - apply N.eqb_eq in E. split; [intros [r [H _]]; discriminate | intros [_ H]; congruence].
    - apply N.eqb_neq in E. split; [intros H; split; auto | intros [H _]; exact H]. }
  assert (Hidx : forall o' d' id', In (o', d', id') (del3 (oo, od, id) (iod st)) <-> has (remove id (src st)) o' d' id').
  { intros o' d' id'. rewrite in_del3, Hhas, (inv_idx _ _ I). split; intros [H1 H2]; split; auto.
    - intro; subst. destruct H1 as [r [H1 [H3 H4]]]. destruct (P r H1). apply H2. congruence.
    - intro C. inversion C. congruence. }
  assert (Hother : forall o' d', ~ (o' = oo /\ d' = od) \/ isdef = false ->
                    dfl_ok_at (remove id (src st)) (dfl st) o' d').
  { intros o' d' Hc. pose proof (inv_dfl _ _ I o' d') as D. unfold dfl_ok_at in *.
    destruct (dget o' d' (dfl st)) as [x|] eqn:E.
    - apply Hhas. split; [exact D|]. intro; subst x.
      destruct Hc as [Hc | Hc]; [|exact (Q Hc _ _ E)].
      destruct D as [r [H1 [H3 H4]]]. destruct (P r H1). apply Hc. split; congruence.
    - intros id' H. apply Hhas in H as [H _]. exact (D id' H). }
  constructor; cbn [delete_core src iod io dfl bks next].
  - exact Hidx.
  - intros id1 id2 r1 r2 H1 H2. rewrite lookup_remove in H1, H2.
    destruct (id1 =? id); [discriminate|]. destruct (id2 =? id); [discriminate|].
    exact (inv_uniq _ _ I id1 id2 r1 r2 H1 H2).
  - destruct isdef; [|intros; apply Hother; auto].
    match goal with |- context [first_but ?s oo od id] => destruct (first_but s oo od id) as [f|] eqn:F end.
    + apply dfl_ok_dput; [intros; apply Hother; auto|].
      apply first_but_some in F as [Hne [r Hin]]. apply in_walk_od in Hin as [Hin _]. cbn in Hin.
      apply Hidx. exact Hin.
    + apply dfl_ok_dremove; [intros; apply Hother; auto|].
      intros id' H. pose proof (first_but_none _ _ _ _ F) as N0.
      pose proof H as H'. apply Hhas in H' as [_ Hne]. apply Hne.
      destruct H as [r [H1 [H3 H4]]].
      apply (N0 id' r). apply in_walk_od. cbn. split; [|exact H1].
      apply Hidx. exists r; auto.
  - intros id' r H. rewrite lookup_remove in H. destruct (id' =? id); [discriminate|].
    exact (inv_fresh _ _ I id' r H).
  - exact (inv_next _ _ I).
  - exact (inv_bk _ _ I).
Qed.

Lemma find_by_id_cases st o id old :
  find_by_id st o id = Some old ->
  (exists r, lookup id (src st) = Some r /\ r_org r = o /\
             old = rec2m id r (is_default st (r_org r) (r_db r) id)) \/
  (exists b, find_bucket id (bks st) = Some b /\ old = b2m b).
Proof.
  unfold find_by_id, virt_by_id. destruct (lookup id (src st)) as [r|] eqn:L.
  - destruct (r_org r =? o) eqn:E.
    + intro H; inversion H; subst. left. exists r. apply N.eqb_eq in E. auto.
    + destruct (find_bucket id (bks st)) eqn:Fb; [|discriminate].
      intro H; inversion H; subst. right. eauto.
  - destruct (find_bucket id (bks st)) eqn:Fb; [|discriminate].
    intro H; inversion H; subst. right. eauto.
Qed.

Lemma delete_inv base st o id : Inv base st -> Inv base (fst (delete st o id)).
Proof.
  intro I. rewrite delete_unfold. destruct (find_by_id st o id) as [old|] eqn:F; [|exact I].
  cbn [fst]. apply find_by_id_cases in F as [[r [L [Ho Hold]]] | [b [Fb Hold]]]; subst old.
  - apply delete_core_inv; [exact I| |]; cbn.
    + intros r' L'. rewrite L in L'. inversion L'; subst. auto.
    + unfold is_default. intros Hd o' d' E.
      pose proof (inv_dfl _ _ I o' d') as D. unfold dfl_ok_at in D. rewrite E in D.
      destruct D as [r' [L' [H1 H2]]]. rewrite L in L'. inversion L'; subst r'.
      subst. rewrite E, N.eqb_refl in Hd. discriminate.
  - apply find_bucket_some in Fb as [Hin Hb]. apply (inv_bk _ _ I) in Hin.
    assert (Hno : lookup id (src st) = None).
    { destruct (lookup id (src st)) eqn:L; [|reflexivity]. apply (inv_fresh _ _ I) in L. lia. }
    apply delete_core_inv; [exact I| |]; cbn.
    + intros r' L'. congruence.
    + intros _ o' d' E. pose proof (inv_dfl _ _ I o' d') as D. unfold dfl_ok_at in D. rewrite E in D.
      destruct D as [r' [L' _]]. congruence.
Qed.

Lemma Inv_with_next base st n : Inv base st -> next st <= n -> Inv base (with_next st n).
Proof.
  intros I H. constructor; cbn; try apply I.
  - intros id r L. pose proof (inv_fresh _ _ I id r L). lia.
  - pose proof (inv_next _ _ I). lia.
Qed.

(** ---- Update ---- *)
Lemma update_inv base st o id rp def virt :
  Inv base st -> Inv base (fst (update st o id rp def virt)).
Proof.
  intros I. unfold update.
  destruct (negb (name_ok rp)); [exact I|].
  destruct (find_by_id st o id) as [old|] eqn:F; [|exact I].
  apply find_by_id_cases in F as [[r [L [Ho Hold]]] | [b [Fb Hold]]]; subst old.
  2:{ cbn [b2m m_virt fst]. exact I. }
  cbn [m_org m_db m_bkt m_def m_virt rec2m].
  destruct (r_virt r); [exact I|].
  destruct (negb (unique_ok st (r_org r) (r_db r) rp id)) eqn:U; [exact I|].
  apply negb_false_iff in U. pose proof (unique_ok_true _ _ _ _ _ U) as Uq.
  set (r' := mkrec (r_org r) (r_db r) rp (r_bkt r) false).
  assert (Hhas : forall o' d' id', has (put id r' (src st)) o' d' id' <-> has (src st) o' d' id').
  { intros o' d' id'. unfold has. rewrite lookup_put. destruct (id' =? id) eqn:E.
    - apply N.eqb_eq in E. subst id'. split.
      + intros [x [H [H1 H2]]]. inversion H; subst x. exists r. auto.
      + intros [x [H [H1 H2]]]. rewrite L in H. inversion H; subst x. exists r'. auto.
    - tauto. }
  assert (Hd : forall o' d', dfl_ok_at (put id r' (src st)) (dfl st) o' d').
  { intros o' d'. pose proof (inv_dfl _ _ I o' d') as D. unfold dfl_ok_at in *.
    destruct (dget o' d' (dfl st)); [apply Hhas; exact D|]. intros x Hx. apply Hhas in Hx. exact (D x Hx). }
  cbn [fst]. constructor; cbn [src iod io dfl bks next].
  - intros o' d' id'. rewrite Hhas. apply (inv_idx _ _ I).
  - intros id1 id2 r1 r2 H1 H2 E1 E2 E3. rewrite lookup_put in H1, H2.
    destruct (id1 =? id) eqn:A1; destruct (id2 =? id) eqn:A2.
    + apply N.eqb_eq in A1, A2. congruence.
    + apply N.eqb_eq in A1. apply N.eqb_neq in A2. inversion H1; subst r1. cbn in E1, E2, E3.
      exfalso. apply (Uq id2 r2); auto.
      apply in_walk_od. split; [|exact H2]. apply (inv_idx _ _ I). exists r2. auto.
    + apply N.eqb_eq in A2. apply N.eqb_neq in A1. inversion H2; subst r2. cbn in E1, E2, E3.
      exfalso. apply (Uq id1 r1); auto.
      apply in_walk_od. split; [|exact H1]. apply (inv_idx _ _ I). exists r1. auto.
    + exact (inv_uniq _ _ I id1 id2 r1 r2 H1 H2 E1 E2 E3).
  - assert (Hself : has (put id r' (src st)) (r_org r) (r_db r) id).
    { apply Hhas. exists r. auto. }
    destruct def; [apply dfl_ok_dput; auto|].
    destruct (is_default st (r_org r) (r_db r) id); [|exact Hd].
    match goal with |- context [first_but ?s ?a ?b ?c] => destruct (first_but s a b c) as [f|] eqn:Fb end; [|exact Hd].
    apply dfl_ok_dput; auto.
    apply first_but_some in Fb as [Hne [x Hin]]. apply in_walk_od in Hin as [Hin _]. cbn in Hin.
    apply Hhas. apply (inv_idx _ _ I). exact Hin.
  - intros id' x H. rewrite lookup_put in H. destruct (id' =? id) eqn:E.
    + apply N.eqb_eq in E; subst. exact (inv_fresh _ _ I id r L).
    + exact (inv_fresh _ _ I id' x H).
  - exact (inv_next _ _ I).
  - exact (inv_bk _ _ I).
Qed.

(** ---- Create ---- *)
Lemma create_inv base st o d rp b def : Inv base st -> Inv base (fst (create st o d rp b def)).
Proof.
  intro I. unfold create.
  assert (W : Inv base (with_next st (next st + 1))) by (apply Inv_with_next; [exact I | lia]).
  destruct (negb (name_ok d) || negb (name_ok rp) || (b =? 0)); [exact W|].
  destruct (find_bucket b (bks st)); [|exact W].
  destruct (match find_by_id st o (next st) with Some m => negb (m_virt m) | None => false end); [exact W|].
  destruct (negb (unique_ok st o d rp (next st))) eqn:U; [exact W|].
  apply negb_false_iff in U. pose proof (unique_ok_true _ _ _ _ _ U) as Uq.
  set (id := next st) in *. set (r' := mkrec o d rp b false).
  assert (Hno : lookup id (src st) = None).
  { destruct (lookup id (src st)) eqn:L; [|reflexivity]. apply (inv_fresh _ _ I) in L. unfold id in L. lia. }
  assert (Hhas : forall o' d' id', has (put id r' (src st)) o' d' id' <->
                                   has (src st) o' d' id' \/ (id' = id /\ o' = o /\ d' = d)).
  { intros o' d' id'. unfold has. rewrite lookup_put. destruct (id' =? id) eqn:E.
    - apply N.eqb_eq in E. subst id'. split.
      + intros [x [H [H1 H2]]]. inversion H; subst x. cbn in *. right. auto.
      + intros [[x [H _]] | [_ [H1 H2]]]; [congruence|]. subst. exists r'. auto.
    - apply N.eqb_neq in E. split; [auto | intros [H | [H _]]; [exact H | contradiction]]. }
  assert (Hd : forall o' d', ~ (o' = o /\ d' = d) -> dfl_ok_at (put id r' (src st)) (dfl st) o' d').
  { intros o' d' Hne. pose proof (inv_dfl _ _ I o' d') as D. unfold dfl_ok_at in *.
    destruct (dget o' d' (dfl st)); [apply Hhas; auto|].
    intros x Hx. apply Hhas in Hx as [Hx | [_ Hx]]; [exact (D x Hx) | exact (Hne Hx)]. }
  cbn [fst]. constructor; cbn [src iod io dfl bks next].
  - intros o' d' id'. rewrite in_ins3, Hhas, (inv_idx _ _ I). split.
    + intros [H | H]; [inversion H; subst; auto | auto].
    + intros [H | [H1 [H2 H3]]]; [auto | subst; auto].
  - intros id1 id2 r1 r2 H1 H2 E1 E2 E3. rewrite lookup_put in H1, H2.
    destruct (id1 =? id) eqn:A1; destruct (id2 =? id) eqn:A2.
    + apply N.eqb_eq in A1, A2. congruence.
    + apply N.eqb_neq in A2. inversion H1; subst r1. cbn in E1, E2, E3.
      exfalso. apply (Uq id2 r2); auto.
      apply in_walk_od. split; [|exact H2]. apply (inv_idx _ _ I). exists r2. auto.
    + apply N.eqb_neq in A1. inversion H2; subst r2. cbn in E1, E2, E3.
      exfalso. apply (Uq id1 r1); auto.
      apply in_walk_od. split; [|exact H1]. apply (inv_idx _ _ I). exists r1. auto.
    + exact (inv_uniq _ _ I id1 id2 r1 r2 H1 H2 E1 E2 E3).
  - assert (Hself : has (put id r' (src st)) o d id) by (apply Hhas; right; auto).
    destruct (dget o d (dfl st)) as [x|] eqn:G; cbn [negb orb].
    + destruct def; cbn [orb]; [apply dfl_ok_dput; auto|].
      intros o' d'. destruct (N.eq_dec o' o) as [->|Ho]; [destruct (N.eq_dec d' d) as [->|Hd']|].
      * pose proof (inv_dfl _ _ I o d) as D. unfold dfl_ok_at in *. rewrite G in *. apply Hhas. auto.
      * apply Hd. tauto.
      * apply Hd. tauto.
    + rewrite orb_true_r. apply dfl_ok_dput; auto.
  - intros id' x H. rewrite lookup_put in H. destruct (id' =? id) eqn:E.
    + apply N.eqb_eq in E. subst id'. pose proof (inv_next _ _ I). unfold id. lia.
    + pose proof (inv_fresh _ _ I id' x H). lia.
  - pose proof (inv_next _ _ I). unfold id. lia.
  - exact (inv_bk _ _ I).
Qed.

(** ---- DeleteBucket ---- *)
Lemma fold_delete_inv base o (ms : list mapping) : forall st,
  Inv base st -> Inv base (fold_left (fun s m => fst (delete s o (m_id m))) ms st).
Proof.
  induction ms as [|m ms IH]; intros st I; cbn; [exact I|]. apply IH. apply delete_inv. exact I.
Qed.

Lemma del_bucket_inv base st bid : Inv base st -> Inv base (fst (del_bucket st bid)).
Proof.
  intro I. unfold del_bucket. destruct (find_bucket bid (bks st)) as [b|]; [|exact I].
  set (st1 := {| src := src st; iod := iod st; io := io st; dfl := dfl st;
                 bks := remove_bucket bid (bks st); next := next st |}).
  assert (I1 : Inv base st1).
  { constructor; cbn; try apply I. intros x Hx. apply filter_In in Hx as [Hx _]. exact (inv_bk _ _ I x Hx). }
  destruct (find_many st1 (fbkt (b_org b) bid)); cbn [fst]; [|exact I1|exact I1].
  apply fold_delete_inv. exact I1.
Qed.

Lemma step_inv base st o : Inv base st -> Inv base (fst (step st o)).
Proof.
  intros I. destruct o; cbn [step].
  - apply create_inv; exact I.
  - apply update_inv; exact I.
  - apply delete_inv; exact I.
  - apply del_bucket_inv; exact I.
Qed.

Definition wf_bk (bk : list bucket) (base : N) : Prop := forall b, In b bk -> b_id b < base.

Lemma in_insert_key {A} (key : A -> N) x z l : In z (insert_key key x l) <-> z = x \/ In z l.
Proof.
  induction l as [|y l IH]; cbn; [intuition|].
  destruct (key x <? key y); cbn; [intuition|]. rewrite IH. intuition.
Qed.

Lemma in_isort {A} (key : A -> N) z l : In z (isort key l) <-> In z l.
Proof.
  induction l as [|y l IH]; cbn; [tauto|]. rewrite in_insert_key, IH. intuition.
Qed.

Lemma init_inv bk base : wf_bk bk base -> Inv base (init bk base).
Proof.
  intro W. constructor; cbn.
  - intros o d id. split; [tauto|]. intros [r [H _]]. discriminate.
  - intros id1 id2 r1 r2 H. discriminate.
  - intros o d. unfold dfl_ok_at. cbn. intros id [r [H _]]. discriminate.
  - intros id r H. discriminate.
  - lia.
  - intros b Hb. apply in_isort in Hb. exact (W b Hb).
Qed.

Lemma fold_inv base ops : forall st,
  Inv base st -> Inv base (fold_left (fun s o => fst (step s o)) ops st).
Proof.
  induction ops as [|o ops IH]; intros st I; cbn; [exact I|].
  apply IH. apply step_inv; assumption.
Qed.

Lemma run_inv bk base ops : wf_bk bk base -> Inv base (run bk base ops).
Proof. intros W. apply fold_inv. apply init_inv; exact W. Qed.
